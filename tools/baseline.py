#!/usr/bin/env python3
"""Run the repository's baseline suite (guard off) and compare with /root/.vp/BASELINE.json.
usage: baseline.py [repo_dir]   exit 0 iff every stable_pass test passes."""
import json, os, subprocess, sys
repo = sys.argv[1] if len(sys.argv) > 1 else "/repo"
env = dict(os.environ, GOFLAGS="-mod=mod", GOPROXY="off", GOSUMDB="off", GOTOOLCHAIN="local")
base = json.load(open("/root/.vp/BASELINE.json"))
want = set(base["stable_pass"])
p = subprocess.run(["go", "test", "-json", "-vet=off", "-count=1", "-timeout", "25m", "./pkg/...", "./test/..."], cwd=repo, env=env, capture_output=True, text=True)
passed, failed = set(), set()
for line in p.stdout.splitlines():
    try:
        e = json.loads(line)
    except Exception:
        continue
    if e.get("Test") and e.get("Action") in ("pass", "fail"):
        key = e["Package"] + "::" + e["Test"]
        (passed if e["Action"] == "pass" else failed).add(key)
missing = sorted(want - passed)
print(f"baseline: {len(want & passed)}/{len(want)} stable tests pass; failed={len(failed)}")
for m in missing[:20]:
    print("  MISSING/FAILED:", m)
subprocess.run(["git", "-C", repo, "checkout", "--", "go.sum", "go.mod"], capture_output=True)
sys.exit(1 if missing else 0)

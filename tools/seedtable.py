#!/usr/bin/env python3
"""Print a markdown table of /verif/seeded/*/meta.json (for DESIGN.md section 8)."""
import json, glob, os
rows = []
for f in sorted(glob.glob('/verif/seeded/*/meta.json')):
    m = json.load(open(f)); n = os.path.basename(os.path.dirname(f))
    v = m.get('verification', {})
    first = (m.get('history') or [{}])[0].get('caught_by') if m.get('history') else None
    caught = ', '.join(sorted(set(k.split()[0] for k in m.get('caught_by', [])))) or 'MISSED'
    note = ''
    if m.get('history') and not first:
        note = ' (missed at first; check strengthened)'
    if m.get('obsolete'):
        note += ' (obsolete: cannot be expressed on the current tree, see meta.json)'
    rows.append('| %s | %s | %s | %s%s |' % (n, m.get('title', '')[:110].replace('|', '/'), (m.get('needs_to_manifest') or '')[:160].replace('|', '/').replace('\n', ' '), caught, note))
print('| seeded change | what it does | needs, to manifest | caught by |\n|---|---|---|---|')
print('\n'.join(rows))

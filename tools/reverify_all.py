#!/usr/bin/env python3
"""reverify_all.py [-P N] : re-run every seeded change (not obsolete) at seed 1 against its own property's check and the checks that caught it before."""
import json, glob, os, subprocess, sys
from concurrent.futures import ThreadPoolExecutor
P = 6
if len(sys.argv) > 2 and sys.argv[1] == "-P": P = int(sys.argv[2])
jobs = []
for f in sorted(glob.glob('/verif/seeded/*/meta.json')):
    m = json.load(open(f)); n = os.path.basename(os.path.dirname(f))
    if m.get('obsolete'): continue
    checks = [n.split('-')[0]] + [k.split()[0] for k in (m.get('caught_by') or [])]
    checks = sorted(set(checks), key=lambda c: (c != n.split('-')[0], c))
    jobs.append((n, checks))
def run(j):
    n, checks = j
    p = subprocess.run(['python3', '/verif/tools/seedverify.py', '/verif/seeded/' + n, n, '--checks', ','.join(checks), '--seeds', '1'], capture_output=True, text=True)
    line = (p.stdout.strip().splitlines() or ['?'])[-1]
    print(line, flush=True)
with ThreadPoolExecutor(P) as ex:
    list(ex.map(run, jobs))

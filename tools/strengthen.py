#!/usr/bin/env python3
"""strengthen.py <ID> <missed names,comma> : print the strengthening-builder prompt for one property."""
import json, sys, glob, os
pid = sys.argv[1]
missed = sys.argv[2].split(',')
t = open('/verif/tools/strengthen_prompt.txt').read()
lines = []
for n in missed:
    m = json.load(open('/verif/seeded/%s/meta.json' % n))
    lines.append('  - /verif/seeded/%s/ : %s\n      needs: %s' % (n, m.get('what_it_breaks', m.get('title', ''))[:400], m.get('needs_to_manifest', '')[:500]))
caught = []
for d in sorted(glob.glob('/verif/seeded/%s-*' % pid)):
    n = os.path.basename(d)
    if n in missed:
        continue
    m = json.load(open(d + '/meta.json'))
    if any(k.startswith(pid + ' ') for k in (m.get('caught_by') or [])):
        caught.append(n)
print(t.replace('{ID}', pid).replace('{id}', pid.lower()).replace('{MISSED}', '\n'.join(lines)).replace('{CAUGHT}', ', '.join(caught) or '(none)'))

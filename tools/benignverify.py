#!/usr/bin/env python3
"""benignverify.py <src_dir> <name> [--checks C01,C02|all] [--seeds 1] [-j N]

False-alarm test: confirm one BENIGN change (observable difference, property still holds; written by a sub-agent that
saw only the property text) and run the checks against it. A check that exits 1 here is either over-strict (a false
alarm to repair) or the change is not benign after all - that is triaged by hand and recorded in meta.json `triage`.
  <src_dir>  directory holding patch.diff, demo_test.go, meta.json (as the author left them under _benign/<k>/)
  <name>     name under /verif/benign/ (e.g. C01-B1)
All work happens in a fresh scratch worktree of /repo HEAD under /tmp, removed afterwards.
"""
import json, os, re, shutil, subprocess, sys, time
from concurrent.futures import ThreadPoolExecutor

ENV = dict(os.environ, GOFLAGS="-mod=mod", GOPROXY="off", GOSUMDB="off", GOTOOLCHAIN="local")
ALL = ["C%02d" % i for i in range(1, 21)]


def sh(cmd, cwd=None, timeout=3600, env=None):
    p = subprocess.run(cmd, shell=True, cwd=cwd, env=env or ENV, capture_output=True, text=True, errors="replace", timeout=timeout)
    return p.returncode, (p.stdout + p.stderr)


def main():
    src, name = sys.argv[1], sys.argv[2]
    checks, seeds, jobs, merge = None, ["1"], 4, False
    a = sys.argv[3:]
    while a:
        if a[0] == "--checks":
            checks = ALL if a[1] == "all" else a[1].split(",")
        elif a[0] == "--seeds":
            seeds = a[1].split(",")
        elif a[0] == "-j":
            jobs = int(a[1])
        elif a[0] == "--merge":  # keep the results of an earlier run for checks not re-run now
            merge = True
            a = a[1:]
            continue
        a = a[2:]
    meta = json.load(open(os.path.join(src, "meta.json")))
    triage = meta.get("triage")
    earlier = (meta.get("verification") or {}).get("checks", {}) if merge else {}
    if checks is None:
        checks = ALL
    wt = "/tmp/bv-" + name
    sh("git -C /repo worktree remove --force %s" % wt)
    shutil.rmtree(wt, ignore_errors=True)
    rc, out = sh("git -C /repo worktree add -q --detach %s HEAD" % wt)
    if rc:
        print("worktree failed", out)
        return 2
    ver = dict(at=time.strftime("%Y-%m-%dT%H:%M:%SZ", time.gmtime()), repo_head=sh("git -C /repo rev-parse --short HEAD")[1].strip())
    try:
        demo_dst = os.path.join(wt, meta["demo_path"])
        os.makedirs(os.path.dirname(demo_dst), exist_ok=True)
        shutil.copy(os.path.join(src, "demo_test.go"), demo_dst)
        pkgdir = "./" + os.path.dirname(meta["demo_path"]) + "/"
        base = "go test -vet=off -count=1 %s -run " % pkgdir
        rc, out = sh(base + "'TestBenignPropertyHolds'", cwd=wt)
        ver["property_holds_test_clean"] = "pass" if rc == 0 and "no tests to run" not in out else "FAIL/none"
        rc, out = sh("go test -vet=off -count=1 %s" % pkgdir + " -run 'Benign|Demo|Seed|ZZ'", cwd=wt)
        ver["demo_all_clean"] = "pass" if rc == 0 else "FAIL"
        pf = os.path.join(os.path.abspath(src), "patch.diff")
        rc, out = sh("git apply --whitespace=nowarn %s" % pf, cwd=wt)
        ver["patch_applies"] = rc == 0
        if rc != 0:
            ver["patch_output"] = out[-800:]
            raise SystemExit
        rc, out = sh(base + "'TestBenignPropertyHolds'", cwd=wt)
        ver["property_holds_test_patched"] = "pass" if rc == 0 and "no tests to run" not in out else "FAIL/none"
        rc, out = sh("go test -vet=off -count=1 %s" % pkgdir + " -run 'Benign|Demo|Seed|ZZ'", cwd=wt)
        ver["difference_observable"] = "yes (a pinned test fails with the patch)" if rc != 0 else "NO (all demo tests pass with the patch)"
        os.remove(demo_dst)
        rc, out = sh("go build ./pkg/... && python3 /verif/tools/baseline.py %s" % wt, cwd=wt)
        ver["baseline_with_patch"] = "pass" if rc == 0 else "FAIL"
        ver["checks"] = dict(earlier)

        def one(cs):
            cid, sd = cs
            t0 = time.time()
            e = dict(ENV, VERIF_REPO=wt, VERIF_SEED=sd)
            rc, out = sh("./check %s --tier quick" % cid, cwd="/verif", env=e)
            lines = [l[:600] for l in out.splitlines() if l.startswith(("VIOLATION", "FAIL ", "INCONCLUSIVE", "OK "))]
            keep = []
            for l in lines:
                if l.startswith("VIOLATION") and "replay=" in l:
                    rp = l.split("replay=")[1].split()[0]
                    k = os.path.join("/verif/benign", name, "alarm-%s-" % cid + os.path.basename(rp))
                    os.makedirs(os.path.dirname(k), exist_ok=True)
                    if os.path.exists(rp) and "/scratch/replays.alt" in rp:
                        shutil.copy(rp, k)
                        keep.append(k)
            return "%s seed=%s" % (cid, sd), dict(exit=rc, wall_s=round(time.time() - t0, 1), lines=lines[:6], replays=keep)

        with ThreadPoolExecutor(jobs) as ex:
            for k, v in ex.map(one, [(c, s) for c in checks for s in seeds]):
                ver["checks"][k] = v
    except SystemExit:
        pass
    finally:
        sh("git -C /repo worktree remove --force %s" % wt)
        shutil.rmtree(wt, ignore_errors=True)
        sh("git -C /repo worktree prune")
        for d in ("evidence", "replays"):  # per-worktree scratch of the driver
            pass
    dst = os.path.join("/verif/benign", name)
    os.makedirs(dst, exist_ok=True)
    for f in ("patch.diff", "demo_test.go"):
        if os.path.abspath(os.path.join(src, f)) != os.path.abspath(os.path.join(dst, f)):
            shutil.copy(os.path.join(src, f), os.path.join(dst, f))
    meta["verification"] = ver
    alarms = sorted(k for k, v in ver.get("checks", {}).items() if v["exit"] == 1)
    incon = sorted(k for k, v in ver.get("checks", {}).items() if v["exit"] not in (0, 1))
    meta["alarms"] = alarms
    meta["inconclusive"] = incon
    if triage:
        meta["triage"] = triage
    json.dump(meta, open(os.path.join(dst, "meta.json"), "w"), indent=1, ensure_ascii=False)
    print("%s %s alarms=%s inconclusive=%s holds_test=%s/%s observable=%s baseline=%s" % (
        "ALARM" if alarms else "SILENT", name, alarms, incon, ver.get("property_holds_test_clean"), ver.get("property_holds_test_patched"),
        ver.get("difference_observable"), ver.get("baseline_with_patch")))
    return 0


if __name__ == "__main__":
    sys.exit(main())

#!/bin/bash
# usage: seedbatch.sh <round-prefix e.g. seed2> <ID e.g. C08> <first-number e.g. 4>
# verify every change a seeder left under /tmp/<prefix>-<ID>/_seed/<k>/ as /verif/seeded/<ID>-<n>, then remove the seeder's worktree
pre=$1; id=$2; n=$3
d=/tmp/$pre-$id
for k in 1 2 3; do
  if [ -f $d/_seed/$k/patch.diff ] && [ -f $d/_seed/$k/meta.json ]; then
    python3 /verif/tools/seedverify.py $d/_seed/$k $id-$n --seeds 1,2 2>&1 | tail -1
    n=$((n+1))
  fi
done
git -C /repo worktree remove --force $d 2>/dev/null; rm -rf $d; git -C /repo worktree prune

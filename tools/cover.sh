#!/bin/bash
# usage: tools/cover.sh [ids...]
# Development aid (not a check): statement coverage of /repo's packages reached by the QUICK tier of each check's own
# generator, to find public entry points and branches that no generator reaches. Writes harness/scratch/cover/<ID>.prof,
# a merged all.prof and all.func (go tool cover -func). Evidence and replays of the real tree are not touched.
cd /verif/harness || exit 2
export GOFLAGS=-mod=mod GOPROXY=off GOSUMDB=off GOTOOLCHAIN=local
ids=${@:-C01 C02 C03 C04 C05 C06 C07 C08 C09 C10 C11 C12 C13 C14 C15 C16 C17 C18 C19 C20}
out=/verif/harness/scratch/cover; mkdir -p $out/parts $out/replays
for id in $ids; do
  lc=$(echo $id | tr A-Z a-z)
  go test -c -tags verif -cover -coverpkg=github.com/zerx-lab/wordZero/pkg/... -o bin/$id.cover.test ./props/$lc || { echo "build failed $id"; continue; }
  ( cd /verif && VERIF_ROOT=/verif VERIF_SCRATCH=$out VERIF_REPLAY_DIR=$out/replays VERIF_TIER=quick VERIF_SEED=${VERIF_SEED:-1} VERIF_SHARD=0/1 \
    VERIF_EVIDENCE_PART=$out/parts/$id.json VERIF_CURRENT=$out/current-$id.json \
    timeout 900 harness/bin/$id.cover.test -test.run . -test.count 1 -test.coverprofile $out/$id.prof > $out/$id.log 2>&1 ) &
done
wait
# merge: a block is covered if any profile covers it
python3 - "$out" <<'E'
import sys,glob,os
out=sys.argv[1]; blocks={}
for f in glob.glob(out+'/C*.prof'):
    for l in open(f):
        if l.startswith('mode:'): continue
        k,n,c=l.rsplit(' ',2)
        blocks[(k,n)]=blocks.get((k,n),0)+int(c)
with open(out+'/all.prof','w') as w:
    w.write('mode: set\n')
    for (k,n),c in sorted(blocks.items()): w.write('%s %s %d\n'%(k,n,1 if c else 0))
E
go tool cover -func=$out/all.prof > $out/all.func 2>/dev/null
tail -1 $out/all.func
for id in $ids; do rm -f bin/$id.cover.test; done

#!/usr/bin/env python3
"""benignall.py [-P N] [--only C03,C19] : bring every benign change up to date - run each check that has not been run against it yet.
Pending changes (still under /tmp/ben1-<ID>/_benign/<k>) are taken in first; their author's worktree is removed at the end."""
import json, os, subprocess, sys, glob
from concurrent.futures import ThreadPoolExecutor
ALL = ["C%02d" % i for i in range(1, 21)]
P, only = 3, None
a = sys.argv[1:]
while a:
    if a[0] == "-P": P = int(a[1])
    elif a[0] == "--only": only = a[1].split(",")
    a = a[2:]
jobs = []
for i in range(1, 21):
    pid = "C%02d" % i
    for k in (1, 2, 3, 4, 5, 6):
        name = "%s-B%d" % (pid, k)
        dst = "/verif/benign/%s" % name
        # round 1 = B1..B3 (authors' worktrees /tmp/ben1-*), round 2 = B4..B6 (/tmp/ben2-*, directory _benign2)
        src = "/tmp/ben1-%s/_benign/%d" % (pid, k) if k <= 3 else "/tmp/ben2-%s/_benign2/%d" % (pid, k - 3)
        done = set()
        if os.path.exists(dst + "/meta.json"):
            m = json.load(open(dst + "/meta.json"))
            done = set(x.split()[0] for x, v in m.get("verification", {}).get("checks", {}).items() if v.get("exit") == 0)
            srcdir, merge = dst, ["--merge"]
        elif os.path.exists(src + "/meta.json") and os.path.exists(src + "/patch.diff"):
            srcdir, merge = src, []
        else:
            continue
        want = [c for c in (only or ALL) if c not in done]
        if want:
            jobs.append((name, ["python3", "/verif/tools/benignverify.py", srcdir, name, "--checks", ",".join(want), "-j", "3"] + merge))
def run(j):
    name, cmd = j
    p = subprocess.run(cmd, capture_output=True, text=True)
    line = (p.stdout.strip().splitlines() or ["(no output) " + p.stderr[-200:]])[-1]
    print(line, flush=True)
with ThreadPoolExecutor(P) as ex:
    list(ex.map(run, jobs))
for d in glob.glob("/tmp/ben1-C*") + (glob.glob("/tmp/ben2-C*") if "--keep" not in sys.argv else []):
    subprocess.run("git -C /repo worktree remove --force %s; rm -rf %s; git -C /repo worktree prune" % (d, d), shell=True, capture_output=True)

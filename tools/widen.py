#!/usr/bin/env python3
"""widen.py <ID> : print the widening-builder prompt for one property."""
import json, sys, glob, os
pid = sys.argv[1]
t = open('/verif/tools/widen_prompt.txt').read()
caught = []
for d in sorted(glob.glob('/verif/seeded/%s-*' % pid)):
    m = json.load(open(d + '/meta.json'))
    if m.get('obsolete'):
        continue
    if any(k.startswith(pid + ' ') for k in (m.get('caught_by') or [])):
        caught.append(os.path.basename(d))
print(t.replace('{ID}', pid).replace('{id}', pid.lower()).replace('{NSEEDS}', str(len(caught))).replace('{CAUGHT}', ', '.join(caught) or '(none)'))

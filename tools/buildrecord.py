#!/usr/bin/env python3
"""Regenerate the machine-written tables of DESIGN.md section 8 (between the BEGIN/END markers)."""
import json, glob, os, re, subprocess
ROOT = '/verif'
kf = open(ROOT + '/KNOWN_FINDINGS.txt').read().splitlines()
fixed, opened = [], []
for l in kf:
    m = re.match(r'fixed:\s+property=(\S+) (\S+) (.*)', l)
    if m:
        fixed.append(m.groups())
    m = re.match(r'open:\s+property=(\S+) id=(\S+) clause=(\S+) witness=(\S+)\s+(.*)', l)
    if m:
        opened.append(m.groups())
subj = {}
for line in subprocess.run(['git', '-C', '/repo', 'log', '--format=%h %s'], capture_output=True, text=True).stdout.splitlines():
    h, s = line.split(' ', 1)
    subj[h] = s
out = []
out.append('#### 8.2 Fix commits in /repo (%d `fixed:` entries, %d commits)\n' % (len(fixed), len(set(f[1] for f in fixed))))
out.append('| property | commit | what failed before (from KNOWN_FINDINGS.txt) |\n|---|---|---|')
for p, c, d in sorted(fixed):
    out.append('| %s | %s | %s |' % (p, c, d.replace('|', '/')[:230]))
out.append('\n#### 8.3 Open known findings (%d)\n' % len(opened))
out.append('| property | id | clause | what fails |\n|---|---|---|---|')
for p, i, c, w, d in sorted(opened):
    out.append('| %s | %s | %s | %s |' % (p, i, c, d.replace('|', '/')[:260]))
out.append('\n#### 8.4 Independently seeded changes and which checks catch them\n')
out.append(subprocess.run([ROOT + '/tools/seedtable.py'], capture_output=True, text=True).stdout)
out.append('\n#### 8.4b Benign changes (observable difference, property still holds) and whether any check raised an alarm\n')
out.append(subprocess.run([ROOT + '/tools/benigntable.py'], capture_output=True, text=True).stdout)
out.append('\n#### 8.5 What each check generates and compares now (from tools/checks.json + tools/checks.d, the same text MANIFEST.json carries)\n')
out.append('Section 3 is the design as written before the code; the checks grew with every round of seeded changes. This table is the current state.\n')
try:
    man = json.load(open(ROOT + '/MANIFEST.json'))
    for c in man['checks']:
        out.append('* **%s** (%s; %s). %s *Trusted base / assumptions:* %s' % (c['property_id'], c['level_claimed']['category'], c['technique'], c['level_claimed']['text'].replace('\n', ' '), c['level_note'].replace('\n', ' ')))
except Exception as e:
    out.append('(MANIFEST.json not readable: %s)' % e)
body = '\n'.join(out)
p = ROOT + '/DESIGN.md'
s = open(p).read()
B, E = '<!-- BEGIN GENERATED 8 -->', '<!-- END GENERATED 8 -->'
if B in s:
    s = s[:s.index(B) + len(B)] + '\n' + body + '\n' + s[s.index(E):]
    open(p, 'w').write(s)
    print('DESIGN.md section 8 tables regenerated: %d fixed, %d open' % (len(fixed), len(opened)))
else:
    print(body)

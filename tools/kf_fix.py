#!/usr/bin/env python3
"""kf_fix.py <KF-id> <commit> : turn the `open:` line of a finding into a `fixed:` line (quick read-modify-write)."""
import sys, re
kid, commit = sys.argv[1], sys.argv[2]
p = '/verif/KNOWN_FINDINGS.txt'
lines = open(p).read().split('\n')
out = []
hit = False
for l in lines:
    if l.startswith('open:') and ('id=' + kid + ' ') in l:
        m = re.match(r'open:\s+property=(\S+) id=\S+ clause=\S+ witness=\S+\s+(.*)', l)
        out.append('fixed: property=%s %s %s (was %s)' % (m.group(1), commit, m.group(2), kid))
        hit = True
    else:
        out.append(l)
open(p, 'w').write('\n'.join(out))
print('updated' if hit else 'NOT FOUND', kid)

#!/opt/veriftools/pyvenv/bin/python
import json, jsonschema, glob, sys, os
ROOT = os.path.dirname(os.path.dirname(os.path.abspath(__file__)))
jsonschema.validate(json.load(open(ROOT + '/MANIFEST.json')), json.load(open('/root/.vp/MANIFEST.schema.json')))
print('manifest ok')
es = json.load(open('/root/.vp/EVIDENCE.schema.json'))
for f in sorted(glob.glob(ROOT + '/evidence/C*.json')):
    jsonschema.validate(json.load(open(f)), es)
    print('evidence ok', os.path.basename(f))

#!/bin/bash
# usage: tools/soak.sh "<seeds>" [ids...]   run the quick tier of every (or the named) check at each seed; print anything that is not a clean exit 0
# e.g. tools/soak.sh "1 2 3 5 7" C01 C02
cd /verif
seeds=${1:-"1 2 3"}; shift
ids=${@:-C01 C02 C03 C04 C05 C06 C07 C08 C09 C10 C11 C12 C13 C14 C15 C16 C17 C18 C19 C20}
mkdir -p harness/scratch/soak
bad=0
for id in $ids; do
  for s in $seeds; do
    t0=$(date +%s)
    VERIF_SEED=$s ./check $id --tier quick > harness/scratch/soak/$id-$s.log 2>&1
    rc=$?
    w=$(( $(date +%s)-t0 ))
    if [ $rc -ne 0 ] || grep -q "^VIOLATION\|^INCONCLUSIVE" harness/scratch/soak/$id-$s.log; then
      echo "ALARM $id seed=$s exit=$rc wall=${w}s"; grep "^VIOLATION\|^INCONCLUSIVE\|^FAIL" harness/scratch/soak/$id-$s.log | cut -c1-300 | head -3
      bad=1
    else
      echo "ok $id seed=$s wall=${w}s $(grep -c '^KNOWN-FINDING' harness/scratch/soak/$id-$s.log) KF"
    fi
  done
done
exit $bad

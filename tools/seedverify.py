#!/usr/bin/env python3
"""seedverify.py <src_dir> <name> [--checks C01,C02] [--tier quick] [--seeds 1,2]

Confirm one seeded change independently and run the checks against it.
  <src_dir>  directory holding patch.diff, demo_test.go, meta.json (as a seeder sub-agent left them)
  <name>     name under /verif/seeded/ (e.g. C01-1)
Steps (all in a fresh scratch worktree of /repo HEAD under /tmp, removed afterwards):
  1. demo passes on the clean tree            2. patch applies, builds, baseline suite passes
  3. demo fails with the patch                4. each named check is run with VERIF_REPO=<worktree>; exit 1 = caught
Results are written to /verif/seeded/<name>/ (patch.diff, demo_test.go, meta.json with a `verification` block).
"""
import json, os, shutil, subprocess, sys, time

ENV = dict(os.environ, GOFLAGS="-mod=mod", GOPROXY="off", GOSUMDB="off", GOTOOLCHAIN="local")


def sh(cmd, cwd=None, timeout=1800, env=None):
    p = subprocess.run(cmd, shell=True, cwd=cwd, env=env or ENV, capture_output=True, text=True, errors="replace", timeout=timeout)
    return p.returncode, (p.stdout + p.stderr)


def main():
    src, name = sys.argv[1], sys.argv[2]
    checks, tier, seeds = None, "quick", ["1"]
    merge = False
    a = sys.argv[3:]
    while a:
        if a[0] == "--checks":
            checks = a[1].split(",")
        elif a[0] == "--tier":
            tier = a[1]
        elif a[0] == "--seeds":
            seeds = a[1].split(",")
        elif a[0] == "--merge":  # keep the results of the earlier verification for checks not re-run now (cross-property runs)
            merge = True
            a = a[1:]
            continue
        a = a[2:]
    meta = json.load(open(os.path.join(src, "meta.json")))
    if meta.get("obsolete"):
        print("OBSOLETE", name, "-", (meta.get("note") or "")[:160])
        return 0
    history = meta.pop("history", [])
    earlier_checks = {}
    if "verification" in meta and merge:
        earlier_checks = meta.pop("verification").get("checks", {})
        meta.pop("caught_by", None)
    elif "verification" in meta:  # re-verification: keep the earlier result in the history
        history.append(dict(verification=meta.pop("verification"), caught_by=meta.pop("caught_by", None)))
    if checks is None:
        checks = [meta.get("property", name.split("-")[0])]
    wt = "/tmp/sv-" + name
    sh("git -C /repo worktree remove --force %s" % wt)
    shutil.rmtree(wt, ignore_errors=True)
    rc, out = sh("git -C /repo worktree add -q --detach %s HEAD" % wt)
    if rc:
        print("worktree failed", out)
        return 2
    ver = dict(at=time.strftime("%Y-%m-%dT%H:%M:%SZ", time.gmtime()), repo_head=sh("git -C /repo rev-parse --short HEAD")[1].strip())
    try:
        demo_path = meta["demo_path"]
        demo_dst = os.path.join(wt, demo_path)
        os.makedirs(os.path.dirname(demo_dst), exist_ok=True)
        shutil.copy(os.path.join(src, "demo_test.go"), demo_dst)
        demo_cmd = meta["demo_cmd"]
        # normalise the command to run inside the worktree
        import re as _re0
        demo_cmd = _re0.sub(r"/tmp/seed\d*-%s\b" % name.split("-")[0], wt, demo_cmd)
        # seeders sometimes put the copy of the demo into the command; the demo is already in place here
        import re as _re
        demo_cmd = _re.sub(r"cp\s+\S*demo_test\.go\s+\S+\s*(&&|;)\s*", "", demo_cmd)
        if "-count" not in demo_cmd:
            demo_cmd = demo_cmd.replace("go test", "go test -count=1", 1)
        rc, out = sh(demo_cmd, cwd=wt)
        ver["demo_on_clean_tree"] = "pass" if rc == 0 else "FAIL"
        if rc != 0:
            ver["demo_clean_output"] = out[-1500:]
        pf = os.path.join(os.path.abspath(src), "patch.diff")
        rc, out = sh("git apply --whitespace=nowarn %s" % pf, cwd=wt)
        if rc != 0:
            # the tree moved on (fix commits): try with fuzz and, when that works, refresh the stored patch
            rc2, out2 = sh("patch -p1 -F3 --no-backup-if-mismatch < %s" % pf, cwd=wt)
            if rc2 == 0:
                rc3, d = sh("git diff", cwd=wt)
                if rc3 == 0 and d.strip():
                    shutil.copy(pf, pf + ".orig")
                    open(pf, "w").write(d)
                    ver["patch_refreshed"] = "context refreshed against /repo %s (original kept as patch.diff.orig)" % ver["repo_head"]
                    rc = 0
            else:
                sh("git checkout -- .", cwd=wt)
        ver["patch_applies"] = rc == 0
        if rc != 0:
            ver["patch_output"] = out[-800:]
            raise SystemExit
        os.rename(demo_dst, demo_dst + ".off")
        rc, out = sh("go build ./pkg/... && python3 /verif/tools/baseline.py %s" % wt, cwd=wt)
        ver["baseline_with_patch"] = "pass" if rc == 0 else "FAIL"
        ver["baseline_line"] = [l for l in out.splitlines() if l.startswith("baseline:")][-1:] or out[-500:]
        os.rename(demo_dst + ".off", demo_dst)
        rc, out = sh(demo_cmd, cwd=wt)
        ver["demo_with_patch"] = "fail" if rc != 0 else "PASSES (change not demonstrated)"
        os.remove(demo_dst)
        ver["checks"] = dict(earlier_checks)
        for cid in checks:
            for sd in seeds:
                t0 = time.time()
                e = dict(ENV, VERIF_REPO=wt, VERIF_SEED=sd)
                rc, out = sh("./check %s --tier %s" % (cid, tier), cwd="/verif", env=e, timeout=3600)
                lines = [l[:400] for l in out.splitlines() if l.startswith(("VIOLATION", "FAIL ", "INCONCLUSIVE", "OK "))]
                ver["checks"]["%s seed=%s tier=%s" % (cid, sd, tier)] = dict(exit=rc, wall_s=round(time.time() - t0, 1), lines=lines[:6])
                # replays written while judging a mutant are not findings of the real tree
                for l in lines:
                    if l.startswith("VIOLATION") and "replay=" in l:
                        rp = l.split("replay=")[1].split()[0]
                        keep = os.path.join("/verif/seeded", name, "replay-" + os.path.basename(rp))
                        os.makedirs(os.path.dirname(keep), exist_ok=True)
                        if os.path.exists(rp) and "/scratch/replays.alt" in rp:
                            shutil.copy(rp, keep)
    except SystemExit:
        pass
    finally:
        sh("git -C /repo worktree remove --force %s" % wt)
        shutil.rmtree(wt, ignore_errors=True)
        sh("git -C /repo worktree prune")
    dst = os.path.join("/verif/seeded", name)
    os.makedirs(dst, exist_ok=True)
    for f in ("patch.diff", "demo_test.go"):
        if os.path.abspath(os.path.join(src, f)) != os.path.abspath(os.path.join(dst, f)):
            shutil.copy(os.path.join(src, f), os.path.join(dst, f))
    meta["verification"] = ver
    if history:
        meta["history"] = history
    caught = [k for k, v in ver.get("checks", {}).items() if v["exit"] == 1]
    meta["caught_by"] = caught
    json.dump(meta, open(os.path.join(dst, "meta.json"), "w"), indent=1, ensure_ascii=False)
    print(json.dumps(ver, indent=1, ensure_ascii=False))
    print("CAUGHT" if caught else "MISSED", name)
    return 0


if __name__ == "__main__":
    sys.exit(main())

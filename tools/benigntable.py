#!/usr/bin/env python3
"""Print a markdown table of /verif/benign/*/meta.json (for DESIGN.md section 8)."""
import json, glob, os
rows = []
for f in sorted(glob.glob('/verif/benign/*/meta.json')):
    m = json.load(open(f)); n = os.path.basename(os.path.dirname(f))
    v = m.get('verification', {})
    ran = sorted(set(k.split()[0] for k in v.get('checks', {})))
    alarms = ', '.join(sorted(set(k.split()[0] for k in m.get('alarms', [])))) or 'none'
    tri = (m.get('triage') or '').replace('|', '/').replace('\n', ' ')
    rows.append('| %s | %s | %s | %d checks | %s | %s |' % (n, (m.get('title', '') or '')[:100].replace('|', '/'), (m.get('observable_difference') or '')[:170].replace('|', '/').replace('\n', ' '), len(ran), alarms, tri[:300]))
print('| benign change | what it does | observable difference | run against | alarms | triage |\n|---|---|---|---|---|---|')
print('\n'.join(rows))

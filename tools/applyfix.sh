#!/bin/bash
# usage: applyfix.sh <patch> <message-file>   : apply a proposed fix to /repo, build, run the baseline suite, commit
set -e
export GOFLAGS=-mod=mod GOPROXY=off GOSUMDB=off GOTOOLCHAIN=local
cd /repo
git diff --quiet || { echo "/repo has uncommitted changes"; exit 1; }
git apply --whitespace=nowarn "$1" 2>/dev/null || patch -p1 --no-backup-if-mismatch < "$1" >/dev/null || { echo "PATCH DOES NOT APPLY"; git checkout -- .; exit 1; }
go build ./pkg/... || { echo "BUILD FAILED"; git checkout -- .; exit 1; }
go vet -tags verif ./pkg/document >/dev/null 2>&1 || true
python3 /verif/tools/baseline.py /repo | tail -3
python3 /verif/tools/baseline.py /repo >/dev/null || { echo "BASELINE FAILED"; git checkout -- .; exit 1; }
git add -A pkg && git commit -qF "$2" && git log --format='committed %h %s' -1

#!/bin/bash
# usage: fixcommit.sh <property> "<commit message>" "<what failed (for KNOWN_FINDINGS)>"
set -e
cd /repo && git add -A && git commit -qm "$2" && c=$(git log --format=%h -1)
echo "fixed: property=$1 $c $3" >> /verif/KNOWN_FINDINGS.txt
echo "committed $c"

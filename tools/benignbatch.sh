#!/bin/bash
# usage: benignbatch.sh <ID e.g. C08> <checks csv|all> [--merge]
# verify every benign change an author left under /tmp/ben1-<ID>/_benign/<k>/ as /verif/benign/<ID>-B<k> (first run), or re-run
# more checks on /verif/benign/<ID>-B<k> (--merge); the author's worktree is removed after the first run
id=$1; checks=$2; merge=$3
d=/tmp/ben1-$id
for k in 1 2 3; do
  if [ -n "$merge" ]; then
    [ -f /verif/benign/$id-B$k/meta.json ] && python3 /verif/tools/benignverify.py /verif/benign/$id-B$k $id-B$k --checks $checks -j 3 --merge 2>&1 | tail -1
  elif [ -f $d/_benign/$k/patch.diff ] && [ -f $d/_benign/$k/meta.json ]; then
    python3 /verif/tools/benignverify.py $d/_benign/$k $id-B$k --checks $checks -j 3 2>&1 | tail -1
  fi
done
if [ -z "$merge" ]; then git -C /repo worktree remove --force $d 2>/dev/null; rm -rf $d; git -C /repo worktree prune; fi

#!/usr/bin/env python3
"""benignprompt.py <ID> <dir> : print the benign-change author prompt for one property (property text only, nothing from /verif)."""
import json, sys
pid, d = sys.argv[1], sys.argv[2]
p = [json.loads(l) for l in open('/verif/properties.jsonl') if json.loads(l)['id'] == pid][0]
t = open('/verif/tools/benign_prompt.txt').read()
print(t.replace('{DIR}', d).replace('{ID}', pid).replace('{TITLE}', p['title']).replace('{STATEMENT}', p['statement']).replace('{QUANT}', p['quantifier']['text']))

#!/usr/bin/env python3
"""Regenerate MANIFEST.json from the table below (kept in one place so it is always valid)."""
import json, os, subprocess
ROOT = os.path.dirname(os.path.dirname(os.path.abspath(__file__)))
import glob
CHECKS = json.load(open(os.path.join(ROOT, "tools", "checks.json")))
ACCEPTED = set(json.load(open(os.path.join(ROOT, "tools", "accepted.json"))))  # checks reviewed by the coordinator and silent on the unchanged tree
for f in sorted(glob.glob(os.path.join(ROOT, "tools", "checks.d", "C*.json"))):
    c = json.load(open(f))
    if c["property_id"] in ACCEPTED:
        CHECKS = [x for x in CHECKS if x["property_id"] != c["property_id"]]  # checks.d replaces the entry of checks.json
        CHECKS.append(c)
CHECKS.sort(key=lambda c: c["property_id"])
NA = {}
if os.path.exists(os.path.join(ROOT, "tools", "not_applicable.json")):
    NA = json.load(open(os.path.join(ROOT, "tools", "not_applicable.json")))
props = [json.loads(l)["id"] for l in open(os.path.join(ROOT, "properties.jsonl"))]
hook_commits = subprocess.run(["git", "-C", "/repo", "log", "--format=%H", "--grep=^verif hook"], capture_output=True, text=True).stdout.split()
m = {
    "version": 1,
    "setup_cmd": "./check --setup",
    "hooks": {
        "guard": "verif",
        "enable": "go build tag: go test -tags verif (done by ./check when it builds harness/props/<id>)",
        "baseline_off_cmd": "cd /repo && GOFLAGS=-mod=mod GOPROXY=off GOSUMDB=off GOTOOLCHAIN=local go test -json -vet=off -count=1 -timeout 25m ./pkg/... ./test/...",
        "source_commits": hook_commits,
        "add_only": True,
    },
    "engines": [{"name": "wzverif", "path": "harness", "serves_properties": [c["property_id"] for c in CHECKS],
                 "kind_free_text": "Go module: rapid v1.3.0 generators and state machines over plain-data cases, independent OPC/XML observers, known-finding registry, python driver ./check"}],
    "checks": [],
    "notes": "All checks are property-based tests (pgregory.net/rapid) with explicit oracles; see DESIGN.md. KNOWN_FINDINGS.txt lists open and fixed findings.",
    "not_applicable": [],
}
claimed = set()
for c in CHECKS:
    pid = c["property_id"]
    claimed.add(pid)
    m["checks"].append({
        "property_id": pid,
        "quick_cmd": "./check %s --tier quick" % pid,
        "thorough_cmd": "./check %s --tier thorough" % pid,
        "evidence_file": "evidence/%s.json" % pid,
        "replay_cmd_template": "./check %s --replay {path}" % pid,
        "engine": "wzverif",
        "level_claimed": {"category": c.get("level", "exploration"), "text": c["text"], "design_ref": "DESIGN.md section 3, " + pid},
        "level_note": c["note"],
        "technique": c["technique"],
    })
for p in props:
    if p not in claimed:
        m["not_applicable"].append({"property_id": p, "reason": NA.get(p, "check not built yet (planned: property-based test per DESIGN.md section 3); not claimed until it exists and is silent on the unchanged tree")})
json.dump(m, open(os.path.join(ROOT, "MANIFEST.json"), "w"), indent=1)
print("claimed:", sorted(claimed))

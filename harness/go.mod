module wzverif

go 1.23

toolchain go1.23.5

require (
	github.com/yuin/goldmark v1.7.8
	github.com/zerx-lab/wordZero v0.0.0
	pgregory.net/rapid v1.3.0
)

require github.com/litao91/goldmark-mathjax v0.0.0-20210217064022-a43cf739a50f

replace github.com/zerx-lab/wordZero => /repo

// Package canon builds namespace-resolved canonical element trees of XML parts and diffs them.
package canon

import (
	"bytes"
	"encoding/xml"
	"fmt"
	"io"
	"sort"
	"strings"
)

const (
	W   = "http://schemas.openxmlformats.org/wordprocessingml/2006/main"
	R   = "http://schemas.openxmlformats.org/officeDocument/2006/relationships"
	WP  = "http://schemas.openxmlformats.org/drawingml/2006/wordprocessingDrawing"
	A   = "http://schemas.openxmlformats.org/drawingml/2006/main"
	PIC = "http://schemas.openxmlformats.org/drawingml/2006/picture"
	M   = "http://schemas.openxmlformats.org/officeDocument/2006/math"
	XML = "http://www.w3.org/XML/1998/namespace"
)

type Attr struct {
	Space, Local, Value string
}

type Node struct {
	Space, Local string
	Attrs        []Attr
	Kids         []*Node
	Text         string // character data directly inside this element (whitespace-only dropped when there are element children)
	Parent       *Node  `json:"-"`
}

// Parse builds the tree of the document element.
func Parse(data []byte) (*Node, error) {
	dec := xml.NewDecoder(bytes.NewReader(data))
	var root *Node
	var cur *Node
	for {
		tok, err := dec.Token()
		if err == io.EOF {
			break
		}
		if err != nil {
			return nil, err
		}
		switch t := tok.(type) {
		case xml.StartElement:
			n := &Node{Space: t.Name.Space, Local: t.Name.Local, Parent: cur}
			for _, a := range t.Attr {
				if a.Name.Space == "xmlns" || (a.Name.Space == "" && a.Name.Local == "xmlns") {
					continue
				}
				n.Attrs = append(n.Attrs, Attr{a.Name.Space, a.Name.Local, a.Value})
			}
			sort.Slice(n.Attrs, func(i, j int) bool {
				if n.Attrs[i].Space != n.Attrs[j].Space {
					return n.Attrs[i].Space < n.Attrs[j].Space
				}
				return n.Attrs[i].Local < n.Attrs[j].Local
			})
			if cur == nil {
				if root != nil {
					return nil, fmt.Errorf("two roots")
				}
				root = n
			} else {
				cur.Kids = append(cur.Kids, n)
			}
			cur = n
		case xml.EndElement:
			if cur != nil {
				if len(cur.Kids) > 0 && strings.TrimSpace(cur.Text) == "" {
					cur.Text = ""
				}
				cur = cur.Parent
			}
		case xml.CharData:
			if cur != nil {
				cur.Text += string(t)
			}
		}
	}
	if root == nil {
		return nil, fmt.Errorf("no root")
	}
	return root, nil
}

func (n *Node) Is(space, local string) bool { return n != nil && n.Space == space && n.Local == local }

func (n *Node) Attr(space, local string) (string, bool) {
	if n == nil {
		return "", false
	}
	for _, a := range n.Attrs {
		if a.Space == space && a.Local == local {
			return a.Value, true
		}
	}
	return "", false
}

func (n *Node) A(space, local string) string { v, _ := n.Attr(space, local); return v }

// Kid returns the first child with that name.
func (n *Node) Kid(space, local string) *Node {
	if n == nil {
		return nil
	}
	for _, k := range n.Kids {
		if k.Space == space && k.Local == local {
			return k
		}
	}
	return nil
}

func (n *Node) KidsNamed(space, local string) []*Node {
	var out []*Node
	if n == nil {
		return out
	}
	for _, k := range n.Kids {
		if k.Space == space && k.Local == local {
			out = append(out, k)
		}
	}
	return out
}

// Path follows first children by local names in the W namespace unless "ns|local" is given.
func (n *Node) Path(names ...string) *Node {
	cur := n
	for _, nm := range names {
		if cur == nil {
			return nil
		}
		cur = cur.Kid(W, nm)
	}
	return cur
}

// Walk visits n and all descendants in document order.
func (n *Node) Walk(f func(*Node) bool) {
	if n == nil {
		return
	}
	if !f(n) {
		return
	}
	for _, k := range n.Kids {
		k.Walk(f)
	}
}

// All returns all descendants (and n itself) with that name, in document order.
func (n *Node) All(space, local string) []*Node {
	var out []*Node
	n.Walk(func(x *Node) bool {
		if x.Space == space && x.Local == local {
			out = append(out, x)
		}
		return true
	})
	return out
}

// String renders a canonical single-line form.
func (n *Node) String() string {
	var b strings.Builder
	n.write(&b)
	return b.String()
}

func short(space string) string {
	switch space {
	case W:
		return "w"
	case R:
		return "r"
	case WP:
		return "wp"
	case A:
		return "a"
	case PIC:
		return "pic"
	case M:
		return "m"
	case XML:
		return "xml"
	case "":
		return ""
	}
	return "{" + space + "}"
}

func qn(space, local string) string {
	s := short(space)
	if s == "" {
		return local
	}
	return s + ":" + local
}

func (n *Node) Name() string { return qn(n.Space, n.Local) }

func (n *Node) write(b *strings.Builder) {
	b.WriteString("<" + qn(n.Space, n.Local))
	for _, a := range n.Attrs {
		fmt.Fprintf(b, " %s=%q", qn(a.Space, a.Local), a.Value)
	}
	b.WriteString(">")
	if n.Text != "" {
		fmt.Fprintf(b, "%q", n.Text)
	}
	for _, k := range n.Kids {
		k.write(b)
	}
	b.WriteString("</>")
}

// Options tune Diff.
type Options struct {
	// Skip says that the element (and its subtree) is to be ignored on both sides.
	Skip func(n *Node) bool
	// SkipAttr says that an attribute is to be ignored.
	SkipAttr func(n *Node, a Attr) bool
	// EmptyContainers lists element names for which "absent" equals "present but empty (no attrs, no kids, no text)".
	EmptyContainers map[string]bool
	// Unordered lists element names whose children are compared as multisets.
	Unordered map[string]bool
}

func (o *Options) kids(n *Node) []*Node {
	var out []*Node
	for _, k := range n.Kids {
		if o.Skip != nil && o.Skip(k) {
			continue
		}
		if o.EmptyContainers[k.Name()] && o.isEmpty(k) {
			continue
		}
		out = append(out, k)
	}
	return out
}

func (o *Options) isEmpty(n *Node) bool {
	if strings.TrimSpace(n.Text) != "" {
		return false
	}
	for _, a := range n.Attrs {
		if o.SkipAttr == nil || !o.SkipAttr(n, a) {
			return false
		}
	}
	return len(o.kids(n)) == 0
}

func (o *Options) attrs(n *Node) []Attr {
	if o.SkipAttr == nil {
		return n.Attrs
	}
	var out []Attr
	for _, a := range n.Attrs {
		if !o.SkipAttr(n, a) {
			out = append(out, a)
		}
	}
	return out
}

// Diff returns "" when the trees are equal under the options, else a description of the first difference.
func Diff(a, b *Node, o *Options) string {
	if o == nil {
		o = &Options{}
	}
	return diff(a, b, o, "/"+a.Name())
}

func diff(a, b *Node, o *Options, path string) string {
	if a.Space != b.Space || a.Local != b.Local {
		return fmt.Sprintf("%s: element %s vs %s", path, a.Name(), b.Name())
	}
	aa, ba := o.attrs(a), o.attrs(b)
	if len(aa) != len(ba) {
		return fmt.Sprintf("%s: attributes %v vs %v", path, aa, ba)
	}
	for i := range aa {
		if aa[i] != ba[i] {
			return fmt.Sprintf("%s: attribute %v vs %v", path, aa[i], ba[i])
		}
	}
	ak, bk := o.kids(a), o.kids(b)
	if len(ak) == 0 && len(bk) == 0 {
		if a.Text != b.Text {
			return fmt.Sprintf("%s: text %q vs %q", path, a.Text, b.Text)
		}
		return ""
	}
	if strings.TrimSpace(a.Text) != strings.TrimSpace(b.Text) {
		return fmt.Sprintf("%s: mixed text %q vs %q", path, a.Text, b.Text)
	}
	if o.Unordered[a.Name()] {
		ak, bk = sorted(ak), sorted(bk)
	}
	for i := 0; i < len(ak) && i < len(bk); i++ {
		if d := diff(ak[i], bk[i], o, fmt.Sprintf("%s/%s[%d]", path, ak[i].Name(), i)); d != "" {
			return d
		}
	}
	if len(ak) != len(bk) {
		var extra *Node
		side := "first"
		if len(ak) > len(bk) {
			extra = ak[len(bk)]
		} else {
			extra = bk[len(ak)]
			side = "second"
		}
		return fmt.Sprintf("%s: %d vs %d children; only in %s: %s", path, len(ak), len(bk), side, clip(extra.String(), 300))
	}
	return ""
}

func sorted(k []*Node) []*Node {
	out := append([]*Node(nil), k...)
	keys := make(map[*Node]string, len(out))
	for _, n := range out {
		keys[n] = n.String()
	}
	sort.SliceStable(out, func(i, j int) bool { return keys[out[i]] < keys[out[j]] })
	return out
}

func clip(s string, n int) string {
	if len(s) > n {
		return s[:n] + "…"
	}
	return s
}

// TextOf concatenates the text of all descendant elements named space:local.
func (n *Node) TextOf(space, local string) string {
	var b strings.Builder
	for _, t := range n.All(space, local) {
		b.WriteString(t.Text)
	}
	return b.String()
}

package kit

// Coverage-guided search over the SAME generator and oracle (thorough tier).
//
// Every property package has a native fuzz target
//
//	func FuzzCNN(f *testing.F) { kit.FuzzVia(f, TestCNN) }
//
// FuzzVia runs the package's Test function with a hook set, so that kit.Main - instead of its normal pipeline -
// hands `rapid.MakeFuzz(prop)` to the fuzzing engine: the fuzzer's byte string is the bit stream rapid's
// generators draw from, the case is the plain-data value the generator builds from it, and the property is the
// check's own Run + attribution to open findings. A failing or hanging input leaves the CASE (JSON) in
// $VERIF_FUZZ_CRASH_DIR. Main (thorough tier, shard 0, never for VERIF_REPO sensitivity runs) starts
// `go test -fuzz` for a bounded time after the rapid search, then re-judges every left-behind case in its own
// process through the normal verdict pipeline (so a crasher becomes a replayable VIOLATION, an input that no
// longer fails is only counted) and removes the engine's testdata directory.

import (
	"crypto/sha1"
	"encoding/hex"
	"encoding/json"
	"fmt"
	"os"
	"os/exec"
	"path/filepath"
	"regexp"
	"strconv"
	"strings"
	"testing"
	"time"

	"pgregory.net/rapid"
)

var fuzzF *testing.F

// FuzzVia is the body of a package's native fuzz target; test is the package's TestCNN function.
func FuzzVia(f *testing.F, test func(*testing.T)) {
	fuzzF = f
	defer func() { fuzzF = nil }()
	test(new(testing.T))
}

// fuzzMode is called by Main when the hook is set.
func fuzzMode[C any](r *runner[C]) {
	f := fuzzF
	dir := os.Getenv("VERIF_FUZZ_CRASH_DIR")
	if dir == "" {
		dir = filepath.Join(Scratch, "fuzzcrash-"+r.spec.ID)
	}
	os.MkdirAll(dir, 0o755)
	// the case being executed is kept next to the crashers: a worker that hangs or dies leaves it behind
	curFile = filepath.Join(dir, fmt.Sprintf("current-%d.json", os.Getpid()))
	// seed corpus: bit streams of several lengths (deterministic; the engine adds what it finds interesting)
	x := uint64(0x9E3779B97F4A7C15)
	for _, n := range []int{0, 16, 64, 256, 256, 1024, 1024, 4096, 4096, 16384} {
		b := make([]byte, n)
		for i := range b {
			x ^= x << 13
			x ^= x >> 7
			x ^= x << 17
			b[i] = byte(x >> 32)
		}
		f.Add(b)
	}
	f.Fuzz(rapid.MakeFuzz(func(rt *rapid.T) {
		c := r.spec.Gen(rt)
		js, _ := json.Marshal(c)
		res := r.guarded(c, js)
		un, _ := r.judge(c, res)
		os.Remove(curFile)
		if len(un) > 0 {
			h := sha1.Sum(js)
			os.WriteFile(filepath.Join(dir, "fail-"+hex.EncodeToString(h[:6])+".json"), js, 0o644)
			rt.Fatalf("%s: %s", un[0].Clause, un[0].Detail)
		}
	}))
}

var reExecs = regexp.MustCompile(`execs: (\d+)`)

// nativeFuzz runs the package's fuzz target for a bounded time and re-judges what it left behind.
// It returns true when a violation was reported.
func nativeFuzz[C any](t *testing.T, r *runner[C]) bool {
	if Tier != "thorough" || Shard != 0 || RaceMode() || os.Getenv("VERIF_REPO") != "" || os.Getenv("VERIF_NATIVEFUZZ") == "0" {
		return false
	}
	secs := 90
	if s := os.Getenv("VERIF_FUZZTIME"); s != "" {
		if v, err := strconv.Atoi(s); err == nil && v > 0 {
			secs = v
		}
	}
	id := r.spec.ID
	pkg := strings.ToLower(id)
	harness := filepath.Join(Root, "harness")
	pkgDir := filepath.Join(harness, "props", pkg)
	if _, err := os.Stat(filepath.Join(pkgDir, "fuzzvia_test.go")); err != nil {
		return false
	}
	dir := filepath.Join(Scratch, fmt.Sprintf("fuzzcrash-%s-%d", id, os.Getpid()))
	os.RemoveAll(dir)
	os.MkdirAll(dir, 0o755)
	defer os.RemoveAll(dir)
	defer os.RemoveAll(filepath.Join(pkgDir, "testdata", "fuzz", "Fuzz"+id))
	cmd := exec.Command("go", "test", "-tags", "verif", "-run", "^$", "-fuzz", "^Fuzz"+id+"$", "-fuzztime", fmt.Sprintf("%ds", secs),
		"-fuzzminimizetime", "2s", "-parallel", "4", "./props/"+pkg)
	cmd.Dir = harness
	cmd.Env = append(os.Environ(), "GOFLAGS=-mod=mod", "GOPROXY=off", "GOSUMDB=off", "GOTOOLCHAIN=local", "VERIF_ROOT="+Root,
		"VERIF_FUZZ_CRASH_DIR="+dir, "VERIF_SHARD=0/1", "VERIF_EVIDENCE_PART="+filepath.Join(dir, "evidence-part.json"))
	t0 := time.Now()
	out, err := cmd.CombinedOutput()
	execs := 0
	if m := reExecs.FindAllStringSubmatch(string(out), -1); len(m) > 0 {
		execs, _ = strconv.Atoi(m[len(m)-1][1])
	}
	st := r.st
	st.mu.Lock()
	st.counts["native_fuzz_execs"] += execs
	st.counts["native_fuzz_seconds"] += int(time.Since(t0).Seconds())
	st.mu.Unlock()
	if err != nil && execs == 0 && !strings.Contains(string(out), "FAIL") {
		// the engine did not run (build problem, no toolchain): coverage-guided phase skipped, never a verdict
		say("NOTE: native fuzzing of %s did not run: %v: %.300s", id, err, strings.TrimSpace(string(out)))
		st.mu.Lock()
		st.counts["native_fuzz_not_run"]++
		st.mu.Unlock()
		return false
	}
	files, _ := filepath.Glob(filepath.Join(dir, "*.json"))
	for _, p := range files {
		if strings.HasSuffix(p, "evidence-part.json") {
			continue
		}
		js, err := os.ReadFile(p)
		if err != nil {
			continue
		}
		var c C
		if err := json.Unmarshal(js, &c); err != nil {
			continue
		}
		st.mu.Lock()
		st.counts["native_fuzz_left_behind"]++
		st.mu.Unlock()
		res := r.guarded(c, js) // a hang dies here with status 97 and the driver's sentinel replays the saved case
		un, hits := r.judge(c, res)
		r.record(c, js, res, hits)
		if len(un) > 0 {
			rp := saveReplay(id, js)
			for _, f := range un {
				say("FAIL %s: %s", f.Clause, f.Detail)
			}
			say("VIOLATION property=%s replay=%s (found by native fuzzing over the generator)", id, rp)
			st.violations++
			st.replayPaths = append(st.replayPaths, rp)
			exitCode = 1
			t.Fail()
			return true
		}
	}
	return false
}

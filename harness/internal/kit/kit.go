// Package kit is the shared verdict pipeline of the wordZero property checks:
// it drives rapid over a generator of plain-data cases, runs each case under a
// watchdog, attributes clause failures to open known findings, shrinks and saves
// unattributed failures as JSON replays, and writes the evidence part file.
package kit

import (
	"bufio"
	"crypto/sha1"
	"encoding/hex"
	"encoding/json"
	"flag"
	"fmt"
	"os"
	"path/filepath"
	"runtime"
	"sort"
	"strconv"
	"strings"
	"sync"
	"testing"
	"time"

	"pgregory.net/rapid"
)

// Failure is one violated clause of a property on one case.
type Failure struct {
	Clause string `json:"clause"`
	Detail string `json:"detail"`
}

// Result is what running one case yields.
type Result struct {
	Failures   []Failure
	Labels     []string       // generator / feature classes present in the case
	Nontrivial bool           // by the property's stated rule
	Shape      string         // structural signature; distinct shapes are counted
	Counts     map[string]int // extra counters (excluded, tainted, discarded, ...)
	Clauses    map[string]int // clause -> times evaluated
}

func (r *Result) Fail(clause, format string, a ...interface{}) {
	d := fmt.Sprintf(format, a...)
	if len(d) > 1500 {
		d = d[:1500] + "…"
	}
	r.Failures = append(r.Failures, Failure{clause, d})
}
func (r *Result) Label(l string) { r.Labels = append(r.Labels, l) }
func (r *Result) Count(k string, n int) {
	if r.Counts == nil {
		r.Counts = map[string]int{}
	}
	r.Counts[k] += n
}
func (r *Result) Eval(clause string) {
	if r.Clauses == nil {
		r.Clauses = map[string]int{}
	}
	r.Clauses[clause]++
}

// Finding is the code side of an `open:` line of KNOWN_FINDINGS.txt.
type Finding[C any] struct {
	ID      string // KF-C01-math
	Clause  string // clause id (prefix match) the finding may absorb
	Desc    string
	Trigger func(c C, f Failure) bool // predicate on the input/history (and, where needed, on the failure detail)
}

type Spec[C any] struct {
	ID          string
	Level       string // exploration | fault_enumeration
	Rule        string
	Gen         func(t *rapid.T) C
	Run         func(c C) *Result
	Findings    []Finding[C]
	Assumptions []string
	MustSee     map[string]float64 // label -> minimum fraction of evaluations
	CaseLimit   time.Duration      // watchdog per case (default 20s)
	// Extra is merged into coverage (e.g. fault-point counts).
	Extra func() map[string]interface{}
	// Fixed returns hand-written regression cases that every run executes first
	// (outside rapid). They are judged exactly like generated cases.
	Fixed func() []C
}

// ---------------------------------------------------------------------------------------------

type stats struct {
	mu          sync.Mutex
	evals       int
	shrinkEvals int
	nontrivial  int
	shapes      map[string]struct{}
	labels      map[string]int
	counts      map[string]int
	clauses     map[string]int
	clauseFail  map[string]int
	knownHits   map[string]int
	samples     []json.RawMessage
	witnesses   map[string]string
	violations  int
	replayPaths []string
}

func newStats() *stats {
	return &stats{shapes: map[string]struct{}{}, labels: map[string]int{}, counts: map[string]int{},
		clauses: map[string]int{}, clauseFail: map[string]int{}, knownHits: map[string]int{}, witnesses: map[string]string{}}
}

var (
	Root     string // /verif
	Tier     = "quick"
	Seed     = uint64(1)
	Shard    = 0
	Shards   = 1
	started  = time.Now()
	curFile  string
	printMu  sync.Mutex
	exitCode = 0
)

func findRoot() string {
	if r := os.Getenv("VERIF_ROOT"); r != "" {
		return r
	}
	d, _ := os.Getwd()
	for i := 0; i < 6; i++ {
		if _, err := os.Stat(filepath.Join(d, "properties.jsonl")); err == nil {
			return d
		}
		d = filepath.Dir(d)
	}
	return "/verif"
}

// Scale returns q in the quick tier and th in the thorough tier.
func Scale(q, th int) int {
	if Tier == "thorough" {
		return th
	}
	return q
}

// TestMain configures rapid from the environment. quick/thorough are the case counts per shard.
func TestMain(m *testing.M, quick, thorough int) {
	Root = findRoot()
	if t := os.Getenv("VERIF_TIER"); t == "thorough" {
		Tier = t
	}
	if s := os.Getenv("VERIF_SEED"); s != "" {
		if v, err := strconv.ParseInt(s, 10, 64); err == nil {
			if v < 0 {
				v = -v
			}
			Seed = uint64(v)
		}
	}
	if Seed == 0 {
		Seed = 1 // 0 means "random" to rapid
	}
	if s := os.Getenv("VERIF_SHARD"); s != "" {
		fmt.Sscanf(s, "%d/%d", &Shard, &Shards)
		if Shards < 1 {
			Shards = 1
		}
	}
	flag.Parse()
	n := quick
	if Tier == "thorough" {
		n = thorough
	}
	if s := os.Getenv("VERIF_CHECKS"); s != "" {
		if v, err := strconv.Atoi(s); err == nil && v > 0 {
			n = v
		}
	}
	flag.Set("rapid.checks", strconv.Itoa(n))
	flag.Set("rapid.seed", strconv.FormatUint(Seed*131+uint64(Shard)+7, 10))
	flag.Set("rapid.nofailfile", "true")
	st := "20s"
	if s := os.Getenv("VERIF_SHRINKTIME"); s != "" {
		st = s
	}
	flag.Set("rapid.shrinktime", st)
	flag.Set("test.timeout", "0")
	scratch := os.Getenv("VERIF_SCRATCH")
	if scratch == "" {
		scratch = filepath.Join(Root, "harness", "scratch")
	}
	os.MkdirAll(scratch, 0o755)
	Scratch = scratch
	curFile = filepath.Join(scratch, fmt.Sprintf("current-%d.json", os.Getpid()))
	if cf := os.Getenv("VERIF_CURRENT"); cf != "" {
		curFile = cf
	}
	code := m.Run()
	if code == 0 {
		os.Remove(curFile)
	}
	if exitCode != 0 {
		code = exitCode
	}
	os.Exit(code)
}

var Scratch string

func say(format string, a ...interface{}) {
	printMu.Lock()
	fmt.Fprintf(os.Stdout, format+"\n", a...)
	printMu.Unlock()
}

// OpenFindings returns the ids listed `open:` for the property in KNOWN_FINDINGS.txt.
func OpenFindings(prop string) map[string]bool {
	out := map[string]bool{}
	f, err := os.Open(filepath.Join(Root, "KNOWN_FINDINGS.txt"))
	if err != nil {
		return out
	}
	defer f.Close()
	sc := bufio.NewScanner(f)
	sc.Buffer(make([]byte, 1<<20), 1<<20)
	for sc.Scan() {
		line := strings.TrimSpace(sc.Text())
		if !strings.HasPrefix(line, "open:") {
			continue
		}
		var p, id string
		for _, tok := range strings.Fields(line) {
			if strings.HasPrefix(tok, "property=") {
				p = tok[len("property="):]
			}
			if strings.HasPrefix(tok, "id=") {
				id = tok[len("id="):]
			}
		}
		if p == prop && id != "" {
			out[id] = true
		}
	}
	return out
}

type runner[C any] struct {
	spec   Spec[C]
	open   []Finding[C]
	st     *stats
	failed bool
}

// guarded runs the case under the watchdog and with the current-case file written.
func (r *runner[C]) guarded(c C, js []byte) *Result {
	if js == nil {
		js, _ = json.Marshal(c)
	}
	os.WriteFile(curFile, js, 0o644)
	limit := r.spec.CaseLimit
	if limit == 0 {
		limit = 20 * time.Second
	}
	if m := os.Getenv("VERIF_LIMIT_MULT"); m != "" {
		if v, err := strconv.Atoi(m); err == nil && v > 0 {
			limit *= time.Duration(v)
		}
	}
	timer := time.AfterFunc(limit, func() {
		buf := make([]byte, 1<<20)
		n := runtime.Stack(buf, true)
		fmt.Fprintf(os.Stderr, "WATCHDOG: case exceeded %v\n%s\n", limit, buf[:n])
		os.Exit(97)
	})
	defer timer.Stop()
	return r.spec.Run(c)
}

// judge splits failures into attributed (known) and unattributed.
func (r *runner[C]) judge(c C, res *Result) (unattr []Failure, hits map[string]int) {
	hits = map[string]int{}
	for _, f := range res.Failures {
		att := ""
		for _, kf := range r.open {
			if strings.HasPrefix(f.Clause, kf.Clause) && kf.Trigger(c, f) {
				att = kf.ID
				break
			}
		}
		if att == "" {
			unattr = append(unattr, f)
		} else {
			hits[att]++
		}
	}
	return
}

func (r *runner[C]) record(c C, js []byte, res *Result, hits map[string]int) {
	st := r.st
	st.mu.Lock()
	defer st.mu.Unlock()
	st.evals++
	seenL := map[string]bool{}
	for _, l := range res.Labels {
		if !seenL[l] {
			seenL[l] = true
			st.labels[l]++
		}
	}
	for k, v := range res.Counts {
		st.counts[k] += v
	}
	for k, v := range res.Clauses {
		st.clauses[k] += v
	}
	for _, f := range res.Failures {
		st.clauseFail[f.Clause]++
	}
	for k, v := range hits {
		st.knownHits[k] += v
	}
	if res.Nontrivial {
		st.nontrivial++
		h := sha1.Sum([]byte(res.Shape))
		key := hex.EncodeToString(h[:6])
		if _, ok := st.shapes[key]; !ok {
			st.shapes[key] = struct{}{}
			if len(st.samples) < 6 || (len(st.samples) < 10 && st.evals%97 == 0) {
				if js == nil {
					js, _ = json.Marshal(c)
				}
				st.samples = append(st.samples, sample(js))
			}
		}
	}
}

func sample(js []byte) json.RawMessage {
	if len(js) <= 3000 {
		return json.RawMessage(js)
	}
	s, _ := json.Marshal(string(js[:3000]) + "…(truncated)")
	return s
}

func saveReplay(prop string, js []byte) string {
	h := sha1.Sum(js)
	dir := filepath.Join(Root, "replays", prop)
	if d := os.Getenv("VERIF_REPLAY_DIR"); d != "" { // sensitivity runs keep their replays out of the committed tree
		dir = filepath.Join(d, prop)
	}
	os.MkdirAll(dir, 0o755)
	p := filepath.Join(dir, hex.EncodeToString(h[:6])+".json")
	os.WriteFile(p, js, 0o644)
	return p
}

// Main is the body of the single Test function of a property package.
func Main[C any](t *testing.T, spec Spec[C]) {
	r := &runner[C]{spec: spec, st: newStats()}
	open := OpenFindings(spec.ID)
	for _, kf := range spec.Findings {
		if open[kf.ID] {
			r.open = append(r.open, kf)
		}
	}
	if fuzzF != nil { // this process is a native fuzz coordinator/worker of the package (see fuzz.go)
		fuzzMode(r)
		return
	}
	defer r.writeEvidence()

	// 1. explicit replay: judge one saved case without rapid.
	if p := os.Getenv("VERIF_REPLAY"); p != "" {
		js, err := os.ReadFile(p)
		if err != nil {
			say("INCONCLUSIVE cannot read replay %s: %v", p, err)
			exitCode = 2
			return
		}
		var c C
		if err := json.Unmarshal(js, &c); err != nil {
			say("INCONCLUSIVE cannot decode replay %s: %v", p, err)
			exitCode = 2
			return
		}
		res := r.guarded(c, js)
		un, hits := r.judge(c, res)
		r.record(c, js, res, hits)
		for id := range hits {
			say("KNOWN-FINDING: property=%s %s (replay)", spec.ID, id)
		}
		for _, f := range un {
			say("FAIL %s: %s", f.Clause, f.Detail)
		}
		if len(un) > 0 {
			r.st.violations++
			say("VIOLATION property=%s replay=%s", spec.ID, p)
			exitCode = 1
			t.Fail()
		} else {
			say("REPLAY-OK property=%s %s", spec.ID, p)
		}
		return
	}

	// 2. witnesses of the open findings.
	for _, kf := range r.open {
		p := filepath.Join(Root, "replays", "kf", kf.ID+".json")
		js, err := os.ReadFile(p)
		if err != nil {
			say("NOTE: %s has no witness file (%v)", kf.ID, err)
			r.st.witnesses[kf.ID] = "missing"
			continue
		}
		var c C
		if err := json.Unmarshal(js, &c); err != nil {
			say("NOTE: %s witness undecodable: %v", kf.ID, err)
			r.st.witnesses[kf.ID] = "undecodable"
			continue
		}
		res := r.guarded(c, js)
		_, hits := r.judge(c, res)
		if hits[kf.ID] > 0 {
			say("KNOWN-FINDING: property=%s %s %s", spec.ID, kf.ID, kf.Desc)
			r.st.witnesses[kf.ID] = "reproduced"
		} else {
			say("NOTE: %s no longer reproduces from its witness", kf.ID)
			r.st.witnesses[kf.ID] = "not reproduced"
		}
	}

	// 3. fixed regression cases (saved replays of earlier violations + hand-written).
	var fixed []C
	if spec.Fixed != nil {
		fixed = spec.Fixed()
	}
	// committed regression replays: witnesses of findings that were fixed, and shrunk cases of mutants the
	// check once missed (replays/regress/<ID>-*.json). They are judged first on every run, in both tiers.
	if rs, _ := filepath.Glob(filepath.Join(Root, "replays", "regress", spec.ID+"-*.json")); len(rs) > 0 {
		sort.Strings(rs)
		for _, p := range rs {
			js, err := os.ReadFile(p)
			if err != nil {
				continue
			}
			var c C
			if err := json.Unmarshal(js, &c); err != nil {
				say("NOTE: regression replay %s undecodable: %v", p, err)
				continue
			}
			fixed = append(fixed, c)
			r.st.counts["regression_replays"]++
		}
	}
	for i, c := range fixed {
		js, _ := json.Marshal(c)
		res := r.guarded(c, js)
		un, hits := r.judge(c, res)
		r.record(c, js, res, hits)
		if len(un) > 0 {
			p := saveReplay(spec.ID, js)
			for _, f := range un {
				say("FAIL %s: %s", f.Clause, f.Detail)
			}
			say("VIOLATION property=%s replay=%s (fixed case %d)", spec.ID, p, i)
			r.st.violations++
			r.st.replayPaths = append(r.st.replayPaths, p)
			exitCode = 1
			t.Fail()
			return
		}
	}

	// 4. generated search.
	var lastFail []byte
	var lastUn []Failure
	var firstFail []byte
	defer func() {
		if lastFail != nil {
			// prefer the shrunk case; keep the original next to it
			p := saveReplay(spec.ID, lastFail)
			if firstFail != nil && string(firstFail) != string(lastFail) {
				os.WriteFile(strings.TrimSuffix(p, ".json")+".orig.json", firstFail, 0o644)
			}
			for _, f := range lastUn {
				say("FAIL %s: %s", f.Clause, f.Detail)
			}
			r.st.violations++
			r.st.replayPaths = append(r.st.replayPaths, p)
			say("VIOLATION property=%s replay=%s", spec.ID, p)
			exitCode = 1
		}
	}()
	if t.Failed() {
		// only the race detector marks a test failed behind the check's back (testing.checkRaces): a report that no
		// judged case claimed through RaceDelta. It is not attributable to a case, so it is never a VIOLATION.
		say("INCONCLUSIVE the test was marked failed outside a judged case before the generated search started (race detector report: %.600q)", RaceDelta())
		exitCode = 2
		return
	}
	rapid.Check(t, func(rt *rapid.T) {
		c := spec.Gen(rt)
		js, _ := json.Marshal(c)
		res := r.guarded(c, js)
		un, hits := r.judge(c, res)
		if !r.failed {
			r.record(c, js, res, hits)
		} else {
			r.st.shrinkEvals++
		}
		if len(un) > 0 {
			if !r.failed {
				firstFail = js
			}
			r.failed = true
			lastFail, lastUn = js, un
			rt.Fatalf("%s: %s", un[0].Clause, un[0].Detail)
		}
	})

	// 5. coverage-guided search over the same generator and oracle (thorough tier, shard 0; see fuzz.go).
	if !t.Failed() && lastFail == nil {
		nativeFuzz(t, r)
	}
}

func (r *runner[C]) writeEvidence() {
	st := r.st
	out := os.Getenv("VERIF_EVIDENCE_PART")
	if out == "" {
		out = filepath.Join(Root, "evidence", "parts", fmt.Sprintf("%s-%d.json", r.spec.ID, Shard))
	}
	os.MkdirAll(filepath.Dir(out), 0o755)
	shapes := make([]string, 0, len(st.shapes))
	for k := range st.shapes {
		shapes = append(shapes, k)
	}
	sort.Strings(shapes)
	warn := []string{}
	for l, min := range r.spec.MustSee {
		if st.evals > 0 && float64(st.labels[l])/float64(st.evals) < min {
			warn = append(warn, fmt.Sprintf("label %q seen in %d/%d cases, floor %.3f", l, st.labels[l], st.evals, min))
		}
	}
	sort.Strings(warn)
	ids := []string{}
	for _, kf := range r.open {
		ids = append(ids, kf.ID)
	}
	part := map[string]interface{}{
		"property_id": r.spec.ID, "tier": Tier, "seed": Seed, "shard": Shard, "level": r.spec.Level,
		"evaluations": st.evals, "shrink_evaluations": st.shrinkEvals, "nontrivial": st.nontrivial, "shapes": shapes,
		"rule": r.spec.Rule, "samples": st.samples, "labels": st.labels, "counts": st.counts,
		"clauses": st.clauses, "clause_failures": st.clauseFail, "known_hits": st.knownHits,
		"witnesses": st.witnesses, "open_findings": ids, "violations": st.violations, "replays": st.replayPaths,
		"assumptions": r.spec.Assumptions, "coverage_warnings": warn, "wall_s": time.Since(started).Seconds(),
	}
	if r.spec.Extra != nil {
		part["extra"] = r.spec.Extra()
	}
	js, _ := json.MarshalIndent(part, "", " ")
	os.WriteFile(out, js, 0o644)
}

// RaceMode reports whether this process is the -race twin started by the driver (VERIF_RACE=1).
func RaceMode() bool { return os.Getenv("VERIF_RACE") == "1" }

var raceOff int64

// RaceDelta returns the race-detector reports written since the previous call ("" if none).
// The driver starts the -race twin with GORACE=log_path=<p>, the runtime writes to <p>.<pid>
// as soon as a race is detected; calling RaceDelta after every case attributes a report to the
// case that produced it. Outside the race twin it always returns "".
func RaceDelta() string {
	lp := ""
	for _, kv := range strings.Fields(os.Getenv("GORACE")) {
		if strings.HasPrefix(kv, "log_path=") {
			lp = kv[len("log_path="):]
		}
	}
	if lp == "" {
		return ""
	}
	b, err := os.ReadFile(fmt.Sprintf("%s.%d", lp, os.Getpid()))
	if err != nil || int64(len(b)) <= raceOff {
		return ""
	}
	d := string(b[raceOff:])
	raceOff = int64(len(b))
	return d
}

// Try runs f and returns the recovered panic value (nil if none) with a short stack.
func Try(f func()) (p interface{}, stack string) {
	defer func() {
		if x := recover(); x != nil {
			p = x
			buf := make([]byte, 4096)
			n := runtime.Stack(buf, false)
			stack = trimStack(string(buf[:n]))
		}
	}()
	f()
	return nil, ""
}

func trimStack(s string) string {
	// keep the frames inside the library under test
	var keep []string
	lines := strings.Split(s, "\n")
	for i := 0; i+1 < len(lines); i++ {
		if strings.Contains(lines[i], "wordZero/pkg/") {
			keep = append(keep, strings.TrimSpace(lines[i])+" @ "+strings.TrimSpace(lines[i+1]))
			if len(keep) >= 4 {
				break
			}
		}
	}
	return strings.Join(keep, " | ")
}

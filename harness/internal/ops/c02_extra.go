package ops

// Additional op kinds needed by C02: calls with EDGE ARGUMENTS, i.e. arguments the API rejects or may reject
// (nil / empty / undecodable / truncated image data, a declared format that is unknown or is not the data's,
// missing / empty / non-image files, a directory, a cell position outside the table, a nil table, header and
// footer type strings that are none of default/first/even, nil configurations, list levels and kinds outside
// the defined ones, removal of unknown notes, template renders that fail half-way, nil document properties, a Save to
// a path that cannot be created). Whether a given call is rejected (returns an error) or accepted is the library's
// business; what a check wants to know is what the document looks like AFTERWARDS, in particular when the
// call returned an error (a rejected call must not leave half of its effect behind).
// ops.go's interpreter is closed (unknown kind panics), so these kinds are executed by DoC02 and drawn by
// C02Op; callers dispatch on IsC02(kind).

import (
	"fmt"
	"os"
	"path/filepath"

	"github.com/zerx-lab/wordZero/pkg/document"
	"pgregory.net/rapid"

	"wzverif/internal/gen"
)

// C02Weights lists the additional kinds with default weights.
var C02Weights = map[string]int{
	"ximage": 4, "ximagefile": 2, "xcellimg": 3, "xhf": 2, "xlist": 1, "xnote": 1, "xtplfail": 3, "xsave": 1, "xprops": 1,
}

// number of variants of each kind (I[4] for ximage/ximagefile, I[3] for xcellimg, I[0] otherwise)
var C02Variants = map[string]int{
	"ximage": 10, "ximagefile": 6, "xcellimg": 12, "xhf": 7, "xlist": 6, "xnote": 6, "xtplfail": 8, "xsave": 2, "xprops": 1,
}

func IsC02(kind string) bool { _, ok := C02Weights[kind]; return ok }

// C02Variant names the edge argument of an op of a C02 extra kind (label / shape material).
func C02Variant(o Op) string {
	switch o.K {
	case "ximage":
		return []string{"nil-data", "empty-data", "garbage-data", "truncated-data", "format-empty", "format-unknown", "zero-size", "negative-size", "format-mismatch", "empty-name"}[In(o.i(4), 10)]
	case "ximagefile":
		return []string{"missing-file", "empty-file", "garbage-file", "directory", "truncated-file", "empty-path"}[In(o.i(4), 6)]
	case "xcellimg":
		return []string{"nil-table", "row-outside", "col-outside", "nil-data", "empty-data", "garbage-data", "truncated-data", "missing-file", "garbage-file", "format-mismatch", "empty-config", "format-unknown"}[In(o.i(3), 12)]
	case "xhf":
		return []string{"header", "footer", "headerpn", "footerpn", "fheader", "ffooter", "nil-config"}[In(o.i(0), 7)]
	case "xlist":
		return []string{"nil-config", "bullet-bad-level-kind", "numbered-bad-level-kind", "multilevel-nil", "multilevel-bad-items", "zero-config"}[In(o.i(0), 6)]
	case "xnote":
		return []string{"notecfg-nil", "notecfg-bad-strings", "rm-unknown-footnote", "rm-unknown-endnote", "footnote-empty", "endnote-empty"}[In(o.i(0), 6)]
	case "xtplfail":
		return []string{"unknown-template", "image-without-data", "image-garbage", "image-truncated", "image-missing-file", "image-garbage-file", "unknown-string-template", "image-directory"}[In(o.i(0), 8)]
	case "xsave":
		return []string{"save-below-a-file", "save-onto-directory"}[In(o.i(0), 2)]
	case "xprops":
		return "nil-properties"
	}
	return ""
}

var hfBadTypes = []document.HeaderFooterType{"", "bogus", "Default", "odd", "FIRST", "even "}

func garbageBytes(pat int) []byte {
	return []byte(fmt.Sprintf("this is not an image \x00\x01\x02 %d", pat))
}

func truncated(b []byte) []byte {
	n := 12
	if len(b) < n {
		n = len(b) / 2
	}
	return append([]byte{}, b[:n]...)
}

// otherFormat is a known format that is not the image's own.
func otherFormat(im *gen.Img) document.ImageFormat {
	if im.Fmt == "png" {
		return document.ImageFormatJPEG
	}
	return document.ImageFormatPNG
}

// scratchFile writes a file for the file-based entry points; "" when the scratch directory fails.
func (x *Exec) scratchFile(name string, data []byte) string {
	p := filepath.Join(x.Dir, "edge", name)
	os.MkdirAll(filepath.Dir(p), 0o755)
	if err := os.WriteFile(p, data, 0o644); err != nil {
		return ""
	}
	return p
}

// DoC02 executes one op of a C02 extra kind. It returns the API error, if the call has one.
func (x *Exec) DoC02(o Op) error {
	x.NOps++
	err := x.doC02(o)
	if err != nil {
		x.Errs++
	}
	return err
}

func (x *Exec) doC02(o Op) error {
	d := x.Doc
	im := o.Img
	if im == nil {
		im = &gen.Img{Fmt: "png", W: 3, H: 3, Name: "e.png"}
	}
	switch o.K {
	case "ximage":
		// I: [cfgmode, posSel, alignSel, wrapSel, variant] F: [w, h] S: ["", alt, title]  (imgConfig layout)
		data, name, format, w, h := im.Bytes(), im.Name, ImgFormats[im.Fmt], im.W, im.H
		switch In(o.i(4), 10) {
		case 0:
			data = nil
		case 1:
			data = []byte{}
		case 2:
			data = garbageBytes(im.Pat)
		case 3:
			data = truncated(data)
		case 4:
			format = ""
		case 5:
			format = document.ImageFormat("bmp")
		case 6:
			w, h = 0, 0
		case 7:
			w, h = -im.W, -1
		case 8:
			format = otherFormat(im)
		case 9:
			name = ""
		}
		info, err := d.AddImageFromData(data, name, format, w, h, imgConfig(o))
		if err == nil {
			if info != nil {
				x.Images = append(x.Images, info)
			}
			x.Paras = x.Doc.Body.GetParagraphs()
		}
		return err
	case "ximagefile":
		var p string
		switch In(o.i(4), 6) {
		case 0:
			p = filepath.Join(x.Dir, "edge", "no-such-file.png")
			os.Remove(p)
		case 1:
			p = x.scratchFile("empty.png", nil)
		case 2:
			p = x.scratchFile("garbage.png", garbageBytes(im.Pat))
		case 3:
			p = filepath.Join(x.Dir, "edge", "dir.png")
			os.MkdirAll(p, 0o755)
		case 4:
			p = x.scratchFile("truncated."+im.Fmt, truncated(im.Bytes()))
		case 5:
			p = ""
		}
		info, err := d.AddImageFromFile(p, imgConfig(o))
		if err == nil {
			if info != nil {
				x.Images = append(x.Images, info)
			}
			x.Paras = x.Doc.Body.GetParagraphs()
		}
		return err
	case "xcellimg":
		// I: [tsel, row, col, variant] F: [widthMM]; row/col are valid positions unless the variant says otherwise
		t := x.table(o.i(0))
		v := In(o.i(3), 12)
		row, col := 0, 0
		if t != nil {
			rows := t.GetRowCount()
			if rows > 0 {
				row = In(o.i(1), rows)
				if n := len(t.Rows[row].Cells); n > 0 {
					col = In(o.i(2), n)
				}
			}
			switch v {
			case 1:
				row = rows + In(o.i(1), 3)
				if o.i(1)%2 == 1 {
					row = -1 - In(o.i(1), 3)
				}
			case 2:
				col = 64 + In(o.i(2), 3)
				if o.i(2)%2 == 1 {
					col = -1 - In(o.i(2), 3)
				}
			}
		}
		if v == 0 {
			t = nil
		}
		var info *document.ImageInfo
		var err error
		switch v {
		case 0, 1, 2:
			info, err = d.AddCellImageFromData(t, row, col, im.Bytes(), o.f(0))
		case 3:
			info, err = d.AddCellImageFromData(t, row, col, nil, o.f(0))
		case 4:
			info, err = d.AddCellImageFromData(t, row, col, []byte{}, o.f(0))
		case 5:
			info, err = d.AddCellImageFromData(t, row, col, garbageBytes(im.Pat), o.f(0))
		case 6:
			info, err = d.AddCellImageFromData(t, row, col, truncated(im.Bytes()), o.f(0))
		case 7:
			p := filepath.Join(x.Dir, "edge", "no-such-cell-file.png")
			os.Remove(p)
			info, err = d.AddCellImageFromFile(t, row, col, p, o.f(0))
		case 8:
			info, err = d.AddCellImageFromFile(t, row, col, x.scratchFile("cellgarbage.png", garbageBytes(im.Pat)), o.f(0))
		case 9:
			info, err = d.AddCellImage(t, row, col, &document.CellImageConfig{Data: im.Bytes(), Format: otherFormat(im), Width: o.f(0)})
		case 10:
			info, err = d.AddCellImage(t, row, col, &document.CellImageConfig{Width: o.f(0), AltText: "nothing"})
		case 11:
			info, err = d.AddCellImage(t, row, col, &document.CellImageConfig{Data: im.Bytes(), Format: document.ImageFormat("bmp"), Width: o.f(0)})
		}
		if err == nil && info != nil {
			x.Images = append(x.Images, info)
		}
		return err
	case "xhf":
		// I: [api, typeSel] S: [text] B: [showPageNum]
		typ := hfBadTypes[In(o.i(1), len(hfBadTypes))]
		switch In(o.i(0), 7) {
		case 0:
			return d.AddHeader(typ, o.s(0))
		case 1:
			return d.AddFooter(typ, o.s(0))
		case 2:
			return d.AddHeaderWithPageNumber(typ, o.s(0), o.b(0))
		case 3:
			return d.AddFooterWithPageNumber(typ, o.s(0), o.b(0))
		case 4:
			return d.AddFormattedHeader(typ, &document.HeaderFooterConfig{Text: o.s(0), Format: o.Fmt.TF()})
		case 5:
			return d.AddFormattedFooter(typ, &document.HeaderFooterConfig{Text: o.s(0), Format: o.Fmt.TF()})
		case 6: // a valid type, no configuration
			if o.b(0) {
				return d.AddFormattedHeader(hfType(o.i(1)), nil)
			}
			return d.AddFormattedFooter(hfType(o.i(1)), nil)
		}
	case "xlist":
		// I: [variant, level, sel] S: [text]
		switch In(o.i(0), 6) {
		case 0:
			x.Paras = append(x.Paras, d.AddListItem(o.s(0), nil))
		case 1:
			x.Paras = append(x.Paras, d.AddBulletList(o.s(0), o.i(1), document.BulletType("bogus")))
		case 2:
			x.Paras = append(x.Paras, d.AddNumberedList(o.s(0), o.i(1), document.ListType("bogus")))
		case 3:
			return d.CreateMultiLevelList(nil)
		case 4:
			err := d.CreateMultiLevelList([]document.ListItem{{Text: o.s(0), Level: o.i(1), Type: document.ListType(""), BulletSymbol: document.BulletType("")},
				{Text: o.s(0), Level: -o.i(1), Type: document.ListType("bogus"), StartNumber: -5}})
			x.Paras = d.Body.GetParagraphs()
			return err
		case 5:
			x.Paras = append(x.Paras, d.AddListItem(o.s(0), &document.ListConfig{}))
		}
	case "xnote":
		// I: [variant] S: [text]
		switch In(o.i(0), 6) {
		case 0:
			return d.SetFootnoteConfig(nil)
		case 1:
			return d.SetFootnoteConfig(&document.FootnoteConfig{NumberFormat: "bogus", StartNumber: -3, RestartEach: "never", Position: "nowhere"})
		case 2:
			return d.RemoveFootnote("no-such-note")
		case 3:
			return d.RemoveEndnote("987654")
		case 4:
			return d.AddFootnote("", "")
		case 5:
			return d.AddEndnote("", "")
		}
	case "xtplfail":
		// a template render from the current document that fails (or may fail) half-way.
		// I: [variant] B: [valid placeholder p before the bad one, both in one paragraph, render again with good data and adopt]
		// Data: variables etc.; Img: the valid picture (p, and q in the second render)
		v := In(o.i(0), 8)
		te := document.NewTemplateEngine()
		if v == 6 { // a string template rendered under a name that was never loaded; the current document is not involved
			if _, err := te.LoadTemplate("t", "{{x}} {{#image p}}"); err != nil {
				return err
			}
			_, err := te.RenderToDocument("not-loaded", o.Data.TD())
			return err
		}
		if v != 0 {
			switch {
			case o.b(0) && o.b(1):
				d.AddParagraph("{{#image p}} and {{#image q}}")
			case o.b(0):
				d.AddParagraph("{{#image p}}")
				d.AddParagraph("{{#image q}}")
			default:
				d.AddParagraph("{{#image q}}")
			}
			x.Paras = d.Body.GetParagraphs()
		}
		if _, err := te.LoadTemplateFromDocument("t", d); err != nil {
			return err
		}
		td := o.Data.TD()
		td.SetImageFromData("p", im.Bytes(), nil)
		name := "t"
		switch v {
		case 0:
			name = "no-such-template"
		case 1:
			td.SetImageFromData("q", nil, nil)
		case 2:
			td.SetImageFromData("q", garbageBytes(im.Pat), nil)
		case 3:
			td.SetImageFromData("q", truncated(im.Bytes()), nil)
		case 4:
			p := filepath.Join(x.Dir, "edge", "no-such-tpl-file.png")
			os.Remove(p)
			td.SetImage("q", p, nil)
		case 5:
			td.SetImage("q", x.scratchFile("tplgarbage.png", garbageBytes(im.Pat)), nil)
		case 7:
			p := filepath.Join(x.Dir, "edge", "tpldir.png")
			os.MkdirAll(p, 0o755)
			td.SetImage("q", p, nil)
		}
		nd, err := te.RenderTemplateToDocument(name, td)
		if err == nil && nd != nil { // accepted after all: behaves like tpldoc
			x.keep(d)
			x.Doc = nd
			x.resetHandles()
			return nil
		}
		if o.b(2) {
			// the caller repairs the data and renders again with the same engine and the same TemplateData
			td.SetImageFromData("q", gen.Img{Fmt: im.Fmt, W: im.W + 1, H: im.H, Pat: im.Pat + 1, Name: im.Name}.Bytes(), nil)
			nd2, err2 := te.RenderTemplateToDocument("t", td)
			if err2 == nil && nd2 != nil {
				x.keep(d)
				x.Doc = nd2
				x.resetHandles()
			}
		}
		return err
	case "xsave":
		switch In(o.i(0), 2) {
		case 0: // a regular file where a directory of the path should be
			return d.Save(filepath.Join(x.scratchFile("plainfile", []byte("x")), "sub", "out.docx"))
		case 1:
			p := filepath.Join(x.Dir, "edge", "outdir.docx")
			os.MkdirAll(p, 0o755)
			return d.Save(p)
		}
	case "xprops":
		return d.SetDocumentProperties(nil)
	default:
		panic("ops: unknown C02 op kind " + o.K)
	}
	return nil
}

// C02Op draws one op of a C02 extra kind.
func (c *Config) C02Op(t *rapid.T, k string) Op {
	o := Op{K: k}
	sel := func() int { return selGen.Draw(t, "sel") }
	variant := func() int { return rapid.IntRange(0, C02Variants[k]-1).Draw(t, "variant") }
	switch k {
	case "ximage", "ximagefile":
		im := gen.Image(t, "img")
		o.Img = &im
		o.I = []int{rapid.IntRange(0, 4).Draw(t, "mode"), sel(), rapid.IntRange(0, 4).Draw(t, "al"), sel(), variant()}
		o.F = []float64{rapid.SampledFrom([]float64{0.1, 10, 50.5, 500, 0, -3}).Draw(t, "w"), rapid.SampledFrom([]float64{0.1, 10, 33.3, 500, 0, -3}).Draw(t, "h")}
		o.S = []string{"", c.text(t, &o, "alt"), c.text(t, &o, "title")}
	case "xcellimg":
		im := gen.Image(t, "img")
		o.Img = &im
		o.I = []int{sel(), sel(), sel(), variant()}
		o.F = []float64{rapid.SampledFrom([]float64{0, 10, 50.5, -1}).Draw(t, "w")}
	case "xhf":
		o.I = []int{variant(), sel()}
		o.S = []string{c.hfText(t, &o)}
		o.B = []bool{rapid.Bool().Draw(t, "b")}
		o.Fmt = c.fmtGen(t)
	case "xlist":
		o.I = []int{variant(), rapid.SampledFrom([]int{-1, 0, 3, 8, 9, 99, -7}).Draw(t, "lvl"), sel()}
		o.S = []string{c.text(t, &o, "text")}
	case "xnote":
		o.I = []int{variant()}
		o.S = []string{c.text(t, &o, "text")}
	case "xtplfail":
		im := gen.Image(t, "img")
		o.Img = &im
		o.I = []int{variant()}
		o.B = []bool{rapid.IntRange(0, 3).Draw(t, "goodfirst") != 0, rapid.Bool().Draw(t, "onepara"), rapid.Bool().Draw(t, "again")}
		o.Data = c.data(t, &o)
	case "xsave", "xprops":
		o.I = []int{variant()}
	default:
		panic("gen: unknown C02 kind " + k)
	}
	return o
}

package ops

// Additional op kinds needed by C01: calls on a document that touch only SOME of its parts - read-only
// accessors (note counts, headings, properties, page settings, part map), removers of one note kind,
// RestartNumbering, CreateMultiLevelList. ops.go's interpreter is closed (unknown kind panics), so these
// kinds are executed by DoC01 and drawn by C01Op; callers dispatch on IsC01(kind).
// Adopt lets a check start (or continue) a history on a document it opened itself.

import (
	"github.com/zerx-lab/wordZero/pkg/document"
	"pgregory.net/rapid"
)

// C01Weights lists the additional kinds with default weights.
var C01Weights = map[string]int{
	"fncount": 2, "encount": 2, "restartnum": 1, "rmfootnote": 1, "rmendnote": 1,
	"headings": 1, "getprops": 1, "getpage": 1, "getparts": 1, "multilist": 1,
}

func IsC01(kind string) bool { _, ok := C01Weights[kind]; return ok }

// Adopt makes d the current document of the history (the previous one is dropped, not kept as a side document).
func (x *Exec) Adopt(d *document.Document) {
	x.Doc = d
	x.resetHandles()
}

// DoC01 executes one op of a C01 extra kind.
func (x *Exec) DoC01(o Op) error {
	x.NOps++
	err := x.doC01(o)
	if err != nil {
		x.Errs++
	}
	return err
}

func (x *Exec) doC01(o Op) error {
	d := x.Doc
	switch o.K {
	case "fncount":
		d.GetFootnoteCount()
	case "encount":
		d.GetEndnoteCount()
	case "restartnum":
		d.RestartNumbering(o.s(0))
	case "rmfootnote":
		return d.RemoveFootnote(o.s(0))
	case "rmendnote":
		return d.RemoveEndnote(o.s(0))
	case "headings":
		d.GetHeadingCount()
		d.ListHeadings()
	case "getprops":
		_, err := d.GetDocumentProperties()
		return err
	case "getpage":
		d.GetPageSettings()
	case "getparts":
		// a caller that only looks at the part map (it must not write into it)
		n := 0
		for _, b := range d.GetParts() {
			n += len(b)
		}
		_ = n
	case "multilist":
		// S: item texts; I: per item [level, typeSel, bulletSel, start]
		items := make([]document.ListItem, 0, len(o.S))
		for i, s := range o.S {
			items = append(items, document.ListItem{Text: s, Level: o.i(4 * i), Type: ListTypes[In(o.i(4*i+1), len(ListTypes))],
				BulletSymbol: Bullets[In(o.i(4*i+2), len(Bullets))], StartNumber: o.i(4*i + 3)})
		}
		err := d.CreateMultiLevelList(items)
		x.Paras = d.Body.GetParagraphs()
		return err
	default:
		panic("ops: unknown C01 op kind " + o.K)
	}
	return nil
}

// C01Op draws one op of a C01 extra kind.
func (c *Config) C01Op(t *rapid.T, k string) Op {
	o := Op{K: k}
	switch k {
	case "fncount", "encount", "headings", "getprops", "getpage", "getparts":
	case "restartnum", "rmfootnote", "rmendnote":
		// ids: what the library hands out (small decimals), what foreign parts use, and unknown ones
		o.S = []string{rapid.SampledFrom([]string{"1", "2", "3", "0", "-1", "99", "", "x"}).Draw(t, "id")}
	case "multilist":
		n := rapid.IntRange(0, 4).Draw(t, "nitems")
		for i := 0; i < n; i++ {
			o.S = append(o.S, c.text(t, &o, "item"))
			o.I = append(o.I, rapid.IntRange(-1, 9).Draw(t, "lvl"), selGen.Draw(t, "sel"), selGen.Draw(t, "sel"), rapid.IntRange(-1, 9).Draw(t, "start"))
		}
	default:
		panic("gen: unknown C01 kind " + k)
	}
	return o
}

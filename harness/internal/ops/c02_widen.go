package ops

// Op kinds added while WIDENING C02 (second extension file of C02; c02_extra.go holds the edge-argument calls).
// These are VALID calls through public entry points that the base interpreter does not reach, and shapes of use
// that need several objects:
//   wsave       Document.Save to a file path (a serialiser of its own, next to ToBytes), the file is read back
//   wreopenf    Save to a path + document.Open of that path, the opened document becomes the current one
//   wcellimg    AddCellImageFromFile / AddCellImage with FilePath / Data+Format / AltText+Title+Height
//   wtplimgs    several DISTINCT image placeholders (names that are prefixes of one another or differ in case; in
//               body paragraphs, in one paragraph, in table cells) rendered from the current document with pictures
//               given as data / file path / SetImageWithDetails / with a floating configuration, through
//               TemplateEngine or TemplateRenderer (LoadTemplateFromFile); one name may stay without data
//   wtplstrimg  a STRING template with image placeholders rendered with RenderToDocument
//   wburst      n pictures in a row (body, cells, mixed with a header and a list): counts past 9 / 32 / 64
//   wswap       the most recent side document (template base, earlier render, document before a reopen) becomes
//               the current one and the current one a side document: two live documents used alternately
//   wtplload    LoadTemplateFromDocument into an engine that is KEPT; wtplagain renders from the kept engine later,
//               after the base document (or other renders) went on changing
//   wnote       AddFootnoteToRun, removal of EXISTING notes, note counts, every enumerated footnote configuration
//   wlist       CreateMultiLevelList with valid items (levels 0..8, rarely more items), RestartNumbering, deep lists
//   wprops      SetAuthor / SetSubject / SetKeywords / SetDescription / SetCategory / GetDocumentProperties
//   wimgmod     ResizeImage / SetImagePosition / SetImageWrapText / SetImageTitle / SetImageAlignment on a handle
//   whf         all six header/footer definitions through mixed entry points, optionally defined a second time
// The state that outlives one op (the kept engine) lives in C02W, which wraps an Exec.

import (
	"fmt"
	"os"
	"path/filepath"
	"strconv"

	"github.com/zerx-lab/wordZero/pkg/document"
	"pgregory.net/rapid"

	"wzverif/internal/gen"
)

// C02WWeights lists the widening kinds with default weights.
var C02WWeights = map[string]int{
	"wsave": 5, "wreopenf": 3, "wcellimg": 4, "wtplimgs": 5, "wtplstrimg": 1, "wburst": 2, "wswap": 4, "wtplload": 2, "wtplagain": 3,
	"wnote": 3, "wlist": 2, "wprops": 1, "wimgmod": 1, "whf": 2,
}

// number of variants (I[0] unless said otherwise)
var C02WVariants = map[string]int{
	"wsave": 4, "wreopenf": 2, "wcellimg": 4, "wtplimgs": 2, "wtplstrimg": 1, "wburst": 3, "wswap": 1, "wtplload": 1, "wtplagain": 1,
	"wnote": 6, "wlist": 3, "wprops": 6, "wimgmod": 5, "whf": 1,
}

func IsC02W(kind string) bool { _, ok := C02WWeights[kind]; return ok }

// C02WVariant names the variant of a widening op (label / shape material).
func C02WVariant(o Op) string {
	switch o.K {
	case "wsave":
		return []string{"save-path", "save-new-dirs", "save-twice-same-path", "save-then-tobytes"}[In(o.i(0), 4)]
	case "wreopenf":
		return []string{"save+open", "save+open-nested"}[In(o.i(0), 2)]
	case "wcellimg":
		return []string{"from-file", "config-filepath", "config-data+format", "config-data+alt"}[In(o.i(3), 4)]
	case "wtplimgs":
		return []string{"engine", "renderer-file"}[In(o.i(2), 2)] + "/" + []string{"own-paragraphs", "one-paragraph", "table-cells"}[In(o.i(1), 3)]
	case "wburst":
		return []string{"body", "cells", "mixed"}[In(o.i(1), 3)]
	case "wnote":
		return []string{"footnote-to-run", "rm-existing-footnote", "rm-existing-endnote", "config-enums", "counts", "add-add-rm"}[In(o.i(0), 6)]
	case "wlist":
		return []string{"multilevel", "restart", "deep"}[In(o.i(0), 3)]
	case "wprops":
		return []string{"author", "subject", "keywords", "description", "category", "get"}[In(o.i(0), 6)]
	case "wimgmod":
		return []string{"resize", "position", "wrap", "title", "alignment"}[In(o.i(0), 5)]
	}
	return ""
}

// C02W wraps an Exec with the state the widening ops need across ops.
type C02W struct {
	X *Exec
	// kept engine (wtplload / wtplagain)
	te      *document.TemplateEngine
	Renders int // renders made from the kept engine
	Swaps   int
}

func NewC02W(x *Exec) *C02W { return &C02W{X: x} }

// PlaceholderNames are the image placeholder names of wtplimgs, in order: prefixes of one another, names that differ
// in case only, a name with an underscore, then p2, p3, ...
func PlaceholderName(i int) string {
	first := []string{"p", "q", "p1", "p10", "P", "img_1"}
	if i < len(first) {
		return first[i]
	}
	return fmt.Sprintf("p%d", i-len(first)+2)
}

var cellFileNames = []string{"image0.png", "image1.png", "cell_image.png", "名前.png", "a b.gif", "P.PNG", "x", "image10.jpeg"}

func (w *C02W) file(sub, name string, data []byte) string {
	p := filepath.Join(w.X.Dir, sub, name)
	os.MkdirAll(filepath.Dir(p), 0o755)
	if err := os.WriteFile(p, data, 0o644); err != nil {
		return ""
	}
	return p
}

func floatCfg(i int) *document.ImageConfig {
	c := &document.ImageConfig{AltText: "alt", Title: "t"}
	switch i % 4 {
	case 0:
		c.Position, c.WrapText = document.ImagePositionFloatLeft, document.ImageWrapSquare
	case 1:
		c.Position, c.WrapText = document.ImagePositionFloatRight, document.ImageWrapTight
	case 2:
		c.Position, c.Size = document.ImagePositionInline, &document.ImageSize{Width: 20, KeepAspectRatio: true}
	case 3:
		c.Position, c.Alignment = document.ImagePositionInline, document.AlignRight
	}
	return c
}

// Do executes one widening op. It returns the API error, if the call has one.
func (w *C02W) Do(o Op) error {
	w.X.NOps++
	err := w.do(o)
	if err != nil {
		w.X.Errs++
	}
	return err
}

func (w *C02W) adopt(old, nd *document.Document) {
	w.X.keep(old)
	w.X.Doc = nd
	w.X.resetHandles()
}

func (w *C02W) do(o Op) error {
	x := w.X
	d := x.Doc
	im := o.Img
	if im == nil {
		im = &gen.Img{Fmt: "png", W: 3, H: 3, Name: "w.png"}
	}
	switch o.K {
	case "wsave":
		p := filepath.Join(x.Dir, "wsave", "out.docx")
		switch In(o.i(0), 4) {
		case 1:
			p = filepath.Join(x.Dir, "wsave", fmt.Sprintf("n%d", x.NOps), "a", "b", "out.docx")
		case 2:
			if err := d.Save(p); err != nil {
				return err
			}
		}
		if err := d.Save(p); err != nil {
			return err
		}
		b, rerr := os.ReadFile(p)
		if rerr != nil {
			return nil // scratch problem, not an API result
		}
		x.Saves = append(x.Saves, b)
		if In(o.i(0), 4) == 3 {
			b2, err := d.ToBytes()
			if err != nil {
				return err
			}
			x.Saves = append(x.Saves, b2)
		}
	case "wreopenf":
		p := filepath.Join(x.Dir, "wreopen", "r.docx")
		if In(o.i(0), 2) == 1 {
			p = filepath.Join(x.Dir, "wreopen", fmt.Sprintf("n%d", x.NOps), "r.docx")
		}
		if err := d.Save(p); err != nil {
			return err
		}
		if b, rerr := os.ReadFile(p); rerr == nil {
			x.Saves = append(x.Saves, b)
		}
		nd, err := document.Open(p)
		if err != nil {
			return fmt.Errorf("open of own saved file failed: %w", err)
		}
		w.adopt(d, nd)
	case "wcellimg":
		// I: [tsel, row, col, variant, nameSel] F: [w, h]
		t := x.table(o.i(0))
		if t == nil {
			return nil
		}
		rows := t.GetRowCount()
		if rows == 0 {
			return nil
		}
		row := In(o.i(1), rows)
		if len(t.Rows[row].Cells) == 0 {
			return nil
		}
		col := In(o.i(2), len(t.Rows[row].Cells))
		name := cellFileNames[In(o.i(4), len(cellFileNames))]
		var info *document.ImageInfo
		var err error
		switch In(o.i(3), 4) {
		case 0:
			info, err = d.AddCellImageFromFile(t, row, col, w.file("wcell", name, im.Bytes()), o.f(0))
		case 1:
			info, err = d.AddCellImage(t, row, col, &document.CellImageConfig{FilePath: w.file("wcell", name, im.Bytes()), Height: o.f(1), AltText: "a", Title: "t"})
		case 2:
			info, err = d.AddCellImage(t, row, col, &document.CellImageConfig{Data: im.Bytes(), Format: ImgFormats[im.Fmt], Width: o.f(0), KeepAspectRatio: true})
		case 3:
			info, err = d.AddCellImage(t, row, col, &document.CellImageConfig{Data: im.Bytes(), Width: o.f(0), Height: o.f(1), AltText: o.s(0), Title: o.s(1)})
		}
		if err == nil && info != nil {
			x.Images = append(x.Images, info)
		}
		return err
	case "wtplimgs":
		// I: [n, placement, via, kindbits, missing] B: [text around the placeholders]
		n := o.i(0)
		if n < 1 {
			n = 1
		}
		names := make([]string, n)
		for i := range names {
			names[i] = PlaceholderName(i)
		}
		ph := func(i int) string {
			if o.b(0) {
				return "before " + "{{#image " + names[i] + "}}" + " after"
			}
			return "{{#image " + names[i] + "}}"
		}
		switch In(o.i(1), 3) {
		case 0:
			for i := range names {
				d.AddParagraph(ph(i))
			}
		case 1:
			s := ""
			for i := range names {
				if i > 0 {
					s += " x "
				}
				s += "{{#image " + names[i] + "}}"
			}
			d.AddParagraph(s)
		case 2:
			rows := n
			if rows > 3 {
				rows = 3
			}
			t, err := d.AddTable(&document.TableConfig{Rows: rows, Cols: 2, Width: 8000})
			if err != nil {
				return err
			}
			for i := range names {
				if i < rows*2 {
					if err := t.SetCellText(i/2, i%2, ph(i)); err != nil {
						return err
					}
				} else {
					d.AddParagraph(ph(i))
				}
			}
		}
		td := o.Data.TD()
		for i, nm := range names {
			if o.i(4) == i {
				delete(td.Images, nm)
				continue // this name stays without data: the render writes a text instead
			}
			pic := gen.Img{Fmt: im.Fmt, W: im.W + i%3, H: im.H, Pat: im.Pat + i, Name: im.Name}
			if i%2 == 1 {
				pic.Fmt = []string{"png", "jpeg", "gif"}[(i/2)%3]
			}
			switch (o.i(3) >> (2 * uint(i%12))) & 3 {
			case 0:
				td.SetImageFromData(nm, pic.Bytes(), nil)
			case 1:
				td.SetImage(nm, w.file("wtpl", fmt.Sprintf("%d-%s", i, cellFileNames[i%len(cellFileNames)]), pic.Bytes()), nil)
			case 2:
				td.SetImageWithDetails(nm, "", pic.Bytes(), floatCfg(i), "alt "+nm, "title "+nm)
			case 3:
				td.SetImageWithDetails(nm, w.file("wtpl", fmt.Sprintf("d%d.%s", i, pic.Fmt), pic.Bytes()), nil, floatCfg(i+2), "", "")
			}
		}
		var nd *document.Document
		var err error
		if In(o.i(2), 2) == 1 {
			p := filepath.Join(x.Dir, "wtpl", "template.docx")
			os.MkdirAll(filepath.Dir(p), 0o755)
			if err := d.Save(p); err != nil {
				return err
			}
			tr := document.NewTemplateRenderer()
			tr.SetLogging(false)
			if _, err := tr.LoadTemplateFromFile("f", p); err != nil {
				return err
			}
			nd, err = tr.RenderTemplate("f", td)
		} else {
			te := document.NewTemplateEngine()
			if _, err := te.LoadTemplateFromDocument("t", d); err != nil {
				return err
			}
			nd, err = te.RenderTemplateToDocument("t", td)
		}
		if err != nil {
			return err
		}
		if nd == nil {
			return fmt.Errorf("render returned neither a document nor an error")
		}
		w.adopt(d, nd)
	case "wtplstrimg":
		// I: [n] S: [text]
		n := o.i(0)
		if n < 1 {
			n = 1
		}
		src := o.s(0) + "\n"
		td := o.Data.TD()
		for i := 0; i < n; i++ {
			nm := PlaceholderName(i)
			src += "line {{#image " + nm + "}}\n"
			td.SetImageFromData(nm, gen.Img{Fmt: im.Fmt, W: im.W, H: im.H + i%2, Pat: im.Pat + i, Name: im.Name}.Bytes(), nil)
		}
		te := document.NewTemplateEngine()
		if _, err := te.LoadTemplate("s", src); err != nil {
			return err
		}
		nd, err := te.RenderToDocument("s", td)
		if err != nil {
			return err
		}
		if nd == nil {
			return fmt.Errorf("render returned neither a document nor an error")
		}
		w.adopt(d, nd)
	case "wburst":
		// I: [n, mode, cfgmode]
		n := o.i(0)
		var t *document.Table
		mode := In(o.i(1), 3)
		if mode != 0 {
			if t = x.table(o.i(3)); t == nil || t.GetRowCount() == 0 || len(t.Rows[0].Cells) == 0 {
				nt, err := d.AddTable(&document.TableConfig{Rows: 2, Cols: 2, Width: 8000})
				if err != nil {
					return err
				}
				x.Tables = append(x.Tables, nt)
				t = nt
			}
		}
		for i := 0; i < n; i++ {
			pic := gen.Img{Fmt: []string{"png", "jpeg", "gif"}[(i+im.Pat)%3], W: im.W, H: im.H, Pat: im.Pat + i, Name: im.Name}
			var info *document.ImageInfo
			var err error
			switch {
			case mode == 1 || (mode == 2 && i%3 == 1):
				rows := t.GetRowCount()
				r := i % rows
				info, err = d.AddCellImageFromData(t, r, i%len(t.Rows[r].Cells), pic.Bytes(), 10)
			case mode == 2 && i == 4:
				err = d.AddHeader(hfType(i), "burst")
			case mode == 2 && i == 7:
				x.Paras = append(x.Paras, d.AddBulletList("burst", 0, document.BulletTypeDot))
			default:
				var c *document.ImageConfig
				if o.i(2) > 0 {
					c = floatCfg(i + o.i(2))
				}
				info, err = d.AddImageFromData(pic.Bytes(), pic.Name, ImgFormats[pic.Fmt], pic.W, pic.H, c)
			}
			if err != nil {
				return err
			}
			if info != nil {
				x.Images = append(x.Images, info)
			}
		}
		x.Paras = d.Body.GetParagraphs()
	case "wswap":
		if n := len(x.Side); n > 0 && x.Side[n-1] != nil {
			other := x.Side[n-1]
			x.Side[n-1] = d
			x.Doc = other
			x.resetHandles()
			w.Swaps++
		}
	case "wtplload":
		te := document.NewTemplateEngine()
		if o.b(0) {
			d.AddParagraph("{{#image p}}")
			x.Paras = d.Body.GetParagraphs()
		}
		if _, err := te.LoadTemplateFromDocument("k", d); err != nil {
			return err
		}
		w.te = te
	case "wtplagain":
		if w.te == nil { // nothing kept yet: this call loads (and keeps) the template, a later one renders from it
			te := document.NewTemplateEngine()
			if _, err := te.LoadTemplateFromDocument("k", d); err != nil {
				return err
			}
			w.te = te
			return nil
		}
		td := o.Data.TD()
		if o.Img != nil {
			td.SetImageFromData("p", im.Bytes(), nil)
		}
		nd, err := w.te.RenderTemplateToDocument("k", td)
		if err != nil {
			return err
		}
		if nd == nil {
			return fmt.Errorf("render returned neither a document nor an error")
		}
		w.Renders++
		w.adopt(d, nd)
	case "wnote":
		// I: [variant, sel, sel2] S: [text, note]
		switch In(o.i(0), 6) {
		case 0:
			if p := x.para(o.i(1)); p != nil && len(p.Runs) > 0 {
				return d.AddFootnoteToRun(&p.Runs[In(o.i(2), len(p.Runs))], o.s(1))
			}
			return d.AddFootnote(o.s(0), o.s(1))
		case 1, 2:
			rm, count := d.RemoveFootnote, d.GetFootnoteCount
			if In(o.i(0), 6) == 2 {
				rm, count = d.RemoveEndnote, d.GetEndnoteCount
			}
			if o.i(1)%2 == 0 || count() == 0 {
				return rm(strconv.Itoa(1 + In(o.i(1)/2, 3)))
			}
			// some existing note: ids are not reused, so the caller tries the ids it handed out so far
			var err error
			for id := 1; id <= count()+In(o.i(2), 4)+1; id++ {
				if err = rm(strconv.Itoa(id)); err == nil {
					return nil
				}
			}
			return err
		case 3:
			fmts := []document.FootnoteNumberFormat{document.FootnoteFormatDecimal, document.FootnoteFormatLowerRoman, document.FootnoteFormatUpperRoman, document.FootnoteFormatLowerLetter, document.FootnoteFormatUpperLetter, document.FootnoteFormatSymbol}
			rs := []document.FootnoteRestart{document.FootnoteRestartContinuous, document.FootnoteRestartEachSection, document.FootnoteRestartEachPage}
			ps := []document.FootnotePosition{document.FootnotePositionPageBottom, document.FootnotePositionBeneathText, document.FootnotePositionSectionEnd}
			return d.SetFootnoteConfig(&document.FootnoteConfig{NumberFormat: fmts[In(o.i(1), len(fmts))], StartNumber: 1 + In(o.i(2), 12), RestartEach: rs[In(o.i(2), 3)], Position: ps[In(o.i(1), 3)]})
		case 4:
			d.GetFootnoteCount()
			d.GetEndnoteCount()
		case 5:
			if err := d.AddFootnote(o.s(0), o.s(1)); err != nil {
				return err
			}
			if err := d.AddEndnote(o.s(0), o.s(1)); err != nil {
				return err
			}
			// remove a note again (ids are 1..n as long as nothing was removed before); half of the time every note goes
			if n := d.GetFootnoteCount(); n > 0 {
				if o.i(1)%2 == 0 {
					for i := n; i >= 1; i-- {
						d.RemoveFootnote(strconv.Itoa(i))
					}
				} else if err := d.RemoveFootnote(strconv.Itoa(n)); err != nil {
					return err
				}
			}
			if n := d.GetEndnoteCount(); n > 0 && o.i(2)%2 == 0 {
				return d.RemoveEndnote(strconv.Itoa(n))
			}
		}
	case "wlist":
		// I: [variant, n, sel] S: [text]
		n := o.i(1)
		switch In(o.i(0), 3) {
		case 0:
			items := make([]document.ListItem, 0, n)
			for i := 0; i < n; i++ {
				items = append(items, document.ListItem{Text: fmt.Sprintf("%s %d", o.s(0), i), Level: (i + o.i(2)) % 9, Type: ListTypes[(i+o.i(2))%len(ListTypes)], BulletSymbol: Bullets[i%len(Bullets)], StartNumber: 1 + i%3})
			}
			err := d.CreateMultiLevelList(items)
			x.Paras = d.Body.GetParagraphs()
			return err
		case 1:
			d.RestartNumbering(strconv.Itoa(1 + In(o.i(2), 4)))
		case 2:
			for i := 0; i < n; i++ {
				x.Paras = append(x.Paras, d.AddListItem(o.s(0), &document.ListConfig{Type: ListTypes[In(o.i(2), len(ListTypes))], BulletSymbol: Bullets[i%len(Bullets)], StartNumber: 1, IndentLevel: i % 9}))
			}
		}
	case "wprops":
		switch In(o.i(0), 6) {
		case 0:
			return d.SetAuthor(o.s(0))
		case 1:
			return d.SetSubject(o.s(0))
		case 2:
			return d.SetKeywords(o.s(0))
		case 3:
			return d.SetDescription(o.s(0))
		case 4:
			return d.SetCategory(o.s(0))
		case 5:
			_, err := d.GetDocumentProperties()
			return err
		}
	case "wimgmod":
		// I: [variant, imgSel, sel] F: [x, y] S: [text]
		if len(x.Images) == 0 {
			return nil
		}
		info := x.Images[In(o.i(1), len(x.Images))]
		switch In(o.i(0), 5) {
		case 0:
			return d.ResizeImage(info, &document.ImageSize{Width: o.f(0), Height: o.f(1), KeepAspectRatio: o.b(0)})
		case 1:
			pos := []document.ImagePosition{document.ImagePositionInline, document.ImagePositionFloatLeft, document.ImagePositionFloatRight}[In(o.i(2), 3)]
			return d.SetImagePosition(info, pos, o.f(0), o.f(1))
		case 2:
			wr := []document.ImageWrapText{document.ImageWrapNone, document.ImageWrapSquare, document.ImageWrapTight, document.ImageWrapTopAndBottom}[In(o.i(2), 4)]
			return d.SetImageWrapText(info, wr)
		case 3:
			return d.SetImageTitle(info, o.s(0))
		case 4:
			return d.SetImageAlignment(info, Aligns[In(o.i(2), 4)])
		}
	case "whf":
		// I: [mask, apiSel] S: [text] B: [define a second time]
		rounds := 1
		if o.b(0) {
			rounds = 2
		}
		for r := 0; r < rounds; r++ {
			for i := 0; i < 6; i++ {
				if o.i(0)&(1<<uint(i)) == 0 {
					continue
				}
				typ := hfType(i / 2)
				api := (o.i(1) + i + r) % 3
				var err error
				if i%2 == 0 {
					switch api {
					case 0:
						err = d.AddHeader(typ, o.s(0))
					case 1:
						err = d.AddHeaderWithPageNumber(typ, o.s(0), r == 0)
					case 2:
						err = d.AddFormattedHeader(typ, &document.HeaderFooterConfig{Text: o.s(0), Format: o.Fmt.TF()})
					}
				} else {
					switch api {
					case 0:
						err = d.AddFooter(typ, o.s(0))
					case 1:
						err = d.AddFooterWithPageNumber(typ, o.s(0), r == 0)
					case 2:
						err = d.AddFormattedFooter(typ, &document.HeaderFooterConfig{Text: o.s(0), Format: o.Fmt.TF()})
					}
				}
				if err != nil {
					return err
				}
			}
		}
	default:
		panic("ops: unknown C02 widening op kind " + o.K)
	}
	return nil
}

// C02WOp draws one op of a widening kind.
func (c *Config) C02WOp(t *rapid.T, k string) Op {
	o := Op{K: k}
	sel := func() int { return selGen.Draw(t, "sel") }
	variant := func() int { return rapid.IntRange(0, C02WVariants[k]-1).Draw(t, "variant") }
	// counts: mostly small; past 9 now and then; past 32 / 64 rarely
	count := func(lo int) int {
		switch r := rapid.IntRange(0, 39).Draw(t, "countclass"); {
		case r == 0:
			return rapid.SampledFrom([]int{33, 65}).Draw(t, "bigcount")
		case r < 8:
			return rapid.IntRange(9, 13).Draw(t, "count10")
		default:
			return rapid.IntRange(lo, 4).Draw(t, "count")
		}
	}
	switch k {
	case "wsave", "wreopenf":
		o.I = []int{variant()}
	case "wcellimg":
		im := gen.Image(t, "img")
		o.Img = &im
		o.I = []int{sel(), sel(), sel(), variant(), sel()}
		o.F = []float64{rapid.SampledFrom([]float64{0, 10, 50.5}).Draw(t, "w"), rapid.SampledFrom([]float64{0, 8, 33.3}).Draw(t, "h")}
		o.S = []string{c.text(t, &o, "alt"), c.text(t, &o, "title")}
	case "wtplimgs":
		im := gen.Image(t, "img")
		o.Img = &im
		n := count(1)
		if n > 13 {
			n = 13 // the kind bits of I[3] cover 12 names; 13 placeholders cross the two-digit boundary as well
		}
		o.I = []int{n, rapid.IntRange(0, 2).Draw(t, "placement"), rapid.IntRange(0, 1).Draw(t, "via"), rapid.IntRange(0, 1<<24-1).Draw(t, "kinds"), rapid.IntRange(-1, n+3).Draw(t, "missing")}
		if o.I[4] >= n {
			o.I[4] = -1
		}
		o.B = []bool{rapid.Bool().Draw(t, "around")}
		o.Data = c.data(t, &o)
	case "wtplstrimg":
		im := gen.Image(t, "img")
		o.Img = &im
		o.I = []int{rapid.IntRange(1, 3).Draw(t, "n")}
		o.S = []string{c.text(t, &o, "text")}
		o.Data = c.data(t, &o)
	case "wburst":
		im := gen.Image(t, "img")
		o.Img = &im
		n := count(2)
		o.I = []int{n, variant(), rapid.IntRange(0, 3).Draw(t, "cfg"), sel()}
	case "wswap":
	case "wtplload":
		o.B = []bool{rapid.Bool().Draw(t, "ph")}
	case "wtplagain":
		if rapid.IntRange(0, 3).Draw(t, "hasimg") != 0 {
			im := gen.Image(t, "img")
			o.Img = &im
		}
		o.Data = c.data(t, &o)
	case "wnote":
		o.I = []int{variant(), sel(), sel()}
		if (o.I[0] == 1 || o.I[0] == 2) && rapid.Bool().Draw(t, "firstnote") {
			o.I[1] = 0 // the first note (id 1)
		}
		o.S = []string{c.text(t, &o, "text"), c.text(t, &o, "note")}
	case "wlist":
		n := count(1)
		if n > 13 {
			n = 13
		}
		o.I = []int{variant(), n, sel()}
		o.S = []string{c.text(t, &o, "text")}
	case "wprops":
		o.I = []int{variant()}
		o.S = []string{c.text(t, &o, "text")}
	case "wimgmod":
		o.I = []int{variant(), sel(), sel()}
		o.F = []float64{rapid.SampledFrom([]float64{0, 5, 40.5, -2}).Draw(t, "x"), rapid.SampledFrom([]float64{0, 5, 12.25, -2}).Draw(t, "y")}
		o.S = []string{c.text(t, &o, "text")}
		o.B = []bool{rapid.Bool().Draw(t, "keep")}
	case "whf":
		o.I = []int{rapid.IntRange(1, 63).Draw(t, "mask"), rapid.IntRange(0, 2).Draw(t, "api")}
		o.S = []string{c.hfText(t, &o)}
		o.B = []bool{rapid.IntRange(0, 2).Draw(t, "twice") != 0}
		o.Fmt = c.fmtGen(t)
	default:
		panic("gen: unknown C02 widening kind " + k)
	}
	return o
}

package ops

import (
	"strings"

	"github.com/zerx-lab/wordZero/pkg/style"
	"pgregory.net/rapid"

	"wzverif/internal/gen"
)

func (x *Exec) customStyle(o Op) error {
	sm := x.Doc.GetStyleManager()
	if sm == nil {
		return nil
	}
	typ := style.StyleTypeParagraph
	if o.b(0) {
		typ = style.StyleTypeCharacter
	}
	sm.CreateCustomStyle(o.s(0), o.s(1), typ, o.s(2))
	return nil
}

// Config selects and weights op kinds for a property.
type Config struct {
	Classes  []string       // string classes for free text
	Weights  map[string]int // kind -> weight (absent = 0)
	StyleIDs []string       // ids offered to pstyle (nil = free text)
	MaxLen   int
	cached   []string
}

// All kinds with default weights (C01 uses all).
var DefaultWeights = map[string]int{
	"para": 8, "fpara": 5, "heading": 4, "headingbm": 2, "headingbm2": 1, "pagebreak": 1,
	"align": 1, "spacing": 1, "indent": 1, "keepnext": 1, "keeplines": 1, "pbb": 1, "widow": 1, "outline": 1, "snap": 1,
	"pstyle": 2, "hrule": 1, "pborder": 1, "addtext": 4, "ppagebreak": 1,
	"pbold": 1, "pitalic": 1, "punderline": 1, "pstrike": 1, "phighlight": 1, "pfont": 2, "psize": 1, "pcolor": 1,
	"inlinemath": 1, "math": 2, "mathlatex": 2,
	"table": 4, "celltext": 3, "cellftext": 1, "celladdtext": 1, "cellpara": 1, "cellfpara": 1, "celllist": 1, "cellfmt": 1, "cellimg": 2, "nested": 1,
	"insrow": 1, "approw": 1, "delrow": 1, "inscol": 1, "appcol": 1, "delcol": 1, "mergeh": 1, "mergev": 1, "merger": 1, "unmerge": 1,
	"rowheight": 1, "rowheader": 1, "tblstyle": 1, "tblborders": 1, "tblshading": 1, "cellshading": 1, "altrows": 1,
	"image": 5, "imagefile": 2, "imgalt": 1, "imgtitle": 1,
	"header": 2, "footer": 2, "headerpn": 1, "footerpn": 1, "fheader": 1, "ffooter": 1, "difffirst": 1,
	"footnote": 2, "endnote": 2, "notecfg": 1, "listitem": 2, "bullet": 1, "numbered": 1,
	"toc": 1, "autotoc": 1, "updatetoc": 1, "props": 2, "title": 1, "author": 1, "stats": 1,
	"pagesize": 1, "custompage": 1, "orient": 1, "margins": 1, "hfdist": 1, "gutter": 1, "docgrid": 1, "cleargrid": 1,
	"rmpara": 1, "rmparaat": 1, "rmelemat": 1, "customstyle": 1,
	"save": 1, "reopen": 2, "tplstr": 1, "tpldoc": 2, "tpldoc2": 1, "md": 2,
}

func (c *Config) kinds() []string {
	if c.cached != nil {
		return c.cached
	}
	var out []string
	for k, w := range c.Weights {
		for i := 0; i < w; i++ {
			out = append(out, k)
		}
	}
	// deterministic order (map iteration is random)
	sortStrings(out)
	c.cached = out
	return out
}

func sortStrings(s []string) {
	for i := 1; i < len(s); i++ {
		for j := i; j > 0 && s[j] < s[j-1]; j-- {
			s[j], s[j-1] = s[j-1], s[j]
		}
	}
}

var borderStyles = []string{"single", "double", "dashed", "dotted", "thick", "none", "nil"}
var colors = []string{"FF0000", "#00FF00", "auto", "000000", "", "red", "zz<&>"}
var fonts = []string{"Arial", "宋体", "Times New Roman", "", "A&B", "\"quoted\"", "x\x01y"}

func (c *Config) text(t *rapid.T, o *Op, label string) string {
	s, cls := gen.Text(t, label, c.Classes...)
	o.Cls = append(o.Cls, cls)
	return s
}

// hfText draws header/footer text; a third of the time it carries variable placeholders
// (headers and footers are rendered by the document-template path through string replacement).
func (c *Config) hfText(t *rapid.T, o *Op) string {
	if rapid.IntRange(0, 2).Draw(t, "hfph") == 0 {
		o.Cls = append(o.Cls, "hf-placeholder")
		return rapid.SampledFrom([]string{"{{x}}", "A {{x}} B", "{{name}}{{x}}", "p {{title}} q {{nope}}"}).Draw(t, "hfphv")
	}
	return c.text(t, o, "text")
}

func (c *Config) fmtGen(t *rapid.T) *Fmt {
	if rapid.IntRange(0, 4).Draw(t, "fmtnil") == 0 {
		return nil
	}
	f := &Fmt{
		Bold: rapid.Bool().Draw(t, "fb"), Italic: rapid.Bool().Draw(t, "fi"), Underline: rapid.Bool().Draw(t, "fu"), Strike: rapid.Bool().Draw(t, "fs"),
		Size:  rapid.SampledFrom([]int{0, 0, 8, 12, 72, -1}).Draw(t, "fsz"),
		Color: rapid.SampledFrom(colors).Draw(t, "fc"),
	}
	switch rapid.IntRange(0, 3).Draw(t, "ffsel") {
	case 1:
		f.Font = rapid.SampledFrom(fonts).Draw(t, "ff")
	case 2:
		f.FontName = rapid.SampledFrom(fonts).Draw(t, "ffn")
	}
	if rapid.IntRange(0, 3).Draw(t, "fh") == 0 {
		f.Highlight = rapid.SampledFrom([]string{"yellow", "green", "", "none", "a\"b"}).Draw(t, "fhv")
	}
	return f
}

var selGen = rapid.IntRange(0, 50)
var posGen = rapid.IntRange(-1, 7)

func (c *Config) data(t *rapid.T, o *Op) *Data {
	d := &Data{Vars: map[string]string{}, Conds: map[string]bool{}, Lists: map[string][]map[string]string{}}
	names := []string{"x", "name", "a", "title", "v1"}
	for _, n := range names {
		if rapid.Bool().Draw(t, "hasv") {
			if rapid.Bool().Draw(t, "hostilev") && len(c.Classes) > 8 {
				s, cls := gen.Text(t, "dvh", gen.ClsControl, gen.ClsXMLMeta, gen.ClsTemplate)
				o.Cls = append(o.Cls, cls)
				d.Vars[n] = s
			} else {
				d.Vars[n] = c.text(t, o, "dv")
			}
		}
	}
	for _, n := range []string{"a", "flag"} {
		if rapid.Bool().Draw(t, "hasc") {
			d.Conds[n] = rapid.Bool().Draw(t, "cv")
		}
	}
	if rapid.Bool().Draw(t, "hasl") {
		n := rapid.IntRange(0, 3).Draw(t, "ln")
		var items []map[string]string
		for i := 0; i < n; i++ {
			items = append(items, map[string]string{"name": c.text(t, o, "lv"), "v": c.text(t, o, "lv2")})
		}
		d.Lists["l"] = items
	}
	if rapid.IntRange(0, 2).Draw(t, "hasimg") == 0 {
		d.Imgs = map[string]gen.Img{"p": gen.Image(t, "dimg")}
	}
	return d
}

var tplPieces = []string{"{{x}}", "{{name}}", "{{title}}", "{{#if a}}", "{{/if}}", "{{else}}", "{{#each l}}", "{{/each}}", "{{name}}", "{{v}}", "{{this}}", "{{@index}}",
	"{{#image p}}", "\n", "\n\n", " ", "text", "{{#block \"b\"}}", "{{/block}}", "{{#if flag}}yes{{else}}no{{/if}}", "{{#each l}}{{name}}={{v}};{{/each}}", "{{", "}}", "<&>"}

func (c *Config) tplSource(t *rapid.T, o *Op) string {
	n := rapid.IntRange(1, 10).Draw(t, "tpln")
	var b strings.Builder
	for i := 0; i < n; i++ {
		if rapid.IntRange(0, 5).Draw(t, "tplk") == 0 {
			b.WriteString(c.text(t, o, "tpllit"))
		} else {
			b.WriteString(rapid.SampledFrom(tplPieces).Draw(t, "tplp"))
		}
	}
	return b.String()
}

var mdPieces = []string{"# H1\n", "## H2\n", "para text\n", "\n", "- item\n", "  - nested\n", "1. one\n", "- [x] done\n", "- [ ] todo\n", "> quote\n", "```\ncode\n  indented\n```\n",
	"| a | b |\n|---|:-:|\n| 1 | 2 |\n", "**bold** ", "*it* ", "`code` ", "~~del~~ ", "[l](http://x) ", "![i](nofile.png) ", "$x^2$ ", "$$\n\\frac{a}{b}\n$$\n", "---\n", "text[^1]\n\n[^1]: note\n",
	"<b>html</b>\n", "    indented code\n", "Setext\n===\n", "\\*esc\\* &amp; ", "<http://auto.link> "}

func (c *Config) mdSource(t *rapid.T, o *Op) string {
	n := rapid.IntRange(1, 12).Draw(t, "mdn")
	var b strings.Builder
	for i := 0; i < n; i++ {
		if rapid.IntRange(0, 5).Draw(t, "mdk") == 0 {
			b.WriteString(c.text(t, o, "mdlit"))
		} else {
			b.WriteString(rapid.SampledFrom(mdPieces).Draw(t, "mdp"))
		}
	}
	return b.String()
}

func (c *Config) grid(t *rapid.T, o *Op, rows, cols int) [][]string {
	if rapid.IntRange(0, 2).Draw(t, "hasgrid") == 0 {
		return nil
	}
	r := rapid.IntRange(0, rows+1).Draw(t, "gr")
	g := make([][]string, r)
	for i := range g {
		cc := rapid.IntRange(0, cols+1).Draw(t, "gc")
		for j := 0; j < cc; j++ {
			g[i] = append(g[i], c.text(t, o, "gcell"))
		}
	}
	return g
}

func (c *Config) strs(t *rapid.T, o *Op, max int) []string {
	n := rapid.IntRange(0, max).Draw(t, "sn")
	var out []string
	for i := 0; i < n; i++ {
		out = append(out, c.text(t, o, "sv"))
	}
	return out
}

// Op draws one op.
func (c *Config) Op(t *rapid.T) Op {
	k := rapid.SampledFrom(c.kinds()).Draw(t, "kind")
	o := Op{K: k}
	sel := func() int { return selGen.Draw(t, "sel") }
	pos := func() int { return posGen.Draw(t, "pos") }
	bl := func() bool { return rapid.Bool().Draw(t, "b") }
	fl := func(lo, hi float64) float64 { return rapid.Float64Range(lo, hi).Draw(t, "f") }
	switch k {
	case "para":
		o.S = []string{c.text(t, &o, "text")}
	case "fpara":
		o.S = []string{c.text(t, &o, "text")}
		o.Fmt = c.fmtGen(t)
	case "heading":
		o.S = []string{c.text(t, &o, "text")}
		o.I = []int{rapid.IntRange(-1, 11).Draw(t, "lvl")}
	case "headingbm", "headingbm2":
		o.S = []string{c.text(t, &o, "text"), c.text(t, &o, "bm")}
		o.I = []int{rapid.IntRange(0, 10).Draw(t, "lvl")}
	case "pagebreak", "cleargrid", "stats", "updatetoc", "save":
	case "align":
		o.I = []int{sel(), sel()}
	case "spacing":
		o.I = []int{sel(), rapid.IntRange(-5, 100).Draw(t, "sp"), rapid.IntRange(-5, 100).Draw(t, "sp"), rapid.IntRange(-5, 100).Draw(t, "sp")}
		o.F = []float64{fl(-1, 5)}
	case "indent":
		o.I = []int{sel()}
		o.F = []float64{fl(-3, 5), fl(-3, 5), fl(-3, 5)}
	case "keepnext", "keeplines", "pbb", "widow", "snap", "pbold", "pitalic", "punderline", "pstrike":
		o.I = []int{sel()}
		o.B = []bool{bl()}
	case "outline":
		o.I = []int{sel(), rapid.IntRange(-2, 12).Draw(t, "ol")}
	case "pstyle":
		o.I = []int{sel()}
		if c.StyleIDs != nil {
			o.S = []string{rapid.SampledFrom(c.StyleIDs).Draw(t, "sid")}
		} else {
			o.S = []string{c.text(t, &o, "sid")}
		}
	case "hrule":
		o.I = []int{sel(), rapid.IntRange(-1, 100).Draw(t, "sz")}
		o.S = []string{rapid.SampledFrom(borderStyles).Draw(t, "bs"), rapid.SampledFrom(colors).Draw(t, "bc")}
	case "pborder":
		o.I = []int{sel(), rapid.IntRange(-1, 100).Draw(t, "sz"), rapid.IntRange(-1, 40).Draw(t, "spc")}
		o.S = []string{rapid.SampledFrom(borderStyles).Draw(t, "bs"), rapid.SampledFrom(colors).Draw(t, "bc")}
		o.B = []bool{bl(), bl(), bl(), bl()}
	case "addtext":
		o.I = []int{sel()}
		o.S = []string{c.text(t, &o, "text")}
		o.Fmt = c.fmtGen(t)
	case "ppagebreak":
		o.I = []int{sel()}
	case "phighlight", "pfont", "pcolor":
		o.I = []int{sel()}
		if rapid.Bool().Draw(t, "free") {
			o.S = []string{c.text(t, &o, "val")}
		} else {
			o.S = []string{rapid.SampledFrom(append(append([]string{}, colors...), fonts...)).Draw(t, "val")}
		}
	case "psize":
		o.I = []int{sel(), rapid.IntRange(-1, 200).Draw(t, "sz")}
	case "inlinemath":
		o.I = []int{sel()}
		o.S = []string{rapid.SampledFrom([]string{"<m:r><m:t>x</m:t></m:r>", "<m:f><m:num><m:r><m:t>a</m:t></m:r></m:num><m:den><m:r><m:t>b</m:t></m:r></m:den></m:f>"}).Draw(t, "omml")}
	case "math":
		if rapid.Bool().Draw(t, "raw") {
			o.S = []string{c.text(t, &o, "math")}
		} else {
			o.S = []string{rapid.SampledFrom([]string{"<m:r><m:t>x</m:t></m:r>", "<m:r><m:t>a&amp;b</m:t></m:r>", ""}).Draw(t, "omml")}
		}
		o.B = []bool{bl()}
	case "mathlatex":
		if rapid.Bool().Draw(t, "raw") {
			o.S = []string{c.text(t, &o, "latex")}
		} else {
			o.S = []string{rapid.SampledFrom([]string{"x^2", "\\frac{a}{b}", "\\sqrt{x}", "a_1 + b_2", "\\alpha \\le \\beta", "\\int_0^1 x dx", "{", "a<b&c", "\\sum_{i=1}^n i"}).Draw(t, "latex")}
		}
		o.B = []bool{bl()}
	case "table":
		rows, cols := rapid.IntRange(0, 5).Draw(t, "rows"), rapid.IntRange(0, 5).Draw(t, "cols")
		o.I = []int{rows, cols, rapid.SampledFrom([]int{0, 1000, 9000, -5}).Draw(t, "w")}
		o.Grid = c.grid(t, &o, rows, cols)
	case "celltext", "cellpara":
		o.I = []int{sel(), pos(), pos()}
		o.S = []string{c.text(t, &o, "text")}
	case "cellftext", "celladdtext", "cellfpara":
		o.I = []int{sel(), pos(), pos()}
		o.S = []string{c.text(t, &o, "text")}
		o.Fmt = c.fmtGen(t)
	case "celllist":
		o.I = []int{sel(), pos(), pos(), sel(), sel()}
		o.S = c.strs(t, &o, 3)
	case "cellfmt":
		o.I = []int{sel(), pos(), pos(), rapid.IntRange(-1, 50).Draw(t, "pad")}
		o.S = []string{rapid.SampledFrom([]string{"left", "center", "right", "both", ""}).Draw(t, "ha"), rapid.SampledFrom([]string{"top", "center", "bottom", ""}).Draw(t, "va"), rapid.SampledFrom(colors).Draw(t, "bg")}
		o.Fmt = c.fmtGen(t)
	case "cellimg":
		o.I = []int{sel(), pos(), pos()}
		im := gen.Image(t, "img")
		o.Img = &im
		o.F = []float64{rapid.SampledFrom([]float64{0, 10, 50.5, -1}).Draw(t, "w")}
	case "nested":
		rows, cols := rapid.IntRange(0, 3).Draw(t, "rows"), rapid.IntRange(0, 3).Draw(t, "cols")
		o.I = []int{sel(), pos(), pos(), rows, cols, 3000}
		o.Grid = c.grid(t, &o, rows, cols)
	case "insrow":
		o.I = []int{sel(), pos()}
		o.S = c.strs(t, &o, 6)
	case "approw":
		o.I = []int{sel()}
		o.S = c.strs(t, &o, 6)
	case "delrow", "delcol":
		o.I = []int{sel(), pos()}
	case "inscol":
		o.I = []int{sel(), pos(), rapid.SampledFrom([]int{0, 1000, -1}).Draw(t, "w")}
		o.S = c.strs(t, &o, 6)
	case "appcol":
		o.I = []int{sel(), 0, rapid.SampledFrom([]int{0, 1000, -1}).Draw(t, "w")}
		o.S = c.strs(t, &o, 6)
	case "mergeh", "mergev":
		o.I = []int{sel(), pos(), pos(), pos()}
	case "merger":
		o.I = []int{sel(), pos(), pos(), pos(), pos()}
	case "unmerge":
		o.I = []int{sel(), pos(), pos()}
	case "rowheight":
		o.I = []int{sel(), pos(), rapid.IntRange(-1, 100).Draw(t, "h")}
		o.S = []string{rapid.SampledFrom([]string{"auto", "atLeast", "exact", ""}).Draw(t, "rule")}
	case "rowheader":
		o.I = []int{sel(), pos()}
		o.B = []bool{bl()}
	case "tblstyle":
		o.I = []int{sel()}
		o.S = []string{rapid.SampledFrom([]string{"TableNormal", "TableGrid", "TableList", "TableColorful1", ""}).Draw(t, "tpl"), rapid.SampledFrom([]string{"", "MyStyle", "a\"<b"}).Draw(t, "sid")}
		o.B = []bool{bl(), bl()}
	case "tblborders":
		o.I = []int{sel(), rapid.IntRange(-1, 50).Draw(t, "w"), rapid.IntRange(-1, 10).Draw(t, "sp")}
		o.S = []string{rapid.SampledFrom(borderStyles).Draw(t, "bs"), rapid.SampledFrom(colors).Draw(t, "bc")}
	case "tblshading":
		o.I = []int{sel()}
		o.S = []string{rapid.SampledFrom([]string{"clear", "solid", "pct25", ""}).Draw(t, "pat"), rapid.SampledFrom(colors).Draw(t, "fg"), rapid.SampledFrom(colors).Draw(t, "bg")}
	case "cellshading":
		o.I = []int{sel(), pos(), pos()}
		o.S = []string{rapid.SampledFrom([]string{"clear", "solid", "pct25", ""}).Draw(t, "pat"), rapid.SampledFrom(colors).Draw(t, "fg"), rapid.SampledFrom(colors).Draw(t, "bg")}
	case "altrows":
		o.I = []int{sel()}
		o.S = []string{rapid.SampledFrom(colors).Draw(t, "c1"), rapid.SampledFrom(colors).Draw(t, "c2")}
	case "image", "imagefile":
		im := gen.Image(t, "img")
		o.Img = &im
		o.I = []int{rapid.IntRange(0, 4).Draw(t, "mode"), sel(), rapid.IntRange(0, 4).Draw(t, "al"), sel()}
		o.F = []float64{rapid.SampledFrom([]float64{0.1, 10, 50.5, 500, 0, -3}).Draw(t, "w"), rapid.SampledFrom([]float64{0.1, 10, 33.3, 500, 0, -3}).Draw(t, "h")}
		o.S = []string{"", c.text(t, &o, "alt"), c.text(t, &o, "title")}
	case "imgalt", "imgtitle":
		o.I = []int{sel()}
		o.S = []string{c.text(t, &o, "text")}
	case "header", "footer":
		o.I = []int{sel()}
		o.S = []string{c.hfText(t, &o)}
	case "headerpn", "footerpn":
		o.I = []int{sel()}
		o.S = []string{c.hfText(t, &o)}
		o.B = []bool{bl()}
	case "fheader", "ffooter":
		o.I = []int{sel(), rapid.IntRange(0, 4).Draw(t, "al")}
		o.S = []string{c.hfText(t, &o)}
		o.Fmt = c.fmtGen(t)
	case "difffirst":
		o.B = []bool{bl()}
	case "footnote", "endnote":
		o.S = []string{c.text(t, &o, "text"), c.text(t, &o, "note")}
	case "notecfg":
		o.I = []int{sel(), rapid.IntRange(-1, 20).Draw(t, "start")}
	case "listitem":
		o.S = []string{c.text(t, &o, "text")}
		o.I = []int{sel(), sel(), rapid.IntRange(-1, 9).Draw(t, "start"), rapid.IntRange(-1, 10).Draw(t, "lvl")}
	case "bullet", "numbered":
		o.S = []string{c.text(t, &o, "text")}
		o.I = []int{rapid.IntRange(-1, 10).Draw(t, "lvl"), sel()}
	case "toc", "autotoc":
		o.S = []string{c.text(t, &o, "title")}
		o.I = []int{rapid.IntRange(-1, 10).Draw(t, "max")}
		o.B = []bool{bl(), bl(), bl(), bl()}
	case "props":
		for i := 0; i < 9; i++ {
			o.S = append(o.S, c.text(t, &o, "prop"))
		}
	case "title", "author":
		o.S = []string{c.text(t, &o, "text")}
	case "pagesize":
		o.I = []int{sel()}
	case "custompage":
		o.F = []float64{fl(5, 600), fl(5, 600)}
	case "orient":
		o.B = []bool{bl()}
	case "margins":
		o.F = []float64{fl(-5, 80), fl(-5, 80), fl(-5, 80), fl(-5, 80)}
	case "hfdist":
		o.F = []float64{fl(-5, 50), fl(-5, 50)}
	case "gutter":
		o.F = []float64{fl(-5, 50)}
	case "docgrid":
		o.I = []int{sel(), rapid.IntRange(-1, 600).Draw(t, "lp"), rapid.IntRange(-1, 600).Draw(t, "cs")}
	case "rmpara", "rmparaat", "rmelemat":
		o.I = []int{sel()}
	case "customstyle":
		o.S = []string{c.text(t, &o, "sid"), c.text(t, &o, "sname"), rapid.SampledFrom([]string{"", "Normal", "Heading1", "nope"}).Draw(t, "based")}
		o.B = []bool{bl()}
	case "reopen":
		o.B = []bool{bl()}
	case "tplstr":
		o.S = []string{c.tplSource(t, &o)}
		o.Data = c.data(t, &o)
	case "tpldoc":
		o.Data = c.data(t, &o)
	case "tpldoc2":
		o.Data = c.data(t, &o)
		o.Data2 = c.data(t, &o)
		o.B = []bool{rapid.IntRange(0, 3).Draw(t, "addph") != 0, rapid.IntRange(0, 2).Draw(t, "sametd") == 0}
		if o.b(0) { // both renders get a picture for the placeholder, of independently drawn formats
			o.Data.Imgs = map[string]gen.Img{"p": gen.Image(t, "dimg1")}
			o.Data2.Imgs = map[string]gen.Img{"p": gen.Image(t, "dimg2")}
		}
	case "md":
		o.S = []string{c.mdSource(t, &o)}
		o.B = []bool{bl(), bl(), bl(), bl(), bl(), bl()}
		o.I = []int{rapid.IntRange(0, 9).Draw(t, "toc")}
	default:
		panic("gen: unknown kind " + k)
	}
	return o
}

// OpOf draws one op of the given kind.
func (c *Config) OpOf(t *rapid.T, kind string) Op {
	one := &Config{Classes: c.Classes, Weights: map[string]int{kind: 1}, StyleIDs: c.StyleIDs}
	return one.Op(t)
}

// History draws a list of ops.
func (c *Config) History(t *rapid.T, min, max int) []Op {
	n := rapid.IntRange(min, max).Draw(t, "nops")
	out := make([]Op, 0, n)
	for i := 0; i < n; i++ {
		out = append(out, c.Op(t))
	}
	return out
}

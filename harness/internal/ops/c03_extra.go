package ops

// Additional op kinds needed by C03 (every formatting setter and its argument range).
// ops.go's interpreter is closed (unknown kind panics), so these kinds are executed by
// DoExtra and drawn by ExtraOp; callers dispatch on IsExtra(kind).

import (
	"github.com/zerx-lab/wordZero/pkg/document"
	"pgregory.net/rapid"

	"wzverif/internal/gen"
)

// ExtraWeights lists the additional kinds with default weights.
var ExtraWeights = map[string]int{
	"pformat": 3, "celldir": 1, "cellpad": 1, "cellborders": 1, "tblalign": 1, "rowkeep": 1, "headerrows": 1,
	"rowheightrange": 1, "rmtblborders": 1, "rmcellborders": 1, "clearcell": 1, "clearcellfmt": 1, "clearcellparas": 1,
	"imagefloat": 2, "imgalign": 1, "nestedh": 2, "cellfmtdir": 1,
}

func IsExtra(kind string) bool { _, ok := ExtraWeights[kind]; return ok }

var TextDirs = []document.CellTextDirection{document.TextDirectionLR, document.TextDirectionTB, document.TextDirectionBT,
	document.TextDirectionRL, document.TextDirectionTBV, document.TextDirectionBTV}
var TableAligns = []document.TableAlignment{document.TableAlignLeft, document.TableAlignCenter, document.TableAlignRight,
	document.TableAlignInside, document.TableAlignOutside}

func borderCfg(o Op, on bool) *document.BorderConfig {
	if !on {
		return nil
	}
	return &document.BorderConfig{Style: document.BorderStyle(o.s(0)), Width: o.i(3), Color: o.s(1), Space: o.i(4)}
}

// DoExtra executes one op of an extra kind.
func (x *Exec) DoExtra(o Op) error {
	x.NOps++
	err := x.doExtra(o)
	if err != nil {
		x.Errs++
	}
	return err
}

func (x *Exec) doExtra(o Op) error {
	d := x.Doc
	switch o.K {
	case "pformat":
		// I: [sel, align (0 = unset), before, after, firstIndentPt, outline] F: [line, firstCm, leftCm, rightCm]
		// B: [keepNext, keepLines, pageBreakBefore, widow, snapGiven, snapValue] S: [style]
		if p := x.para(o.i(0)); p != nil {
			cfg := &document.ParagraphFormatConfig{Style: o.s(0), LineSpacing: o.f(0), BeforePara: o.i(2), AfterPara: o.i(3), FirstLineIndent: o.i(4),
				FirstLineCm: o.f(1), LeftCm: o.f(2), RightCm: o.f(3), KeepWithNext: o.b(0), KeepLines: o.b(1), PageBreakBefore: o.b(2), WidowControl: o.b(3),
				OutlineLevel: o.i(5)}
			if o.i(1) > 0 {
				cfg.Alignment = Aligns[In(o.i(1), 4)]
			}
			if o.b(4) {
				v := o.b(5)
				cfg.SnapToGrid = &v
			}
			p.SetParagraphFormat(cfg)
		}
	case "celldir":
		if t := x.table(o.i(0)); t != nil {
			return t.SetCellTextDirection(o.i(1), o.i(2), TextDirs[In(o.i(3), len(TextDirs))])
		}
	case "cellfmtdir":
		if t := x.table(o.i(0)); t != nil {
			return t.SetCellFormat(o.i(1), o.i(2), &document.CellFormat{TextDirection: TextDirs[In(o.i(3), len(TextDirs))],
				HorizontalAlign: document.CellAlignment(o.s(0)), VerticalAlign: document.CellVerticalAlignment(o.s(1)), BorderStyle: o.s(2)})
		}
	case "cellpad":
		if t := x.table(o.i(0)); t != nil {
			return t.SetCellPadding(o.i(1), o.i(2), o.i(3))
		}
	case "cellborders":
		// I: [tsel,row,col,width,space] S: [style,color] B: [top,left,bottom,right,diagDown,diagUp]
		if t := x.table(o.i(0)); t != nil {
			return t.SetCellBorders(o.i(1), o.i(2), &document.CellBorderConfig{Top: borderCfg(o, o.b(0)), Left: borderCfg(o, o.b(1)), Bottom: borderCfg(o, o.b(2)),
				Right: borderCfg(o, o.b(3)), DiagDown: borderCfg(o, o.b(4)), DiagUp: borderCfg(o, o.b(5))})
		}
	case "tblalign":
		if t := x.table(o.i(0)); t != nil {
			return t.SetTableAlignment(TableAligns[In(o.i(1), len(TableAligns))])
		}
	case "rowkeep":
		if t := x.table(o.i(0)); t != nil {
			return t.SetRowKeepTogether(o.i(1), o.b(0))
		}
	case "headerrows":
		if t := x.table(o.i(0)); t != nil {
			return t.SetHeaderRows(o.i(1), o.i(2))
		}
	case "rowheightrange":
		if t := x.table(o.i(0)); t != nil {
			return t.SetRowHeightRange(o.i(1), o.i(2), &document.RowHeightConfig{Height: o.i(3), Rule: document.RowHeightRule(o.s(0))})
		}
	case "rmtblborders":
		if t := x.table(o.i(0)); t != nil {
			return t.RemoveTableBorders()
		}
	case "rmcellborders":
		if t := x.table(o.i(0)); t != nil {
			return t.RemoveCellBorders(o.i(1), o.i(2))
		}
	case "clearcell":
		if t := x.table(o.i(0)); t != nil {
			return t.ClearCellContent(o.i(1), o.i(2))
		}
	case "clearcellfmt":
		if t := x.table(o.i(0)); t != nil {
			return t.ClearCellFormat(o.i(1), o.i(2))
		}
	case "clearcellparas":
		if t := x.table(o.i(0)); t != nil {
			return t.ClearCellParagraphs(o.i(1), o.i(2))
		}
	case "imagefloat":
		// I: [sizeMode, posSel, alignSel, wrapSel] F: [w, h, offX, offY] S: ["", alt, title]
		if o.Img != nil {
			c := imgConfig(o)
			if c == nil {
				c = &document.ImageConfig{}
			}
			if c.Position == document.ImagePositionInline || c.Position == "" {
				c.Position = document.ImagePositionFloatLeft
			}
			c.OffsetX, c.OffsetY = o.f(2), o.f(3)
			info, err := d.AddImageFromData(o.Img.Bytes(), o.Img.Name, ImgFormats[o.Img.Fmt], o.Img.W, o.Img.H, c)
			if err == nil {
				x.Images = append(x.Images, info)
				x.Paras = x.Doc.Body.GetParagraphs()
			}
			return err
		}
	case "imgalign":
		if len(x.Images) > 0 {
			return d.SetImageAlignment(x.Images[In(o.i(0), len(x.Images))], Aligns[In(o.i(1), 4)])
		}
	case "nestedh":
		// like "nested", but the returned handle joins the table handles, so that later table ops
		// (cell text, merges, formats, further nesting) can address the nested table
		if t := x.table(o.i(0)); t != nil {
			nt, err := t.AddNestedTable(o.i(1), o.i(2), &document.TableConfig{Rows: o.i(3), Cols: o.i(4), Width: o.i(5), Data: o.Grid})
			if err == nil && nt != nil {
				x.Tables = append(x.Tables, nt)
			}
			return err
		}
	default:
		panic("ops: unknown extra op kind " + o.K)
	}
	return nil
}

// ExtraOp draws one op of an extra kind.
func (c *Config) ExtraOp(t *rapid.T, k string) Op {
	o := Op{K: k}
	sel := func() int { return selGen.Draw(t, "sel") }
	pos := func() int { return posGen.Draw(t, "pos") }
	bl := func() bool { return rapid.Bool().Draw(t, "b") }
	fl := func(lo, hi float64) float64 { return rapid.Float64Range(lo, hi).Draw(t, "f") }
	switch k {
	case "pformat":
		sp := func() int { return rapid.SampledFrom([]int{0, 0, 6, 12, 24, 100, -3}).Draw(t, "sp") }
		cm := func() float64 { return rapid.SampledFrom([]float64{0, 0, 0.5, -0.5, 1, 2.25, -3}).Draw(t, "cm") }
		o.I = []int{sel(), rapid.IntRange(0, 4).Draw(t, "al"), sp(), sp(), sp(), rapid.IntRange(-1, 9).Draw(t, "ol")}
		o.F = []float64{rapid.SampledFrom([]float64{0, 1, 1.5, 2, 0.8, -1}).Draw(t, "line"), cm(), cm(), cm()}
		o.B = []bool{bl(), bl(), bl(), bl(), bl(), bl()}
		if c.StyleIDs != nil {
			o.S = []string{rapid.SampledFrom(append([]string{""}, c.StyleIDs...)).Draw(t, "sid")}
		} else {
			o.S = []string{rapid.SampledFrom([]string{"", "Normal", "Heading1", "Heading2", "Quote", "NoSuchStyle"}).Draw(t, "sid")}
		}
	case "celldir":
		o.I = []int{sel(), pos(), pos(), sel()}
	case "cellfmtdir":
		o.I = []int{sel(), pos(), pos(), sel()}
		o.S = []string{rapid.SampledFrom([]string{"left", "center", "right", "both", ""}).Draw(t, "ha"), rapid.SampledFrom([]string{"top", "center", "bottom", ""}).Draw(t, "va"),
			rapid.SampledFrom([]string{"", "single", "double"}).Draw(t, "bs")}
	case "cellpad":
		o.I = []int{sel(), pos(), pos(), rapid.IntRange(-1, 50).Draw(t, "pad")}
	case "cellborders":
		o.I = []int{sel(), pos(), pos(), rapid.IntRange(-1, 50).Draw(t, "w"), rapid.IntRange(-1, 10).Draw(t, "sp")}
		o.S = []string{rapid.SampledFrom(borderStyles).Draw(t, "bs"), rapid.SampledFrom(colors).Draw(t, "bc")}
		o.B = []bool{bl(), bl(), bl(), bl(), bl(), bl()}
	case "tblalign":
		o.I = []int{sel(), sel()}
	case "rowkeep":
		o.I = []int{sel(), pos()}
		o.B = []bool{bl()}
	case "headerrows":
		o.I = []int{sel(), pos(), pos()}
	case "rowheightrange":
		o.I = []int{sel(), pos(), pos(), rapid.IntRange(-1, 100).Draw(t, "h")}
		o.S = []string{rapid.SampledFrom([]string{"auto", "atLeast", "exact", ""}).Draw(t, "rule")}
	case "rmtblborders":
		o.I = []int{sel()}
	case "rmcellborders", "clearcell", "clearcellfmt", "clearcellparas":
		o.I = []int{sel(), pos(), pos()}
	case "imagefloat":
		im := gen.Image(t, "img")
		o.Img = &im
		o.I = []int{rapid.IntRange(0, 4).Draw(t, "mode"), rapid.IntRange(1, 2).Draw(t, "pos"), rapid.IntRange(0, 4).Draw(t, "al"), sel()}
		o.F = []float64{rapid.SampledFrom([]float64{0.1, 10, 50.5, 500, 0, -3}).Draw(t, "w"), rapid.SampledFrom([]float64{0.1, 10, 33.3, 500, 0, -3}).Draw(t, "h"),
			rapid.SampledFrom([]float64{0, 0, 5, 12.5, -4}).Draw(t, "ox"), rapid.SampledFrom([]float64{0, 0, 5, 12.5, -4}).Draw(t, "oy")}
		o.S = []string{"", c.text(t, &o, "alt"), c.text(t, &o, "title")}
	case "imgalign":
		o.I = []int{sel(), sel()}
	case "nestedh":
		rows, cols := rapid.IntRange(0, 3).Draw(t, "rows"), rapid.IntRange(0, 3).Draw(t, "cols")
		o.I = []int{sel(), pos(), pos(), rows, cols, rapid.SampledFrom([]int{3000, 1500, 0}).Draw(t, "w")}
		o.Grid = c.grid(t, &o, rows, cols)
	default:
		panic("gen: unknown extra kind " + k)
	}
	_ = fl
	return o
}

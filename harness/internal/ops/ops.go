// Package ops defines document histories as plain data (lists of Op) and the interpreter
// that executes them against the real wordZero API.
package ops

import (
	"bytes"
	"fmt"
	"io"
	"os"
	"path/filepath"

	"github.com/zerx-lab/wordZero/pkg/document"
	"github.com/zerx-lab/wordZero/pkg/markdown"

	"wzverif/internal/gen"
)

// Fmt mirrors document.TextFormat.
type Fmt struct {
	Bold      bool   `json:"b,omitempty"`
	Italic    bool   `json:"i,omitempty"`
	Underline bool   `json:"u,omitempty"`
	Strike    bool   `json:"s,omitempty"`
	Size      int    `json:"sz,omitempty"`
	Color     string `json:"c,omitempty"`
	Font      string `json:"f,omitempty"`
	FontName  string `json:"fn,omitempty"`
	Highlight string `json:"h,omitempty"`
}

func (f *Fmt) TF() *document.TextFormat {
	if f == nil {
		return nil
	}
	return &document.TextFormat{Bold: f.Bold, Italic: f.Italic, Underline: f.Underline, Strike: f.Strike,
		FontSize: f.Size, FontColor: f.Color, FontFamily: f.Font, FontName: f.FontName, Highlight: f.Highlight}
}

// Data is template data as plain values.
type Data struct {
	Vars  map[string]string              `json:"vars,omitempty"`
	Conds map[string]bool                `json:"conds,omitempty"`
	Lists map[string][]map[string]string `json:"lists,omitempty"`
	Imgs  map[string]gen.Img             `json:"imgs,omitempty"`
}

func (d *Data) TD() *document.TemplateData {
	td := document.NewTemplateData()
	if d == nil {
		return td
	}
	for k, v := range d.Vars {
		td.SetVariable(k, v)
	}
	for k, v := range d.Conds {
		td.SetCondition(k, v)
	}
	for k, l := range d.Lists {
		items := make([]interface{}, 0, len(l))
		for _, m := range l {
			it := map[string]interface{}{}
			for kk, vv := range m {
				it[kk] = vv
			}
			items = append(items, it)
		}
		td.SetList(k, items)
	}
	for k, im := range d.Imgs {
		td.SetImageFromData(k, im.Bytes(), nil)
	}
	return td
}

// Op is one API call with generated arguments.
type Op struct {
	K     string     `json:"k"`
	S     []string   `json:"s,omitempty"`
	I     []int      `json:"i,omitempty"`
	F     []float64  `json:"f,omitempty"`
	B     []bool     `json:"b,omitempty"`
	Img   *gen.Img   `json:"img,omitempty"`
	Fmt   *Fmt       `json:"fmt,omitempty"`
	Data  *Data      `json:"data,omitempty"`
	Data2 *Data      `json:"data2,omitempty"` // second data set (tpldoc2)
	Grid  [][]string `json:"grid,omitempty"`
	Cls   []string   `json:"cls,omitempty"` // classes of the generated strings (labels only)
}

func (o Op) s(i int) string {
	if i < len(o.S) {
		return o.S[i]
	}
	return ""
}
func (o Op) i(i int) int {
	if i < len(o.I) {
		return o.I[i]
	}
	return 0
}
func (o Op) f(i int) float64 {
	if i < len(o.F) {
		return o.F[i]
	}
	return 0
}
func (o Op) b(i int) bool {
	if i < len(o.B) {
		return o.B[i]
	}
	return false
}

// Exec holds the state of one interpreted history.
type Exec struct {
	Doc    *document.Document
	Paras  []*document.Paragraph
	Tables []*document.Table
	Images []*document.ImageInfo
	Dir    string // scratch directory for file-based entry points
	Saves  [][]byte
	NOps   int
	Errs   int
	// Replaced is set when the document object was replaced (reopen, render, markdown).
	Replaced int
	// Side keeps the most recent documents that were replaced as the current one (template bases, earlier renders,
	// documents before a reopen): they stay valid objects a caller may still save, so checks can judge them at the end.
	Side []*document.Document
}

// keep remembers a document that stops being the current one (at most 4 are kept).
func (x *Exec) keep(d *document.Document) {
	if d == nil {
		return
	}
	x.Side = append(x.Side, d)
	if len(x.Side) > 4 {
		x.Side = x.Side[len(x.Side)-4:]
	}
}

func NewExec(dir string) *Exec {
	return &Exec{Doc: document.New(), Dir: dir}
}

// Sel resolves a state-independent selector against a collection of size n:
// -1, every valid index, n and n+1 are all reachable.
func Sel(sel, n int) int {
	if sel < 0 {
		sel = -sel
	}
	return sel%(n+3) - 1
}

// In resolves a selector to a valid index (n must be > 0).
func In(sel, n int) int {
	if sel < 0 {
		sel = -sel
	}
	return sel % n
}

func (x *Exec) para(sel int) *document.Paragraph {
	if len(x.Paras) == 0 {
		return nil
	}
	return x.Paras[In(sel, len(x.Paras))]
}

func (x *Exec) table(sel int) *document.Table {
	if len(x.Tables) == 0 {
		return nil
	}
	return x.Tables[In(sel, len(x.Tables))]
}

func hfType(i int) document.HeaderFooterType {
	switch In(i, 3) {
	case 0:
		return document.HeaderFooterTypeDefault
	case 1:
		return document.HeaderFooterTypeFirst
	}
	return document.HeaderFooterTypeEven
}

var Aligns = []document.AlignmentType{document.AlignLeft, document.AlignCenter, document.AlignRight, document.AlignJustify}
var ListTypes = []document.ListType{document.ListTypeBullet, document.ListTypeNumber, document.ListTypeDecimal, document.ListTypeLowerLetter,
	document.ListTypeUpperLetter, document.ListTypeLowerRoman, document.ListTypeUpperRoman}
var Bullets = []document.BulletType{document.BulletTypeDot, document.BulletTypeCircle, document.BulletTypeSquare, document.BulletTypeDash, document.BulletTypeArrow}
var PageSizes = []document.PageSize{document.PageSizeA4, document.PageSizeLetter, document.PageSizeLegal, document.PageSizeA3, document.PageSizeA5}
var ImgFormats = map[string]document.ImageFormat{"png": document.ImageFormatPNG, "jpeg": document.ImageFormatJPEG, "gif": document.ImageFormatGIF}

func (x *Exec) resetHandles() {
	x.Paras = nil
	x.Tables = nil
	x.Images = nil
	if x.Doc != nil && x.Doc.Body != nil {
		x.Paras = x.Doc.Body.GetParagraphs()
		x.Tables = x.Doc.Body.GetTables()
	}
	x.Replaced++
}

func imgConfig(o Op) *document.ImageConfig {
	// I: [mode, posSel, alignSel, wrapSel] F: [w, h]
	mode := o.i(0)
	if mode == 0 {
		return nil
	}
	c := &document.ImageConfig{AltText: o.s(1), Title: o.s(2)}
	switch mode {
	case 2:
		c.Size = &document.ImageSize{Width: o.f(0), Height: o.f(1)}
	case 3:
		c.Size = &document.ImageSize{Width: o.f(0), KeepAspectRatio: true}
	case 4:
		c.Size = &document.ImageSize{Height: o.f(1), KeepAspectRatio: true}
	}
	switch In(o.i(1), 3) {
	case 0:
		c.Position = document.ImagePositionInline
	case 1:
		c.Position = document.ImagePositionFloatLeft
	case 2:
		c.Position = document.ImagePositionFloatRight
	}
	if o.i(2) > 0 {
		c.Alignment = Aligns[In(o.i(2), 4)]
	}
	switch In(o.i(3), 5) {
	case 1:
		c.WrapText = document.ImageWrapNone
	case 2:
		c.WrapText = document.ImageWrapSquare
	case 3:
		c.WrapText = document.ImageWrapTight
	case 4:
		c.WrapText = document.ImageWrapTopAndBottom
	}
	return c
}

// Do executes one op. It returns the API error, if the call has one.
func (x *Exec) Do(o Op) error {
	x.NOps++
	err := x.do(o)
	if err != nil {
		x.Errs++
	}
	return err
}

func (x *Exec) do(o Op) error {
	d := x.Doc
	switch o.K {
	case "para":
		x.Paras = append(x.Paras, d.AddParagraph(o.s(0)))
	case "fpara":
		x.Paras = append(x.Paras, d.AddFormattedParagraph(o.s(0), o.Fmt.TF()))
	case "heading":
		x.Paras = append(x.Paras, d.AddHeadingParagraph(o.s(0), o.i(0)))
	case "headingbm":
		x.Paras = append(x.Paras, d.AddHeadingParagraphWithBookmark(o.s(0), o.i(0), o.s(1)))
	case "headingbm2":
		x.Paras = append(x.Paras, d.AddHeadingWithBookmark(o.s(0), o.i(0), o.s(1)))
	case "pagebreak":
		d.AddPageBreak()
	case "align":
		if p := x.para(o.i(0)); p != nil {
			p.SetAlignment(Aligns[In(o.i(1), 4)])
		}
	case "spacing":
		if p := x.para(o.i(0)); p != nil {
			p.SetSpacing(&document.SpacingConfig{LineSpacing: o.f(0), BeforePara: o.i(1), AfterPara: o.i(2), FirstLineIndent: o.i(3)})
		}
	case "indent":
		if p := x.para(o.i(0)); p != nil {
			p.SetIndentation(o.f(0), o.f(1), o.f(2))
		}
	case "keepnext":
		if p := x.para(o.i(0)); p != nil {
			p.SetKeepWithNext(o.b(0))
		}
	case "keeplines":
		if p := x.para(o.i(0)); p != nil {
			p.SetKeepLines(o.b(0))
		}
	case "pbb":
		if p := x.para(o.i(0)); p != nil {
			p.SetPageBreakBefore(o.b(0))
		}
	case "widow":
		if p := x.para(o.i(0)); p != nil {
			p.SetWidowControl(o.b(0))
		}
	case "outline":
		if p := x.para(o.i(0)); p != nil {
			p.SetOutlineLevel(o.i(1))
		}
	case "snap":
		if p := x.para(o.i(0)); p != nil {
			p.SetSnapToGrid(o.b(0))
		}
	case "pstyle":
		if p := x.para(o.i(0)); p != nil {
			p.SetStyle(o.s(0))
		}
	case "hrule":
		if p := x.para(o.i(0)); p != nil {
			p.SetHorizontalRule(document.BorderStyle(o.s(0)), o.i(1), o.s(1))
		}
	case "pborder":
		if p := x.para(o.i(0)); p != nil {
			bc := &document.ParagraphBorderConfig{Style: document.BorderStyle(o.s(0)), Size: o.i(1), Color: o.s(1), Space: o.i(2)}
			var t, l, b, r *document.ParagraphBorderConfig
			if o.b(0) {
				t = bc
			}
			if o.b(1) {
				l = bc
			}
			if o.b(2) {
				b = bc
			}
			if o.b(3) {
				r = bc
			}
			p.SetBorder(t, l, b, r)
		}
	case "addtext":
		if p := x.para(o.i(0)); p != nil {
			p.AddFormattedText(o.s(0), o.Fmt.TF())
		}
	case "ppagebreak":
		if p := x.para(o.i(0)); p != nil {
			p.AddPageBreak()
		}
	case "pbold":
		if p := x.para(o.i(0)); p != nil {
			p.SetBold(o.b(0))
		}
	case "pitalic":
		if p := x.para(o.i(0)); p != nil {
			p.SetItalic(o.b(0))
		}
	case "punderline":
		if p := x.para(o.i(0)); p != nil {
			p.SetUnderline(o.b(0))
		}
	case "pstrike":
		if p := x.para(o.i(0)); p != nil {
			p.SetStrike(o.b(0))
		}
	case "phighlight":
		if p := x.para(o.i(0)); p != nil {
			p.SetHighlight(o.s(0))
		}
	case "pfont":
		if p := x.para(o.i(0)); p != nil {
			p.SetFontFamily(o.s(0))
		}
	case "psize":
		if p := x.para(o.i(0)); p != nil {
			p.SetFontSize(o.i(1))
		}
	case "pcolor":
		if p := x.para(o.i(0)); p != nil {
			p.SetColor(o.s(0))
		}
	case "inlinemath":
		if p := x.para(o.i(0)); p != nil {
			p.AddInlineMath(o.s(0))
		}
	case "math":
		d.AddMathFormula(o.s(0), o.b(0))
	case "mathlatex":
		omml, err := markdown.LaTeXToOMMLString(o.s(0), o.b(0))
		if err != nil {
			return err
		}
		d.AddMathFormula(omml, o.b(0))
	case "table":
		cfg := &document.TableConfig{Rows: o.i(0), Cols: o.i(1), Width: o.i(2), Data: o.Grid}
		t, err := d.AddTable(cfg)
		if err != nil {
			return err
		}
		x.Tables = append(x.Tables, t)
	case "celltext":
		if t := x.table(o.i(0)); t != nil {
			return t.SetCellText(o.i(1), o.i(2), o.s(0))
		}
	case "cellftext":
		if t := x.table(o.i(0)); t != nil {
			return t.SetCellFormattedText(o.i(1), o.i(2), o.s(0), o.Fmt.TF())
		}
	case "celladdtext":
		if t := x.table(o.i(0)); t != nil {
			return t.AddCellFormattedText(o.i(1), o.i(2), o.s(0), o.Fmt.TF())
		}
	case "cellpara":
		if t := x.table(o.i(0)); t != nil {
			_, err := t.AddCellParagraph(o.i(1), o.i(2), o.s(0))
			return err
		}
	case "cellfpara":
		if t := x.table(o.i(0)); t != nil {
			_, err := t.AddCellFormattedParagraph(o.i(1), o.i(2), o.s(0), o.Fmt.TF())
			return err
		}
	case "celllist":
		if t := x.table(o.i(0)); t != nil {
			return t.AddCellList(o.i(1), o.i(2), &document.CellListConfig{Type: ListTypes[In(o.i(3), len(ListTypes))], BulletSymbol: Bullets[In(o.i(4), len(Bullets))], Items: o.S})
		}
	case "cellfmt":
		if t := x.table(o.i(0)); t != nil {
			return t.SetCellFormat(o.i(1), o.i(2), &document.CellFormat{TextFormat: o.Fmt.TF(), HorizontalAlign: document.CellAlignment(o.s(0)),
				VerticalAlign: document.CellVerticalAlignment(o.s(1)), BackgroundColor: o.s(2), Padding: o.i(3)})
		}
	case "cellimg":
		if t := x.table(o.i(0)); t != nil && o.Img != nil {
			info, err := d.AddCellImageFromData(t, o.i(1), o.i(2), o.Img.Bytes(), o.f(0))
			if err == nil {
				x.Images = append(x.Images, info)
			}
			return err
		}
	case "nested":
		if t := x.table(o.i(0)); t != nil {
			_, err := t.AddNestedTable(o.i(1), o.i(2), &document.TableConfig{Rows: o.i(3), Cols: o.i(4), Width: o.i(5), Data: o.Grid})
			return err
		}
	case "insrow":
		if t := x.table(o.i(0)); t != nil {
			return t.InsertRow(o.i(1), o.S)
		}
	case "approw":
		if t := x.table(o.i(0)); t != nil {
			return t.AppendRow(o.S)
		}
	case "delrow":
		if t := x.table(o.i(0)); t != nil {
			return t.DeleteRow(o.i(1))
		}
	case "inscol":
		if t := x.table(o.i(0)); t != nil {
			return t.InsertColumn(o.i(1), o.S, o.i(2))
		}
	case "appcol":
		if t := x.table(o.i(0)); t != nil {
			return t.AppendColumn(o.S, o.i(2))
		}
	case "delcol":
		if t := x.table(o.i(0)); t != nil {
			return t.DeleteColumn(o.i(1))
		}
	case "mergeh":
		if t := x.table(o.i(0)); t != nil {
			return t.MergeCellsHorizontal(o.i(1), o.i(2), o.i(3))
		}
	case "mergev":
		if t := x.table(o.i(0)); t != nil {
			return t.MergeCellsVertical(o.i(1), o.i(2), o.i(3))
		}
	case "merger":
		if t := x.table(o.i(0)); t != nil {
			return t.MergeCellsRange(o.i(1), o.i(2), o.i(3), o.i(4))
		}
	case "unmerge":
		if t := x.table(o.i(0)); t != nil {
			return t.UnmergeCells(o.i(1), o.i(2))
		}
	case "rowheight":
		if t := x.table(o.i(0)); t != nil {
			return t.SetRowHeight(o.i(1), &document.RowHeightConfig{Height: o.i(2), Rule: document.RowHeightRule(o.s(0))})
		}
	case "rowheader":
		if t := x.table(o.i(0)); t != nil {
			return t.SetRowAsHeader(o.i(1), o.b(0))
		}
	case "tblstyle":
		if t := x.table(o.i(0)); t != nil {
			return t.ApplyTableStyle(&document.TableStyleConfig{Template: document.TableStyleTemplate(o.s(0)), StyleID: o.s(1), FirstRowHeader: o.b(0), BandedRows: o.b(1)})
		}
	case "tblborders":
		if t := x.table(o.i(0)); t != nil {
			bc := &document.BorderConfig{Style: document.BorderStyle(o.s(0)), Width: o.i(1), Color: o.s(1), Space: o.i(2)}
			return t.SetTableBorders(&document.TableBorderConfig{Top: bc, Left: bc, Bottom: bc, Right: bc, InsideH: bc, InsideV: bc})
		}
	case "tblshading":
		if t := x.table(o.i(0)); t != nil {
			return t.SetTableShading(&document.ShadingConfig{Pattern: document.ShadingPattern(o.s(0)), ForegroundColor: o.s(1), BackgroundColor: o.s(2)})
		}
	case "cellshading":
		if t := x.table(o.i(0)); t != nil {
			return t.SetCellShading(o.i(1), o.i(2), &document.ShadingConfig{Pattern: document.ShadingPattern(o.s(0)), ForegroundColor: o.s(1), BackgroundColor: o.s(2)})
		}
	case "altrows":
		if t := x.table(o.i(0)); t != nil {
			return t.SetAlternatingRowColors(o.s(0), o.s(1))
		}
	case "image":
		if o.Img != nil {
			info, err := d.AddImageFromData(o.Img.Bytes(), o.Img.Name, ImgFormats[o.Img.Fmt], o.Img.W, o.Img.H, imgConfig(o))
			if err == nil {
				x.Images = append(x.Images, info)
				x.Paras = x.Doc.Body.GetParagraphs()
			}
			return err
		}
	case "imagefile":
		if o.Img != nil {
			p := filepath.Join(x.Dir, "img", filepath.Base(o.Img.Name))
			os.MkdirAll(filepath.Dir(p), 0o755)
			if err := os.WriteFile(p, o.Img.Bytes(), 0o644); err != nil {
				return nil // scratch problem, not an API result
			}
			info, err := d.AddImageFromFile(p, imgConfig(o))
			if err == nil {
				x.Images = append(x.Images, info)
				x.Paras = x.Doc.Body.GetParagraphs()
			}
			return err
		}
	case "imgalt":
		if len(x.Images) > 0 {
			return d.SetImageAltText(x.Images[In(o.i(0), len(x.Images))], o.s(0))
		}
	case "imgtitle":
		if len(x.Images) > 0 {
			return d.SetImageTitle(x.Images[In(o.i(0), len(x.Images))], o.s(0))
		}
	case "header":
		return d.AddHeader(hfType(o.i(0)), o.s(0))
	case "footer":
		return d.AddFooter(hfType(o.i(0)), o.s(0))
	case "headerpn":
		return d.AddHeaderWithPageNumber(hfType(o.i(0)), o.s(0), o.b(0))
	case "footerpn":
		return d.AddFooterWithPageNumber(hfType(o.i(0)), o.s(0), o.b(0))
	case "fheader":
		cfg := &document.HeaderFooterConfig{Text: o.s(0), Format: o.Fmt.TF()}
		if o.i(1) > 0 {
			cfg.Alignment = Aligns[In(o.i(1), 4)]
		}
		return d.AddFormattedHeader(hfType(o.i(0)), cfg)
	case "ffooter":
		cfg := &document.HeaderFooterConfig{Text: o.s(0), Format: o.Fmt.TF()}
		if o.i(1) > 0 {
			cfg.Alignment = Aligns[In(o.i(1), 4)]
		}
		return d.AddFormattedFooter(hfType(o.i(0)), cfg)
	case "difffirst":
		d.SetDifferentFirstPage(o.b(0))
	case "footnote":
		return d.AddFootnote(o.s(0), o.s(1))
	case "endnote":
		return d.AddEndnote(o.s(0), o.s(1))
	case "notecfg":
		fmts := []document.FootnoteNumberFormat{document.FootnoteFormatDecimal, document.FootnoteFormatLowerRoman, document.FootnoteFormatUpperRoman, document.FootnoteFormatLowerLetter, document.FootnoteFormatUpperLetter, document.FootnoteFormatSymbol}
		return d.SetFootnoteConfig(&document.FootnoteConfig{NumberFormat: fmts[In(o.i(0), len(fmts))], StartNumber: o.i(1), RestartEach: document.FootnoteRestartContinuous, Position: document.FootnotePositionPageBottom})
	case "listitem":
		p := d.AddListItem(o.s(0), &document.ListConfig{Type: ListTypes[In(o.i(0), len(ListTypes))], BulletSymbol: Bullets[In(o.i(1), len(Bullets))], StartNumber: o.i(2), IndentLevel: o.i(3)})
		x.Paras = append(x.Paras, p)
	case "bullet":
		x.Paras = append(x.Paras, d.AddBulletList(o.s(0), o.i(0), Bullets[In(o.i(1), len(Bullets))]))
	case "numbered":
		x.Paras = append(x.Paras, d.AddNumberedList(o.s(0), o.i(0), ListTypes[In(o.i(1), len(ListTypes))]))
	case "toc":
		return d.GenerateTOC(&document.TOCConfig{Title: o.s(0), MaxLevel: o.i(0), ShowPageNum: o.b(0), RightAlign: o.b(1), UseHyperlink: o.b(2), DotLeader: o.b(3)})
	case "autotoc":
		err := d.AutoGenerateTOC(&document.TOCConfig{Title: o.s(0), MaxLevel: o.i(0), ShowPageNum: o.b(0), RightAlign: o.b(1), UseHyperlink: o.b(2), DotLeader: o.b(3)})
		x.Paras = d.Body.GetParagraphs()
		return err
	case "updatetoc":
		err := d.UpdateTOC()
		x.Paras = d.Body.GetParagraphs()
		return err
	case "props":
		return d.SetDocumentProperties(&document.DocumentProperties{Title: o.s(0), Subject: o.s(1), Creator: o.s(2), Keywords: o.s(3), Description: o.s(4), Language: o.s(5), Category: o.s(6), Version: o.s(7), Revision: o.s(8)})
	case "title":
		return d.SetTitle(o.s(0))
	case "author":
		return d.SetAuthor(o.s(0))
	case "stats":
		return d.UpdateStatistics()
	case "pagesize":
		return d.SetPageSize(PageSizes[In(o.i(0), len(PageSizes))])
	case "custompage":
		return d.SetCustomPageSize(o.f(0), o.f(1))
	case "orient":
		if o.b(0) {
			return d.SetPageOrientation(document.OrientationLandscape)
		}
		return d.SetPageOrientation(document.OrientationPortrait)
	case "margins":
		return d.SetPageMargins(o.f(0), o.f(1), o.f(2), o.f(3))
	case "hfdist":
		return d.SetHeaderFooterDistance(o.f(0), o.f(1))
	case "gutter":
		return d.SetGutterWidth(o.f(0))
	case "docgrid":
		grids := []document.DocGridType{document.DocGridDefault, document.DocGridLines, document.DocGridSnapToChars, document.DocGridSnapToLines}
		return d.SetDocGrid(grids[In(o.i(0), 4)], o.i(1), o.i(2))
	case "cleargrid":
		return d.ClearDocGrid()
	case "rmpara":
		if p := x.para(o.i(0)); p != nil {
			d.RemoveParagraph(p)
		}
	case "rmparaat":
		d.RemoveParagraphAt(Sel(o.i(0), len(d.Body.GetParagraphs())))
	case "rmelemat":
		d.RemoveElementAt(Sel(o.i(0), len(d.Body.Elements)))
		x.Paras = d.Body.GetParagraphs()
		x.Tables = d.Body.GetTables()
	case "customstyle":
		return x.customStyle(o)
	case "save":
		b, err := d.ToBytes()
		if err == nil {
			x.Saves = append(x.Saves, b)
		}
		return err
	case "reopen":
		b, err := d.ToBytes()
		if err != nil {
			return err
		}
		var nd *document.Document
		if o.b(0) {
			p := filepath.Join(x.Dir, "reopen.docx")
			if err := os.WriteFile(p, b, 0o644); err != nil {
				return nil
			}
			nd, err = document.Open(p)
		} else {
			nd, err = document.OpenFromMemory(io.NopCloser(bytes.NewReader(b)))
		}
		if err != nil {
			return fmt.Errorf("reopen of own output failed: %w", err)
		}
		x.keep(d)
		x.Doc = nd
		x.resetHandles()
	case "tplstr":
		te := document.NewTemplateEngine()
		if _, err := te.LoadTemplate("t", o.s(0)); err != nil {
			return err
		}
		nd, err := te.RenderToDocument("t", o.Data.TD())
		if err != nil {
			return err
		}
		x.keep(d)
		x.Doc = nd
		x.resetHandles()
	case "tpldoc2":
		// one document template rendered twice with different data; the first result stays alive (Side) and is
		// saved only after the second render happened
		if o.b(0) {
			d.AddParagraph("{{#image p}}")
		}
		te := document.NewTemplateEngine()
		if _, err := te.LoadTemplateFromDocument("t", d); err != nil {
			return err
		}
		td1 := o.Data.TD()
		first, err := te.RenderTemplateToDocument("t", td1)
		if err != nil {
			return err
		}
		td2 := o.Data2.TD()
		if o.b(1) { // the caller reuses ONE TemplateData object for both renders
			td2 = td1
		}
		second, err := te.RenderTemplateToDocument("t", td2)
		if err != nil {
			return err
		}
		x.keep(d)
		x.keep(first)
		x.Doc = second
		x.resetHandles()
	case "tpldoc":
		te := document.NewTemplateEngine()
		if _, err := te.LoadTemplateFromDocument("t", d); err != nil {
			return err
		}
		nd, err := te.RenderTemplateToDocument("t", o.Data.TD())
		if err != nil {
			return err
		}
		x.keep(d)
		x.Doc = nd
		x.resetHandles()
	case "md":
		opts := markdown.DefaultOptions()
		opts.EnableGFM = o.b(0)
		opts.EnableTables = o.b(1)
		opts.EnableTaskList = o.b(2)
		opts.EnableMath = o.b(3)
		opts.EnableFootnotes = o.b(4)
		opts.GenerateTOC = o.b(5)
		opts.TOCMaxLevel = o.i(0)
		nd, err := markdown.NewConverter(opts).ConvertString(o.s(0), opts)
		if err != nil {
			return err
		}
		x.keep(d)
		x.Doc = nd
		x.resetHandles()
	default:
		panic("ops: unknown op kind " + o.K)
	}
	return nil
}

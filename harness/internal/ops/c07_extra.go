package ops

import "github.com/zerx-lab/wordZero/pkg/document"

// ReplaceDoc makes nd the current document of the history the way the document-creating ops (reopen, render,
// conversion) do: the previous current document is kept in Side, the handles are re-read from the new body.
// For op kinds that a check defines locally (C07: documents opened from foreign packages, conversions with a
// shared converter).
func (x *Exec) ReplaceDoc(nd *document.Document) {
	x.keep(x.Doc)
	x.Doc = nd
	x.resetHandles()
}

package ops

// Op kinds for C03: multi-valued formatting whose parts DIFFER from each other.
//
// The kinds of ops.go / c03_extra.go that set a multi-part property (pborder, cellborders, tblborders) reuse one
// drawn configuration for every part, so a reader/writer that confuses the parts (one side read into another, all
// sides sharing one value, a list whose entries collapse) is invisible to a round-trip oracle. The kinds here draw
// every part on its own: presence, style, size, colour and spacing per side; a value and a unit per margin side;
// a font per script; kind, leader and position per tab stop.
//
// Setter-backed kinds: pborder4 / cellpborder4 (Paragraph.SetBorder), cellborders6 (Table.SetCellBorders),
// tblborders6 (Table.SetTableBorders). Struct-backed kinds (the library has no setter; its callers and its own
// builders fill the exported fields directly): runfonts (RunProperties.FontFamily per script), ptabs
// (ParagraphProperties.Tabs), tcmar (TableCellProperties.TcMar), tblcellmar (TableProperties.TableCellMar).
//
// Callers dispatch on IsSides(kind): DoSides executes, SidesOp draws.

import (
	"strconv"

	"github.com/zerx-lab/wordZero/pkg/document"
	"pgregory.net/rapid"
)

// SidesWeights lists the kinds with default weights.
var SidesWeights = map[string]int{
	"pborder4": 3, "cellpborder4": 1, "cellborders6": 2, "tblborders6": 2, "runfonts": 2, "ptabs": 2, "tcmar": 1, "tblcellmar": 1,
}

func IsSides(kind string) bool { _, ok := SidesWeights[kind]; return ok }

// side k of a border op: present B[k]; style S[2k], colour S[2k+1]; size I[base+2k], space I[base+2k+1]

func (o Op) pSide(base, k int) *document.ParagraphBorderConfig {
	if !o.b(k) {
		return nil
	}
	return &document.ParagraphBorderConfig{Style: document.BorderStyle(o.s(2 * k)), Color: o.s(2*k + 1), Size: o.i(base + 2*k), Space: o.i(base + 2*k + 1)}
}

func (o Op) tSide(base, k int) *document.BorderConfig {
	if !o.b(k) {
		return nil
	}
	return &document.BorderConfig{Style: document.BorderStyle(o.s(2 * k)), Color: o.s(2*k + 1), Width: o.i(base + 2*k), Space: o.i(base + 2*k + 1)}
}

// DistinctSides: number of pairwise different present parts of a sides op (labels / non-triviality).
func DistinctSides(o Op) int {
	seen := map[string]bool{}
	switch o.K {
	case "pborder4", "cellpborder4", "cellborders6", "tblborders6":
		base := map[string]int{"pborder4": 1, "cellpborder4": 4, "cellborders6": 3, "tblborders6": 1}[o.K]
		for k := 0; k < len(o.B); k++ {
			if o.b(k) {
				seen[o.s(2*k)+"|"+o.s(2*k+1)+"|"+strconv.Itoa(o.i(base+2*k))+"|"+strconv.Itoa(o.i(base+2*k+1))] = true
			}
		}
	case "tcmar", "tblcellmar":
		base := 1
		if o.K == "tcmar" {
			base = 3
		}
		for k := 0; k < 4; k++ {
			if o.b(k) {
				seen[strconv.Itoa(o.i(base+k))+"|"+o.s(k)] = true
			}
		}
	case "runfonts":
		for k := 0; k < 4; k++ {
			if o.s(k) != "" {
				seen[o.s(k)] = true
			}
		}
	case "ptabs":
		for k := 0; 2*k+1 < len(o.S); k++ {
			seen[o.s(2*k)+"|"+o.s(2*k+1)+"|"+strconv.Itoa(o.i(1+k))] = true
		}
	}
	return len(seen)
}

// DoSides executes one op of a sides kind.
func (x *Exec) DoSides(o Op) error {
	x.NOps++
	err := x.doSides(o)
	if err != nil {
		x.Errs++
	}
	return err
}

func (x *Exec) doSides(o Op) error {
	switch o.K {
	case "pborder4":
		// I: [sel, size0,space0, ... size3,space3] S: [style0,colour0, ... style3,colour3] B: [top,left,bottom,right]
		if p := x.para(o.i(0)); p != nil {
			p.SetBorder(o.pSide(1, 0), o.pSide(1, 1), o.pSide(1, 2), o.pSide(1, 3))
		}
	case "cellpborder4":
		// I: [tsel,row,col,psel, size0,space0, ...] S, B as pborder4: border of a paragraph inside a table cell
		if t := x.table(o.i(0)); t != nil {
			cell, err := t.GetCell(o.i(1), o.i(2))
			if err != nil {
				return err
			}
			if n := len(cell.Paragraphs); n > 0 {
				cell.Paragraphs[In(o.i(3), n)].SetBorder(o.pSide(4, 0), o.pSide(4, 1), o.pSide(4, 2), o.pSide(4, 3))
			}
		}
	case "cellborders6":
		// I: [tsel,row,col, width0,space0, ... width5,space5] S: [style0,colour0, ...] B: [top,left,bottom,right,diagDown,diagUp]
		if t := x.table(o.i(0)); t != nil {
			return t.SetCellBorders(o.i(1), o.i(2), &document.CellBorderConfig{Top: o.tSide(3, 0), Left: o.tSide(3, 1), Bottom: o.tSide(3, 2),
				Right: o.tSide(3, 3), DiagDown: o.tSide(3, 4), DiagUp: o.tSide(3, 5)})
		}
	case "tblborders6":
		// I: [tsel, width0,space0, ... width5,space5] S: [style0,colour0, ...] B: [top,left,bottom,right,insideH,insideV]
		if t := x.table(o.i(0)); t != nil {
			return t.SetTableBorders(&document.TableBorderConfig{Top: o.tSide(1, 0), Left: o.tSide(1, 1), Bottom: o.tSide(1, 2),
				Right: o.tSide(1, 3), InsideH: o.tSide(1, 4), InsideV: o.tSide(1, 5)})
		}
	case "runfonts":
		// I: [psel, runsel] S: [ascii, hAnsi, eastAsia, cs] ("" = attribute absent)
		if p := x.para(o.i(0)); p != nil && len(p.Runs) > 0 {
			r := &p.Runs[In(o.i(1), len(p.Runs))]
			if r.Properties == nil {
				r.Properties = &document.RunProperties{}
			}
			r.Properties.FontFamily = &document.FontFamily{ASCII: o.s(0), HAnsi: o.s(1), EastAsia: o.s(2), CS: o.s(3)}
		}
	case "ptabs":
		// I: [sel, pos0, pos1, ...] S: [val0,leader0, val1,leader1, ...]
		if p := x.para(o.i(0)); p != nil {
			if p.Properties == nil {
				p.Properties = &document.ParagraphProperties{}
			}
			tabs := &document.Tabs{}
			for k := 0; 2*k+1 < len(o.S); k++ {
				tabs.Tabs = append(tabs.Tabs, document.TabDef{Val: o.s(2 * k), Leader: o.s(2*k + 1), Pos: strconv.Itoa(o.i(1 + k))})
			}
			p.Properties.Tabs = tabs
		}
	case "tcmar":
		// I: [tsel,row,col, w0..w3] S: [type0..type3] B: [top,left,bottom,right]
		if t := x.table(o.i(0)); t != nil {
			cell, err := t.GetCell(o.i(1), o.i(2))
			if err != nil {
				return err
			}
			if cell.Properties == nil {
				cell.Properties = &document.TableCellProperties{}
			}
			sp := func(k int) *document.TableCellSpaceCell {
				if !o.b(k) {
					return nil
				}
				return &document.TableCellSpaceCell{W: strconv.Itoa(o.i(3 + k)), Type: o.s(k)}
			}
			cell.Properties.TcMar = &document.TableCellMarginsCell{Top: sp(0), Left: sp(1), Bottom: sp(2), Right: sp(3)}
		}
	case "tblcellmar":
		// I: [tsel, w0..w3] S: [type0..type3] B: [top,left,bottom,right]
		if t := x.table(o.i(0)); t != nil {
			if t.Properties == nil {
				t.Properties = &document.TableProperties{}
			}
			sp := func(k int) *document.TableCellSpace {
				if !o.b(k) {
					return nil
				}
				return &document.TableCellSpace{W: strconv.Itoa(o.i(1 + k)), Type: o.s(k)}
			}
			t.Properties.TableCellMar = &document.TableCellMargins{Top: sp(0), Left: sp(1), Bottom: sp(2), Right: sp(3)}
		}
	default:
		panic("ops: unknown sides op kind " + o.K)
	}
	return nil
}

var sideFonts = []string{"", "Arial", "宋体", "Times New Roman", "Calibri", "Microsoft YaHei", "A&B", "Noto Sans Arabic"}
var tabVals = []string{"left", "center", "right", "decimal", "bar", "clear", "num"}
var tabLeaders = []string{"", "none", "dot", "hyphen", "underscore", "middleDot"}
var marTypes = []string{"dxa", "dxa", "nil", "pct", "auto"}

// SidesOp draws one op of a sides kind: every part is drawn independently of the others.
func (c *Config) SidesOp(t *rapid.T, k string) Op {
	o := Op{K: k}
	sel := func() int { return selGen.Draw(t, "sel") }
	pos := func() int { return posGen.Draw(t, "pos") }
	sides := func(n, maxSize, maxSpace int) {
		for i := 0; i < n; i++ {
			o.B = append(o.B, rapid.IntRange(0, 3).Draw(t, "on") > 0) // a side is absent one time in four
			o.S = append(o.S, rapid.SampledFrom(borderStyles).Draw(t, "bs"), rapid.SampledFrom(colors).Draw(t, "bc"))
			o.I = append(o.I, rapid.IntRange(-1, maxSize).Draw(t, "sz"), rapid.IntRange(-1, maxSpace).Draw(t, "spc"))
		}
	}
	margins := func() {
		for i := 0; i < 4; i++ {
			o.B = append(o.B, rapid.IntRange(0, 3).Draw(t, "on") > 0)
			o.S = append(o.S, rapid.SampledFrom(marTypes).Draw(t, "mt"))
			o.I = append(o.I, rapid.IntRange(-1, 400).Draw(t, "mw"))
		}
	}
	switch k {
	case "pborder4":
		o.I = []int{sel()}
		sides(4, 100, 40)
	case "cellpborder4":
		o.I = []int{sel(), pos(), pos(), sel()}
		sides(4, 100, 40)
	case "cellborders6":
		o.I = []int{sel(), pos(), pos()}
		sides(6, 50, 10)
	case "tblborders6":
		o.I = []int{sel()}
		sides(6, 50, 10)
	case "runfonts":
		o.I = []int{sel(), sel()}
		for i := 0; i < 4; i++ {
			o.S = append(o.S, rapid.SampledFrom(sideFonts).Draw(t, "font"))
		}
	case "ptabs":
		o.I = []int{sel()}
		for i := rapid.IntRange(1, 5).Draw(t, "ntabs"); i > 0; i-- {
			o.S = append(o.S, rapid.SampledFrom(tabVals).Draw(t, "tv"), rapid.SampledFrom(tabLeaders).Draw(t, "tl"))
			o.I = append(o.I, rapid.IntRange(-500, 12000).Draw(t, "tp"))
		}
	case "tcmar":
		o.I = []int{sel(), pos(), pos()}
		margins()
	case "tblcellmar":
		o.I = []int{sel()}
		margins()
	default:
		panic("gen: unknown sides kind " + k)
	}
	return o
}

// Package opc is an independent reader of OPC (zip) packages: entries, content types,
// relationship parts. It shares no code with the library under test.
package opc

import (
	"archive/zip"
	"bytes"
	"encoding/xml"
	"fmt"
	"io"
	"path"
	"sort"
	"strings"
)

const (
	NSContentTypes = "http://schemas.openxmlformats.org/package/2006/content-types"
	NSRels         = "http://schemas.openxmlformats.org/package/2006/relationships"
	RelOfficeDoc   = "http://schemas.openxmlformats.org/officeDocument/2006/relationships/officeDocument"
	RelPrefix      = "http://schemas.openxmlformats.org/officeDocument/2006/relationships/"
	CTMain         = "application/vnd.openxmlformats-officedocument.wordprocessingml.document.main+xml"
)

type Rel struct {
	ID, Type, Target, Mode string
	Source                 string // part the relationship belongs to ("" = package root)
	Resolved               string // resolved entry name for internal targets
}

func (r Rel) External() bool { return strings.EqualFold(r.Mode, "External") }

type Package struct {
	Names     []string          // zip order
	Parts     map[string][]byte // last entry wins
	Dups      []string
	Defaults  map[string]string // lower-case extension -> content type
	Overrides map[string]string // part name without leading slash -> content type
	CTErr     error
	Rels      map[string][]Rel // rels part name -> relationships
	RelErr    map[string]error
}

// Read opens every entry (verifying CRCs) and parses content types and relationship parts.
func Read(b []byte) (*Package, error) {
	zr, err := zip.NewReader(bytes.NewReader(b), int64(len(b)))
	if err != nil {
		return nil, fmt.Errorf("zip: %w", err)
	}
	p := &Package{Parts: map[string][]byte{}, Defaults: map[string]string{}, Overrides: map[string]string{},
		Rels: map[string][]Rel{}, RelErr: map[string]error{}}
	for _, f := range zr.File {
		rc, err := f.Open()
		if err != nil {
			return nil, fmt.Errorf("zip entry %q: %w", f.Name, err)
		}
		data, err := io.ReadAll(rc)
		rc.Close()
		if err != nil {
			return nil, fmt.Errorf("zip entry %q: %w", f.Name, err)
		}
		if _, dup := p.Parts[f.Name]; dup {
			p.Dups = append(p.Dups, f.Name)
		}
		p.Names = append(p.Names, f.Name)
		p.Parts[f.Name] = data
	}
	if ct, ok := p.Parts["[Content_Types].xml"]; ok {
		p.CTErr = p.parseCT(ct)
	} else {
		p.CTErr = fmt.Errorf("[Content_Types].xml missing")
	}
	for name, data := range p.Parts {
		if IsRelsPart(name) {
			rels, err := ParseRels(name, data)
			p.Rels[name] = rels
			if err != nil {
				p.RelErr[name] = err
			}
		}
	}
	return p, nil
}

func IsRelsPart(name string) bool {
	d, f := path.Split(name)
	return strings.HasSuffix(f, ".rels") && (d == "_rels/" || strings.HasSuffix(d, "/_rels/"))
}

// SourceOf returns the part a rels part belongs to ("" for the package root).
func SourceOf(relsName string) string {
	d, f := path.Split(relsName)
	d = strings.TrimSuffix(d, "_rels/")
	return d + strings.TrimSuffix(f, ".rels")
}

// RelsNameOf returns the name of the relationship part of a part ("" = package).
func RelsNameOf(part string) string {
	d, f := path.Split(part)
	return d + "_rels/" + f + ".rels"
}

func (p *Package) parseCT(data []byte) error {
	dec := xml.NewDecoder(bytes.NewReader(data))
	depth := 0
	rootOK := false
	for {
		tok, err := dec.Token()
		if err == io.EOF {
			break
		}
		if err != nil {
			return err
		}
		switch t := tok.(type) {
		case xml.StartElement:
			depth++
			if depth == 1 {
				if t.Name.Local != "Types" || t.Name.Space != NSContentTypes {
					return fmt.Errorf("content types root is {%s}%s", t.Name.Space, t.Name.Local)
				}
				rootOK = true
			}
			if depth == 2 && t.Name.Space == NSContentTypes {
				switch t.Name.Local {
				case "Default":
					p.Defaults[strings.ToLower(attr(t, "Extension"))] = attr(t, "ContentType")
				case "Override":
					p.Overrides[strings.TrimPrefix(attr(t, "PartName"), "/")] = attr(t, "ContentType")
				}
			}
		case xml.EndElement:
			depth--
		}
	}
	if !rootOK {
		return fmt.Errorf("content types part has no root")
	}
	return nil
}

func attr(t xml.StartElement, local string) string {
	for _, a := range t.Attr {
		if a.Name.Local == local && a.Name.Space == "" {
			return a.Value
		}
	}
	return ""
}

// ContentTypeOf resolves the content type of an entry: override by part name, else default by extension.
func (p *Package) ContentTypeOf(name string) (string, bool) {
	if ct, ok := p.Overrides[name]; ok && ct != "" {
		return ct, true
	}
	for k, ct := range p.Overrides {
		if strings.EqualFold(k, name) && ct != "" {
			return ct, true
		}
	}
	base := path.Base(name)
	if i := strings.LastIndex(base, "."); i >= 0 && i < len(base)-1 {
		if ct, ok := p.Defaults[strings.ToLower(base[i+1:])]; ok && ct != "" {
			return ct, true
		}
	}
	return "", false
}

// ParseRels parses a relationship part and resolves the internal targets.
func ParseRels(name string, data []byte) ([]Rel, error) {
	src := SourceOf(name)
	dec := xml.NewDecoder(bytes.NewReader(data))
	var out []Rel
	depth := 0
	for {
		tok, err := dec.Token()
		if err == io.EOF {
			break
		}
		if err != nil {
			return out, err
		}
		switch t := tok.(type) {
		case xml.StartElement:
			depth++
			if depth == 1 && (t.Name.Local != "Relationships" || t.Name.Space != NSRels) {
				return out, fmt.Errorf("relationship part root is {%s}%s", t.Name.Space, t.Name.Local)
			}
			if depth == 2 && t.Name.Local == "Relationship" && t.Name.Space == NSRels {
				r := Rel{ID: attr(t, "Id"), Type: attr(t, "Type"), Target: attr(t, "Target"), Mode: attr(t, "TargetMode"), Source: src}
				if !r.External() {
					r.Resolved = Resolve(src, r.Target)
				}
				out = append(out, r)
			}
		case xml.EndElement:
			depth--
		}
	}
	if depth != 0 {
		return out, fmt.Errorf("unbalanced relationship part")
	}
	return out, nil
}

// Resolve resolves a relationship target against its source part.
func Resolve(source, target string) string {
	if i := strings.IndexByte(target, '#'); i >= 0 {
		target = target[:i]
	}
	if strings.HasPrefix(target, "/") {
		return strings.TrimPrefix(path.Clean(target), "/")
	}
	dir := path.Dir(source)
	if source == "" || dir == "." {
		dir = ""
	}
	r := path.Clean(path.Join("/", dir, target))
	return strings.TrimPrefix(r, "/")
}

// SortedNames returns entry names sorted.
func (p *Package) SortedNames() []string {
	n := make([]string, 0, len(p.Parts))
	for k := range p.Parts {
		n = append(n, k)
	}
	sort.Strings(n)
	return n
}

// IsXMLPart says whether an entry must be well-formed XML: by content type or by name.
func (p *Package) IsXMLPart(name string) bool {
	ln := strings.ToLower(name)
	if strings.HasSuffix(ln, ".xml") || strings.HasSuffix(ln, ".rels") {
		return true
	}
	if ct, ok := p.ContentTypeOf(name); ok {
		ct = strings.ToLower(ct)
		if ct == "application/xml" || ct == "text/xml" || strings.HasSuffix(ct, "+xml") {
			return true
		}
	}
	return false
}

// RelsOf returns the relationships of a part ("" = package root).
func (p *Package) RelsOf(part string) []Rel {
	return p.Rels[RelsNameOf(part)]
}

// MainPart returns the target of the officeDocument relationship(s) of the package.
func (p *Package) MainParts() []Rel {
	var out []Rel
	for _, r := range p.Rels["_rels/.rels"] {
		if r.Type == RelOfficeDoc && !r.External() {
			out = append(out, r)
		}
	}
	return out
}

// Package gen holds the rapid generators shared by the property checks.
package gen

import (
	"bytes"
	"image"
	"image/color"
	"image/gif"
	"image/jpeg"
	"image/png"
	"strings"
	"unicode/utf8"

	"pgregory.net/rapid"
)

// String classes.
const (
	ClsASCII    = "ascii"
	ClsUnicode  = "unicode"
	ClsXMLMeta  = "xmlmeta"
	ClsControl  = "control"
	ClsEmpty    = "empty"
	ClsBlank    = "blank"
	ClsEdgeWS   = "edgews"
	ClsTemplate = "tpl-lookalike"
	ClsMarkdown = "md-meta"
	ClsLong     = "long"
)

var (
	asciiWords = []string{"a", "b", "Hello", "world", "x1", "Lorem ipsum", "42", "foo-bar", "A.B", "q?", "(z)", "v=1;w=2"}
	uniWords   = []string{"中文", "日本語のテキスト", "é", "ñ", "שלום", "مرحبا", "😀", "𝔘", "Ω≈ç√", "ﬁ", "​", " ", "İ", "ß"}
	xmlWords   = []string{"<", ">", "&", "\"", "'", "]]>", "<w:t>", "</w:p>", "&amp;", "&lt;", "&#x0;", "<!--", "-->", "<?xml", "a<b&c>d", "\"q\"='v'"}
	ctlWords   = []string{"\x00", "\x01", "\x08", "\x0b", "\x0c", "\x1f", "\x7f", "\u0085", "￾", "￿", "\xff", "\xc0\x80", "\xed\xa0\x80", "a\x00b"}
	blankWords = []string{" ", "  ", "\t", "\n", "\r\n", " \t ", "　"}
	tplWords   = []string{"{{x}}", "{{name}}", "{{#if a}}", "{{/if}}", "{{#each l}}", "{{/each}}", "{{else}}", "{{", "}}", "{{this}}", "{{@index}}", "{{#image p}}", "{{#block b}}", "{{/block}}", "{{extends \"b\"}}", "{ {", "{{ x }}"}
	mdWords    = []string{"*", "**", "_", "`", "#", "# h", "- ", "1. ", "> ", "|", "[a](b)", "![i](u)", "~~", "$x$", "$$", "\\", "---", "```", "<b>", "[^1]"}
)

func pick(t *rapid.T, words []string, label string) string {
	n := rapid.IntRange(1, 4).Draw(t, label+"n")
	var b strings.Builder
	for i := 0; i < n; i++ {
		b.WriteString(rapid.SampledFrom(words).Draw(t, label))
	}
	return b.String()
}

// Text draws a string from one of the given classes and returns it with its class.
func Text(t *rapid.T, label string, classes ...string) (string, string) {
	cls := rapid.SampledFrom(classes).Draw(t, label+"-cls")
	switch cls {
	case ClsASCII:
		return pick(t, asciiWords, label), cls
	case ClsUnicode:
		return pick(t, append(append([]string{}, uniWords...), asciiWords[:4]...), label), cls
	case ClsXMLMeta:
		return pick(t, append(append([]string{}, xmlWords...), "a", " "), label), cls
	case ClsControl:
		return pick(t, append(append([]string{}, ctlWords...), "a", "b"), label), cls
	case ClsEmpty:
		return "", cls
	case ClsBlank:
		return pick(t, blankWords, label), cls
	case ClsEdgeWS:
		return rapid.SampledFrom(blankWords).Draw(t, label+"l") + pick(t, asciiWords, label) + rapid.SampledFrom(blankWords).Draw(t, label+"r"), cls
	case ClsTemplate:
		return pick(t, append(append([]string{}, tplWords...), "a", " "), label), cls
	case ClsMarkdown:
		return pick(t, append(append([]string{}, mdWords...), "a", " "), label), cls
	case ClsLong:
		n := rapid.IntRange(200, 2000).Draw(t, label+"len")
		unit := rapid.SampledFrom([]string{"a", "ab ", "中", "<&>", "😀"}).Draw(t, label+"unit")
		return strings.Repeat(unit, n/len([]rune(unit))+1), cls
	}
	return rapid.String().Draw(t, label), "any"
}

// AllClasses is every class (well-formedness-only properties).
var AllClasses = []string{ClsASCII, ClsASCII, ClsUnicode, ClsXMLMeta, ClsControl, ClsEmpty, ClsBlank, ClsEdgeWS, ClsTemplate, ClsMarkdown, ClsLong}

// Expressible are the classes whose strings XML 1.0 can carry unchanged (identity of text is demanded).
var Expressible = []string{ClsASCII, ClsASCII, ClsUnicode, ClsXMLMeta, ClsEdgeWS, ClsBlank, ClsEmpty}

// XMLExpressible reports whether s survives an XML 1.0 writer/reader pair unchanged:
// valid UTF-8 and only characters of the XML Char production (CR survives because the encoder writes it as &#xD;).
func XMLExpressible(s string) bool {
	if !utf8.ValidString(s) {
		return false
	}
	for _, r := range s {
		switch {
		case r == 0x9 || r == 0xA || r == 0xD:
		case r < 0x20:
			return false
		case r >= 0xD800 && r <= 0xDFFF:
			return false
		case r == 0xFFFE || r == 0xFFFF:
			return false
		case r > 0x10FFFF:
			return false
		}
	}
	return true
}

// Img is a generated image: format, pixel size, pattern and the original file name given to the API.
type Img struct {
	Fmt  string `json:"fmt"` // png | jpeg | gif
	W    int    `json:"w"`
	H    int    `json:"h"`
	Pat  int    `json:"pat"`
	Name string `json:"name"`
}

var ImgNames = []string{"a.png", "b.jpg", "c.JPEG", "d.gif", "noext", "名前.png", ".png", "a.", "x.tar.gz", "pic.xml", "pic.rels",
	"a b.png", "../a.png", "a/b.gif", "q<&>\".png", "same.png", "same.png", "P.PNG", "image0.png", "image1.png", "e.bmp", "f.jpeg"}

func Image(t *rapid.T, label string) Img {
	return Img{
		Fmt:  rapid.SampledFrom([]string{"png", "jpeg", "gif"}).Draw(t, label+"fmt"),
		W:    rapid.IntRange(1, 48).Draw(t, label+"w"),
		H:    rapid.IntRange(1, 48).Draw(t, label+"h"),
		Pat:  rapid.IntRange(0, 1<<20).Draw(t, label+"pat"),
		Name: rapid.SampledFrom(ImgNames).Draw(t, label+"name"),
	}
}

// Bytes encodes the image with the standard encoders; distinct (W,H,Pat,Fmt) give distinct payloads.
func (im Img) Bytes() []byte {
	w, h := im.W, im.H
	if w < 1 {
		w = 1
	}
	if h < 1 {
		h = 1
	}
	rgba := image.NewRGBA(image.Rect(0, 0, w, h))
	for y := 0; y < h; y++ {
		for x := 0; x < w; x++ {
			v := uint32(x)*73856093 ^ uint32(y)*19349663 ^ uint32(im.Pat)*83492791
			v ^= v >> 13
			v *= 0x5bd1e995
			v ^= v >> 15
			rgba.Set(x, y, color.RGBA{uint8(v >> 16), uint8(v >> 8), uint8(v), 255})
		}
	}
	// make the payload traceable: encode the pattern id in the first pixels
	rgba.Set(0, 0, color.RGBA{uint8(im.Pat >> 16), uint8(im.Pat >> 8), uint8(im.Pat), 255})
	var buf bytes.Buffer
	switch im.Fmt {
	case "jpeg":
		jpeg.Encode(&buf, rgba, &jpeg.Options{Quality: 90})
	case "gif":
		gif.Encode(&buf, rgba, nil)
	default:
		png.Encode(&buf, rgba)
	}
	return buf.Bytes()
}

package xmlwf

// Differential self-test of the well-formedness oracle: generated XML-like texts (well-formed trees and
// small mutations of them) are judged by Check and by CPython's expat (namespace mode) in one batched
// python3 call. The two must agree in both directions: a text expat rejects and Check accepts is a hole in
// the oracle of C01/C06/C18/C19 (an ill-formed part would pass), the reverse is a false alarm in waiting.
// Not part of any property's verdict; run by `./check --selftest` and by `go test ./internal/xmlwf`.

import (
	"encoding/json"
	"fmt"
	"os"
	"os/exec"
	"regexp"
	"strconv"
	"strings"
	"testing"

	"pgregory.net/rapid"
)

const pyJudge = `
import json, sys
import xml.parsers.expat as e
docs = json.load(sys.stdin)
out = []
for d in docs:
    p = e.ParserCreate(namespace_separator='\x0c')
    try:
        p.Parse(d.encode('utf-8', 'surrogatepass'), True)
        out.append('')
    except e.ExpatError as x:
        out.append(str(x) or 'error')
    except Exception as x:
        out.append('py:' + str(x))
json.dump(out, sys.stdout)
`

var (
	names    = []string{"a", "b", "w:p", "w:r", "w:t", "r:id", "x", "A1", "_u", "a-b", "a.b", "c"}
	prefixes = []string{"w", "r", "p"}
	texts    = []string{"", "x", "a b", "  ", "中文", "é", "&amp;", "&lt;", "&#x41;", "&#65;", "&quot;", "<![CDATA[ <raw> & ]]>", "<!-- note -->", "<?pi data?>", "\t", "\n", "]]", "]", ">", "'", "\""}
	hostile  = []string{"<", ">", "&", "\"", "'", "]]>", "--", "\x01", "\x0b", "￾", "&nope;", "&#0;", "&#xD800;", "&", ":", " ", "=", "/", "<?xml version=\"1.0\"?>", "<!", "<![CDATA[", "]]", "?>", "<a", "</a>", "xmlns:w=\"\"", " xmlns:xml=\"u\"", "1a", "-a"}
)

type el struct {
	name  string
	attrs [][2]string
	kids  []interface{} // string | *el
}

func genEl(t *rapid.T, depth int, declared map[string]bool) *el {
	e := &el{name: rapid.SampledFrom(names).Draw(t, "name")}
	decl := map[string]bool{}
	for k, v := range declared {
		decl[k] = v
	}
	need := func(n string) {
		if i := strings.IndexByte(n, ':'); i > 0 {
			p := n[:i]
			// mostly declare what is used; sometimes leave it (ill-formed in namespace mode)
			if !decl[p] && rapid.IntRange(0, 9).Draw(t, "declare") > 0 {
				e.attrs = append(e.attrs, [2]string{"xmlns:" + p, "urn:" + p})
				decl[p] = true
			}
		}
	}
	need(e.name)
	na := rapid.IntRange(0, 3).Draw(t, "nattr")
	for i := 0; i < na; i++ {
		an := rapid.SampledFrom(names).Draw(t, "aname")
		need(an)
		v := rapid.SampledFrom([]string{"", "1", "a b", "&amp;", "&lt;x", "中", "it's", "&#x9;", ">"}).Draw(t, "aval")
		e.attrs = append(e.attrs, [2]string{an, v})
	}
	if rapid.IntRange(0, 7).Draw(t, "defaultns") == 0 {
		e.attrs = append(e.attrs, [2]string{"xmlns", rapid.SampledFrom([]string{"urn:d", ""}).Draw(t, "dns")})
	}
	if depth < 3 {
		nk := rapid.IntRange(0, 3).Draw(t, "nkids")
		for i := 0; i < nk; i++ {
			if rapid.Bool().Draw(t, "kidtext") {
				e.kids = append(e.kids, rapid.SampledFrom(texts).Draw(t, "text"))
			} else {
				e.kids = append(e.kids, genEl(t, depth+1, decl))
			}
		}
	}
	return e
}

func (e *el) write(b *strings.Builder, q byte) {
	b.WriteString("<" + e.name)
	for _, a := range e.attrs {
		v := a[1]
		qq := q
		if strings.IndexByte(v, qq) >= 0 {
			if qq == '"' {
				qq = '\''
			} else {
				qq = '"'
			}
		}
		b.WriteString(" " + a[0] + "=" + string(qq) + v + string(qq))
	}
	if len(e.kids) == 0 {
		b.WriteString("/>")
		return
	}
	b.WriteString(">")
	for _, k := range e.kids {
		switch v := k.(type) {
		case string:
			// bare quote/bracket characters are fine in content; "]]" followed by ">" is produced only by mutations
			b.WriteString(v)
		case *el:
			v.write(b, q)
		}
	}
	b.WriteString("</" + e.name + ">")
}

func genDoc(t *rapid.T) string {
	var b strings.Builder
	switch rapid.IntRange(0, 5).Draw(t, "prolog") {
	case 0:
		b.WriteString(`<?xml version="1.0" encoding="UTF-8" standalone="yes"?>` + "\n")
	case 1:
		b.WriteString(`<?xml version="1.0"?>`)
	case 2:
		b.WriteString("<!-- lead -->")
	}
	q := byte('"')
	if rapid.IntRange(0, 4).Draw(t, "quote") == 0 {
		q = '\''
	}
	genEl(t, 0, map[string]bool{}).write(&b, q)
	if rapid.IntRange(0, 6).Draw(t, "tail") == 0 {
		b.WriteString(rapid.SampledFrom([]string{"\n", "<!-- t -->", "<?p?>", "x", "<b/>"}).Draw(t, "tailv"))
	}
	s := b.String()
	// mutations: none (well-formed unless a prefix was left undeclared etc.), or 1-2 small edits
	nm := rapid.SampledFrom([]int{0, 0, 1, 1, 2}).Draw(t, "nmut")
	for i := 0; i < nm && len(s) > 0; i++ {
		r := []rune(s)
		pos := rapid.IntRange(0, len(r)).Draw(t, "pos")
		switch rapid.IntRange(0, 3).Draw(t, "mut") {
		case 0: // insert a hostile token
			s = string(r[:pos]) + rapid.SampledFrom(hostile).Draw(t, "ins") + string(r[pos:])
		case 1: // delete 1-3 runes
			n := rapid.IntRange(1, 3).Draw(t, "dlen")
			if pos+n > len(r) {
				n = len(r) - pos
			}
			s = string(r[:pos]) + string(r[pos+n:])
		case 2: // truncate
			s = string(r[:pos])
		case 3: // duplicate a slice
			n := rapid.IntRange(1, 12).Draw(t, "dup")
			if pos+n > len(r) {
				n = len(r) - pos
			}
			s = string(r[:pos+n]) + string(r[pos:])
		}
	}
	return s
}

// knownDifference lists classes on which the two judges are allowed to differ, with the reason. Keep it short.
func knownDifference(doc, expatErr string, goErr error) string {
	// pyexpat resolves unknown encoding names through Python's codec aliases ("UTF8", "UTF--8" are utf-8 there);
	// Check deliberately accepts UTF-8 declarations only (the library writes nothing else)
	if m := reEnc.FindStringSubmatch(doc); m != nil && !strings.EqualFold(m[1], "UTF-8") {
		return "encoding alias"
	}
	// encoding/xml accepts version "1.0" only; expat accepts any token of the 2nd-edition VersionNum production
	if m := reVer.FindStringSubmatch(doc); m != nil && m[1] != "1.0" {
		return "version number"
	}
	return ""
}

var reVer = regexp.MustCompile(`^<\?xml\s+version\s*=\s*["']([^"']*)["']`)
var reEnc = regexp.MustCompile(`^<\?xml[^>]*encoding=["']([^"']*)["']`)

func TestAgainstExpat(t *testing.T) {
	if err := SelfTest(); err != nil {
		t.Fatal(err)
	}
	py, err := exec.LookPath("python3")
	if err != nil {
		t.Skip("python3 not available")
	}
	n := 6000
	if v, err := strconv.Atoi(os.Getenv("XMLWF_DOCS")); err == nil && v > 0 {
		n = v
	}
	seed := 1
	if v, err := strconv.Atoi(os.Getenv("VERIF_SEED")); err == nil && v > 0 {
		seed = v
	}
	gen := rapid.Custom(genDoc)
	docs := make([]string, 0, n)
	for i := 0; i < n; i++ {
		docs = append(docs, gen.Example(seed*1000003+i))
	}
	in, _ := json.Marshal(docs)
	cmd := exec.Command(py, "-c", pyJudge)
	cmd.Stdin = strings.NewReader(string(in))
	out, err := cmd.Output()
	if err != nil {
		t.Skipf("python3 expat judge failed to run: %v", err)
	}
	var verdicts []string
	if err := json.Unmarshal(out, &verdicts); err != nil || len(verdicts) != len(docs) {
		t.Fatalf("bad judge output: %v", err)
	}
	wf, ill, holes, alarms := 0, 0, 0, 0
	var first []string
	for i, d := range docs {
		goErr := Check([]byte(d))
		ex := verdicts[i]
		if strings.HasPrefix(ex, "py:") {
			continue // not encodable for the judge (lone surrogate etc.)
		}
		if ex == "" {
			wf++
		} else {
			ill++
		}
		if (ex == "") == (goErr == nil) {
			continue
		}
		if knownDifference(d, ex, goErr) != "" {
			continue
		}
		if goErr == nil {
			holes++
			if len(first) < 12 {
				first = append(first, fmt.Sprintf("HOLE  xmlwf accepts, expat: %s\n      %q", ex, d))
			}
		} else {
			alarms++
			if len(first) < 12 {
				first = append(first, fmt.Sprintf("ALARM xmlwf rejects (%v), expat accepts\n      %q", goErr, d))
			}
		}
	}
	t.Logf("docs=%d well-formed=%d ill-formed=%d holes=%d false-alarms=%d", len(docs), wf, ill, holes, alarms)
	if wf < len(docs)/10 || ill < len(docs)/10 {
		t.Errorf("generator is lopsided: well-formed=%d ill-formed=%d", wf, ill)
	}
	if holes+alarms > 0 {
		t.Errorf("xmlwf and expat disagree on %d documents:\n%s", holes+alarms, strings.Join(first, "\n"))
	}
}

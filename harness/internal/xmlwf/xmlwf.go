// Package xmlwf decides XML 1.0 + Namespaces well-formedness of a part.
// A strict scanner (strict.go) checks the XML 1.0 productions and the namespace constraints; then
// pass 1 uses encoding/xml in strict mode (tag balance, entities, character legality);
// pass 2 walks raw tokens to check what Go's decoder tolerates: duplicate attributes,
// undeclared namespace prefixes, several roots, text outside the root, '<' in attribute values.
package xmlwf

import (
	"bytes"
	"encoding/xml"
	"fmt"
	"io"
	"strings"
	"unicode/utf8"
)

func Check(data []byte) error {
	if len(bytes.TrimSpace(data)) == 0 {
		return fmt.Errorf("empty part")
	}
	if !utf8.Valid(data) {
		// the library only writes UTF-8; an encoding declaration other than UTF-8 is not handled here
		return fmt.Errorf("invalid UTF-8")
	}
	// a leading UTF-8 byte order mark is allowed (XML 1.0 4.3.3); encoding/xml would read it as character data
	data = bytes.TrimPrefix(data, []byte("\xef\xbb\xbf"))
	if err := rawAttrScan(data); err != nil {
		return err
	}
	// the strict scanner decides what encoding/xml is lenient about (see strict.go); texts with a DOCTYPE are
	// judged by the two encoding/xml passes only
	skipped, err := strictCheck(data)
	if err != nil {
		return err
	}
	dec := xml.NewDecoder(bytes.NewReader(data))
	dec.Strict = true
	depth, roots := 0, 0
	for {
		tok, err := dec.Token()
		if err == io.EOF {
			break
		}
		if err != nil {
			// encoding/xml rejects "]]>" in attribute values too, where XML allows it; the strict scanner has
			// already established that it does not occur in character data, so its verdict stands
			if !skipped && strings.Contains(err.Error(), "unescaped ]]> not in CDATA section") {
				return nil
			}
			return fmt.Errorf("pass1: %w", err)
		}
		switch t := tok.(type) {
		case xml.StartElement:
			if depth == 0 {
				roots++
				if roots > 1 {
					return fmt.Errorf("more than one root element")
				}
			}
			depth++
		case xml.EndElement:
			depth--
		case xml.CharData:
			if depth == 0 && len(bytes.TrimSpace(t)) > 0 {
				return fmt.Errorf("character data outside the root element")
			}
		}
	}
	if roots == 0 {
		return fmt.Errorf("no root element")
	}
	if depth != 0 {
		return fmt.Errorf("unclosed elements")
	}
	// pass 2
	dec = xml.NewDecoder(bytes.NewReader(data))
	dec.Strict = true
	type scope map[string]bool
	stack := []scope{{"xml": true, "xmlns": true}}
	depthOf := map[string]int{"xml": 1, "xmlns": 1} // prefix -> number of open elements that declare it (O(1) lookup at any nesting depth)
	declared := func(p string) bool { return depthOf[p] > 0 }
	for {
		tok, err := dec.RawToken()
		if err == io.EOF {
			break
		}
		if err != nil {
			return fmt.Errorf("pass2: %w", err)
		}
		switch t := tok.(type) {
		case xml.StartElement:
			sc := scope{}
			seen := map[string]bool{}
			for _, a := range t.Attr {
				full := a.Name.Local
				if a.Name.Space != "" {
					full = a.Name.Space + ":" + a.Name.Local
				}
				if seen[full] {
					return fmt.Errorf("duplicate attribute %q on <%s>", full, t.Name.Local)
				}
				seen[full] = true
				if a.Name.Space == "xmlns" {
					if a.Value == "" {
						return fmt.Errorf("prefix %q bound to empty namespace", a.Name.Local)
					}
					if !sc[a.Name.Local] {
						depthOf[a.Name.Local]++
					}
					sc[a.Name.Local] = true
				}
			}
			stack = append(stack, sc)
			if t.Name.Space != "" && !declared(t.Name.Space) {
				return fmt.Errorf("undeclared prefix %q on element <%s:%s>", t.Name.Space, t.Name.Space, t.Name.Local)
			}
			if strings.Contains(t.Name.Local, ":") {
				return fmt.Errorf("element name %q has two colons", t.Name.Local)
			}
			for _, a := range t.Attr {
				if a.Name.Space != "" && a.Name.Space != "xmlns" && !declared(a.Name.Space) {
					return fmt.Errorf("undeclared prefix %q on attribute %s:%s", a.Name.Space, a.Name.Space, a.Name.Local)
				}
			}
		case xml.EndElement:
			if len(stack) > 1 {
				for p := range stack[len(stack)-1] {
					depthOf[p]--
				}
				stack = stack[:len(stack)-1]
			}
		}
	}
	return nil
}

// rawAttrScan is a small scanner over the markup that rejects '<' inside attribute values
// and attribute values that are not quoted, which encoding/xml accepts.
func rawAttrScan(d []byte) error {
	i := 0
	n := len(d)
	for i < n {
		if d[i] != '<' {
			i++
			continue
		}
		switch {
		case bytes.HasPrefix(d[i:], []byte("<!--")):
			j := bytes.Index(d[i+4:], []byte("-->"))
			if j < 0 {
				return fmt.Errorf("unterminated comment")
			}
			i += 4 + j + 3
			continue
		case bytes.HasPrefix(d[i:], []byte("<![CDATA[")):
			j := bytes.Index(d[i+9:], []byte("]]>"))
			if j < 0 {
				return fmt.Errorf("unterminated CDATA")
			}
			i += 9 + j + 3
			continue
		case bytes.HasPrefix(d[i:], []byte("<?")):
			j := bytes.Index(d[i+2:], []byte("?>"))
			if j < 0 {
				return fmt.Errorf("unterminated processing instruction")
			}
			i += 2 + j + 2
			continue
		case bytes.HasPrefix(d[i:], []byte("<!")):
			// DOCTYPE etc.: skip to '>'
			j := bytes.IndexByte(d[i:], '>')
			if j < 0 {
				return fmt.Errorf("unterminated declaration")
			}
			i += j + 1
			continue
		}
		// start or end tag
		i++
		for i < n && d[i] != '>' {
			if d[i] == '"' || d[i] == '\'' {
				q := d[i]
				i++
				for i < n && d[i] != q {
					if d[i] == '<' {
						return fmt.Errorf("'<' inside an attribute value")
					}
					i++
				}
				if i >= n {
					return fmt.Errorf("unterminated attribute value")
				}
			} else if d[i] == '<' {
				return fmt.Errorf("'<' inside a tag")
			}
			i++
		}
		if i >= n {
			return fmt.Errorf("unterminated tag")
		}
		i++
	}
	return nil
}

// SelfTest checks that the checker rejects a fixed list of ill-formed snippets and accepts well-formed ones.
func SelfTest() error {
	bad := []string{
		``, `   `, `<a>`, `<a></b>`, `<a><b></a></b>`, `<a/><b/>`, `<a/>x`, `x<a/>`,
		`<a b="1" b="2"/>`, `<p:a/>`, `<a p:b="1"/>`, "<a>\x01</a>", `<a>&nope;</a>`, `<a b="<"/>`,
		`<a b=1/>`, `<a>]]></a>`, `<a><![CDATA[x</a>`, "<a>\xff</a>", `<a xmlns:p=""/>`, `<a>&</a>`, `<a><</a>`,
		"<a>￾</a>", `<a b="x/>`,
		`<a><!DOCTYPE a></a>`, `<a/><!DOCTYPE a>`, `<a><?xml version="1.0"?></a>`, `<a><!ENTITY x "y"></a>`,
	}
	for _, s := range bad {
		if Check([]byte(s)) == nil {
			return fmt.Errorf("xmlwf accepted ill-formed %q", s)
		}
	}
	good := []string{
		"\xef\xbb\xbf<a/>", `<a/>`, `<?xml version="1.0" encoding="UTF-8"?><a xmlns:p="u"><p:b p:c="1">x &amp; y &#x4e2d;</p:b></a>`,
		"<a>\t\n\r é 中 😀</a>", `<a b="&lt;"/>`, `<a><![CDATA[<x>]]></a>`, `<!-- c --><a/><!-- d -->`,
		`<a xmlns="u"><b xml:space="preserve"> </b></a>`, `<a b='"'/>`,
		`<a><!-- <!DOCTYPE a> --></a>`, `<a><![CDATA[<!DOCTYPE a>]]></a>`, `<!DOCTYPE a><a/>`,
	}
	for _, s := range good {
		if err := Check([]byte(s)); err != nil {
			return fmt.Errorf("xmlwf rejected well-formed %q: %v", s, err)
		}
	}
	return nil
}

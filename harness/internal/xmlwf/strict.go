package xmlwf

// strict.go: a small, independent scanner for the well-formedness productions of XML 1.0 (5th ed.) and the
// constraints of Namespaces in XML 1.0, for documents WITHOUT a document type declaration (the library never
// writes one; a text with <!DOCTYPE is left to the encoding/xml passes). encoding/xml is lenient about many
// productions (XML declaration syntax, names, "--" in comments, missing blanks between attributes, references
// outside the root ...); this scanner is what makes Check agree with a conforming parser. It is tested against
// CPython's expat on generated texts in expat_test.go.

import (
	"bytes"
	"fmt"
	"strings"
	"unicode/utf8"
)

const (
	nsXML   = "http://www.w3.org/XML/1998/namespace"
	nsXMLNS = "http://www.w3.org/2000/xmlns/"
)

type scanner struct {
	d []byte
	i int
}

func (s *scanner) errf(format string, a ...interface{}) error {
	return fmt.Errorf("strict: offset %d: %s", s.i, fmt.Sprintf(format, a...))
}

func isChar(r rune) bool {
	return r == 0x9 || r == 0xA || r == 0xD || (r >= 0x20 && r <= 0xD7FF) || (r >= 0xE000 && r <= 0xFFFD) || (r >= 0x10000 && r <= 0x10FFFF)
}

func isSpace(b byte) bool { return b == ' ' || b == '\t' || b == '\r' || b == '\n' }

func isNameStart(r rune) bool {
	switch {
	case r == ':' || r == '_' || (r >= 'A' && r <= 'Z') || (r >= 'a' && r <= 'z'):
		return true
	case r < 0xC0:
		return false
	case r == 0xD7 || r == 0xF7:
		return false
	case r <= 0x2FF:
		return true
	case r >= 0x370 && r <= 0x37D, r >= 0x37F && r <= 0x1FFF, r >= 0x200C && r <= 0x200D, r >= 0x2070 && r <= 0x218F,
		r >= 0x2C00 && r <= 0x2FEF, r >= 0x3001 && r <= 0xD7FF, r >= 0xF900 && r <= 0xFDCF, r >= 0xFDF0 && r <= 0xFFFD, r >= 0x10000 && r <= 0xEFFFF:
		return true
	}
	return false
}

func isNameChar(r rune) bool {
	return isNameStart(r) || r == '-' || r == '.' || (r >= '0' && r <= '9') || r == 0xB7 || (r >= 0x300 && r <= 0x36F) || (r >= 0x203F && r <= 0x2040)
}

func (s *scanner) eof() bool { return s.i >= len(s.d) }

func (s *scanner) has(p string) bool { return bytes.HasPrefix(s.d[s.i:], []byte(p)) }

func (s *scanner) skipSpace() int {
	n := 0
	for s.i < len(s.d) && isSpace(s.d[s.i]) {
		s.i++
		n++
	}
	return n
}

func (s *scanner) name() (string, error) {
	st := s.i
	r, w := utf8.DecodeRune(s.d[s.i:])
	if w == 0 || !isNameStart(r) {
		return "", s.errf("name expected")
	}
	s.i += w
	for s.i < len(s.d) {
		r, w = utf8.DecodeRune(s.d[s.i:])
		if !isNameChar(r) {
			break
		}
		s.i += w
	}
	return string(s.d[st:s.i]), nil
}

// reference scans "&...;" at s.i (which is on '&').
func (s *scanner) reference() error {
	s.i++
	if s.has("#x") {
		s.i += 2
		st := s.i
		v := 0
		for s.i < len(s.d) && strings.IndexByte("0123456789abcdefABCDEF", s.d[s.i]) >= 0 {
			if v <= 0x110000 {
				v = v*16 + hexval(s.d[s.i])
			}
			s.i++
		}
		if s.i == st || s.eof() || s.d[s.i] != ';' {
			return s.errf("malformed character reference")
		}
		if !isChar(rune(v)) {
			return s.errf("character reference to an illegal character")
		}
		s.i++
		return nil
	}
	if s.has("#") {
		s.i++
		st := s.i
		v := 0
		for s.i < len(s.d) && s.d[s.i] >= '0' && s.d[s.i] <= '9' {
			if v <= 0x110000 {
				v = v*10 + int(s.d[s.i]-'0')
			}
			s.i++
		}
		if s.i == st || s.eof() || s.d[s.i] != ';' {
			return s.errf("malformed character reference")
		}
		if !isChar(rune(v)) {
			return s.errf("character reference to an illegal character")
		}
		s.i++
		return nil
	}
	n, err := s.name()
	if err != nil {
		return s.errf("malformed entity reference")
	}
	if s.eof() || s.d[s.i] != ';' {
		return s.errf("entity reference without ';'")
	}
	s.i++
	switch n {
	case "amp", "lt", "gt", "quot", "apos":
		return nil
	}
	return s.errf("undefined entity &%s;", n)
}

func hexval(b byte) int {
	switch {
	case b >= '0' && b <= '9':
		return int(b - '0')
	case b >= 'a' && b <= 'f':
		return int(b-'a') + 10
	}
	return int(b-'A') + 10
}

func (s *scanner) comment() error {
	s.i += 4
	for {
		if s.eof() {
			return s.errf("unterminated comment")
		}
		if s.has("--") {
			if s.has("-->") {
				s.i += 3
				return nil
			}
			return s.errf("'--' inside a comment")
		}
		r, w := utf8.DecodeRune(s.d[s.i:])
		if !isChar(r) || (r == utf8.RuneError && w == 1) {
			return s.errf("illegal character in comment")
		}
		s.i += w
	}
}

func (s *scanner) pi() error {
	s.i += 2
	n, err := s.name()
	if err != nil {
		return s.errf("processing instruction without target")
	}
	if strings.EqualFold(n, "xml") {
		return s.errf("XML declaration not at the start / reserved PI target")
	}
	if strings.Contains(n, ":") {
		return s.errf("processing instruction target %q is not an NCName", n)
	}
	if s.has("?>") {
		s.i += 2
		return nil
	}
	if s.skipSpace() == 0 {
		return s.errf("blank expected after PI target")
	}
	for {
		if s.eof() {
			return s.errf("unterminated processing instruction")
		}
		if s.has("?>") {
			s.i += 2
			return nil
		}
		r, w := utf8.DecodeRune(s.d[s.i:])
		if !isChar(r) || (r == utf8.RuneError && w == 1) {
			return s.errf("illegal character in processing instruction")
		}
		s.i += w
	}
}

// pseudoAttr scans S name Eq quoted; returns ("", "", false) when the next thing is not a pseudo attribute.
func (s *scanner) pseudoAttr(want string) (string, bool, error) {
	save := s.i
	if s.skipSpace() == 0 {
		s.i = save
		return "", false, nil
	}
	if !s.has(want) {
		s.i = save
		return "", false, nil
	}
	s.i += len(want)
	s.skipSpace()
	if s.eof() || s.d[s.i] != '=' {
		return "", false, s.errf("'=' expected in XML declaration")
	}
	s.i++
	s.skipSpace()
	if s.eof() || (s.d[s.i] != '"' && s.d[s.i] != '\'') {
		return "", false, s.errf("quoted value expected in XML declaration")
	}
	q := s.d[s.i]
	s.i++
	st := s.i
	for s.i < len(s.d) && s.d[s.i] != q {
		s.i++
	}
	if s.eof() {
		return "", false, s.errf("unterminated value in XML declaration")
	}
	v := string(s.d[st:s.i])
	s.i++
	return v, true, nil
}

func (s *scanner) xmlDecl() error {
	s.i += 5
	v, ok, err := s.pseudoAttr("version")
	if err != nil {
		return err
	}
	if !ok {
		return s.errf("version expected in XML declaration")
	}
	// XML 1.0 5th ed. says '1.' [0-9]+; earlier editions (and expat) allow [a-zA-Z0-9_.:-]+ - the lenient
	// reading is used so that a debatable version number never raises an alarm
	for _, c := range v {
		if !((c >= 'A' && c <= 'Z') || (c >= 'a' && c <= 'z') || (c >= '0' && c <= '9') || c == '_' || c == '.' || c == ':' || c == '-') {
			return s.errf("bad version %q", v)
		}
	}
	if v, ok, err = s.pseudoAttr("encoding"); err != nil {
		return err
	} else if ok {
		if v == "" || !((v[0] >= 'A' && v[0] <= 'Z') || (v[0] >= 'a' && v[0] <= 'z')) {
			return s.errf("bad encoding name %q", v)
		}
		for _, c := range v[1:] {
			if !((c >= 'A' && c <= 'Z') || (c >= 'a' && c <= 'z') || (c >= '0' && c <= '9') || c == '.' || c == '_' || c == '-') {
				return s.errf("bad encoding name %q", v)
			}
		}
	}
	if v, ok, err = s.pseudoAttr("standalone"); err != nil {
		return err
	} else if ok && v != "yes" && v != "no" {
		return s.errf("bad standalone value %q", v)
	}
	s.skipSpace()
	if !s.has("?>") {
		return s.errf("malformed XML declaration")
	}
	s.i += 2
	return nil
}

type nsScope struct {
	prefix map[string]string
	def    *string
}

type openEl struct {
	name string
	ns   nsScope
}

func isNCName(n string) bool { return n != "" && !strings.Contains(n, ":") }

// strictCheck returns nil for a well-formed, namespace-well-formed document without DOCTYPE;
// (nil, skipped=true) when the text has a DOCTYPE in its prolog (not judged here). The characters "<!DOCTYPE"
// inside a comment, a CDATA section or a processing instruction are just text; as markup inside or after the
// root element they make the document ill-formed.
func strictCheck(data []byte) (skipped bool, err error) {
	s := &scanner{d: data}
	if s.has("\xef\xbb\xbf") {
		s.i += 3
	}
	if s.has("<?xml") && len(s.d) > s.i+5 && (isSpace(s.d[s.i+5]) || s.d[s.i+5] == '?') {
		if err := s.xmlDecl(); err != nil {
			return false, err
		}
	}
	var stack []openEl
	// prefix -> stack of bindings (innermost last), so that a lookup does not walk the element stack
	// (documents nested 100 000 deep are part of what the checks generate)
	bound := map[string][]string{}
	lookup := func(p string) (string, bool) {
		if p == "xml" {
			return nsXML, true
		}
		if b := bound[p]; len(b) > 0 {
			return b[len(b)-1], b[len(b)-1] != ""
		}
		return "", false
	}
	pop := func() {
		top := stack[len(stack)-1]
		for p := range top.ns.prefix {
			if b := bound[p]; len(b) > 0 {
				bound[p] = b[:len(b)-1]
			}
		}
		stack = stack[:len(stack)-1]
	}
	rootSeen, rootClosed := false, false
	for !s.eof() {
		inContent := len(stack) > 0
		c := s.d[s.i]
		switch {
		case c == '<' && s.has("<!--"):
			if err := s.comment(); err != nil {
				return false, err
			}
		case c == '<' && s.has("<?"):
			if err := s.pi(); err != nil {
				return false, err
			}
		case c == '<' && s.has("<![CDATA["):
			if !inContent {
				return false, s.errf("CDATA section outside the root element")
			}
			s.i += 9
			for {
				if s.eof() {
					return false, s.errf("unterminated CDATA section")
				}
				if s.has("]]>") {
					s.i += 3
					break
				}
				r, w := utf8.DecodeRune(s.d[s.i:])
				if !isChar(r) || (r == utf8.RuneError && w == 1) {
					return false, s.errf("illegal character in CDATA section")
				}
				s.i += w
			}
		case c == '<' && s.has("<!DOCTYPE"):
			// a document type declaration is legal in the prolog only (XML 1.0 [22]); a document that has one
			// there is left to the encoding/xml passes, anywhere else it is not well-formed
			if rootSeen {
				return false, s.errf("markup declaration inside or after the root element")
			}
			return true, nil
		case c == '<' && s.has("</"):
			if !inContent {
				return false, s.errf("end tag without open element")
			}
			s.i += 2
			n, err := s.name()
			if err != nil {
				return false, err
			}
			s.skipSpace()
			if s.eof() || s.d[s.i] != '>' {
				return false, s.errf("'>' expected in end tag")
			}
			s.i++
			top := stack[len(stack)-1]
			if top.name != n {
				return false, s.errf("end tag </%s> does not match <%s>", n, top.name)
			}
			pop()
			if len(stack) == 0 {
				rootClosed = true
			}
		case c == '<':
			if rootClosed {
				return false, s.errf("second root element")
			}
			s.i++
			n, err := s.name()
			if err != nil {
				return false, err
			}
			rootSeen = true
			type attr struct{ name, val string }
			var attrs []attr
			seen := map[string]bool{}
			empty := false
			for {
				sp := s.skipSpace()
				if s.eof() {
					return false, s.errf("unterminated start tag")
				}
				if s.d[s.i] == '>' {
					s.i++
					break
				}
				if s.has("/>") {
					s.i += 2
					empty = true
					break
				}
				if sp == 0 {
					return false, s.errf("blank expected between attributes")
				}
				an, err := s.name()
				if err != nil {
					return false, err
				}
				s.skipSpace()
				if s.eof() || s.d[s.i] != '=' {
					return false, s.errf("'=' expected after attribute name")
				}
				s.i++
				s.skipSpace()
				if s.eof() || (s.d[s.i] != '"' && s.d[s.i] != '\'') {
					return false, s.errf("quoted attribute value expected")
				}
				q := s.d[s.i]
				s.i++
				st := s.i
				for {
					if s.eof() {
						return false, s.errf("unterminated attribute value")
					}
					b := s.d[s.i]
					if b == q {
						break
					}
					if b == '<' {
						return false, s.errf("'<' in attribute value")
					}
					if b == '&' {
						if err := s.reference(); err != nil {
							return false, err
						}
						continue
					}
					r, w := utf8.DecodeRune(s.d[s.i:])
					if !isChar(r) || (r == utf8.RuneError && w == 1) {
						return false, s.errf("illegal character in attribute value")
					}
					s.i += w
				}
				val := string(s.d[st:s.i])
				s.i++
				if seen[an] {
					return false, s.errf("duplicate attribute %q", an)
				}
				seen[an] = true
				attrs = append(attrs, attr{an, val})
			}
			// namespace constraints
			sc := nsScope{prefix: map[string]string{}}
			for _, a := range attrs {
				switch {
				case a.name == "xmlns":
					v := a.val
					if v == nsXML || v == nsXMLNS {
						return false, s.errf("reserved namespace name as default namespace")
					}
					sc.def = &v
				case strings.HasPrefix(a.name, "xmlns:"):
					p := a.name[6:]
					if !isNCName(p) {
						return false, s.errf("bad namespace prefix %q", p)
					}
					if p == "xmlns" {
						return false, s.errf("prefix xmlns must not be declared")
					}
					if a.val == "" {
						return false, s.errf("prefix %q bound to the empty namespace name", p)
					}
					if (p == "xml") != (a.val == nsXML) {
						return false, s.errf("reserved prefix/namespace xml misused")
					}
					if a.val == nsXMLNS {
						return false, s.errf("reserved namespace name bound to a prefix")
					}
					sc.prefix[p] = a.val
				}
			}
			stack = append(stack, openEl{name: n, ns: sc})
			for p, u := range sc.prefix {
				bound[p] = append(bound[p], u)
			}
			split := func(q string) (string, string, error) {
				k := strings.IndexByte(q, ':')
				if k < 0 {
					return "", q, nil
				}
				p, l := q[:k], q[k+1:]
				if p == "" || l == "" || strings.Contains(l, ":") {
					return "", "", s.errf("%q is not a qualified name", q)
				}
				if r, _ := utf8.DecodeRuneInString(l); !isNameStart(r) {
					return "", "", s.errf("%q is not a qualified name", q)
				}
				return p, l, nil
			}
			p, _, err := split(n)
			if err != nil {
				return false, err
			}
			if p == "xmlns" {
				return false, s.errf("element with prefix xmlns")
			}
			if p != "" {
				if _, ok := lookup(p); !ok {
					return false, s.errf("undeclared prefix %q on element %s", p, n)
				}
			}
			exp := map[string]bool{}
			for _, a := range attrs {
				if a.name == "xmlns" || strings.HasPrefix(a.name, "xmlns:") {
					continue
				}
				ap, al, err := split(a.name)
				if err != nil {
					return false, err
				}
				key := "|" + al
				if ap != "" {
					u, ok := lookup(ap)
					if !ok {
						return false, s.errf("undeclared prefix %q on attribute %s", ap, a.name)
					}
					key = u + "|" + al
				}
				if exp[key] {
					return false, s.errf("two attributes with the same expanded name %q", a.name)
				}
				exp[key] = true
			}
			if empty {
				pop()
				if len(stack) == 0 {
					rootClosed = true
				}
			}
		case c == '&':
			if !inContent {
				return false, s.errf("reference outside the root element")
			}
			if err := s.reference(); err != nil {
				return false, err
			}
		default:
			if !inContent {
				if !isSpace(c) {
					return false, s.errf("character data outside the root element")
				}
				s.i++
				continue
			}
			if s.has("]]>") {
				return false, s.errf("']]>' in character data")
			}
			r, w := utf8.DecodeRune(s.d[s.i:])
			if !isChar(r) || (r == utf8.RuneError && w == 1) {
				return false, s.errf("illegal character U+%04X in character data", r)
			}
			s.i += w
		}
	}
	if !rootSeen {
		return false, s.errf("no root element")
	}
	if len(stack) != 0 {
		return false, s.errf("unclosed element <%s>", stack[len(stack)-1].name)
	}
	return false, nil
}

package xmlwf

import (
	"strings"
	"testing"
	"time"
)

// Check must stay linear in the nesting depth: the checks generate parts nested 100 000 deep.
func TestDeepNestingIsLinear(t *testing.T) {
	n := 200000
	doc := `<a xmlns:w="urn:w">` + strings.Repeat("<w:b>", n) + strings.Repeat("</w:b>", n) + `</a>`
	t0 := time.Now()
	if err := Check([]byte(doc)); err != nil {
		t.Fatal(err)
	}
	if d := time.Since(t0); d > 5*time.Second {
		t.Fatalf("Check took %v on %d nested elements", d, n)
	}
}

package xmlwf_test

// Second differential self-test of the oracle: the XML parts of real packages (written by the library under
// test from hostile strings, and by the independent foreign-package generator) and small mutations of them are
// judged by xmlwf.Check and by expat. This covers the vocabulary, sizes and namespace usage the checks see.

import (
	"encoding/json"
	"os"
	"os/exec"
	"strconv"
	"strings"
	"testing"

	"github.com/zerx-lab/wordZero/pkg/document"
	"pgregory.net/rapid"

	"wzverif/internal/foreign"
	"wzverif/internal/gen"
	"wzverif/internal/opc"
	"wzverif/internal/xmlwf"
)

const pyJudge2 = `
import json, sys
import xml.parsers.expat as e
docs = json.load(sys.stdin)
out = []
for d in docs:
    p = e.ParserCreate(namespace_separator='\x0c')
    try:
        p.Parse(d.encode('utf-8', 'surrogatepass'), True)
        out.append('')
    except e.ExpatError as x:
        out.append(str(x) or 'error')
    except Exception as x:
        out.append('py:' + str(x))
json.dump(out, sys.stdout)
`

func libraryParts(t *testing.T, seed int) [][]byte {
	document.SetGlobalLevel(document.LogLevelSilent)
	var out [][]byte
	texts := []string{"plain", "a<b&c>d \"q\" 'v'", "]]> --> <!-- <?x?>", "tab\there\nnl", "中文 é 😀", "\x01\x0b ctrl", "  lead trail  ", ""}
	for i := 0; i < 6; i++ {
		d := document.New()
		for j, s := range texts {
			p := d.AddParagraph(s + strconv.Itoa(seed+i))
			if j%2 == 0 {
				p.SetStyle("Heading1")
			}
			d.AddHeadingParagraph(s, 1+j%5)
		}
		d.AddHeader(document.HeaderFooterTypeDefault, texts[i%len(texts)])
		d.AddFooterWithPageNumber(document.HeaderFooterTypeDefault, texts[(i+1)%len(texts)], true)
		d.AddFootnote(texts[(i+2)%len(texts)], texts[(i+3)%len(texts)])
		d.AddEndnote("e", texts[(i+4)%len(texts)])
		if tb, err := d.AddTable(&document.TableConfig{Rows: 2, Cols: 2, Width: 5000, Data: [][]string{{texts[1], texts[2]}, {texts[3], texts[4]}}}); err == nil && tb != nil {
			tb.MergeCellsHorizontal(0, 0, 1)
		}
		d.AddListItem(texts[i%len(texts)], &document.ListConfig{Type: document.ListTypeDecimal, IndentLevel: 0})
		d.SetTitle(texts[1])
		d.SetAuthor(texts[2])
		d.GenerateTOC(document.DefaultTOCConfig())
		b, err := d.ToBytes()
		if err != nil {
			t.Fatalf("ToBytes: %v", err)
		}
		pk, err := opc.Read(b)
		if err != nil {
			t.Fatalf("opc.Read: %v", err)
		}
		for _, n := range pk.SortedNames() {
			if pk.IsXMLPart(n) {
				out = append(out, pk.Parts[n])
			}
		}
	}
	return out
}

func foreignParts(seed int) [][]byte {
	var out [][]byte
	g := rapid.Custom(func(t *rapid.T) foreign.Package { return foreign.Gen(t) })
	for i := 0; i < 25; i++ {
		p := g.Example(seed*7919 + i)
		for _, e := range p.PartList() {
			if strings.HasSuffix(e.Name, ".xml") || strings.HasSuffix(e.Name, ".rels") {
				out = append(out, e.Data)
			}
		}
	}
	return out
}

var hostile2 = []string{"<", ">", "&", "\"", "'", "]]>", "--", "\x01", "&nope;", "&#0;", " ", "=", "/", "<w:p>", "</w:p>", "xmlns:w=\"\"", "<?xml version=\"1.0\"?>", ":"}

func mutate(t *rapid.T, s string) string {
	r := []rune(s)
	if len(r) == 0 {
		return s
	}
	pos := rapid.IntRange(0, len(r)).Draw(t, "pos")
	switch rapid.IntRange(0, 3).Draw(t, "mut") {
	case 0:
		return string(r[:pos]) + rapid.SampledFrom(hostile2).Draw(t, "ins") + string(r[pos:])
	case 1:
		n := rapid.IntRange(1, 3).Draw(t, "n")
		if pos+n > len(r) {
			n = len(r) - pos
		}
		return string(r[:pos]) + string(r[pos+n:])
	case 2:
		return string(r[:pos])
	}
	n := rapid.IntRange(1, 20).Draw(t, "n")
	if pos+n > len(r) {
		n = len(r) - pos
	}
	return string(r[:pos+n]) + string(r[pos:])
}

func TestRealPartsAgainstExpat(t *testing.T) {
	py, err := exec.LookPath("python3")
	if err != nil {
		t.Skip("python3 not available")
	}
	seed := 1
	if v, err := strconv.Atoi(os.Getenv("VERIF_SEED")); err == nil && v > 0 {
		seed = v
	}
	_ = gen.Text
	parts := append(libraryParts(t, seed), foreignParts(seed)...)
	var docs []string
	for i, p := range parts {
		s := string(p)
		docs = append(docs, s)
		m := rapid.Custom(func(t *rapid.T) string { return mutate(t, s) })
		for k := 0; k < 12; k++ {
			docs = append(docs, m.Example(seed*104729+i*131+k))
		}
	}
	in, _ := json.Marshal(docs)
	cmd := exec.Command(py, "-c", pyJudge2)
	cmd.Stdin = strings.NewReader(string(in))
	out, err := cmd.Output()
	if err != nil {
		t.Skipf("python3 expat judge failed to run: %v", err)
	}
	var verdicts []string
	if err := json.Unmarshal(out, &verdicts); err != nil || len(verdicts) != len(docs) {
		t.Fatalf("bad judge output: %v", err)
	}
	wf, ill, bad := 0, 0, 0
	for i, d := range docs {
		ex := verdicts[i]
		if strings.HasPrefix(ex, "py:") {
			continue
		}
		goErr := xmlwf.Check([]byte(d))
		if ex == "" {
			wf++
		} else {
			ill++
		}
		if (ex == "") != (goErr == nil) {
			// the XML declaration differences documented in expat_test.go
			if strings.HasPrefix(d, "<?xml") && (strings.Contains(ex, "XML declaration") || (goErr != nil && (strings.Contains(goErr.Error(), "version") || strings.Contains(goErr.Error(), "encoding")))) {
				head := d
				if k := strings.Index(d, "?>"); k > 0 {
					head = d[:k]
				}
				if !strings.Contains(head, `version="1.0"`) || !strings.Contains(strings.ToUpper(head), `UTF-8`) {
					continue
				}
			}
			bad++
			if bad <= 8 {
				c := d
				if len(c) > 300 {
					c = c[:300] + "..."
				}
				t.Errorf("disagreement: expat=%q xmlwf=%v on %q", ex, goErr, c)
			}
		}
	}
	t.Logf("parts=%d texts=%d well-formed=%d ill-formed=%d disagreements=%d", len(parts), len(docs), wf, ill, bad)
	if wf < 50 || ill < 50 {
		t.Errorf("lopsided sample: well-formed=%d ill-formed=%d", wf, ill)
	}
}

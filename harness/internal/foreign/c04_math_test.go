package foreign

import (
	"bytes"
	"encoding/json"
	"strings"
	"testing"

	"pgregory.net/rapid"

	"wzverif/internal/canon"
	"wzverif/internal/opc"
	"wzverif/internal/xmlwf"
)

func countMathInlines(p Package) (formulas, omath int) {
	q := p
	q.Body = copyBlocks(p.Body, func(in Inline) Inline {
		if isMath(in.K) {
			formulas++
			omath++
			if in.K == "mathpara" && in.Name == "para2" {
				omath++
			}
		}
		return in
	})
	return
}

// Self-test of the formula extension: the package with formulas is still a well-formed, consistent package,
// the formulas are where the description says, and nothing else of the package changes.
func TestMathPackagesAreConsistent(t *testing.T) {
	feats := map[string]int{}
	n := 0
	rapid.Check(t, func(rt *rapid.T) {
		p := Gen(rt)
		if !bytes.Equal(p.BytesMath(), p.Bytes()) {
			rt.Fatalf("BytesMath differs from Bytes on a package without formulas")
		}
		plain := p.Text()
		AddMath(rt, &p)
		n++
		for _, f := range p.MathFeatures() {
			feats[f]++
		}
		fail := func(msg string) {
			js, _ := json.Marshal(p)
			rt.Fatalf("%s\n%s\n%s", msg, js, p.DocumentXMLMath())
		}
		if !p.HasMath() {
			// a body without any paragraph cannot happen: cells always end with one
			fail("AddMath placed no formula")
		}
		b := p.BytesMath()
		if !bytes.Equal(b, p.BytesMath()) {
			fail("BytesMath() is not deterministic")
		}
		js, _ := json.Marshal(p)
		var q Package
		if err := json.Unmarshal(js, &q); err != nil {
			fail("json: " + err.Error())
		}
		if !bytes.Equal(b, q.BytesMath()) {
			fail("JSON round trip changes the rendered bytes")
		}
		if p.Text() != plain {
			fail("formulas changed Texts()")
		}
		if msg := SelfCheck(p); msg != "" { // the description without its formulas is still a consistent package
			fail(msg)
		}
		pk, err := opc.Read(b)
		if err != nil || pk.CTErr != nil {
			fail("opc.Read failed")
		}
		ref, _ := opc.Read(p.Bytes())
		if len(pk.Parts) != len(ref.Parts) {
			fail("entry count differs")
		}
		for name, data := range ref.Parts {
			if name != MainPart && !bytes.Equal(pk.Parts[name], data) {
				fail("part " + name + " differs from the package without formulas")
			}
		}
		main := pk.Parts[MainPart]
		if err := xmlwf.Check(main); err != nil {
			fail("main part not well-formed: " + err.Error())
		}
		root, err := canon.Parse(main)
		if err != nil {
			fail("canon: " + err.Error())
		}
		body := root.Kid(NSW, "body")
		if body == nil {
			fail("no w:body")
		}
		var sb strings.Builder
		for _, tn := range body.All(NSW, "t") {
			sb.WriteString(tn.Text)
		}
		if sb.String() != plain {
			fail("w:t text of the main part with formulas differs: " + sb.String() + " vs " + plain)
		}
		_, wantO := countMathInlines(p)
		gotO := len(body.All(NSM, "oMath"))
		gotPara := len(body.All(NSM, "oMathPara"))
		if gotO != wantO {
			fail("m:oMath count differs from the description")
		}
		if (gotPara > 0) != p.hasFeature(FMathPara) {
			fail("m:oMathPara presence differs from the description")
		}
		// every element under a formula is in the math, wordprocessing or xml namespace: prefixes are bound
		bad := ""
		body.Walk(func(nd *canon.Node) bool {
			if nd.Space == NSM {
				nd.Walk(func(k *canon.Node) bool {
					if k.Space != NSM && k.Space != NSW {
						bad = "element " + k.Name() + " under a formula"
					}
					return true
				})
				return false
			}
			return true
		})
		if bad != "" {
			fail(bad)
		}
	})
	for _, f := range []string{FMath, FMathTextOne, FMathTextTwo, FMathOnly, FMathTop, FMathTopTextOne, FMathCell, FMathNested, FMathPara, FMathForeignPfx, FMathLocalDecl} {
		if feats[f] == 0 {
			t.Errorf("feature %s never generated in %d cases", f, n)
		}
	}
	t.Logf("%d cases, features: %v", n, feats)
}

func (p Package) hasFeature(f string) bool {
	for _, x := range p.MathFeatures() {
		if x == f {
			return true
		}
	}
	return false
}

package foreign

// Many media, and media numbered past one digit (added for property C04).
//
// The base generator gives a package at most a handful of media parts, numbered below ten (plus the single
// name image10.gif). Other producers write a picture-rich document as word/media/image1 ... image27, keep the
// numbers of pictures that were deleted (image3, image12, image40), or start counting at 0. AddNumberedMedia puts
// such a family of library-shaped names word/media/image<N>.<ext> into a generated package:
//
//	dense    image1..imageN   (N = 10..13, sometimes 17 / 33 / 65: counts past 10 / 16 / 32 / 64)
//	dense0   image0..imageN
//	pair     a few numbers around a change in the number of digits (9|10, 2|10, 99|100, 8|9|10, 1|10|100, 63|64 ...)
//	sparse   2-5 distinct numbers from 0..130
//
// all of one format or of mixed formats. Most of the parts are pictures of the main part (a relationship of the
// main part, some of them shown by a drawing in a new paragraph at the end of the body), some are related from
// nowhere. About one family in six lives in another directory (media/ at the package root, word/images/): related from the
// main part, not shown. Names the package already has (compared without case) are skipped. Nothing else of the package changes;
// the renderer and the accessors of foreign.go see ordinary media parts.

import (
	"fmt"
	"sort"
	"strings"

	"pgregory.net/rapid"

	"wzverif/internal/gen"
)

// NumberedMedia lists the media parts named word/media/image<N>.<ext> (N decimal, leading zeros allowed):
// number -> extension as written. Two names with the same number (image1.png, image1.jpeg) keep the last.
func (p Package) NumberedMedia() map[int]string {
	out := map[int]string{}
	for _, pt := range p.Parts {
		if pt.Kind != "media" || !strings.HasPrefix(pt.Name, "word/media/") {
			continue
		}
		if n, ext, ok := imageNumber(pt.Name[len("word/media/"):]); ok {
			out[n] = ext
		}
	}
	return out
}

// MediaCount is the number of media parts of the package.
func (p Package) MediaCount() int {
	n := 0
	for _, pt := range p.Parts {
		if pt.Kind == "media" {
			n++
		}
	}
	return n
}

var numberedPairs = [][]int{{9, 10}, {9, 10}, {2, 10}, {9, 11}, {8, 9, 10}, {9, 10, 11}, {5, 10, 15}, {10, 20}, {1, 10, 100}, {99, 100}, {19, 100}, {2, 100},
	{15, 16}, {16, 17}, {31, 32}, {63, 64}, {64, 65}, {127, 128}, {255, 256}, {999, 1000}, {0, 10}, {7, 12}}

// AddNumberedMedia adds a family of image<N>.<ext> media parts to the package and returns the numbers it added
// (ascending).
func AddNumberedMedia(t *rapid.T, p *Package) []int {
	var nums []int
	shape := rapid.SampledFrom([]string{"dense", "dense", "dense0", "pair", "pair", "pair", "sparse", "sparse"}).Draw(t, "nm-shape")
	switch shape {
	case "dense", "dense0":
		first := 1
		if shape == "dense0" {
			first = 0
		}
		last := rapid.SampledFrom([]int{10, 10, 10, 11, 11, 12, 13, 17, 33, 65}).Draw(t, "nm-last")
		for n := first; n <= last; n++ {
			nums = append(nums, n)
		}
	case "pair":
		nums = append(nums, rapid.SampledFrom(numberedPairs).Draw(t, "nm-pair")...)
	default:
		nums = rapid.SliceOfNDistinct(rapid.IntRange(0, 130), 2, 5, func(i int) int { return i }).Draw(t, "nm-sparse")
		sort.Ints(nums)
	}
	exts := []string{"png", "jpeg", "gif"}
	one := rapid.SampledFrom(exts).Draw(t, "nm-ext")
	mixed := rapid.IntRange(0, 4).Draw(t, "nm-mixed") < 2

	// where the family lives: word/media like nearly everybody, or a directory another producer chose (the package root's
	// media/ as the Open XML SDK does for shared media, word/images/); pictures outside word/media are related, not shown
	dir, rel := "word/media/", "media/"
	switch rapid.IntRange(0, 9).Draw(t, "nm-dir") {
	case 4:
		dir, rel = "media/", "../media/"
	case 7:
		dir, rel = "word/images/", "images/"
	}
	have := map[string]bool{}
	for _, pt := range p.Parts {
		have[strings.ToLower(pt.Name)] = true
	}
	taken := p.NumberedMedia()
	relIDs := map[string]bool{}
	maxRID := 0
	for _, r := range p.DocRels {
		relIDs[r.ID] = true
		if k, ok := ridShape(r.ID); ok && k > maxRID {
			maxRID = k
		}
	}
	drawID := 7000
	var added []int
	var shown []Block
	for _, n := range nums {
		ext := one
		if mixed {
			ext = rapid.SampledFrom(exts).Draw(t, "nm-ext-i")
		}
		base := fmt.Sprintf("image%d.%s", n, ext)
		name := dir + base
		if _, numbered := taken[n]; (numbered && dir == "word/media/") || have[name] {
			continue // the package has a picture of that number already
		}
		have[name] = true
		f, ct := "png", "image/png"
		switch ext {
		case "jpeg":
			f, ct = "jpeg", "image/jpeg"
		case "gif":
			f, ct = "gif", "image/gif"
		}
		im := gen.Img{Fmt: f, W: rapid.IntRange(1, 6).Draw(t, "nm-w"), H: rapid.IntRange(1, 6).Draw(t, "nm-h"), Pat: rapid.IntRange(0, 1<<20).Draw(t, "nm-pat"), Name: base}
		pt := Part{Name: name, Img: &im, Kind: "media"}
		declared := false
		for _, d := range p.Defaults {
			if strings.EqualFold(d.Ext, ext) {
				declared = true
				if d.CT != ct {
					pt.CT, pt.Override = ct, true
				}
			}
		}
		if !declared {
			p.Defaults = append(p.Defaults, Default{ext, ct})
		}
		p.Parts = append(p.Parts, pt)
		added = append(added, n)
		if rapid.IntRange(0, 5).Draw(t, "nm-unrelated") == 0 {
			continue // in the package, related from nowhere
		}
		maxRID++
		id := "rId" + itoa(maxRID)
		if p.IDStyle == "named" || p.IDStyle == "mixed" {
			id = "pic" + itoa(n)
		}
		for relIDs[id] {
			id += "x"
		}
		relIDs[id] = true
		p.DocRels = append(p.DocRels, Rel{ID: id, Type: RelImage, Target: rel + base})
		p.NoDocRels = false
		if dir == "word/media/" && rapid.IntRange(0, 2).Draw(t, "nm-shown") == 0 {
			drawID++
			shown = append(shown, Block{K: "p", Inlines: []Inline{{K: "r", Run: &Run{Pieces: []Piece{{K: "drawing", RelID: id, N: drawID}}}}}})
		}
	}
	p.Body = append(p.Body, shown...)
	return added
}

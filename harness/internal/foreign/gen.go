package foreign

import (
	"fmt"
	"strings"

	"pgregory.net/rapid"

	"wzverif/internal/gen"
)

// Opt restricts the generator.
type Opt struct {
	No        map[string]bool // feature flags (F* constants) that must not be generated
	MaxBlocks int             // body children (default 6)
	Classes   []string        // string classes for w:t text (default gen.Expressible)
}

// Gen draws a foreign package with every feature enabled.
func Gen(t *rapid.T) Package { return GenOpt(t, Opt{}) }

type g struct {
	t       *rapid.T
	o       Opt
	p       *Package
	extIDs  []string // ids of external hyperlink relationships of the main part
	imgIDs  []string // ids of image relationships of the main part
	hdrIDs  []string
	ftrIDs  []string
	styles  []string // style ids offered to pStyle
	hasNum  bool
	hasFn   bool
	annID   int
	drawID  int
	classes []string
}

func (x *g) no(f string) bool { return x.o.No[f] }

// pct is true in about n percent of the draws. rapid's integer ranges favour small values, so the
// decision is a pick from 20 slots in which the true slots are spread evenly (slot 0 is false: shrinks to "off").
func (x *g) pct(n int, label string) bool {
	return rapid.SampledFrom(pctSlots(n)).Draw(x.t, label)
}

var slotCache = map[int][]bool{}

func pctSlots(n int) []bool {
	if s, ok := slotCache[n]; ok {
		return s
	}
	s := make([]bool, 20)
	for i := range s {
		s[i] = (i+1)*n/100 > i*n/100
	}
	slotCache[n] = s
	return s
}
func (x *g) feat(f string, n int, label string) bool {
	if x.no(f) {
		return false
	}
	return x.pct(n, label)
}

var mediaNames = []string{"image1.png", "Image1.PNG", "picture.png", "image0", "image007.jpeg", "image2.jpeg", "image10.gif", "photo 1.jpg", "image1.jpg", "image3.png", "image0.png", "image1.jpeg", "image0.gif"}

type pendingRel struct {
	Rel
	use string // ext | img | hdr | ftr | styles | ""
}

// GenOpt draws a foreign package.
func GenOpt(t *rapid.T, o Opt) Package {
	p := Package{}
	x := &g{t: t, o: o, p: &p, classes: o.Classes}
	if x.classes == nil {
		x.classes = gen.Expressible
	}
	if o.MaxBlocks == 0 {
		o.MaxBlocks = 6
		x.o.MaxBlocks = 6
	}
	// --- namespaces and XML declaration
	wChoices := []string{"w", "w", "w", "w", "w"}
	if !x.no(FPrefixCustom) {
		wChoices = append(wChoices, "ns0", "wx")
	}
	if !x.no(FPrefixDefault) {
		wChoices = append(wChoices, "", "")
	}
	p.W = rapid.SampledFrom(wChoices).Draw(t, "wprefix")
	rChoices := []string{"r", "r", "r", "r"}
	if !x.no(FRPrefixCustom) {
		rChoices = append(rChoices, "rel", "ns1")
	}
	p.R = rapid.SampledFrom(rChoices).Draw(t, "rprefix")
	if x.feat(FRelsPrefixed, 20, "opcprefix") {
		p.OPCPrefix = rapid.SampledFrom([]string{"ns0", "pr"}).Draw(t, "opcprefixv")
	}
	p.Decl = rapid.SampledFrom([]string{stdDecl, stdDecl, `<?xml version="1.0" encoding="UTF-8"?>`, "<?xml version='1.0' encoding='utf-8'?>\n", ""}).Draw(t, "decl")
	p.ExtraNS = rapid.Bool().Draw(t, "extrans")
	p.Stored = x.feat(FStored, 15, "stored")
	p.CTLast = x.feat(FCTLast, 15, "ctlast")

	p.Defaults = []Default{{"rels", CTRels}, {"xml", CTXML}}
	p.PkgRels = []Rel{}
	var rels []pendingRel
	abs := func(target string) string { // word-relative target, sometimes written absolute
		if x.feat(FAbsTarget, 12, "abs") {
			return "/word/" + target
		}
		return target
	}
	addDefault := func(ext, ct string) {
		for _, d := range p.Defaults {
			if strings.EqualFold(d.Ext, ext) {
				return
			}
		}
		p.Defaults = append(p.Defaults, Default{ext, ct})
	}

	// --- styles
	if !x.feat(FStylesAbsent, 25, "nostyles") {
		name := "styles.xml"
		if x.feat(FStylesOddName, 8, "oddstyles") {
			name = rapid.SampledFrom([]string{"styles2.xml", "stylesWithEffects.xml"}).Draw(t, "stylesname")
		}
		v := rapid.IntRange(0, len(stylesVariants)-1).Draw(t, "stylesv")
		p.Parts = append(p.Parts, Part{Name: "word/" + name, CT: CTStyle, Override: true, XML: stdDecl + stylesVariants[v], Kind: "styles"})
		rels = append(rels, pendingRel{Rel{Type: RelStyles, Target: name}, "styles"})
		x.styles = []string{"Normal", "Heading1", "a1", "Title"}
	}
	simple := func(f string, pct int, kind, name, ct, xml, relType string) bool {
		if f != "" && x.no(f) {
			return false
		}
		if !x.pct(pct, "has-"+kind) {
			return false
		}
		p.Parts = append(p.Parts, Part{Name: "word/" + name, CT: ct, Override: true, XML: stdDecl + xml, Kind: kind})
		rels = append(rels, pendingRel{Rel{Type: relType, Target: abs(name)}, ""})
		return true
	}
	simple(FTheme, 45, "theme", "theme/theme1.xml", "application/vnd.openxmlformats-officedocument.theme+xml", themeXML, RelTheme)
	simple(FSettings, 55, "settings", "settings.xml", ctWML+"settings+xml", settingsXML, RelSettings)
	simple(FSettings, 25, "webSettings", "webSettings.xml", ctWML+"webSettings+xml", webSettingsXML, RelWebSetting)
	x.hasNum = simple(FNumbering, 35, "numbering", "numbering.xml", ctWML+"numbering+xml", numberingXML, RelNumbering)
	x.hasFn = simple(FNotes, 30, "footnotes", "footnotes.xml", ctWML+"footnotes+xml", footnotesXML, RelFootnotes)
	simple(FNotes, 15, "endnotes", "endnotes.xml", ctWML+"endnotes+xml", endnotesXML, RelEndnotes)
	simple("", 12, "comments", "comments.xml", ctWML+"comments+xml", commentsXML, RelComments)

	// fontTable, possibly with an embedded (binary) font and its own relationship part
	if x.pct(45, "has-fontTable") {
		ft := Part{Name: "word/fontTable.xml", CT: ctWML + "fontTable+xml", Override: true, XML: stdDecl + fontTableXML, Kind: "fontTable"}
		if x.feat(FBinary, 25, "has-font") {
			ft.Rels = []Rel{{ID: "rId1", Type: RelFont, Target: "fonts/font1.odttf"}}
			addDefault("odttf", "application/vnd.openxmlformats-officedocument.obfuscatedFont")
			p.Parts = append(p.Parts, ft, Part{Name: "word/fonts/font1.odttf", Raw: rawBytes(t, "font"), Kind: "binary"})
		} else {
			p.Parts = append(p.Parts, ft)
		}
		rels = append(rels, pendingRel{Rel{Type: RelFontTable, Target: abs("fontTable.xml")}, ""})
	}
	if x.feat(FBinary, 12, "has-ole") {
		addDefault("bin", "application/vnd.openxmlformats-officedocument.oleObject")
		p.Parts = append(p.Parts, Part{Name: "word/embeddings/oleObject1.bin", Raw: rawBytes(t, "ole"), Kind: "binary"})
		rels = append(rels, pendingRel{Rel{Type: RelOLE, Target: "embeddings/oleObject1.bin"}, ""})
	}

	// --- customXml item with its own relationship part
	if x.feat(FCustomXML, 35, "has-customxml") {
		p.Parts = append(p.Parts,
			Part{Name: "customXml/item1.xml", XML: `<?xml version="1.0" encoding="utf-8"?><root xmlns="urn:example:data"><v a="1">données &amp; 数据</v></root>`, Kind: "customXml",
				Rels: []Rel{{ID: "rId1", Type: RelCustomProp, Target: "itemProps1.xml"}}},
			Part{Name: "customXml/itemProps1.xml", CT: "application/vnd.openxmlformats-officedocument.customXmlProperties+xml", Override: true, Kind: "customXmlProps",
				XML: stdDecl + `<ds:datastoreItem ds:itemID="{6B3F3C6A-0000-4000-8000-000000000001}" xmlns:ds="http://schemas.openxmlformats.org/officeDocument/2006/customXml"><ds:schemaRefs/></ds:datastoreItem>`})
		rels = append(rels, pendingRel{Rel{Type: RelCustomXML, Target: "../customXml/item1.xml"}, ""})
	}

	// --- media of the main part
	usedMedia := map[string]bool{}
	var freeMedia []string // media entry names that header/footer parts may share
	// library-numbered mode: the media are named image1..imageK like the library's own, the main part owns the
	// low numbers and other parts (header/footer, notes, comments) or nobody own the highest ones
	libNum := !x.no(FMedia) && !x.no(FMediaOtherHighest) && x.pct(35, "libnum")
	nextNum := 1
	libExt := func() string { return rapid.SampledFrom([]string{"png", "jpeg", "gif", "png"}).Draw(t, "libext") }
	if libNum {
		nm := rapid.SampledFrom([]int{0, 1, 1, 2}).Draw(t, "nlibmedia")
		for i := 0; i < nm; i++ {
			name := fmt.Sprintf("image%d.%s", nextNum, libExt())
			nextNum++
			usedMedia[name] = true
			pt := x.mediaPart("word/media/"+name, addDefault)
			p.Parts = append(p.Parts, pt)
			freeMedia = append(freeMedia, pt.Name)
			rels = append(rels, pendingRel{Rel{Type: RelImage, Target: abs("media/" + name)}, "img"})
		}
	}
	if !x.no(FMedia) && !libNum {
		nm := rapid.SampledFrom([]int{0, 0, 1, 1, 2, 3}).Draw(t, "nmedia")
		for i := 0; i < nm; i++ {
			name := rapid.SampledFrom(mediaNames).Draw(t, "medianame")
			if x.no(FMediaOddName) {
				name = rapid.SampledFrom([]string{"image1.png", "image2.jpeg", "image10.gif", "image3.png"}).Draw(t, "medianame2")
			}
			if usedMedia[strings.ToLower(name)] {
				continue
			}
			usedMedia[strings.ToLower(name)] = true
			pt := x.mediaPart("word/media/"+name, addDefault)
			p.Parts = append(p.Parts, pt)
			freeMedia = append(freeMedia, pt.Name)
			rels = append(rels, pendingRel{Rel{Type: RelImage, Target: abs("media/" + name)}, "img"})
		}
	}

	// --- header / footer parts, some with their own relationship part
	if x.feat(FHeaderFooter, 45, "has-hf") {
		n := rapid.IntRange(1, 3).Draw(t, "nhf")
		for i := 1; i <= n; i++ {
			footer := rapid.Bool().Draw(t, "isfooter")
			kind, ct, relT, root := "header", ctWML+"header+xml", RelHeader, "hdr"
			if footer {
				kind, ct, relT, root = "footer", ctWML+"footer+xml", RelFooter, "ftr"
			}
			name := fmt.Sprintf("%s%d.xml", kind, i)
			pt := Part{Name: "word/" + name, CT: ct, Override: true, Kind: kind}
			inner := `<w:p><w:r><w:t>` + Esc(kind) + ` text ` + itoa(i) + `</w:t></w:r></w:p>`
			if x.feat(FHFRels, 50, "hf-rels") {
				switch rapid.IntRange(0, 2).Draw(t, "hf-relkind") {
				case 0: // external hyperlink from the header
					if !x.no(FExtRelOther) {
						pt.Rels = []Rel{{ID: "rId1", Type: RelHyperlink, Target: "https://example.org/h?a=1&b=2", Mode: "External"}}
						inner = `<w:p><w:hyperlink r:id="rId1"><w:r><w:t>link in ` + kind + `</w:t></w:r></w:hyperlink></w:p>`
					}
				case 1: // own image
					mname := fmt.Sprintf("word/media/hf%d.png", i)
					if !x.no(FMedia) {
						mp := x.mediaPart(mname, addDefault)
						p.Parts = append(p.Parts, mp)
						pt.Rels = []Rel{{ID: "rId7", Type: RelImage, Target: "media/" + fmt.Sprintf("hf%d.png", i)}}
						inner = hfPicture("rId7")
					}
				case 2: // image shared with the main part
					if len(freeMedia) > 0 {
						m := freeMedia[0]
						pt.Rels = []Rel{{ID: "imgA", Type: RelImage, Target: strings.TrimPrefix(m, "word/")}}
						inner = hfPicture("imgA")
					}
				}
			}
			pt.XML = stdDecl + `<w:` + root + ` xmlns:w="` + NSW + `" xmlns:r="` + NSR + `">` + inner + `</w:` + root + `>`
			p.Parts = append(p.Parts, pt)
			use := "hdr"
			if footer {
				use = "ftr"
			}
			rels = append(rels, pendingRel{Rel{Type: relT, Target: abs(name)}, use})
		}
	}

	// --- library-numbered mode: the highest image numbers belong to other parts, or to nobody
	if libNum {
		n := rapid.IntRange(1, 2).Draw(t, "nothermedia")
		for i := 0; i < n; i++ {
			if rapid.IntRange(0, 3).Draw(t, "numgap") == 0 {
				nextNum++ // a gap in the numbering
			}
			var owners []int
			for j, pt := range p.Parts {
				switch pt.Kind {
				case "header", "footer", "footnotes", "endnotes", "comments":
					if len(pt.Rels) == 0 {
						owners = append(owners, j)
					}
				}
			}
			owners = append(owners, -1) // -1: in the package, related from nowhere
			o := rapid.SampledFrom(owners).Draw(t, "mediaowner")
			name := fmt.Sprintf("image%d.%s", nextNum, libExt())
			nextNum++
			mp := x.mediaPart("word/media/"+name, addDefault)
			if o >= 0 {
				p.Parts[o].Rels = []Rel{{ID: rapid.SampledFrom([]string{"rId1", "rId5", "img1"}).Draw(t, "ownerrid"), Type: RelImage, Target: "media/" + name}}
			}
			p.Parts = append(p.Parts, mp)
		}
	}

	// --- external hyperlinks of the main part
	if !x.no(FExtRel) {
		n := rapid.SampledFrom([]int{0, 0, 1, 1, 2, 3}).Draw(t, "nlinks")
		for i := 0; i < n; i++ {
			tgt := rapid.SampledFrom([]string{"https://example.com/", "http://example.org/a%20b?x=1&y=2#frag", "mailto:someone@example.com", "file:///C:/Users/x/doc.docx", "https://例え.jp/パス", "../other.docx"}).Draw(t, "linktarget")
			rels = append(rels, pendingRel{Rel{Type: RelHyperlink, Target: tgt, Mode: "External"}, "ext"})
		}
	}

	// --- docProps (package-level relationships)
	pkg := []Rel{{Type: RelOfficeDoc, Target: "word/document.xml"}}
	if x.feat(FDocProps, 55, "has-docprops") {
		p.Parts = append(p.Parts,
			Part{Name: "docProps/core.xml", CT: "application/vnd.openxmlformats-package.core-properties+xml", Override: true, XML: stdDecl + corePropsXML, Kind: "core"},
			Part{Name: "docProps/app.xml", CT: "application/vnd.openxmlformats-officedocument.extended-properties+xml", Override: true, XML: stdDecl + appPropsXML, Kind: "app"})
		pkg = append(pkg, Rel{Type: RelCoreProps, Target: "docProps/core.xml"}, Rel{Type: RelExtProps, Target: "docProps/app.xml"})
	}
	if x.feat(FAbsTarget, 10, "pkgabs") {
		pkg[0].Target = "/word/document.xml"
	}
	if x.feat(FUnknownDef, 35, "unknown-defaults") {
		for _, e := range rapid.SliceOfNDistinct(rapid.SampledFrom([]Default{{"emf", "image/x-emf"}, {"wmf", "image/x-wmf"}, {"vml", "application/vnd.openxmlformats-officedocument.vmlDrawing"},
			{"jpg", "image/jpeg"}, {"tiff", "image/tiff"}, {"bin", "application/vnd.openxmlformats-officedocument.oleObject"}, {"xlsx", "application/vnd.openxmlformats-officedocument.spreadsheetml.sheet"}}), 1, 3,
			func(d Default) string { return d.Ext }).Draw(t, "unknowndefs") {
			addDefault(e.Ext, e.CT)
		}
	}

	// --- order and ids
	idStyles := []string{"dense", "dense"}
	if !x.no(FIDsGapped) {
		idStyles = append(idStyles, "gapped", "gapped")
	}
	if !x.no(FIDsNamed) {
		idStyles = append(idStyles, "named")
		if !x.no(FIDsGapped) {
			idStyles = append(idStyles, "mixed")
		}
	}
	p.IDStyle = rapid.SampledFrom(idStyles).Draw(t, "idstyle")
	// permute the relationships of the main part (styles first in half of the cases, as Word does)
	stylesFirst := x.no(FStylesNotRID1) || rapid.Bool().Draw(t, "stylesfirst")
	rels = x.permute(rels, stylesFirst)
	ids := x.ids(len(rels), p.IDStyle, "doc")
	if x.no(FRID1Other) {
		// rId1 may only name the styles part
		for i := range rels {
			if ids[i] == "rId1" && rels[i].use != "styles" {
				ids[i] = "rId" + itoa(900+i)
			}
		}
	}
	for i := range rels {
		rels[i].ID = ids[i]
		p.DocRels = append(p.DocRels, rels[i].Rel)
		switch rels[i].use {
		case "ext":
			x.extIDs = append(x.extIDs, ids[i])
		case "img":
			x.imgIDs = append(x.imgIDs, ids[i])
		case "hdr":
			x.hdrIDs = append(x.hdrIDs, ids[i])
		case "ftr":
			x.ftrIDs = append(x.ftrIDs, ids[i])
		}
	}
	pids := x.ids(len(pkg), rapid.SampledFrom([]string{"dense", "dense", p.IDStyle}).Draw(t, "pkgidstyle"), "pkg")
	for i := range pkg {
		pkg[i].ID = pids[i]
	}
	if len(pkg) > 1 && rapid.Bool().Draw(t, "pkgrev") {
		pkg[0], pkg[len(pkg)-1] = pkg[len(pkg)-1], pkg[0]
	}
	p.PkgRels = pkg
	if len(p.DocRels) == 0 && rapid.Bool().Draw(t, "nodocrels") {
		p.NoDocRels = true
	}

	// --- body
	nb := rapid.IntRange(1, x.o.MaxBlocks).Draw(t, "nblocks")
	for i := 0; i < nb; i++ {
		p.Body = append(p.Body, x.block(0, true))
	}
	if x.feat(FBodySectPr, 80, "bodysect") {
		p.Sect = x.sect(true)
	}
	// shuffle the extra parts a little: zip order is not significant
	if len(p.Parts) > 1 && rapid.Bool().Draw(t, "revparts") {
		for i, j := 0, len(p.Parts)-1; i < j; i, j = i+1, j-1 {
			p.Parts[i], p.Parts[j] = p.Parts[j], p.Parts[i]
		}
	}
	return p
}

func rawBytes(t *rapid.T, label string) []byte {
	n := rapid.IntRange(1, 40).Draw(t, label+"len")
	seed := rapid.IntRange(0, 1<<16).Draw(t, label+"seed")
	b := make([]byte, n)
	v := uint32(seed)*2654435761 + 12345
	for i := range b {
		v = v*1664525 + 1013904223
		b[i] = byte(v >> 24)
	}
	return b
}

func (x *g) mediaPart(name string, addDefault func(ext, ct string)) Part {
	base := name[strings.LastIndex(name, "/")+1:]
	ext := ""
	if i := strings.LastIndex(base, "."); i >= 0 {
		ext = base[i+1:]
	}
	f, ct := "png", "image/png"
	switch strings.ToLower(ext) {
	case "jpeg", "jpg":
		f, ct = "jpeg", "image/jpeg"
	case "gif":
		f, ct = "gif", "image/gif"
	}
	im := gen.Img{Fmt: f, W: rapid.IntRange(1, 6).Draw(x.t, "mw"), H: rapid.IntRange(1, 6).Draw(x.t, "mh"), Pat: rapid.IntRange(0, 1<<20).Draw(x.t, "mpat"), Name: base}
	pt := Part{Name: name, Img: &im, Kind: "media"}
	if ext == "" {
		pt.CT, pt.Override = ct, true
	} else if rapid.IntRange(0, 5).Draw(x.t, "mediaoverride") == 0 {
		pt.CT, pt.Override = ct, true
	} else {
		// a producer declares the extension as it spells it
		if rapid.Bool().Draw(x.t, "extlower") {
			addDefault(strings.ToLower(ext), ct)
		} else {
			addDefault(ext, ct)
		}
	}
	return pt
}

func hfPicture(rid string) string {
	return `<w:p><w:r><w:drawing><wp:inline xmlns:wp="` + NSWP + `"><wp:extent cx="100" cy="100"/><wp:docPr id="9" name="hfpic"/><a:graphic xmlns:a="` + NSA +
		`"><a:graphicData uri="` + NSPic + `"><pic:pic xmlns:pic="` + NSPic + `"><pic:nvPicPr><pic:cNvPr id="9" name="x"/><pic:cNvPicPr/></pic:nvPicPr><pic:blipFill><a:blip r:embed="` + rid +
		`"/></pic:blipFill><pic:spPr/></pic:pic></a:graphicData></a:graphic></wp:inline></w:drawing></w:r></w:p>`
}

func (x *g) permute(rels []pendingRel, stylesFirst bool) []pendingRel {
	out := make([]pendingRel, 0, len(rels))
	rest := append([]pendingRel(nil), rels...)
	if stylesFirst {
		for i, r := range rest {
			if r.use == "styles" {
				out = append(out, r)
				rest = append(rest[:i], rest[i+1:]...)
				break
			}
		}
	}
	for len(rest) > 0 {
		i := 0
		if len(rest) > 1 {
			i = rapid.IntRange(0, len(rest)-1).Draw(x.t, "perm")
		}
		out = append(out, rest[i])
		rest = append(rest[:i], rest[i+1:]...)
	}
	return out
}

var namedShapes = []string{"R%x", "rel%d", "Id%d", "rId0%d", "hl_%d", "R6f2a%04x", "id-%d", "rid%d", "RID%d", "_rId%d", "rId%da"}

func (x *g) ids(n int, style, label string) []string {
	out := make([]string, n)
	seen := map[string]bool{}
	cur := 0
	if style == "gapped" || style == "mixed" {
		cur = rapid.IntRange(0, 8).Draw(x.t, label+"-start")
	}
	for i := 0; i < n; i++ {
		s := style
		if s == "mixed" {
			s = rapid.SampledFrom([]string{"gapped", "named"}).Draw(x.t, label+"-mix")
		}
		var id string
		switch s {
		case "dense":
			cur++
			id = "rId" + itoa(cur)
		case "gapped":
			cur += rapid.IntRange(1, 5).Draw(x.t, label+"-gap")
			id = "rId" + itoa(cur)
		default:
			id = fmt.Sprintf(rapid.SampledFrom(namedShapes).Draw(x.t, label+"-shape"), rapid.IntRange(1, 40).Draw(x.t, label+"-n"))
		}
		for seen[id] {
			id += "x"
		}
		seen[id] = true
		out[i] = id
	}
	return out
}

func (x *g) text(label string) string {
	for i := 0; i < 4; i++ {
		s, _ := gen.Text(x.t, label, x.classes...)
		if gen.XMLExpressible(s) {
			return s
		}
	}
	return "t"
}

func (x *g) sect(body bool) *Sect {
	s := &Sect{}
	switch rapid.IntRange(0, 3).Draw(x.t, "pgsz") {
	case 0:
		s.W, s.H = 11906, 16838
	case 1:
		s.W, s.H = 12240, 15840
	case 2:
		s.W, s.H, s.Landscape = 16838, 11906, true
	case 3:
		s.W, s.H = 9000+rapid.IntRange(0, 3000).Draw(x.t, "pgw"), 12000+rapid.IntRange(0, 3000).Draw(x.t, "pgh")
	}
	s.Margin = rapid.SampledFrom([]int{1440, 720, 1134, 1800}).Draw(x.t, "margin")
	if !body {
		s.Type = rapid.SampledFrom([]string{"", "nextPage", "continuous"}).Draw(x.t, "secttype")
	}
	if rapid.IntRange(0, 4).Draw(x.t, "cols") == 0 {
		s.Cols = 2
	}
	used := map[string]bool{}
	add := func(ids []string, footer bool) {
		for _, id := range ids {
			if !rapid.Bool().Draw(x.t, "useref") {
				continue
			}
			ty := rapid.SampledFrom([]string{"default", "first", "even"}).Draw(x.t, "reftype")
			k := fmt.Sprint(footer, ty)
			if used[k] {
				continue
			}
			used[k] = true
			s.HeaderRefs = append(s.HeaderRefs, HRef{Footer: footer, Type: ty, RelID: id})
			if ty == "first" {
				s.TitlePg = true
			}
		}
	}
	add(x.hdrIDs, false)
	add(x.ftrIDs, true)
	return s
}

func (x *g) run(allowDrawing bool) *Run {
	r := &Run{Bold: x.pct(20, "bold"), Italic: x.pct(15, "italic")}
	if len(x.styles) > 0 && x.pct(10, "rstyle") {
		r.RStyle = "a1"
	}
	if x.pct(10, "lang") {
		r.Lang = rapid.SampledFrom([]string{"en-US", "fr-FR", "zh-CN"}).Draw(x.t, "langv")
	}
	n := rapid.SampledFrom([]int{1, 1, 1, 1, 2, 2, 3, 4, 0}).Draw(x.t, "npieces")
	for i := 0; i < n; i++ {
		k := rapid.SampledFrom([]string{"t", "t", "t", "t", "t", "t", "tab", "br", "cr", "nbh", "lrpb", "sym", "drawing", "fnref"}).Draw(x.t, "piece")
		switch k {
		case "t":
			if x.no(FMultiT) {
				has := false
				for _, pc := range r.Pieces {
					if pc.K == "t" {
						has = true
					}
				}
				if has {
					continue
				}
			}
			r.Pieces = append(r.Pieces, Piece{K: "t", Text: x.text("text")})
		case "tab", "br", "cr":
			if !x.no(FTabBr) {
				r.Pieces = append(r.Pieces, Piece{K: k})
			}
		case "drawing":
			if allowDrawing && len(x.imgIDs) > 0 && !x.no(FPicture) {
				x.drawID++
				r.Pieces = append(r.Pieces, Piece{K: "drawing", RelID: rapid.SampledFrom(x.imgIDs).Draw(x.t, "blip"), N: x.drawID})
			}
		case "fnref":
			if x.hasFn {
				r.Pieces = append(r.Pieces, Piece{K: "fnref", N: 2})
			}
		default:
			r.Pieces = append(r.Pieces, Piece{K: k})
		}
	}
	return r
}

var containerFlags = map[string]string{"hyperlink": FHyperlink, "smartTag": FSmartTag, "ins": FIns, "sdt": FInlineSdt, "fld": FFldSimple, "del": FDel}

func (x *g) inline(depth int, inDel bool) Inline {
	k := rapid.SampledFrom([]string{"r", "r", "r", "r", "r", "r", "c", "c", "c", "bm", "proof"}).Draw(x.t, "inline")
	if k == "c" && depth < 2 {
		kinds := []string{}
		for _, c := range []string{"hyperlink", "hyperlink", "smartTag", "ins", "ins", "sdt", "sdt", "fld", "del"} {
			if x.no(containerFlags[c]) || (depth > 0 && x.no(FDeepNest)) {
				continue
			}
			kinds = append(kinds, c)
		}
		if len(kinds) > 0 {
			c := rapid.SampledFrom(kinds).Draw(x.t, "container")
			x.annID++
			in := Inline{K: c, N: x.annID}
			switch c {
			case "hyperlink":
				if len(x.extIDs) > 0 && rapid.IntRange(0, 3).Draw(x.t, "anchor") > 0 {
					in.RelID = rapid.SampledFrom(x.extIDs).Draw(x.t, "hl")
				} else {
					in.Name = "bm_target"
				}
			case "sdt":
				in.Name = rapid.SampledFrom([]string{"Title", "客户", "a&b"}).Draw(x.t, "alias")
			case "fld":
				in.Name = rapid.SampledFrom([]string{"DATE", "PAGE", "AUTHOR \\* Upper"}).Draw(x.t, "instr")
			}
			nk := rapid.IntRange(1, 2).Draw(x.t, "nkids")
			for i := 0; i < nk; i++ {
				in.Kids = append(in.Kids, x.inline(depth+1, inDel || c == "del"))
			}
			return in
		}
		k = "r"
	}
	switch k {
	case "bm":
		x.annID++
		return Inline{K: "bm", N: x.annID, Name: "bm_" + itoa(x.annID)}
	case "proof":
		return Inline{K: "proof"}
	}
	return Inline{K: "r", Run: x.run(!inDel)}
}

func (x *g) para(top bool) Block {
	b := Block{K: "p"}
	if len(x.styles) > 0 && x.pct(30, "pstyle") {
		b.PStyle = rapid.SampledFrom(x.styles).Draw(x.t, "pstylev")
	}
	if x.pct(15, "jc") {
		b.Jc = rapid.SampledFrom([]string{"center", "right", "both"}).Draw(x.t, "jcv")
	}
	if x.hasNum && x.pct(15, "num") {
		b.NumID = 1
	}
	if top && x.feat(FParaSectPr, 12, "parasect") {
		b.Sect = x.sect(false)
	}
	n := rapid.SampledFrom([]int{1, 1, 2, 2, 3, 4, 0}).Draw(x.t, "ninl")
	for i := 0; i < n; i++ {
		b.Inlines = append(b.Inlines, x.inline(0, false))
	}
	return b
}

func (x *g) table(tdepth int) Block {
	rows := rapid.IntRange(1, 2).Draw(x.t, "rows")
	cols := rapid.IntRange(1, 3).Draw(x.t, "cols")
	b := Block{K: "tbl"}
	for c := 0; c < cols; c++ {
		b.Widths = append(b.Widths, 1500+c*100)
	}
	for r := 0; r < rows; r++ {
		var row []Cell
		for c := 0; c < cols; c++ {
			cell := Cell{}
			if tdepth < 1 && x.feat(FNestedTable, 20, "nested") {
				if rapid.Bool().Draw(x.t, "para-before-nested") {
					cell.Blocks = append(cell.Blocks, x.para(false))
				}
				cell.Blocks = append(cell.Blocks, x.table(tdepth+1))
			}
			// a cell always ends with a paragraph
			cell.Blocks = append(cell.Blocks, x.para(false))
			row = append(row, cell)
		}
		b.Rows = append(b.Rows, row)
	}
	return b
}

func (x *g) block(tdepth int, top bool) Block {
	k := rapid.SampledFrom([]string{"p", "p", "p", "p", "p", "p", "p", "tbl", "tbl", "sdt"}).Draw(x.t, "block")
	switch {
	case k == "tbl" && !x.no(FTable):
		return x.table(tdepth)
	case k == "sdt" && !x.no(FBlockSdt) && top:
		b := Block{K: "sdt", Name: "block control"}
		n := rapid.IntRange(1, 2).Draw(x.t, "sdtblocks")
		for i := 0; i < n; i++ {
			b.Blocks = append(b.Blocks, x.para(false))
		}
		return b
	}
	return x.para(top)
}

// ---------------------------------------------------------------------------------------------
// fixed payloads of the extra parts (what Word / LibreOffice / python-docx style producers write)

var stylesVariants = []string{
	`<w:styles xmlns:w="` + NSW + `"><w:docDefaults><w:rPrDefault><w:rPr><w:rFonts w:ascii="Calibri" w:hAnsi="Calibri"/><w:sz w:val="22"/></w:rPr></w:rPrDefault><w:pPrDefault><w:pPr><w:spacing w:after="160" w:line="259" w:lineRule="auto"/></w:pPr></w:pPrDefault></w:docDefaults>` +
		`<w:latentStyles w:defLockedState="0" w:count="2"><w:lsdException w:name="Normal" w:uiPriority="0"/></w:latentStyles>` +
		`<w:style w:type="paragraph" w:default="1" w:styleId="Normal"><w:name w:val="Normal"/><w:qFormat/></w:style>` +
		`<w:style w:type="paragraph" w:styleId="Heading1"><w:name w:val="heading 1"/><w:basedOn w:val="Normal"/><w:pPr><w:keepNext/><w:outlineLvl w:val="0"/></w:pPr><w:rPr><w:b/><w:sz w:val="32"/></w:rPr></w:style>` +
		`<w:style w:type="paragraph" w:styleId="Title"><w:name w:val="Title"/><w:basedOn w:val="Normal"/></w:style>` +
		`<w:style w:type="character" w:customStyle="1" w:styleId="a1"><w:name w:val="强调 &amp; emphasis"/><w:rPr><w:i/></w:rPr></w:style></w:styles>`,
	`<ns0:styles xmlns:ns0="` + NSW + `"><ns0:style ns0:type="paragraph" ns0:default="1" ns0:styleId="Normal"><ns0:name ns0:val="Normal"/></ns0:style>` +
		`<ns0:style ns0:type="paragraph" ns0:styleId="Heading1"><ns0:name ns0:val="heading 1"/></ns0:style><ns0:style ns0:type="paragraph" ns0:styleId="Title"><ns0:name ns0:val="Title"/></ns0:style>` +
		`<ns0:style ns0:type="character" ns0:styleId="a1"><ns0:name ns0:val="a1"/></ns0:style></ns0:styles>`,
	`<w:styles xmlns:w="` + NSW + `"/>`,
}

const themeXML = `<a:theme xmlns:a="` + NSA + `" name="Office Theme"><a:themeElements><a:clrScheme name="Office"><a:dk1><a:sysClr val="windowText" lastClr="000000"/></a:dk1><a:lt1><a:sysClr val="window" lastClr="FFFFFF"/></a:lt1></a:clrScheme>` +
	`<a:fontScheme name="Office"><a:majorFont><a:latin typeface="Calibri Light"/><a:ea typeface=""/><a:cs typeface=""/><a:font script="Hans" typeface="等线 Light"/></a:majorFont></a:fontScheme></a:themeElements></a:theme>`
const settingsXML = `<w:settings xmlns:w="` + NSW + `"><w:zoom w:percent="120"/><w:defaultTabStop w:val="708"/><w:characterSpacingControl w:val="doNotCompress"/><w:compat><w:compatSetting w:name="compatibilityMode" w:uri="http://schemas.microsoft.com/office/word" w:val="15"/></w:compat><w:rsids><w:rsidRoot w:val="00A1B2C3"/></w:rsids></w:settings>`
const webSettingsXML = `<w:webSettings xmlns:w="` + NSW + `"><w:optimizeForBrowser/><w:allowPNG/></w:webSettings>`
const numberingXML = `<w:numbering xmlns:w="` + NSW + `"><w:abstractNum w:abstractNumId="0"><w:multiLevelType w:val="hybridMultilevel"/><w:lvl w:ilvl="0"><w:start w:val="3"/><w:numFmt w:val="upperRoman"/><w:lvlText w:val="%1)"/><w:lvlJc w:val="left"/></w:lvl></w:abstractNum><w:num w:numId="1"><w:abstractNumId w:val="0"/></w:num></w:numbering>`
const footnotesXML = `<w:footnotes xmlns:w="` + NSW + `"><w:footnote w:type="separator" w:id="-1"><w:p><w:r><w:separator/></w:r></w:p></w:footnote><w:footnote w:type="continuationSeparator" w:id="0"><w:p><w:r><w:continuationSeparator/></w:r></w:p></w:footnote><w:footnote w:id="2"><w:p><w:r><w:footnoteRef/></w:r><w:r><w:t xml:space="preserve"> foreign note text</w:t></w:r></w:p></w:footnote></w:footnotes>`
const endnotesXML = `<w:endnotes xmlns:w="` + NSW + `"><w:endnote w:type="separator" w:id="-1"><w:p><w:r><w:separator/></w:r></w:p></w:endnote><w:endnote w:id="2"><w:p><w:r><w:t>foreign endnote</w:t></w:r></w:p></w:endnote></w:endnotes>`
const commentsXML = `<w:comments xmlns:w="` + NSW + `"><w:comment w:id="0" w:author="Rev &lt;1&gt;" w:date="2020-05-05T10:00:00Z" w:initials="R"><w:p><w:r><w:t>a comment</w:t></w:r></w:p></w:comment></w:comments>`
const fontTableXML = `<w:fonts xmlns:w="` + NSW + `" xmlns:r="` + NSR + `"><w:font w:name="Calibri"><w:panose1 w:val="020F0502020204030204"/><w:charset w:val="00"/><w:family w:val="swiss"/><w:pitch w:val="variable"/></w:font><w:font w:name="宋体"><w:altName w:val="SimSun"/><w:charset w:val="86"/></w:font></w:fonts>`
const corePropsXML = `<cp:coreProperties xmlns:cp="http://schemas.openxmlformats.org/package/2006/metadata/core-properties" xmlns:dc="http://purl.org/dc/elements/1.1/" xmlns:dcterms="http://purl.org/dc/terms/" xmlns:xsi="http://www.w3.org/2001/XMLSchema-instance"><dc:title>Foreign title</dc:title><dc:creator>Someone Else</dc:creator><cp:lastModifiedBy>Someone Else</cp:lastModifiedBy><cp:revision>7</cp:revision><dcterms:created xsi:type="dcterms:W3CDTF">2019-01-02T03:04:05Z</dcterms:created></cp:coreProperties>`
const appPropsXML = `<Properties xmlns="http://schemas.openxmlformats.org/officeDocument/2006/extended-properties" xmlns:vt="http://schemas.openxmlformats.org/officeDocument/2006/docPropsVTypes"><Template>Normal.dotm</Template><TotalTime>3</TotalTime><Pages>1</Pages><Words>12</Words><Application>Other Producer</Application><AppVersion>16.0000</AppVersion></Properties>`

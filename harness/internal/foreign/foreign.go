// Package foreign generates well-formed WordprocessingML (.docx) packages the way producers
// other than wordZero emit them. It is an independent mini writer: string templates and
// archive/zip only - nothing of pkg/document is used, so the result can serve as oracle input.
//
// API
//
//	p := foreign.Gen(t)                  // draw a package description (plain JSON-serialisable data)
//	p := foreign.GenOpt(t, foreign.Opt{No: map[string]bool{foreign.FBlockSdt: true}}) // same, some features switched off
//	b := p.Bytes()                       // render it: deterministic zip bytes (same Package => same bytes)
//	p.PartList()                         // every zip entry that Bytes() writes: name, content type, bytes (zip order)
//	p.RelParts()                         // relationship part name -> relationships (Id, Type, Target, Mode) as written
//	p.MediaParts()                       // media parts: name, bytes, referring source part, relationship id
//	p.Texts() / p.Text()                 // text of every w:t under w:body in document order, with its nesting path
//	p.Features()                         // sorted feature flags (F* constants) present in this package
//	p.Has(foreign.FExtRel)               // one feature
//	p.LibraryImageSlots()                // image<N> numbers held by parts other than the main part (see FMediaOtherHighest)
//	foreign.Minimal()                    // the smallest package (one paragraph), a base for hand-written cases
//
// A Package is a description, not bytes: the body is a tree of Block/Inline/Run values, extra parts
// carry their XML as strings (images as gen.Img recipes), relationships and content-type defaults are
// explicit lists. Hand-written regression cases can therefore be built as Go literals or JSON.
//
// What is varied (DESIGN.md 2.4 "Foreign packages"): namespace prefix of the main part (w:, ns0:, wx:,
// default namespace), prefix of the relationships namespace, prefixed/unprefixed relationship and
// content-type parts, extra parts (theme, fontTable, settings, webSettings, numbering, footnotes,
// endnotes, comments, docProps, customXml with own rels, header/footer parts with own rels, raw binary
// parts), external hyperlink relationships (TargetMode="External"), relationship ids dense / gapped /
// not rId-shaped, styles relationship rId1 / other id / absent, absolute and relative targets, media
// names image1.png / Image1.PNG / picture.png / image0 / image007.jpeg, runs nested in w:hyperlink /
// w:smartTag / w:ins / w:sdt / w:fldSimple, tracked deletions (w:delText, not w:t), runs with several
// w:t, w:tab, w:br, paragraph-level w:sectPr, tables, nested tables, block-level w:sdt, zip entry
// order and compression method.
package foreign

import (
	"archive/zip"
	"bytes"
	"fmt"
	"sort"
	"strings"
	"time"

	"wzverif/internal/gen"
)

const (
	NSW   = "http://schemas.openxmlformats.org/wordprocessingml/2006/main"
	NSR   = "http://schemas.openxmlformats.org/officeDocument/2006/relationships"
	NSWP  = "http://schemas.openxmlformats.org/drawingml/2006/wordprocessingDrawing"
	NSA   = "http://schemas.openxmlformats.org/drawingml/2006/main"
	NSPic = "http://schemas.openxmlformats.org/drawingml/2006/picture"
	NSRel = "http://schemas.openxmlformats.org/package/2006/relationships"
	NSCT  = "http://schemas.openxmlformats.org/package/2006/content-types"

	RelT          = "http://schemas.openxmlformats.org/officeDocument/2006/relationships/"
	RelOfficeDoc  = RelT + "officeDocument"
	RelStyles     = RelT + "styles"
	RelHyperlink  = RelT + "hyperlink"
	RelImage      = RelT + "image"
	RelHeader     = RelT + "header"
	RelFooter     = RelT + "footer"
	RelTheme      = RelT + "theme"
	RelFontTable  = RelT + "fontTable"
	RelSettings   = RelT + "settings"
	RelWebSetting = RelT + "webSettings"
	RelNumbering  = RelT + "numbering"
	RelFootnotes  = RelT + "footnotes"
	RelEndnotes   = RelT + "endnotes"
	RelComments   = RelT + "comments"
	RelCustomXML  = RelT + "customXml"
	RelCustomProp = RelT + "customXmlProps"
	RelExtProps   = RelT + "extended-properties"
	RelCoreProps  = "http://schemas.openxmlformats.org/package/2006/relationships/metadata/core-properties"
	RelOLE        = RelT + "oleObject"
	RelFont       = RelT + "font"

	CTMain  = "application/vnd.openxmlformats-officedocument.wordprocessingml.document.main+xml"
	CTRels  = "application/vnd.openxmlformats-package.relationships+xml"
	CTXML   = "application/xml"
	ctWML   = "application/vnd.openxmlformats-officedocument.wordprocessingml."
	CTStyle = ctWML + "styles+xml"
)

// Feature flags reported by Features(); the same strings switch a feature off in Opt.No.
const (
	FPrefixCustom  = "prefix:custom"     // main part does not use the w: prefix (ns0:, wx:)
	FPrefixDefault = "prefix:default-ns" // main part uses the default namespace for elements
	FRPrefixCustom = "prefix:r-custom"   // relationships namespace bound to a prefix other than r:
	FRelsPrefixed  = "opc:prefixed-rels" // relationship / content-type parts use a namespace prefix
	FExtRel        = "rel:external"      // at least one TargetMode="External" relationship of the main part
	FExtRelOther   = "rel:external-other-part"
	FIDsGapped     = "ids:gapped"      // rId-shaped but not the dense rId1..rIdN
	FIDsNamed      = "ids:not-rid"     // ids that are not rId<number>
	FStylesAbsent  = "styles:absent"   // no styles part / relationship
	FStylesNotRID1 = "styles:not-rId1" // styles relationship has another id
	FStylesOddName = "styles:odd-target"
	FRID1Other     = "ids:rId1-not-styles" // rId1 names something that is not the styles part
	FAbsTarget     = "rel:absolute-target"
	FMedia         = "media:any"
	FMediaOddName  = "media:non-library-name" // name not of the form image<N>.<ext> with N without leading zeros
	FMediaNoExt    = "media:no-extension"
	FMediaUpper    = "media:upper-case"
	// FMediaOtherHighest: a media part named image<K>.<ext> that the main part has no relationship to (owned by a
	// header/footer/notes/comments part, or by nobody) with K above every image<N> the main part relates to
	FMediaOtherHighest = "media:owned-by-other-part-highest"
	FMediaUnrelated    = "media:related-from-nowhere"
	FMediaNotesOwned   = "media:owned-by-notes-or-comments"
	FPicture           = "body:picture" // a drawing in the body that shows a media part
	FHyperlink         = "nest:hyperlink"
	FSmartTag          = "nest:smartTag"
	FIns               = "nest:ins"
	FInlineSdt         = "nest:sdt"
	FFldSimple         = "nest:fldSimple"
	FDeepNest          = "nest:deep" // container inside a container
	FDel               = "body:del"
	FMultiT            = "run:multi-t"
	FTabBr             = "run:tab-br"
	FParaSectPr        = "sect:paragraph-level"
	FBodySectPr        = "sect:body-level"
	FTable             = "body:table"
	FNestedTable       = "body:nested-table"
	FBlockSdt          = "body:block-sdt"
	FHeaderFooter      = "part:header-footer"
	FHFRels            = "part:header-footer-rels"
	FCustomXML         = "part:customXml"
	FNumbering         = "part:numbering"
	FNotes             = "part:footnotes"
	FSettings          = "part:settings"
	FTheme             = "part:theme"
	FDocProps          = "part:docProps"
	FBinary            = "part:binary"
	FUnknownDef        = "ct:unknown-default" // Default entries for extensions the library does not know
	FStored            = "zip:stored"
	FCTLast            = "zip:content-types-last"
)

// Rel is one relationship as written.
type Rel struct {
	ID     string `json:"id"`
	Type   string `json:"type"`
	Target string `json:"target"`
	Mode   string `json:"mode,omitempty"` // "" | "External" | "Internal"
}

// Default is one Default entry of the content-types part.
type Default struct {
	Ext string `json:"ext"`
	CT  string `json:"ct"`
}

// Part is an extra part (everything except the main part, the content-types part and the two
// relationship parts of the package and of the main part).
type Part struct {
	Name     string   `json:"name"`               // zip entry name, e.g. word/theme/theme1.xml
	CT       string   `json:"ct,omitempty"`       // content type; "" = rely on a Default entry
	Override bool     `json:"override,omitempty"` // declare CT with an Override entry
	XML      string   `json:"xml,omitempty"`      // payload: text ...
	Img      *gen.Img `json:"img,omitempty"`      // ... or a generated image ...
	Raw      []byte   `json:"raw,omitempty"`      // ... or raw bytes
	Rels     []Rel    `json:"rels,omitempty"`     // the part's own relationship part (written when non-empty)
	Kind     string   `json:"kind,omitempty"`     // theme, fontTable, settings, header, footer, media, customXml, ...
}

func (p Part) Data() []byte {
	switch {
	case p.Img != nil:
		return p.Img.Bytes()
	case p.Raw != nil:
		return p.Raw
	}
	return []byte(p.XML)
}

// Piece is one child of a run.
type Piece struct {
	K     string `json:"k"`           // t | tab | br | cr | nbh | sym | lrpb | drawing | fnref | delText
	Text  string `json:"t,omitempty"` // for t / delText
	RelID string `json:"rid,omitempty"`
	N     int    `json:"n,omitempty"` // footnote id, drawing docPr id
}

type Run struct {
	Bold   bool    `json:"b,omitempty"`
	Italic bool    `json:"i,omitempty"`
	RStyle string  `json:"rstyle,omitempty"`
	Lang   string  `json:"lang,omitempty"`
	Pieces []Piece `json:"pieces,omitempty"`
}

// Inline is a child of a paragraph: a run or a container of inlines.
type Inline struct {
	K     string   `json:"k"` // r | hyperlink | smartTag | ins | sdt | fld | del | bm | proof
	Run   *Run     `json:"run,omitempty"`
	Kids  []Inline `json:"kids,omitempty"`
	RelID string   `json:"rid,omitempty"`  // hyperlink: r:id
	Name  string   `json:"name,omitempty"` // hyperlink anchor / bookmark name / sdt alias / field instruction
	N     int      `json:"n,omitempty"`    // annotation id
}

// Sect is a w:sectPr.
type Sect struct {
	W, H       int    `json:",omitempty"`
	Landscape  bool   `json:"landscape,omitempty"`
	Margin     int    `json:"margin,omitempty"`
	HeaderRefs []HRef `json:"hrefs,omitempty"`
	Type       string `json:"type,omitempty"` // nextPage | continuous | ""
	Cols       int    `json:"cols,omitempty"`
	TitlePg    bool   `json:"titlePg,omitempty"`
}

// HRef is a header/footer reference inside a sectPr.
type HRef struct {
	Footer bool   `json:"footer,omitempty"`
	Type   string `json:"type"` // default | first | even
	RelID  string `json:"rid"`
}

// Block is a block-level element: paragraph, table or block-level content control.
type Block struct {
	K       string   `json:"k"` // p | tbl | sdt
	PStyle  string   `json:"pstyle,omitempty"`
	Jc      string   `json:"jc,omitempty"`
	NumID   int      `json:"numId,omitempty"`
	Sect    *Sect    `json:"sect,omitempty"` // paragraph-level section break
	Inlines []Inline `json:"inl,omitempty"`
	Rows    [][]Cell `json:"rows,omitempty"`
	Blocks  []Block  `json:"blocks,omitempty"` // content of a block-level sdt
	Name    string   `json:"name,omitempty"`
	Widths  []int    `json:"widths,omitempty"`
}

type Cell struct {
	Blocks []Block `json:"blocks"`
	Span   int     `json:"span,omitempty"`
}

// Package is the description of one foreign package.
type Package struct {
	W         string    `json:"w"`                  // prefix of the main namespace in the main part; "" = default namespace
	R         string    `json:"r"`                  // prefix of the relationships namespace in the main part
	OPCPrefix string    `json:"opc_prefix"`         // prefix used in relationship / content-type parts ("" = default namespace)
	Decl      string    `json:"decl"`               // XML declaration of the generated parts
	Body      []Block   `json:"body"`               // children of w:body
	Sect      *Sect     `json:"sect,omitempty"`     // body-level sectPr
	PkgRels   []Rel     `json:"pkg_rels"`           // _rels/.rels
	DocRels   []Rel     `json:"doc_rels,omitempty"` // word/_rels/document.xml.rels
	Defaults  []Default `json:"defaults"`
	Parts     []Part    `json:"parts,omitempty"`
	Stored    bool      `json:"stored,omitempty"`  // zip method Store instead of Deflate
	CTLast    bool      `json:"ct_last,omitempty"` // [Content_Types].xml is the last zip entry
	ExtraNS   bool      `json:"extra_ns,omitempty"`
	IDStyle   string    `json:"id_style,omitempty"` // dense | gapped | named | mixed (how ids were drawn; informative)
	NoDocRels bool      `json:"no_doc_rels,omitempty"`
}

const MainPart = "word/document.xml"
const MainRels = "word/_rels/document.xml.rels"

// ---------------------------------------------------------------------------------------------
// rendering

// Esc escapes character data / attribute values the way a careful producer does.
func Esc(s string) string {
	var b strings.Builder
	for _, r := range s {
		switch r {
		case '<':
			b.WriteString("&lt;")
		case '>':
			b.WriteString("&gt;")
		case '&':
			b.WriteString("&amp;")
		case '"':
			b.WriteString("&quot;")
		case '\r':
			b.WriteString("&#13;")
		case '\n':
			b.WriteString("&#10;")
		case '\t':
			b.WriteString("&#9;")
		default:
			b.WriteRune(r)
		}
	}
	return b.String()
}

type rd struct {
	b  strings.Builder
	w  string // element prefix incl. colon ("" for default ns)
	wa string // attribute prefix incl. colon
	r  string // r prefix incl. colon
}

func (p Package) newRd() *rd {
	x := &rd{}
	if p.W == "" {
		x.w, x.wa = "", "w:"
	} else {
		x.w, x.wa = p.W+":", p.W+":"
	}
	rp := p.R
	if rp == "" {
		rp = "r"
	}
	x.r = rp + ":"
	return x
}

func (x *rd) f(format string, a ...interface{}) { fmt.Fprintf(&x.b, format, a...) }

// el writes <w:name w:k="v" .../> (attrs in pairs; names without prefix get the w attribute prefix)
func (x *rd) open(name string, attrs ...string) { x.tag(name, false, attrs) }
func (x *rd) empty(name string, attrs ...string) {
	x.tag(name, true, attrs)
}
func (x *rd) tag(name string, empty bool, attrs []string) {
	x.b.WriteString("<" + x.w + name)
	for i := 0; i+1 < len(attrs); i += 2 {
		k := attrs[i]
		switch {
		case strings.HasPrefix(k, "r:"):
			k = x.r + k[2:]
		case strings.Contains(k, ":"):
		default:
			k = x.wa + k
		}
		x.b.WriteString(" " + k + `="` + Esc(attrs[i+1]) + `"`)
	}
	if empty {
		x.b.WriteString("/>")
	} else {
		x.b.WriteString(">")
	}
}
func (x *rd) close(name string) { x.b.WriteString("</" + x.w + name + ">") }

func (x *rd) sect(s *Sect) {
	if s == nil {
		return
	}
	x.open("sectPr")
	for _, h := range s.HeaderRefs {
		n := "headerReference"
		if h.Footer {
			n = "footerReference"
		}
		x.empty(n, "type", h.Type, "r:id", h.RelID)
	}
	if s.Type != "" {
		x.empty("type", "val", s.Type)
	}
	w, h := s.W, s.H
	if w == 0 {
		w, h = 11906, 16838
	}
	if s.Landscape {
		x.empty("pgSz", "w", itoa(w), "h", itoa(h), "orient", "landscape")
	} else {
		x.empty("pgSz", "w", itoa(w), "h", itoa(h))
	}
	m := s.Margin
	if m == 0 {
		m = 1440
	}
	x.empty("pgMar", "top", itoa(m), "right", itoa(m+10), "bottom", itoa(m+20), "left", itoa(m+30), "header", "708", "footer", "709", "gutter", "0")
	if s.Cols > 0 {
		x.empty("cols", "num", itoa(s.Cols), "space", "708")
	}
	if s.TitlePg {
		x.empty("titlePg")
	}
	x.close("sectPr")
}

func itoa(i int) string { return fmt.Sprintf("%d", i) }

func needsPreserve(s string) bool {
	if s == "" {
		return false
	}
	f, l := s[0], s[len(s)-1]
	ws := func(c byte) bool { return c == ' ' || c == '\t' || c == '\n' || c == '\r' }
	return ws(f) || ws(l) || strings.Contains(s, "  ") || strings.HasPrefix(s, "　") || strings.HasSuffix(s, "　")
}

func (x *rd) run(r *Run, del bool) {
	x.open("r")
	if r.Bold || r.Italic || r.RStyle != "" || r.Lang != "" {
		x.open("rPr")
		if r.RStyle != "" {
			x.empty("rStyle", "val", r.RStyle)
		}
		if r.Bold {
			x.empty("b")
		}
		if r.Italic {
			x.empty("i")
		}
		if r.Lang != "" {
			x.empty("lang", "val", r.Lang)
		}
		x.close("rPr")
	}
	for _, pc := range r.Pieces {
		switch pc.K {
		case "t", "delText":
			name := pc.K
			if del {
				name = "delText"
			}
			if pc.Text == "" {
				x.empty(name)
				continue
			}
			if needsPreserve(pc.Text) {
				x.open(name, "xml:space", "preserve")
			} else {
				x.open(name)
			}
			x.b.WriteString(Esc(pc.Text))
			x.close(name)
		case "tab":
			x.empty("tab")
		case "br":
			x.empty("br")
		case "cr":
			x.empty("cr")
		case "nbh":
			x.empty("noBreakHyphen")
		case "lrpb":
			x.empty("lastRenderedPageBreak")
		case "sym":
			x.empty("sym", "font", "Wingdings", "char", "F0FC")
		case "fnref":
			x.empty("footnoteReference", "id", itoa(pc.N))
		case "drawing":
			x.drawing(pc)
		}
	}
	x.close("r")
}

func (x *rd) drawing(pc Piece) {
	id := pc.N
	if id == 0 {
		id = 1
	}
	x.open("drawing")
	x.f(`<wp:inline xmlns:wp="%s" distT="0" distB="0" distL="0" distR="0"><wp:extent cx="914400" cy="457200"/><wp:docPr id="%d" name="Picture %d"/>`, NSWP, id, id)
	x.f(`<a:graphic xmlns:a="%s"><a:graphicData uri="%s"><pic:pic xmlns:pic="%s">`, NSA, NSPic, NSPic)
	x.f(`<pic:nvPicPr><pic:cNvPr id="%d" name="pic%d"/><pic:cNvPicPr/></pic:nvPicPr>`, id, id)
	x.f(`<pic:blipFill><a:blip %sembed="%s"/><a:stretch><a:fillRect/></a:stretch></pic:blipFill>`, x.r, Esc(pc.RelID))
	x.f(`<pic:spPr><a:xfrm><a:off x="0" y="0"/><a:ext cx="914400" cy="457200"/></a:xfrm><a:prstGeom prst="rect"><a:avLst/></a:prstGeom></pic:spPr>`)
	x.f(`</pic:pic></a:graphicData></a:graphic></wp:inline>`)
	x.close("drawing")
}

func (x *rd) inline(in Inline, del bool) {
	switch in.K {
	case "r":
		if in.Run != nil {
			x.run(in.Run, del)
		}
	case "hyperlink":
		if in.RelID != "" {
			x.open("hyperlink", "r:id", in.RelID, "history", "1")
		} else {
			x.open("hyperlink", "anchor", in.Name)
		}
		x.inlines(in.Kids, del)
		x.close("hyperlink")
	case "smartTag":
		x.open("smartTag", "uri", "urn:schemas-microsoft-com:office:smarttags", "element", "place")
		x.inlines(in.Kids, del)
		x.close("smartTag")
	case "ins":
		x.open("ins", "id", itoa(in.N), "author", "Author A", "date", "2021-03-04T05:06:00Z")
		x.inlines(in.Kids, del)
		x.close("ins")
	case "del":
		x.open("del", "id", itoa(in.N), "author", "Author B", "date", "2021-03-04T05:07:00Z")
		x.inlines(in.Kids, true)
		x.close("del")
	case "sdt":
		x.open("sdt")
		x.open("sdtPr")
		x.empty("alias", "val", in.Name)
		x.empty("id", "val", itoa(1000+in.N))
		x.close("sdtPr")
		x.open("sdtContent")
		x.inlines(in.Kids, del)
		x.close("sdtContent")
		x.close("sdt")
	case "fld":
		x.open("fldSimple", "instr", " "+in.Name+" ")
		x.inlines(in.Kids, del)
		x.close("fldSimple")
	case "bm":
		x.empty("bookmarkStart", "id", itoa(in.N), "name", in.Name)
		x.empty("bookmarkEnd", "id", itoa(in.N))
	case "proof":
		x.empty("proofErr", "type", "spellStart")
	}
}

func (x *rd) inlines(l []Inline, del bool) {
	for _, in := range l {
		x.inline(in, del)
	}
}

func (x *rd) block(b Block) {
	switch b.K {
	case "p":
		x.open("p")
		if b.PStyle != "" || b.Jc != "" || b.NumID > 0 || b.Sect != nil {
			x.open("pPr")
			if b.PStyle != "" {
				x.empty("pStyle", "val", b.PStyle)
			}
			if b.NumID > 0 {
				x.open("numPr")
				x.empty("ilvl", "val", "0")
				x.empty("numId", "val", itoa(b.NumID))
				x.close("numPr")
			}
			if b.Jc != "" {
				x.empty("jc", "val", b.Jc)
			}
			x.sect(b.Sect)
			x.close("pPr")
		}
		x.inlines(b.Inlines, false)
		x.close("p")
	case "tbl":
		x.open("tbl")
		x.open("tblPr")
		x.empty("tblW", "w", "0", "type", "auto")
		x.close("tblPr")
		x.open("tblGrid")
		for _, w := range b.Widths {
			x.empty("gridCol", "w", itoa(w))
		}
		x.close("tblGrid")
		for _, row := range b.Rows {
			x.open("tr")
			for ci, c := range row {
				x.open("tc")
				x.open("tcPr")
				w := 2000
				if ci < len(b.Widths) {
					w = b.Widths[ci]
				}
				x.empty("tcW", "w", itoa(w), "type", "dxa")
				if c.Span > 1 {
					x.empty("gridSpan", "val", itoa(c.Span))
				}
				x.close("tcPr")
				for _, cb := range c.Blocks {
					x.block(cb)
				}
				x.close("tc")
			}
			x.close("tr")
		}
		x.close("tbl")
	case "sdt":
		x.open("sdt")
		x.open("sdtPr")
		x.empty("alias", "val", b.Name)
		x.close("sdtPr")
		x.open("sdtContent")
		for _, cb := range b.Blocks {
			x.block(cb)
		}
		x.close("sdtContent")
		x.close("sdt")
	}
}

// DocumentXML renders the main part.
func (p Package) DocumentXML() []byte {
	x := p.newRd()
	x.b.WriteString(p.Decl)
	root := "<" + x.w + "document"
	if p.W == "" {
		root += ` xmlns="` + NSW + `" xmlns:w="` + NSW + `"`
	} else {
		root += ` xmlns:` + p.W + `="` + NSW + `"`
	}
	root += ` xmlns:` + strings.TrimSuffix(x.r, ":") + `="` + NSR + `"`
	if p.ExtraNS {
		root += ` xmlns:mc="http://schemas.openxmlformats.org/markup-compatibility/2006" xmlns:w14="http://schemas.microsoft.com/office/word/2010/wordml" mc:Ignorable="w14"`
	}
	x.b.WriteString(root + ">")
	x.open("body")
	for _, b := range p.Body {
		x.block(b)
	}
	x.sect(p.Sect)
	x.close("body")
	x.close("document")
	return []byte(x.b.String())
}

func (p Package) relsXML(rels []Rel) []byte {
	var b strings.Builder
	b.WriteString(p.Decl)
	pre, ns := "", ` xmlns="`+NSRel+`"`
	if p.OPCPrefix != "" {
		pre, ns = p.OPCPrefix+":", ` xmlns:`+p.OPCPrefix+`="`+NSRel+`"`
	}
	b.WriteString("<" + pre + "Relationships" + ns + ">")
	for _, r := range rels {
		b.WriteString("<" + pre + `Relationship Id="` + Esc(r.ID) + `" Type="` + Esc(r.Type) + `" Target="` + Esc(r.Target) + `"`)
		if r.Mode != "" {
			b.WriteString(` TargetMode="` + r.Mode + `"`)
		}
		b.WriteString("/>")
	}
	b.WriteString("</" + pre + "Relationships>")
	return []byte(b.String())
}

// ContentTypesXML renders [Content_Types].xml.
func (p Package) ContentTypesXML() []byte {
	var b strings.Builder
	b.WriteString(p.Decl)
	pre, ns := "", ` xmlns="`+NSCT+`"`
	if p.OPCPrefix != "" {
		pre, ns = p.OPCPrefix+":", ` xmlns:`+p.OPCPrefix+`="`+NSCT+`"`
	}
	b.WriteString("<" + pre + "Types" + ns + ">")
	for _, d := range p.Defaults {
		b.WriteString("<" + pre + `Default Extension="` + Esc(d.Ext) + `" ContentType="` + Esc(d.CT) + `"/>`)
	}
	b.WriteString("<" + pre + `Override PartName="/` + MainPart + `" ContentType="` + CTMain + `"/>`)
	for _, pt := range p.Parts {
		if pt.Override && pt.CT != "" {
			b.WriteString("<" + pre + `Override PartName="/` + Esc(pt.Name) + `" ContentType="` + Esc(pt.CT) + `"/>`)
		}
	}
	b.WriteString("</" + pre + "Types>")
	return []byte(b.String())
}

// Entry is one zip entry written by Bytes().
type Entry struct {
	Name string
	CT   string // resolved content type ("" for [Content_Types].xml or when nothing declares one)
	Data []byte
}

func relsNameOf(part string) string {
	i := strings.LastIndex(part, "/")
	return part[:i+1] + "_rels/" + part[i+1:] + ".rels"
}

// PartList returns every zip entry in the order Bytes() writes it.
func (p Package) PartList() []Entry {
	var out []Entry
	ct := Entry{Name: "[Content_Types].xml", Data: p.ContentTypesXML()}
	if !p.CTLast {
		out = append(out, ct)
	}
	out = append(out, Entry{Name: "_rels/.rels", Data: p.relsXML(p.PkgRels)})
	out = append(out, Entry{Name: MainPart, Data: p.DocumentXML()})
	if !p.NoDocRels {
		out = append(out, Entry{Name: MainRels, Data: p.relsXML(p.DocRels)})
	}
	for _, pt := range p.Parts {
		out = append(out, Entry{Name: pt.Name, Data: pt.Data()})
		if len(pt.Rels) > 0 {
			out = append(out, Entry{Name: relsNameOf(pt.Name), Data: p.relsXML(pt.Rels)})
		}
	}
	if p.CTLast {
		out = append(out, ct)
	}
	for i := range out {
		out[i].CT = p.ContentTypeOf(out[i].Name)
	}
	return out
}

// ContentTypeOf resolves the declared content type of an entry of this package ("" if none).
func (p Package) ContentTypeOf(name string) string {
	if name == MainPart {
		return CTMain
	}
	for _, pt := range p.Parts {
		if pt.Name == name && pt.Override && pt.CT != "" {
			return pt.CT
		}
	}
	base := name[strings.LastIndex(name, "/")+1:]
	if i := strings.LastIndex(base, "."); i >= 0 && i < len(base)-1 {
		ext := strings.ToLower(base[i+1:])
		for _, d := range p.Defaults {
			if strings.ToLower(d.Ext) == ext {
				return d.CT
			}
		}
	}
	return ""
}

var zipTime = time.Date(2020, 1, 2, 3, 4, 6, 0, time.UTC)

// Bytes renders the package as a zip archive (deterministic).
func (p Package) Bytes() []byte {
	var buf bytes.Buffer
	zw := zip.NewWriter(&buf)
	for _, e := range p.PartList() {
		h := &zip.FileHeader{Name: e.Name, Method: zip.Deflate, Modified: zipTime}
		if p.Stored {
			h.Method = zip.Store
		}
		w, err := zw.CreateHeader(h)
		if err != nil {
			panic("foreign: " + err.Error())
		}
		w.Write(e.Data)
	}
	if err := zw.Close(); err != nil {
		panic("foreign: " + err.Error())
	}
	return buf.Bytes()
}

// RelParts returns relationship part name -> relationships as written.
func (p Package) RelParts() map[string][]Rel {
	out := map[string][]Rel{"_rels/.rels": append([]Rel(nil), p.PkgRels...)}
	if !p.NoDocRels {
		out[MainRels] = append([]Rel(nil), p.DocRels...)
	}
	for _, pt := range p.Parts {
		if len(pt.Rels) > 0 {
			out[relsNameOf(pt.Name)] = append([]Rel(nil), pt.Rels...)
		}
	}
	return out
}

// MediaInfo describes one media part and one relationship that points at it.
type MediaInfo struct {
	Name   string // zip entry name
	Data   []byte
	Source string // part whose relationship part refers to it ("" if none does)
	RelID  string
}

// MediaParts lists the parts of kind "media" with the relationship that refers to them.
func (p Package) MediaParts() []MediaInfo {
	var out []MediaInfo
	find := func(src string, rels []Rel, name string) (string, bool) {
		for _, r := range rels {
			if r.Mode == "External" {
				continue
			}
			if resolve(src, r.Target) == name {
				return r.ID, true
			}
		}
		return "", false
	}
	for _, pt := range p.Parts {
		if pt.Kind != "media" {
			continue
		}
		mi := MediaInfo{Name: pt.Name, Data: pt.Data()}
		if id, ok := find(MainPart, p.DocRels, pt.Name); ok {
			mi.Source, mi.RelID = MainPart, id
		} else {
			for _, o := range p.Parts {
				if id, ok := find(o.Name, o.Rels, pt.Name); ok {
					mi.Source, mi.RelID = o.Name, id
					break
				}
			}
		}
		out = append(out, mi)
	}
	return out
}

func resolve(source, target string) string {
	if strings.HasPrefix(target, "/") {
		return strings.TrimPrefix(target, "/")
	}
	dir := ""
	if i := strings.LastIndex(source, "/"); i >= 0 {
		dir = source[:i]
	}
	segs := []string{}
	if dir != "" {
		segs = strings.Split(dir, "/")
	}
	for _, s := range strings.Split(target, "/") {
		switch s {
		case "", ".":
		case "..":
			if len(segs) > 0 {
				segs = segs[:len(segs)-1]
			}
		default:
			segs = append(segs, s)
		}
	}
	return strings.Join(segs, "/")
}

// TextRef is the text of one w:t under w:body.
type TextRef struct {
	Text string
	Path string // nesting, e.g. "p/r", "p/hyperlink/r", "tbl/tc/tbl/tc/p/ins/sdt/r", "sdt/p/r"
	NT   int    // number of w:t children of the run it belongs to
	Idx  int    // index of this w:t among them
}

// Texts returns the text of every w:t under w:body in document order (w:delText is not w:t).
func (p Package) Texts() []TextRef {
	var out []TextRef
	var inl func(l []Inline, path string, del bool)
	inl = func(l []Inline, path string, del bool) {
		for _, in := range l {
			switch in.K {
			case "r":
				if in.Run == nil || del {
					continue
				}
				nt := 0
				for _, pc := range in.Run.Pieces {
					if pc.K == "t" {
						nt++
					}
				}
				i := 0
				for _, pc := range in.Run.Pieces {
					if pc.K == "t" {
						out = append(out, TextRef{Text: pc.Text, Path: path + "/r", NT: nt, Idx: i})
						i++
					}
				}
			case "hyperlink", "smartTag", "ins", "sdt", "fld":
				inl(in.Kids, path+"/"+in.K, del)
			case "del":
				inl(in.Kids, path+"/del", true)
			}
		}
	}
	var blocks func(l []Block, path string)
	blocks = func(l []Block, path string) {
		for _, b := range l {
			switch b.K {
			case "p":
				inl(b.Inlines, path+"p", false)
			case "tbl":
				for _, row := range b.Rows {
					for _, c := range row {
						blocks(c.Blocks, path+"tbl/tc/")
					}
				}
			case "sdt":
				blocks(b.Blocks, path+"sdt/")
			}
		}
	}
	blocks(p.Body, "")
	return out
}

// Text is the concatenation of Texts().
func (p Package) Text() string {
	var b strings.Builder
	for _, t := range p.Texts() {
		b.WriteString(t.Text)
	}
	return b.String()
}

// ---------------------------------------------------------------------------------------------
// features

var ridShape = func(s string) (int, bool) {
	if !strings.HasPrefix(s, "rId") || len(s) == 3 {
		return 0, false
	}
	n := 0
	for _, c := range s[3:] {
		if c < '0' || c > '9' {
			return 0, false
		}
		n = n*10 + int(c-'0')
	}
	if s[3] == '0' {
		return 0, false
	}
	return n, true
}

// LibraryMediaName reports whether a media entry name has the shape the library itself uses
// (word/media/image<N>.<ext>, N decimal without leading zeros, lower-case).
func LibraryMediaName(name string) bool {
	if !strings.HasPrefix(name, "word/media/image") {
		return false
	}
	rest := name[len("word/media/image"):]
	i := 0
	for i < len(rest) && rest[i] >= '0' && rest[i] <= '9' {
		i++
	}
	if i == 0 || (i > 1 && rest[0] == '0') {
		return false
	}
	ext := rest[i:]
	return ext == ".png" || ext == ".jpeg" || ext == ".gif" || ext == ".jpg"
}

// Features returns the sorted feature flags present in the package.
func (p Package) Features() []string {
	set := map[string]bool{}
	switch p.W {
	case "w":
	case "":
		set[FPrefixDefault] = true
	default:
		set[FPrefixCustom] = true
	}
	if p.R != "" && p.R != "r" {
		set[FRPrefixCustom] = true
	}
	if p.OPCPrefix != "" {
		set[FRelsPrefixed] = true
	}
	if p.Stored {
		set[FStored] = true
	}
	if p.CTLast {
		set[FCTLast] = true
	}
	hasStyles := false
	dense := true
	n := 0
	for i, r := range p.DocRels {
		if r.Mode == "External" {
			set[FExtRel] = true
		}
		if strings.HasPrefix(r.Target, "/") {
			set[FAbsTarget] = true
		}
		if r.Type == RelStyles {
			hasStyles = true
			if r.ID != "rId1" {
				set[FStylesNotRID1] = true
			}
			if r.Target != "styles.xml" {
				set[FStylesOddName] = true
			}
		} else if r.ID == "rId1" {
			set[FRID1Other] = true
		}
		k, ok := ridShape(r.ID)
		if !ok {
			set[FIDsNamed] = true
			dense = false
		} else if k != i+1 {
			dense = false
		}
		n++
	}
	if !dense && !set[FIDsNamed] {
		set[FIDsGapped] = true
	} else if !dense {
		// named ids present; gapped numbering among the rest is reported too
		seen := map[int]bool{}
		cnt := 0
		for _, r := range p.DocRels {
			if k, ok := ridShape(r.ID); ok {
				seen[k] = true
				cnt++
			}
		}
		for k := range seen {
			if k > cnt {
				set[FIDsGapped] = true
			}
		}
	}
	if !hasStyles {
		set[FStylesAbsent] = true
	}
	known := map[string]bool{"rels": true, "xml": true, "png": true, "jpeg": true, "jpg": true, "gif": true}
	for _, d := range p.Defaults {
		if !known[strings.ToLower(d.Ext)] {
			set[FUnknownDef] = true
		}
	}
	for _, pt := range p.Parts {
		for _, r := range pt.Rels {
			if r.Mode == "External" {
				set[FExtRelOther] = true
			}
		}
		switch pt.Kind {
		case "media":
			set[FMedia] = true
			if !LibraryMediaName(pt.Name) {
				set[FMediaOddName] = true
			}
			base := pt.Name[strings.LastIndex(pt.Name, "/")+1:]
			if !strings.Contains(base, ".") {
				set[FMediaNoExt] = true
			}
			if base != strings.ToLower(base) {
				set[FMediaUpper] = true
			}
		case "header", "footer":
			set[FHeaderFooter] = true
			if len(pt.Rels) > 0 {
				set[FHFRels] = true
			}
		case "customXml", "customXmlProps":
			set[FCustomXML] = true
		case "numbering":
			set[FNumbering] = true
		case "footnotes", "endnotes":
			set[FNotes] = true
		case "settings", "webSettings":
			set[FSettings] = true
		case "theme":
			set[FTheme] = true
		case "core", "app":
			set[FDocProps] = true
		case "binary":
			set[FBinary] = true
		}
	}
	if _, taken := p.LibraryImageSlots(); len(taken) > 0 {
		set[FMediaOtherHighest] = true
	}
	for _, m := range p.MediaParts() {
		if m.Source == "" {
			set[FMediaUnrelated] = true
		}
		for _, pt := range p.Parts {
			if pt.Name == m.Source && (pt.Kind == "footnotes" || pt.Kind == "endnotes" || pt.Kind == "comments") {
				set[FMediaNotesOwned] = true
			}
		}
	}
	if p.Sect != nil {
		set[FBodySectPr] = true
	}
	var inl func(l []Inline, depth int)
	inl = func(l []Inline, depth int) {
		for _, in := range l {
			switch in.K {
			case "r":
				if in.Run == nil {
					continue
				}
				nt := 0
				for _, pc := range in.Run.Pieces {
					switch pc.K {
					case "t":
						nt++
					case "tab", "br", "cr":
						set[FTabBr] = true
					case "drawing":
						set[FPicture] = true
					}
				}
				if nt > 1 {
					set[FMultiT] = true
				}
			case "hyperlink", "smartTag", "ins", "sdt", "fld", "del":
				switch in.K {
				case "hyperlink":
					set[FHyperlink] = true
				case "smartTag":
					set[FSmartTag] = true
				case "ins":
					set[FIns] = true
				case "sdt":
					set[FInlineSdt] = true
				case "fld":
					set[FFldSimple] = true
				case "del":
					set[FDel] = true
				}
				if depth > 0 {
					set[FDeepNest] = true
				}
				inl(in.Kids, depth+1)
			}
		}
	}
	var blocks func(l []Block, tdepth int)
	blocks = func(l []Block, tdepth int) {
		for _, b := range l {
			switch b.K {
			case "p":
				if b.Sect != nil {
					set[FParaSectPr] = true
				}
				inl(b.Inlines, 0)
			case "tbl":
				set[FTable] = true
				if tdepth > 0 {
					set[FNestedTable] = true
				}
				for _, row := range b.Rows {
					for _, c := range row {
						blocks(c.Blocks, tdepth+1)
					}
				}
			case "sdt":
				set[FBlockSdt] = true
				blocks(b.Blocks, tdepth)
			}
		}
	}
	blocks(p.Body, 0)
	out := make([]string, 0, len(set))
	for k := range set {
		out = append(out, k)
	}
	sort.Strings(out)
	return out
}

// Has reports whether the package has the feature.
func (p Package) Has(f string) bool {
	for _, x := range p.Features() {
		if x == f {
			return true
		}
	}
	return false
}

// ExtraParts counts the parts besides the main part, its relationship part, the package
// relationship part and the content-types part (relationship parts of extra parts included).
func (p Package) ExtraParts() int {
	n := 0
	for _, pt := range p.Parts {
		n++
		if len(pt.Rels) > 0 {
			n++
		}
	}
	return n
}

const stdDecl = `<?xml version="1.0" encoding="UTF-8" standalone="yes"?>` + "\n"

// Minimal returns the smallest useful package: one paragraph "x", no styles, no extra parts.
func Minimal() Package {
	return Package{
		W: "w", R: "r", Decl: stdDecl,
		Body:     []Block{{K: "p", Inlines: []Inline{{K: "r", Run: &Run{Pieces: []Piece{{K: "t", Text: "x"}}}}}}},
		PkgRels:  []Rel{{ID: "rId1", Type: RelOfficeDoc, Target: "word/document.xml"}},
		Defaults: []Default{{"rels", CTRels}, {"xml", CTXML}},
		IDStyle:  "dense",
	}
}

// imageNumber parses the N of a media base name image<N>.<ext> (leading zeros allowed).
func imageNumber(base string) (int, string, bool) {
	if !strings.HasPrefix(base, "image") {
		return 0, "", false
	}
	rest := base[len("image"):]
	i, n := 0, 0
	for i < len(rest) && rest[i] >= '0' && rest[i] <= '9' {
		n = n*10 + int(rest[i]-'0')
		i++
	}
	if i == 0 || i >= len(rest) || rest[i] != '.' {
		return 0, "", false
	}
	return n, rest[i+1:], true
}

// LibraryImageSlots describes the image<N> numbering of the package as a counter sees it that looks only at
// the main part's relationships: next = 1 + the highest N of an image<N>.<ext> the main part relates to
// (0 when there is none); taken = number -> extension of the word/media/image<K>.<ext> parts with K >= next
// that the main part has no relationship to (owned by other parts or by nobody).
func (p Package) LibraryImageSlots() (next int, taken map[int]string) {
	maxDoc := -1
	docOwned := map[string]bool{}
	for _, r := range p.DocRels {
		if r.Type != RelImage || r.Mode == "External" {
			continue
		}
		name := resolve(MainPart, r.Target)
		docOwned[name] = true
		if n, _, ok := imageNumber(name[strings.LastIndex(name, "/")+1:]); ok && n > maxDoc {
			maxDoc = n
		}
	}
	next = maxDoc + 1
	taken = map[int]string{}
	for _, pt := range p.Parts {
		if pt.Kind != "media" || docOwned[pt.Name] || !strings.HasPrefix(pt.Name, "word/media/") {
			continue
		}
		if n, ext, ok := imageNumber(pt.Name[len("word/media/"):]); ok && n >= next {
			taken[n] = ext
		}
	}
	return next, taken
}

package foreign

// Inline OMML formulas in body paragraphs (added for property C04).
//
// A formula is an Inline with K "math" (m:oMath) or "mathpara" (m:oMathPara around one or two m:oMath)
// that sits among the runs and run containers of a paragraph, the way Word, LibreOffice and pandoc write a
// formula inside a sentence. The renderer, the accessors and the generator of foreign.go / gen.go know nothing
// about these kinds (they render as nothing and carry no w:t), so packages without formulas are exactly what
// they were; a package with formulas is rendered with BytesMath (and DocumentXMLMath) instead of Bytes.
//
//	Inline.K      "math" | "mathpara"
//	Inline.Name   content of the formula: x | frac | sup | wrpr | space | empty | para2 (mathpara: two m:oMath)
//	Inline.RelID  "<prefix>|<site>": namespace prefix of the math namespace (m, mml, ...) and where it is
//	              declared: "root" (on the document element, like Word) or "local" (on the formula element)
//
// AddMath draws formulas into a generated package; MathFeatures describes what a package holds.

import (
	"archive/zip"
	"bytes"
	"sort"
	"strings"

	"pgregory.net/rapid"
)

const NSM = "http://schemas.openxmlformats.org/officeDocument/2006/math"

// Feature flags reported by MathFeatures (not by Features).
const (
	FMath           = "math:any"
	FMathTextOne    = "math:text+one-formula"    // a paragraph that carries w:t text and exactly one formula
	FMathTextTwo    = "math:text+two-formulas"   // ... and two or more formulas
	FMathOnly       = "math:formula-only"        // a paragraph with formulas and no w:t text
	FMathTop        = "math:top-level-paragraph" // formula in a paragraph that is a child of w:body
	FMathTopTextOne = "math:top-level-text+one-formula"
	FMathCell       = "math:in-cell-or-sdt"    // formula in a paragraph of a table cell or block-level sdt
	FMathNested     = "math:in-run-container"  // formula inside w:hyperlink / w:ins / w:sdt / w:smartTag
	FMathPara       = "math:oMathPara"         // m:oMathPara
	FMathForeignPfx = "math:foreign-prefix"    // math namespace not bound to m:, or w: elements of the formula not written w:
	FMathLocalDecl  = "math:declared-on-formula"
)

var mathContents = []string{"x", "x", "frac", "sup", "wrpr", "wrpr", "space", "empty"}

func isMath(k string) bool { return k == "math" || k == "mathpara" }

func mathPrefixSite(in Inline) (string, string) {
	pfx, site := "m", "root"
	if i := strings.Index(in.RelID, "|"); i >= 0 {
		if in.RelID[:i] != "" {
			pfx = in.RelID[:i]
		}
		if in.RelID[i+1:] == "local" {
			site = "local"
		}
	}
	return pfx, site
}

// mathXML renders one formula. x supplies the spelling of WordprocessingML names in this main part.
func mathXML(in Inline, x *rd) string {
	pfx, site := mathPrefixSite(in)
	m := pfx + ":"
	decl := ""
	if site == "local" {
		decl = ` xmlns:` + pfx + `="` + NSM + `"`
	}
	r := func(t string) string { return "<" + m + "r><" + m + "t>" + Esc(t) + "</" + m + "t></" + m + "r>" }
	one := func(content string, withDecl bool) string {
		d := ""
		if withDecl {
			d = decl
		}
		var inner string
		switch content {
		case "frac":
			inner = r("a+b=") + "<" + m + "f><" + m + "fPr><" + m + "type " + m + `val="bar"/></` + m + "fPr><" + m + "num>" + r("1") + "</" + m + "num><" + m + "den>" + r("2") + "</" + m + "den></" + m + "f>"
		case "sup":
			inner = "<" + m + "sSup><" + m + "e>" + r("x") + "</" + m + "e><" + m + "sup>" + r("2") + "</" + m + "sup></" + m + "sSup>"
		case "wrpr":
			inner = "<" + m + "r><" + x.w + "rPr><" + x.w + "rFonts " + x.wa + `ascii="Cambria Math" ` + x.wa + `hAnsi="Cambria Math"/><` + x.w + "i/></" + x.w + "rPr><" + m + "t>π &lt; 4 &amp; y</" + m + "t></" + m + "r>"
		case "space":
			inner = "<" + m + "r><" + m + `t xml:space="preserve"> = </` + m + "t></" + m + "r>"
		case "empty":
			return "<" + m + "oMath" + d + "/>"
		default:
			inner = r("x")
		}
		return "<" + m + "oMath" + d + ">" + inner + "</" + m + "oMath>"
	}
	if in.K == "math" {
		return one(in.Name, true)
	}
	var b strings.Builder
	b.WriteString("<" + m + "oMathPara" + decl + ">")
	if in.N%2 == 1 {
		b.WriteString("<" + m + "oMathParaPr><" + m + "jc " + m + `val="center"/></` + m + "oMathParaPr>")
	}
	if in.Name == "para2" {
		b.WriteString(one("x", false))
		b.WriteString(one("sup", false))
	} else {
		b.WriteString(one(in.Name, false))
	}
	b.WriteString("</" + m + "oMathPara>")
	return b.String()
}

// HasMath reports whether some paragraph of the body holds a formula.
func (p Package) HasMath() bool { return len(p.MathFeatures()) > 0 }

func copyInlines(l []Inline, f func(Inline) Inline) []Inline {
	if l == nil {
		return nil
	}
	out := make([]Inline, len(l))
	for i, in := range l {
		in = f(in)
		in.Kids = copyInlines(in.Kids, f)
		out[i] = in
	}
	return out
}

func copyBlocks(l []Block, f func(Inline) Inline) []Block {
	if l == nil {
		return nil
	}
	out := make([]Block, len(l))
	for i, b := range l {
		b.Inlines = copyInlines(b.Inlines, f)
		b.Blocks = copyBlocks(b.Blocks, f)
		if b.Rows != nil {
			rows := make([][]Cell, len(b.Rows))
			for ri, row := range b.Rows {
				rows[ri] = make([]Cell, len(row))
				for ci, c := range row {
					c.Blocks = copyBlocks(c.Blocks, f)
					rows[ri][ci] = c
				}
			}
			b.Rows = rows
		}
		out[i] = b
	}
	return out
}

// DocumentXMLMath renders the main part with its formulas. Equal to DocumentXML when there is none.
func (p Package) DocumentXMLMath() []byte {
	var formulas []Inline
	q := p
	q.Body = copyBlocks(p.Body, func(in Inline) Inline {
		if !isMath(in.K) {
			return in
		}
		formulas = append(formulas, in)
		// a place holder the existing renderer writes; replaced below by the formula
		return Inline{K: "bm", N: 900000 + len(formulas), Name: "wzverif-formula-" + itoa(len(formulas))}
	})
	if len(formulas) == 0 {
		return p.DocumentXML()
	}
	s := string(q.DocumentXML())
	rootNS := map[string]bool{}
	for i, in := range formulas {
		x := p.newRd()
		x.inline(Inline{K: "bm", N: 900000 + i + 1, Name: "wzverif-formula-" + itoa(i+1)}, false)
		ph := x.b.String()
		if strings.Count(s, ph) != 1 {
			panic("foreign: formula place holder not found exactly once")
		}
		s = strings.Replace(s, ph, mathXML(in, p.newRd()), 1)
		if pfx, site := mathPrefixSite(in); site == "root" {
			rootNS[pfx] = true
		}
	}
	if len(rootNS) > 0 {
		var pfx []string
		for k := range rootNS {
			pfx = append(pfx, k)
		}
		sort.Strings(pfx)
		x := p.newRd()
		open := "<" + x.w + "document"
		i := strings.Index(s, open+" ")
		if i < 0 {
			panic("foreign: document element not found")
		}
		decl := ""
		for _, k := range pfx {
			decl += ` xmlns:` + k + `="` + NSM + `"`
		}
		s = s[:i+len(open)] + decl + s[i+len(open):]
	}
	return []byte(s)
}

// PartListMath is PartList with the main part rendered by DocumentXMLMath.
func (p Package) PartListMath() []Entry {
	out := p.PartList()
	for i := range out {
		if out[i].Name == MainPart {
			out[i].Data = p.DocumentXMLMath()
		}
	}
	return out
}

// BytesMath renders the package like Bytes, formulas included (deterministic; equal to Bytes without formulas).
func (p Package) BytesMath() []byte {
	var buf bytes.Buffer
	zw := zip.NewWriter(&buf)
	for _, e := range p.PartListMath() {
		h := &zip.FileHeader{Name: e.Name, Method: zip.Deflate, Modified: zipTime}
		if p.Stored {
			h.Method = zip.Store
		}
		w, err := zw.CreateHeader(h)
		if err != nil {
			panic("foreign: " + err.Error())
		}
		w.Write(e.Data)
	}
	if err := zw.Close(); err != nil {
		panic("foreign: " + err.Error())
	}
	return buf.Bytes()
}

// paragraph-level summary used by MathFeatures
type mathPara struct {
	formulas, nested, para, foreign, local int
	text                                  bool
}

func (p Package) summarise(b Block) mathPara {
	var mp mathPara
	var walk func(l []Inline, depth int, del bool)
	walk = func(l []Inline, depth int, del bool) {
		for _, in := range l {
			switch {
			case isMath(in.K):
				mp.formulas++
				if in.K == "mathpara" {
					mp.para++
				}
				if depth > 0 {
					mp.nested++
				}
				pfx, site := mathPrefixSite(in)
				if pfx != "m" || (in.Name == "wrpr" && p.W != "w" && p.W != "") {
					mp.foreign++
				}
				if site == "local" {
					mp.local++
				}
			case in.K == "r":
				if in.Run != nil && !del {
					for _, pc := range in.Run.Pieces {
						if pc.K == "t" && pc.Text != "" {
							mp.text = true
						}
					}
				}
			default:
				walk(in.Kids, depth+1, del || in.K == "del")
			}
		}
	}
	walk(b.Inlines, 0, false)
	return mp
}

// MathFeatures returns the sorted math feature flags of the package (empty without formulas).
func (p Package) MathFeatures() []string {
	set := map[string]bool{}
	var blocks func(l []Block, top bool)
	blocks = func(l []Block, top bool) {
		for _, b := range l {
			switch b.K {
			case "p":
				mp := p.summarise(b)
				if mp.formulas == 0 {
					continue
				}
				set[FMath] = true
				switch {
				case mp.text && mp.formulas == 1:
					set[FMathTextOne] = true
					if top {
						set[FMathTopTextOne] = true
					}
				case mp.text:
					set[FMathTextTwo] = true
				default:
					set[FMathOnly] = true
				}
				if top {
					set[FMathTop] = true
				} else {
					set[FMathCell] = true
				}
				if mp.nested > 0 {
					set[FMathNested] = true
				}
				if mp.para > 0 {
					set[FMathPara] = true
				}
				if mp.foreign > 0 {
					set[FMathForeignPfx] = true
				}
				if mp.local > 0 {
					set[FMathLocalDecl] = true
				}
			case "tbl":
				for _, row := range b.Rows {
					for _, c := range row {
						blocks(c.Blocks, false)
					}
				}
			case "sdt":
				blocks(b.Blocks, false)
			}
		}
	}
	blocks(p.Body, true)
	out := make([]string, 0, len(set))
	for k := range set {
		out = append(out, k)
	}
	sort.Strings(out)
	return out
}

// AddMath draws formulas into the paragraphs of a generated package: at least one paragraph gets one;
// a paragraph gets one formula (mostly) or two, between its runs, now and then inside one of its run containers.
func AddMath(t *rapid.T, p *Package) {
	pfx := rapid.SampledFrom([]string{"m", "m", "m", "m", "m", "mml", "ns2"}).Draw(t, "mathprefix")
	site := rapid.SampledFrom([]string{"root", "root", "local"}).Draw(t, "mathdecl")
	serial := 0
	formula := func() Inline {
		serial++
		in := Inline{K: "math", N: serial, RelID: pfx + "|" + site}
		if rapid.IntRange(0, 3).Draw(t, "mathblock") == 0 {
			in.K = "mathpara"
			in.Name = rapid.SampledFrom([]string{"x", "frac", "wrpr", "para2"}).Draw(t, "mathparacontent")
		} else {
			in.Name = rapid.SampledFrom(mathContents).Draw(t, "mathcontent")
		}
		return in
	}
	put := func(b *Block) {
		n := rapid.SampledFrom([]int{1, 1, 1, 1, 2}).Draw(t, "nformulas")
		for i := 0; i < n; i++ {
			f := formula()
			// inside a run container of the paragraph?
			var conts []int
			for j, in := range b.Inlines {
				switch in.K {
				case "hyperlink", "ins", "sdt", "smartTag":
					conts = append(conts, j)
				}
			}
			if len(conts) > 0 && rapid.IntRange(0, 4).Draw(t, "mathnested") == 0 {
				j := rapid.SampledFrom(conts).Draw(t, "mathcontainer")
				kids := append([]Inline(nil), b.Inlines[j].Kids...)
				at := rapid.IntRange(0, len(kids)).Draw(t, "mathkidat")
				kids = append(kids[:at], append([]Inline{f}, kids[at:]...)...)
				b.Inlines[j].Kids = kids
				continue
			}
			at := rapid.IntRange(0, len(b.Inlines)).Draw(t, "mathat")
			l := append([]Inline(nil), b.Inlines[:at]...)
			l = append(l, f)
			b.Inlines = append(l, b.Inlines[at:]...)
		}
	}
	placed := 0
	var first *Block
	var blocks func(l []Block, top bool)
	blocks = func(l []Block, top bool) {
		for i := range l {
			b := &l[i]
			switch b.K {
			case "p":
				if first == nil {
					first = b
				}
				pct := 50
				if !top {
					pct = 15
				}
				if rapid.SampledFrom(pctSlots(pct)).Draw(t, "mathhere") {
					put(b)
					placed++
				}
			case "tbl":
				for _, row := range b.Rows {
					for ci := range row {
						blocks(row[ci].Blocks, false)
					}
				}
			case "sdt":
				blocks(b.Blocks, false)
			}
		}
	}
	blocks(p.Body, true)
	if placed == 0 {
		// prefer a paragraph that is a child of the body
		for i := range p.Body {
			if p.Body[i].K == "p" {
				first = &p.Body[i]
				break
			}
		}
		if first != nil {
			put(first)
		}
	}
}

package foreign

// Many header/footer parts (added for property C04).
//
// The base generator gives a package one to three header/footer parts named header<i>.xml / footer<i>.xml. A
// document with many sections has header1.xml ... header18.xml, and nothing stops a producer from calling a part
// headerfirst.xml or footereven.xml. AddHeaderFooterFamily adds such a family to a generated package: header<N>.xml
// and/or footer<N>.xml for every N from 1 to 10..17 that the package does not have yet, sometimes also
// headerfirst.xml / headereven.xml / footerfirst.xml / footereven.xml, each with a relationship of the main part.
// The new parts are not referenced by a section (a header that is related but not shown is legal); the package's
// own header/footer parts and section references stay as they were.

import (
	"fmt"
	"strings"

	"pgregory.net/rapid"
)

// HeaderFooterCount is the number of header and footer parts of the package.
func (p Package) HeaderFooterCount() int {
	n := 0
	for _, pt := range p.Parts {
		if pt.Kind == "header" || pt.Kind == "footer" {
			n++
		}
	}
	return n
}

// AddHeaderFooterFamily adds the parts and returns how many it added.
func AddHeaderFooterFamily(t *rapid.T, p *Package) int {
	last := rapid.SampledFrom([]int{10, 10, 11, 12, 13, 17}).Draw(t, "hff-last")
	which := rapid.SampledFrom([]string{"header", "footer", "both"}).Draw(t, "hff-which")
	named := rapid.IntRange(0, 2).Draw(t, "hff-named") == 0
	var names []string
	for _, kind := range []string{"header", "footer"} {
		if which != kind && which != "both" {
			continue
		}
		for n := 1; n <= last; n++ {
			names = append(names, fmt.Sprintf("%s%d.xml", kind, n))
		}
		if named {
			names = append(names, kind+"first.xml", kind+"even.xml")
		}
	}
	have := map[string]bool{}
	for _, pt := range p.Parts {
		have[strings.ToLower(pt.Name)] = true
	}
	relIDs := map[string]bool{}
	maxRID := 0
	for _, r := range p.DocRels {
		relIDs[r.ID] = true
		if k, ok := ridShape(r.ID); ok && k > maxRID {
			maxRID = k
		}
	}
	added := 0
	for i, name := range names {
		if have["word/"+name] {
			continue
		}
		kind, ct, relT, root := "header", ctWML+"header+xml", RelHeader, "hdr"
		if strings.HasPrefix(name, "footer") {
			kind, ct, relT, root = "footer", ctWML+"footer+xml", RelFooter, "ftr"
		}
		xml := stdDecl + `<w:` + root + ` xmlns:w="` + NSW + `" xmlns:r="` + NSR + `"><w:p><w:r><w:t>` + Esc(kind) + ` of section ` + itoa(i+1) + `</w:t></w:r></w:p></w:` + root + `>`
		p.Parts = append(p.Parts, Part{Name: "word/" + name, CT: ct, Override: true, Kind: kind, XML: xml})
		maxRID++
		id := "rId" + itoa(maxRID)
		if p.IDStyle == "named" || p.IDStyle == "mixed" {
			id = "hf" + itoa(i+1)
		}
		for relIDs[id] {
			id += "x"
		}
		relIDs[id] = true
		p.DocRels = append(p.DocRels, Rel{ID: id, Type: relT, Target: name})
		p.NoDocRels = false
		added++
	}
	return added
}

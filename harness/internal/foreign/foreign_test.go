package foreign

import (
	"bytes"
	"encoding/json"
	"strings"
	"testing"

	"pgregory.net/rapid"

	"wzverif/internal/canon"
	"wzverif/internal/opc"
	"wzverif/internal/xmlwf"
)

// Self-test of the generator: what it emits is a well-formed, internally consistent package and the
// accessors describe exactly what was written.
func TestGeneratedPackagesAreConsistent(t *testing.T) {
	feats := map[string]int{}
	n := 0
	rapid.Check(t, func(rt *rapid.T) {
		p := Gen(rt)
		n++
		for _, f := range p.Features() {
			feats[f]++
		}
		if msg := SelfCheck(p); msg != "" {
			js, _ := json.Marshal(p)
			rt.Fatalf("%s\n%s", msg, js)
		}
	})
	for _, f := range []string{FPrefixCustom, FPrefixDefault, FExtRel, FIDsGapped, FIDsNamed, FStylesAbsent, FStylesNotRID1, FMediaOddName, FHyperlink, FSmartTag, FIns, FInlineSdt,
		FMultiT, FParaSectPr, FNestedTable, FBlockSdt, FHFRels, FCustomXML, FPicture, FMediaNoExt, FRID1Other, FMediaOtherHighest, FMediaUnrelated, FMediaNotesOwned} {
		if feats[f] == 0 {
			t.Errorf("feature %s never generated in %d cases", f, n)
		}
	}
	t.Logf("%d cases, features: %v", n, feats)
}

// SelfCheck is exported to the test only through this file.
func SelfCheck(p Package) string {
	b := p.Bytes()
	if !bytes.Equal(b, p.Bytes()) {
		return "Bytes() is not deterministic"
	}
	js, _ := json.Marshal(p)
	var q Package
	if err := json.Unmarshal(js, &q); err != nil {
		return "json: " + err.Error()
	}
	if !bytes.Equal(b, q.Bytes()) {
		return "JSON round trip changes the rendered bytes"
	}
	pk, err := opc.Read(b)
	if err != nil {
		return "opc.Read: " + err.Error()
	}
	if len(pk.Dups) > 0 {
		return "duplicate entries " + strings.Join(pk.Dups, ",")
	}
	if pk.CTErr != nil {
		return "content types: " + pk.CTErr.Error()
	}
	low := map[string]bool{}
	for _, e := range p.PartList() {
		if low[strings.ToLower(e.Name)] {
			return "part names equal ignoring case: " + e.Name
		}
		low[strings.ToLower(e.Name)] = true
		got, ok := pk.Parts[e.Name]
		if !ok || !bytes.Equal(got, e.Data) {
			return "PartList entry " + e.Name + " not in the archive as described"
		}
		if e.Name != "[Content_Types].xml" {
			ct, ok := pk.ContentTypeOf(e.Name)
			if !ok {
				return "part without content type: " + e.Name
			}
			if ct != e.CT {
				return "content type of " + e.Name + ": accessor says " + e.CT + ", reader says " + ct
			}
		}
		if pk.IsXMLPart(e.Name) {
			if err := xmlwf.Check(e.Data); err != nil {
				return "part " + e.Name + " is not well-formed: " + err.Error()
			}
		}
	}
	if len(pk.Parts) != len(p.PartList()) {
		return "entry count differs"
	}
	for name, rels := range p.RelParts() {
		got := pk.Rels[name]
		if e := pk.RelErr[name]; e != nil {
			return "rels " + name + ": " + e.Error()
		}
		if len(got) != len(rels) {
			return "rels " + name + ": count differs"
		}
		ids := map[string]bool{}
		for i, r := range rels {
			if ids[r.ID] {
				return "duplicate relationship id " + r.ID + " in " + name
			}
			ids[r.ID] = true
			if got[i].ID != r.ID || got[i].Type != r.Type || got[i].Target != r.Target || got[i].Mode != r.Mode {
				return "rels " + name + ": relationship " + r.ID + " not written as described"
			}
			if !got[i].External() {
				if _, ok := pk.Parts[got[i].Resolved]; !ok {
					return "rels " + name + ": dangling internal target " + r.Target + " -> " + got[i].Resolved
				}
			}
		}
	}
	if len(pk.MainParts()) != 1 || pk.MainParts()[0].Resolved != MainPart {
		return "main part relationship wrong"
	}
	// body text and references, read back independently
	root, err := canon.Parse(pk.Parts[MainPart])
	if err != nil {
		return "canon: " + err.Error()
	}
	body := root.Kid(NSW, "body")
	if body == nil {
		return "no w:body"
	}
	var sb strings.Builder
	cnt := 0
	for _, tn := range body.All(NSW, "t") {
		sb.WriteString(tn.Text)
		cnt++
	}
	if sb.String() != p.Text() || cnt != len(p.Texts()) {
		return "Texts() disagrees with the rendered main part: " + sb.String() + " vs " + p.Text()
	}
	docIDs := map[string]opc.Rel{}
	for _, r := range pk.Rels[MainRels] {
		docIDs[r.ID] = r
	}
	var bad string
	body.Walk(func(n *canon.Node) bool {
		for _, a := range n.Attrs {
			if a.Space == NSR && (a.Local == "id" || a.Local == "embed") {
				r, ok := docIDs[a.Value]
				if !ok {
					bad = "reference to undefined relationship " + a.Value + " on " + n.Local
				}
				if n.Local == "blip" && (r.External() || !strings.HasPrefix(r.Resolved, "word/media/")) {
					bad = "blip does not point at media"
				}
				if n.Local == "hyperlink" && !r.External() {
					bad = "hyperlink relationship not external"
				}
			}
		}
		return true
	})
	if bad != "" {
		return bad
	}
	for _, m := range p.MediaParts() {
		if !bytes.Equal(pk.Parts[m.Name], m.Data) || len(m.Data) == 0 {
			return "media " + m.Name + " not as described"
		}
		if m.Source == "" && !p.Has(FMediaUnrelated) {
			return "media " + m.Name + " unreferenced"
		}
	}
	return ""
}

func TestMinimal(t *testing.T) {
	if msg := SelfCheck(Minimal()); msg != "" {
		t.Fatal(msg)
	}
}

func TestOptSwitchesFeaturesOff(t *testing.T) {
	off := []string{FPrefixCustom, FPrefixDefault, FRPrefixCustom, FRelsPrefixed, FExtRel, FExtRelOther, FIDsGapped, FIDsNamed, FStylesAbsent, FStylesNotRID1, FStylesOddName,
		FRID1Other, FAbsTarget, FMediaOddName, FHyperlink, FSmartTag, FIns, FInlineSdt, FFldSimple, FDel, FMultiT, FTabBr, FParaSectPr, FNestedTable, FBlockSdt, FHFRels, FCustomXML, FBinary, FUnknownDef, FMediaOtherHighest}
	no := map[string]bool{}
	for _, f := range off {
		no[f] = true
	}
	rapid.Check(t, func(rt *rapid.T) {
		p := GenOpt(rt, Opt{No: no})
		for _, f := range p.Features() {
			if no[f] {
				js, _ := json.Marshal(p)
				rt.Fatalf("feature %s generated although switched off\n%s", f, js)
			}
		}
	})
}

package foreign

import (
	"encoding/json"
	"fmt"
	"strings"
	"testing"

	"pgregory.net/rapid"
)

// Self-test of the numbered-media extension: the package is still well-formed and consistent (same self check as
// the base generator), every part the package had is still there with the same bytes, the added parts are where
// the description says, and the shapes the extension exists for do occur.
func TestNumberedMediaPackagesAreConsistent(t *testing.T) {
	seen := map[string]int{}
	n := 0
	rapid.Check(t, func(rt *rapid.T) {
		p := Gen(rt)
		before := map[string]string{}
		for _, pt := range p.Parts {
			before[pt.Name] = string(pt.Data())
		}
		text := p.Text()
		relsBefore := append([]Rel(nil), p.DocRels...)
		added := AddNumberedMedia(rt, &p)
		n++
		fail := func(msg string) {
			js, _ := json.Marshal(p)
			rt.Fatalf("%s\n%s", msg, js)
		}
		if msg := SelfCheck(p); msg != "" {
			fail(msg)
		}
		if p.Text() != text {
			fail("body text changed")
		}
		after := map[string]string{}
		for _, pt := range p.Parts {
			if _, dup := after[pt.Name]; dup {
				fail("part name twice: " + pt.Name)
			}
			after[pt.Name] = string(pt.Data())
		}
		for name, data := range before {
			if after[name] != data {
				fail("part " + name + " changed or gone")
			}
		}
		if len(after) != len(before)+len(added) {
			fail(fmt.Sprintf("%d parts before, %d added, %d after", len(before), len(added), len(after)))
		}
		nm := p.NumberedMedia()
		elsewhere := false
		for _, pt := range p.Parts {
			if pt.Kind == "media" && !strings.HasPrefix(pt.Name, "word/media/") {
				elsewhere = true
			}
		}
		if elsewhere {
			seen["family-outside-word/media"]++
		}
		for _, k := range added {
			if _, ok := nm[k]; !ok && !elsewhere {
				fail(fmt.Sprintf("image%d not among the numbered media", k))
			}
		}
		for i, r := range relsBefore { // the relationships the package had keep their place
			if p.DocRels[i] != r {
				fail("relationship " + r.ID + " of the main part changed")
			}
		}
		hi, lexAfter := -1, false
		for k := range nm {
			if k > hi {
				hi = k
			}
		}
		for k := range nm {
			if k < hi && fmt.Sprint(k) > fmt.Sprint(hi) {
				lexAfter = true
			}
		}
		if hi >= 10 {
			seen["number>=10"]++
		}
		if hi >= 100 {
			seen["number>=100"]++
		}
		if lexAfter {
			seen["lower-number-sorts-after-highest"]++
		}
		if p.MediaCount() >= 10 {
			seen["count>=10"]++
		}
		if p.MediaCount() >= 17 {
			seen["count>=17"]++
		}
		if _, ok := nm[0]; ok {
			seen["image0"]++
		}
	})
	for _, k := range []string{"number>=10", "number>=100", "lower-number-sorts-after-highest", "count>=10", "count>=17", "image0", "family-outside-word/media"} {
		if seen[k] == 0 {
			t.Errorf("%s never generated in %d cases", k, n)
		}
	}
	t.Logf("%d cases: %v", n, seen)
}

// Self-test of the header/footer family: still a consistent package, nothing the package had changes, and the
// family reaches ten and more parts.
func TestHeaderFooterFamilyPackagesAreConsistent(t *testing.T) {
	most := 0
	rapid.Check(t, func(rt *rapid.T) {
		p := Gen(rt)
		before := map[string]string{}
		for _, pt := range p.Parts {
			before[pt.Name] = string(pt.Data())
		}
		text := p.Text()
		relsBefore := append([]Rel(nil), p.DocRels...)
		sect := fmt.Sprintf("%+v", p.Sect)
		added := AddHeaderFooterFamily(rt, &p)
		fail := func(msg string) {
			js, _ := json.Marshal(p)
			rt.Fatalf("%s\n%s", msg, js)
		}
		if msg := SelfCheck(p); msg != "" {
			fail(msg)
		}
		if p.Text() != text || fmt.Sprintf("%+v", p.Sect) != sect {
			fail("body text or section properties changed")
		}
		after := map[string]string{}
		for _, pt := range p.Parts {
			if _, dup := after[pt.Name]; dup {
				fail("part name twice: " + pt.Name)
			}
			after[pt.Name] = string(pt.Data())
		}
		for name, data := range before {
			if after[name] != data {
				fail("part " + name + " changed or gone")
			}
		}
		if len(after) != len(before)+added || len(p.DocRels) != len(relsBefore)+added {
			fail(fmt.Sprintf("%d parts before, %d added, %d after", len(before), added, len(after)))
		}
		for i, r := range relsBefore {
			if p.DocRels[i] != r {
				fail("relationship " + r.ID + " of the main part changed")
			}
		}
		if n := p.HeaderFooterCount(); n > most {
			most = n
		}
		if p.HeaderFooterCount() < 10 {
			fail("fewer than ten header/footer parts")
		}
	})
	t.Logf("largest family: %d parts", most)
}

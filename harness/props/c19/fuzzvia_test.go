package c19

import (
	"testing"

	"wzverif/internal/kit"
)

// FuzzC19: coverage-guided search over the generator and oracle of TestC19 (thorough tier; see internal/kit/fuzz.go).
func FuzzC19(f *testing.F) { kit.FuzzVia(f, TestC19) }

package c19

import (
	"crypto/sha1"
	"fmt"
	"regexp"
	"strings"
	"unicode"

	"github.com/zerx-lab/wordZero/pkg/document"

	"wzverif/internal/kit"
	"wzverif/internal/opc"
	"wzverif/internal/xmlwf"
)

// ---------------------------------------------------------------------------------------------
// M0: the saved package (same judgement as C01.P1-P4)

// wfCheck is xmlwf.Check memoised on the part's bytes: styles, settings and the other constant parts are
// byte-identical in every converted document, only word/document.xml (and numbering/footnotes) vary.
var wfSeen = map[[20]byte]error{}

func wfCheck(b []byte) error {
	h := sha1.Sum(b)
	if err, ok := wfSeen[h]; ok {
		return err
	}
	err := xmlwf.Check(b)
	if len(wfSeen) < 4096 {
		wfSeen[h] = err
	}
	return err
}

// sampleConstant: word/styles.xml does not depend on the Markdown input at all (the converter only refers to
// style ids; the part is written from the built-in style set, in map order, so it is not byte-identical and the
// memo above cannot help) and costs half of a small case. In the quick tier it is parsed for every fourth case,
// chosen by a hash of the input; in the thorough tier for every case. All other parts are always parsed.
func sampleConstant(src []byte) bool {
	return kit.Tier == "thorough" || sha1.Sum(src)[0]%4 == 0
}

func checkPackage(res *kit.Result, b []byte, where string, withStyles bool) (pkg *opc.Package) {
	const cl = "C19.M0"
	pkg, err := opc.Read(b)
	if err != nil {
		res.Fail(cl, "%s: not a readable zip: %v", where, err)
		return nil
	}
	if len(pkg.Dups) > 0 {
		res.Fail(cl, "%s: duplicate zip entries %v", where, pkg.Dups)
	}
	for _, name := range pkg.SortedNames() {
		if strings.HasSuffix(name, "/") {
			continue
		}
		if name == "word/styles.xml" && !withStyles {
			res.Count("styles_part_not_parsed", 1)
			continue
		}
		if pkg.IsXMLPart(name) {
			if err := wfCheck(pkg.Parts[name]); err != nil {
				res.Fail(cl, "%s: part %q is not well-formed: %v", where, name, err)
			}
		}
	}
	if pkg.CTErr != nil {
		res.Fail(cl, "%s: content types: %v", where, pkg.CTErr)
	}
	if _, ok := pkg.Parts["_rels/.rels"]; !ok {
		res.Fail(cl, "%s: _rels/.rels missing", where)
	} else if e := pkg.RelErr["_rels/.rels"]; e != nil {
		res.Fail(cl, "%s: _rels/.rels: %v", where, e)
	} else {
		mains := pkg.MainParts()
		if len(mains) != 1 {
			res.Fail(cl, "%s: %d officeDocument relationships in _rels/.rels", where, len(mains))
		} else {
			tgt := mains[0].Resolved
			if _, ok := pkg.Parts[tgt]; !ok {
				res.Fail(cl, "%s: main document target %q is not in the package", where, mains[0].Target)
			} else if ct, _ := pkg.ContentTypeOf(tgt); !strings.Contains(ct, "wordprocessingml.document.main+xml") {
				res.Fail(cl, "%s: main part %q has content type %q", where, tgt, ct)
			}
		}
	}
	for _, name := range pkg.SortedNames() {
		if name == "[Content_Types].xml" || strings.HasSuffix(name, "/") {
			continue
		}
		if _, ok := pkg.ContentTypeOf(name); !ok {
			res.Fail(cl, "%s: part %q has no content type", where, name)
		}
	}
	return pkg
}

// ---------------------------------------------------------------------------------------------
// the converted document, seen through its public in-memory model

type acell struct {
	cs []ch
	jc string
}

type ablk struct {
	kind  string // h p tbl
	level int
	style string
	jc    string // paragraph alignment (package reading only; not judged for paragraphs)
	cs    []ch   // raw, not collapsed
	rows  [][]acell
	num   *numRef // the paragraph's w:numPr (nil = none): the paragraph is a list item
}

var headingRe = regexp.MustCompile(`^Heading([1-9])$`)

var monoFonts = map[string]bool{"consolas": true, "courier new": true, "courier": true, "monaco": true, "menlo": true,
	"lucida console": true, "dejavu sans mono": true, "source code pro": true, "monospace": true, "cascadia code": true, "cascadia mono": true}

// isMono: the font name is one of the usual fixed-pitch faces or says so itself
func isMono(name string) bool {
	n := strings.ToLower(strings.TrimSpace(name))
	if monoFonts[n] {
		return true
	}
	for _, w := range []string{"mono", "courier", "consol", "code", "typewriter", "terminal", "fixed"} {
		if strings.Contains(n, w) {
			return true
		}
	}
	return false
}

func runFlags(p *document.RunProperties) uint8 {
	var f uint8
	if p == nil {
		return 0
	}
	if p.Bold != nil {
		f |= fB
	}
	if p.Italic != nil {
		f |= fI
	}
	if p.Strike != nil {
		f |= fS
	}
	if ff := p.FontFamily; ff != nil {
		for _, n := range []string{ff.ASCII, ff.HAnsi, ff.EastAsia, ff.CS} {
			if isMono(n) {
				f |= fC
			}
		}
	}
	return f
}

func paraChars(p *document.Paragraph) []ch {
	var out []ch
	for i := range p.Runs {
		r := &p.Runs[i]
		out = append(out, strChars(r.Text.Content, runFlags(r.Properties))...)
	}
	return out
}

func observe(doc *document.Document) []ablk {
	var out []ablk
	if doc == nil || doc.Body == nil {
		return out
	}
	for _, e := range doc.Body.Elements {
		switch x := e.(type) {
		case *document.Paragraph:
			a := ablk{kind: "p", cs: paraChars(x)}
			if x.Properties != nil && x.Properties.ParagraphStyle != nil {
				a.style = x.Properties.ParagraphStyle.Val
				if m := headingRe.FindStringSubmatch(a.style); m != nil {
					a.kind = "h"
					a.level = int(m[1][0] - '0')
				}
			}
			if x.Properties != nil && x.Properties.NumberingProperties != nil {
				np := x.Properties.NumberingProperties
				a.num = &numRef{}
				if np.NumID != nil {
					a.num.id = np.NumID.Val
				}
				if np.ILevel != nil {
					a.num.ilvl = np.ILevel.Val
				}
			}
			out = append(out, a)
		case *document.Table:
			a := ablk{kind: "tbl"}
			for ri := range x.Rows {
				var row []acell
				for ci := range x.Rows[ri].Cells {
					c := &x.Rows[ri].Cells[ci]
					var ac acell
					for pi := range c.Paragraphs {
						if pi > 0 {
							ac.cs = append(ac.cs, ch{' ', 0})
						}
						ac.cs = append(ac.cs, paraChars(&c.Paragraphs[pi])...)
						if pi == 0 && c.Paragraphs[pi].Properties != nil && c.Paragraphs[pi].Properties.Justification != nil {
							ac.jc = c.Paragraphs[pi].Properties.Justification.Val
						}
					}
					row = append(row, ac)
				}
				a.rows = append(a.rows, row)
			}
			out = append(out, a)
		}
	}
	return out
}

func blankChars(cs []ch) bool {
	for _, c := range cs {
		if !unicode.IsSpace(c.r) {
			return false
		}
	}
	return true
}

// glyphs that stand for list markers and check boxes: not text
const bulletRunes = "•◦▪●○■□‣·-*+"
const boxRunes = "☐☑☒✓✔"

// stripBox removes leading indentation and one check-box glyph (a task item that is a real list paragraph: bullet
// and indentation come from the numbering definition, the box - whose state is not judged - may be in the text).
func stripBox(cs []ch) []ch {
	i := 0
	for i < len(cs) && unicode.IsSpace(cs[i].r) {
		i++
	}
	if i < len(cs) && strings.ContainsRune(boxRunes, cs[i].r) {
		i++
		for i < len(cs) && unicode.IsSpace(cs[i].r) {
			i++
		}
		return cs[i:]
	}
	return cs
}

// stripMarker removes leading indentation, one bullet or number, and one check-box glyph. Only for a list item that
// is NOT a list paragraph (no w:numPr), i.e. whose marker can only be literal text: in a list paragraph the marker
// comes from the numbering definition and every character of the paragraph is the item's own text.
func stripMarker(cs []ch) []ch {
	i := 0
	skipSp := func() {
		for i < len(cs) && unicode.IsSpace(cs[i].r) {
			i++
		}
	}
	skipSp()
	if i < len(cs) && strings.ContainsRune(bulletRunes, cs[i].r) {
		i++
	} else {
		j := i
		for j < len(cs) && cs[j].r >= '0' && cs[j].r <= '9' {
			j++
		}
		if j > i && j < len(cs) && (cs[j].r == '.' || cs[j].r == ')') {
			i = j + 1
		}
	}
	skipSp()
	if i < len(cs) && strings.ContainsRune(boxRunes, cs[i].r) {
		i++
	} else if i+2 < len(cs) && cs[i].r == '[' && cs[i+2].r == ']' && strings.ContainsRune(" xX", cs[i+1].r) {
		i += 3
	}
	skipSp()
	return cs[i:]
}

func squeeze(cs []ch) string { // text without any white space
	var sb strings.Builder
	for _, c := range cs {
		if !unicode.IsSpace(c.r) {
			sb.WriteRune(c.r)
		}
	}
	return sb.String()
}

func flagStr(f uint8) string {
	s := ""
	for i, n := range []string{"bold", "italic", "strike", "code"} {
		if f&(1<<uint(i)) != 0 {
			s += n + " "
		}
	}
	if s == "" {
		return "plain"
	}
	return strings.TrimSpace(s)
}

// flagDiff compares the flags of the non-blank characters (the texts are already known to be equal
// up to white space). mask removes flags that are not judged in this context.
func flagDiff(exp, act []ch, mask uint8) string {
	i, j := 0, 0
	for {
		for i < len(exp) && unicode.IsSpace(exp[i].r) {
			i++
		}
		for j < len(act) && unicode.IsSpace(act[j].r) {
			j++
		}
		if i >= len(exp) || j >= len(act) {
			return ""
		}
		if exp[i].f&fAny == 0 {
			if e, a := exp[i].f&^mask, act[j].f&^mask; e != a {
				return fmt.Sprintf("character %q (#%d of %q) should be %s, is %s", exp[i].r, i, sh(csText(exp)), flagStr(e), flagStr(a))
			}
		}
		i++
		j++
	}
}

func normAlign(s string) string {
	switch strings.ToLower(s) {
	case "", "left", "start", "both":
		return "left"
	case "end":
		return "right"
	}
	return strings.ToLower(s)
}

// judge evaluates M1..M6 of one fidelity case. Every failure detail starts with "@<top> ", the index of the
// top-level source block it belongs to, so that known-finding triggers can look at exactly that block.
// tablesOff: tables are parsed (GFM) but switched off in the converter; then only M1 is stated for them.
// nums: the numbering part of the saved package when act is the independent reading of that package - then the list
// clause M8 is judged as well; nil when act is the in-memory model (M8 is stated for the package only).
func judge(res *kit.Result, exp []xblk, act []ablk, tablesOff bool, nums *numbering) {
	// ---- M1: same visible text, white space aside
	res.Eval("C19.M1")
	var units []string // expected text per top-level source block, white space removed
	var tops []int
	for _, e := range exp {
		if len(tops) == 0 || tops[len(tops)-1] != e.top {
			tops = append(tops, e.top)
			units = append(units, "")
		}
		u := &units[len(units)-1]
		switch e.kind {
		case "h", "p":
			*u += squeeze(e.cs)
		case "code":
			*u += squeeze(strChars(e.line, 0))
		case "tbl":
			for _, r := range e.tbl.cells {
				for _, c := range r {
					*u += squeeze(c)
				}
			}
		}
	}
	hasTask := false
	for _, e := range exp {
		hasTask = hasTask || e.task
	}
	var asb strings.Builder
	for _, a := range act {
		// marker glyphs are not text - in a paragraph that is not a list paragraph; a list paragraph (w:numPr) gets its
		// marker from the numbering definition, so there only a check box at the very start is set aside, and only
		// when the input has a task item at all (which paragraph belongs to it is M2's business)
		glyphs := "•☐☑"
		add := func(cs []ch) {
			for _, c := range cs {
				if !unicode.IsSpace(c.r) && !strings.ContainsRune(glyphs, c.r) {
					asb.WriteRune(c.r)
				}
			}
		}
		if a.num != nil {
			glyphs = ""
			if hasTask {
				add(stripBox(a.cs))
			} else {
				add(a.cs)
			}
		} else {
			add(a.cs)
		}
		glyphs = "•☐☑"
		for _, r := range a.rows {
			for _, c := range r {
				add(c.cs)
			}
		}
	}
	if as := asb.String(); strings.Join(units, "") != as {
		// Which blocks are to blame? The blocks whose text is not found, in order, in the document (those the best
		// in-order placement of whole block texts has to leave out), and for text nobody expected the blocks on
		// both sides of it. One failure each, so that every one is attributed on its own.
		at := placeUnits(units, as)
		n := 0
		fail := func(format string, a ...interface{}) {
			if n++; n <= 8 {
				res.Fail("C19.M1", format, a...)
			}
		}
		show := func(s string) string { return trunc(strings.ToValidUTF8(s, "?"), 80) }
		prevEnd, prevTop := 0, -1
		var pending []int
		cur := 0 // index of the unit the gap ends at (len(units) for the tail)
		flush := func(gap string, top int) {
			switch {
			case len(pending) > 0:
				for _, i := range pending {
					// a neighbour with the very same text may be the one that is really missing
					lo, hi := i, i
					for lo > 0 && (units[lo-1] == "" || units[lo-1] == units[i]) {
						lo--
					}
					for hi+1 < len(units) && (units[hi+1] == "" || units[hi+1] == units[i]) {
						hi++
					}
					for units[lo] == "" {
						lo++
					}
					for units[hi] == "" {
						hi--
					}
					// The text of this block may be in the document after all, overlapping the place a neighbour was
					// given: the neighbour lost its last (first) characters and the same characters begin (end) this
					// block ("...E" flattened away before "E r2d2"), so the placement completed the neighbour with
					// them. Which of the two was altered cannot be told from the text: both are named.
					p, q := -1, -1
					for j := i - 1; j >= 0; j-- {
						if units[j] != "" && at[j] >= 0 {
							p = j
							break
						}
					}
					for j := i + 1; j < len(units); j++ {
						if units[j] != "" && at[j] >= 0 {
							q = j
							break
						}
					}
					from, to := 0, len(as)
					if p >= 0 {
						from = at[p] + len(units[p])
					}
					if q >= 0 {
						to = at[q]
					}
					if p >= 0 && p < lo && strings.Contains(as[at[p]:to], units[i]) {
						lo = p
					}
					if q >= 0 && q > hi && strings.Contains(as[from:at[q]+len(units[q])], units[i]) {
						hi = q
					}
					where := "@" + itoa(tops[i])
					if lo != hi {
						where = "@" + itoa(tops[lo]) + "-" + itoa(tops[hi])
					}
					fail("%s visible text differs: the text of block %d, %q, is not in the document at its place; there the document has %q", where, tops[i], show(units[i]), show(gap))
				}
			case gap != "":
				// a unit placed at the first of several possible offsets ("alpha" inside the remains of the altered
				// block before it) leaves those remains behind it: the nearest unplaced block on either side is
				// named as well
				lo, hi := prevTop, top
				for j := cur - 1; j >= 0; j-- {
					if units[j] != "" && at[j] < 0 {
						if lo < 0 || tops[j] < lo {
							lo = tops[j]
						}
						break
					}
				}
				for j := cur; j >= 0 && j < len(units); j++ {
					if units[j] != "" && at[j] < 0 {
						if tops[j] > hi {
							hi = tops[j]
						}
						break
					}
				}
				if lo < 0 {
					lo = hi
				}
				if hi < 0 {
					hi = lo
				}
				if lo < 0 {
					lo, hi = 0, 0
				}
				if lo == hi {
					fail("@%d visible text differs: the document has text nobody wrote, %q, next to this block", lo, show(gap))
				} else {
					fail("@%d-%d visible text differs: the document has text nobody wrote, %q, between these blocks", lo, hi, show(gap))
				}
			}
			pending = pending[:0]
		}
		for i, u := range units {
			if u == "" {
				continue
			}
			if at[i] < 0 {
				pending = append(pending, i)
				continue
			}
			cur = i
			flush(as[prevEnd:at[i]], tops[i])
			prevEnd, prevTop = at[i]+len(u), tops[i]
		}
		cur = len(units)
		flush(as[prevEnd:], -1)
		if n == 0 { // cannot happen (the texts differ), but never let a difference pass silently
			res.Fail("C19.M1", "@0 visible text differs: expected %q, document has %q", show(strings.Join(units, "")), show(as))
		}
	}

	// ---- M2..M6: aligned walk
	res.Eval("C19.M2")
	j := 0
	for _, e := range exp {
		if e.kind == "hr" {
			if j < len(act) && act[j].kind == "p" && blankChars(act[j].cs) {
				j++
			}
			continue
		}
		if e.kind == "tbl" && tablesOff {
			res.Count("unjudged_after_tables_off", 1)
			return
		}
		if j >= len(act) {
			res.Fail("C19.M2", "@%d block missing: expected %s %q, document ends after %d elements", e.top, e.kind, sh(csText(e.cs)+e.line), len(act))
			return
		}
		a := act[j]
		j++
		// outside any list no list marker may be drawn in front of a block (M8; judged once the block has been
		// recognised as the expected one, so that a walk that lost its place says nothing)
		notListed := func() {
			if nums == nil || e.depth >= 0 {
				return
			}
			res.Eval("C19.M8")
			if a.num != nil && strings.TrimLeft(a.num.id, "0") != "" {
				res.Fail("C19.M8", "@%d the %s block %q, which is outside any list, is a list paragraph (w:numPr with w:numId %q, w:ilvl %q): a marker nobody wrote is drawn in front of it", e.top, e.kind, sh(csText(e.cs)+e.line), a.num.id, a.num.ilvl)
			}
		}
		switch e.kind {
		case "h":
			res.Eval("C19.M3")
			if a.kind != "h" {
				res.Fail("C19.M3", "@%d heading %q (level %d) became a %s with style %q and text %q", e.top, sh(csText(e.cs)), e.level, a.kind, a.style, sh(csText(a.cs)))
				return
			}
			if a.level != e.level {
				res.Fail("C19.M3", "@%d heading %q of level %d carries style %q", e.top, sh(csText(e.cs)), e.level, a.style)
			}
			if got := csText(collapse(a.cs)); got != csText(e.cs) {
				res.Fail("C19.M3", "@%d heading text %q became %q", e.top, sh(csText(e.cs)), sh(got))
				return
			}
			notListed()
			res.Eval("C19.M4")
			// the heading style itself may be bold/italic: only flags the style cannot explain are judged
			if d := flagDiff(e.cs, collapse(a.cs), fB|fI); d != "" {
				res.Fail("C19.M4", "@%d heading: %s", e.top, d)
			} else if d := missingFlags(e.cs, collapse(a.cs)); d != "" {
				res.Fail("C19.M4", "@%d heading: %s", e.top, d)
			}
		case "p":
			if a.kind != "p" {
				res.Fail("C19.M2", "@%d paragraph %q became a %s (style %q, text %q)", e.top, sh(csText(e.cs)), a.kind, a.style, sh(csText(a.cs)))
				return
			}
			acs := a.cs
			if e.item {
				switch {
				case a.num == nil: // not a list paragraph: a marker can only be literal text, which is not the item's text
					acs = stripMarker(acs)
				case e.task:
					acs = stripBox(acs)
				}
			}
			acs = collapse(acs)
			if csText(acs) != csText(e.cs) {
				if nums != nil && e.item && !e.task && a.num != nil && csText(collapse(stripMarker(a.cs))) == csText(e.cs) {
					res.Fail("C19.M8", "@%d list item%s %q is a list paragraph AND carries a marker in its text: %q", e.top, flatNote(e), sh(csText(e.cs)), sh(csText(a.cs)))
				}
				res.Fail("C19.M2", "@%d block text %q became %q", e.top, sh(csText(e.cs)), sh(csText(a.cs)))
				return
			}
			if nums != nil && e.item && !e.task {
				judgeItem(res, e, a, nums)
			}
			notListed()
			res.Eval("C19.M4")
			if d := flagDiff(e.cs, acs, 0); d != "" {
				res.Fail("C19.M4", "@%d %s", e.top, d)
			}
		case "code":
			res.Eval("C19.M5")
			if a.kind != "p" {
				res.Fail("C19.M5", "@%d code line %q became a %s (style %q)", e.top, sh(e.line), a.kind, a.style)
				return
			}
			got := csText(a.cs)
			got = strings.TrimSuffix(strings.TrimSuffix(got, "\n"), "\r")
			if strings.TrimSpace(e.line) == "" {
				if strings.TrimSpace(got) != "" {
					res.Fail("C19.M5", "@%d blank code line became %q", e.top, sh(got))
					return
				}
			} else if got != e.line {
				res.Fail("C19.M5", "@%d code line %q became %q", e.top, shDiff(e.line, got), sh(got))
				return
			}
			if strings.TrimSpace(e.line) != "" { // a blank line is no evidence that the walk is still in place
				notListed()
			}
		case "tbl":
			res.Eval("C19.M6")
			if a.kind != "tbl" {
				res.Fail("C19.M6", "@%d table became a %s (style %q, text %q)", e.top, a.kind, a.style, sh(csText(a.cs)))
				return
			}
			t := e.tbl
			if len(a.rows) != len(t.cells) {
				res.Fail("C19.M6", "@%d table of %d rows became %d rows", e.top, len(t.cells), len(a.rows))
				return
			}
			for r := range t.cells {
				if len(a.rows[r]) != len(t.cells[r]) {
					res.Fail("C19.M6", "@%d table row %d of %d columns became %d cells", e.top, r, len(t.cells[r]), len(a.rows[r]))
					return
				}
			}
			for r := range t.cells {
				for c := range t.cells[r] {
					ec, ac := t.cells[r][c], collapse(a.rows[r][c].cs)
					if csText(ec) != csText(ac) {
						res.Fail("C19.M6", "@%d cell (%d,%d) text %q became %q", e.top, r, c, sh(csText(ec)), sh(csText(ac)))
						continue
					}
					if normAlign(a.rows[r][c].jc) != normAlign(t.aligns[c]) {
						res.Fail("C19.M6", "@%d cell (%d,%d): column alignment %q, cell has w:jc %q", e.top, r, c, normAlign(t.aligns[c]), a.rows[r][c].jc)
					}
					var mask uint8
					if r == 0 {
						mask = fB // header cells may be bold by themselves
					}
					if d := flagDiff(ec, ac, mask); d != "" {
						res.Fail("C19.M4", "@%d cell (%d,%d): %s", e.top, r, c, d)
					}
				}
			}
		}
	}
	for ; j < len(act); j++ {
		if act[j].kind == "p" && blankChars(act[j].cs) {
			continue
		}
		top := 0
		if len(exp) > 0 {
			top = exp[len(exp)-1].top
		}
		res.Fail("C19.M2", "@%d the document has an extra %s element %q after the last expected block", top, act[j].kind, sh(csText(act[j].cs)))
		return
	}
}

// flatNote marks, in an M8 failure, an item that sits inside a block quote or a multi-block list item (the containers
// of the open finding KF-C19-flatten-blocks; its trigger looks for this note)
const flatMark = " (inside a block quote or a list item holding more than one paragraph)"

func flatNote(e xblk) string {
	if e.flat {
		return flatMark
	}
	return ""
}

// judgeItem (M8): a plain (non-task) list item is a list paragraph of the right kind at the right level, as a
// consumer of the package resolves it: w:numPr -> w:num -> w:abstractNum -> w:lvl of the paragraph's w:ilvl ->
// w:numFmt "bullet" for an item of a bullet list, "decimal" for an item of an ordered list; w:ilvl = number of lists
// the item is nested in, minus one. Nothing is demanded about start numbers or restarts.
func judgeItem(res *kit.Result, e xblk, a ablk, nums *numbering) {
	res.Eval("C19.M8")
	kind, want := "bullet", "bullet"
	if e.ord {
		kind, want = "ordered", "decimal"
	}
	if a.num == nil {
		res.Fail("C19.M8", "@%d %s list item%s %q is not a list paragraph: the paragraph %q has no w:numPr", e.top, kind, flatNote(e), sh(csText(e.cs)), sh(csText(a.cs)))
		return
	}
	f, why := nums.format(a.num)
	if why != "" {
		res.Fail("C19.M8", "@%d %s list item%s %q: its w:numPr (w:numId %q, w:ilvl %q) does not resolve: %s", e.top, kind, flatNote(e), sh(csText(e.cs)), a.num.id, a.num.ilvl, why)
	} else if f != want {
		res.Fail("C19.M8", "@%d %s list item%s %q: level %s of its numbering (w:numId %q) has w:numFmt %q, not %q", e.top, kind, flatNote(e), sh(csText(e.cs)), a.num.level(), a.num.id, f, want)
	}
	if lv := strings.TrimSpace(a.num.level()); lv != itoa(e.depth) {
		res.Fail("C19.M8", "@%d %s list item%s %q is nested in %d list(s) and has w:ilvl %q, not %d", e.top, kind, flatNote(e), sh(csText(e.cs)), e.depth+1, a.num.ilvl, e.depth)
	}
}

// sh shortens a text for a failure message (a long line or paragraph is shown by its first 200 bytes and its length)
func sh(s string) string {
	if len(s) <= 200 {
		return s
	}
	return strings.ToValidUTF8(s[:200], "") + "…(" + itoa(len(s)) + " bytes)"
}

// shDiff: the expected line, shortened; a long one is shown around the first byte that differs from got
func shDiff(exp, got string) string {
	if len(exp) <= 200 {
		return exp
	}
	i := 0
	for i < len(exp) && i < len(got) && exp[i] == got[i] {
		i++
	}
	if i < 100 {
		return sh(exp)
	}
	end := i + 100
	if end > len(exp) {
		end = len(exp)
	}
	return "…" + strings.ToValidUTF8(exp[i-100:end], "") + "…(" + itoa(len(exp)) + " bytes, first difference at byte " + itoa(i) + ")"
}

// missingFlags: every flag the reference demands must be present (used where extra bold/italic may come from a style).
func missingFlags(exp, act []ch) string {
	i, j := 0, 0
	for {
		for i < len(exp) && unicode.IsSpace(exp[i].r) {
			i++
		}
		for j < len(act) && unicode.IsSpace(act[j].r) {
			j++
		}
		if i >= len(exp) || j >= len(act) {
			return ""
		}
		if exp[i].f&fAny == 0 && exp[i].f&^act[j].f != 0 {
			return fmt.Sprintf("character %q (#%d of %q) should be %s, is %s", exp[i].r, i, sh(csText(exp)), flagStr(exp[i].f), flagStr(act[j].f))
		}
		i++
		j++
	}
}

// placeUnits finds the in-order, non-overlapping placement of whole unit texts in s that covers the most text
// (ties: place rather than skip) and returns the byte offset of every placed unit, -1 for the units left out.
// Placing a unit at its earliest possible offset is never worse than placing it later, so only that is tried.
func placeUnits(units []string, s string) []int {
	type key struct{ i, pos int }
	memo := map[key]int{}
	next := func(i, pos int) int {
		if k := strings.Index(s[pos:], units[i]); k >= 0 {
			return pos + k
		}
		return -1
	}
	var f func(i, pos int) int
	f = func(i, pos int) int {
		if i == len(units) {
			return 0
		}
		if units[i] == "" {
			return f(i+1, pos)
		}
		k := key{i, pos}
		if v, ok := memo[k]; ok {
			return v
		}
		best := f(i+1, pos)
		if q := next(i, pos); q >= 0 {
			if v := len(units[i]) + f(i+1, q+len(units[i])); v >= best {
				best = v
			}
		}
		memo[k] = best
		return best
	}
	at := make([]int, len(units))
	pos := 0
	for i := range units {
		at[i] = -1
		if units[i] == "" {
			continue
		}
		if q := next(i, pos); q >= 0 && len(units[i])+f(i+1, q+len(units[i])) >= f(i+1, pos) {
			at[i] = q
			pos = q + len(units[i])
		}
	}
	return at
}

package c19

import (
	"strconv"
	"strings"
)

// Character references (CommonMark 2.5 / 6.2) as the reading sees them. A word of ordinary text that starts with
// '&' is a reference only if it is "&name;" with name one of the HTML5 entity names - exactly as spelled, names are
// case-sensitive -, or "&#d;" with 1-7 decimal digits, or "&#xh;" / "&#Xh;" with 1-6 hex digits (an invalid code
// point reads as U+FFFD). Everything else that looks similar is the literal text as typed.
//
// namedRefs is the part of the HTML5 table the generator draws from, written down from the HTML5 list of named
// character references (not from the library or from goldmark); the second reference of every case (goldmark's
// HTML) and the self-test guard against a slip in it.
var namedRefs = map[string]string{
	"amp": "&", "AMP": "&", "lt": "<", "LT": "<", "Lt": "≪", "gt": ">", "GT": ">", "Gt": "≫", "quot": "\"", "QUOT": "\"", "apos": "'",
	"copy": "©", "COPY": "©", "reg": "®", "REG": "®", "trade": "™", "TRADE": "™",
	"euro": "€", "pound": "£", "yen": "¥", "cent": "¢", "sect": "§", "para": "¶", "deg": "°",
	"plusmn": "±", "times": "×", "divide": "÷", "frac12": "½", "hearts": "♥", "hellip": "…", "mdash": "—", "ndash": "–",
	"laquo": "«", "raquo": "»", "alpha": "α", "Alpha": "Α", "beta": "β", "Beta": "Β", "omega": "ω", "Omega": "Ω",
	"eacute": "é", "Eacute": "É", "ouml": "ö", "Ouml": "Ö", "szlig": "ß", "ntilde": "ñ", "Ntilde": "Ñ",
	"ccedil": "ç", "Ccedil": "Ç", "aring": "å", "Aring": "Å", "oslash": "ø", "Oslash": "Ø", "thorn": "þ", "THORN": "Þ",
	"eth": "ð", "ETH": "Ð", "aelig": "æ", "AElig": "Æ", "ne": "≠", "le": "≤", "ge": "≥", "infin": "∞",
	"rarr": "→", "rArr": "⇒", "Rarr": "↠", "larr": "←", "nbsp": " ", "NotEqualTilde": "≂̸",
}

// crefWords: the words the generator draws. Valid references in every spelling the table has, the same names in
// spellings the table does not have (first letter / all letters in the other case, a letter more or less, no
// semicolon), names that are no entity in any spelling, numeric references at and beyond their limits.
var crefWords = func() []string {
	out := []string{
		// no reference in this spelling (the lower-case, upper-case or shorter name is one)
		"&Copy;", "&Euro;", "&EURO;", "&Pound;", "&POUND;", "&Nbsp;", "&NBSP;", "&Amp;", "&Quot;", "&Hearts;", "&HEARTS;", "&Szlig;", "&SZLIG;",
		"&Hellip;", "&Mdash;", "&MDASH;", "&Reg;", "&Yen;", "&YEN;", "&Frac12;", "&FRAC12;", "&Infin;", "&ALPHA;", "&EACUTE;", "&Thorn;", "&Aelig;", "&AELIG;",
		"&Times;", "&Deg;", "&Sect;", "&Laquo;", "&Trade;", "&aMP;", "&lT;", "&cOPY;", "&Apos;", "&APOS;", "&notequaltilde;",
		"&copyx;", "&xcopy;", "&cop;", "&copyright;", "&ampamp;", "&amp1;", "&euros;", "&nbs;",
		// no entity at all
		"&foo;", "&x1;", "&Zeta9;", "&q;", "&1;", "&;",
		// no semicolon
		"&copy", "&amp", "&lt", "&nbsp", "&#35", "&#x41", "&copy,", "&amp.", "&euro!", "&#35,",
		// numeric references
		"&#35;", "&#x41;", "&#X41;", "&#x1F600;", "&#x1f600;", "&#8364;", "&#233;", "&#124;", "&#42;", "&#0;", "&#xD800;", "&#1114112;", "&#9999999;", "&#x10FFFF;", "&#x110000;", "&#xFFFFFF;", "&#0000065;", "&#x000041;",
		// beyond the limits: literal
		"&#;", "&#x;", "&#X;", "&#12345678;", "&#00000065;", "&#x1234567;", "&#x0000041;", "&#xG;", "&#12a;", "&#-35;",
	}
	for n := range namedRefs {
		out = append(out, "&"+n+";")
	}
	sortStrings(out)
	return out
}()

func sortStrings(a []string) { // (sort.Strings; kept local so that the table file has no further dependency)
	for i := 1; i < len(a); i++ {
		for j := i; j > 0 && a[j] < a[j-1]; j-- {
			a[j], a[j-1] = a[j-1], a[j]
		}
	}
}

func isAlnum(c byte) bool {
	return c >= '0' && c <= '9' || c >= 'a' && c <= 'z' || c >= 'A' && c <= 'Z'
}

// refAt: s starts with '&'. Returns the characters of the reference at the start of s and its length in bytes, or
// 0 if there is no reference.
func refAt(s string) (string, int) {
	if len(s) < 3 {
		return "", 0
	}
	if s[1] != '#' {
		i := 1
		for i < len(s) && isAlnum(s[i]) {
			i++
		}
		if i == 1 || i >= len(s) || s[i] != ';' {
			return "", 0
		}
		if v, ok := namedRefs[s[1:i]]; ok {
			return v, i + 1
		}
		return "", 0
	}
	start, base, max := 2, 10, 7
	if len(s) > 2 && (s[2] == 'x' || s[2] == 'X') {
		start, base, max = 3, 16, 6
	}
	i := start
	for i < len(s) && (s[i] >= '0' && s[i] <= '9' || base == 16 && (s[i] >= 'a' && s[i] <= 'f' || s[i] >= 'A' && s[i] <= 'F')) {
		i++
	}
	if i == start || i-start > max || i >= len(s) || s[i] != ';' {
		return "", 0
	}
	v, err := strconv.ParseUint(s[start:i], base, 32)
	if err != nil || v == 0 || v > 0x10FFFF || v >= 0xD800 && v <= 0xDFFF {
		return "�", i + 1
	}
	return string(rune(v)), i + 1
}

// resolveRefs: the text a reader sees for ordinary text s
func resolveRefs(s string) string {
	if !strings.Contains(s, "&") {
		return s
	}
	var sb strings.Builder
	for i := 0; i < len(s); {
		if s[i] == '&' {
			if v, n := refAt(s[i:]); n > 0 {
				sb.WriteString(v)
				i += n
				continue
			}
		}
		sb.WriteByte(s[i])
		i++
	}
	return sb.String()
}

// isCref: the word came from crefWords (labels)
func isCref(w string) bool {
	return len(w) > 1 && w[0] == '&'
}

package c19

import (
	"bytes"
	"strconv"
	"strings"

	"wzverif/internal/kit"
)

// ---- construct-level shape predicates on one top-level block of the AST -------------------------------

// eachInl calls fn for every inline list of the block with its context:
// p (paragraph outside any container), h, li, bq (paragraph/heading text inside a list item / quote), cell, hcell.
func eachInl(b Blk, ctx string, fn func(ctx string, xs []Inl)) {
	switch b.K {
	case "h":
		if ctx == "" {
			fn("h", b.I)
		} else {
			fn(ctx, b.I)
		}
	case "p":
		if ctx == "" {
			fn("p", b.I)
		} else {
			fn(ctx, b.I)
		}
	case "bq":
		for _, c := range b.B {
			eachInl(c, "bq", fn)
		}
	case "ul", "ol":
		for _, it := range b.Items {
			for _, c := range it.B {
				eachInl(c, "li", fn)
			}
		}
	case "tbl":
		for _, c := range b.Head {
			fn("hcell", c)
		}
		for _, r := range b.Rows {
			for _, c := range r {
				fn("cell", c)
			}
		}
	}
}

func anyInl(xs []Inl, pred func(Inl) bool) bool {
	for _, x := range xs {
		if pred(x) || anyInl(x.C, pred) {
			return true
		}
	}
	return false
}

func hasKind(b Blk, kinds ...string) bool {
	found := false
	eachInl(b, "", func(_ string, xs []Inl) {
		if anyInl(xs, func(x Inl) bool {
			for _, k := range kinds {
				if x.K == k {
					return true
				}
			}
			return false
		}) {
			found = true
		}
	})
	return found
}

func isSpan(k string) bool { return k == "em" || k == "st" || k == "del" || k == "link" }

// a formatting span (emphasis, strong, strike-through, link) in a top-level paragraph that has, at any depth, a
// flag-bearing span, a code span or a line break inside. The converter replaces such a span by its flattened text
// under the outer flag only. A link inside a span (or plain text only) loses nothing and is not in the class.
func shapeNestedInline(b Blk) bool {
	found := false
	eachInl(b, "", func(ctx string, xs []Inl) {
		if ctx != "p" {
			return
		}
		if anyInl(xs, func(x Inl) bool { return isSpan(x.K) && formatted(x.C) }) {
			found = true
		}
	})
	return found
}

func formatted(xs []Inl) bool {
	return anyInl(xs, func(x Inl) bool {
		return x.K == "em" || x.K == "st" || x.K == "del" || x.K == "code" || x.K == "sb" || x.K == "hb"
	})
}

// inline formatting or a line break inside a heading, a list item or a block quote
func shapeFlattenInline(b Blk) bool {
	found := false
	eachInl(b, "", func(ctx string, xs []Inl) {
		if (ctx == "h" || ctx == "li" || ctx == "bq") && formatted(xs) {
			found = true
		}
	})
	return found
}

// a table cell whose formatting is anything but "the whole body cell is one emphasis / strong span"
func shapeCellInline(b Blk) bool {
	found := false
	eachInl(b, "", func(ctx string, xs []Inl) {
		if ctx != "cell" && ctx != "hcell" {
			return
		}
		if !formatted(xs) {
			return
		}
		if ctx == "cell" && len(xs) == 1 && (xs[0].K == "em" || xs[0].K == "st") && !formatted(xs[0].C) {
			return
		}
		found = true
	})
	return found
}

func onePara(bs []Blk) bool { return len(bs) == 1 && bs[0].K == "p" }

// a list item or block quote whose content is anything but exactly one paragraph
func shapeFlattenBlocks(b Blk) bool {
	switch b.K {
	case "bq":
		return !onePara(b.B)
	case "ul", "ol":
		for _, it := range b.Items {
			if !onePara(it.B) {
				return true
			}
		}
	}
	return false
}

// a heading inside a block quote or list item
func containsNestedHeading(b Blk) bool {
	var in func(bs []Blk) bool
	in = func(bs []Blk) bool {
		for _, c := range bs {
			if c.K == "h" || in(c.B) {
				return true
			}
			for _, it := range c.Items {
				if in(it.B) {
					return true
				}
			}
		}
		return false
	}
	if in(b.B) {
		return true
	}
	for _, it := range b.Items {
		if in(it.B) {
			return true
		}
	}
	return false
}

func shapeHeaderOnly(b Blk) bool {
	if b.K != "tbl" || len(b.Rows) != 0 {
		return false
	}
	for _, a := range b.Aligns {
		if a == "center" || a == "right" {
			return true
		}
	}
	return false
}

func containsTable(b Blk) bool {
	switch b.K {
	case "tbl":
		return true
	case "bq":
		for _, c := range b.B {
			if containsTable(c) {
				return true
			}
		}
	case "ul", "ol":
		for _, it := range b.Items {
			for _, c := range it.B {
				if containsTable(c) {
					return true
				}
			}
		}
	}
	return false
}

// failing top-level block(s) of a fidelity failure: the "@<top> " or (M1 only) "@<first>-<last> " prefix of the detail
func topsOf(c Case, f kit.Failure) []Blk {
	if c.Kind != "ast" || !strings.HasPrefix(f.Detail, "@") {
		return nil
	}
	end := strings.IndexByte(f.Detail, ' ')
	if end < 0 {
		return nil
	}
	spec := f.Detail[1:end]
	lo, hi := spec, spec
	if i := strings.IndexByte(spec, '-'); i > 0 {
		lo, hi = spec[:i], spec[i+1:]
	}
	a, err1 := strconv.Atoi(lo)
	b, err2 := strconv.Atoi(hi)
	if err1 != nil || err2 != nil || a < 0 || b < a || b >= len(c.Doc) {
		return nil
	}
	return c.Doc[a : b+1]
}

func clauseIn(f kit.Failure, cl ...string) bool {
	for _, c := range cl {
		if f.Clause == "C19."+c {
			return true
		}
	}
	return false
}

type shape struct {
	id   string
	pred func(c Case, b Blk) bool
}

// shapes lists the input classes behind the open findings; used for attribution, labels and generation.
var shapes = []shape{
	{"KF-C19-escape-raw", func(_ Case, b Blk) bool { return hasKind(b, "esc", "ent") }},
	{"KF-C19-autolink", func(_ Case, b Blk) bool { return hasKind(b, "auto") }},
	{"KF-C19-hardbreak", func(_ Case, b Blk) bool { return b.K == "p" && hasKind(b, "hb") }},
	{"KF-C19-nested-inline", func(_ Case, b Blk) bool { return shapeNestedInline(b) }},
	{"KF-C19-flatten-inline", func(_ Case, b Blk) bool { return shapeFlattenInline(b) }},
	{"KF-C19-cell-inline", func(_ Case, b Blk) bool { return shapeCellInline(b) }},
	{"KF-C19-flatten-blocks", func(_ Case, b Blk) bool { return shapeFlattenBlocks(b) }},
	{"KF-C19-tables-off", func(c Case, b Blk) bool { return c.Opts.GFM && !c.Opts.Tables && containsTable(b) }},
	{"KF-C19-header-only-align", func(_ Case, b Blk) bool { return shapeHeaderOnly(b) }},
}

func shapePred(id string) func(Case, Blk) bool {
	for _, s := range shapes {
		if s.id == id {
			return s.pred
		}
	}
	return func(Case, Blk) bool { return false }
}

func kf(id, desc string, clauses ...string) kit.Finding[Case] {
	p := shapePred(id)
	return kit.Finding[Case]{ID: id, Clause: "C19.M", Desc: desc, Trigger: func(c Case, f kit.Failure) bool {
		if !clauseIn(f, clauses...) {
			return false
		}
		for _, b := range topsOf(c, f) {
			if p(c, b) {
				return true
			}
		}
		return false
	}}
}

// mathPanicTrigger: math on, the source holds at least two `$$`, and the panic is the failed type assertion on
// the math block parser's per-parse state (goldmark-mathjax block.go Continue). Root cause: that parser keeps the
// state of "the" open formula under one context key and clears it in Close; goldmark opens the blocks of a line
// before it closes the blocks the line ended, so a `$$` line that both ends the reach of an open formula (the line
// right after a closing `$$`, which the parser over-advances onto, or a line leaving the quote/list item that holds
// an unclosed formula) and opens a new one gets its fresh state wiped, and the next line panics.
func mathPanicTrigger(c Case, f kit.Failure) bool {
	if f.Clause != "C19.M0" || !c.Opts.Math || !strings.Contains(f.Detail, "is nil, not *mathjax.mathBlockData") {
		return false
	}
	src := c.Bytes()
	if c.Kind == "ast" {
		src = []byte(c.Markdown())
	}
	return bytes.Count(src, []byte("$$")) >= 2
}

// flatten-blocks: M1, M2, M5, M6 on a top-level list or quote with an item/quote that is not exactly one paragraph;
// M3 only if, in addition, a heading sits inside that container (it becomes part of the flattened paragraph);
// M8 only for a list item that itself sits inside a block quote or a multi-block item of that block (it is part of
// the flattened paragraph, so it is no list paragraph of its own).
func kfBlocks(desc string) kit.Finding[Case] {
	f := kf("KF-C19-flatten-blocks", desc, "M1", "M2", "M5", "M6")
	base := f.Trigger
	f.Trigger = func(c Case, fl kit.Failure) bool {
		if clauseIn(fl, "M3") {
			for _, b := range topsOf(c, fl) {
				if shapeFlattenBlocks(b) && containsNestedHeading(b) {
					return true
				}
			}
			return false
		}
		if clauseIn(fl, "M8") {
			// the list structure of an item that sits inside a flattened container (block quote, multi-block item):
			// the failing item itself must be inside one (the judge says so in the detail), not just its top-level block
			if !strings.Contains(fl.Detail, flatMark) {
				return false
			}
			for _, b := range topsOf(c, fl) {
				if shapeFlattenBlocks(b) {
					return true
				}
			}
			return false
		}
		return base(c, fl)
	}
	return f
}

var findings = []kit.Finding[Case]{
	{ID: "KF-C19-math-panic", Clause: "C19.M0", Trigger: mathPanicTrigger,
		Desc: "with math on, a display formula that starts on the line right after the closing $$ of another one (or on the line that leaves a quote/list item holding an unclosed one) makes conversion panic in the math block parser (nil *mathjax.mathBlockData)"},
	kf("KF-C19-escape-raw", "backslash escapes and entity references in paragraph text are copied raw (\\* stays \\*, &amp; stays &amp;)", "M1", "M2"),
	kf("KF-C19-autolink", "an autolink <http://…> vanishes from the paragraph: its visible text is lost", "M1", "M2"),
	kf("KF-C19-hardbreak", "a hard line break is rendered as nothing: the words on both sides are glued together", "M2"),
	kf("KF-C19-nested-inline", "a formatting span containing another span, a code span or a line break is flattened: inner formatting is lost, words around the break are glued", "M2", "M4"),
	kf("KF-C19-flatten-inline", "inline formatting and line breaks inside headings, list items and block quotes are dropped (flags lost, words glued)", "M2", "M3", "M4"),
	kf("KF-C19-cell-inline", "table cells keep at most one whole-cell bold/italic flag: partial, combined, strike and code formatting in cells is lost or spread over the cell", "M4"),
	kfBlocks("a list item or block quote with more than one paragraph is flattened into one paragraph: nested items/paragraphs are glued to the parent, code blocks/tables/formulas inside lose their text, a heading inside loses its style"),
	kf("KF-C19-tables-off", "with GFM on and EnableTables off the whole text of a table is dropped", "M1"),
	kf("KF-C19-header-only-align", "a table without body rows loses its column alignment", "M6"),
}

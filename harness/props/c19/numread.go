package c19

import (
	"bytes"
	"encoding/xml"
	"fmt"
	"io"
	"strings"

	"wzverif/internal/opc"
)

// ---------------------------------------------------------------------------------------------
// Lists as a consumer of the package sees them. A paragraph is a list item through w:pPr/w:numPr (w:numId names a
// numbering instance, w:ilvl the level); the instance (w:num) of the numbering part points to a definition
// (w:abstractNum) whose w:lvl of that level says, in w:numFmt, what is drawn in front of the paragraph: "bullet" or
// a number format such as "decimal". The numbering part is the target of the main part's relationship of type
// .../numbering. Independent reader: encoding/xml tokens and the harness's OPC reader, no code of the library.

// numRef: the w:numPr of a paragraph
type numRef struct {
	id   string // w:numId/@w:val ("" = element or attribute missing)
	ilvl string // w:ilvl/@w:val ("" = missing: level 0)
}

func (n *numRef) level() string {
	if n.ilvl == "" {
		return "0"
	}
	return n.ilvl
}

type numbering struct {
	err   string                       // why there is no usable numbering part
	abs   map[string]map[string]string // abstractNumId -> ilvl -> numFmt
	nums  map[string]string            // numId -> abstractNumId
	over  map[string]map[string]string // numId -> ilvl -> numFmt of a w:lvlOverride/w:lvl
	nabs  int
	nnums int
}

const relNumbering = opc.RelPrefix + "numbering"

// readNumbering finds the numbering part through the relationships of the main part and reads it.
func readNumbering(pkg *opc.Package) *numbering {
	n := &numbering{abs: map[string]map[string]string{}, nums: map[string]string{}, over: map[string]map[string]string{}}
	if pkg == nil {
		n.err = "the package cannot be read"
		return n
	}
	mains := pkg.MainParts()
	if len(mains) != 1 {
		n.err = "the package has no single main document part"
		return n
	}
	var targets []string
	for _, r := range pkg.RelsOf(mains[0].Resolved) {
		if r.Type == relNumbering && !r.External() {
			targets = append(targets, r.Resolved)
		}
	}
	if len(targets) != 1 {
		n.err = fmt.Sprintf("the main part has %d relationships of type numbering", len(targets))
		return n
	}
	part, ok := pkg.Parts[targets[0]]
	if !ok {
		n.err = fmt.Sprintf("the numbering relationship points to %q, which is not in the package", targets[0])
		return n
	}
	if err := n.parse(part); err != nil {
		n.err = fmt.Sprintf("numbering part %q: %v", targets[0], err)
	}
	return n
}

func (n *numbering) parse(part []byte) error {
	d := xml.NewDecoder(bytes.NewReader(part))
	b := &bodyReader{d: d}
	// lvls reads the w:lvl children of the current element (w:abstractNum, or w:lvlOverride) into m
	lvl := func(t xml.StartElement, m map[string]string) error {
		il, _ := wAttr(t, "ilvl")
		return b.children(func(t xml.StartElement) error {
			if isW(t, "numFmt") {
				if _, dup := m[il]; !dup {
					m[il], _ = wAttr(t, "val")
				}
			}
			return b.skip()
		}, nil)
	}
	for {
		tok, err := d.Token()
		if err == io.EOF {
			return fmt.Errorf("no w:numbering element")
		}
		if err != nil {
			return err
		}
		t, ok := tok.(xml.StartElement)
		if !ok {
			continue
		}
		if !isW(t, "numbering") {
			return fmt.Errorf("root element is %q", t.Name.Local)
		}
		return b.children(func(t xml.StartElement) error {
			switch {
			case isW(t, "abstractNum"):
				id, _ := wAttr(t, "abstractNumId")
				m := map[string]string{}
				if _, dup := n.abs[id]; !dup {
					n.abs[id] = m
				}
				n.nabs++
				return b.children(func(t xml.StartElement) error {
					if isW(t, "lvl") {
						return lvl(t, m)
					}
					return b.skip()
				}, nil)
			case isW(t, "num"):
				id, _ := wAttr(t, "numId")
				n.nnums++
				_, dup := n.nums[id]
				return b.children(func(t xml.StartElement) error {
					switch {
					case isW(t, "abstractNumId"):
						if !dup {
							n.nums[id], _ = wAttr(t, "val")
						}
					case isW(t, "lvlOverride"):
						il, _ := wAttr(t, "ilvl")
						return b.children(func(t xml.StartElement) error {
							if isW(t, "lvl") && !dup {
								m := map[string]string{}
								if err := lvl(t, m); err != nil {
									return err
								}
								for _, f := range m { // the override names the level itself
									if n.over[id] == nil {
										n.over[id] = map[string]string{}
									}
									n.over[id][il] = f
								}
								return nil
							}
							return b.skip()
						}, nil)
					}
					return b.skip()
				}, nil)
			}
			return b.skip()
		}, nil)
	}
}

// format resolves the w:numPr of a paragraph: the w:numFmt of its level, or why there is none.
func (n *numbering) format(r *numRef) (string, string) {
	if n.err != "" {
		return "", n.err
	}
	if r.id == "" {
		return "", "w:numPr has no w:numId"
	}
	if strings.TrimLeft(r.id, "0") == "" {
		return "", "w:numId is 0, which switches numbering off"
	}
	if f, ok := n.over[r.id][r.level()]; ok {
		return f, ""
	}
	a, ok := n.nums[r.id]
	if !ok {
		return "", fmt.Sprintf("the numbering part has no w:num with w:numId %q (it has %d w:num)", r.id, n.nnums)
	}
	lv, ok := n.abs[a]
	if !ok {
		return "", fmt.Sprintf("w:num %q refers to w:abstractNum %q, which the numbering part does not have", r.id, a)
	}
	f, ok := lv[r.level()]
	if !ok {
		return "", fmt.Sprintf("w:abstractNum %q (of w:num %q) defines no w:lvl with w:ilvl %q", a, r.id, r.level())
	}
	if f == "" {
		return "", fmt.Sprintf("w:lvl %q of w:abstractNum %q has no w:numFmt value", r.level(), a)
	}
	return f, ""
}

// numberingSelfTest: the numbering reader on a hand-written part.
func numberingSelfTest() error {
	part := `<?xml version="1.0"?><w:numbering xmlns:w="` + nsW + `">
<w:abstractNum w:abstractNumId="0"><w:multiLevelType w:val="x"/><w:lvl w:ilvl="0"><w:start w:val="1"/><w:numFmt w:val="bullet"/><w:lvlText w:val="o"/></w:lvl>
<w:lvl w:ilvl="1"><w:numFmt w:val="lowerLetter"/></w:lvl></w:abstractNum>
<w:abstractNum w:abstractNumId="5"><w:lvl w:ilvl="0"><w:numFmt w:val="decimal"/></w:lvl></w:abstractNum>
<w:num w:numId="1"><w:abstractNumId w:val="0"/></w:num>
<w:num w:numId="2"><w:abstractNumId w:val="5"/><w:lvlOverride w:ilvl="3"><w:startOverride w:val="4"/><w:lvl w:ilvl="3"><w:numFmt w:val="upperRoman"/></w:lvl></w:lvlOverride></w:num>
<w:num w:numId="3"><w:abstractNumId w:val="9"/></w:num>
</w:numbering>`
	n := &numbering{abs: map[string]map[string]string{}, nums: map[string]string{}, over: map[string]map[string]string{}}
	if err := n.parse([]byte(part)); err != nil {
		return err
	}
	for _, tc := range [][3]string{{"1", "", "bullet"}, {"1", "0", "bullet"}, {"1", "1", "lowerLetter"}, {"1", "2", ""}, {"2", "0", "decimal"}, {"2", "3", "upperRoman"},
		{"2", "1", ""}, {"3", "0", ""}, {"4", "0", ""}, {"0", "0", ""}, {"", "0", ""}} {
		f, why := n.format(&numRef{id: tc[0], ilvl: tc[1]})
		if f != tc[2] || (f == "") == (why == "") {
			return fmt.Errorf("numbering reader self-test: numId %q level %q resolves to %q (%s), want %q", tc[0], tc[1], f, why, tc[2])
		}
	}
	return nil
}

package c19

import (
	"fmt"
	"os"
	"path/filepath"
)

func tx(s string) Inl           { return Inl{K: "t", S: s} }
func sp(k string, c ...Inl) Inl { return Inl{K: k, C: c} }
func para(x ...Inl) Blk         { return Blk{K: "p", I: x} }
func cells(s ...string) [][]Inl {
	var out [][]Inl
	for _, x := range s {
		out = append(out, []Inl{tx(x)})
	}
	return out
}

// showcase: every listed construct once, in a form on which the property holds today
func showcase() []Blk {
	return []Blk{
		{K: "h", Level: 1, I: []Inl{tx("Title one")}},
		{K: "h", Level: 2, Setext: true, I: []Inl{tx("Setext two")}},
		para(tx("plain"), sp("em", tx("em text")), sp("st", tx("strong")), sp("del", tx("gone")), Inl{K: "code", S: "a+b <b>"},
			Inl{K: "link", S: "p/q", C: []Inl{tx("a link")}}, Inl{K: "sb"}, tx("next line &"), Inl{K: "math", S: "mc=E"}, tx("end.")),
		{K: "ul", Mark: "-", Items: []Item{{B: []Blk{para(tx("item a"))}}, {B: []Blk{para(tx("item b"))}}}},
		{K: "ol", Start: 7, Loose: true, Items: []Item{{B: []Blk{para(tx("one"))}}, {B: []Blk{para(tx("two"))}}}},
		{K: "ul", Mark: "*", Items: []Item{{Task: 1, B: []Blk{para(tx("todo"))}}, {Task: 2, B: []Blk{para(tx("done"))}}}},
		{K: "bq", B: []Blk{para(tx("quoted words"))}},
		{K: "code", Fenced: true, Info: "go", Lines: []string{"", "func f() {", "    ret *p", "", "\t}"}},
		{K: "code", Lines: []string{"x = 1.", "", "      - l"}},
		para(tx("see"), Inl{K: "br", S: "spec"}, tx("and"), Inl{K: "br", S: "ref", C: []Inl{tx("the text")}}, tx("there")),
		{K: "code", Fenced: true, FIndent: 2, Info: "go", Lines: []string{"  func f() {", "\tif x {", "\t\tret", " \t}", "  }", "", "      deep", " less"}},
		{K: "hr", Mark: "*"},
		{K: "tbl", Aligns: []string{"left", "center", "right", ""}, Head: cells("h1", "h2", "h3", "h4"),
			Rows: [][][]Inl{cells("a", "b", "c", "d"), {{sp("st", tx("bold cell"))}, {sp("em", tx("it"))}, {tx("")}}}},
		{K: "math", S: "a+b\nxy=3"},
		{K: "h", Level: 6, I: []Inl{tx("Deep heading")}},
	}
}

func fixedCases() []Case {
	if os.Getenv("C19_NO_FIXED") != "" { // sensitivity measurements of the generated search alone
		return nil
	}
	all := Opts{GFM: true, Tables: true, TaskList: true, Math: true, Footnotes: true, TOC: true, TOCMax: 3}
	out := []Case{
		{Kind: "ast", Cls: "clean", Entry: "bytes", Opts: all, Doc: showcase()},
		{Kind: "ast", Cls: "clean", Entry: "bytes", Opts: all, Doc: showcase(), Warm: []string{warmPool[0], warmPool[1]}},
		{Kind: "ast", Cls: "clean", Entry: "string", Opts: all, Doc: showcase(), Warm: []string{warmPool[5], warmPool[3]}},
		{Kind: "ast", Cls: "clean", Entry: "string", Opts: Opts{GFM: true, Tables: true, Math: true, TOCMax: 0}, Doc: showcase()},
		{Kind: "bytes", Cls: "fixed", Entry: "bytes", Opts: all, Toks: []Tok{{S: "", N: 1}}},
		{Kind: "bytes", Cls: "fixed", Entry: "file", Opts: all, Toks: []Tok{{S: "# h\n\n| a |\n|-|\n| b |\n\n$$\n\\frac{1}{2}\n$$\n\n- [x] t\n\n[^1]: note\n\ntext[^1] ![img](x.png) <b>raw</b>\n", N: 1}}},
		{Kind: "bytes", Cls: "fixed", Entry: "bytes", Opts: Opts{}, Toks: []Tok{{B: []byte{0xff, 0xfe, 0x00, '#', ' ', 0x80, '\n', '`'}, N: 3}}},
	}
	// every entry point on a document whose first line is part of the syntax (indented code, deeper second line)
	lead := append([]Blk{{K: "code", Lines: []string{"total := 0", "    total += price", "", "  ret"}}}, showcase()...)
	for _, e := range []string{"bytes", "string", "file", "batch"} {
		out = append(out, Case{Kind: "ast", Cls: "clean", Entry: e, Opts: all, Doc: lead})
	}
	out = append(out, Case{Kind: "ast", Cls: "clean", Entry: "batch", Opts: all, Doc: showcase(), Warm: []string{warmPool[0], warmPool[3]}})
	// one Converter, several option sets: constructed (and warmed up) under options that differ from the ones the
	// judged call passes in the fields the renderer reads - every entry point, with and without earlier calls
	for i, e := range []string{"bytes", "string", "file", "batch", "bytes", "file"} {
		prior, now := all, all
		prior.Tables, prior.TaskList, prior.TOC, prior.TOCMax = false, false, false, 0
		if i >= 4 { // and the other way round
			prior, now = now, prior
		}
		cs := Case{Kind: "ast", Cls: "clean", Entry: e, Opts: now, Prior: &prior, Doc: showcase()}
		if i%2 == 1 {
			cs.Warm = []string{warmPool[3]}
		}
		out = append(out, cs)
	}
	// addresses written without angle brackets in every inline context (GFM: extended autolinks; without GFM: text)
	bare := func(s string) Inl { return Inl{K: "bare", S: s} }
	addresses := []Blk{
		{K: "h", Level: 2, I: []Inl{tx("Visit"), bare("www.site-h.test")}},
		para(tx("see"), bare("www.site-p.test/docs/a-b"), tx("or"), bare("http://site-q.test/x"), tx("or"), bare("https://site-r.test/"), tx("or write to"), bare("me@site-s.test"), tx("today")),
		{K: "ul", Mark: "-", Items: []Item{{B: []Blk{para(tx("item"), bare("www.site-i.test/q?x=1"), tx("end"))}}, {B: []Blk{para(bare("www.site-j.test"))}}}},
		{K: "bq", B: []Blk{para(tx("quoted"), bare("www.site-b.test/index.html"))}},
		{K: "tbl", Aligns: []string{"", "right"}, Head: [][]Inl{{tx("site")}, {bare("www.site-t.test")}}, Rows: [][][]Inl{{{bare("www.site-c.test")}, {tx("n"), bare("www.site-d.test/v2/")}}}},
	}
	for _, o := range []Opts{all, {GFM: true, Tables: true}, {Math: true, TOC: true, TOCMax: 2}} {
		d := addresses
		if !o.GFM { // no pipe tables without GFM
			d = d[:4]
		}
		out = append(out, Case{Kind: "ast", Cls: "clean", Entry: "bytes", Opts: o, Doc: d})
	}
	// list items whose own text starts with what looks like a marker: in a list paragraph that is text of the item
	// (a reader that strips "the bullet" there loses it), two lists of each kind in one document, items after the ninth
	markers := []Blk{
		{K: "ul", Mark: "-", Items: []Item{{B: []Blk{para(Inl{K: "code", S: "*p"})}}, {B: []Blk{para(tx("• dot"))}}, {B: []Blk{para(Inl{K: "code", S: "- dash"}, tx("+ plus"))}}}},
		{K: "ol", Start: 3, Items: []Item{{B: []Blk{para(Inl{K: "code", S: "1. one"})}}, {B: []Blk{para(tx("☐ box 2) two"))}}}},
		para(tx("between the lists")),
		{K: "ul", Mark: "+", Loose: true, Items: []Item{{B: []Blk{para(tx("second bullet list"))}}, {B: []Blk{para(tx("and its second item"))}}}},
		{K: "ol", Start: 1, Items: []Item{{B: []Blk{para(tx("i1"))}}, {B: []Blk{para(tx("i2"))}}, {B: []Blk{para(tx("i3"))}}, {B: []Blk{para(tx("i4"))}}, {B: []Blk{para(tx("i5"))}},
			{B: []Blk{para(tx("i6"))}}, {B: []Blk{para(tx("i7"))}}, {B: []Blk{para(tx("i8"))}}, {B: []Blk{para(tx("i9"))}}, {B: []Blk{para(tx("i10"))}}, {B: []Blk{para(tx("i11"))}}}},
		{K: "code", Fenced: true, Lines: []string{"- not an item", "1. not an item"}},
	}
	for _, e := range []string{"bytes", "file"} {
		out = append(out, Case{Kind: "ast", Cls: "clean", Entry: e, Opts: all, Doc: markers})
	}
	// roots, fractions and scripts whose index / argument is a digit, a lower- or upper-case letter, a command,
	// an expression, empty - inline, display, in a cell
	fdoc := []Tok{{S: "Roots $", N: 1}}
	for i, f := range []string{`\sqrt[3]{x}`, `\sqrt[n]{x}`, `\sqrt[N]{x}`, `\sqrt[q]{a^2+b^2}`, `\sqrt[\alpha]{\frac{A}{B}}`, `\sqrt[k+1]{x_{IJ}^{QR}}`, `\sqrt[]{x}`,
		`\sqrt [M] {\sqrt[P]{y}}`, `\frac{\sqrt[Z]{u}}{\sqrt{V}}`, `x^{Q}_{R}+\sum_{K=1}^{N} K^{-S}`, `\left\{ \binom{N}{K} \right\}`} {
		if i > 0 {
			fdoc = append(fdoc, Tok{S: "$ and $", N: 1})
		}
		fdoc = append(fdoc, Tok{S: f, N: 1, F: true})
	}
	fdoc = append(fdoc, Tok{S: "$.\n\n$$\n", N: 1}, Tok{S: `\sqrt[Q]{a^2 + b^2} = \sqrt[2N]{c}`, N: 1, F: true}, Tok{S: "\n$$\n\n| a | $", N: 1},
		Tok{S: `\sqrt[W]{t}`, N: 1, F: true}, Tok{S: "$ |\n|---|---|\n| $", N: 1}, Tok{S: `\sqrt[7]{T}`, N: 1, F: true}, Tok{S: "$ | b |\n", N: 1})
	for _, e := range []string{"bytes", "file"} {
		out = append(out, Case{Kind: "bytes", Cls: "formula", Entry: e, Opts: all, Toks: fdoc})
	}
	// the repository's own Markdown files as totality seeds
	for _, f := range []string{"README.md", "pkg/markdown/README.md", "CHANGELOG.md"} {
		repo := os.Getenv("VERIF_REPO")
		if repo == "" {
			repo = "/repo"
		}
		if b, err := os.ReadFile(filepath.Join(repo, f)); err == nil && len(b) < 300000 {
			out = append(out, Case{Kind: "bytes", Cls: "fixed", Entry: "bytes", Opts: all, Toks: []Tok{{B: b, N: 1}}})
		}
	}
	return out
}

// selfTest: the two references must agree on the showcase (otherwise every case would be discarded and the
// check would be decoration), and must disagree when the text is read differently.
func selfTest() error {
	doc := showcase()
	c := Case{Kind: "ast", Opts: Opts{GFM: true, Tables: true, TaskList: true, Math: true}, Doc: doc}
	html, err := goldmarkHTML([]byte(c.Markdown()), c.Opts)
	if err != nil {
		return err
	}
	r2, err := readHTML(html)
	if err != nil {
		return fmt.Errorf("showcase HTML not readable: %v\n%s", err, html)
	}
	r1 := readAST(doc)
	if ok, why := sameReading(r1, r2); !ok {
		return fmt.Errorf("references disagree on the showcase: %s\n%s\n%s", why, c.Markdown(), html)
	}
	if len(r1) < 20 {
		return fmt.Errorf("showcase reading has only %d blocks", len(r1))
	}
	for _, tc := range [][3]string{{"\tif x {", "2", "  if x {"}, {"\t\tret", "2", "  \tret"}, {"  a", "2", "a"}, {" a", "3", "a"}, {"     a", "3", "  a"},
		{" \tb", "2", "  b"}, {"\tb", "0", "\tb"}, {"\t  b", "3", "   b"}, {"x", "3", "x"}, {"", "2", ""}} {
		if got := dedent(tc[0], int(tc[1][0]-'0')); got != tc[2] {
			return fmt.Errorf("dedent(%q,%s) = %q, want %q", tc[0], tc[1], got, tc[2])
		}
	}
	// the placement used to attribute M1 failures
	for _, tc := range []struct {
		units []string
		s     string
		want  []int
	}{
		{[]string{"&", "alpha"}, "&amp;alpha", []int{0, 5}},
		{[]string{"BetaBetaalphagammaBeta", "alphaalphaBeta", "alphaalpha"}, "alphaalphaBeta", []int{-1, 0, -1}},
		{[]string{"ab", "", "ab", "c"}, "abc", []int{0, -1, -1, 2}},
		{[]string{"a*b", "cd"}, "a\\*bcd", []int{-1, 4}},
	} {
		if got := placeUnits(tc.units, tc.s); fmt.Sprint(got) != fmt.Sprint(tc.want) {
			return fmt.Errorf("placeUnits(%q,%q) = %v, want %v", tc.units, tc.s, got, tc.want)
		}
	}
	// character references: the reading's table and goldmark must agree on every word the generator draws
	// (otherwise the cases holding the word would all be discarded), and the look-alikes must stay literal
	for _, w := range crefWords {
		d := []Blk{para(tx("go " + w + " on")), {K: "h", Level: 2, I: []Inl{tx("H " + w)}}}
		html, err := goldmarkHTML([]byte(Case{Doc: d}.Markdown()), Opts{})
		if err != nil {
			return err
		}
		r2, err := readHTML(html)
		if err != nil {
			return fmt.Errorf("character reference %q: HTML not readable: %v", w, err)
		}
		if ok, why := sameReading(readAST(d), r2); !ok {
			return fmt.Errorf("references disagree on the character reference word %q: %s", w, why)
		}
	}
	for _, tc := range [][2]string{{"&Copy; &copy; &copy &#35; &#x41; &#12345678; &foo; AT&T R&D; &amp;amp;", "&Copy; © &copy # A &#12345678; &foo; AT&T R&D; &amp;"}, {"&#0;&#xD800;&", "\uFFFD\uFFFD&"}} {
		if got := resolveRefs(tc[0]); got != tc[1] {
			return fmt.Errorf("resolveRefs(%q) = %q, want %q", tc[0], got, tc[1])
		}
	}
	if err := pkgreadSelfTest(); err != nil {
		return err
	}
	// GFM off: the same text reads differently (no tables, no strike-through) -> must be seen as a disagreement
	html, _ = goldmarkHTML([]byte(c.Markdown()), Opts{})
	if r3, err := readHTML(html); err == nil {
		if ok, _ := sameReading(r1, r3); ok {
			return fmt.Errorf("reading comparison is blind: GFM text read without GFM compares equal")
		}
	}
	return nil
}

package c19

import (
	"bytes"
	"fmt"
	"os"
	"path/filepath"
	"sort"
	"strings"
	"testing"

	"github.com/zerx-lab/wordZero/pkg/document"
	"github.com/zerx-lab/wordZero/pkg/markdown"

	"wzverif/internal/kit"
	"wzverif/internal/opc"
	"wzverif/internal/xmlwf"
)

func TestMain(m *testing.M) {
	document.SetGlobalLevel(document.LogLevelSilent)
	kit.TestMain(m, 1800, 12000)
}

func convOpts(o Opts) *markdown.ConvertOptions {
	co := markdown.DefaultOptions()
	co.EnableGFM, co.EnableTables, co.EnableTaskList, co.EnableMath, co.EnableFootnotes = o.GFM, o.Tables, o.TaskList, o.Math, o.Footnotes
	co.GenerateTOC, co.TOCMaxLevel = o.TOC, o.TOCMax
	return co
}

func optLabel(o Opts) string {
	s := ""
	for i, b := range []bool{o.GFM, o.Tables, o.TaskList, o.Math, o.Footnotes, o.TOC} {
		if b {
			s += string("gtkmfc"[i])
		} else {
			s += "-"
		}
	}
	return s
}

// convert runs the entry point named by the case on a fresh converter. It returns the in-memory document
// (nil for the file entry point) and the saved package bytes.
func convert(res *kit.Result, c Case, src []byte) (doc *document.Document, saved []byte, ok bool) {
	co := convOpts(c.Opts)
	var err error
	var p interface{}
	var st string
	// one Converter per case; the warm-up documents of the case go through it first. What it returns for the
	// judged input must not depend on them.
	cv := markdown.NewConverter(co)
	for i, w := range c.Warm {
		p, st = kit.Try(func() { _, err = cv.ConvertString(w, co) })
		res.Eval("C19.M0")
		if p != nil {
			res.Fail("C19.M0", "conversion of warm-up document %d on the shared converter panicked: %v [%s]", i, p, st)
			return nil, nil, false
		}
		if err != nil {
			res.Fail("C19.M0", "conversion of warm-up document %d returned an error instead of a document: %v", i, err)
			return nil, nil, false
		}
	}
	switch c.Entry {
	case "file":
		dir, _ := os.MkdirTemp(kit.Scratch, "c19-")
		defer os.RemoveAll(dir)
		in, outp := filepath.Join(dir, "in.md"), filepath.Join(dir, "out.docx")
		if werr := os.WriteFile(in, src, 0o644); werr != nil {
			res.Count("scratch_write_errors", 1)
			return nil, nil, false
		}
		p, st = kit.Try(func() { err = cv.ConvertFile(in, outp, co) })
		if p == nil && err == nil {
			saved, err = os.ReadFile(outp)
		}
	case "string":
		p, st = kit.Try(func() { doc, err = cv.ConvertString(string(src), co) })
	default:
		p, st = kit.Try(func() { doc, err = cv.ConvertBytes(src, co) })
	}
	res.Eval("C19.M0")
	if p != nil {
		res.Fail("C19.M0", "conversion (%s entry) panicked: %v [%s]", c.Entry, p, st)
		return nil, nil, false
	}
	if err != nil {
		res.Fail("C19.M0", "conversion (%s entry) of a byte string returned an error instead of a document: %v", c.Entry, err)
		return nil, nil, false
	}
	if c.Entry != "file" {
		if doc == nil {
			res.Fail("C19.M0", "conversion returned neither a document nor an error")
			return nil, nil, false
		}
		p, st = kit.Try(func() { saved, err = doc.ToBytes() })
		if p != nil {
			res.Fail("C19.M0", "ToBytes of the converted document panicked: %v [%s]", p, st)
			return doc, nil, false
		}
		if err != nil {
			res.Fail("C19.M0", "the converted document does not save: %v", err)
			return doc, nil, false
		}
	}
	checkPackage(res, saved, c.Entry, sampleConstant(src))
	return doc, saved, true
}

func runBytes(c Case) *kit.Result {
	res := &kit.Result{}
	src := c.Bytes()
	res.Label("kind:bytes")
	reuseLabel(res, c)
	res.Label("bytes:" + c.Cls)
	res.Label("entry:" + c.Entry)
	doc, saved, _ := convert(res, c, src)
	n := 0
	if doc != nil && doc.Body != nil {
		n = len(doc.Body.Elements)
	} else if c.Entry == "file" && saved != nil { // no in-memory document: count the body elements of the written part
		if pkg, err := opc.Read(saved); err == nil {
			d := pkg.Parts["word/document.xml"]
			n = bytes.Count(d, []byte("<w:p>")) + bytes.Count(d, []byte("<w:p ")) + bytes.Count(d, []byte("<w:tbl>"))
		}
	}
	// LaTeX -> OMML on the same string: must return, whatever the input
	if len(src) <= 4096 {
		for _, blk := range []bool{false, true} {
			p, st := kit.Try(func() { _, _ = markdown.LaTeXToOMMLString(string(src), blk) })
			if p != nil {
				res.Fail("C19.M0", "LaTeXToOMMLString(%q, %v) panicked: %v [%s]", trunc(string(src), 200), blk, p, st)
			}
		}
		res.Label("latex-api")
	}
	res.Nontrivial = n >= 1
	var ks []string
	for i, t := range c.Toks {
		if i < 12 {
			ks = append(ks, t.S)
		}
	}
	res.Shape = "bytes|" + c.Cls + "|" + optLabel(c.Opts) + "|" + strings.Join(ks, "\x00") + fmt.Sprint(len(src)/64, n)
	return res
}

func reuseLabel(res *kit.Result, c Case) {
	if len(c.Warm) > 0 {
		res.Label("converter:reused")
	} else {
		res.Label("converter:fresh")
	}
}

// a fenced block with indented fences and a content line that starts with a tab (top level or nested)
func hasFenceTab(bs []Blk) bool {
	for _, b := range bs {
		if b.K == "code" && fenceIndent(b) > 0 {
			for _, l := range b.Lines {
				if strings.HasPrefix(l, "\t") {
					return true
				}
			}
		}
		if hasFenceTab(b.B) {
			return true
		}
		for _, it := range b.Items {
			if hasFenceTab(it.B) {
				return true
			}
		}
	}
	return false
}

func trunc(s string, n int) string {
	if len(s) > n {
		return s[:n] + "…"
	}
	return s
}

func blockKinds(bs []Blk, into map[string]bool, inl map[string]bool) {
	var walkI func(xs []Inl)
	walkI = func(xs []Inl) {
		for _, x := range xs {
			if x.K != "t" {
				inl[x.K] = true
			}
			walkI(x.C)
		}
	}
	for _, b := range bs {
		k := b.K
		if k == "code" {
			if b.Fenced {
				k = "code-fenced"
			} else {
				k = "code-indented"
			}
		}
		if k == "h" && b.Setext && b.Level <= 2 {
			k = "h-setext"
		}
		into[k] = true
		walkI(b.I)
		blockKinds(b.B, into, inl)
		for _, it := range b.Items {
			if it.Task > 0 {
				into["task"] = true
			}
			blockKinds(it.B, into, inl)
		}
		for _, c := range b.Head {
			walkI(c)
		}
		for _, r := range b.Rows {
			for _, c := range r {
				walkI(c)
			}
		}
	}
}

func sig(bs []Blk) string {
	var sb strings.Builder
	for _, b := range bs {
		sb.WriteString(b.K)
		if b.K == "h" {
			sb.WriteString(itoa(b.Level))
		}
		if b.K == "tbl" {
			sb.WriteString(itoa(len(b.Head)) + "x" + itoa(len(b.Rows)) + strings.Join(b.Aligns, ","))
		}
		if b.K == "code" {
			sb.WriteString(itoa(len(b.Lines)) + "i" + itoa(fenceIndent(b)))
		}
		for _, x := range b.I {
			sb.WriteString(x.K[:1])
		}
		if len(b.B) > 0 {
			sb.WriteString("(" + sig(b.B) + ")")
		}
		for _, it := range b.Items {
			sb.WriteString("[" + sig(it.B) + "]")
		}
		sb.WriteString(" ")
	}
	return sb.String()
}

func runAST(c Case) *kit.Result {
	res := &kit.Result{}
	res.Label("kind:ast")
	reuseLabel(res, c)
	if hasFenceTab(c.Doc) {
		res.Label("code:indented-fence+tab")
	}
	res.Label("entry:" + c.Entry)
	src := []byte(c.Markdown())
	bk, ik := map[string]bool{}, map[string]bool{}
	blockKinds(c.Doc, bk, ik)
	for k := range bk {
		res.Label("blk:" + k)
	}
	for k := range ik {
		res.Label("inl:" + k)
	}
	clean := true
	for _, s := range shapes {
		for _, b := range c.Doc {
			if s.pred(c, b) {
				res.Label("shape:" + s.id)
				clean = false
				break
			}
		}
	}
	if clean {
		res.Label("ast:clean")
	} else {
		res.Label("ast:finding-class")
	}
	res.Label("opts:" + optLabel(c.Opts))
	if c.Opts.TOC && c.Opts.TOCMax > 0 {
		res.Label("toc-bookmarks")
	}

	doc, _, ok := convert(res, c, src)
	if !ok || doc == nil {
		return res
	}

	// two references that must agree before the case is judged
	exp := readAST(c.Doc)
	html, err := goldmarkHTML(src, c.Opts)
	var exp2 []xblk
	if err == nil {
		exp2, err = readHTML(html)
	}
	why := ""
	if err != nil {
		why = err.Error()
	} else if same, w := sameReading(exp, exp2); !same {
		why = w
	}
	if why != "" {
		res.Count("discarded", 1)
		res.Label("discarded")
		if os.Getenv("C19_DEBUG_DISCARD") != "" {
			fmt.Fprintf(os.Stderr, "DISCARD %s\n--- md\n%s--- html\n%s\n", why, src, html)
		}
		return res
	}
	res.Label("judged")
	if clean {
		res.Label("judged:unmasked") // no block of the case is in the input class of any finding: every clause failure would be a violation
	} else {
		res.Label("judged:some-block-in-finding-class")
	}
	judge(res, exp, observe(doc), c.Opts.GFM && !c.Opts.Tables)

	delete(bk, "task")
	nb := len(bk)
	if bk["code-fenced"] && bk["code-indented"] {
		nb--
	}
	if bk["h"] && bk["h-setext"] {
		nb--
	}
	res.Nontrivial = nb >= 3 && len(ik) >= 2
	var ks []string
	for k := range ik {
		ks = append(ks, k)
	}
	sort.Strings(ks)
	res.Shape = "ast|" + optLabel(c.Opts) + "|w" + itoa(len(c.Warm)) + "|" + sig(c.Doc) + "|" + strings.Join(ks, ",")
	return res
}

func run(c Case) *kit.Result {
	document.VerifResetGlobals()
	if c.Kind == "ast" {
		return runAST(c)
	}
	return runBytes(c)
}

func TestC19(t *testing.T) {
	if err := xmlwf.SelfTest(); err != nil {
		t.Fatalf("oracle self-test: %v", err)
	}
	if err := selfTest(); err != nil {
		t.Fatalf("oracle self-test: %v", err)
	}
	kit.Main(t, kit.Spec[Case]{
		ID: "C19", Level: "exploration",
		Rule: "about 35% totality cases (random bytes, random UTF-8, Markdown token soup, one token repeated up to 1500x (thorough 6000x), huge pipe tables, unbalanced $, LaTeX soup, slices of a document using every construct re-assembled with soup tokens; entry points ConvertBytes/ConvertString/ConvertFile; LaTeXToOMMLString on the same bytes) and 65% fidelity cases (Markdown AST of 1-7 (thorough 1-12) top-level blocks serialised canonically, words from a safe alphabet), each under a drawn combination of GFM/tables/task lists/math/footnotes/TOC/TOC level; in 40% of all cases the Converter has first converted 1-2 other documents (link reference, footnote, heading-id, math, table definitions; expected result unchanged); a fidelity case is judged only if the AST reading equals the reading of goldmark's HTML (else discarded and counted); 3/4 of the fidelity cases are built only from forms outside every open finding's input class (label judged:unmasked), 1/4 carry one such class. Non-trivial: fidelity = judged case with >=3 block kinds and >=2 inline kinds; totality = conversion produced >=1 body element. Distinct = option set + block/inline structure signature (fidelity) or class + first tokens + size bucket (totality)",
		Gen:  genCase, Run: run, Findings: findings, Fixed: fixedCases,
		Assumptions: []string{
			"the visible text of a document is the text of the runs of its body paragraphs and table cells, in body order; list bullets, numbers and check-box glyphs at the start of a list paragraph and the blank standing for an empty code line are not text",
			"heading style of level n is the style id Heading<n>; code formatting is any monospace font on the run; a thematic break carries no text and is not judged beyond totality",
			"bold/italic coming from the heading style or from a table header row is not attributed to inline emphasis",
			"formulas are judged for text only (plain alphanumeric content), not for formatting; the state of a task-list check box is not visible text",
			"white space inside a block is compared after collapsing runs of blanks and line breaks to one blank; M1 ignores white space altogether",
		},
		MustSee: map[string]float64{"kind:bytes": 0.2, "kind:ast": 0.5, "judged": 0.45, "judged:unmasked": 0.3, "blk:tbl": 0.08, "blk:code-fenced": 0.1, "blk:code-indented": 0.04,
			"blk:ul": 0.12, "blk:ol": 0.05, "blk:task": 0.04, "blk:bq": 0.08, "blk:h": 0.15, "blk:h-setext": 0.05, "blk:hr": 0.05, "inl:em": 0.1, "inl:st": 0.1, "inl:code": 0.1, "inl:link": 0.1, "inl:sb": 0.1, "inl:del": 0.05, "blk:math": 0.03, "inl:math": 0.05,
			"bytes:soup": 0.05, "bytes:deep": 0.01, "bytes:table": 0.01, "bytes:dollar": 0.008, "bytes:splice": 0.03, "entry:file": 0.03,
			"converter:reused": 0.25, "converter:fresh": 0.3, "inl:br": 0.15, "code:indented-fence+tab": 0.03},
	})
}

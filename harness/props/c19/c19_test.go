package c19

import (
	"bytes"
	"fmt"
	"os"
	"path/filepath"
	"regexp"
	"sort"
	"strings"
	"testing"
	"time"

	"github.com/zerx-lab/wordZero/pkg/document"
	"github.com/zerx-lab/wordZero/pkg/markdown"

	"wzverif/internal/kit"
	"wzverif/internal/opc"
	"wzverif/internal/xmlwf"
)

func TestMain(m *testing.M) {
	document.SetGlobalLevel(document.LogLevelSilent)
	kit.TestMain(m, 2500, 40000)
}

func convOpts(o Opts) *markdown.ConvertOptions {
	co := markdown.DefaultOptions()
	co.EnableGFM, co.EnableTables, co.EnableTaskList, co.EnableMath, co.EnableFootnotes = o.GFM, o.Tables, o.TaskList, o.Math, o.Footnotes
	co.GenerateTOC, co.TOCMaxLevel = o.TOC, o.TOCMax
	return co
}

func optLabel(o Opts) string {
	s := ""
	for i, b := range []bool{o.GFM, o.Tables, o.TaskList, o.Math, o.Footnotes, o.TOC} {
		if b {
			s += string("gtkmfc"[i])
		} else {
			s += "-"
		}
	}
	return s
}

// outcome of converting the judged input through the entry point named by the case
type outcome struct {
	doc   *document.Document // in-memory entry points only
	saved []byte             // the package: ToBytes of doc, or the file a file entry point wrote
	act   []ablk             // the body as judged: observe(doc), or the independent reading of the written package
	pkg   *opc.Package       // the parts of saved (nil if it cannot be read)
	ok    bool
}

func fileEntry(e string) bool { return e == "file" || e == "batch" }

// warmUp converts the warm-up documents of the case on cv. What cv returns for the judged input afterwards must
// not depend on them.
func warmUp(res *kit.Result, cv *markdown.Converter, co *markdown.ConvertOptions, c Case, judged bool) bool {
	for i, w := range c.Warm {
		var err error
		p, st := kit.Try(func() { _, err = cv.ConvertString(w, co) })
		if !judged {
			if p != nil || err != nil {
				return false
			}
			continue
		}
		res.Eval("C19.M0")
		if p != nil {
			res.Fail("C19.M0", "conversion of warm-up document %d on the shared converter panicked: %v [%s]", i, p, st)
			return false
		}
		if err != nil {
			res.Fail("C19.M0", "conversion of warm-up document %d returned an error instead of a document: %v", i, err)
			return false
		}
	}
	return true
}

// convert runs the entry point named by the case on a fresh converter (one Converter per case; the warm-up
// documents of the case go through it first: as ConvertString calls, or - BatchConvert - as the files that
// precede the judged one in the same batch).
func convert(res *kit.Result, c Case, src []byte) (out outcome) {
	co := convOpts(c.Opts)
	var err error
	var p interface{}
	var st string
	var doc *document.Document
	var saved []byte
	// the Converter is constructed, and converts its warm-up documents, under the prior options of the case (the
	// same option set unless the case says otherwise); the judged call passes its own options, and those are the
	// options of that conversion
	pco := co
	if c.Prior != nil {
		pco = convOpts(*c.Prior)
	}
	cv := markdown.NewConverter(pco)
	if c.Entry != "batch" && !warmUp(res, cv, pco, c, true) {
		return
	}
	dir := ""
	tConv := time.Now()
	switch c.Entry {
	case "file", "batch":
		dir, _ = os.MkdirTemp(kit.Scratch, "c19-")
		defer os.RemoveAll(dir)
		in, outp := filepath.Join(dir, "in.md"), filepath.Join(dir, "out.docx")
		if werr := os.WriteFile(in, src, 0o644); werr != nil {
			res.Count("scratch_write_errors", 1)
			return
		}
		if c.Entry == "file" {
			p, st = kit.Try(func() { err = cv.ConvertFile(in, outp, co) })
		} else {
			// BatchConvert: the warm-up documents are the files before the judged one
			var inputs []string
			for i, w := range c.Warm {
				f := filepath.Join(dir, "w"+itoa(i)+".md")
				if werr := os.WriteFile(f, []byte(w), 0o644); werr != nil {
					res.Count("scratch_write_errors", 1)
					return
				}
				inputs = append(inputs, f)
			}
			inputs = append(inputs, in)
			co.IgnoreErrors = false // a per-file error is returned, not swallowed (the callback also receives mere notices: not used)
			outDir := filepath.Join(dir, "out")
			outp = filepath.Join(outDir, "in.docx")
			p, st = kit.Try(func() { err = cv.BatchConvert(inputs, outDir, co) })
		}
		if p == nil && err == nil {
			saved, err = os.ReadFile(outp)
		}
	case "string":
		p, st = kit.Try(func() { doc, err = cv.ConvertString(string(src), co) })
	default:
		p, st = kit.Try(func() { doc, err = cv.ConvertBytes(src, co) })
	}
	phase("convert", tConv)
	res.Eval("C19.M0")
	if p != nil {
		res.Fail("C19.M0", "conversion (%s entry) panicked: %v [%s]", c.Entry, p, st)
		return
	}
	if err != nil {
		res.Fail("C19.M0", "conversion (%s entry) of a byte string returned an error instead of a document: %v", c.Entry, err)
		return
	}
	out.doc = doc
	if !fileEntry(c.Entry) {
		if doc == nil {
			res.Fail("C19.M0", "conversion returned neither a document nor an error")
			return
		}
		p, st = kit.Try(func() { saved, err = doc.ToBytes() })
		if p != nil {
			res.Fail("C19.M0", "ToBytes of the converted document panicked: %v [%s]", p, st)
			return
		}
		if err != nil {
			res.Fail("C19.M0", "the converted document does not save: %v", err)
			return
		}
	}
	out.saved = saved
	tPkg := time.Now()
	out.pkg = checkPackage(res, saved, c.Entry, sampleConstant(src))
	phase("checkPackage", tPkg)
	if !fileEntry(c.Entry) {
		out.act = observe(doc)
		out.ok = true
		return
	}
	// file entry points: the document is what the written package holds (for arbitrary byte strings without the
	// text of formula runs, see entryAgreement)
	tRead := time.Now()
	defer func() { phase("read+agree", tRead) }()
	if out.act, err = readBody(saved, c.Kind != "ast"); err != nil {
		res.Fail("C19.M0", "the body of the package written by the %s entry cannot be read: %v", c.Entry, err)
		return
	}
	out.ok = true
	entryAgreement(res, c, src, dir, out.act)
	return
}

// entryAgreement (M7): the document is a function of the byte string and the options - the file entry points
// convert the bytes of the file, so the package they write holds the same body as the package of the document
// ConvertBytes returns for those bytes (same options; relative image paths are documented to resolve against the
// directory of the Markdown file, so that directory is the reference's ImageBasePath). The text of formula runs
// is left out of the comparison for arbitrary byte strings (the LaTeX display text is not judged by this check).
func entryAgreement(res *kit.Result, c Case, src []byte, dir string, a []ablk) {
	if len(src) > 1<<16 && (c.Kind != "ast" || len(src) > 1<<19) { // budget: the giant inputs (tables of 10^5 cells, a token repeated thousands of times) are judged for totality only
		res.Count("agreement_skipped_large_input", 1)
		return
	}
	co := convOpts(c.Opts)
	co.ImageBasePath = dir
	cv := markdown.NewConverter(co)
	if !warmUp(res, cv, co, c, false) {
		res.Count("agreement_reference_failed", 1)
		return
	}
	var ref *document.Document
	var refSaved []byte
	var err error
	if p, _ := kit.Try(func() {
		if ref, err = cv.ConvertBytes(src, co); err == nil && ref != nil {
			refSaved, err = ref.ToBytes()
		}
	}); p != nil || err != nil || refSaved == nil {
		res.Count("agreement_reference_failed", 1) // the same bytes through the bytes entry are judged by other cases
		return
	}
	b, errB := readBody(refSaved, c.Kind != "ast")
	if errB != nil {
		res.Count("agreement_reference_failed", 1)
		return
	}
	res.Eval("C19.M7")
	res.Label("agreement:judged")
	if d := firstDifference(a, b); d != "" {
		res.Fail("C19.M7", "the %s entry point and ConvertBytes disagree on the same bytes %q (written package / package of the ConvertBytes document): %s", c.Entry, trunc(string(src), 300), d)
	}
}

func runBytes(c Case) *kit.Result {
	res := &kit.Result{}
	src := c.Bytes()
	res.Label("kind:bytes")
	reuseLabel(res, c)
	res.Label("bytes:" + c.Cls)
	res.Label("entry:" + c.Entry)
	o := convert(res, c, src)
	n := 0
	if o.doc != nil && o.doc.Body != nil {
		n = len(o.doc.Body.Elements)
	} else if fileEntry(c.Entry) { // no in-memory document: the body elements of the written part
		n = len(o.act)
	}
	// LaTeX -> OMML on the same string: must return, whatever the input
	if len(src) <= 4096 {
		for _, blk := range []bool{false, true} {
			p, st := kit.Try(func() { _, _ = markdown.LaTeXToOMMLString(string(src), blk) })
			if p != nil {
				res.Fail("C19.M0", "LaTeXToOMMLString(%q, %v) panicked: %v [%s]", trunc(string(src), 200), blk, p, st)
			}
		}
		res.Label("latex-api")
	}
	// ... and on every formula body of the case by itself
	for i, t := range c.Toks {
		if !t.F {
			continue
		}
		blk := i%2 == 0 // inline and display form alternate
		p, st := kit.Try(func() { _, _ = markdown.LaTeXToOMMLString(t.S, blk) })
		if p != nil {
			res.Fail("C19.M0", "LaTeXToOMMLString(%q, %v) panicked: %v [%s]", trunc(t.S, 200), blk, p, st)
		}
		res.Count("formulas", 1)
	}
	if c.Opts.Math {
		for _, lc := range latexClasses {
			if lc.re.Match(src) {
				res.Label("latex:" + lc.name)
			}
		}
	}
	res.Nontrivial = n >= 1
	var ks []string
	for i, t := range c.Toks {
		if i < 12 {
			ks = append(ks, t.S)
		}
	}
	res.Shape = "bytes|" + c.Cls + "|" + optLabel(c.Opts) + "|" + strings.Join(ks, "\x00") + fmt.Sprint(len(src)/64, n)
	return res
}

// classes of LaTeX constructs in a totality input (labels; math on)
var latexClasses = []struct {
	name string
	re   *regexp.Regexp
}{
	{"root-index", regexp.MustCompile(`\\sqrt\s*\[[^\]]+\]\s*\{`)},
	{"root", regexp.MustCompile(`\\sqrt\s*\{`)},
	{"frac", regexp.MustCompile(`\\[dtc]?frac\s*\{`)},
	{"script-braced", regexp.MustCompile(`[\^_]\{`)},
	{"left-right", regexp.MustCompile(`\\left`)},
	{"environment", regexp.MustCompile(`\\begin\{`)},
}

func reuseLabel(res *kit.Result, c Case) {
	if c.Prior != nil && *c.Prior != c.Opts {
		res.Label("converter:options-changed")
		if c.Prior.Tables != c.Opts.Tables {
			res.Label("converter:options-changed:tables")
		}
		if len(c.Warm) > 0 && c.Entry != "batch" {
			res.Label("converter:options-changed-after-a-call")
		} else {
			res.Label("converter:options-changed-since-construction")
		}
	}
	if len(c.Warm) > 0 {
		res.Label("converter:reused")
	} else {
		res.Label("converter:fresh")
	}
}

// a fenced block with indented fences and a content line that starts with a tab (top level or nested)
func hasFenceTab(bs []Blk) bool {
	for _, b := range bs {
		if b.K == "code" && fenceIndent(b) > 0 {
			for _, l := range b.Lines {
				if strings.HasPrefix(l, "\t") {
					return true
				}
			}
		}
		if hasFenceTab(b.B) {
			return true
		}
		for _, it := range b.Items {
			if hasFenceTab(it.B) {
				return true
			}
		}
	}
	return false
}

func trunc(s string, n int) string {
	if len(s) > n {
		return s[:n] + "…"
	}
	return s
}

func blockKinds(bs []Blk, into map[string]bool, inl map[string]bool) {
	var walkI func(xs []Inl)
	walkI = func(xs []Inl) {
		for _, x := range xs {
			if x.K != "t" {
				inl[x.K] = true
			}
			walkI(x.C)
		}
	}
	for _, b := range bs {
		k := b.K
		if k == "code" {
			if b.Fenced {
				k = "code-fenced"
			} else {
				k = "code-indented"
			}
		}
		if k == "h" && b.Setext && b.Level <= 2 {
			k = "h-setext"
		}
		into[k] = true
		walkI(b.I)
		blockKinds(b.B, into, inl)
		for _, it := range b.Items {
			if it.Task > 0 {
				into["task"] = true
			}
			blockKinds(it.B, into, inl)
		}
		for _, c := range b.Head {
			walkI(c)
		}
		for _, r := range b.Rows {
			for _, c := range r {
				walkI(c)
			}
		}
	}
}

func sig(bs []Blk) string {
	var sb strings.Builder
	for _, b := range bs {
		sb.WriteString(b.K)
		if b.K == "h" {
			sb.WriteString(itoa(b.Level))
		}
		if b.K == "tbl" {
			sb.WriteString(itoa(len(b.Head)) + "x" + itoa(len(b.Rows)) + strings.Join(b.Aligns, ","))
		}
		if b.K == "code" {
			sb.WriteString(itoa(len(b.Lines)) + "i" + itoa(fenceIndent(b)))
		}
		for _, x := range b.I {
			sb.WriteString(x.K[:1])
		}
		if len(b.B) > 0 {
			sb.WriteString("(" + sig(b.B) + ")")
		}
		for _, it := range b.Items {
			sb.WriteString("[" + sig(it.B) + "]")
		}
		sb.WriteString(" ")
	}
	return sb.String()
}

func runAST(c Case) *kit.Result {
	res := &kit.Result{}
	res.Label("kind:ast")
	reuseLabel(res, c)
	if hasFenceTab(c.Doc) {
		res.Label("code:indented-fence+tab")
	}
	res.Label("entry:" + c.Entry)
	src := []byte(c.Markdown())
	bk, ik := map[string]bool{}, map[string]bool{}
	blockKinds(c.Doc, bk, ik)
	for k := range bk {
		res.Label("blk:" + k)
	}
	for k := range ik {
		res.Label("inl:" + k)
	}
	if c.Opts.GFM {
		for _, b := range c.Doc {
			eachInl(b, "", func(ctx string, xs []Inl) {
				if anyInl(xs, func(x Inl) bool { return x.K == "bare" && strings.HasPrefix(x.S, "www.") }) {
					res.Label("autolink:bare-www+gfm") // a link whose text (www.host) is not its destination (http://www.host)
					if ctx != "p" {
						res.Label("autolink:bare-www+gfm-in-heading/item/quote/cell")
					}
				}
			})
		}
	}
	sizeLabels(res, c)
	clean := true
	for _, s := range shapes {
		for _, b := range c.Doc {
			if s.pred(c, b) {
				res.Label("shape:" + s.id)
				clean = false
				break
			}
		}
	}
	if clean {
		res.Label("ast:clean")
	} else {
		res.Label("ast:finding-class")
	}
	res.Label("opts:" + optLabel(c.Opts))
	if c.Opts.TOC && c.Opts.TOCMax > 0 {
		res.Label("toc-bookmarks")
	}

	o := convert(res, c, src)
	if !o.ok {
		return res
	}

	// two references that must agree before the case is judged
	exp := readAST(c.Doc)
	html, err := goldmarkHTML(src, c.Opts)
	var exp2 []xblk
	if err == nil {
		exp2, err = readHTML(html)
	}
	why := ""
	if err != nil {
		why = err.Error()
	} else if same, w := sameReading(exp, exp2); !same {
		why = w
	}
	if why != "" {
		res.Count("discarded", 1)
		res.Label("discarded")
		if os.Getenv("C19_DEBUG_DISCARD") != "" {
			fmt.Fprintf(os.Stderr, "DISCARD %s\n--- md\n%s--- html\n%s\n", why, src, html)
		}
		return res
	}
	res.Label("judged")
	if clean {
		res.Label("judged:unmasked") // no block of the case is in the input class of any finding: every clause failure would be a violation
	} else {
		res.Label("judged:some-block-in-finding-class")
	}
	tablesOff := c.Opts.GFM && !c.Opts.Tables
	// M8 (lists) is judged on the saved package, read by the independent reader. The numbering part is read only
	// when the package has list paragraphs or the input has list items.
	pk := o.act
	if !fileEntry(c.Entry) {
		var err error
		if pk, err = readBody(o.saved, false); err != nil {
			res.Fail("C19.M0", "the body of the saved package cannot be read: %v", err)
			pk = nil
		}
	}
	nums := &numbering{err: "not read"}
	if needsNumbering(exp, pk) {
		nums = readNumbering(o.pkg)
		res.Label("lists:numbering-part-read")
	}
	if fileEntry(c.Entry) {
		judge(res, exp, o.act, tablesOff, nums)
	} else {
		judge(res, exp, o.act, tablesOff, nil)
		if pk != nil {
			// second walk, over the package reading, for M8 only: everything else was judged on the in-memory model
			tmp := &kit.Result{}
			judge(tmp, exp, pk, tablesOff, nums)
			for _, f := range tmp.Failures {
				if f.Clause == "C19.M8" {
					res.Failures = append(res.Failures, f)
				}
			}
			for i := 0; i < tmp.Clauses["C19.M8"]; i++ {
				res.Eval("C19.M8")
			}
		}
	}
	listLabels(res, exp)

	delete(bk, "task")
	nb := len(bk)
	if bk["code-fenced"] && bk["code-indented"] {
		nb--
	}
	if bk["h"] && bk["h-setext"] {
		nb--
	}
	res.Nontrivial = nb >= 3 && len(ik) >= 2
	var ks []string
	for k := range ik {
		ks = append(ks, k)
	}
	sort.Strings(ks)
	prior := ""
	if c.Prior != nil {
		prior = "|p" + optLabel(*c.Prior)
	}
	res.Shape = "ast|" + optLabel(c.Opts) + prior + "|w" + itoa(len(c.Warm)) + "|" + sig(c.Doc) + "|" + strings.Join(ks, ",")
	return res
}

// needsNumbering: the input has a list item or the document a list paragraph
func needsNumbering(exp []xblk, pk []ablk) bool {
	for _, e := range exp {
		if e.item {
			return true
		}
	}
	for _, a := range pk {
		if a.num != nil {
			return true
		}
	}
	return false
}

// listLabels: the classes of list items the case holds (as read from the input)
func listLabels(res *kit.Result, exp []xblk) {
	seen := map[string]bool{}
	lists := 0
	for i, e := range exp {
		if !e.item {
			continue
		}
		l := "li:bullet"
		switch {
		case e.task:
			l = "li:task"
		case e.ord:
			l = "li:ordered"
		}
		if !e.task && !e.flat {
			seen["li:plain-item-outside-finding-class"] = true
		}
		if e.depth > 0 {
			seen["li:nested"] = true
		}
		seen[l] = true
		if i == 0 || !exp[i-1].item || exp[i-1].top != e.top {
			lists++
		}
	}
	if seen["li:bullet"] && seen["li:ordered"] {
		seen["li:bullet+ordered-in-one-document"] = true
	}
	if lists >= 2 {
		seen["li:two-or-more-lists"] = true
	}
	var ls []string
	for l := range seen {
		ls = append(ls, l)
	}
	sort.Strings(ls)
	for _, l := range ls {
		res.Label(l)
	}
}

// sizeLabels: the classes of size, count and spelling that the common case does not reach
func sizeLabels(res *kit.Result, c Case) {
	if c.CRLF {
		res.Label("eol:crlf")
	}
	if c.NoEOL {
		res.Label("eol:last-line-unterminated")
	}
	seen := map[string]bool{}
	lab := func(l string) {
		if !seen[l] {
			seen[l] = true
			res.Label(l)
		}
	}
	var walkI func(xs []Inl)
	walkI = func(xs []Inl) {
		for _, x := range xs {
			if x.K == "t" {
				if n := len(textOf(x)); n >= 65536 {
					lab("size:text>=64KiB")
				} else if n >= 4096 {
					lab("size:text>=4KiB")
				}
				for _, w := range strings.Fields(x.S) {
					if i := strings.IndexByte(w, '&'); i >= 0 && len(w) > i+1 {
						if resolveRefs(w) == w {
							lab("text:reference-lookalike-literal")
						} else {
							lab("text:character-reference")
						}
					}
				}
			}
			walkI(x.C)
		}
	}
	heads := 0
	var walk func(bs []Blk)
	walk = func(bs []Blk) {
		for _, b := range bs {
			walkI(b.I)
			walk(b.B)
			switch b.K {
			case "h":
				heads++
				if b.Mark == "#" {
					lab("h:closing-sequence")
				}
			case "code":
				if len(b.Lines) >= 9 {
					lab("size:code-lines>=9")
				}
				for _, l := range codeLines(b) {
					if len(l) >= 65536 {
						lab("size:code-line>=64KiB")
					} else if len(l) >= 4096 {
						lab("size:code-line>=4KiB")
					}
				}
			case "ul", "ol":
				if len(b.Items) >= 9 {
					lab("size:items>=9")
				}
				if len(b.Items) >= 32 {
					lab("size:items>=32")
				}
				for _, it := range b.Items {
					walk(it.B)
				}
			case "tbl":
				if len(b.Head) >= 9 {
					lab("size:columns>=9")
				}
				if len(b.Rows) >= 9 {
					lab("size:rows>=9")
				}
				if len(b.Head) >= 32 || len(b.Rows) >= 32 {
					lab("size:table>=32")
				}
				for _, cl := range b.Head {
					walkI(cl)
				}
				for _, r := range b.Rows {
					for _, cl := range r {
						walkI(cl)
					}
				}
			}
		}
	}
	walk(c.Doc)
	if heads >= 9 {
		lab("size:headings>=9")
	}
	if len(c.Doc) >= 13 {
		lab("size:blocks>=13")
	}
}

// leadingIndent: the first non-blank line of the source starts with white space (its indentation is syntax:
// indented code, an indented fence, ...)
func leadingIndent(src []byte) bool {
	t := bytes.TrimLeft(src, "\r\n")
	return len(t) > 0 && (t[0] == ' ' || t[0] == '\t') && len(bytes.TrimSpace(t)) > 0
}

func run(c Case) *kit.Result {
	res := run1(c)
	src := c.Bytes()
	if c.Kind == "ast" {
		src = []byte(c.Markdown())
	}
	if leadingIndent(src) {
		res.Label("src:leading-indent")
		if fileEntry(c.Entry) {
			res.Label("src:leading-indent+file-entry")
		}
	}
	return res
}

var debugPhases []string // development aid (C19_DEBUG_SLOW): where the time of the current case went

func phase(name string, t0 time.Time) {
	if os.Getenv("C19_DEBUG_SLOW") != "" {
		debugPhases = append(debugPhases, name+"="+time.Since(t0).Round(time.Millisecond).String())
	}
}

func run1(c Case) *kit.Result {
	document.VerifResetGlobals()
	debugPhases = debugPhases[:0]
	if os.Getenv("C19_DEBUG_SLOW") != "" { // development aid: which cases come near the watchdog
		t0 := time.Now()
		defer func() {
			if d := time.Since(t0); d > 300*time.Millisecond {
				fmt.Fprintf(os.Stderr, "SLOW %v kind=%s cls=%s entry=%s srclen=%d phases=%v\n", d, c.Kind, c.Cls, c.Entry, len(c.Bytes()), debugPhases)
			}
		}()
	}
	if c.Kind == "ast" {
		return runAST(c)
	}
	return runBytes(c)
}

func TestC19(t *testing.T) {
	if err := xmlwf.SelfTest(); err != nil {
		t.Fatalf("oracle self-test: %v", err)
	}
	if err := selfTest(); err != nil {
		t.Fatalf("oracle self-test: %v", err)
	}
	kit.Main(t, kit.Spec[Case]{
		ID: "C19", Level: "exploration",
		Rule: "about 35% totality cases (random bytes, random UTF-8, Markdown token soup, one token repeated up to 1500x (thorough 6000x), huge pipe tables, unbalanced $, LaTeX token soup, formula documents (1-5 formulas drawn from a LaTeX command grammar - roots with drawn index, fractions, scripts, big operators with bounds, delimiters, wrappers with optional arguments, environments, unfinished constructs; every argument/index/bound drawn from both letter cases, digits, commands, nested expressions - placed inline, as display, in items, quotes, cells, headings, spans), slices of a document using every construct re-assembled with soup tokens; LaTeXToOMMLString on the same bytes and on every formula body) and 65% fidelity cases (Markdown AST of 1-7 (thorough 1-12) top-level blocks serialised canonically, words from a safe alphabet plus, for about one word in 40, a character-reference look-alike: entity names in the spellings HTML5 has and in spellings it does not have (other letter case, a letter more or less, no semicolon), unknown names, numeric references at and beyond their digit limits and code-point range - the reading resolves exactly what CommonMark 2.5 calls a reference, everything else is literal text; sizes are small in the common case and, with a small probability each, at or beyond 9-12 and 32/64/65/100 (list items, table columns and rows, code lines, top-level blocks, headings of one document) and 255 B-128 KiB for one code line or one run of text (128 KiB and 65 blocks in the thorough tier only; lengths just below and above 256, 1 Ki, 4 Ki, ..., 64 Ki); ATX headings with and without closing hashes; the text written with LF or CRLF line endings, with or without the terminator of the last line), each under a drawn combination of GFM/tables/task lists/math/footnotes/TOC/TOC level and through a drawn entry point: ConvertBytes, ConvertString, ConvertFile, BatchConvert (file entry points are judged on the package they write, read by an independent reader of the main document part, and compared with the package of the document ConvertBytes returns for the same bytes); in 40% of all cases the Converter has first converted 1-2 other documents (link reference, footnote, heading-id, math, table definitions; in a batch: the files before the judged one; expected result unchanged); in a third of all cases the Converter was constructed, and has converted those other documents, under options that differ from the ones passed to the judged call in tables / task lists / TOC / TOC level (the fields NewConverter does not consume) - the expected result is that of the options passed to the call; about one plain word in 12, in every inline context (paragraph, heading, list item, quote, table cell), is an address written without angle brackets (www.host, www.host/path, http://, https://, user@host: a GFM extended autolink, plain text without GFM; the visible text is the address as written); a fidelity case is judged only if the AST reading equals the reading of goldmark's HTML - block kinds, text, flags, and for list items the list kind (bullet/ordered), nesting depth and task box - (else discarded and counted); lists are judged on the saved package for every entry point (M8: numbering part resolved by an independent reader); 3/4 of the fidelity cases are built only from forms outside every open finding's input class (label judged:unmasked), 1/4 carry one such class. A case that does not return within 15 s (thorough 45 s) ends the process (watchdog) and is replayed by the driver. Non-trivial: fidelity = judged case with >=3 block kinds and >=2 inline kinds; totality = conversion produced >=1 body element. Distinct = option set + block/inline structure signature (fidelity) or class + first tokens + size bucket (totality)",
		Gen:  genCase, Run: run, Findings: findings, Fixed: fixedCases,
		// totality includes termination: a case that has not returned after 15 s (thorough tier, whose inputs are
		// up to 50 times larger: 45 s; the slowest case of the quick search takes about half a second on a machine
		// loaded four times over, one stall of 8 s was seen in the thorough tier) stops the process with the watchdog's exit code; the driver replays the saved
		// case with three times the limit and reports a VIOLATION if it dies again
		CaseLimit: time.Duration(kit.Scale(15, 45)) * time.Second,
		Assumptions: []string{
			"the visible text of a document is the text of the runs of its body paragraphs and table cells, in body order; the blank standing for an empty code line is not text; a list item that is a list paragraph (w:numPr) gets its marker from the numbering definition, so every character of the paragraph is text of the item (only the check-box glyph at the start of a task item is set aside); in a list item that is no list paragraph a leading bullet, number or check-box glyph is not text",
			"M8: 'lists are kept' means, for a consumer of the saved package, that every plain (non-task) list item is a paragraph with w:numPr whose w:numId resolves, through the numbering part the main part's numbering relationship names, to a w:num, its w:abstractNum (or a w:lvlOverride) and the w:lvl of the paragraph's w:ilvl; that this level's w:numFmt is bullet for an item of a bullet list and decimal for an item of an ordered list; that w:ilvl is the number of lists the item is nested in minus one; and that no block outside any list is a list paragraph. Start numbers, restarts, marker glyph, indentation and whether two lists share one numbering instance are not judged; task items are not required to be list paragraphs",
			"heading style of level n is the style id Heading<n>; code formatting is any monospace font on the run; a thematic break carries no text and is not judged beyond totality",
			"bold/italic coming from the heading style or from a table header row is not attributed to inline emphasis",
			"formulas are judged for text only (plain alphanumeric content), not for formatting; the state of a task-list check box is not visible text",
			"white space inside a block is compared after collapsing runs of blanks and line breaks to one blank; M1 ignores white space altogether",
			"in ordinary text '&name;' is a character reference only if name is an HTML5 entity name in exactly that spelling, '&#d;' only with 1-7 decimal and '&#xh;' only with 1-6 hex digits (invalid code points read as U+FFFD); every other '&...' is the literal text as typed (CommonMark 2.5); a line ending is LF or CRLF and a last line needs no terminator (CommonMark 2.1); no construct has a size limit",
			"the document a file entry point yields is the body of the main document part of the package it writes (paragraphs, runs with b/i/strike/rFonts, tables; w:t without xml:space=preserve is trimmed as a consumer would)",
			"M7: the document depends on the bytes and the options only, so ConvertFile/BatchConvert write the body that ConvertBytes yields for the file's bytes (relative image paths resolve against the file's directory, as documented); for arbitrary byte strings the text of formula runs is left out of that comparison",
			"the options of a conversion are the ones passed to that call (ConvertBytes/ConvertString/ConvertFile/BatchConvert take them as a parameter; nil means the converter's own): a Converter constructed, or used before, under other values of EnableTables/EnableTaskList/GenerateTOC/TOCMaxLevel yields the document of the options passed now. GFM, footnotes and math select parser extensions in NewConverter; what they mean when they change after construction is stated nowhere, so they never change within a case",
			"termination is judged with a limit of 15 s per case (thorough tier 45 s; slowest observed case of the quick tier: about 0.5 s on an overloaded machine)",
		},
		MustSee: map[string]float64{"kind:bytes": 0.2, "kind:ast": 0.5, "judged": 0.45, "judged:unmasked": 0.3, "blk:tbl": 0.08, "blk:code-fenced": 0.1, "blk:code-indented": 0.04,
			"blk:ul": 0.12, "blk:ol": 0.05, "blk:task": 0.04, "blk:bq": 0.08, "blk:h": 0.15, "blk:h-setext": 0.05, "blk:hr": 0.05, "inl:em": 0.1, "inl:st": 0.1, "inl:code": 0.1, "inl:link": 0.1, "inl:sb": 0.1, "inl:del": 0.05, "blk:math": 0.03, "inl:math": 0.05,
			"bytes:soup": 0.05, "bytes:deep": 0.01, "bytes:table": 0.01, "bytes:dollar": 0.008, "bytes:splice": 0.03, "entry:file": 0.08, "entry:batch": 0.08,
			"bytes:formula": 0.03, "latex:root-index": 0.015, "latex:frac": 0.02, "latex:script-braced": 0.02, "agreement:judged": 0.15, "src:leading-indent+file-entry": 0.01,
			"converter:reused": 0.25, "converter:fresh": 0.3, "inl:br": 0.15, "code:indented-fence+tab": 0.03,
			"text:reference-lookalike-literal": 0.02, "text:character-reference": 0.02, "size:code-line>=64KiB": 0.002, "size:text>=64KiB": 0.0005, "eol:crlf": 0.02, "eol:last-line-unterminated": 0.02,
			"li:bullet": 0.1, "li:ordered": 0.05, "li:task": 0.04, "li:plain-item-outside-finding-class": 0.12, "li:bullet+ordered-in-one-document": 0.01, "li:two-or-more-lists": 0.03,
			"size:items>=9": 0.005, "size:columns>=9": 0.005, "size:rows>=9": 0.005, "size:code-lines>=9": 0.005, "size:headings>=9": 0.005, "h:closing-sequence": 0.02,
			"inl:bare": 0.08, "autolink:bare-www+gfm": 0.05, "autolink:bare-www+gfm-in-heading/item/quote/cell": 0.03,
			"converter:options-changed": 0.15, "converter:options-changed:tables": 0.1, "converter:options-changed-after-a-call": 0.04, "converter:options-changed-since-construction": 0.08},
	})
}

package c19

import (
	"fmt"
	"testing"

	"github.com/zerx-lab/wordZero/pkg/document"
	"github.com/zerx-lab/wordZero/pkg/markdown"
	"wzverif/internal/kit"
)

func TestProbe2(t *testing.T) {
	document.SetGlobalLevel(document.LogLevelSilent)
	toks := []string{"$$", "$$$", "\n", "\n\n", "- ", "> ", "x", " ", "    "}
	var rec func(prefix string, depth int) bool
	best := ""
	rec = func(prefix string, depth int) bool {
		if depth == 0 {
			return false
		}
		for _, tk := range toks {
			s := prefix + tk
			o := markdown.DefaultOptions()
			p, _ := kit.Try(func() { markdown.NewConverter(o).ConvertString(s, o) })
			if p != nil {
				best = s
				return true
			}
		}
		for _, tk := range toks {
			if rec(prefix+tk, depth-1) {
				return true
			}
		}
		return false
	}
	for d := 1; d <= 5; d++ {
		if rec("", d) {
			break
		}
	}
	fmt.Printf("MINIMAL %q\n", best)
}

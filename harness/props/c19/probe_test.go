package c19

import (
	"bytes"
	"fmt"
	"os"
	"testing"

	mathjax "github.com/litao91/goldmark-mathjax"
	"github.com/yuin/goldmark"
	"github.com/yuin/goldmark/extension"
	"github.com/zerx-lab/wordZero/pkg/document"
	"github.com/zerx-lab/wordZero/pkg/markdown"
)

func TestProbe(t *testing.T) {
	document.SetGlobalLevel(document.LogLevelSilent)
	b, _ := os.ReadFile(os.Getenv("PROBE"))
	md := goldmark.New(goldmark.WithExtensions(extension.GFM, extension.Footnote, mathjax.NewMathJax(mathjax.WithInlineDelim("$", "$"), mathjax.WithBlockDelim("$$", "$$"))))
	var buf bytes.Buffer
	md.Convert(b, &buf)
	fmt.Println("---HTML---")
	fmt.Println(buf.String())
	o := markdown.DefaultOptions()
	doc, err := markdown.NewConverter(o).ConvertBytes(b, o)
	fmt.Println("---DOC--- err", err)
	for _, e := range doc.Body.Elements {
		switch x := e.(type) {
		case *document.Paragraph:
			st := ""
			if x.Properties != nil && x.Properties.ParagraphStyle != nil {
				st = x.Properties.ParagraphStyle.Val
			}
			fmt.Printf("P[%s]", st)
			for _, r := range x.Runs {
				f := ""
				if r.Properties != nil {
					if r.Properties.Bold != nil { f += "B" }
					if r.Properties.Italic != nil { f += "I" }
					if r.Properties.Strike != nil { f += "S" }
					if r.Properties.FontFamily != nil { f += "F:" + r.Properties.FontFamily.ASCII }
				}
				fmt.Printf(" {%s|%q}", f, r.Text.Content)
			}
			fmt.Println()
		case *document.Table:
			fmt.Printf("T %d rows\n", len(x.Rows))
			for _, row := range x.Rows {
				for _, c := range row.Cells {
					jc := ""
					for _, p := range c.Paragraphs {
						if p.Properties != nil && p.Properties.Justification != nil { jc = p.Properties.Justification.Val }
						for _, r := range p.Runs {
							f := ""
							if r.Properties != nil { if r.Properties.Bold != nil { f += "B" }; if r.Properties.Italic != nil { f += "I" } }
							fmt.Printf(" [%s %s %q]", jc, f, r.Text.Content)
						}
					}
				}
				fmt.Println()
			}
		default:
			fmt.Printf("%T\n", e)
		}
	}
}

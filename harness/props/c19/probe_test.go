package c19

import (
	"fmt"
	"os"
	"testing"

	"github.com/zerx-lab/wordZero/pkg/document"
	"github.com/zerx-lab/wordZero/pkg/markdown"
	"wzverif/internal/kit"
)

func TestProbe(t *testing.T) {
	if os.Getenv("PROBE") == "" {
		t.Skip()
	}
	document.SetGlobalLevel(document.LogLevelSilent)
	for _, s := range []string{"$$\na\n$$\n$$\nb\n$$\n", "$$\n$$\n$$\n$", "$$\n$$\n$$\n", "$$\n$$\n$$\n\n", "$$\n$$\n$$\nx", "$$a$$\n$$b$$\nx\n", "- f:\n  $$\n  a\n$$\nx\n"} {
		o := markdown.DefaultOptions()
		p, _ := kit.Try(func() { markdown.NewConverter(o).ConvertString(s, o) })
		fmt.Printf("%q -> %v\n", s, p)
	}
}

package c19

import (
	"strings"

	"pgregory.net/rapid"
)

// ---------------------------------------------------------------------------------------------
// Formula-bearing totality inputs: LaTeX drawn from a command grammar (every argument, index, bound and script
// is itself drawn - letters of both cases, digits, Greek and symbol commands, nested expressions), placed in the
// Markdown contexts a formula can stand in. The property demands of these only what it demands of any byte
// string: the conversion returns, without panic, a document that saves (M0). A conversion that does not return
// is stopped by kit's per-case watchdog (exit 97); the driver replays the saved case and reports a VIOLATION
// when it reproduces.

type lx struct {
	t *rapid.T
}

const lxLower = "abcdefghijklmnopqrstuvwxyz"
const lxUpper = "ABCDEFGHIJKLMNOPQRSTUVWXYZ"
const lxDigit = "0123456789"

var lxGreek = []string{`\alpha`, `\beta`, `\gamma`, `\delta`, `\epsilon`, `\theta`, `\lambda`, `\mu`, `\pi`, `\rho`, `\sigma`, `\phi`, `\omega`,
	`\Gamma`, `\Delta`, `\Theta`, `\Lambda`, `\Sigma`, `\Phi`, `\Omega`, `\infty`, `\partial`, `\nabla`, `\ell`, `\hbar`, `\varepsilon`, `\emptyset`, `\aleph`}

var lxOps = []string{"+", "-", "=", " ", "", `\cdot `, `\times `, `\div `, `\pm `, `\leq `, `\le `, `\geq `, `\ge `, `\neq `, `\ne `, `\approx `, `\equiv `,
	`\in `, `\notin `, `\subset `, `\subseteq `, `\to `, `\rightarrow `, `\Rightarrow `, `\mapsto `, `\land `, `\lor `, `\cup `, `\cap `, ", ", `\, `, `\; `, `\quad `,
	" < ", " > ", "/", "!", `\mid `, `\ldots `, `\cdots `, " & "}

var lxBig = []string{`\sum`, `\prod`, `\int`, `\oint`, `\iint`, `\bigcup`, `\bigcap`, `\lim`, `\max`, `\min`, `\sup`, `\inf`, `\coprod`}

var lxFun = []string{`\sin`, `\cos`, `\tan`, `\log`, `\ln`, `\exp`, `\det`, `\dim`, `\ker`, `\gcd`, `\arg`}

var lxWrap = []string{`\text`, `\mathrm`, `\mathbf`, `\mathbb`, `\mathcal`, `\mathit`, `\hat`, `\bar`, `\vec`, `\tilde`, `\dot`, `\overline`, `\underline`,
	`\widehat`, `\boldsymbol`, `\operatorname`, `\foo`, `\unknowncmd`, `\overrightarrow`, `\boxed`, `\phantom`}

var lxTwo = []string{`\frac`, `\frac`, `\frac`, `\dfrac`, `\tfrac`, `\binom`, `\cfrac`, `\stackrel`, `\overset`, `\underset`}

var lxDelims = [][2]string{{"(", ")"}, {"[", "]"}, {`\{`, `\}`}, {"|", "|"}, {`\langle `, `\rangle `}, {`\lfloor `, `\rfloor `}, {`\lceil `, `\rceil `}, {".", "|"}, {`\|`, `\|`}}

func (l *lx) pick(name string, xs []string) string { return rapid.SampledFrom(xs).Draw(l.t, name) }
func (l *lx) pct(name string, p int) bool          { return rapid.IntRange(1, 100).Draw(l.t, name) <= p }

// char: one character of a drawn class
func (l *lx) char() string {
	set := l.pick("charclass", []string{lxLower, lxLower, lxUpper, lxUpper, lxDigit})
	return string(set[rapid.IntRange(0, len(set)-1).Draw(l.t, "char")])
}

func (l *lx) atom() string {
	switch rapid.IntRange(0, 9).Draw(l.t, "atomkind") {
	case 0, 1, 2, 3:
		return l.char()
	case 4:
		n := rapid.IntRange(1, 3).Draw(l.t, "ndigits")
		s := ""
		for i := 0; i < n; i++ {
			s += string(lxDigit[rapid.IntRange(0, 9).Draw(l.t, "digit")])
		}
		return s
	case 5, 6:
		return l.pick("greek", lxGreek) + " "
	case 7:
		return l.char() + "'"
	case 8:
		return l.char() + l.char()
	}
	return l.pick("fun", lxFun) + " " + l.char()
}

// sp: the optional white space TeX allows between a command and its arguments
func (l *lx) sp() string {
	if l.pct("argspace", 12) {
		return " "
	}
	return ""
}

// braced argument
func (l *lx) arg(depth int) string { return l.sp() + "{" + l.expr(depth+1, 2) + "}" }

// script: what follows ^ or _ : one character, a command, or a braced expression
func (l *lx) script(depth int) string {
	switch rapid.IntRange(0, 5).Draw(l.t, "scriptkind") {
	case 0, 1:
		return l.char()
	case 2:
		return l.pick("greek", lxGreek) + " "
	case 3:
		return "{" + l.index(depth) + "}"
	}
	return "{" + l.expr(depth+1, 2) + "}"
}

// index: the content of an optional [..] argument, a bound or a script: characters of any class, a command, an
// expression - or nothing
func (l *lx) index(depth int) string {
	switch rapid.IntRange(0, 9).Draw(l.t, "indexkind") {
	case 0, 1, 2, 3:
		n := rapid.IntRange(1, 3).Draw(l.t, "nidx")
		s := ""
		for i := 0; i < n; i++ {
			s += l.char()
		}
		return s
	case 4:
		return l.pick("greek", lxGreek)
	case 5:
		return l.char() + l.pick("idxop", []string{"+", "-", "=", ",", "/", " "}) + l.char()
	case 6:
		return ""
	case 7:
		return l.pick("oddindex", []string{" ", "*", "?", "-1", "\\%", "n!", "2n", "N", "Q", "漢", "é", "1/2", "(k)"})
	}
	if depth >= 3 {
		return l.char()
	}
	// an expression, without a bare closing bracket (it would end the optional argument early)
	return strings.NewReplacer("]", ")", "[", "(").Replace(l.expr(depth+1, 2))
}

func (l *lx) term(depth int) string {
	if depth >= 3 {
		return l.atom()
	}
	switch rapid.IntRange(0, 19).Draw(l.t, "termkind") {
	case 0, 1, 2:
		return l.atom()
	case 3:
		return l.atom() + "^" + l.script(depth)
	case 4:
		return l.atom() + "_" + l.script(depth)
	case 5:
		return l.atom() + "_" + l.script(depth) + "^" + l.script(depth)
	case 6, 7:
		return l.pick("two", lxTwo) + l.arg(depth) + l.arg(depth)
	case 8:
		return `\sqrt` + l.arg(depth)
	case 9, 10:
		return `\sqrt` + l.sp() + "[" + l.index(depth) + "]" + l.arg(depth)
	case 11:
		d := lxDelims[rapid.IntRange(0, len(lxDelims)-1).Draw(l.t, "delim")]
		return `\left` + d[0] + " " + l.expr(depth+1, 3) + ` \right` + d[1]
	case 12:
		op := l.pick("bigop", lxBig)
		s := op
		if l.pct("lower", 80) {
			s += "_" + l.script(depth)
		}
		if l.pct("upper", 60) {
			s += "^" + l.script(depth)
		}
		return s + " " + l.term(depth+1)
	case 13, 14:
		w := l.pick("wrap", lxWrap)
		if l.pct("optarg", 15) {
			w += "[" + l.index(depth) + "]"
		}
		return w + l.arg(depth)
	case 15:
		return l.pick("fun", lxFun) + "_" + l.script(depth) + l.sp() + l.atom()
	case 16:
		return "{" + l.expr(depth+1, 3) + "}"
	case 17:
		return `\{` + l.expr(depth+1, 2) + `\}`
	case 18:
		env := l.pick("env", []string{"matrix", "pmatrix", "bmatrix", "cases", "aligned", "array"})
		nl := l.pick("rowsep", []string{` \\ `, " \\\\\n"})
		rows := rapid.IntRange(1, 3).Draw(l.t, "envrows")
		cols := rapid.IntRange(1, 3).Draw(l.t, "envcols")
		var rs []string
		for r := 0; r < rows; r++ {
			var cs []string
			for c := 0; c < cols; c++ {
				cs = append(cs, l.term(depth+2))
			}
			rs = append(rs, strings.Join(cs, " & "))
		}
		return `\begin{` + env + `}` + strings.Join(rs, nl) + `\end{` + env + `}`
	}
	// an incomplete or odd construct: what a formula looks like while it is being typed
	return l.pick("odd", []string{`\frac{`, `\sqrt[`, `\sqrt{`, `^`, `_`, `^{`, `\left(`, `\right)`, `\begin{cases}`, `\end{x}`, `\`, `{`, `}`, `\frac{}{}`, `\sqrt[]{}`, `\sqrt[]{x}`, `^{}`, `_{}`, `%`, `~`, `\$`, `#`})
}

func (l *lx) expr(depth, max int) string {
	n := rapid.IntRange(1, max).Draw(l.t, "nterms")
	var sb strings.Builder
	for i := 0; i < n; i++ {
		if i > 0 {
			sb.WriteString(l.pick("op", lxOps))
		}
		sb.WriteString(l.term(depth))
	}
	return sb.String()
}

// formula: one complete formula body
func (l *lx) formula() string { return l.expr(0, 4) }

// genFormulaDoc builds the token list of a Markdown document that carries 1-5 formulas in drawn contexts. Formula
// bodies are tokens of their own (F), so that each is also handed to LaTeXToOMMLString by itself.
func genFormulaDoc(t *rapid.T) []Tok {
	l := &lx{t: t}
	var toks []Tok
	lit := func(s string) { toks = append(toks, Tok{S: s, N: 1}) }
	f := func() { toks = append(toks, Tok{S: l.formula(), N: 1, F: true}) }
	inline := func() { lit("$"); f(); lit("$") }
	n := rapid.IntRange(1, 5).Draw(t, "npieces")
	for i := 0; i < n; i++ {
		switch l.pick("context", []string{"para", "para", "display", "display", "display1", "item", "quote", "cell", "heading", "span", "displayitem", "code", "bare"}) {
		case "para":
			lit("The value ")
			inline()
			lit(" is written ")
			inline()
			lit(" here.\n\n")
		case "display":
			lit("$$\n")
			f()
			if l.pct("secondline", 25) {
				lit("\n")
				f()
			}
			lit("\n$$\n\n")
		case "display1":
			lit("$$")
			f()
			lit("$$\n\n")
		case "item":
			lit("- first ")
			inline()
			lit("\n- ")
			inline()
			lit("\n\n")
		case "quote":
			lit("> quoted ")
			inline()
			lit("\n\n")
		case "cell":
			lit("| norm | formula |\n|---|:-:|\n| p | ")
			inline()
			lit(" |\n| ")
			inline()
			lit(" | q |\n\n")
		case "heading":
			lit(l.pick("hashes", []string{"# ", "## ", "#### "}) + "Root ")
			inline()
			lit("\n\n")
		case "span":
			lit("so **bold ")
			inline()
			lit("** and *")
			inline()
			lit("* and [")
			inline()
			lit("](http://ex.test/a)\n\n")
		case "displayitem":
			lit("1. step\n\n   $$\n   ")
			f()
			lit("\n   $$\n\n")
		case "code": // not a formula at all: the same text as code
			lit("```\n$")
			f()
			lit("$\n```\n\n")
		case "bare": // the body without delimiters, and an unclosed formula
			f()
			lit("\n\n$")
			f()
			lit("\n\n")
		}
	}
	return toks
}

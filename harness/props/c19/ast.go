package c19

import (
	"strings"
	"unicode"
)

// ---------------------------------------------------------------------------------------------
// Case: plain data. Kind "bytes" (totality) carries tokens x repetition counts, kind "ast"
// (fidelity) carries a Markdown AST that is serialised in one canonical, unambiguous style.

type Opts struct {
	GFM       bool `json:"gfm"`
	Tables    bool `json:"tables"`
	TaskList  bool `json:"tasklist"`
	Math      bool `json:"math"`
	Footnotes bool `json:"footnotes"`
	TOC       bool `json:"toc"`
	TOCMax    int  `json:"toc_max"`
}

// Tok is S (or, for bytes that JSON strings cannot carry, B) repeated N times. F marks S as the body of a formula
// (LaTeX without its $ delimiters): it is, in addition, handed to LaTeXToOMMLString by itself.
type Tok struct {
	S string `json:"s,omitempty"`
	B []byte `json:"b,omitempty"`
	N int    `json:"n"`
	F bool   `json:"f,omitempty"`
}

// Inl is an inline node. K: t(ext) em st(rong) del code link sb(soft break) math
// br (bracketed literal: "[S]", or "[text of C][S]" - a reference-style link WITHOUT a definition, i.e. plain text)
// and the escape class: esc(\c) ent(&name;) auto(<url>) hb(hard break);
// bare (S written as it is: an address without angle brackets - www.host/path, http://host/path, user@host - that
// GFM's extended autolinks turn into a link whose visible text is exactly S; without GFM it is ordinary text S).
type Inl struct {
	K string `json:"k"`
	S string `json:"s,omitempty"` // text / code text / latex / url tail / escaped char / entity name
	U bool   `json:"u,omitempty"` // em,st: underscore delimiters; hb: two-blank style
	// N (t only): the words of S written N times, separated by one blank (long runs of text as plain data; 0 = once).
	// The words of a "t" may be character-reference look-alikes ("&copy;", "&Copy;", "&#35;", "&copy"): the reading
	// resolves exactly the ones CommonMark 2.5 calls references (see cref.go), everything else is literal text.
	N int `json:"n,omitempty"`
	C []Inl  `json:"c,omitempty"`
}

type Item struct {
	Task int   `json:"task,omitempty"` // 0 none, 1 [ ], 2 [x]
	B    []Blk `json:"b"`
}

// Blk is a block node. K: h p ul ol bq code hr tbl math.
type Blk struct {
	K      string `json:"k"`
	Level  int    `json:"level,omitempty"`
	Setext bool   `json:"setext,omitempty"`
	I      []Inl  `json:"i,omitempty"`
	Items  []Item `json:"items,omitempty"`
	Loose  bool   `json:"loose,omitempty"`
	Start  int    `json:"start,omitempty"`
	Mark   string `json:"mark,omitempty"` // bullet char or hr char; ATX heading: "#" = closing sequence of hashes
	B      []Blk  `json:"b,omitempty"`
	Fenced bool   `json:"fenced,omitempty"`
	// FIndent: a fenced block's fences are indented by 0-3 blanks. Lines are the RAW source lines; CommonMark
	// removes up to FIndent columns of indentation from each (a tab counts to the next multiple of 4, the columns
	// of a partly removed tab remain as blanks) - see dedent.
	FIndent int       `json:"findent,omitempty"`
	Tilde   bool      `json:"tilde,omitempty"`
	Info    string    `json:"info,omitempty"`
	Lines   []string  `json:"lines,omitempty"`
	// Rep (code): source line i is Lines[i] written Rep[i] times in a row (long lines as plain data; missing or < 2 = once)
	Rep []int `json:"rep,omitempty"`
	Aligns  []string  `json:"aligns,omitempty"` // per column: "" left center right
	Head    [][]Inl   `json:"head,omitempty"`
	Rows    [][][]Inl `json:"rows,omitempty"`
	S       string    `json:"s,omitempty"` // latex of a block formula
}

type Case struct {
	Kind  string `json:"kind"`            // bytes | ast
	Cls   string `json:"cls,omitempty"`   // generator class (label only)
	Entry string `json:"entry,omitempty"` // bytes | string | file | batch
	Opts  Opts   `json:"opts"`
	Toks  []Tok  `json:"toks,omitempty"`
	Doc   []Blk  `json:"doc,omitempty"`
	// Warm: Markdown documents converted first, in order, on the SAME Converter that then converts the judged
	// input (a Converter is reusable: README converts a string and a file with one, BatchConvert many files).
	// The expected result is that of the judged input alone.
	Warm []string `json:"warm,omitempty"`
	// Prior (nil: the same as Opts): the options the Converter was constructed with and under which it converted the
	// warm-up documents. It differs from Opts only in fields that NewConverter does not consume (tables, task lists,
	// TOC, TOC level; GFM, footnotes and math select the parser's extensions at construction and stay equal). The
	// options of a conversion are the ones passed to that call: the expected result is that of Opts.
	Prior *Opts `json:"prior,omitempty"`
	// fidelity: the canonical text is written with CRLF line endings / without the terminator of its last line
	// (both are the same Markdown document: CommonMark 2.1 line endings)
	CRLF  bool `json:"crlf,omitempty"`
	NoEOL bool `json:"no_eol,omitempty"`
}

func (c Case) Bytes() []byte {
	var sb []byte
	for _, t := range c.Toks {
		n := t.N
		if n < 1 {
			n = 1
		}
		unit := []byte(t.S)
		if len(t.B) > 0 {
			unit = t.B
		}
		for i := 0; i < n; i++ {
			sb = append(sb, unit...)
		}
	}
	return sb
}

// ---------------------------------------------------------------------------------------------
// canonical serialisation

func mdInl(xs []Inl) string {
	var sb strings.Builder
	pending := ""
	for _, x := range xs {
		switch x.K {
		case "sb":
			if pending != "" {
				pending = "\n"
			}
			continue
		case "hb":
			if pending != "" {
				if x.U {
					pending = "  \n"
				} else {
					pending = "\\\n"
				}
			}
			continue
		}
		s := mdOne(x)
		if s == "" {
			continue
		}
		sb.WriteString(pending)
		sb.WriteString(s)
		pending = " "
	}
	return sb.String()
}

func mdOne(x Inl) string {
	wrap := func(d string) string {
		in := mdInl(x.C)
		if in == "" {
			return ""
		}
		return d + in + d
	}
	switch x.K {
	case "t":
		return textOf(x)
	case "em":
		if x.U {
			return wrap("_")
		}
		return wrap("*")
	case "st":
		if x.U {
			return wrap("__")
		}
		return wrap("**")
	case "del":
		return wrap("~~")
	case "code":
		if x.S == "" {
			return ""
		}
		return "`" + x.S + "`"
	case "link":
		in := mdInl(x.C)
		if in == "" {
			return ""
		}
		return "[" + in + "](http://ex.test/" + x.S + ")"
	case "math":
		if x.S == "" {
			return ""
		}
		return "$" + x.S + "$"
	case "br":
		if in := mdInl(x.C); in != "" {
			return "[" + in + "][" + x.S + "]"
		}
		return "[" + x.S + "]"
	case "esc":
		return "\\" + x.S
	case "ent":
		return "&" + x.S + ";"
	case "auto":
		return "<" + x.S + ">"
	case "bare":
		return x.S
	}
	return ""
}

// textOf: the source text of a "t" node
func textOf(x Inl) string {
	if x.N < 2 || x.S == "" {
		return x.S
	}
	var sb strings.Builder
	sb.Grow((len(x.S) + 1) * x.N)
	for i := 0; i < x.N; i++ {
		if i > 0 {
			sb.WriteByte(' ')
		}
		sb.WriteString(x.S)
	}
	return sb.String()
}

// codeLines: the raw source lines of a code block
func codeLines(b Blk) []string {
	out := make([]string, len(b.Lines))
	for i, l := range b.Lines {
		out[i] = l
		if i < len(b.Rep) && b.Rep[i] > 1 {
			out[i] = strings.Repeat(l, b.Rep[i])
		}
	}
	return out
}

func fenceIndent(b Blk) int {
	if !b.Fenced || b.FIndent < 0 || b.FIndent > 3 {
		return 0
	}
	return b.FIndent
}

// dedent removes up to n columns of leading white space from a line that starts in column 0 (CommonMark 4.5:
// content lines of a fenced block whose opening fence is indented n blanks). A tab reaches to the next multiple
// of 4; of a tab that is only partly removed the remaining columns stay, as blanks.
func dedent(raw string, n int) string {
	col, removed, i := 0, 0, 0
	for i < len(raw) && removed < n {
		switch raw[i] {
		case ' ':
			col++
			removed++
			i++
		case '\t':
			w := 4 - col%4
			if removed+w > n {
				return strings.Repeat(" ", w-(n-removed)) + raw[i+1:]
			}
			col += w
			removed += w
			i++
		default:
			return raw[i:]
		}
	}
	return raw[i:]
}

func isList(b Blk) bool { return b.K == "ul" || b.K == "ol" }

func mdBlocks(bs []Blk) []string {
	var out []string
	for i, b := range bs {
		if i > 0 {
			out = append(out, "")
		}
		out = append(out, mdBlock(b, i > 0 && isList(bs[i-1]))...)
	}
	return out
}

func mdBlock(b Blk, afterList bool) []string {
	switch b.K {
	case "h":
		txt := mdInl(b.I)
		lv := b.Level
		if lv < 1 {
			lv = 1
		}
		if lv > 6 {
			lv = 6
		}
		if b.Setext && lv <= 2 {
			ls := strings.Split(txt, "\n")
			if lv == 1 {
				return append(ls, "=====")
			}
			return append(ls, "-----")
		}
		closing := ""
		if b.Mark == "#" { // optional closing sequence: any number of hashes after a blank
			closing = " " + strings.Repeat("#", 1+(lv+len(txt))%7)
		}
		return []string{strings.Repeat("#", lv) + " " + strings.ReplaceAll(txt, "\n", " ") + closing}
	case "p":
		return strings.Split(mdInl(b.I), "\n")
	case "hr":
		m := b.Mark
		if m != "*" && m != "_" {
			m = "-"
		}
		return []string{m + m + m}
	case "math":
		return append(append([]string{"$$"}, strings.Split(b.S, "\n")...), "$$")
	case "code":
		if b.Fenced || afterList {
			f := "```"
			if b.Tilde {
				f = "~~~"
			}
			f = strings.Repeat(" ", fenceIndent(b)) + f
			out := []string{f + b.Info}
			out = append(out, codeLines(b)...)
			return append(out, f)
		}
		var out []string
		for _, l := range codeLines(b) {
			if l == "" {
				out = append(out, "")
			} else {
				out = append(out, "    "+l)
			}
		}
		return out
	case "bq":
		var out []string
		for _, l := range mdBlocks(b.B) {
			if l == "" {
				out = append(out, ">")
			} else {
				out = append(out, "> "+l)
			}
		}
		return out
	case "ul", "ol":
		var out []string
		for n, it := range b.Items {
			marker := "- "
			if b.K == "ul" && (b.Mark == "*" || b.Mark == "+") {
				marker = b.Mark + " "
			}
			if b.K == "ol" {
				st := b.Start
				if st < 0 || st > 999999999-len(b.Items) { // an ordered list number has at most 9 digits
					st = 1
				}
				marker = itoa(st+n) + ". "
			}
			pad := strings.Repeat(" ", len(marker))
			var ls []string
			for i, c := range it.B {
				cl := mdBlock(c, i > 0 && isList(it.B[i-1]))
				if i == 0 && it.Task > 0 {
					box := "[ ] "
					if it.Task == 2 {
						box = "[x] "
					}
					cl[0] = box + cl[0]
				}
				if i > 0 && !(i == 1 && isList(c) && !b.Loose) {
					ls = append(ls, "")
				}
				ls = append(ls, cl...)
			}
			if n > 0 && b.Loose {
				out = append(out, "")
			}
			for i, l := range ls {
				switch {
				case i == 0:
					out = append(out, marker+l)
				case l == "":
					out = append(out, "")
				default:
					out = append(out, pad+l)
				}
			}
		}
		return out
	case "tbl":
		row := func(cells [][]Inl) string {
			var sb strings.Builder
			sb.WriteString("|")
			for _, c := range cells {
				sb.WriteString(" " + strings.ReplaceAll(mdInl(c), "\n", " ") + " |")
			}
			return sb.String()
		}
		out := []string{row(b.Head)}
		var sb strings.Builder
		sb.WriteString("|")
		for i := range b.Head {
			a := ""
			if i < len(b.Aligns) {
				a = b.Aligns[i]
			}
			switch a {
			case "left":
				sb.WriteString(":---|")
			case "center":
				sb.WriteString(":---:|")
			case "right":
				sb.WriteString("---:|")
			default:
				sb.WriteString("---|")
			}
		}
		out = append(out, sb.String())
		for _, r := range b.Rows {
			if len(r) > len(b.Head) {
				r = r[:len(b.Head)]
			}
			out = append(out, row(r))
		}
		return out
	}
	return nil
}

func itoa(n int) string {
	if n == 0 {
		return "0"
	}
	s := ""
	for n > 0 {
		s = string(rune('0'+n%10)) + s
		n /= 10
	}
	return s
}

func (c Case) Markdown() string {
	eol := "\n"
	if c.CRLF {
		eol = "\r\n"
	}
	s := strings.Join(mdBlocks(c.Doc), eol)
	if c.NoEOL {
		return s
	}
	return s + eol
}

// ---------------------------------------------------------------------------------------------
// the "reading": what a faithful rendering has to show. Both references produce this structure.

const (
	fB   = 1  // bold
	fI   = 2  // italic
	fS   = 4  // strike-through
	fC   = 8  // code font
	fAny = 16 // formula text: formatting not judged
)

type ch struct {
	r rune
	f uint8
}

type xtbl struct {
	aligns []string
	cells  [][][]ch // rows (header first) x columns
}

type xblk struct {
	kind  string // h p code tbl hr
	level int
	item  bool   // first paragraph of a list item (a bullet/number/check box may precede the text)
	// list context (both readings yield it; sameReading compares it):
	depth int  // number of lists the block is nested in, minus one; -1 = outside any list
	ord   bool // item: the list is an ordered one
	task  bool // item: the item starts with a task check box (GFM)
	// flat (tree reading only): the block sits inside a block quote or inside a list item that holds anything but
	// exactly one paragraph - the containers the open finding KF-C19-flatten-blocks is about
	flat bool
	cs    []ch   // h, p: text with per-character flags, white space collapsed
	line  string // code: one source line without terminator
	tbl   *xtbl
	top   int // index of the top-level source block
}

func collapse(cs []ch) []ch {
	out := make([]ch, 0, len(cs))
	sp := false
	for _, c := range cs {
		if unicode.IsSpace(c.r) {
			sp = true
			continue
		}
		if sp && len(out) > 0 {
			out = append(out, ch{' ', 0})
		}
		sp = false
		out = append(out, c)
	}
	return out
}

func csText(cs []ch) string {
	var sb strings.Builder
	for _, c := range cs {
		sb.WriteRune(c.r)
	}
	return sb.String()
}

func strChars(s string, f uint8) []ch {
	out := make([]ch, 0, len(s))
	for _, r := range s {
		out = append(out, ch{r, f})
	}
	return out
}

var entities = map[string]string{"amp": "&", "lt": "<", "gt": ">", "quot": "\"", "copy": "©", "#35": "#", "#x41": "A", "#42": "*", "hearts": "♥"}

func readInl(xs []Inl, f uint8) []ch {
	var out []ch
	for _, x := range xs {
		switch x.K {
		case "t":
			out = append(out, strChars(resolveRefs(textOf(x)), f)...)
		case "em":
			out = append(out, readInl(x.C, f|fI)...)
		case "st":
			out = append(out, readInl(x.C, f|fB)...)
		case "del":
			out = append(out, readInl(x.C, f|fS)...)
		case "link":
			out = append(out, readInl(x.C, f)...)
		case "code":
			out = append(out, strChars(x.S, f|fC)...)
		case "math":
			out = append(out, strChars(x.S, fAny)...)
		case "br":
			if in := readInl(x.C, f); len(collapse(in)) > 0 {
				out = append(out, ch{'[', f})
				out = append(out, collapse(in)...)
				out = append(out, ch{']', f})
			}
			out = append(out, strChars("["+x.S+"]", f)...)
		case "esc":
			out = append(out, strChars(x.S, f)...)
		case "ent":
			out = append(out, strChars(entities[x.S], f)...)
		case "auto", "bare":
			out = append(out, strChars(x.S, f)...)
		}
		out = append(out, ch{' ', 0}) // sb, hb and the separator between neighbours all read as white space
	}
	return out
}

// lctx: the list context a block is read in
type lctx struct {
	depth int // -1 outside any list
	ord   bool
	flat  bool
}

// readAST flattens the AST into the sequence of blocks a faithful rendering shows, in document order.
func readAST(doc []Blk) []xblk {
	var out []xblk
	for i, b := range doc {
		readBlk(b, i, lctx{depth: -1}, &out)
	}
	return out
}

func readBlk(b Blk, top int, lc lctx, out *[]xblk) {
	add := func(x xblk) {
		x.top, x.depth, x.flat = top, lc.depth, lc.flat
		*out = append(*out, x)
	}
	switch b.K {
	case "h":
		lv := b.Level
		if lv < 1 {
			lv = 1
		}
		if lv > 6 {
			lv = 6
		}
		add(xblk{kind: "h", level: lv, cs: collapse(readInl(b.I, 0))})
	case "p":
		add(xblk{kind: "p", cs: collapse(readInl(b.I, 0))})
	case "hr":
		add(xblk{kind: "hr"})
	case "math":
		add(xblk{kind: "p", cs: collapse(strChars(b.S, fAny))})
	case "code":
		for _, l := range codeLines(b) {
			add(xblk{kind: "code", line: dedent(l, fenceIndent(b))})
		}
	case "bq":
		in := lc
		in.flat = true
		for _, c := range b.B {
			readBlk(c, top, in, out)
		}
	case "ul", "ol":
		for _, it := range b.Items {
			in := lctx{depth: lc.depth + 1, ord: b.K == "ol", flat: lc.flat || !onePara(it.B)}
			for i, c := range it.B {
				n := len(*out)
				readBlk(c, top, in, out)
				if i == 0 && c.K == "p" && len(*out) > n {
					(*out)[n].item = true
					(*out)[n].ord = in.ord
					(*out)[n].task = it.Task > 0
				}
			}
		}
	case "tbl":
		t := &xtbl{}
		nc := len(b.Head)
		for i := 0; i < nc; i++ {
			a := ""
			if i < len(b.Aligns) {
				a = b.Aligns[i]
			}
			t.aligns = append(t.aligns, a)
		}
		rows := append([][][]Inl{b.Head}, b.Rows...)
		for _, r := range rows {
			var cells [][]ch
			for i := 0; i < nc; i++ {
				if i < len(r) {
					cells = append(cells, collapse(readInl(r[i], 0)))
				} else {
					cells = append(cells, []ch{})
				}
			}
			t.cells = append(t.cells, cells)
		}
		add(xblk{kind: "tbl", tbl: t})
	}
}

func sameChars(a, b []ch) bool {
	if len(a) != len(b) {
		return false
	}
	for i := range a {
		if a[i] != b[i] {
			return false
		}
	}
	return true
}

// sameReading reports whether the two references agree; why names the first difference.
func sameReading(a, b []xblk) (bool, string) {
	if len(a) != len(b) {
		return false, "block count"
	}
	for i := range a {
		x, y := a[i], b[i]
		if x.kind != y.kind || x.level != y.level || x.item != y.item {
			return false, "block " + itoa(i) + " kind " + x.kind + "/" + y.kind
		}
		if x.depth != y.depth || x.item && (x.ord != y.ord || x.task != y.task) {
			return false, "block " + itoa(i) + " list context"
		}
		if !sameChars(x.cs, y.cs) {
			return false, "block " + itoa(i) + " text/flags " + csText(x.cs) + " / " + csText(y.cs)
		}
		if x.line != y.line {
			return false, "block " + itoa(i) + " code line"
		}
		if (x.tbl == nil) != (y.tbl == nil) {
			return false, "block " + itoa(i) + " table"
		}
		if x.tbl != nil {
			if len(x.tbl.cells) != len(y.tbl.cells) || len(x.tbl.aligns) != len(y.tbl.aligns) {
				return false, "table dims"
			}
			for c := range x.tbl.aligns {
				if x.tbl.aligns[c] != y.tbl.aligns[c] {
					return false, "table align"
				}
			}
			for r := range x.tbl.cells {
				if len(x.tbl.cells[r]) != len(y.tbl.cells[r]) {
					return false, "table row width"
				}
				for c := range x.tbl.cells[r] {
					if !sameChars(x.tbl.cells[r][c], y.tbl.cells[r][c]) {
						return false, "table cell"
					}
				}
			}
		}
	}
	return true, ""
}

package c19

import (
	"strings"
	"unicode"
	"unicode/utf8"

	"pgregory.net/rapid"

	"wzverif/internal/kit"
)

// ---------------------------------------------------------------------------------------------
// options

func genOpts(t *rapid.T) Opts {
	w := func(name string, pct int) bool { return rapid.IntRange(1, 100).Draw(t, name) <= pct }
	return Opts{GFM: w("gfm", 75), Tables: w("tables", 70), TaskList: w("tasklist", 60), Math: w("math", 65),
		Footnotes: w("footnotes", 50), TOC: w("toc", 50), TOCMax: rapid.IntRange(0, 9).Draw(t, "tocmax")}
}

// ---------------------------------------------------------------------------------------------
// totality inputs: tokens x repetition counts

var soup = []string{"#", "# ", "###### ", "\n", "\n\n", "*", "**", "***", "_", "__", "`", "``", "```", "```go\n", "~~~", "~~", ">", "> ", "- ", "* ", "+ ",
	"1. ", "9) ", "[", "]", "(", ")", "![", "](", "](http://a.b/c)", "|", "| a ", "|-|", "|:-:|", "---", "===", "***\n", "$", "$$", "$$\n", "\\", "\\\\", "\\frac{", "\\sqrt[", "}", "{",
	"^", "_{", "^{", "[^1]", "[^1]: ", "[ ] ", "[x] ", "- [ ] ", "<", ">", "<div>", "</div>", "<!--", "-->", "<a href=\"", "<?", "<![CDATA[", "&amp;", "&#", "&#x110000;", "&;", "\x00", "\t", "    ", " ", "  \n",
	"word", "Ünï", "漢", "😀", "\u200b", " ", "\ufeff", "\u202e", "http://a.b", "www.a.b", "a@b.c", "<http://x.y>", "\r\n", "\r", "\v", "\f", "\\*", "\\alpha", "\\left(", "&", "'", "\"", "]]>", "{{x}}"}

var deepToks = []string{">", "> ", "- ", "* ", "+ ", "1. ", "[", "![", "`", "*", "_", "(", "<", "**a ", "*a ", "_a ", "[a](", "~~", "$", "$$", "\\", "    ", "\t", "[^", "|", "<div>", "&", "- [ ] ", "> - ", "[[", "]("}

func genBytes(t *rapid.T) Case {
	c := Case{Kind: "bytes", Opts: genOpts(t), Warm: genWarm(t)}
	c.Entry = rapid.SampledFrom([]string{"bytes", "bytes", "string", "file", "batch"}).Draw(t, "entry")
	c.Cls = rapid.SampledFrom([]string{"random", "utf8", "soup", "soup", "soup", "deep", "table", "dollar", "latex", "splice", "splice", "splice", "formula", "formula", "formula"}).Draw(t, "cls")
	switch c.Cls {
	case "formula":
		// formulas are converted only with math on; one case in eight keeps the drawn setting
		if rapid.IntRange(0, 7).Draw(t, "keepmath") != 0 {
			c.Opts.Math = true
		}
		c.Toks = genFormulaDoc(t)
	case "splice":
		// a well-formed document using every construct, cut and re-assembled: slices of it in drawn order, some
		// repeated, with soup tokens in between (what byte-level mutation of a seed file reaches, as plain data)
		base := spliceBase
		n := rapid.IntRange(2, kit.Scale(14, 40)).Draw(t, "n")
		for i := 0; i < n; i++ {
			if rapid.IntRange(0, 3).Draw(t, "what") == 0 {
				c.Toks = append(c.Toks, Tok{S: rapid.SampledFrom(soup).Draw(t, "tok"), N: rapid.IntRange(1, 3).Draw(t, "rep")})
				continue
			}
			from := rapid.IntRange(0, len(base)-1).Draw(t, "from")
			ln := rapid.IntRange(1, 120).Draw(t, "len")
			if from+ln > len(base) {
				ln = len(base) - from
			}
			c.Toks = append(c.Toks, Tok{B: []byte(base[from : from+ln]), N: 1}) // B: a slice may cut a UTF-8 sequence
		}
	case "random":
		c.Toks = []Tok{{B: rapid.SliceOfN(rapid.Byte(), 0, 400).Draw(t, "raw"), N: 1}}
	case "utf8":
		c.Toks = []Tok{{S: rapid.String().Draw(t, "str"), N: 1}}
	case "soup":
		n := rapid.IntRange(1, kit.Scale(60, 200)).Draw(t, "n")
		for i := 0; i < n; i++ {
			c.Toks = append(c.Toks, Tok{S: rapid.SampledFrom(soup).Draw(t, "tok"), N: 1})
		}
	case "deep":
		n := rapid.IntRange(1, 3).Draw(t, "n")
		for i := 0; i < n; i++ {
			c.Toks = append(c.Toks, Tok{S: rapid.SampledFrom(deepToks).Draw(t, "tok"), N: rapid.IntRange(1, kit.Scale(1500, 6000)).Draw(t, "rep")})
		}
		c.Toks = append(c.Toks, Tok{S: rapid.SampledFrom([]string{"x", "x\n", "", "\n\nend"}).Draw(t, "tail"), N: 1})
	case "table":
		cols := rapid.IntRange(1, kit.Scale(40, 300)).Draw(t, "cols")
		rows := rapid.IntRange(0, kit.Scale(40, 400)).Draw(t, "rows")
		cell := rapid.SampledFrom([]string{"| a ", "| **b** ", "|  ", "| `c` ", "| \\| ", "| $x$ ", "|"}).Draw(t, "cell")
		c.Toks = []Tok{{S: "| h ", N: cols}, {S: "|\n", N: 1}, {S: rapid.SampledFrom([]string{"|---", "|:-:", "|--:", "|:-"}).Draw(t, "dl"), N: cols}, {S: "|\n", N: 1}}
		// rows may be shorter or longer than the header
		rc := rapid.IntRange(0, cols+3).Draw(t, "rowcols")
		for i := 0; i < rows && i < 8; i++ {
			c.Toks = append(c.Toks, Tok{S: cell, N: rc}, Tok{S: "|\n", N: 1})
		}
		if rows > 8 {
			c.Toks = append(c.Toks, Tok{S: strings.Repeat(cell, rc) + "|\n", N: rows - 8})
		}
	case "dollar":
		n := rapid.IntRange(1, 30).Draw(t, "n")
		for i := 0; i < n; i++ {
			c.Toks = append(c.Toks, Tok{S: rapid.SampledFrom([]string{"$", "$$", "$$\n", "\n", "x", " ", "\\frac{a}{", "}", "^", "_", "\\$", "> ", "- ", "$ ", " $", "\\sqrt{", "{", "`", "*"}).Draw(t, "tok"), N: rapid.IntRange(1, 3).Draw(t, "rep")})
		}
	case "latex":
		n := rapid.IntRange(1, 25).Draw(t, "n")
		c.Toks = append(c.Toks, Tok{S: "$$\n", N: 1})
		for i := 0; i < n; i++ {
			c.Toks = append(c.Toks, Tok{S: rapid.SampledFrom([]string{"\\frac", "\\sqrt", "{", "}", "[", "]", "^", "_", "\\alpha", "\\le", "\\leq", "\\left", "\\right", "(", ")", "x", "12", " ", "\\", "\\\\", "\n", "&", "<", "\\sum_{i=0}^{n}", "\\frac{a}{b}", "\\sqrt[3]{x}", "\\unknown", "\\{", "^^", "__"}).Draw(t, "tok"), N: rapid.IntRange(1, 3).Draw(t, "rep")})
		}
		c.Toks = append(c.Toks, Tok{S: "\n$$\n", N: 1})
	}
	c.Prior = genPrior(t, c.Opts)
	return c
}

var spliceBase = Case{Doc: showcase()}.Markdown() + "\n[^n]: note *text*\n\nref[^n] ![alt](p.png \"t\") <span>raw</span> <http://a.test> a\\\nb  \nc &copy; \\* www.x.test\n\n1. one\n   - [x] two\n     > three\n     > ```\n     > four\n\n<div>\nblock\n</div>\n\n$$\n\\frac{a}{b}\n$$\n$$\nc\n$$\n"

// ---------------------------------------------------------------------------------------------
// fidelity inputs

// safe alphabet: nothing Markdown (CommonMark + GFM + math + footnotes) could re-interpret, whatever the neighbours
var words = []string{"alpha", "Beta", "gamma", "delta", "lorem", "ipsum", "dolor", "sit", "amet", "x", "Q", "foo", "bar", "baz", "zeta9", "k2", "r2d2",
	"naïve", "Über", "Привет", "мир", "漢字", "テスト", "한글", "😀", "end.", "then,", "so;", "what?", "it's", "\"q\"", "&", "<", "Zürich", "éa", "I", "go"}

var codeWords = []string{"x", "y1", "foo()", "a+b", "i<n", "&amp;", "*p", "#inc", "<b>", "|", "$v$", "[z](u)", "\\n", "_k_", "ret", "=", "{", "}", "--", "\"s\"", "1.", "- l", "> q",
	"名前", "ключ=1", "😀", "é", "&Copy;", "&#35;", "\\*", "<!--", "$$"}

// labels that the warm-up documents define as link references and that fidelity documents use in brackets
// without defining them
var refLabels = []string{"spec", "ref", "note", "1", "alpha", "Spec", "TOC", "toc"}

// warmPool: documents converted on the same Converter before the judged one. They leave behind whatever a
// parser keeps per parse: link reference definitions, footnote definitions, heading ids, open math state.
var warmPool = []string{
	"# Glossary\n\nRead the [spec] first, then [the ref][ref].\n\n[spec]: http://example.com/spec\n[ref]: <http://example.com/r> \"title\"\n[note]: /n\n[1]: /one\n[alpha]: /a\n",
	"Text[^1] and[^note] more.\n\n[^1]: first note\n[^note]: second note\n\n[note]: /n\n[ref]: /r\n",
	"# alpha\n\n## alpha\n\n# Title one\n\nSetext two\n-----\n\n[alpha]: /a 't'\n[1]: /1\n",
	"$$\na+b\n$$\n\n| a | b |\n|:-:|--:|\n| 1 | $x$ |\n\n$x$ text [spec][]\n\n[spec]: /s\n",
	"> - [ ] task [ref]\n>\n> [ref]: /quoted\n\n```\n[spec]: /in-code\n",
	"- item\n\n  $$\n  open\n\n[SPEC]: /upper\n[note]:\n  /nextline\n",
}

// genPrior: in about a third of the cases the Converter was constructed - and has converted its warm-up documents -
// under options other than the ones passed to the judged call. Only fields NewConverter does not consume differ
// (tables, task lists, TOC, TOC level): what GFM/footnotes/math mean for a converter constructed without them is
// not stated anywhere. nil = one option set for everything.
func genPrior(t *rapid.T, o Opts) *Opts {
	if rapid.SampledFrom([]string{"same", "changed", "same"}).Draw(t, "priorclass") == "same" {
		return nil
	}
	p := o
	flip := func(name string, pct int) bool { return rapid.IntRange(1, 100).Draw(t, name) <= pct }
	if flip("priortables", 60) {
		p.Tables = !p.Tables
	}
	if flip("priortasklist", 40) {
		p.TaskList = !p.TaskList
	}
	if flip("priortoc", 30) {
		p.TOC = !p.TOC
	}
	if flip("priortocmax", 30) {
		p.TOCMax = (p.TOCMax + rapid.IntRange(1, 9).Draw(t, "priortocshift")) % 10
	}
	if p == o {
		p.Tables = !p.Tables
	}
	return &p
}

func genWarm(t *rapid.T) []string {
	if rapid.SampledFrom([]string{"fresh", "reused", "fresh", "reused", "fresh"}).Draw(t, "reuse") == "fresh" {
		return nil
	}
	n := rapid.IntRange(1, 2).Draw(t, "nwarm")
	var out []string
	for i := 0; i < n; i++ {
		out = append(out, rapid.SampledFrom(warmPool).Draw(t, "warm"))
	}
	return out
}

type g struct {
	t    *rapid.T
	o    Opts
	hard map[string]bool
	n    int // words drawn so far
	big  int // long texts / long code lines drawn so far (at most 2 per document: budget)
}

// rare draws a size that is usually small and, with a small probability, lies at or beyond the round numbers where
// fixed-size buffers, one- and two-digit counters and 64-entry tables end: lo..hi in the common case, otherwise
// one of the mid values (about one draw in 20) or one of the far values (about one in 40). The class is drawn from
// 1..100, which rapid does not draw uniformly: it yields 4 in 4.8 % and 5 in 2.4 % of the draws (measured); 1, the
// value shrinking leads to, is the common case.
func (g *g) rare(name string, lo, hi int, mid, far []int) int {
	switch r := rapid.IntRange(1, 100).Draw(g.t, name+"class"); {
	case r == 5 && len(far) > 0:
		return rapid.SampledFrom(far).Draw(g.t, name+"far")
	case r == 4 && len(mid) > 0:
		return rapid.SampledFrom(mid).Draw(g.t, name+"mid")
	}
	return rapid.IntRange(lo, hi).Draw(g.t, name)
}

// sizes (bytes) around which a long line or a long run of text is drawn
var bigSizes = []int{255, 256, 1023, 1024, 4095, 4096, 4097, 8192, 16384, 32767, 32768, 65535, 65536, 65537, 70000, 131073}

// repFor: how often a unit of n bytes is written to reach one of the bigSizes (just below or just above it)
func (g *g) repFor(n int) int {
	if n < 1 {
		n = 1
	}
	sizes := bigSizes
	if kit.Tier != "thorough" { // 128 KiB only in the thorough tier (budget)
		sizes = sizes[:len(sizes)-1]
	}
	size := rapid.SampledFrom(sizes).Draw(g.t, "bigsize")
	return size/n + rapid.IntRange(0, 1).Draw(g.t, "over")
}

// tag makes every word of a document distinct (two letters from a running counter appended to words ending in a
// letter or digit): with repeated words ("alpha alpha" is what rapid draws most) a lost or invented stretch of
// text could be placed in several blocks, and the attribution of a text difference to a block would be a guess.
func (g *g) tag(w string) string {
	r, _ := utf8.DecodeLastRuneInString(w)
	if !unicode.IsLetter(r) && !unicode.IsDigit(r) {
		return w
	}
	n := g.n % 676
	g.n++
	return w + string(rune('a'+n/26)) + string(rune('a'+n%26))
}

func (g *g) pct(name string, p int) bool { return rapid.IntRange(1, 100).Draw(g.t, name) <= p }

func (g *g) text(max int) Inl {
	n := rapid.IntRange(1, max).Draw(g.t, "nwords")
	ws := make([]string, n)
	for i := range ws {
		if wc := rapid.IntRange(1, 1000).Draw(g.t, "wordclass"); wc > 400 && wc <= 425 {
			// a word that looks like a character reference: resolved or literal, as CommonMark 2.5 says (cref.go)
			ws[i] = rapid.SampledFrom(crefWords).Draw(g.t, "cref")
			if rapid.IntRange(0, 5).Draw(g.t, "glue") == 0 { // inside a word: AT&amp;T, R&D;
				ws[i] = g.tag("x") + ws[i] + rapid.SampledFrom([]string{"", "T", ";", "."}).Draw(g.t, "crefsuffix")
			}
			continue
		}
		ws[i] = g.tag(rapid.SampledFrom(words).Draw(g.t, "word"))
	}
	x := Inl{K: "t", S: strings.Join(ws, " ")}
	if lt := rapid.IntRange(1, 1000).Draw(g.t, "longtext"); g.big < 2 && lt > 500 && lt <= 503 {
		g.big++
		x.N = g.repFor(len(x.S) + 1)
	}
	return x
}

// bare: an address as people type it, without angle brackets. With GFM it is an extended autolink (www., http://,
// https:// and e-mail forms), without GFM plain text; either way the visible text is the address as written. Host
// and path carry the running tag, so every address of a document is distinct.
var bareMix = []string{"t", "t", "t", "bare", "t", "t", "t", "t", "t", "t", "t", "t"}

func (g *g) bare() Inl {
	h := strings.ToLower(g.tag("w"))
	form := rapid.SampledFrom([]string{"www", "www", "www/path", "www/path", "http", "https", "mail"}).Draw(g.t, "bareform")
	switch form {
	case "www/path":
		return Inl{K: "bare", S: "www." + h + ".test/docs/" + rapid.SampledFrom([]string{"a-b", "index.html", "q?x=1", "v2/"}).Draw(g.t, "barepath")}
	case "http":
		return Inl{K: "bare", S: "http://" + h + ".test/x"}
	case "https":
		return Inl{K: "bare", S: "https://" + h + ".test/"}
	case "mail":
		return Inl{K: "bare", S: h + "@mail.test"}
	}
	return Inl{K: "bare", S: "www." + h + ".test"}
}

func (g *g) codeSpan() Inl {
	n := rapid.IntRange(1, 3).Draw(g.t, "ncode")
	ws := make([]string, n)
	for i := range ws {
		ws[i] = rapid.SampledFrom(codeWords[:12]).Draw(g.t, "cword")
		if ws[i] == "|" { // a pipe would split a table cell
			ws[i] = "x"
		}
	}
	return Inl{K: "code", S: strings.Join(ws, " ")}
}

func (g *g) mathText() string {
	n := rapid.IntRange(1, 3).Draw(g.t, "nmath")
	ws := make([]string, n)
	for i := range ws {
		ws[i] = rapid.SampledFrom([]string{"a", "b2", "xy", "n", "3", "E", "mc", "k"}).Draw(g.t, "mword")
	}
	return strings.Join(ws, rapid.SampledFrom([]string{" ", "+", "="}).Draw(g.t, "mop"))
}

// span of kind k with plain content; in hard mode "nested" the content may hold further spans, code and breaks
func (g *g) span(k string, depth int, parentU bool) Inl {
	x := Inl{K: k}
	if k == "em" || k == "st" {
		x.U = g.pct("underscore", 25)
		if depth > 0 {
			x.U = !parentU
		}
	}
	if k == "link" {
		x.S = rapid.SampledFrom([]string{"a", "p/q", "x?y=1", "doc.html"}).Draw(g.t, "url")
	}
	if g.hard["nested"] && depth < 2 && g.pct("nest", 60) {
		n := rapid.IntRange(1, 3).Draw(g.t, "nkids")
		for i := 0; i < n; i++ {
			kinds := []string{"t", "em", "st", "code", "sb"}
			if g.o.GFM && k != "del" {
				kinds = append(kinds, "del")
			}
			if k != "link" && depth == 0 {
				kinds = append(kinds, "link")
			}
			ck := rapid.SampledFrom(kinds).Draw(g.t, "kidkind")
			switch ck {
			case "t":
				x.C = append(x.C, g.text(2))
			case "code":
				x.C = append(x.C, g.codeSpan())
			case "sb":
				x.C = append(x.C, Inl{K: "sb"})
			default:
				x.C = append(x.C, g.span(ck, depth+1, x.U))
			}
		}
		// a span needs text at both ends
		if len(x.C) == 0 || x.C[0].K == "sb" {
			x.C = append([]Inl{g.text(1)}, x.C...)
		}
		if x.C[len(x.C)-1].K == "sb" {
			x.C = append(x.C, g.text(1))
		}
		return x
	}
	if k != "link" && rapid.SampledFrom(bareMix).Draw(g.t, "bareinspan") == "bare" {
		x.C = []Inl{g.text(1), g.bare(), g.text(1)} // an address inside emphasis / strong / strike-through, words on both sides
		return x
	}
	x.C = []Inl{g.text(3)}
	return x
}

// inlines for ctx: p (top-level paragraph), plain (heading, list item, quote, cell: formatting only in hard mode "inline"/"cell")
func (g *g) inlines(ctx string, max int) []Inl {
	n := rapid.IntRange(1, max).Draw(g.t, "ninl")
	var out []Inl
	for i := 0; i < n; i++ {
		kinds := []string{"t", "t", "link"}
		rich := ctx == "p" || (ctx == "plain" && g.hard["inline"]) || (ctx == "cell" && g.hard["cell"])
		if rich {
			kinds = append(kinds, "em", "st", "code")
			if g.o.GFM {
				kinds = append(kinds, "del")
			}
			if ctx != "cell" && i > 0 {
				kinds = append(kinds, "sb", "sb")
			}
		}
		if i > 0 { // bracketed words that no definition in THIS document turns into links: literal text
			kinds = append(kinds, "br")
		}
		if g.o.Math && (ctx == "p" || i > 0) { // formulas in every context; a container's text starts with a word
			kinds = append(kinds, "math")
		}
		if ctx == "p" {
			if g.hard["escape"] {
				kinds = append(kinds, "esc", "ent", "esc", "ent")
			}
			if g.hard["autolink"] {
				kinds = append(kinds, "auto", "auto")
			}
			if g.hard["hardbreak"] && i > 0 {
				kinds = append(kinds, "hb", "hb")
			}
		}
		k := rapid.SampledFrom(kinds).Draw(g.t, "inlkind")
		if k == "t" && rapid.SampledFrom(bareMix).Draw(g.t, "bareaddr") == "bare" {
			k = "bare" // an address written without angle brackets, in every context (GFM: an extended autolink)
		}
		if k == "math" && len(out) > 0 && out[len(out)-1].K == "math" {
			k = "t" // "$a$ $b$": the inline math parser pairs the 2nd and 3rd dollar as well - ambiguous, keep text between formulas
		}
		switch k {
		case "t":
			out = append(out, g.text(4))
		case "code":
			out = append(out, g.codeSpan())
		case "math":
			out = append(out, Inl{K: "math", S: g.mathText()})
		case "br":
			x := Inl{K: "br", S: rapid.SampledFrom(refLabels).Draw(g.t, "label")}
			if g.pct("fullref", 35) {
				x.C = []Inl{g.text(2)}
			}
			out = append(out, x)
		case "sb":
			out = append(out, Inl{K: "sb"})
		case "hb":
			out = append(out, Inl{K: "hb", U: g.pct("twoblank", 50)})
		case "esc":
			out = append(out, Inl{K: "esc", S: rapid.SampledFrom([]string{"*", "_", "#", "[", "\\", "`", "!", "<"}).Draw(g.t, "escch")})
		case "ent":
			out = append(out, Inl{K: "ent", S: rapid.SampledFrom([]string{"amp", "lt", "copy", "#35", "#x41", "hearts"}).Draw(g.t, "entname")})
		case "bare":
			out = append(out, g.bare())
		case "auto":
			out = append(out, Inl{K: "auto", S: rapid.SampledFrom([]string{"http://a.test/x", "https://b.test/", "mailto:me@c.test"}).Draw(g.t, "autourl")})
		default:
			out = append(out, g.span(k, 0, false))
		}
	}
	// breaks need text on both sides
	for len(out) > 0 && (out[len(out)-1].K == "sb" || out[len(out)-1].K == "hb") {
		out = out[:len(out)-1]
	}
	if len(out) == 0 {
		out = []Inl{g.text(2)}
	}
	return out
}

func (g *g) codeLines(top bool, indented bool) []string {
	n := g.rare("nlines", 1, 5, []int{9, 10, 11, 12, 16}, []int{63, 64, 65, 100, 130})
	var ls []string
	for i := 0; i < n; i++ {
		if i > 0 && i < n-1 && g.pct("blankline", 25) {
			ls = append(ls, "")
			continue
		}
		k := rapid.IntRange(1, 3).Draw(g.t, "ncw")
		ws := make([]string, k)
		for j := range ws {
			ws[j] = rapid.SampledFrom(codeWords).Draw(g.t, "cw")
		}
		ind := strings.Repeat(" ", rapid.SampledFrom([]int{0, 0, 2, 4, 7}).Draw(g.t, "ind"))
		if top && !indented && g.pct("tab", 15) {
			ind = "\t"
		}
		ls = append(ls, ind+strings.Join(ws, " "))
	}
	if !indented && g.pct("edgeblank", 15) { // fenced code may start or end with blank lines
		if g.pct("lead", 50) {
			ls = append([]string{""}, ls...)
		} else {
			ls = append(ls, "")
		}
	}
	return ls
}

func (g *g) table() Blk {
	nc := g.rare("ncols", 1, 4, []int{9, 10, 11, 12}, []int{16, 17, 32, 33, 63, 64, 65})
	nr := g.rare("nrows", 1, 4, []int{9, 10, 11, 12}, []int{32, 33, 64, 65, 100})
	if nc > 12 && nr > 12 {
		nr = 3
	}
	if g.hard["headeronly"] {
		nr = 0
	}
	b := Blk{K: "tbl"}
	for i := 0; i < nc; i++ {
		b.Aligns = append(b.Aligns, rapid.SampledFrom([]string{"", "left", "center", "right"}).Draw(g.t, "align"))
		if g.hard["cell"] {
			b.Head = append(b.Head, g.inlines("cell", 2))
		} else {
			b.Head = append(b.Head, []Inl{g.text(2)})
		}
	}
	if g.hard["headeronly"] {
		b.Aligns[rapid.IntRange(0, nc-1).Draw(g.t, "hcol")] = rapid.SampledFrom([]string{"center", "right"}).Draw(g.t, "halign")
	}
	for r := 0; r < nr; r++ {
		n := nc
		if nc > 1 && g.pct("shortrow", 15) {
			n = nc - 1
		}
		var row [][]Inl
		for i := 0; i < n; i++ {
			switch {
			case g.hard["cell"]:
				row = append(row, g.inlines("cell", 3))
			case g.pct("wholecell", 20):
				row = append(row, []Inl{{K: rapid.SampledFrom([]string{"em", "st"}).Draw(g.t, "cellspan"), C: []Inl{g.text(2)}}})
			case g.pct("emptycell", 8) && i > 0:
				row = append(row, []Inl{{K: "t", S: ""}})
			default:
				row = append(row, g.inlines("cell", 2))
			}
		}
		b.Rows = append(b.Rows, row)
	}
	return b
}

func (g *g) list(depth int) Blk {
	b := Blk{K: rapid.SampledFrom([]string{"ul", "ul", "ol"}).Draw(g.t, "listkind")}
	if b.K == "ul" {
		b.Mark = rapid.SampledFrom([]string{"-", "*", "+"}).Draw(g.t, "bullet")
	} else {
		b.Start = rapid.SampledFrom([]int{1, 1, 1, 0, 2, 7, 9, 10, 99, 100, 999, 65535, 999999990}).Draw(g.t, "start")
	}
	b.Loose = g.pct("loose", 30)
	task := b.K == "ul" && g.o.GFM && g.pct("tasklist", 35)
	n := g.rare("nitems", 1, 4, []int{9, 10, 11, 12}, []int{32, 33, 64, 65, 100})
	if depth > 0 && n > 12 {
		n = 12
	}
	if g.hard["blocks"] && n > 4 { // items with blocks of their own: the tree grows with every level
		n = 4 + n%9>>uint(2*depth)
	}
	for i := 0; i < n; i++ {
		it := Item{}
		if task {
			it.Task = rapid.IntRange(0, 2).Draw(g.t, "task")
		}
		it.B = []Blk{{K: "p", I: g.inlines("plain", 2)}}
		if f := it.B[0].I[0]; f.K == "link" && len(f.C) == 1 && (f.C[0].S == "x" || f.C[0].S == "X") {
			// "- [x](url)" reads as a checked task box followed by "(url)" under GFM
			it.B[0].I = append([]Inl{g.text(1)}, it.B[0].I...)
		}
		if g.hard["blocks"] && depth < 2 && g.pct("itemblocks", 60) {
			m := rapid.IntRange(1, 2).Draw(g.t, "nsub")
			for j := 0; j < m; j++ {
				it.B = append(it.B, g.block(depth+1, false))
			}
		}
		b.Items = append(b.Items, it)
	}
	return b
}

func (g *g) quote(depth int) Blk {
	b := Blk{K: "bq", B: []Blk{{K: "p", I: g.inlines("plain", 3)}}}
	if g.hard["blocks"] && depth < 2 && g.pct("quoteblocks", 70) {
		m := rapid.IntRange(1, 2).Draw(g.t, "nsub")
		b.B = b.B[:0]
		for j := 0; j < m+1; j++ {
			b.B = append(b.B, g.block(depth+1, false))
		}
	}
	return b
}

func (g *g) tablesAllowed() bool {
	if !g.o.GFM {
		return false
	}
	return g.o.Tables || g.hard["tablesoff"]
}

func (g *g) block(depth int, top bool) Blk {
	kinds := []string{"p", "p", "p", "h", "h", "code", "code", "ul", "bq", "hr"}
	if top {
		kinds = append(kinds, "ul")
	}
	if g.tablesAllowed() {
		kinds = append(kinds, "tbl", "tbl")
	}
	if g.o.Math {
		kinds = append(kinds, "math")
	}
	if g.hard["tablesoff"] || g.hard["headeronly"] || g.hard["cell"] {
		if top {
			kinds = []string{"tbl", "tbl", "p", "h"}
		}
	}
	if g.hard["blocks"] && top {
		kinds = []string{"ul", "bq", "ul", "bq", "p"}
	}
	if g.hard["inline"] && top {
		kinds = []string{"h", "ul", "bq", "p"}
	}
	k := rapid.SampledFrom(kinds).Draw(g.t, "blkkind")
	switch k {
	case "h":
		b := Blk{K: "h", Level: rapid.IntRange(1, 6).Draw(g.t, "level"), I: g.inlines("plain", 2)}
		if b.Level <= 2 {
			b.Setext = g.pct("setext", 40)
		}
		if !b.Setext && g.pct("closing", 12) {
			b.Mark = "#"
		}
		return b
	case "code":
		b := Blk{K: "code", Fenced: g.pct("fenced", 60)}
		if b.Fenced {
			b.Tilde = g.pct("tilde", 25)
			b.Info = rapid.SampledFrom([]string{"", "", "", "go", "go", "python", "text", "c++", "math", "mermaid", "diff", "latex", "md", "text title=x"}).Draw(g.t, "info")
		}
		b.Lines = g.codeLines(top, !b.Fenced)
		if ll := rapid.IntRange(1, 100).Draw(g.t, "longline"); g.big < 2 && (ll == 3 || ll == 4) { // about one block in 10 (see rare)
			// one line of the block is long (minified script, base64 blob): up to 128 KiB
			g.big++
			i := rapid.IntRange(0, len(b.Lines)-1).Draw(g.t, "longat")
			if b.Lines[i] == "" {
				b.Lines[i] = "x"
			}
			b.Rep = make([]int, len(b.Lines))
			b.Rep[i] = g.repFor(len(b.Lines[i]))
		}
		if b.Fenced && top && g.pct("fenceindent", 45) {
			// fences indented 1-3 blanks; the raw content lines start with the same blanks, fewer, more, a tab,
			// tabs, or tab+blanks - CommonMark removes up to FIndent columns from each
			b.FIndent = rapid.IntRange(1, 3).Draw(g.t, "findent")
			for i, l := range b.Lines {
				if l == "" {
					continue
				}
				body := strings.TrimLeft(l, " \t")
				switch rapid.SampledFrom([]string{"same", "same", "tab", "tab", "tabs", "tab+sp", "less", "more", "sp+tab"}).Draw(g.t, "lead") {
				case "same":
					b.Lines[i] = strings.Repeat(" ", b.FIndent) + l
				case "tab":
					b.Lines[i] = "\t" + body
				case "tabs":
					b.Lines[i] = "\t\t" + body
				case "tab+sp":
					b.Lines[i] = "\t  " + body
				case "less":
					b.Lines[i] = strings.Repeat(" ", b.FIndent-1) + body
				case "more":
					b.Lines[i] = strings.Repeat(" ", b.FIndent+3) + body
				case "sp+tab":
					b.Lines[i] = " \t" + body
				}
			}
		}
		if !b.Fenced { // an indented block cannot start or end with a blank line, nor start with deeper indentation only
			b.Lines[0] = strings.TrimLeft(b.Lines[0], " ")
		}
		return b
	case "ul":
		return g.list(depth)
	case "bq":
		return g.quote(depth)
	case "hr":
		return Blk{K: "hr", Mark: rapid.SampledFrom([]string{"-", "*", "_"}).Draw(g.t, "hrmark")}
	case "tbl":
		return g.table()
	case "math":
		s := g.mathText()
		if g.pct("mathlines", 25) {
			s += "\n" + g.mathText()
		}
		return Blk{K: "math", S: s}
	}
	return Blk{K: "p", I: g.inlines("p", 6)}
}

var hardModes = []string{"escape", "autolink", "hardbreak", "nested", "inline", "cell", "blocks", "tablesoff", "headeronly"}

func genAST(t *rapid.T) Case {
	c := Case{Kind: "ast", Opts: genOpts(t), Entry: rapid.SampledFrom([]string{"bytes", "string", "file", "batch", "bytes", "string"}).Draw(t, "entry"), Warm: genWarm(t)}
	gg := &g{t: t, hard: map[string]bool{}}
	// about a quarter of the fidelity cases carry one class of input on which an open finding is known
	if rapid.IntRange(0, 3).Draw(t, "hard") == 0 {
		m := rapid.SampledFrom(hardModes).Draw(t, "hardmode")
		gg.hard[m] = true
		c.Cls = "hard:" + m
		switch m {
		case "tablesoff":
			c.Opts.GFM, c.Opts.Tables = true, false
		case "headeronly", "cell":
			c.Opts.GFM, c.Opts.Tables = true, true
		}
	} else {
		c.Cls = "clean"
	}
	gg.o = c.Opts
	c.Prior = genPrior(t, c.Opts)
	n := gg.rare("nblocks", 1, kit.Scale(7, 12), nil, []int{13, 16, 20, 33, kit.Scale(33, 65)})
	manyHeadings := n > 12 && gg.pct("manyheadings", 50) // a document with 10+ / 64+ headings (table of contents, bookmarks)
	for i := 0; i < n; i++ {
		if manyHeadings && i%4 != 3 {
			b := Blk{K: "h", Level: rapid.IntRange(1, 6).Draw(t, "level"), I: gg.inlines("plain", 2)}
			c.Doc = append(c.Doc, b)
			continue
		}
		c.Doc = append(c.Doc, gg.block(0, true))
	}
	eol := rapid.IntRange(1, 100).Draw(t, "eol")
	c.CRLF = eol > 40 && eol <= 52
	c.NoEOL = eol > 48 && eol <= 60
	separateIndented(c.Doc)
	return c
}

// separateIndented: two indented code blocks in a row would read as one block with a blank line inside; the
// second one becomes a fenced block (same lines).
func separateIndented(bs []Blk) {
	for i := range bs {
		if i > 0 && isList(bs[i-1]) {
			bs[i].FIndent = 0 // an indented fence after a list would belong to the last item
		}
		if i > 0 && bs[i].K == "code" && !bs[i].Fenced && bs[i-1].K == "code" && !bs[i-1].Fenced {
			bs[i].Fenced = true
		}
		separateIndented(bs[i].B)
		for j := range bs[i].Items {
			separateIndented(bs[i].Items[j].B)
		}
	}
}

var kindMix = []string{"ast", "bytes", "ast", "ast", "bytes", "ast", "ast", "bytes", "ast", "ast"}

func genCase(t *rapid.T) Case {
	if rapid.SampledFrom(kindMix).Draw(t, "kind") == "bytes" {
		return genBytes(t)
	}
	return genAST(t)
}

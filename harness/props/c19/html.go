package c19

import (
	"bytes"
	"fmt"
	"strconv"
	"strings"
	"unicode"

	mathjax "github.com/litao91/goldmark-mathjax"
	"github.com/yuin/goldmark"
	"github.com/yuin/goldmark/extension"
)

// second reference: goldmark's own HTML rendering of the same text with the same extensions.

func goldmarkHTML(src []byte, o Opts) (out string, err error) {
	defer func() { // the reference must never take the process down: a parser panic is "no second reading"
		if x := recover(); x != nil {
			out, err = "", fmt.Errorf("goldmark panicked: %v", x)
		}
	}()
	var ext []goldmark.Extender
	if o.GFM {
		ext = append(ext, extension.GFM)
	}
	if o.Footnotes {
		ext = append(ext, extension.Footnote)
	}
	if o.Math {
		ext = append(ext, mathjax.NewMathJax(mathjax.WithInlineDelim("$", "$"), mathjax.WithBlockDelim("$$", "$$")))
	}
	md := goldmark.New(goldmark.WithExtensions(ext...))
	var buf bytes.Buffer
	if err := md.Convert(src, &buf); err != nil {
		return "", err
	}
	return buf.String(), nil
}

type hnode struct {
	tag   string // "" for text
	text  string
	attrs map[string]string
	kids  []*hnode
}

var voidTags = map[string]bool{"br": true, "hr": true, "input": true, "img": true}

func unescapeHTML(s string) string {
	if !strings.Contains(s, "&") {
		return s
	}
	var sb strings.Builder
	for i := 0; i < len(s); {
		if s[i] == '&' {
			if j := strings.IndexByte(s[i:], ';'); j > 1 && j < 12 {
				name := s[i+1 : i+j]
				rep := ""
				switch name {
				case "amp":
					rep = "&"
				case "lt":
					rep = "<"
				case "gt":
					rep = ">"
				case "quot":
					rep = "\""
				case "apos":
					rep = "'"
				default:
					if strings.HasPrefix(name, "#x") || strings.HasPrefix(name, "#X") {
						if v, err := strconv.ParseInt(name[2:], 16, 32); err == nil {
							rep = string(rune(v))
						}
					} else if strings.HasPrefix(name, "#") {
						if v, err := strconv.ParseInt(name[1:], 10, 32); err == nil {
							rep = string(rune(v))
						}
					}
				}
				if rep != "" {
					sb.WriteString(rep)
					i += j + 1
					continue
				}
			}
		}
		sb.WriteByte(s[i])
		i++
	}
	return sb.String()
}

func parseAttrs(s string) map[string]string {
	m := map[string]string{}
	for len(s) > 0 {
		s = strings.TrimLeft(s, " \t\n/")
		if s == "" {
			break
		}
		i := strings.IndexAny(s, "= \t\n")
		if i < 0 {
			m[s] = ""
			break
		}
		name := s[:i]
		if s[i] != '=' {
			m[name] = ""
			s = s[i:]
			continue
		}
		s = s[i+1:]
		if len(s) > 0 && s[0] == '"' {
			j := strings.IndexByte(s[1:], '"')
			if j < 0 {
				m[name] = unescapeHTML(s[1:])
				break
			}
			m[name] = unescapeHTML(s[1 : 1+j])
			s = s[j+2:]
		} else {
			j := strings.IndexAny(s, " \t\n")
			if j < 0 {
				m[name] = s
				break
			}
			m[name] = s[:j]
			s = s[j:]
		}
	}
	return m
}

func parseHTML(s string) (*hnode, error) {
	root := &hnode{tag: "#root"}
	stack := []*hnode{root}
	for i := 0; i < len(s); {
		cur := stack[len(stack)-1]
		if s[i] != '<' {
			j := strings.IndexByte(s[i:], '<')
			if j < 0 {
				j = len(s) - i
			}
			cur.kids = append(cur.kids, &hnode{text: unescapeHTML(s[i : i+j])})
			i += j
			continue
		}
		j := strings.IndexByte(s[i:], '>')
		if j < 0 {
			return nil, fmt.Errorf("unterminated tag at %d", i)
		}
		inner := s[i+1 : i+j]
		i += j + 1
		if strings.HasPrefix(inner, "/") {
			name := strings.TrimSpace(inner[1:])
			if cur.tag != name {
				return nil, fmt.Errorf("unbalanced </%s> in <%s>", name, cur.tag)
			}
			stack = stack[:len(stack)-1]
			continue
		}
		if strings.HasPrefix(inner, "!") || strings.HasPrefix(inner, "?") {
			return nil, fmt.Errorf("markup declaration")
		}
		name := inner
		rest := ""
		if k := strings.IndexAny(inner, " \t\n"); k >= 0 {
			name, rest = inner[:k], inner[k:]
		}
		name = strings.TrimSuffix(name, "/")
		n := &hnode{tag: name, attrs: parseAttrs(rest)}
		cur.kids = append(cur.kids, n)
		if !voidTags[name] && !strings.HasSuffix(inner, "/") {
			stack = append(stack, n)
		}
	}
	if len(stack) != 1 {
		return nil, fmt.Errorf("unclosed <%s>", stack[len(stack)-1].tag)
	}
	return root, nil
}

var inlineTags = map[string]bool{"em": true, "strong": true, "del": true, "code": true, "a": true, "br": true, "input": true, "span": true}

func (n *hnode) isInline() bool { return n.tag == "" || inlineTags[n.tag] }

func htmlInl(ns []*hnode, f uint8) ([]ch, error) {
	var out []ch
	for _, n := range ns {
		switch n.tag {
		case "":
			out = append(out, strChars(n.text, f)...)
		case "em":
			c, err := htmlInl(n.kids, f|fI)
			if err != nil {
				return nil, err
			}
			out = append(out, c...)
		case "strong":
			c, err := htmlInl(n.kids, f|fB)
			if err != nil {
				return nil, err
			}
			out = append(out, c...)
		case "del":
			c, err := htmlInl(n.kids, f|fS)
			if err != nil {
				return nil, err
			}
			out = append(out, c...)
		case "code":
			c, err := htmlInl(n.kids, f|fC)
			if err != nil {
				return nil, err
			}
			out = append(out, c...)
		case "a":
			c, err := htmlInl(n.kids, f)
			if err != nil {
				return nil, err
			}
			out = append(out, c...)
		case "br":
			out = append(out, ch{' ', 0})
		case "input":
			out = append(out, ch{' ', 0}) // a check box is not text
		case "span":
			cls := n.attrs["class"]
			if !strings.HasPrefix(cls, "math") {
				return nil, fmt.Errorf("span class %q", cls)
			}
			var sb strings.Builder
			for _, k := range n.kids {
				if k.tag != "" {
					return nil, fmt.Errorf("element in math span")
				}
				sb.WriteString(k.text)
			}
			t := sb.String()
			d := "$"
			if strings.Contains(cls, "display") {
				d = "$$"
			}
			if !strings.HasPrefix(t, d) || !strings.HasSuffix(t, d) || len(t) < 2*len(d) {
				return nil, fmt.Errorf("math span without delimiters")
			}
			out = append(out, strChars(t[len(d):len(t)-len(d)], fAny)...)
		default:
			return nil, fmt.Errorf("inline <%s>", n.tag)
		}
	}
	return out, nil
}

func blankText(n *hnode) bool {
	return n.tag == "" && strings.TrimFunc(n.text, unicode.IsSpace) == ""
}

// startsWithBox: the inline content starts with the check box of a task item
func startsWithBox(ns []*hnode) bool {
	for _, n := range ns {
		if blankText(n) {
			continue
		}
		return n.tag == "input"
	}
	return false
}

// htmlBlocks reads the children of a block container (root, blockquote, li). lc is the list context of the
// container (depth -1 outside any list), inLi says that the container is the list item itself.
func htmlBlocks(ns []*hnode, inLi bool, lc lctx, out *[]xblk) error {
	first := true
	para := func(cs []ch, kids []*hnode) xblk {
		x := xblk{kind: "p", cs: collapse(cs), item: inLi && first, depth: lc.depth}
		if x.item {
			x.ord, x.task = lc.ord, startsWithBox(kids)
		}
		return x
	}
	for i := 0; i < len(ns); {
		n := ns[i]
		if blankText(n) {
			i++
			continue
		}
		if n.isInline() {
			// implicit paragraph (tight list item)
			j := i
			for j < len(ns) && ns[j].isInline() {
				j++
			}
			cs, err := htmlInl(ns[i:j], 0)
			if err != nil {
				return err
			}
			*out = append(*out, para(cs, ns[i:j]))
			first = false
			i = j
			continue
		}
		i++
		switch n.tag {
		case "h1", "h2", "h3", "h4", "h5", "h6":
			cs, err := htmlInl(n.kids, 0)
			if err != nil {
				return err
			}
			*out = append(*out, xblk{kind: "h", level: int(n.tag[1] - '0'), cs: collapse(cs), depth: lc.depth})
		case "p":
			cs, err := htmlInl(n.kids, 0)
			if err != nil {
				return err
			}
			*out = append(*out, para(cs, n.kids))
		case "hr":
			*out = append(*out, xblk{kind: "hr", depth: lc.depth})
		case "blockquote":
			if err := htmlBlocks(n.kids, false, lc, out); err != nil {
				return err
			}
		case "ul", "ol":
			for _, li := range n.kids {
				if blankText(li) {
					continue
				}
				if li.tag != "li" {
					return fmt.Errorf("<%s> in list", li.tag)
				}
				if err := htmlBlocks(li.kids, true, lctx{depth: lc.depth + 1, ord: n.tag == "ol"}, out); err != nil {
					return err
				}
			}
		case "pre":
			if len(n.kids) != 1 || n.kids[0].tag != "code" {
				return fmt.Errorf("pre without code")
			}
			var sb strings.Builder
			for _, k := range n.kids[0].kids {
				if k.tag != "" {
					return fmt.Errorf("element in pre")
				}
				sb.WriteString(k.text)
			}
			t := sb.String()
			if t == "" {
				break
			}
			t = strings.TrimSuffix(t, "\n")
			for _, l := range strings.Split(t, "\n") {
				// a line ending is LF or CRLF (CommonMark 2.1); goldmark copies the CR of a CRLF source into the <pre>
				*out = append(*out, xblk{kind: "code", line: strings.TrimSuffix(l, "\r"), depth: lc.depth})
			}
		case "table":
			t := &xtbl{}
			for _, sec := range n.kids {
				if blankText(sec) {
					continue
				}
				if sec.tag != "thead" && sec.tag != "tbody" {
					return fmt.Errorf("<%s> in table", sec.tag)
				}
				for _, tr := range sec.kids {
					if blankText(tr) {
						continue
					}
					if tr.tag != "tr" {
						return fmt.Errorf("<%s> in table section", tr.tag)
					}
					var cells [][]ch
					var al []string
					for _, td := range tr.kids {
						if blankText(td) {
							continue
						}
						if td.tag != "th" && td.tag != "td" {
							return fmt.Errorf("<%s> in tr", td.tag)
						}
						cs, err := htmlInl(td.kids, 0)
						if err != nil {
							return err
						}
						cells = append(cells, collapse(cs))
						a := td.attrs["align"]
						if st := td.attrs["style"]; st != "" {
							a = strings.TrimSpace(strings.TrimPrefix(strings.ReplaceAll(st, " ", ""), "text-align:"))
							a = strings.TrimSuffix(a, ";")
						}
						al = append(al, a)
					}
					if len(t.cells) == 0 {
						t.aligns = al
					}
					t.cells = append(t.cells, cells)
				}
			}
			*out = append(*out, xblk{kind: "tbl", tbl: t, depth: lc.depth})
		default:
			return fmt.Errorf("block <%s>", n.tag)
		}
		first = false
	}
	return nil
}

// readHTML turns goldmark's HTML into the reading; top-level block indices are assigned by
// counting root children, so the result is comparable with readAST only through sameReading
// (which ignores top).
func readHTML(html string) ([]xblk, error) {
	root, err := parseHTML(html)
	if err != nil {
		return nil, err
	}
	var out []xblk
	if err := htmlBlocks(root.kids, false, lctx{depth: -1}, &out); err != nil {
		return nil, err
	}
	return out, nil
}

package c19

import (
	"archive/zip"
	"bytes"
	"encoding/xml"
	"fmt"
	"io"
	"strings"

	"wzverif/internal/opc"
)

// ---------------------------------------------------------------------------------------------
// The converted document, seen through the package a file entry point wrote (ConvertFile, BatchConvert return
// no in-memory document). An independent reader of the main document part: encoding/xml tokens only, no code of
// the library. It yields the same structure observe() yields for an in-memory document, so that M1..M6 are judged
// on the file entry points exactly as on ConvertBytes/ConvertString.

const nsW = "http://schemas.openxmlformats.org/wordprocessingml/2006/main"

// formulaMark stands for the text of one formula run when formula text is not to be compared.
const formulaMark = '￼'

type bodyReader struct {
	d *xml.Decoder
	// maskFormula: the text of a run set in a mathematics font is replaced by one formulaMark
	maskFormula bool
}

func wAttr(t xml.StartElement, local string) (string, bool) {
	for _, a := range t.Attr {
		if a.Name.Local == local && (a.Name.Space == nsW || a.Name.Space == "") {
			return a.Value, true
		}
	}
	return "", false
}

// onOff: <w:b/> and <w:b w:val="true|1|on"/> switch on, w:val="false|0|off" switches off
func onOff(t xml.StartElement) bool {
	v, ok := wAttr(t, "val")
	if !ok {
		return true
	}
	switch strings.ToLower(v) {
	case "0", "false", "off":
		return false
	}
	return true
}

func isW(t xml.StartElement, local string) bool { return t.Name.Space == nsW && t.Name.Local == local }

// children calls fn for every child element of the element whose start tag was just read and returns at its end
// tag. fn must consume the child (to its end tag): by calling children/skip itself.
func (b *bodyReader) children(fn func(t xml.StartElement) error, text func(s string)) error {
	for {
		tok, err := b.d.Token()
		if err != nil {
			if err == io.EOF {
				return fmt.Errorf("unexpected end of the document part")
			}
			return err
		}
		switch t := tok.(type) {
		case xml.StartElement:
			if err := fn(t); err != nil {
				return err
			}
		case xml.EndElement:
			return nil
		case xml.CharData:
			if text != nil {
				text(string(t))
			}
		}
	}
}

func (b *bodyReader) skip() error {
	return b.children(func(xml.StartElement) error { return b.skip() }, nil)
}

func isMathFont(name string) bool { return strings.Contains(strings.ToLower(name), "math") }

// run reads one w:r (start tag consumed) and appends its characters.
func (b *bodyReader) run(out *[]ch) error {
	var f uint8
	math := false
	var txt []rune
	err := b.children(func(t xml.StartElement) error {
		switch {
		case isW(t, "rPr"):
			return b.children(func(t xml.StartElement) error {
				switch {
				case isW(t, "b"):
					if onOff(t) {
						f |= fB
					}
				case isW(t, "i"):
					if onOff(t) {
						f |= fI
					}
				case isW(t, "strike"), isW(t, "dstrike"):
					if onOff(t) {
						f |= fS
					}
				case isW(t, "rFonts"):
					for _, a := range []string{"ascii", "hAnsi", "eastAsia", "cs"} {
						if v, ok := wAttr(t, a); ok {
							if isMono(v) {
								f |= fC
							}
							if isMathFont(v) {
								math = true
							}
						}
					}
				}
				return b.skip()
			}, nil)
		case isW(t, "t"):
			preserve := false
			for _, a := range t.Attr {
				if a.Name.Local == "space" && a.Value == "preserve" {
					preserve = true
				}
			}
			var sb strings.Builder
			if err := b.children(func(xml.StartElement) error { return b.skip() }, func(s string) { sb.WriteString(s) }); err != nil {
				return err
			}
			s := sb.String()
			if !preserve { // a consumer drops leading and trailing white space of w:t without xml:space="preserve"
				s = strings.Trim(s, " \t\r\n")
			}
			txt = append(txt, []rune(s)...)
			return nil
		case isW(t, "tab"):
			txt = append(txt, '\t')
		case isW(t, "br"), isW(t, "cr"):
			txt = append(txt, '\n')
		}
		return b.skip()
	}, nil)
	if err != nil {
		return err
	}
	if math && b.maskFormula && len(txt) > 0 {
		*out = append(*out, ch{formulaMark, 0})
		return nil
	}
	for _, r := range txt {
		*out = append(*out, ch{r, f})
	}
	return nil
}

// runs reads the run-level content of a paragraph-like container (w:p, w:hyperlink, w:ins, w:smartTag, ...)
func (b *bodyReader) runs(a *ablk, top bool) error {
	return b.children(func(t xml.StartElement) error {
		switch {
		case isW(t, "r"):
			return b.run(&a.cs)
		case isW(t, "pPr") && top:
			return b.children(func(t xml.StartElement) error {
				if isW(t, "pStyle") {
					a.style, _ = wAttr(t, "val")
				}
				if isW(t, "jc") {
					a.jc, _ = wAttr(t, "val")
				}
				if isW(t, "numPr") {
					a.num = &numRef{}
					return b.children(func(t xml.StartElement) error {
						if isW(t, "ilvl") {
							a.num.ilvl, _ = wAttr(t, "val")
						}
						if isW(t, "numId") {
							a.num.id, _ = wAttr(t, "val")
						}
						return b.skip()
					}, nil)
				}
				return b.skip()
			}, nil)
		case isW(t, "hyperlink"), isW(t, "ins"), isW(t, "smartTag"), isW(t, "fldSimple"):
			return b.runs(a, false)
		}
		return b.skip()
	}, nil)
}

func (b *bodyReader) para() (ablk, error) {
	a := ablk{kind: "p"}
	if err := b.runs(&a, true); err != nil {
		return a, err
	}
	if m := headingRe.FindStringSubmatch(a.style); m != nil {
		a.kind = "h"
		a.level = int(m[1][0] - '0')
	}
	return a, nil
}

func (b *bodyReader) table() (ablk, error) {
	a := ablk{kind: "tbl"}
	err := b.children(func(t xml.StartElement) error {
		if !isW(t, "tr") {
			return b.skip()
		}
		var row []acell
		if err := b.children(func(t xml.StartElement) error {
			if !isW(t, "tc") {
				return b.skip()
			}
			var ac acell
			np := 0
			if err := b.children(func(t xml.StartElement) error {
				if !isW(t, "p") {
					return b.skip()
				}
				p, err := b.para()
				if err != nil {
					return err
				}
				if np > 0 {
					ac.cs = append(ac.cs, ch{' ', 0})
				} else {
					ac.jc = p.jc
				}
				np++
				ac.cs = append(ac.cs, p.cs...)
				return nil
			}, nil); err != nil {
				return err
			}
			row = append(row, ac)
			return nil
		}, nil); err != nil {
			return err
		}
		a.rows = append(a.rows, row)
		return nil
	}, nil)
	return a, err
}

// mainPart returns the main document part of a package. Only that entry is decompressed when it has the usual
// name; otherwise the package relationships say where it is.
func mainPart(saved []byte) (string, []byte, error) {
	zr, err := zip.NewReader(bytes.NewReader(saved), int64(len(saved)))
	if err != nil {
		return "", nil, fmt.Errorf("zip: %w", err)
	}
	const usual = "word/document.xml"
	for _, f := range zr.File {
		if f.Name == usual {
			rc, err := f.Open()
			if err != nil {
				return usual, nil, err
			}
			defer rc.Close()
			data, err := io.ReadAll(rc)
			return usual, data, err
		}
	}
	pkg, err := opc.Read(saved)
	if err != nil {
		return "", nil, err
	}
	if mains := pkg.MainParts(); len(mains) == 1 {
		if part, ok := pkg.Parts[mains[0].Resolved]; ok {
			return mains[0].Resolved, part, nil
		}
	}
	return "", nil, fmt.Errorf("the package has no main document part")
}

// readBody returns the block-level elements of the main document part of a saved package, in body order.
func readBody(saved []byte, maskFormula bool) ([]ablk, error) {
	name, part, err := mainPart(saved)
	if err != nil {
		return nil, err
	}
	b := &bodyReader{d: xml.NewDecoder(bytes.NewReader(part)), maskFormula: maskFormula}
	var out []ablk
	for {
		tok, err := b.d.Token()
		if err == io.EOF {
			return nil, fmt.Errorf("no w:body in %q", name)
		}
		if err != nil {
			return nil, err
		}
		t, ok := tok.(xml.StartElement)
		if !ok {
			continue
		}
		if isW(t, "document") {
			continue
		}
		if !isW(t, "body") {
			if err := b.skip(); err != nil {
				return nil, err
			}
			continue
		}
		err = b.children(func(t xml.StartElement) error {
			switch {
			case isW(t, "p"):
				p, err := b.para()
				if err == nil {
					out = append(out, p)
				}
				return err
			case isW(t, "tbl"):
				tb, err := b.table()
				if err == nil {
					out = append(out, tb)
				}
				return err
			}
			return b.skip()
		}, nil)
		return out, err
	}
}

// ---------------------------------------------------------------------------------------------
// agreement of two readings (entry-point differential)

func chString(cs []ch) string {
	var sb strings.Builder
	cur := uint8(255)
	for _, c := range cs {
		if c.f != cur {
			cur = c.f
			fmt.Fprintf(&sb, "{%d}", cur)
		}
		sb.WriteRune(c.r)
	}
	return sb.String()
}

func ablkString(a ablk) string {
	var sb strings.Builder
	fmt.Fprintf(&sb, "%s style=%q jc=%q ", a.kind, a.style, a.jc)
	if a.num != nil {
		fmt.Fprintf(&sb, "numPr(id=%q ilvl=%q) ", a.num.id, a.num.ilvl)
	}
	sb.WriteString(chString(a.cs))
	for _, r := range a.rows {
		sb.WriteString(" /")
		for _, c := range r {
			sb.WriteString(" |" + c.jc + "|" + chString(c.cs))
		}
	}
	return sb.String()
}

// firstDifference returns "" if the two readings are the same sequence of elements (kind, style, alignment, text
// with run formatting, table cells), else a description of the first element that differs.
func firstDifference(a, b []ablk) string {
	for i := 0; i < len(a) || i < len(b); i++ {
		switch {
		case i >= len(a):
			return fmt.Sprintf("element %d: nothing / %s", i, trunc(ablkString(b[i]), 300))
		case i >= len(b):
			return fmt.Sprintf("element %d: %s / nothing", i, trunc(ablkString(a[i]), 300))
		}
		if x, y := ablkString(a[i]), ablkString(b[i]); x != y {
			return fmt.Sprintf("element %d: %s / %s", i, trunc(x, 300), trunc(y, 300))
		}
	}
	return ""
}

// pkgreadSelfTest: the package reader on a hand-written package with known content.
func pkgreadSelfTest() error {
	var buf bytes.Buffer
	zw := zip.NewWriter(&buf)
	add := func(name, body string) {
		w, _ := zw.Create(name)
		w.Write([]byte(body))
	}
	add("[Content_Types].xml", `<?xml version="1.0"?><Types xmlns="http://schemas.openxmlformats.org/package/2006/content-types"><Default Extension="xml" ContentType="application/xml"/></Types>`)
	add("word/document.xml", `<?xml version="1.0" encoding="UTF-8"?>
<w:document xmlns:w="`+nsW+`"><w:body>
<w:p><w:pPr><w:pStyle w:val="Heading2"/></w:pPr><w:bookmarkStart w:id="0" w:name="b"/><w:r><w:rPr/></w:r><w:r><w:t>Head</w:t></w:r></w:p>
<w:p><w:pPr><w:pStyle w:val="CodeBlock"/><w:jc w:val="left"/></w:pPr><w:r><w:rPr><w:rFonts w:ascii="Consolas"/></w:rPr><w:t xml:space="preserve">    a &lt; b
</w:t></w:r></w:p>
<w:p><w:r><w:t xml:space="preserve">x </w:t></w:r><w:r><w:rPr><w:b/><w:i w:val="0"/><w:strike w:val="true"/></w:rPr><w:t> y </w:t></w:r><w:hyperlink><w:r><w:rPr><w:i/></w:rPr><w:t>l</w:t><w:tab/><w:br/></w:r></w:hyperlink>
<w:r><w:rPr><w:rFonts w:ascii="Cambria Math" w:hAnsi="Cambria Math"/></w:rPr><w:t>a+b</w:t></w:r></w:p>
<w:p><w:pPr><w:numPr><w:ilvl w:val="2"/><w:numId w:val="7"/></w:numPr><w:jc w:val="left"/></w:pPr><w:r><w:t>• it</w:t></w:r></w:p>
<w:p><w:pPr><w:numPr><w:numId w:val="9"/></w:numPr></w:pPr></w:p>
<w:tbl><w:tblPr/><w:tr><w:tc><w:p><w:pPr><w:jc w:val="center"/></w:pPr><w:r><w:t>c1</w:t></w:r></w:p><w:p><w:r><w:t>c2</w:t></w:r></w:p></w:tc><w:tc><w:p/></w:tc></w:tr></w:tbl>
<w:bookmarkEnd w:id="0"/><w:sectPr/>
</w:body></w:document>`)
	zw.Close()
	want := []string{
		`h style="Heading2" jc="" {0}Head`,
		`p style="CodeBlock" jc="left" {8}    a < b` + "\n",
		`p style="" jc="" {0}x {5}y{2}l` + "\t\n" + `{0}a+b`,
		`p style="" jc="left" numPr(id="7" ilvl="2") {0}• it`,
		`p style="" jc="" numPr(id="9" ilvl="") `,
		`tbl style="" jc=""  / |center|{0}c1 c2 ||`,
	}
	for _, mask := range []bool{false, true} {
		got, err := readBody(buf.Bytes(), mask)
		if err != nil {
			return fmt.Errorf("package reader self-test: %v", err)
		}
		if mask {
			want[2] = `p style="" jc="" {0}x {5}y{2}l` + "\t\n" + `{0}` + string(formulaMark)
		}
		if len(got) != len(want) {
			return fmt.Errorf("package reader self-test: %d elements, want %d", len(got), len(want))
		}
		for i := range want {
			if s := ablkString(got[i]); s != want[i] {
				return fmt.Errorf("package reader self-test: element %d reads %q, want %q", i, s, want[i])
			}
		}
	}
	a, _ := readBody(buf.Bytes(), false)
	b, _ := readBody(buf.Bytes(), true)
	if firstDifference(a, a) != "" || firstDifference(a, b) == "" || firstDifference(a, a[:3]) == "" || numberingSelfTest() != nil {
		return fmt.Errorf("package reader self-test: firstDifference is blind or over-eager")
	}
	return nil
}

package c07

import (
	"archive/zip"
	"bytes"
	"fmt"
	"os"
	"path/filepath"
	"runtime"
	"sort"
	"strings"
	"sync"
	"sync/atomic"
	"testing"
	"time"

	"github.com/zerx-lab/wordZero/pkg/document"
	"pgregory.net/rapid"

	"wzverif/internal/gen"
	"wzverif/internal/kit"
	"wzverif/internal/ops"
)

func TestMain(m *testing.M) {
	document.SetGlobalLevel(document.LogLevelSilent)
	if p := os.Getenv(childEnv); p != "" {
		os.Exit(childMain(p))
	}
	if kit.RaceMode() {
		kit.TestMain(m, 45, 1000)
		return
	}
	kit.TestMain(m, 215, 4000)
}

// Case is a set of histories on distinct documents plus the two schedules they are executed under.
type Case struct {
	Docs  [][]ops.Op `json:"docs"`            // Docs[0] is "A", the others are B1..Bk
	Order []int      `json:"order"`           // sequential interleaving: entry e lets document e%len(Docs) execute its next op
	Yield [][]bool   `json:"yield,omitempty"` // concurrent: Yield[d][i] = call runtime.Gosched() before op i of document d
	Procs int        `json:"procs"`           // GOMAXPROCS of the concurrent part
	Reps  int        `json:"reps,omitempty"`  // >1: the concurrent part is executed Reps times (regression cases of schedule-dependent defects; never generated)
	Sub   int        `json:"sub,omitempty"`   // >0: run the concurrent part Sub times in a child process (witnesses of process-killing races; never generated)
	Fresh bool       `json:"fresh,omitempty"` // every document is built alone in a FRESH process of its own and all of them together in another fresh process (fresh.go)
	Cold  bool       `json:"cold,omitempty"`  // the concurrent part is executed first of all in a FRESH process: the first use of every feature in that process happens in several goroutines at once (cold.go)
}

// ---------------------------------------------------------------------------------------------
// op families

var families = map[string][]string{
	"image": {"image", "imagefile", "cellimg", "imgalt", "imgtitle"},
	"hf":    {"header", "footer", "headerpn", "footerpn", "fheader", "ffooter", "difffirst"},
	"style": {"customstyle", "pstyle", "heading", "headingbm", "tblstyle"},
	"props": {"props", "title", "author", "stats"},
	"page":  {"pagesize", "custompage", "orient", "margins", "hfdist", "gutter", "docgrid", "cleargrid"},
	"table": {"table", "celltext", "cellpara", "insrow", "appcol", "mergeh", "nested"},
	"tpl":   {"tplstr", "tpldoc", "tpldoc2", "tplc", "tpldc"},
	"md":    {"md", "mdc"},
	"toc":   {"toc", "autotoc", "updatetoc"},
	// documents derived from one another (derived.go)
	"derived": {"swap", "notecount", "rmfootnote", "rmendnote", "reopen", "openforeign"},
	// the style manager used directly (styles.go)
	"stylemgr": {"restyle", "rmstyle"},
	// one call repeated 10..900 times (bulk.go)
	"bulk": {"bulk"},
}
var focusNames = []string{"image", "hf", "style", "props", "page", "table", "tpl", "md", "toc"}

var kindFamily = func() map[string]string {
	m := map[string]string{}
	for f, ks := range families {
		for _, k := range ks {
			m[k] = f
		}
	}
	return m
}()

// registry families: the op kinds that go through the process-wide registries
var registryFam = map[string]string{"footnote": famFootnote, "endnote": famEndnote, "listitem": famList, "bullet": famList, "numbered": famList}

// managerOf: footnotes and endnotes share one registry object, lists use the other
func managerOf(fam string) string {
	if fam == famList {
		return "numbering"
	}
	return "notes"
}

func docFams(history []ops.Op) map[string]bool {
	m := map[string]bool{}
	for _, o := range history {
		if f, ok := registryFam[o.K]; ok {
			m[f] = true
		}
	}
	return m
}

// otherHas reports whether a document other than doc has an op of the registry family.
func otherHas(c Case, doc int, fam string) bool {
	for j, h := range c.Docs {
		if j != doc && docFams(h)[fam] {
			return true
		}
	}
	return false
}

// sharedManager reports whether two documents of the case both go through the same registry object.
func sharedManager(c Case) bool {
	n := map[string]int{}
	for _, h := range c.Docs {
		seen := map[string]bool{}
		for f := range docFams(h) {
			seen[managerOf(f)] = true
		}
		for m := range seen {
			n[m]++
		}
	}
	return n["notes"] >= 2 || n["numbering"] >= 2
}

// ---------------------------------------------------------------------------------------------
// generator

func weights(registry bool, focus []string) map[string]int {
	w := map[string]int{}
	for k, v := range ops.DefaultWeights {
		w[k] = v
	}
	delete(w, "reopen")
	for _, k := range []string{"tplstr", "tpldoc", "tpldoc2", "md"} { // rendering and conversion create documents too
		w[k] *= 3
	}
	w["md"] *= 2
	for _, f := range focus {
		for _, k := range families[f] {
			if _, ok := w[k]; ok { // local kinds are not drawn by ops.Config
				w[k] *= 8
			}
		}
	}
	for k := range registryFam {
		if registry {
			w[k] *= 8
		} else {
			delete(w, k)
		}
	}
	return w
}

var classes = []string{gen.ClsASCII, gen.ClsASCII, gen.ClsUnicode, gen.ClsXMLMeta, gen.ClsControl, gen.ClsEmpty, gen.ClsEdgeWS, gen.ClsTemplate, gen.ClsMarkdown, gen.ClsLong}

// assumeFixed is a development aid for trying a proposed fix (VERIF_REPO=<patched copy>) before the `open:` lines are
// moved to `fixed:`: the two findings are treated as closed (no masking, no exclusion, counters read inside the goroutines).
var assumeFixed = os.Getenv("VERIF_C07_ASSUME_FIXED") != ""

var raceOpenMemo = -1

func raceOpen() bool {
	if raceOpenMemo < 0 {
		raceOpenMemo = 0
		if !assumeFixed && kit.OpenFindings("C07")[kfRace] {
			raceOpenMemo = 1
		}
	}
	return raceOpenMemo == 1
}

func genCase(t *rapid.T) Case {
	k := rapid.SampledFrom([]int{1, 1, 2, 2, 3, 4}).Draw(t, "k")
	// one case in eighty: 9-11 documents with short histories, judged with references from fresh processes as well (the
	// tenth document of a process is then compared with the same document as the first of a process)
	many := !kit.RaceMode() && rapid.IntRange(0, 79).Draw(t, "many-docs") == 79 // shrinks towards "no"
	if many {
		k = rapid.IntRange(8, 10).Draw(t, "k-many")
	}
	nf := rapid.IntRange(1, 3).Draw(t, "nfocus")
	var focus []string
	for i := 0; i < nf; i++ {
		if i == 0 && rapid.IntRange(0, 3).Draw(t, "perdoc") > 0 {
			// mostly: the state the library keeps per document (image counter, header/footer parts, style registry)
			focus = append(focus, rapid.SampledFrom([]string{"image", "hf", "style"}).Draw(t, "focus0"))
			continue
		}
		focus = append(focus, rapid.SampledFrom(focusNames).Draw(t, "focus"))
	}
	// who may use the process-wide registries: 0 nobody, 1 one document, 2 everybody
	mode := rapid.SampledFrom([]int{0, 0, 0, 1, 1, 1, 2, 2}).Draw(t, "regmode")
	if mode == 2 && kit.RaceMode() && raceOpen() {
		mode = 1 // the race twin runs only the concurrent part, from which such cases are excluded while the race finding is open
	}
	owner := rapid.IntRange(0, k).Draw(t, "regowner")
	c := Case{Procs: rapid.SampledFrom([]int{2, 4, 16}).Draw(t, "procs")}
	maxOps := kit.Scale(12, 25)
	if many {
		maxOps = 4
	}
	total := 0
	// cold case (cold.go): one drawn op opens every history; the concurrent part runs first of all in a fresh process.
	// The race twin, which judges nothing but the concurrent part, spends half of its cases on it.
	coldDen := 8
	if kit.RaceMode() {
		coldDen = 2
	}
	var prefix []ops.Op
	if rapid.IntRange(0, coldDen-1).Draw(t, "cold") == coldDen-1 { // shrinks towards "not cold"
		ccfg := &ops.Config{Classes: classes, Weights: weights(false, focus)}
		for i, m := 0, rapid.IntRange(1, 3).Draw(t, "ncold"); i < m; i++ {
			prefix = append(prefix, coldOp(t, ccfg))
		}
		c.Cold = true
	}
	// fresh case (fresh.go, variants.go): 1-3 further common first ops, of which every document gets its own near-equal
	// variant; the documents are built once more in fresh processes (alone / together). The race twin judges nothing
	// that depends on it.
	nCold := len(prefix)
	if !kit.RaceMode() && (rapid.IntRange(0, 11).Draw(t, "fresh") == 11 || many) { // shrinks towards "not fresh"
		fcfg := &ops.Config{Classes: classes, Weights: weights(false, focus)}
		for i, m := 0, rapid.IntRange(1, 3).Draw(t, "nfresh"); i < m; i++ {
			prefix = append(prefix, freshOp(t, fcfg))
		}
		c.Fresh = true
		if maxOps > 6 && !kit.RaceMode() {
			maxOps = kit.Scale(6, 12) // the case is executed twice more in child processes
		}
	}
	// one case in six: the documents of the case come (also) out of conversions with ONE Converter object and one
	// option set, from texts that define names (link references, footnotes) and texts that use them (converter.go)
	batch := -1
	if rapid.IntRange(0, 5).Draw(t, "shared-converter") == 5 { // shrinks towards "no"
		batch = rapid.IntRange(0, len(mdcPresets)-1).Draw(t, "batch-preset")
	}
	large := rapid.IntRange(0, 19).Draw(t, "large") == 19 // shrinks towards "no"
	// ondemand.go: histories that lose styles which the library registers again on demand, and histories with a failing
	// call on the engine that serves all documents of the run
	pruned := rapid.IntRange(0, 7).Draw(t, "pruned-case") == 7   // shrinks towards "no"
	engFail := rapid.IntRange(0, 9).Draw(t, "engfail-case") == 9 // shrinks towards "no"
	var pruneIDs []string
	if pruned {
		pruneIDs = caseIDs(t)
	}
	bulkCase := rapid.IntRange(0, 7).Draw(t, "bulk-case") == 7
	if large && maxOps > 8 {
		maxOps = kit.Scale(8, 16)
	}
	for d := 0; d <= k; d++ {
		reg := mode == 2 || (mode == 1 && d == owner)
		cfg := &ops.Config{Classes: classes, Weights: weights(reg, focus)}
		h := cfg.History(t, 1, maxOps)
		withSharedConverter(t, h)
		withSharedEngine(t, h) // engine.go
		if rapid.IntRange(0, 9).Draw(t, "failcall") == 9 {
			h = insertAt(h, rapid.IntRange(0, len(h)).Draw(t, "fail-at"), failCallOp(t))
		}
		if rapid.IntRange(0, 3).Draw(t, "derived-scenario") == 0 {
			// documents derived from one another (template base / renders / siblings / reopened copies) and edits
			// that jump between them: see derived.go
			sc := derivedScenario(t, cfg)
			if len(h) > maxOps/2 {
				h = h[:maxOps/2]
			}
			cut := rapid.IntRange(0, len(h)).Draw(t, "scenario-at")
			h = append(append(append([]ops.Op{}, h[:cut]...), sc...), h[cut:]...)
		}
		if batch >= 0 {
			for i, m := 0, rapid.IntRange(1, 2).Draw(t, "nbatch"); i < m; i++ {
				at := rapid.IntRange(0, len(h)).Draw(t, "batch-at")
				h = append(append(append([]ops.Op{}, h[:at]...), mdcOp(t, batch)), h[at:]...)
			}
		}
		// counts and sizes out of the reach of a dozen single calls (bulk.go): in a "large" case three documents in four
		// get several hundred paragraphs or a big picture (parts of more than 64 KiB), otherwise, in one case in eight, every
		// second history repeats one call 10..100 times
		if large && rapid.IntRange(0, 3).Draw(t, "large-doc") > 0 {
			// in the second half of the history: a conversion or a string template after it would drop the large document
			h = insertAt(h, rapid.IntRange(len(h)/2, len(h)).Draw(t, "large-at"), bulkOp(t, true))
		} else if bulkCase && rapid.Bool().Draw(t, "bulk") {
			h = insertAt(h, rapid.IntRange(0, len(h)).Draw(t, "bulk-at"), bulkOp(t, false))
		}
		if pruned && rapid.IntRange(0, 3).Draw(t, "pruned-doc") > 0 {
			if len(h) > maxOps/2 {
				h = h[:maxOps/2]
			}
			h = withPruneBlock(t, cfg, h, pruneIDs)
		}
		if engFail {
			h = withEngineFail(t, cfg, h)
		}
		if len(prefix) > 0 {
			var hp []ops.Op
			how := 0
			if c.Fresh {
				how = drawVariant(t)
			}
			for i, o := range prefix {
				if i < nCold {
					hp = append(hp, copyOp(o)) // cold: the same input in every goroutine
				} else {
					hp = append(hp, variantOp(o, how))
				}
			}
			room := maxOps - len(hp)
			if room < 1 {
				room = 1
			}
			if len(h) > room {
				h = h[:room]
			}
			h = append(hp, h...)
		}
		sanitiseTemplateData(h)
		c.Docs = append(c.Docs, h)
		total += len(h)
		y := make([]bool, len(h))
		for i := range y {
			y[i] = rapid.IntRange(0, 2).Draw(t, "yield") == 0 && i >= len(prefix)
		}
		c.Yield = append(c.Yield, y)
	}
	c.Order = rapid.SliceOfN(rapid.IntRange(0, k), total/2, total+k).Draw(t, "order")
	return c
}

// sanitiseTemplateData removes braces from template *data* values. The template engine substitutes values in
// map-iteration order and scans substituted text again, so a value that carries "{{name}}" renders differently
// from run to run even for a single document in a fresh process (rescan defect, known as KF-C16-rescan): such a
// history has no reproducible "alone" result to compare with. Template sources keep all their directives.
func sanitiseTemplateData(h []ops.Op) {
	strip := func(s string) string {
		if strings.ContainsAny(s, "{}") {
			s = strings.NewReplacer("{", "(", "}", ")").Replace(s)
		}
		return s
	}
	for _, o := range h {
		for _, data := range []*ops.Data{o.Data, o.Data2} {
			if data == nil {
				continue
			}
			for k, v := range data.Vars {
				data.Vars[k] = strip(v)
			}
			for _, items := range data.Lists {
				for _, it := range items {
					for k, v := range it {
						it[k] = strip(v)
					}
				}
			}
		}
	}
}

// ---------------------------------------------------------------------------------------------
// execution

type docRun struct {
	x        *ops.Exec
	outcomes []string
	dead     bool // an op panicked: the state is undefined, later ops are not executed
	hung     bool // ... or did not return

	// I4: documents of this history that stopped being the current one (template bases, earlier renders, the
	// document before a markdown conversion). Nobody touches them afterwards, so they must not change.
	track bool // snapshot documents at the moment they are set aside (alone and concurrent runs)
	seen  map[*document.Document]bool
	aside []asideDoc
	i4    []string // differences found when the history ended

	// I5 (project.go): which document every op was applied to, and where each document of the history came from
	settled map[*document.Document]bool // set-aside documents observed at least once since they were set aside
	targets []*document.Document
	born    map[*document.Document]birth

	conv *convPool // the Converter objects the "mdc" ops of this history use (converter.go)

	vals   []heldVal   // accessor results that are values of their own, kept in the same way
	held   []heldBytes // byte slices the library returned for this history's documents, kept to be looked at again (retain.go)
	nSaves int

	tbOK     bool   // the final ToBytes of the current document succeeded
	zipNames string // race twin: only the entry names of the final ToBytes are kept
	pkgSnap  *Snap  // its parts (reference for the files written by Save in the concurrent part)
}

type asideDoc struct {
	doc *document.Document
	op  int
	at  *Snap // observed at the moment it was set aside
}

const maxAside = 5

// sideSnap observes a document that is not the current one of its history: bytes and accessor results.
func (r *docRun) sideSnap(d *document.Document) *Snap {
	// The observer's own calls are calls on the document: the first GetPageSettings materialises an (empty)
	// section-properties element, the first ToBytes registers the definitions of table styles that tables refer to
	// in the document's style manager, ... The first observation of a document since it was last edited is therefore
	// preceded by one discarded round of the same calls, so that what is recorded is the settled state and observing
	// a document twice without anybody touching it gives the same result.
	if !r.settled[d] {
		warm := &Snap{}
		warm.addAccessors(d)
		warm.addCounts(d)
		kit.Try(func() { d.ToBytes() })
		if r.settled == nil {
			r.settled = map[*document.Document]bool{}
		}
		r.settled[d] = true
	}
	s := &Snap{}
	// accessors first: GetPageSettings materialises an (empty) section-properties element on first use, which
	// would otherwise make the second observation differ from the first through the observer's own calls
	s.addAccessors(d)
	s.addCounts(d)
	var b []byte
	var err error
	if p, _ := kit.Try(func() { b, err = d.ToBytes() }); p != nil || err != nil {
		s.add(Item{Name: "ToBytes", Kind: "outcome", Val: fmt.Sprintf("panic=%v err=%v", p, err != nil)})
	} else {
		s.add(Item{Name: "ToBytes", Kind: "outcome", Val: "ok"})
		s.addPackage("", b)
	}
	return s
}

// noteAside snapshots the documents that the last op set aside.
func (r *docRun) noteAside() {
	if r.x == nil || len(r.x.Side) == 0 || kit.RaceMode() {
		return
	}
	if r.seen == nil {
		r.seen = map[*document.Document]bool{}
	}
	for _, sd := range r.x.Side {
		if sd == nil || r.seen[sd] {
			continue
		}
		r.seen[sd] = true
		if len(r.aside) < maxAside && sd != r.x.Doc {
			a := asideDoc{doc: sd, op: len(r.outcomes)}
			if r.track {
				a.at = r.sideSnap(sd)
			}
			r.aside = append(r.aside, a)
		}
	}
}

// checkAside compares every set-aside document with what it was when it was set aside.
// The end-of-history observation of each is added to s ("side<j>:..."), so that it is also compared between the runs.
func (r *docRun) checkAside(s *Snap) {
	for j, a := range r.aside {
		if r.x != nil && a.doc == r.x.Doc {
			continue // became the current document again
		}
		end := r.sideSnap(a.doc)
		for _, it := range end.Items {
			it.Name = fmt.Sprintf("side%d:%s", j, it.Name)
			s.add(it)
		}
		if a.at == nil {
			continue
		}
		for _, dl := range diffSnaps(a.at, end, 3) {
			r.i4 = append(r.i4, fmt.Sprintf("the document set aside by op %d (%s) was not touched afterwards but changed: item=%s: %s",
				a.op-1, strings.SplitN(r.outcomes[a.op-1], ":", 2)[0], dl.Item, strings.Replace(dl.Detail, "alone vs together", "when set aside vs at the end", 1)))
		}
	}
}

func (r *docRun) step(o ops.Op) {
	if r.dead {
		return
	}
	var err error
	extra := ""
	target := r.x.Doc
	if r.born == nil {
		r.born = map[*document.Document]birth{target: {at: -1}}
	}
	defer func() {
		r.targets = append(r.targets, target)
		r.noteBirths(len(r.targets)-1, o.K, target)
	}()
	p, _ := kit.Try(func() {
		if localKinds[o.K] {
			extra, err = r.doLocal(o)
		} else {
			err = r.x.Do(o)
		}
	})
	switch {
	case p != nil:
		r.outcomes = append(r.outcomes, fmt.Sprintf("%s:panic:%v", o.K, p))
		r.dead = true
	case err == errHang:
		// a call on an object that serves other documents as well did not come back (ondemand.go); the goroutine
		// that made the call is abandoned and the history ends here
		r.outcomes = append(r.outcomes, o.K+":hang")
		r.dead, r.hung = true, true
	case err != nil:
		r.outcomes = append(r.outcomes, o.K+":err:"+err.Error())
	case extra != "":
		r.outcomes = append(r.outcomes, o.K+":ok:"+extra)
	default:
		r.outcomes = append(r.outcomes, o.K+":ok")
	}
	if !r.dead {
		kit.Try(r.noteAside)
	}
	r.holdSaves()
}

func freshDir(base string, d int) string {
	dir := filepath.Join(base, fmt.Sprintf("doc%d", d))
	os.RemoveAll(dir)
	os.MkdirAll(dir, 0o755)
	return dir
}

func newRun(base string, d int) *docRun {
	dir := freshDir(base, d)
	var x *ops.Exec
	if p, _ := kit.Try(func() { x = ops.NewExec(dir) }); p != nil {
		return &docRun{dead: true, outcomes: []string{fmt.Sprintf("New:panic:%v", p)}}
	}
	return &docRun{x: x, conv: newConvPool()}
}

// newTracked: the observation of a document at the moment it is set aside calls accessors that initialise lazily
// created state of that document (section properties, note manager). As long as nobody edits a set-aside document
// this cannot be seen, so the interleaved run saves the time; a history that makes such a document the current one
// again (swap) is observed in the same way in every run, otherwise the runs would not execute the same calls.
func newTracked(base string, d int, history []ops.Op) *docRun {
	r := newRun(base, d)
	r.track = hasKind(history, "swap")
	return r
}

func (r *docRun) snap(withCounts bool) *Snap {
	if r.x != nil && kit.RaceMode() {
		// the race twin only needs the calls to happen (saving and reading are part of "working on a document");
		// the bytes are judged by the normal binary
		s := &Snap{}
		s.addAccessors(r.x.Doc)
		if withCounts {
			s.addCounts(r.x.Doc)
		}
		kit.Try(func() {
			if b, err := r.x.Doc.ToBytes(); err == nil {
				r.tbOK = true
				r.zipNames = zipNames(b)
				r.hold("ToBytes", b)
			}
		})
		r.holdAccessors(r.x.Doc)
		for _, sd := range r.x.Side {
			sd := sd
			kit.Try(func() { sd.ToBytes() })
		}
		return s
	}
	if r.x == nil {
		s := &Snap{}
		s.add(Item{Name: "outcomes", Kind: "outcome", Val: strings.Join(r.outcomes, ";")})
		return s
	}
	s := takeSnap(r.x, r.outcomes, withCounts)
	if i, ok := s.index["ToBytes"]; ok && s.Items[i].Val == "ok" {
		r.tbOK = true
		r.pkgSnap = s
		r.hold("ToBytes", s.raw)
	}
	r.holdAccessors(r.x.Doc)
	kit.Try(func() { r.checkAside(s) })
	return s
}

// runAlone builds document d in a process state without any other document.
func runAlone(base string, d int, history []ops.Op, track bool) (*Snap, []string) {
	r, s := runAloneRun(base, d, history, track)
	return s, r.i4
}

func runAloneRun(base string, d int, history []ops.Op, track bool) (*docRun, *Snap) {
	document.VerifResetGlobals()
	r := newRun(base, d)
	r.track = track || hasKind(history, "swap") // see newTracked
	for _, o := range history {
		r.step(o)
	}
	s := r.snap(true)
	r.addHeld(s, nil)
	return r, s
}

// runInterleaved executes all histories in one goroutine in the order the case prescribes and returns the
// snapshots (taken after every history has finished) and the realised schedule.
func runInterleaved(base string, c Case) ([]*Snap, []int, [][]string, [][]string) {
	document.VerifResetGlobals()
	n := len(c.Docs)
	runs := make([]*docRun, n)
	next := make([]int, n)
	var sched []int
	pool := newConvPool() // ONE set of Converter objects for all documents of the case (converter.go)
	stepDoc := func(d int) {
		if next[d] >= len(c.Docs[d]) {
			return
		}
		if runs[d] == nil {
			runs[d] = newTracked(base, d, c.Docs[d])
			runs[d].conv = pool
		}
		runs[d].step(c.Docs[d][next[d]])
		next[d]++
		sched = append(sched, d)
	}
	for _, e := range c.Order {
		if e < 0 {
			e = -e
		}
		stepDoc(e % n)
	}
	for d := n - 1; d >= 0; d-- { // leftovers: the Bs first, so that A also sees documents finished after it began
		for next[d] < len(c.Docs[d]) {
			stepDoc(d)
		}
	}
	snaps := make([]*Snap, n)
	for d := 0; d < n; d++ {
		if runs[d] == nil {
			runs[d] = newTracked(base, d, c.Docs[d])
		}
		snaps[d] = runs[d].snap(true)
	}
	i4 := make([][]string, n)
	for d := 0; d < n; d++ {
		i4[d] = runs[d].i4
	}
	// the documents are saved one after the other, twice round, into ONE directory under their own names; when all
	// of them are written every file must hold its own document
	shared := filepath.Join(base, "shared-seq")
	os.RemoveAll(shared)
	os.MkdirAll(shared, 0o755)
	save := make([][]string, n)
	for rep := 0; rep < saveReps && !inFreshChild; rep++ {
		for d := 0; d < n; d++ {
			r := runs[d]
			if r.x == nil || r.dead {
				continue
			}
			var err error
			path := filepath.Join(shared, fmt.Sprintf("doc%d.docx", d))
			if p, _ := kit.Try(func() { err = r.x.Doc.Save(path) }); p != nil {
				err = fmt.Errorf("panic: %v", p)
			}
			if (err == nil) != r.tbOK && len(save[d]) == 0 {
				save[d] = append(save[d], fmt.Sprintf("Save #%d of %s returned %v although ToBytes of the same document ok=%v", rep, filepath.Base(path), err, r.tbOK))
			}
		}
	}
	for d := 0; d < n && !inFreshChild; d++ {
		r := runs[d]
		if r.x == nil || r.dead || !r.tbOK || r.pkgSnap == nil {
			continue
		}
		path := filepath.Join(shared, fmt.Sprintf("doc%d.docx", d))
		fb, rerr := os.ReadFile(path)
		if rerr != nil {
			save[d] = append(save[d], fmt.Sprintf("the file written by Save cannot be read: %v", rerr))
			continue
		}
		for _, dl := range diffFileParts(r.pkgSnap, fb) {
			save[d] = append(save[d], fmt.Sprintf("file %s written by Save differs from the document's ToBytes: item=%s: %s", filepath.Base(path), dl.Item, dl.Detail))
		}
	}
	// the byte slices the documents' ToBytes calls returned, looked at again now that every other document has been
	// edited, serialised and saved (retain.go)
	for d := 0; d < n; d++ {
		runs[d].addHeld(snaps[d], nil)
	}
	return snaps, sched, i4, save
}

// runConcurrent executes every history in its own goroutine (document created, edited and observed inside the
// goroutine). countsInside=false postpones the two registry counters until all goroutines have finished.
// It returns the snapshots and the number of goroutines whose execution overlapped with another one's.
type concResult struct {
	snaps      []*Snap
	overlapped int
	i4         [][]string
	save       [][]string // per document: what was wrong with the files written by Save into the shared directory
}

const saveReps = 2

// noStepCounter switches the shared step counter of the concurrent part off (set only in the child process of a
// cold case): an atomic counter orders the goroutines for the race detector (happens-before through the atomic),
// which hides conflicting accesses that do not overlap in time. Without it the goroutines share nothing between
// the start barrier and the end of their histories.
var noStepCounter bool

// diffFileParts compares the parts of a saved file with the parts of the document's own ToBytes.
func diffFileParts(want *Snap, file []byte) []Delta {
	got := &Snap{}
	got.addPackage("", file)
	var out []Delta
	for i := range want.Items {
		a := &want.Items[i]
		if a.Kind != "part" || !strings.HasPrefix(a.Name, "part:") {
			continue
		}
		j, ok := got.index[a.Name]
		if !ok {
			out = append(out, Delta{a.Name, a.Fam, a.Kind, "in ToBytes, not in the saved file"})
			continue
		}
		out = append(out, diffPart(a, &got.Items[j])...)
	}
	for _, b := range got.Items {
		if _, ok := want.index[b.Name]; !ok {
			out = append(out, Delta{b.Name, b.Fam, b.Kind, "in the saved file, not in ToBytes: " + clip(b.Val, 100)})
		}
	}
	if len(out) > 3 {
		out = out[:3]
	}
	return out
}

// zipNames lists the entry names of a package, sorted ("unreadable: ..." if it is not a zip).
func zipNames(b []byte) string {
	zr, err := zip.NewReader(bytes.NewReader(b), int64(len(b)))
	if err != nil {
		return "unreadable: " + err.Error()
	}
	var names []string
	for _, f := range zr.File {
		names = append(names, f.Name)
	}
	sort.Strings(names)
	return strings.Join(names, " ")
}

func runConcurrent(base string, c Case, countsInside bool) *concResult {
	document.VerifResetGlobals()
	n := len(c.Docs)
	procs := c.Procs
	if procs < 2 {
		procs = 2
	}
	prev := runtime.GOMAXPROCS(procs)
	defer runtime.GOMAXPROCS(prev)
	for d := 0; d < n; d++ {
		freshDir(base, d)
	}
	shared := filepath.Join(base, "shared")
	os.RemoveAll(shared)
	os.MkdirAll(shared, 0o755)
	saveFail := make([][]string, n)
	var saving, saved sync.WaitGroup
	saving.Add(n)
	saved.Add(n)
	snaps := make([]*Snap, n)
	runs := make([]*docRun, n)
	var steps int64
	foreign := make([]int64, n) // steps of other goroutines seen between the first and last op of goroutine d
	var ready, done sync.WaitGroup
	start := make(chan struct{})
	ready.Add(n)
	done.Add(n)
	for d := 0; d < n; d++ {
		go func(d int) {
			defer done.Done()
			ready.Done()
			<-start
			tick := func() int64 {
				if noStepCounter {
					return 0
				}
				return atomic.AddInt64(&steps, 1)
			}
			first := tick()
			r := newRun(base, d)
			r.track = true
			runs[d] = r
			for i, o := range c.Docs[d] {
				if d < len(c.Yield) && i < len(c.Yield[d]) && c.Yield[d][i] {
					runtime.Gosched()
				}
				r.step(o)
				tick()
			}
			snaps[d] = r.snap(countsInside)
			last := tick()
			foreign[d] = (last - first) - int64(len(c.Docs[d])+1)

			// every document is saved, by its own goroutine, into ONE directory under its own file name; the
			// goroutines enter this phase together so that the Save calls overlap
			path := filepath.Join(shared, fmt.Sprintf("doc%d.docx", d))
			var errs []error
			saving.Done()
			saving.Wait()
			if r.x != nil && !r.dead {
				for i := 0; i < saveReps; i++ {
					var err error
					if p, _ := kit.Try(func() { err = r.x.Doc.Save(path) }); p != nil {
						err = fmt.Errorf("panic: %v", p)
					}
					errs = append(errs, err)
					runtime.Gosched()
				}
			}
			saved.Done()
			saved.Wait() // nobody writes any more
			// the byte slices this document's ToBytes calls returned, looked at again now that all the other goroutines
			// have serialised and saved their documents (retain.go); the race twin has no reference run to compare with
			if kit.RaceMode() {
				r.addHeld(nil, &saveFail[d])
			} else {
				r.addHeld(snaps[d], nil)
			}
			if r.x == nil || r.dead {
				return
			}
			for i, err := range errs {
				if (err == nil) != r.tbOK {
					saveFail[d] = append(saveFail[d], fmt.Sprintf("Save #%d of %s returned %v although ToBytes of the same document ok=%v", i, filepath.Base(path), err, r.tbOK))
					break
				}
			}
			if r.tbOK && (r.pkgSnap != nil || r.zipNames != "") {
				fb, rerr := os.ReadFile(path)
				if rerr != nil {
					saveFail[d] = append(saveFail[d], fmt.Sprintf("the file written by Save cannot be read: %v", rerr))
				} else if r.pkgSnap == nil {
					// race twin: the bytes are judged by the normal binary; here the file must be this document's package by its entry names
					if got := zipNames(fb); got != r.zipNames {
						saveFail[d] = append(saveFail[d], fmt.Sprintf("file %s written by Save has entries [%s], the document's ToBytes has [%s]", filepath.Base(path), clip(got, 300), clip(r.zipNames, 300)))
					}
				} else {
					for _, dl := range diffFileParts(r.pkgSnap, fb) {
						saveFail[d] = append(saveFail[d], fmt.Sprintf("file %s written by Save differs from the document's ToBytes: item=%s: %s", filepath.Base(path), dl.Item, dl.Detail))
					}
				}
			}
		}(d)
	}
	ready.Wait()
	close(start)
	done.Wait()
	overlapped := 0
	for d := 0; d < n; d++ {
		if foreign[d] > 0 {
			overlapped++
		}
		if !countsInside && runs[d] != nil && runs[d].x != nil {
			snaps[d].addCounts(runs[d].x.Doc)
		}
	}
	i4 := make([][]string, n)
	for d := 0; d < n; d++ {
		if runs[d] != nil {
			i4[d] = runs[d].i4
		}
	}
	return &concResult{snaps: snaps, overlapped: overlapped, i4: i4, save: saveFail}
}

// judge reports the deltas of one document under one clause.
func judge(res *kit.Result, clause string, doc int, want, got *Snap) {
	for _, dl := range diffSnaps(want, got, 4) {
		if dl.Fam != "" {
			res.Fail(clause, "registry-derived family=%s kind=%s doc=%d item=%s: %s", dl.Fam, dl.Kind, doc, dl.Item, dl.Detail)
		} else {
			res.Fail(clause, "doc=%d item=%s: %s", doc, dl.Item, dl.Detail)
		}
	}
}

func run(c Case) *kit.Result {
	res := &kit.Result{}
	n := len(c.Docs)
	if n == 0 {
		return res
	}
	if c.Sub > 0 {
		runInChild(res, c)
		return res
	}
	base, _ := os.MkdirTemp(kit.Scratch, "c07-")
	defer os.RemoveAll(base)
	race := kit.RaceMode()

	// features of the case
	kindsOf := make([]map[string]bool, n)
	famDocs := map[string]int{}
	var shape []string
	for d, h := range c.Docs {
		kindsOf[d] = map[string]bool{}
		fams := map[string]bool{}
		for _, o := range h {
			kindsOf[d][o.K] = true
			if f := kindFamily[o.K]; f != "" {
				fams[f] = true
			}
			if f := registryFam[o.K]; f != "" {
				fams["reg:"+f] = true
			}
		}
		var fs []string
		for f := range fams {
			famDocs[f]++
			fs = append(fs, f)
		}
		sort.Strings(fs)
		shape = append(shape, fmt.Sprintf("%d[%s]", len(h), strings.Join(fs, ",")))
	}
	perDocShared := false
	for f, cnt := range famDocs {
		if cnt >= 2 {
			res.Label("shared-family:" + f)
			if f == "image" || f == "hf" || f == "style" {
				perDocShared = true
			}
		}
	}
	if perDocShared {
		res.Label("shared:style|header|image")
	}
	res.Label(fmt.Sprintf("docs:%d", n))
	for _, h := range c.Docs {
		opened, derived, foreign := false, false, false
		for _, o := range h {
			switch o.K {
			case "reopen":
				if !opened {
					opened = true
					continue
				}
				derived = true
			case "tpldoc", "tpldoc2":
				derived = true
				if opened {
					res.Label("derived:render-of-opened-base")
				}
			case "swap":
				if derived || opened {
					res.Label("derived:swap")
				}
			case "rmfootnote", "rmendnote":
				res.Label("derived:rmnote")
				if derived && opened {
					res.Label("derived:rmnote-after-render-of-opened-base")
				}
			case "notecount":
				res.Label("derived:notecount")
			case "openforeign":
				opened, foreign = true, true
			case "restyle", "rmstyle":
				if derived && opened {
					res.Label("derived:style-edit-after-render-of-opened-base")
					if foreign {
						res.Label("derived:style-edit-in-family-of-foreign-base")
					}
				}
			case "save":
				if derived {
					res.Label("derived:save-between-edits")
				}
			}
		}
	}
	// conversions with a shared Converter object: which option sets (= converters) are used by several documents of
	// the case (interleaved run) or several times inside one history
	convDocs := map[string]int{}
	for _, h := range c.Docs {
		mine := map[string]int{}
		for _, o := range h {
			if o.K == "mdc" {
				mine[fmt.Sprint(o.B, iArg(o, 0))]++
			}
		}
		for key, cnt := range mine {
			convDocs[key]++
			if cnt >= 2 {
				res.Label("converter:reused-inside-history")
			}
		}
	}
	for _, cnt := range convDocs {
		if cnt >= 2 {
			res.Label("converter:shared-by-documents")
		}
	}
	engDocs := 0
	for _, h := range c.Docs {
		if hasKind(h, "tplc") || hasKind(h, "tpldc") {
			engDocs++
		}
		if hasKind(h, "failcall") {
			res.Label("failcall")
		}
	}
	if engDocs >= 2 {
		res.Label("engine:shared-by-documents")
	}
	prunedDocs := 0
	for d, h := range c.Docs {
		if isPruned(h) {
			prunedDocs++
		}
		for _, o := range h {
			if !isPooledFail(o) {
				continue
			}
			for e, g := range c.Docs {
				if e != d && (hasKind(g, "tplc") || hasKind(g, "tpldc")) {
					res.Label("engine:failed-call-and-loads-of-other-documents")
				}
			}
		}
	}
	if prunedDocs >= 2 {
		res.Label("ondemand:styles-removed-then-toc-in-several-documents")
	}
	if n >= 9 {
		res.Label("docs:9-or-more")
	}
	regDocs := 0
	for _, h := range c.Docs {
		if len(docFams(h)) > 0 {
			regDocs++
		}
	}
	switch {
	case regDocs == 0:
		res.Label("registry:none")
	case regDocs == 1:
		res.Label("registry:one-doc")
	default:
		res.Label("registry:several-docs")
	}
	richB := false
	for d := 1; d < n; d++ {
		if len(kindsOf[d]) >= 3 {
			richB = true
		}
	}
	rich := len(kindsOf[0]) >= 3 && richB

	// every document alone (the race twin judges only I3 and needs no reference)
	alone := make([]*Snap, n)
	reportI4 := func(where string, d int, diffs []string) {
		for _, x := range diffs {
			res.Fail("C07.I4", "doc=%d (%s): %s", d, where, x)
		}
	}
	for d := 0; d < n && !race; d++ {
		var ar *docRun
		ar, alone[d] = runAloneRun(base, d, c.Docs[d], true)
		res.Eval("C07.I4")
		reportI4("built alone", d, ar.i4)
		if ar.hung && hasPooledFail(c.Docs[d]) {
			// I5 for a history that does not come to its end: the failing calls on the pooled engine made no document, so
			// they are calls on no document of the lineage; with an engine of their own the history must end the same way
			res.Eval("C07.I5")
			if pr, _ := runAloneRun(base, d, ownFails(c.Docs[d]), true); !pr.hung {
				res.Fail("C07.I5", "doc=%d: the history stops at op %d (%s: the call on the run's pooled TemplateEngine did not return) after a FAILED call on the same engine (render / lookup of an unknown template name, which made no document); with the failing calls made on an engine of their own the history runs to its end",
					d, len(ar.outcomes)-1, ar.outcomes[len(ar.outcomes)-1])
			}
			continue
		}
		// I5: the final document of the history does not depend on the edits of the other documents of its family
		if hp := ar.projection(c.Docs[d]); hp != nil {
			res.Eval("C07.I5")
			res.Label("derived:projection")
			pr, ps := runAloneRun(base, d, hp, true)
			if pr.dead {
				res.Count("projection-died", 1)
				continue
			}
			for _, dl := range diffSnaps(finalItems(alone[d]), finalItems(ps), 3) {
				res.Fail("C07.I5", "doc=%d: the final document of the history differs when the %d calls made on OTHER documents of the history (siblings, unrelated documents, ancestors after the derivation) are left out and the %d conversions that made other documents use a converter of their own: item=%s: %s",
					d, len(c.Docs[d])-len(hp), countKind(hp, "md")-countKind(c.Docs[d], "md"), dl.Item, strings.Replace(dl.Detail, "alone vs together", "whole history vs projection", 1))
			}
		}
	}

	if !race {
		// documents whose parts total more than 64 KiB (the sizes from which buffers are worth pooling)
		big := 0
		for d := 0; d < n; d++ {
			size := 0
			for _, it := range alone[d].Items {
				if strings.HasPrefix(it.Name, "part:") {
					size += len(it.Raw)
				}
			}
			if size > 64<<10 {
				big++
			}
		}
		if big >= 2 {
			res.Label("large:two-documents-over-64KiB")
		} else if big == 1 {
			res.Label("large:one-document-over-64KiB")
		}
	}
	for _, h := range c.Docs {
		for _, o := range h {
			if o.K == "bulk" && len(o.S) > 0 {
				res.Label("bulk:" + o.S[0])
				if iArg(o, 0) > 64 && o.S[0] != "paras" && o.S[0] != "bigimage" {
					res.Label("bulk:more-than-64-items")
				}
			}
		}
	}

	between := false
	if !race {
		// I0: the reference itself is a function of the calls (same history, same fresh state, twice); every third case
		if len(c.Order)%3 == 0 {
			res.Eval("C07.I0")
			again, _ := runAlone(base, 0, c.Docs[0], false)
			for _, dl := range diffSnaps(alone[0], again, 2) {
				res.Fail("C07.I0", "doc=0 built alone twice from the same calls differs: item=%s: %s", dl.Item, dl.Detail)
			}
		}
		// I1: sequential interleaving
		snaps, sched, i4, seqSave := runInterleaved(base, c)
		for d := 0; d < n; d++ {
			reportI4("interleaved", d, i4[d])
			for _, x := range seqSave[d] {
				res.Fail("C07.I1", "doc=%d item=save-into-shared-directory (one after the other): %s", d, x)
			}
		}
		seenA, seenBafterA := false, false
		for _, d := range sched {
			switch {
			case d == 0 && seenBafterA:
				between = true
			case d == 0:
				seenA = true
			case seenA:
				seenBafterA = true
			}
		}
		if between {
			res.Label("seq:B-between-A")
		}
		for d := 0; d < n; d++ {
			res.Eval("C07.I1")
			judge(res, "C07.I1", d, alone[d], snaps[d])
		}
	}

	// I6: the references built in processes of their own
	if c.Fresh && !race && n >= 2 && c.Sub == 0 {
		runFresh(res, c)
	}

	// I2 / I3: one goroutine per document
	overlapped := 0
	if n >= 2 {
		if raceOpen() && sharedManager(c) {
			// two goroutines writing the same unsynchronised registry map kill the process ("fatal error: concurrent map writes")
			res.Count("excluded:"+kfRace, 1)
			res.Label("conc:excluded")
		} else {
			if c.Cold && c.Sub == 0 {
				runCold(res, c)
			}
			if race {
				kit.RaceDelta() // nothing before the concurrent part belongs to this case
			}
			reps := c.Reps
			if reps < 1 {
				reps = 1
			}
			for rep := 0; rep < reps && len(res.Failures) == 0; rep++ {
				cr := runConcurrent(base, c, !raceOpen())
				overlapped = cr.overlapped
				if race {
					res.Eval("C07.I3")
					if report := kit.RaceDelta(); report != "" {
						res.Fail("C07.I3", "race detector report while %d goroutines worked on distinct documents: %s", n, clip(report, 1200))
					}
				}
				for d := 0; d < n; d++ {
					// the files the goroutines saved side by side into one directory (both binaries)
					res.Eval("C07.I2")
					for _, x := range cr.save[d] {
						res.Fail("C07.I2", "doc=%d item=save-into-shared-directory: %s", d, x)
					}
					if race {
						continue
					}
					judge(res, "C07.I2", d, alone[d], cr.snaps[d])
					reportI4("own goroutine", d, cr.i4[d])
				}
			}
			res.Label(fmt.Sprintf("conc:overlapped=%d", min(overlapped, 3)))
			res.Label(fmt.Sprintf("conc:procs=%d", c.Procs))
		}
	}
	need := 3
	if n < 3 {
		need = n
	}
	concOK := n >= 2 && overlapped >= need
	if concOK {
		res.Label("conc:nontrivial")
	}
	if race {
		res.Nontrivial = rich && concOK
	} else {
		res.Nontrivial = rich && between
	}
	res.Shape = strings.Join(shape, "|") + fmt.Sprintf("|between=%v", between)
	return res
}

func TestC07(t *testing.T) {
	fs := findings
	if kit.RaceMode() {
		fs = findings[1:] // the twin judges I3 only; the witness of the shared-registries finding belongs to the normal binary
	}
	if assumeFixed {
		fs = nil
	}
	kit.Main(t, kit.Spec[Case]{
		ID: "C07", Level: "exploration",
		Rule: "2-5 generated histories (1-12 ops each, thorough 1-25; whole document API, strings of all classes) on distinct documents, a drawn sequential interleaving and a drawn concurrent schedule (Gosched points, GOMAXPROCS 2/4/16); " +
			"1-3 drawn focus families (images, headers/footers, styles, properties, page settings, tables, templates, markdown, TOC) are boosted in every document so that the documents use the same per-document machinery; " +
			"non-trivial (normal binary) = A and some B have >=3 distinct op kinds and a B-op is executed strictly between two A-ops; non-trivial (race twin) = the same richness and min(3, #documents) goroutines overlapped in time (shared atomic step counter); " +
			"one history in four contains a derived-documents scenario {[open a package written by another producer], 1-3 ops of one or two families of per-document state (notes, lists, TOC, style manager most often), [reopen], [note counters read], render / two renders / reopen, 2-6 edits of the same families mixed with swaps back to set-aside documents, saves of the member at hand, note removals by id; the style family edits the style manager of one member: restyle a defined style in place or by copy+AddStyle, CreateCustomStyle / RemoveStyle / new references with ids of a small pool}; " +
			"two md conversions in three use a Converter object from a pool (one per option set; texts that define and use link references / footnotes / equal headings): alone and in its goroutine a history has its own pool, in the interleaved run all documents share one; one case in six puts 1-2 such conversions with one option set into every history; " +
			"documents set aside inside a history are observed twice (I4); the history is executed again without the calls on other documents of its family (I5); both runs end with Save calls of all documents into one shared directory (one after the other / overlapping); " +
			"cold cases (1 in 8, race twin 1 in 2): every history starts with the same 1-3 drawn ops and the concurrent part runs first of all in a fresh child process; " +
			"fresh cases (1 in 12, normal binary): every history starts with 1-3 further common ops (Markdown with formulas built from a few atoms, templates, LaTeX formulas, headings, styles ...) of which each document gets its own near-equal variant (blanks inside brackets, outer blanks, double blanks, blanks at line ends, letter case), histories of at most 6 ops; every document is built once more alone in a fresh process of its own and all of them interleaved in another fresh process (I6); 1 case in 80 has 9-11 documents with at most 4 ops each and is a fresh case; " +
			"sizes: 1 case in 20 is large (three documents in four get 450-900 paragraphs or a 160-200 pixel picture: parts of more than 64 KiB), 1 case in 8 has histories that repeat one call 10-100 times (pictures, notes, headings, list items, tables, rows, columns, styles); every second tplstr/tpldoc uses one TemplateEngine per run (shared by all documents in the interleaved run), 1 history in 10 contains a call that fails (open of garbage / of a missing file, save below a regular file, picture from a missing file, render of an unknown template, unbalanced template; render / lookup of an unknown name on the engine the documents of the run share); " +
			"1 case in 8 is a pruned case: three histories in four remove 1-3 styles that the library registers again on demand (toc styles 12-16, Heading1; 1-2 ids per case are preferred by all documents), add headings of the matching levels, generate / update a TOC and later restyle such an id (3 in 4 in place); 1 case in 10 is an engine-fail case: two histories in three get a failing call on the shared engine and a load+render with it; a call on the shared engine that does not return within 10 s is the outcome 'hang' (compared like every outcome; I5 executes such a history again with the failing calls on an engine of their own); " +
			"every byte slice returned by ToBytes (save ops, final) and the values returned by GetPageSettings / ListHeadings are kept and looked at again at the very end of each run; " +
			"distinct = distinct vector of (history length, op families used) per document",
		Gen: genCase, Run: run, Findings: fs, Fixed: fixedCases,
		Assumptions: []string{
			"the reference for a document is the same history executed alone after VerifResetGlobals() (state of a fresh process) in the same process",
			"lists the library writes in map-iteration order (children of w:numbering, w:footnotes, w:endnotes, w:styles, content-type and relationship lists) are compared as multisets; dcterms:created/modified are not compared; zip entry order is not compared",
			"the race twin relies on the Go race detector (reports each distinct race once per process)",
			"I5: ops that create or select a document (render, reopen, conversion, swap) are kept when the calls on other documents are removed; they are assumed not to edit the document they read, apart from what they do identically in both runs",
			"a markdown.Converter is used by one goroutine at a time (the property does not state that one Converter may be shared between goroutines); the converters of a pool are always called with the option values they were made with",
			"I6: the child processes differ from one another only in the calls they make (same binary, same environment, same relative scratch path, a working directory each)",
			"kept byte slices / accessor values: a slice that the document's own later calls invalidate changes in the run alone as well; only a difference between the runs is reported",
			"set-aside documents are observed after one discarded round of the same observer calls (the observer's calls are calls on the document: lazily materialised section properties, table style definitions registered by ToBytes)",
		},
		MustSee: map[string]float64{"shared:style|header|image": 0.5, "registry:none": 0.2, "conc:cold-start": 0.05, "derived:rmnote": 0.1, "derived:swap": 0.1,
			"converter:shared-by-documents": 0.05, "derived:style-edit-after-render-of-opened-base": 0.03,
			"fresh:reference-in-own-process": 0.04, "large:two-documents-over-64KiB": 0.005, "bulk:more-than-64-items": 0.005,
			"ondemand:styles-removed-then-toc-in-several-documents": 0.02, "engine:failed-call-and-loads-of-other-documents": 0.02},
		CaseLimit: 45 * time.Second, // a cold case starts a process; the machine may be busy
	})
}

package c07

import (
	"testing"

	"wzverif/internal/kit"
)

// FuzzC07: coverage-guided search over the generator and oracle of TestC07 (thorough tier; see internal/kit/fuzz.go).
func FuzzC07(f *testing.F) { kit.FuzzVia(f, TestC07) }

package c07

import (
	"errors"
	"sync/atomic"
	"time"

	"pgregory.net/rapid"

	"wzverif/internal/kit"
	"wzverif/internal/ops"
)

// Two kinds of history that an ordinary draw (almost) never produces.
//
// (1) State that a document LOST and that the library brings back on demand. A style that was removed from a
// document's style manager (RemoveStyle: pruning the style sheet is ordinary use) is registered again by the calls that
// need it (GenerateTOC / AutoGenerateTOC / UpdateTOC need the toc styles and the heading style of the title). Where the
// library takes the definition from at that moment is invisible as long as only one document ever gets there: when
// SEVERAL documents of the process went down this path, an in-place edit of the re-registered definition in one of
// them must not show in the others. In a "pruned" case every history gets a block
//
//	rmstyle x 1-3 (ids the library registers again on demand), heading x 1-2, toc | autotoc | updatetoc
//
// in its second half, followed - somewhere in the rest of the history - by 1-2 restyle ops of the same ids (mostly in
// place on the object GetStyle returns). Oracles: the existing ones (styles.xml and the style ids of every document
// built alone / interleaved / in its own goroutine; the race twin).
//
// (2) A call that FAILS on an object that serves several documents (the run's TemplateEngine, engine.go), followed by
// calls of other documents on the same object. The failed call made no document and belongs to nobody; what the later
// calls return (and whether they return at all) must not depend on it. The failing calls are variants of "failcall"
// (engine.go); in an "engine-fail" case most histories get one of them and a pooled load+render. A call on the pooled
// engine that does not come back within hangLimit() is recorded as the outcome "<kind>:hang" and ends the history
// (the goroutine that made the call is abandoned): alone (own engine) the same call returns, so the difference is an
// I1 failure like any other difference of outcomes.

var onDemandIDs = []string{"13", "13", "14", "15", "12", "Heading1", "16", "14"}

// caseIDs draws the 1-2 ids most documents of a pruned case lose and edit (so that the documents meet at the same ids).
func caseIDs(t *rapid.T) []string {
	ids := []string{rapid.SampledFrom(onDemandIDs).Draw(t, "caseid")}
	if rapid.Bool().Draw(t, "caseid-two") {
		ids = append(ids, rapid.SampledFrom(onDemandIDs).Draw(t, "caseid"))
	}
	return ids
}

// the heading level whose toc entry refers to the style id (0: none in particular)
var levelOfID = map[string]int{"13": 1, "14": 2, "15": 3}

// pruneBlock draws the block and the later restyle ops.
func pruneBlock(t *rapid.T, cfg *ops.Config, ids []string) (block, later []ops.Op) {
	pick := func(label string) string {
		if len(ids) > 0 && rapid.IntRange(0, 4).Draw(t, label+"-own") > 0 {
			return rapid.SampledFrom(ids).Draw(t, label)
		}
		return rapid.SampledFrom(onDemandIDs).Draw(t, label)
	}
	var removed []string
	for i, m := 0, rapid.IntRange(1, 3).Draw(t, "nprune"); i < m; i++ {
		id := pick("pruneid")
		removed = append(removed, id)
		block = append(block, ops.Op{K: "rmstyle", S: []string{id}})
	}
	for i, m := 0, rapid.IntRange(1, 2).Draw(t, "nprunehead"); i < m; i++ {
		o := styleOp(t, "heading")
		if lvl := levelOfID[removed[ops.In(i, len(removed))]]; lvl > 0 && len(o.I) > 0 && rapid.IntRange(0, 3).Draw(t, "prunehead-lvl") > 0 {
			o.I[0] = lvl // a heading whose toc entry needs a removed style
		}
		block = append(block, o)
	}
	toc := cfg.OpOf(t, rapid.SampledFrom([]string{"toc", "autotoc", "toc", "autotoc", "updatetoc"}).Draw(t, "prunetoc"))
	if len(toc.I) > 0 && rapid.IntRange(0, 3).Draw(t, "prunetoc-levels") > 0 {
		toc.I[0] = 3 // all the heading levels the block uses
	}
	block = append(block, toc)
	for i, m := 0, rapid.IntRange(1, 2).Draw(t, "nrestyle"); i < m; i++ {
		mode := 0
		if rapid.IntRange(0, 3).Draw(t, "prune-restyle-copy") == 3 {
			mode = 1
		}
		later = append(later, ops.Op{K: "restyle", S: []string{pick("restyleid")},
			I: []int{rapid.IntRange(0, 3).Draw(t, "restylewhat"), mode}})
	}
	return block, later
}

// withPruneBlock puts the block into the second half of the history and the later ops anywhere after it.
func withPruneBlock(t *rapid.T, cfg *ops.Config, h []ops.Op, ids []string) []ops.Op {
	block, later := pruneBlock(t, cfg, ids)
	at := rapid.IntRange(len(h)/2, len(h)).Draw(t, "prune-at")
	rest := append([]ops.Op{}, h[at:]...)
	for _, o := range later {
		rest = insertAt(rest, rapid.IntRange(0, len(rest)).Draw(t, "restyle-at"), o)
	}
	out := append([]ops.Op{}, h[:at]...)
	out = append(out, block...)
	return append(out, rest...)
}

// isPruned: the history removes a style the library registers again on demand and then makes a call that does so.
func isPruned(h []ops.Op) bool {
	rm := false
	for _, o := range h {
		switch o.K {
		case "rmstyle":
			if len(o.S) > 0 {
				for _, id := range onDemandIDs {
					rm = rm || id == o.S[0]
				}
			}
		case "toc", "autotoc", "updatetoc":
			if rm {
				return true
			}
		}
	}
	return false
}

// ---------------------------------------------------------------------------------------------
// engine-fail cases

// pooledFailKinds: the failcall variants that fail on the run's pooled engine (engine.go)
var pooledFailKinds = []int{6, 7, 8}

func isPooledFail(o ops.Op) bool {
	if o.K != "failcall" {
		return false
	}
	w := ops.In(iArg(o, 0), nFailCalls)
	return w >= 6 && w <= 8
}

// asOwnFail is the same failing call on an engine of its own (the projection, I5: the failed call made no document,
// so it is not a call on a document of the lineage).
func asOwnFail(o ops.Op) ops.Op {
	c := copyOp(o)
	c.I = []int{4}
	return c
}

func ownFails(h []ops.Op) []ops.Op {
	out := make([]ops.Op, len(h))
	for i, o := range h {
		out[i] = o
		if isPooledFail(o) {
			out[i] = asOwnFail(o)
		}
	}
	return out
}

func hasPooledFail(h []ops.Op) bool {
	for _, o := range h {
		if isPooledFail(o) {
			return true
		}
	}
	return false
}

// withEngineFail: most histories of an engine-fail case get a failing call on the pooled engine, and a pooled
// load+render if they have none.
func withEngineFail(t *rapid.T, cfg *ops.Config, h []ops.Op) []ops.Op {
	if rapid.IntRange(0, 2).Draw(t, "engfail-here") > 0 {
		o := ops.Op{K: "failcall", I: []int{rapid.SampledFrom(pooledFailKinds).Draw(t, "engfail-which")}}
		h = insertAt(h, rapid.IntRange(0, len(h)).Draw(t, "engfail-at"), o)
	}
	if !hasKind(h, "tplc") && !hasKind(h, "tpldc") && rapid.IntRange(0, 2).Draw(t, "engload-here") > 0 {
		var o ops.Op
		name := rapid.SampledFrom(engineNames).Draw(t, "tplname")
		if rapid.Bool().Draw(t, "engload-doc") {
			o = cfg.OpOf(t, "tpldoc")
			o.K, o.S = "tpldc", []string{"", name}
		} else {
			o = cfg.OpOf(t, "tplstr")
			src := ""
			if len(o.S) > 0 {
				src = o.S[0]
			}
			o.K, o.S = "tplc", []string{src, name}
		}
		h = insertAt(h, rapid.IntRange(0, len(h)).Draw(t, "engload-at"), o)
	}
	return h
}

// ---------------------------------------------------------------------------------------------
// calls that may not come back

var errHang = errors.New("the call did not return")

var hangSeen atomic.Bool

// hangLimit: generous as long as no call of this process ever hung (a busy machine must not produce a "hang");
// once one did, the search is in a failing state and the following executions (shrinking) need not wait that long.
func hangLimit() time.Duration {
	if hangSeen.Load() {
		return 2 * time.Second
	}
	return 10 * time.Second
}

// returns runs f in a goroutine of its own and reports whether it came back in time. f must hand its results over
// through the value it returns: an abandoned call must not write to anything the caller still reads.
func returns[T any](f func() T) (T, bool) {
	type outT struct {
		v T
		p any
	}
	ch := make(chan outT, 1)
	go func() {
		var o outT
		o.p, _ = kit.Try(func() { o.v = f() })
		ch <- o
	}()
	tm := time.NewTimer(hangLimit())
	defer tm.Stop()
	select {
	case o := <-ch:
		if o.p != nil {
			panic(o.p) // as if the call had been made here
		}
		return o.v, true
	case <-tm.C:
		hangSeen.Store(true)
		var zero T
		return zero, false
	}
}

package c07

import (
	"bytes"
	"fmt"

	"github.com/zerx-lab/wordZero/pkg/document"

	"wzverif/internal/kit"
)

// "The bytes obtained for one document ... creating, editing, rendering or saving any other document before,
// between or concurrently never changes them." A caller that obtained a byte slice from ToBytes keeps it (to send
// it, to hash it, to write it later). The snapshot of a document parses the slice at once; what happens to the
// slice AFTERWARDS - while the other documents of the case are edited, serialised and saved - is only visible if
// the slice itself is kept and looked at again. Every run therefore keeps the slices the library returned for its
// documents (the intermediate "save" ops and the final ToBytes), with a private copy of what they held when they
// were obtained, and looks at them again at the very end of the run: alone (nothing else happened), interleaved (all
// other documents finished, serialised and saved), concurrent (all other goroutines finished and saved).
//
// The state ("unchanged" / "changed ...") is an item of the snapshot like any other: it is compared between the
// document built alone and the document built together with the others (I1, I2, I6). A slice that the document's
// OWN later calls invalidate changes in the run alone as well and is not a matter of this property.
type heldBytes struct {
	name string
	b    []byte // the slice the library returned
	was  []byte // its content at that moment
}

const maxHeld = 8

// heldVal is an accessor result that is a value of its own (GetPageSettings returns a new struct, ListHeadings a new
// slice): the caller keeps it, and it is formatted again at the end of the run.
type heldVal struct {
	name string
	was  string
	now  func() string
}

// holdAccessors obtains the two value-like accessor results of the final document once more and keeps them.
func (r *docRun) holdAccessors(d *document.Document) {
	if d == nil || len(r.vals) > 0 {
		return
	}
	kit.Try(func() {
		ps := d.GetPageSettings()
		f := func() string { return fmt.Sprintf("%+v", *ps) }
		r.vals = append(r.vals, heldVal{"GetPageSettings", f(), f})
	})
	kit.Try(func() {
		hs := d.ListHeadings()
		f := func() string { return fmt.Sprintf("%+v", hs) }
		r.vals = append(r.vals, heldVal{"ListHeadings", f(), f})
	})
}

func (r *docRun) hold(name string, b []byte) {
	if len(r.held) >= maxHeld || b == nil {
		return
	}
	r.held = append(r.held, heldBytes{name: name, b: b, was: append([]byte(nil), b...)})
}

// holdSaves keeps the slices that the "save" ops of the history obtained (ops.Exec appends them to Saves).
func (r *docRun) holdSaves() {
	if r.x == nil {
		return
	}
	for ; r.nSaves < len(r.x.Saves); r.nSaves++ {
		r.hold(fmt.Sprintf("save%d", r.nSaves), r.x.Saves[r.nSaves])
	}
}

// addHeld looks at the kept slices again. Normal binary: one item per slice is added to the snapshot. Race twin
// (s == nil): there is no reference run, a slice that changed is reported directly.
func (r *docRun) addHeld(s *Snap, direct *[]string) {
	if r == nil {
		return
	}
	for _, h := range r.held {
		state := "unchanged since it was obtained"
		if !bytes.Equal(h.b, h.was) {
			at := 0
			for at < len(h.b) && at < len(h.was) && h.b[at] == h.was[at] {
				at++
			}
			state = fmt.Sprintf("CHANGED after it was obtained (%d bytes, first difference at offset %d; as a package it now lists [%s], it listed [%s])",
				len(h.was), at, clip(zipNames(h.b), 160), clip(zipNames(h.was), 160))
			if direct != nil {
				*direct = append(*direct, fmt.Sprintf("the byte slice returned by ToBytes (%s) %s while the other goroutines worked on their documents", h.name, state))
			}
		}
		if s != nil {
			s.add(Item{Name: "held:" + h.name, Kind: "acc", Val: state})
		}
	}
	for _, v := range r.vals {
		state := "unchanged since it was obtained"
		now := v.was
		kit.Try(func() { now = v.now() })
		if now != v.was {
			state = fmt.Sprintf("CHANGED after it was obtained: was %s, is now %s", clip(v.was, 200), clip(now, 200))
			if direct != nil {
				*direct = append(*direct, fmt.Sprintf("the value returned by %s %s while the other goroutines worked on their documents", v.name, state))
			}
		}
		if s != nil {
			s.add(Item{Name: "held:acc:" + v.name, Kind: "acc", Val: state})
		}
	}
}

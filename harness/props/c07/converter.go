package c07

import (
	"fmt"
	"strings"

	"github.com/zerx-lab/wordZero/pkg/document"
	"github.com/zerx-lab/wordZero/pkg/markdown"
	"pgregory.net/rapid"

	"wzverif/internal/ops"
)

// Documents that come out of ONE markdown.Converter object (what BatchConvert and every caller that keeps a
// converter around do) are distinct documents created one after the other in one process: what a conversion returns
// depends on the text and the options of that call, not on the texts converted before it with the same object.
//
//	mdc S:[text] B:[GFM,tables,tasklist,math,footnotes,TOC] I:[tocMax, entry]
//	    like "md", but the Converter is taken from the pool of the run: one Converter per option set, created on first
//	    use and reused afterwards. entry 0 = ConvertString(text, opts), 1 = ConvertBytes, 2 = ConvertString(text, nil)
//	    (the options the converter was made with).
//
// Who shares a pool: a history executed alone has its own pool (so do the goroutines of the concurrent part - the
// property does not say that one Converter may be used from several goroutines); in the interleaved run ALL
// documents of the case use one pool (I1: the document converted after other documents' texts equals the one
// converted alone). Inside one history the projection (I5) replaces every mdc that made a document outside the
// lineage of the final document by a plain "md" (same text, a converter of its own): the final document must not
// notice that the pool's converter did not see the other texts.

type convPool struct {
	m   map[string]*markdown.Converter
	eng *document.TemplateEngine // engine.go
}

func newConvPool() *convPool { return &convPool{m: map[string]*markdown.Converter{}} }

func bArg(o ops.Op, i int) bool { return i < len(o.B) && o.B[i] }

func mdOptions(o ops.Op) *markdown.ConvertOptions {
	opts := markdown.DefaultOptions()
	opts.EnableGFM = bArg(o, 0)
	opts.EnableTables = bArg(o, 1)
	opts.EnableTaskList = bArg(o, 2)
	opts.EnableMath = bArg(o, 3)
	opts.EnableFootnotes = bArg(o, 4)
	opts.GenerateTOC = bArg(o, 5)
	opts.TOCMaxLevel = iArg(o, 0)
	return opts
}

func (p *convPool) get(o ops.Op) *markdown.Converter {
	key := fmt.Sprintf("%v%v%v%v%v%v/%d", bArg(o, 0), bArg(o, 1), bArg(o, 2), bArg(o, 3), bArg(o, 4), bArg(o, 5), iArg(o, 0))
	c := p.m[key]
	if c == nil {
		c = markdown.NewConverter(mdOptions(o))
		p.m[key] = c
	}
	return c
}

func (r *docRun) doMDC(o ops.Op) (extra string, err error) {
	if r.conv == nil {
		r.conv = newConvPool()
	}
	text := ""
	if len(o.S) > 0 {
		text = o.S[0]
	}
	conv := r.conv.get(o)
	var nd *document.Document
	switch iArg(o, 1) {
	case 1:
		nd, err = conv.ConvertBytes([]byte(text), mdOptions(o))
	case 2:
		nd, err = conv.ConvertString(text, nil)
	default:
		nd, err = conv.ConvertString(text, mdOptions(o))
	}
	if err != nil {
		return "", err
	}
	r.x.ReplaceDoc(nd)
	return "", nil
}

// asPlainMD is the same conversion with a converter of its own.
func asPlainMD(o ops.Op) ops.Op {
	c := copyOp(o)
	c.K = "md"
	if len(c.I) > 1 {
		c.I = c.I[:1]
	}
	return c
}

// ---------------------------------------------------------------------------------------------
// generator

// option presets: converters are shared per option set, so the sets come from a small pool
var mdcPresets = [][]bool{
	{true, true, true, true, true, false},
	{true, true, true, false, true, false},
	{false, false, false, false, false, false},
}

// Texts that define something by name and texts that use a name: link reference definitions, reference-style
// links (full, collapsed, shortcut), footnote definitions and references, equal headings (generated heading ids).
// Every piece is a block of its own (definitions cannot interrupt a paragraph).
var refMDPieces = []string{
	"[spec]: https://example.com/spec \"Specification\"\n\n", "[cl]: <http://example.com/changes>\n\n", "[ref]: /r 'title'\n\n", "[1]: /one\n\n",
	"See the [spec] and the [change log][cl] for details.\n\n", "The [spec] is pending; [cl] means change list, [ref][] too, see [1].\n\n", "plain [ref] and [the text][spec] there\n\n",
	"[spec]\n\n", "- item [cl]\n- other [1]\n\n", "> quoted [ref]\n\n",
	"Text[^1] and[^note] more.\n\n", "[^1]: first note\n\n", "[^note]: second note with [spec]\n\n", "again[^note]\n\n",
	"# Release notes\n\n", "## Release notes\n\n", "# Glossary\n\n",
	"para text **bold** `code`\n\n", "| a | b |\n|---|:-:|\n| [spec] | 2 |\n\n", "$x^2$\n\n", "1. one\n2. two [cl]\n\n",
}

func mdcText(t *rapid.T) string {
	n := rapid.IntRange(1, 6).Draw(t, "mdcn")
	var b strings.Builder
	for i := 0; i < n; i++ {
		b.WriteString(rapid.SampledFrom(refMDPieces).Draw(t, "mdcp"))
	}
	return b.String()
}

// mdcOp draws a conversion with the pool's converter; preset < 0: the option set is drawn as well.
func mdcOp(t *rapid.T, preset int) ops.Op {
	if preset < 0 {
		preset = rapid.IntRange(0, len(mdcPresets)-1).Draw(t, "mdcpreset")
	}
	return ops.Op{K: "mdc", S: []string{mdcText(t)}, B: append([]bool(nil), mdcPresets[preset]...), I: []int{3, rapid.SampledFrom([]int{0, 0, 1, 2}).Draw(t, "mdcentry")}}
}

// withSharedConverter rewrites a drawn history: some of its "md" ops become conversions with the pool's converter
// (the text is kept or replaced by one that defines/uses names).
func withSharedConverter(t *rapid.T, h []ops.Op) {
	for i := range h {
		if h[i].K != "md" || rapid.IntRange(0, 2).Draw(t, "md-pooled") == 0 {
			continue
		}
		if rapid.IntRange(0, 3).Draw(t, "md-keeptext") == 0 {
			// the drawn text and options, only the converter is the shared one
			h[i].K = "mdc"
			if len(h[i].I) > 1 {
				h[i].I = h[i].I[:1]
			}
			h[i].I = append(h[i].I, rapid.SampledFrom([]int{0, 1, 2}).Draw(t, "mdcentry"))
			continue
		}
		h[i] = mdcOp(t, -1)
	}
}

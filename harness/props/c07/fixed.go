package c07

import (
	"os"

	"wzverif/internal/gen"
	"wzverif/internal/ops"
)

func img(name string, pat int) *gen.Img {
	return &gen.Img{Fmt: "png", W: 3, H: 2, Pat: pat, Name: name}
}

// fixedCases are hand-written histories in which every document uses the same per-document machinery
// (images, headers, custom styles, properties, page settings, templates, markdown).
func fixedCases() []Case {
	if os.Getenv("VERIF_C07_NOFIXED") != "" { // sensitivity experiments: generated search only
		return nil
	}
	a := []ops.Op{
		{K: "para", S: []string{"A1"}},
		{K: "customstyle", S: []string{"MineA", "Mine A", "Normal"}, B: []bool{false}},
		{K: "image", Img: img("a.png", 1), I: []int{0, 0, 0, 0}, F: []float64{10, 10}, S: []string{"", "alt", "t"}},
		{K: "header", I: []int{0}, S: []string{"header A"}},
		{K: "props", S: []string{"TA", "SA", "CA", "", "", "", "", "", ""}},
		{K: "image", Img: img("b.png", 2), I: []int{0, 0, 0, 0}, F: []float64{10, 10}, S: []string{"", "alt", "t"}},
		{K: "margins", F: []float64{10, 11, 12, 13}},
		{K: "heading", S: []string{"H"}, I: []int{1}},
		{K: "pstyle", I: []int{0}, S: []string{"MineA"}},
		{K: "footer", I: []int{1}, S: []string{"footer A"}},
	}
	b := []ops.Op{
		{K: "image", Img: img("c.png", 3), I: []int{0, 0, 0, 0}, F: []float64{10, 10}, S: []string{"", "alt", "t"}},
		{K: "customstyle", S: []string{"MineB", "Mine B", ""}, B: []bool{true}},
		{K: "header", I: []int{0}, S: []string{"header B"}},
		{K: "footer", I: []int{0}, S: []string{"footer B"}},
		{K: "orient", B: []bool{true}},
		{K: "table", I: []int{2, 2, 4000}, Grid: [][]string{{"a", "b"}, {"c", "d"}}},
		{K: "cellimg", I: []int{0, 0, 0}, Img: img("d.png", 4), F: []float64{10}},
		{K: "title", S: []string{"TB"}},
		{K: "tpldoc", Data: &ops.Data{Vars: map[string]string{"x": "v"}}},
		{K: "image", Img: img("e.png", 5), I: []int{0, 0, 0, 0}, F: []float64{10, 10}, S: []string{"", "alt", "t"}},
	}
	m := []ops.Op{
		{K: "md", S: []string{"# H1\n\npara **bold**\n\n| a | b |\n|---|---|\n| 1 | 2 |\n"}, B: []bool{true, true, true, true, true, false}, I: []int{3}},
		{K: "header", I: []int{0}, S: []string{"header M"}},
		{K: "image", Img: img("f.png", 6), I: []int{0, 0, 0, 0}, F: []float64{10, 10}, S: []string{"", "alt", "t"}},
		{K: "save"},
		{K: "para", S: []string{"after save"}},
	}
	all := func(n int) []bool {
		y := make([]bool, n)
		for i := range y {
			y[i] = true
		}
		return y
	}
	return []Case{
		{Docs: [][]ops.Op{a, b}, Order: []int{0, 1, 0, 1, 1, 0, 0, 1, 0, 1, 1, 0, 1, 0, 0, 1, 1, 0, 0, 1}, Yield: [][]bool{all(len(a)), all(len(b))}, Procs: 4},
		{Docs: [][]ops.Op{a, b, m, a}, Order: []int{1, 2, 0, 3, 0, 1, 2, 3, 3, 0, 1, 2, 0, 0, 1, 3}, Yield: [][]bool{all(len(a)), all(len(b)), all(len(m)), all(len(a))}, Procs: 2},
	}
}

package c07

import (
	"strings"

	"pgregory.net/rapid"

	"wzverif/internal/ops"
)

// Cold cases. Whatever the library initialises lazily at package level (tables built on first use, caches,
// default objects) is initialised by the first call that needs it. In a long-lived test process that call almost
// always happens in a sequential part (the alone baseline, an earlier case), after which the state is complete and
// read-only: a concurrent first use never occurs. A cold case therefore (a) gives every document THE SAME first
// ops (1-3, drawn once), so that all goroutines enter the same code with the same input at the same time, and (b) runs
// its concurrent part in a fresh process before anything else (child.go).

// the entry points offered as common first op; the document-producing ones (conversion, rendering) carry the most
// package-level machinery and are drawn more often
var coldKinds = []string{"md", "md", "md", "tplstr", "tplstr", "tpldoc", "tpldoc2", "tpldoc", "customstyle", "heading", "listitem", "numbered", "footnote", "endnote",
	"image", "table", "tblstyle", "header", "footerpn", "toc", "mathlatex", "math", "props", "pagesize", "fpara"}

// every construct the converter knows, formulas of several shapes included
var richMDPieces = []string{"# H1\n\n", "## H2 *it*\n\n", "para text **bold** `code` ~~del~~\n\n", "- item\n  - nested\n\n", "1. one\n2. two\n\n", "- [x] done\n- [ ] todo\n\n",
	"> quote\n\n", "```go\ncode\n```\n\n", "| a | b |\n|---|:-:|\n| 1 | 2 |\n\n", "[l](http://x) ![i](nofile.png)\n\n", "---\n\n", "text[^1]\n\n[^1]: note\n\n", "<b>html</b>\n\n",
	"$x^2$ and $a \\neq b$\n\n", "$$\n\\frac{a}{b}\n$$\n\n", "$$\\sum_{i=1}^{n} x_i \\leq \\alpha \\cdot \\beta$$\n\n", "inline $\\sqrt{x} \\times \\infty$ math\n\n", "$\\ne$ $\\neq$ $\\in$ $\\int$\n\n"}

func richMD(t *rapid.T) ops.Op {
	n := rapid.IntRange(4, 12).Draw(t, "rmdn")
	var b strings.Builder
	for i := 0; i < n; i++ {
		b.WriteString(rapid.SampledFrom(richMDPieces).Draw(t, "rmdp"))
	}
	flag := func(l string) bool { return rapid.IntRange(0, 3).Draw(t, l) > 0 }
	// B: [GFM, tables, task list, math, footnotes, generate TOC]  I: [TOC max level]
	return ops.Op{K: "md", S: []string{b.String()}, B: []bool{flag("gfm"), flag("tables"), flag("tasks"), flag("math"), flag("fnotes"), flag("toc")}, I: []int{rapid.IntRange(1, 4).Draw(t, "toclvl")}}
}

// coldOp draws the op every history of a cold case starts with.
func coldOp(t *rapid.T, cfg *ops.Config) ops.Op {
	k := rapid.SampledFrom(coldKinds).Draw(t, "coldk")
	if k == "md" {
		return richMD(t)
	}
	return cfg.OpOf(t, k)
}

// copyOp: the histories must not share mutable data (template data is sanitised in place)
func copyOp(o ops.Op) ops.Op {
	c := o
	c.S = append([]string(nil), o.S...)
	c.I = append([]int(nil), o.I...)
	c.F = append([]float64(nil), o.F...)
	c.B = append([]bool(nil), o.B...)
	c.Cls = append([]string(nil), o.Cls...)
	cp := func(d *ops.Data) *ops.Data {
		if d == nil {
			return nil
		}
		n := &ops.Data{Vars: map[string]string{}, Conds: map[string]bool{}, Lists: map[string][]map[string]string{}, Imgs: d.Imgs}
		for k, v := range d.Vars {
			n.Vars[k] = v
		}
		for k, v := range d.Conds {
			n.Conds[k] = v
		}
		for k, l := range d.Lists {
			for _, it := range l {
				m := map[string]string{}
				for kk, vv := range it {
					m[kk] = vv
				}
				n.Lists[k] = append(n.Lists[k], m)
			}
		}
		return n
	}
	c.Data, c.Data2 = cp(o.Data), cp(o.Data2)
	return c
}

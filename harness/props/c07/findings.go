package c07

import (
	"strconv"
	"strings"

	"wzverif/internal/kit"
)

const (
	kfShared = "KF-C07-shared-registries"
	kfRace   = "KF-C07-registry-race"
)

// field extracts "key=value" from a failure detail.
func field(detail, key string) string {
	i := strings.Index(detail, key+"=")
	if i < 0 {
		return ""
	}
	rest := detail[i+len(key)+1:]
	if j := strings.IndexAny(rest, " :"); j >= 0 {
		rest = rest[:j]
	}
	return rest
}

var findings = []kit.Finding[Case]{
	{
		// D15: globalFootnoteManager / globalNumberingManager are package variables of pkg/document.
		ID: kfShared, Clause: "C07.I",
		Desc: "notes and list definitions live in process-wide registries: footnotes/endnotes/numbering definitions of one document appear in the parts of another, note ids, numIds and GetFootnoteCount/GetEndnoteCount depend on the other documents of the process",
		Trigger: func(c Case, f kit.Failure) bool {
			if f.Clause != "C07.I1" && f.Clause != "C07.I2" {
				return false
			}
			if !strings.HasPrefix(f.Detail, "registry-derived ") {
				return false // only values derived from the registries: the three parts, numId values, note markers, the two counters
			}
			fam := field(f.Detail, "family")
			doc, err := strconv.Atoi(field(f.Detail, "doc"))
			if err != nil || doc < 0 || doc >= len(c.Docs) {
				return false
			}
			if !otherHas(c, doc, fam) {
				return false // no other document of the case put anything of this family into the registry
			}
			if field(f.Detail, "kind") == "count" {
				return true // the counters read the registry even when the document itself has no notes
			}
			return docFams(c.Docs[doc])[fam] // parts and ids are rebuilt from the registry only by the document's own note/list calls
		},
	},
	{
		// D16: the same registries are plain maps written without synchronisation.
		ID: kfRace, Clause: "C07.I3",
		Desc: "the process-wide note/numbering registries are unsynchronised maps: goroutines adding notes or list items to distinct documents race (race detector report; fatal error: concurrent map writes)",
		Trigger: func(c Case, f kit.Failure) bool {
			if !sharedManager(c) {
				return false // fewer than two documents go through the same registry object
			}
			// the report must point into the registry code, a race elsewhere is not this finding
			return strings.Contains(f.Detail, "concurrent map") || strings.Contains(f.Detail, "footnotes.go") || strings.Contains(f.Detail, "numbering.go")
		},
	},
}

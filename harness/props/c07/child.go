package c07

import (
	"context"
	"encoding/json"
	"fmt"
	"os"
	"os/exec"
	"strings"
	"time"

	"wzverif/internal/kit"
)

// Some races between goroutines kill the process ("fatal error: concurrent map writes" cannot be recovered).
// A case with Sub>0 therefore runs its concurrent part in a child process: the test binary re-executes itself
// with childEnv naming the case file. Only hand-written witnesses use this; generated cases never do.
const childEnv = "VERIF_C07_CHILD"

func childMain(path string) int {
	js, err := os.ReadFile(path)
	if err != nil {
		fmt.Fprintln(os.Stderr, "child: cannot read case:", err)
		return 3
	}
	var c Case
	if err := json.Unmarshal(js, &c); err != nil {
		fmt.Fprintln(os.Stderr, "child: cannot decode case:", err)
		return 3
	}
	base := os.Getenv(childEnv + "_DIR")
	reps := c.Sub
	if reps < 1 {
		reps = 1
	}
	deadline := time.Now().Add(3 * time.Second) // the watchdog of the parent allows 20 s per case
	for i := 0; i < reps && time.Now().Before(deadline); i++ {
		runConcurrent(base, c, true)
	}
	return 0
}

func runInChild(res *kit.Result, c Case) {
	res.Eval("C07.I3")
	res.Label("conc:child-process")
	js, _ := json.Marshal(c)
	f, err := os.CreateTemp(kit.Scratch, "c07-child-*.json")
	if err != nil {
		return
	}
	f.Write(js)
	f.Close()
	defer os.Remove(f.Name())
	base, _ := os.MkdirTemp(kit.Scratch, "c07-child-")
	defer os.RemoveAll(base)
	// the context kills a child that exceeds the budget (a slow machine is not a verdict); using the context
	// instead of touching cmd.Process from here keeps the harness itself free of data races
	ctx, cancel := context.WithTimeout(context.Background(), 40*time.Second)
	defer cancel()
	cmd := exec.CommandContext(ctx, os.Args[0])
	env := []string{}
	for _, kv := range os.Environ() {
		if strings.HasPrefix(kv, "GORACE=") || strings.HasPrefix(kv, childEnv+"=") {
			continue
		}
		env = append(env, kv)
	}
	// in the race twin the child is a -race binary as well: first report ends it with status 66
	env = append(env, childEnv+"="+f.Name(), childEnv+"_DIR="+base, "GORACE=halt_on_error=1 exitcode=66", "VERIF_SCRATCH="+kit.Scratch)
	cmd.Env = env
	out, runErr := cmd.CombinedOutput()
	if ctx.Err() != nil {
		res.Count("child-timeouts", 1)
		return
	}
	if runErr == nil {
		return
	}
	text := string(out)
	for _, marker := range []string{"fatal error: concurrent map", "WARNING: DATA RACE"} {
		if i := strings.Index(text, marker); i >= 0 {
			res.Fail("C07.I3", "child process working on %d distinct documents in %d goroutines died (%v): %s", len(c.Docs), len(c.Docs), runErr, clip(text[i:], 1200))
			return
		}
	}
	res.Fail("C07.I3", "child process died without a race marker (%v): %s", runErr, clip(text, 600))
}

package c07

import (
	"context"
	"encoding/json"
	"fmt"
	"os"
	"os/exec"
	"strings"
	"time"

	"wzverif/internal/kit"
)

// Some races between goroutines kill the process ("fatal error: concurrent map writes" cannot be recovered).
// A case with Sub>0 therefore runs its concurrent part in a child process: the test binary re-executes itself
// with childEnv naming the case file. Only hand-written witnesses use this; generated cases never do.
//
// A case with Cold=true (generated, see cold.go) runs its concurrent part in a child process as well, for another
// reason: the child is a FRESH process, nothing of the library has been used in it, so whatever the library
// initialises lazily on first use is initialised while several goroutines work on their documents.
const childEnv = "VERIF_C07_CHILD"

// coldReport is what the child of a cold case writes for its parent (normal binary only; the race twin's child
// speaks through its exit status and the race detector's report).
type coldReport struct {
	Failures []kit.Failure `json:"failures"`
	Evals    int           `json:"evals"`
}

func childMain(path string) int {
	js, err := os.ReadFile(path)
	if err != nil {
		fmt.Fprintln(os.Stderr, "child: cannot read case:", err)
		return 3
	}
	var c Case
	if err := json.Unmarshal(js, &c); err != nil {
		fmt.Fprintln(os.Stderr, "child: cannot decode case:", err)
		return 3
	}
	base := os.Getenv(childEnv + "_DIR")
	if mode := os.Getenv(freshModeEnv); mode != "" {
		return freshChild(c, mode, base, os.Getenv(childEnv+"_OUT")) // fresh.go
	}
	if c.Cold {
		// first of all, before anything else of the library has run in this process
		noStepCounter = true
		cr := runConcurrent(base, c, true)
		noStepCounter = false
		if out := os.Getenv(childEnv + "_OUT"); out != "" {
			res := &kit.Result{}
			for d := range c.Docs {
				res.Eval("C07.I2")
				for _, x := range cr.save[d] {
					res.Fail("C07.I2", "doc=%d item=save-into-shared-directory: %s", d, x)
				}
				if kit.RaceMode() || cr.snaps[d] == nil {
					continue
				}
				// the reference is built afterwards: the process is warm by then, which is what the reference is meant to be
				alone, _ := runAlone(base, d, c.Docs[d], true)
				judge(res, "C07.I2", d, alone, cr.snaps[d])
				for _, x := range cr.i4[d] {
					res.Fail("C07.I4", "doc=%d (own goroutine): %s", d, x)
				}
			}
			rep, _ := json.Marshal(coldReport{Failures: res.Failures, Evals: len(c.Docs)})
			os.WriteFile(out, rep, 0o644)
		}
	}
	reps := c.Sub
	deadline := time.Now().Add(3 * time.Second) // the watchdog of the parent allows for it
	for i := 0; i < reps && time.Now().Before(deadline); i++ {
		runConcurrent(base, c, true)
	}
	return 0
}

// spawnChild re-executes the test binary on the case. It returns the combined output, the error of the process
// (nil = exit status 0) and whether the budget ran out (a slow machine is not a verdict).
func spawnChild(c Case, base, out string, budget time.Duration) (text string, runErr error, timedOut bool) {
	js, _ := json.Marshal(c)
	f, err := os.CreateTemp(kit.Scratch, "c07-child-*.json")
	if err != nil {
		return "", nil, true
	}
	f.Write(js)
	f.Close()
	defer os.Remove(f.Name())
	// the context kills a child that exceeds the budget; using the context instead of touching cmd.Process from
	// here keeps the harness itself free of data races
	ctx, cancel := context.WithTimeout(context.Background(), budget)
	defer cancel()
	cmd := exec.CommandContext(ctx, os.Args[0])
	env := []string{}
	for _, kv := range os.Environ() {
		if strings.HasPrefix(kv, "GORACE=") || strings.HasPrefix(kv, childEnv) {
			continue
		}
		env = append(env, kv)
	}
	// in the race twin the child is a -race binary as well: first report ends it with status 66
	env = append(env, childEnv+"="+f.Name(), childEnv+"_DIR="+base, "GORACE=halt_on_error=1 exitcode=66 atexit_sleep_ms=0", "VERIF_SCRATCH="+kit.Scratch)
	if out != "" {
		env = append(env, childEnv+"_OUT="+out)
	}
	cmd.Env = env
	b, runErr := cmd.CombinedOutput()
	if ctx.Err() != nil {
		return string(b), runErr, true
	}
	return string(b), runErr, false
}

var raceMarkers = []string{"fatal error: concurrent map", "WARNING: DATA RACE"}

func runInChild(res *kit.Result, c Case) {
	res.Eval("C07.I3")
	res.Label("conc:child-process")
	base, _ := os.MkdirTemp(kit.Scratch, "c07-child-")
	defer os.RemoveAll(base)
	text, runErr, timedOut := spawnChild(c, base, "", 40*time.Second)
	if timedOut {
		res.Count("child-timeouts", 1)
		return
	}
	if runErr == nil {
		return
	}
	for _, marker := range raceMarkers {
		if i := strings.Index(text, marker); i >= 0 {
			res.Fail("C07.I3", "child process working on %d distinct documents in %d goroutines died (%v): %s", len(c.Docs), len(c.Docs), runErr, clip(text[i:], 1200))
			return
		}
	}
	res.Fail("C07.I3", "child process died without a race marker (%v): %s", runErr, clip(text, 600))
}

// runCold executes the concurrent part of the case in a fresh process. Race twin: a race-detector report (or a
// fatal error of the runtime) of the child is an I3 failure. Normal binary: the child compares what the
// goroutines obtained with the same histories executed alone afterwards and reports the differences (I2).
func runCold(res *kit.Result, c Case) {
	res.Label("conc:cold-start")
	base, _ := os.MkdirTemp(kit.Scratch, "c07-cold-")
	defer os.RemoveAll(base)
	out := ""
	if !kit.RaceMode() {
		out = base + ".report.json"
		defer os.Remove(out)
	}
	cc := c
	cc.Sub, cc.Reps = 0, 0
	text, runErr, timedOut := spawnChild(cc, base, out, 15*time.Second)
	if timedOut {
		res.Count("child-timeouts", 1)
		return
	}
	if kit.RaceMode() {
		res.Eval("C07.I3")
	}
	if runErr != nil {
		for _, marker := range raceMarkers {
			if i := strings.Index(text, marker); i >= 0 {
				res.Fail("C07.I3", "cold start: a fresh process in which %d goroutines worked on distinct documents from its first library call on died (%v): %s", len(c.Docs), runErr, clip(text[i:], 1200))
				return
			}
		}
		res.Fail("C07.I3", "cold start: the fresh process died without a race marker (%v): %s", runErr, clip(text, 600))
		return
	}
	if out == "" {
		return
	}
	js, err := os.ReadFile(out)
	if err != nil {
		res.Count("child-noreport", 1)
		return
	}
	var rep coldReport
	if json.Unmarshal(js, &rep) != nil {
		res.Count("child-noreport", 1)
		return
	}
	for i := 0; i < rep.Evals; i++ {
		res.Eval("C07.I2")
	}
	for _, f := range rep.Failures {
		res.Fail(f.Clause, "cold start (first library calls of a fresh process made by %d goroutines at once): %s", len(c.Docs), f.Detail)
	}
}

package c07

import (
	"strings"

	"github.com/zerx-lab/wordZero/pkg/document"

	"wzverif/internal/ops"
)

// I5: projection of a history on the lineage of its final document.
//
// A history works on a family of documents: conversions and renders replace the current document, swap goes back
// to one that was set aside. The final document F descends from a chain of documents (F, the document F was
// rendered from or reopened from, ...). By the property, what F saves and reports depends only on the calls made on
// F and, for every ancestor, on the calls made on it BEFORE the descendant was derived from it. Every other edit of
// the history (edits of siblings, of unrelated documents, of an ancestor after the derivation) is a call on another
// document: removing those edits must leave F as it is.
//
// The ops that create or select documents (conversion, render, reopen, swap) are kept in any case, so that the
// family has the same shape and the selectors of the swaps mean the same documents in both runs.
//
// Conversions with the run's shared converter (mdc, converter.go) that made a document OUTSIDE the lineage are calls
// that create another document: they are kept as conversions, but with a converter of their own (plain "md"), so
// that in the projection the shared converter has seen only the texts of the lineage.

// derivingKinds: the new document is made from the current one
var derivingKinds = map[string]bool{"tpldoc": true, "tpldoc2": true, "reopen": true, "tpldc": true}

// navKinds are never removed by the projection
var navKinds = map[string]bool{"tpldoc": true, "tpldoc2": true, "reopen": true, "tplstr": true, "md": true, "swap": true, "openforeign": true, "mdc": true, "tplc": true, "tpldc": true}

type birth struct {
	parent *document.Document // nil: made from nothing (New, conversion, string template)
	at     int                // index of the op that made it (-1: the initial document)
}

// noteBirths records the documents that appeared with op i (kind k) whose current document was target.
func (r *docRun) noteBirths(i int, k string, target *document.Document) {
	if r.x == nil {
		return
	}
	if r.born == nil {
		r.born = map[*document.Document]birth{}
	}
	reg := func(d *document.Document) {
		if d == nil {
			return
		}
		if _, ok := r.born[d]; ok {
			return
		}
		b := birth{at: i}
		if derivingKinds[k] {
			b.parent = target
		}
		r.born[d] = b
	}
	reg(r.x.Doc)
	for _, sd := range r.x.Side {
		reg(sd)
	}
}

// projection returns the history without the edits of documents outside the lineage of the final document
// (nil if there is nothing to remove or the history did not run to its end).
func (r *docRun) projection(history []ops.Op) []ops.Op {
	if r.x == nil || r.dead || len(r.targets) != len(history) {
		return nil
	}
	type link struct {
		doc   *document.Document
		limit int // edits of doc with an index below limit count
	}
	var chain []link
	cur, limit := r.x.Doc, len(history)
	for n := 0; cur != nil && n < 64; n++ {
		chain = append(chain, link{cur, limit})
		b, ok := r.born[cur]
		if !ok {
			break
		}
		cur, limit = b.parent, b.at
	}
	made := map[int]bool{} // ops that made a document of the lineage
	for _, l := range chain {
		if b, ok := r.born[l.doc]; ok {
			made[b.at] = true
		}
	}
	var out []ops.Op
	changed := false
	for j, o := range history {
		keep := navKinds[o.K]
		for _, l := range chain {
			if r.targets[j] == l.doc && j < l.limit {
				keep = true
			}
		}
		if keep {
			if o.K == "mdc" && !made[j] {
				o = asPlainMD(o)
				changed = true
			}
			if (o.K == "tplc" || o.K == "tpldc") && !made[j] {
				o = asOwnEngine(o) // engine.go
				changed = true
			}
			if isPooledFail(o) {
				o = asOwnFail(o) // a failed call on the pooled engine made no document of the lineage (ondemand.go)
				changed = true
			}
			out = append(out, o)
		}
	}
	if len(out) == len(history) && !changed {
		return nil
	}
	return out
}

// finalItems: what the projection compares, the final document's own bytes and accessor results.
func finalItems(s *Snap) *Snap {
	out := &Snap{}
	for _, it := range s.Items {
		if strings.HasPrefix(it.Name, "part:") || strings.HasPrefix(it.Name, "acc:") || it.Name == "ToBytes" || it.Name == "zip" {
			out.add(it)
		}
	}
	return out
}

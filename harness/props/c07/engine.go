package c07

import (
	"bytes"
	"fmt"
	"io"
	"path/filepath"

	"github.com/zerx-lab/wordZero/pkg/document"
	"pgregory.net/rapid"

	"wzverif/internal/ops"
)

// Documents that come out of ONE TemplateEngine object are distinct documents just as the documents that come out
// of one Converter (converter.go): what a render returns depends on the template and the data of that call, not
// on what the engine loaded and rendered before for other documents.
//
//	tplc  S:[source, name] Data   LoadTemplate(name, source) + RenderToDocument(name, data) with the engine of the run's pool
//	tpldc S:["", name] Data       LoadTemplateFromDocument(name, current document) + RenderTemplateToDocument(name, data), same engine
//
// Every op loads the template it renders in the same step, under a name from a small pool, so that the engines'
// template tables are overwritten again and again by the documents of the case; no op ever renders a template that
// another op loaded. The names never occur as the target of an {{extends}} in generated sources.
// Who shares a pool: as for the converters (alone: own pool; interleaved: one pool for all documents of the case;
// concurrent: one pool per goroutine). The projection (I5) turns the ops that made a document outside the lineage
// into tplstr / tpldoc (an engine of their own).
var engineNames = []string{"t", "t", "main", "T", "report"}

func (p *convPool) engine() *document.TemplateEngine {
	if p.eng == nil {
		p.eng = document.NewTemplateEngine()
	}
	return p.eng
}

func (r *docRun) doTplPooled(o ops.Op) (extra string, err error) {
	if r.conv == nil {
		r.conv = newConvPool()
	}
	te := r.conv.engine()
	name := "t"
	if len(o.S) > 1 && o.S[1] != "" {
		name = o.S[1]
	}
	// the engine serves other documents as well: a call that does not come back is an outcome (ondemand.go)
	type out struct {
		nd  *document.Document
		err error
	}
	cur, data := r.x.Doc, o.Data.TD()
	src := ""
	if len(o.S) > 0 {
		src = o.S[0]
	}
	res, back := returns(func() out {
		if o.K == "tpldc" {
			if _, err := te.LoadTemplateFromDocument(name, cur); err != nil {
				return out{nil, err}
			}
			nd, err := te.RenderTemplateToDocument(name, data)
			return out{nd, err}
		}
		if _, err := te.LoadTemplate(name, src); err != nil {
			return out{nil, err}
		}
		nd, err := te.RenderToDocument(name, data)
		return out{nd, err}
	})
	if !back {
		return "", errHang
	}
	nd, err := res.nd, res.err
	if err != nil {
		return "", err
	}
	r.x.ReplaceDoc(nd)
	return "", nil
}

// asOwnEngine is the same render with an engine of its own.
func asOwnEngine(o ops.Op) ops.Op {
	c := copyOp(o)
	if o.K == "tpldc" {
		c.K, c.S = "tpldoc", nil
	} else {
		c.K = "tplstr"
		if len(c.S) > 1 {
			c.S = c.S[:1]
		}
	}
	return c
}

// withSharedEngine rewrites a drawn history: every second tplstr / tpldoc uses the pool's engine.
func withSharedEngine(t *rapid.T, h []ops.Op) {
	for i := range h {
		if (h[i].K != "tplstr" && h[i].K != "tpldoc") || !rapid.Bool().Draw(t, "tpl-pooled") {
			continue
		}
		name := rapid.SampledFrom(engineNames).Draw(t, "tplname")
		if h[i].K == "tpldoc" {
			h[i].K, h[i].S = "tpldc", []string{"", name}
		} else {
			src := ""
			if len(h[i].S) > 0 {
				src = h[i].S[0]
			}
			h[i].K, h[i].S = "tplc", []string{src, name}
		}
	}
}

// ---------------------------------------------------------------------------------------------
// calls that fail
//
//	failcall I:[which]   a call that returns an error and, by its contract, leaves the current document as it is:
//	                     0 OpenFromMemory(bytes that are no package)   1 Open(a path that does not exist)
//	                     2 current.Save(a path below a regular file)    3 current.AddImageFromFile(a path that does not exist)
//	                     4 RenderToDocument of a template name the (own) engine does not know
//	                     5 LoadTemplate of a source with unbalanced block statements
//	                     6 RenderTemplateToDocument / 7 RenderToDocument of a name the run's POOLED engine does not know,
//	                     8 GetTemplate of such a name on the pooled engine
//
// What an error path leaves behind in package-level state (a half-registered entry, a remembered "last" object)
// would show in the OTHER documents of the case. The error text is part of the op's outcome.
const nFailCalls = 9

func (r *docRun) doFailCall(o ops.Op) (extra string, err error) {
	x := r.x
	var e error
	switch ops.In(iArg(o, 0), nFailCalls) {
	case 0:
		_, e = document.OpenFromMemory(io.NopCloser(bytes.NewReader([]byte("PK\x03\x04 this is not a package"))))
	case 1:
		_, e = document.Open(filepath.Join(x.Dir, "no-such-dir", "missing.docx"))
	case 2:
		e = x.Doc.Save(filepath.Join("/dev/null", "sub", "out.docx"))
	case 3:
		_, e = x.Doc.AddImageFromFile(filepath.Join(x.Dir, "no-such-dir", "missing.png"), nil)
	case 4:
		_, e = document.NewTemplateEngine().RenderToDocument("never-loaded", document.NewTemplateData())
	case 5:
		_, e = document.NewTemplateEngine().LoadTemplate("t", "{{#if a}}{{#each l}}{{/if}}")
	case 6, 7, 8:
		// the same failures on the engine that serves the other documents of the run
		if r.conv == nil {
			r.conv = newConvPool()
		}
		te := r.conv.engine()
		which := ops.In(iArg(o, 0), nFailCalls)
		var back bool
		e, back = returns(func() error {
			var err error
			switch which {
			case 6:
				_, err = te.RenderTemplateToDocument("never-loaded", document.NewTemplateData())
			case 7:
				_, err = te.RenderToDocument("never-loaded", document.NewTemplateData())
			default:
				_, err = te.GetTemplate("never-loaded")
			}
			return err
		})
		if !back {
			return "", errHang
		}
	}
	// the text of an error may carry a path below the scratch directory of the run: only its presence is recorded
	return fmt.Sprintf("failed=%v", e != nil), nil
}

func failCallOp(t *rapid.T) ops.Op {
	return ops.Op{K: "failcall", I: []int{rapid.IntRange(0, nFailCalls-1).Draw(t, "failwhich")}}
}

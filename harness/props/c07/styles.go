package c07

import (
	"archive/zip"
	"bytes"
	"fmt"
	"io"
	"strings"

	"github.com/zerx-lab/wordZero/pkg/document"
	"github.com/zerx-lab/wordZero/pkg/style"
	"pgregory.net/rapid"

	"wzverif/internal/ops"
)

// Documents derived from a base that was OPENED from a package with its own styles part, and edits made through
// the style manager of ONE member of such a family.
//
// An opened document keeps what it read (the style definitions of the file, their unknown children, docDefaults,
// latentStyles) next to the state it builds for itself; a document rendered from it inherits both. Whatever the
// library keeps about "the file as it was opened" is state a careless implementation shares between the base and
// its renders, and SAVING is a call that may write such state. The op kinds below let a history
//
//	openforeign I:[variant]       continue with a document opened from a package written by another producer
//	                              (styles.xml with docDefaults / latentStyles / w:uiPriority, w:qFormat ...; the body
//	                              uses the styles and carries template placeholders); the current document is set aside
//	restyle     S:[id] I:[what,mode]  GetStyle(id), change one aspect (run properties, paragraph properties, name,
//	                              basedOn/next), mode 0 = in place on the returned object, 1 = copy + AddStyle
//	rmstyle     S:[id]            RemoveStyle(id)
//
// CreateCustomStyle is the shared op "customstyle", here with ids drawn from styleIDPool (ids the file defines, ids
// the library predefines, new ids) so that two members of a family can define the same id.

var styleIDPool = []string{"Heading1", "Heading1", "Heading2", "Normal", "Quote", "Mine", "TableGrid", "Title", "Fresh", "Heading3"}

const wNS = `xmlns:w="http://schemas.openxmlformats.org/wordprocessingml/2006/main"`

// foreignPackage builds a small package the way another producer writes it. The variant bits select
// 1: docDefaults and latentStyles, 2: a table with a table style, 4: custom styles "Quote" and "Mine", 8: Heading2.
func foreignPackage(variant int) []byte {
	var st, body strings.Builder
	st.WriteString(`<?xml version="1.0" encoding="UTF-8" standalone="yes"?>` + "\n" + `<w:styles ` + wNS + `>`)
	if variant&1 != 0 {
		st.WriteString(`<w:docDefaults><w:rPrDefault><w:rPr><w:rFonts w:ascii="Cambria" w:hAnsi="Cambria"/><w:sz w:val="22"/><w:lang w:val="en-US"/></w:rPr></w:rPrDefault><w:pPrDefault><w:pPr><w:spacing w:after="200" w:line="276" w:lineRule="auto"/></w:pPr></w:pPrDefault></w:docDefaults>`)
		st.WriteString(`<w:latentStyles w:defLockedState="0" w:defUIPriority="99" w:defSemiHidden="1" w:count="2"><w:lsdException w:name="Normal" w:semiHidden="0" w:uiPriority="0" w:qFormat="1"/><w:lsdException w:name="heading 1" w:semiHidden="0" w:uiPriority="9" w:qFormat="1"/></w:latentStyles>`)
	}
	st.WriteString(`<w:style w:type="paragraph" w:default="1" w:styleId="Normal"><w:name w:val="Normal"/><w:qFormat/></w:style>`)
	st.WriteString(`<w:style w:type="paragraph" w:styleId="Heading1"><w:name w:val="heading 1"/><w:basedOn w:val="Normal"/><w:next w:val="Normal"/><w:link w:val="Heading1Char"/><w:uiPriority w:val="9"/><w:qFormat/><w:rsid w:val="00A1B2C3"/><w:pPr><w:keepNext/><w:spacing w:before="480" w:after="0"/><w:outlineLvl w:val="0"/></w:pPr><w:rPr><w:rFonts w:asciiTheme="majorHAnsi"/><w:b/><w:bCs/><w:color w:val="345A8A"/><w:sz w:val="32"/><w:szCs w:val="32"/></w:rPr></w:style>`)
	st.WriteString(`<w:style w:type="character" w:default="1" w:styleId="DefaultParagraphFont"><w:name w:val="Default Paragraph Font"/><w:uiPriority w:val="1"/><w:semiHidden/><w:unhideWhenUsed/></w:style>`)
	body.WriteString(`<w:p><w:pPr><w:pStyle w:val="Heading1"/></w:pPr><w:r><w:t>Report for {{x}}</w:t></w:r></w:p>`)
	body.WriteString(`<w:p><w:r><w:t xml:space="preserve">Dear {{name}}, see {{title}} below. </w:t></w:r><w:r><w:rPr><w:b/></w:rPr><w:t>{{#if a}}yes{{else}}no{{/if}}</w:t></w:r></w:p>`)
	if variant&8 != 0 {
		st.WriteString(`<w:style w:type="paragraph" w:styleId="Heading2"><w:name w:val="heading 2"/><w:basedOn w:val="Normal"/><w:next w:val="Normal"/><w:uiPriority w:val="9"/><w:unhideWhenUsed/><w:qFormat/><w:pPr><w:keepNext/><w:keepLines/><w:spacing w:before="200" w:after="0"/><w:outlineLvl w:val="1"/></w:pPr><w:rPr><w:b/><w:bCs/><w:color w:val="4F81BD"/><w:sz w:val="26"/></w:rPr></w:style>`)
		body.WriteString(`<w:p><w:pPr><w:pStyle w:val="Heading2"/></w:pPr><w:r><w:t>Details {{v1}}</w:t></w:r></w:p>`)
	}
	if variant&4 != 0 {
		st.WriteString(`<w:style w:type="paragraph" w:customStyle="1" w:styleId="Quote"><w:name w:val="Quote"/><w:basedOn w:val="Normal"/><w:uiPriority w:val="29"/><w:qFormat/><w:pPr><w:ind w:left="720" w:right="720"/></w:pPr><w:rPr><w:i/><w:iCs/><w:color w:val="404040" w:themeColor="text1" w:themeTint="BF"/></w:rPr></w:style>`)
		st.WriteString(`<w:style w:type="character" w:customStyle="1" w:styleId="Mine"><w:name w:val="Mine"/><w:uiPriority w:val="99"/><w:rPr><w:smallCaps/><w:spacing w:val="20"/></w:rPr></w:style>`)
		body.WriteString(`<w:p><w:pPr><w:pStyle w:val="Quote"/></w:pPr><w:r><w:rPr><w:rStyle w:val="Mine"/></w:rPr><w:t>quoted {{x}}</w:t></w:r></w:p>`)
	}
	if variant&2 != 0 {
		st.WriteString(`<w:style w:type="table" w:default="1" w:styleId="TableNormal"><w:name w:val="Normal Table"/><w:uiPriority w:val="99"/><w:semiHidden/><w:tblPr><w:tblInd w:w="0" w:type="dxa"/><w:tblCellMar><w:top w:w="0" w:type="dxa"/><w:left w:w="108" w:type="dxa"/><w:bottom w:w="0" w:type="dxa"/><w:right w:w="108" w:type="dxa"/></w:tblCellMar></w:tblPr></w:style>`)
		st.WriteString(`<w:style w:type="table" w:styleId="TableGrid"><w:name w:val="Table Grid"/><w:basedOn w:val="TableNormal"/><w:uiPriority w:val="59"/><w:tblPr><w:tblBorders><w:top w:val="single" w:sz="4" w:space="0" w:color="auto"/><w:left w:val="single" w:sz="4" w:space="0" w:color="auto"/><w:bottom w:val="single" w:sz="4" w:space="0" w:color="auto"/><w:right w:val="single" w:sz="4" w:space="0" w:color="auto"/><w:insideH w:val="single" w:sz="4" w:space="0" w:color="auto"/><w:insideV w:val="single" w:sz="4" w:space="0" w:color="auto"/></w:tblBorders></w:tblPr></w:style>`)
		body.WriteString(`<w:tbl><w:tblPr><w:tblStyle w:val="TableGrid"/><w:tblW w:w="0" w:type="auto"/></w:tblPr><w:tblGrid><w:gridCol w:w="4000"/><w:gridCol w:w="4000"/></w:tblGrid><w:tr><w:tc><w:tcPr><w:tcW w:w="4000" w:type="dxa"/></w:tcPr><w:p><w:r><w:t>{{a}}</w:t></w:r></w:p></w:tc><w:tc><w:tcPr><w:tcW w:w="4000" w:type="dxa"/></w:tcPr><w:p><w:r><w:t>cell</w:t></w:r></w:p></w:tc></w:tr></w:tbl>`)
	}
	st.WriteString(`</w:styles>`)
	body.WriteString(`<w:sectPr><w:pgSz w:w="11906" w:h="16838"/><w:pgMar w:top="1440" w:right="1800" w:bottom="1440" w:left="1800" w:header="851" w:footer="992" w:gutter="0"/></w:sectPr>`)
	files := []struct{ name, body string }{
		{"[Content_Types].xml", `<?xml version="1.0" encoding="UTF-8" standalone="yes"?>` + "\n" + `<Types xmlns="http://schemas.openxmlformats.org/package/2006/content-types"><Default Extension="rels" ContentType="application/vnd.openxmlformats-package.relationships+xml"/><Default Extension="xml" ContentType="application/xml"/><Override PartName="/word/document.xml" ContentType="application/vnd.openxmlformats-officedocument.wordprocessingml.document.main+xml"/><Override PartName="/word/styles.xml" ContentType="application/vnd.openxmlformats-officedocument.wordprocessingml.styles+xml"/></Types>`},
		{"_rels/.rels", `<?xml version="1.0" encoding="UTF-8" standalone="yes"?>` + "\n" + `<Relationships xmlns="http://schemas.openxmlformats.org/package/2006/relationships"><Relationship Id="rId1" Type="http://schemas.openxmlformats.org/officeDocument/2006/relationships/officeDocument" Target="word/document.xml"/></Relationships>`},
		{"word/_rels/document.xml.rels", `<?xml version="1.0" encoding="UTF-8" standalone="yes"?>` + "\n" + `<Relationships xmlns="http://schemas.openxmlformats.org/package/2006/relationships"><Relationship Id="rId1" Type="http://schemas.openxmlformats.org/officeDocument/2006/relationships/styles" Target="styles.xml"/></Relationships>`},
		{"word/document.xml", `<?xml version="1.0" encoding="UTF-8" standalone="yes"?>` + "\n" + `<w:document ` + wNS + `><w:body>` + body.String() + `</w:body></w:document>`},
		{"word/styles.xml", st.String()},
	}
	var buf bytes.Buffer
	zw := zip.NewWriter(&buf)
	for _, f := range files {
		w, err := zw.Create(f.name)
		if err != nil {
			panic(err)
		}
		w.Write([]byte(f.body))
	}
	zw.Close()
	return buf.Bytes()
}

var styleKinds = map[string]bool{"openforeign": true, "restyle": true, "rmstyle": true}

func iArg(o ops.Op, i int) int {
	if i < len(o.I) {
		return o.I[i]
	}
	return 0
}

// doStyleOp executes one of the op kinds above on the current document of the history.
func (r *docRun) doStyleOp(o ops.Op) (extra string, err error) {
	x := r.x
	d := x.Doc
	switch o.K {
	case "openforeign":
		nd, err := document.OpenFromMemory(io.NopCloser(bytes.NewReader(foreignPackage(iArg(o, 0)))))
		if err != nil {
			return "", fmt.Errorf("open of the foreign package failed: %w", err)
		}
		x.ReplaceDoc(nd)
		return "", nil
	case "rmstyle":
		sm := d.GetStyleManager()
		if sm == nil || len(o.S) == 0 {
			return "none", nil
		}
		sm.RemoveStyle(o.S[0])
		return "", nil
	case "restyle":
		sm := d.GetStyleManager()
		if sm == nil || len(o.S) == 0 {
			return "none", nil
		}
		st := sm.GetStyle(o.S[0])
		if st == nil {
			return "none", nil
		}
		target := st
		if iArg(o, 1) == 1 {
			cp := *st
			target = &cp
		}
		switch ops.In(iArg(o, 0), 4) {
		case 0:
			target.RunPr = &style.RunProperties{Bold: &style.Bold{}, Color: &style.Color{Val: "C00000"}, FontSize: &style.FontSize{Val: "40"}}
		case 1:
			target.ParagraphPr = &style.ParagraphProperties{Spacing: &style.Spacing{Before: "120", After: "60"}, Justification: &style.Justification{Val: "center"}}
		case 2:
			target.Name = &style.StyleName{Val: "Renamed " + o.S[0]}
		case 3:
			target.BasedOn = nil
			target.Next = &style.Next{Val: "Normal"}
			target.RunPr = &style.RunProperties{Italic: &style.Italic{}}
		}
		if target != st {
			sm.AddStyle(target)
		}
		return "found", nil
	}
	panic("c07: unknown style op kind " + o.K)
}

// ---------------------------------------------------------------------------------------------
// generator

func styleOp(t *rapid.T, kind string) ops.Op {
	o := ops.Op{K: kind}
	switch kind {
	case "openforeign":
		o.I = []int{rapid.IntRange(0, 15).Draw(t, "foreignvar")}
	case "restyle":
		o.S = []string{rapid.SampledFrom(styleIDPool).Draw(t, "styleid")}
		o.I = []int{rapid.IntRange(0, 3).Draw(t, "restylewhat"), rapid.IntRange(0, 1).Draw(t, "restylemode")}
	case "rmstyle":
		o.S = []string{rapid.SampledFrom(styleIDPool).Draw(t, "styleid")}
	case "customstyle": // CreateCustomStyle with an id of the pool
		id := rapid.SampledFrom(styleIDPool).Draw(t, "styleid")
		o.S = []string{id, rapid.SampledFrom([]string{"My " + id, id, "heading 1"}).Draw(t, "stylename"), rapid.SampledFrom([]string{"", "Normal", "Heading1", "nope"}).Draw(t, "based")}
		o.B = []bool{rapid.IntRange(0, 3).Draw(t, "charstyle") == 0}
	case "heading": // heading levels that several members of a family are likely to use both
		o.S = []string{rapid.SampledFrom([]string{"Heading", "Section {{x}}", "标题"}).Draw(t, "headingtext")}
		o.I = []int{rapid.SampledFrom([]int{1, 2, 3, 3}).Draw(t, "headinglvl")}
	case "pstyle": // a paragraph starts to refer to a style of the pool
		o.I = []int{rapid.IntRange(0, 50).Draw(t, "sel")}
		o.S = []string{rapid.SampledFrom(styleIDPool).Draw(t, "styleid")}
	}
	return o
}

package c07

import (
	"bytes"
	"fmt"
	"regexp"
	"sort"
	"strings"

	"github.com/zerx-lab/wordZero/pkg/document"

	"wzverif/internal/canon"
	"wzverif/internal/kit"
	"wzverif/internal/opc"
	"wzverif/internal/ops"
)

// Registry families: data derived from the process-wide note / numbering registries.
const (
	famFootnote = "footnote"
	famEndnote  = "endnote"
	famList     = "list"
)

// Item is one observed value of a document: a part, a list extracted from a part, or an accessor result.
type Item struct {
	Name string
	Fam  string // "" = per-document data; else the registry family the value is derived from
	Kind string // part | list | count | acc | outcome
	Tree *canon.Node
	Raw  []byte // part payload
	Val  string // list / accessor / outcome values

	xml, main, parsed bool
	nums, fn, en      []string // registry-derived values moved out of the main part's tree
}

// Snap is everything the property lets a caller observe of one document.
type Snap struct {
	Items []Item
	index map[string]int
	raw   []byte // the slice the final ToBytes returned (retain.go keeps it to look at it again later)
}

func (s *Snap) add(it Item) {
	if s.index == nil {
		s.index = map[string]int{}
	}
	s.index[it.Name] = len(s.Items)
	s.Items = append(s.Items, it)
}

const (
	nsCT   = "http://schemas.openxmlformats.org/package/2006/content-types"
	nsRel  = "http://schemas.openxmlformats.org/package/2006/relationships"
	nsDCT  = "http://purl.org/dc/terms/"
	partFN = "word/footnotes.xml"
	partEN = "word/endnotes.xml"
	partNU = "word/numbering.xml"
)

// The library writes these lists in map-iteration order; their order carries no meaning.
var diffOpts = &canon.Options{
	Unordered: map[string]bool{
		"w:numbering": true, "w:footnotes": true, "w:endnotes": true, "w:styles": true,
		"{" + nsCT + "}:Types": true, "{" + nsRel + "}:Relationships": true,
	},
	// wall-clock values: dcterms:created / dcterms:modified
	Skip: func(n *canon.Node) bool {
		return n.Space == nsDCT && (n.Local == "created" || n.Local == "modified")
	},
}

var (
	// not anchored: template rendering merges the marker run into the text of its paragraph
	fnMarker = regexp.MustCompile(`\[\d+\]`)
	enMarker = regexp.MustCompile(`\[尾注\d+\]`)
)

func famOfPart(name string) string {
	switch name {
	case partFN:
		return famFootnote
	case partEN:
		return famEndnote
	case partNU:
		return famList
	}
	return ""
}

// splitRegistry moves the registry-derived values of the main part (w:numId values, the "[n]" and "[尾注n]"
// marker runs written by AddFootnote / AddEndnote) out of the tree into three lists, so that they are compared
// as items of their own. Nothing is dropped: tree + lists carry the same information as the original tree.
func splitRegistry(root *canon.Node) (numIDs, fn, en []string) {
	root.Walk(func(n *canon.Node) bool {
		if n.Space != canon.W {
			return true
		}
		switch n.Local {
		case "numId":
			for i := range n.Attrs {
				if n.Attrs[i].Space == canon.W && n.Attrs[i].Local == "val" {
					numIDs = append(numIDs, n.Attrs[i].Value)
					n.Attrs[i].Value = "#"
				}
			}
		case "t":
			if len(n.Kids) == 0 && strings.Contains(n.Text, "[") {
				n.Text = fnMarker.ReplaceAllStringFunc(n.Text, func(m string) string { fn = append(fn, m); return "[#]" })
				n.Text = enMarker.ReplaceAllStringFunc(n.Text, func(m string) string { en = append(en, m); return "[尾注#]" })
			}
		}
		return true
	})
	return
}

func (s *Snap) addPackage(prefix string, b []byte) {
	pkg, err := opc.Read(b)
	if err != nil {
		s.add(Item{Name: prefix + "zip", Kind: "part", Raw: b, Val: "unreadable: " + err.Error()})
		return
	}
	for _, name := range pkg.SortedNames() {
		s.add(Item{Name: prefix + "part:" + name, Kind: "part", Fam: famOfPart(name), Raw: pkg.Parts[name], xml: pkg.IsXMLPart(name), main: name == "word/document.xml"})
	}
}

// tree parses an XML part on first use (most parts are byte-identical between two builds and are never parsed).
func (it *Item) tree() *canon.Node {
	if !it.parsed {
		it.parsed = true
		if it.xml {
			if t, err := canon.Parse(it.Raw); err == nil {
				it.Tree = t
				if it.main {
					it.nums, it.fn, it.en = splitRegistry(t)
				}
			}
		}
	}
	return it.Tree
}

// chunks splits the output of xml.MarshalIndent into head + the direct children of the root (lines starting with
// exactly two blanks and '<' open a direct child; '<' never occurs raw in character data). Used only as a fast path:
// equal head and equal multisets of chunks mean the parts are equal up to the order of the root's children.
func chunks(raw []byte) (head string, kids []string) {
	var hb strings.Builder
	cur := -1
	for _, l := range strings.SplitAfter(string(raw), "\n") {
		switch {
		case len(l) > 3 && l[0] == ' ' && l[1] == ' ' && l[2] == '<' && l[3] != '/': // a direct child of the root opens
			kids = append(kids, l)
			cur = len(kids) - 1
		case cur < 0 || (len(l) > 0 && l[0] == '<'): // XML declaration, root start tag, root end tag
			hb.WriteString(l)
			cur = -1
		default:
			kids[cur] += l
		}
	}
	sort.Strings(kids)
	return hb.String(), kids
}

var unorderedPart = map[string]bool{"word/styles.xml": true, partNU: true, partFN: true, partEN: true}

func sameUpToRootOrder(a, b []byte) bool {
	if len(a) != len(b) {
		return false
	}
	ha, ka := chunks(a)
	hb, kb := chunks(b)
	if ha != hb || len(ka) != len(kb) {
		return false
	}
	for i := range ka {
		if ka[i] != kb[i] {
			return false
		}
	}
	return true
}

func tryStr(f func() string) string {
	var out string
	if p, _ := kit.Try(func() { out = f() }); p != nil {
		return fmt.Sprintf("panic: %v", p)
	}
	return out
}

// addCounts records the two note counters (they read the process-wide registry).
func (s *Snap) addCounts(d *document.Document) {
	s.add(Item{Name: "acc:GetFootnoteCount", Kind: "count", Fam: famFootnote, Val: tryStr(func() string { return fmt.Sprint(d.GetFootnoteCount()) })})
	s.add(Item{Name: "acc:GetEndnoteCount", Kind: "count", Fam: famEndnote, Val: tryStr(func() string { return fmt.Sprint(d.GetEndnoteCount()) })})
}

// addAccessors records the results of the read-only accessors.
func (s *Snap) addAccessors(d *document.Document) {
	acc := func(name string, f func() string) { s.add(Item{Name: "acc:" + name, Kind: "acc", Val: tryStr(f)}) }
	acc("GetPageSettings", func() string { return fmt.Sprintf("%+v", *d.GetPageSettings()) })
	acc("ListHeadings", func() string { return fmt.Sprintf("%+v", d.ListHeadings()) })
	acc("GetHeadingCount", func() string { return fmt.Sprint(d.GetHeadingCount()) })
	acc("tables", func() string {
		var b strings.Builder
		tabs := d.Body.GetTables()
		fmt.Fprintf(&b, "n=%d", len(tabs))
		for ti, t := range tabs {
			r, c := t.GetRowCount(), t.GetColumnCount()
			fmt.Fprintf(&b, " | t%d %dx%d", ti, r, c)
			for i := 0; i < r && i < 8; i++ {
				for j := 0; j < c && j < 8; j++ {
					i, j := i, j
					b.WriteString(tryStr(func() string {
						txt, err := t.GetCellText(i, j)
						if err != nil {
							return fmt.Sprintf(" [%d,%d]!err", i, j)
						}
						return fmt.Sprintf(" [%d,%d]%q", i, j, txt)
					}))
				}
			}
		}
		return b.String()
	})
	acc("paragraphs", func() string { return fmt.Sprint(len(d.Body.GetParagraphs()), "/", len(d.Body.Elements)) })
	acc("styles", func() string {
		sm := d.GetStyleManager()
		if sm == nil {
			return "nil"
		}
		var ids []string
		for _, st := range sm.GetAllStyles() {
			e := st.Type + ":" + st.StyleID
			if st.Name != nil {
				e += "(" + st.Name.Val + ")"
			}
			if st.BasedOn != nil {
				e += "<" + st.BasedOn.Val
			}
			ids = append(ids, e)
		}
		sort.Strings(ids)
		return strings.Join(ids, " ")
	})
	acc("properties", func() string {
		p, err := d.GetDocumentProperties()
		if err != nil {
			return "err"
		}
		return fmt.Sprintf("%q %q %q %q %q %q %q %q %q w=%d c=%d p=%d", p.Title, p.Subject, p.Creator, p.Keywords, p.Description, p.Language, p.Category, p.Version, p.Revision, p.Words, p.Characters, p.Paragraphs)
	})
}

// takeSnap observes a finished history. withCounts=false leaves the two registry counters to the caller.
func takeSnap(x *ops.Exec, outcomes []string, withCounts bool) *Snap {
	s := &Snap{}
	s.add(Item{Name: "outcomes", Kind: "outcome", Val: strings.Join(outcomes, ";")})
	for j, sv := range x.Saves {
		s.addPackage(fmt.Sprintf("save%d:", j), sv)
	}
	// accessors before the bytes: GetPageSettings materialises an (empty) section-properties element on first use,
	// so that everything observed afterwards (ToBytes here, Save in the concurrent part) sees the same document
	s.addAccessors(x.Doc)
	if withCounts {
		s.addCounts(x.Doc)
	}
	var b []byte
	var err error
	if p, _ := kit.Try(func() { b, err = x.Doc.ToBytes() }); p != nil {
		s.add(Item{Name: "ToBytes", Kind: "outcome", Val: fmt.Sprintf("panic: %v", p)})
	} else if err != nil {
		s.add(Item{Name: "ToBytes", Kind: "outcome", Val: "error"})
	} else {
		s.add(Item{Name: "ToBytes", Kind: "outcome", Val: "ok"})
		s.addPackage("", b)
		s.raw = b
	}
	return s
}

// Delta is one observed difference between two snapshots of the same history.
type Delta struct {
	Item   string
	Fam    string
	Kind   string
	Detail string
}

// diffPart compares two parts; the main part yields up to four deltas (tree + the three registry-derived lists).
func diffPart(a, b *Item) []Delta {
	if bytes.Equal(a.Raw, b.Raw) && a.Val == b.Val {
		return nil
	}
	if a.Val != b.Val {
		return []Delta{{a.Name, a.Fam, a.Kind, fmt.Sprintf("%q vs %q", clip(a.Val, 200), clip(b.Val, 200))}}
	}
	if i := strings.Index(a.Name, "part:"); i >= 0 && unorderedPart[a.Name[i+5:]] && sameUpToRootOrder(a.Raw, b.Raw) {
		return nil
	}
	ta, tb := a.tree(), b.tree()
	switch {
	case ta == nil && tb == nil:
		return []Delta{{a.Name, a.Fam, a.Kind, fmt.Sprintf("payload differs (%d vs %d bytes)", len(a.Raw), len(b.Raw))}}
	case ta == nil || tb == nil:
		return []Delta{{a.Name, a.Fam, a.Kind, "parses as XML on one side only"}}
	}
	var out []Delta
	if d := canon.Diff(ta, tb, diffOpts); d != "" {
		out = append(out, Delta{a.Name, a.Fam, a.Kind, d})
	}
	if a.main {
		pre := a.Name[:strings.Index(a.Name, "part:")]
		list := func(name, fam string, x, y []string) {
			if xs, ys := strings.Join(x, ","), strings.Join(y, ","); xs != ys {
				out = append(out, Delta{pre + name, fam, "list", fmt.Sprintf("[%s] vs [%s]", clip(xs, 200), clip(ys, 200))})
			}
		}
		list("main:numId-values", famList, a.nums, b.nums)
		list("main:footnote-markers", famFootnote, a.fn, b.fn)
		list("main:endnote-markers", famEndnote, a.en, b.en)
	}
	return out
}

func clip(s string, n int) string {
	if len(s) > n {
		return s[:n] + "…"
	}
	return s
}

// diffSnaps compares want (the document built alone) with got; at most max deltas are returned.
func diffSnaps(want, got *Snap, max int) []Delta {
	var out []Delta
	add := func(d Delta) {
		if len(out) < max {
			out = append(out, d)
		}
	}
	for _, a := range want.Items {
		j, ok := got.index[a.Name]
		if !ok {
			add(Delta{a.Name, a.Fam, a.Kind, "present when built alone, absent otherwise"})
			continue
		}
		if a.Kind == "part" {
			for _, d := range diffPart(&want.Items[want.index[a.Name]], &got.Items[j]) {
				d.Detail = "alone vs together: " + d.Detail
				add(d)
			}
		} else if b := got.Items[j]; a.Val != b.Val {
			add(Delta{a.Name, a.Fam, a.Kind, fmt.Sprintf("alone vs together: %s vs %s", clip(a.Val, 300), clip(b.Val, 300))})
		}
	}
	for _, b := range got.Items {
		if _, ok := want.index[b.Name]; !ok {
			add(Delta{b.Name, b.Fam, b.Kind, "absent when built alone, present otherwise"})
		}
	}
	return out
}

package c07

import (
	"context"
	"encoding/json"
	"fmt"
	"os"
	"os/exec"
	"path/filepath"
	"strconv"
	"strings"
	"sync"
	"time"

	"wzverif/internal/kit"
)

// I6: the reference built in a process of its own.
//
// I1/I2 compare a document built together with others against the same history executed alone IN THE SAME
// PROCESS. That reference is blind to one kind of dependence: state that the library keeps for the life of the
// process and never revises (a memo table, an interned object, a registry filled on first use). Once such state
// exists, the document "built alone" is served from it as well - after the first case of a run the process has
// already built hundreds of other documents, and inside a case the references of the documents are themselves
// built one after the other - so reference and subject agree although both depend on documents made before them.
//
// For a fresh case (Case.Fresh; one case in eight, never in the race twin) the test binary therefore re-executes
// itself len(Docs)+1 times:
//
//	alone:<d>   a new process that builds nothing but document d                       -> snapshot of d
//	together    a new process that executes the interleaved run of the whole case     -> snapshots of all documents
//
// and the parent compares, per document, alone:<d> with together (same items, same differ as I1). Both sides
// depend on nothing but the case: the verdict is reproducible from the replay file. The processes get the same
// relative scratch path (each in a working directory of its own), so that file-based entry points see the same
// path strings on both sides.
const freshModeEnv = childEnv + "_MODE"

type wireItem struct {
	Name string `json:"n"`
	Fam  string `json:"f,omitempty"`
	Kind string `json:"k"`
	Val  string `json:"v,omitempty"`
	Raw  []byte `json:"r,omitempty"`
	XML  bool   `json:"x,omitempty"`
	Main bool   `json:"m,omitempty"`
}

type freshReport struct {
	Snaps map[int][]wireItem `json:"snaps"`
}

func toWire(s *Snap) []wireItem {
	if s == nil {
		return nil
	}
	out := make([]wireItem, 0, len(s.Items))
	for _, it := range s.Items {
		out = append(out, wireItem{Name: it.Name, Fam: it.Fam, Kind: it.Kind, Val: it.Val, Raw: it.Raw, XML: it.xml, Main: it.main})
	}
	return out
}

func fromWire(w []wireItem) *Snap {
	s := &Snap{}
	for _, it := range w {
		s.add(Item{Name: it.Name, Fam: it.Fam, Kind: it.Kind, Val: it.Val, Raw: it.Raw, xml: it.XML, main: it.Main})
	}
	return s
}

// inFreshChild: the Save rounds at the end of the interleaved run are judged in the parent process only
var inFreshChild bool

// freshChild is the body of a child process of a fresh case.
func freshChild(c Case, mode, base, out string) int {
	inFreshChild = true
	rep := freshReport{Snaps: map[int][]wireItem{}}
	switch {
	case strings.HasPrefix(mode, "alone:"):
		d, err := strconv.Atoi(strings.TrimPrefix(mode, "alone:"))
		if err != nil || d < 0 || d >= len(c.Docs) {
			return 3
		}
		_, s := runAloneRun(base, d, c.Docs[d], false)
		rep.Snaps[d] = toWire(s)
	case mode == "together":
		snaps, _, _, _ := runInterleaved(base, c)
		for d, s := range snaps {
			rep.Snaps[d] = toWire(s)
		}
	default:
		return 3
	}
	js, err := json.Marshal(rep)
	if err != nil {
		return 3
	}
	if err := os.WriteFile(out, js, 0o644); err != nil {
		return 3
	}
	return 0
}

// spawnFresh runs one child of a fresh case. ok=false: no report (budget ran out, the process died) - not a verdict.
func spawnFresh(caseFile, work, mode string, budget time.Duration) (rep freshReport, ok bool, note string) {
	dir := filepath.Join(work, strings.ReplaceAll(mode, ":", ""))
	if err := os.MkdirAll(dir, 0o755); err != nil {
		return rep, false, "scratch"
	}
	out := filepath.Join(dir, "report.json")
	ctx, cancel := context.WithTimeout(context.Background(), budget)
	defer cancel()
	bin := os.Args[0]
	if !filepath.IsAbs(bin) {
		if abs, err := filepath.Abs(bin); err == nil {
			bin = abs
		}
	}
	cmd := exec.CommandContext(ctx, bin)
	cmd.Dir = dir
	var env []string
	for _, kv := range os.Environ() {
		if strings.HasPrefix(kv, "GORACE=") || strings.HasPrefix(kv, childEnv) || strings.HasPrefix(kv, "VERIF_EVIDENCE_PART=") || strings.HasPrefix(kv, "VERIF_CURRENT=") {
			continue
		}
		env = append(env, kv)
	}
	// "w": the same relative path in every child
	cmd.Env = append(env, childEnv+"="+caseFile, childEnv+"_DIR=w", childEnv+"_OUT="+out, freshModeEnv+"="+mode)
	b, runErr := cmd.CombinedOutput()
	if ctx.Err() != nil {
		return rep, false, "timeout"
	}
	if runErr != nil {
		return rep, false, fmt.Sprintf("died (%v): %s", runErr, clip(string(b), 300))
	}
	js, err := os.ReadFile(out)
	if err != nil || json.Unmarshal(js, &rep) != nil {
		return rep, false, "no report"
	}
	return rep, true, ""
}

// runFresh judges I6 for a fresh case.
func runFresh(res *kit.Result, c Case) {
	res.Label("fresh:reference-in-own-process")
	n := len(c.Docs)
	work, err := os.MkdirTemp(kit.Scratch, "c07-fresh-")
	if err != nil {
		res.Count("child-noreport", 1)
		return
	}
	defer os.RemoveAll(work)
	cc := c
	cc.Sub, cc.Reps, cc.Cold, cc.Fresh = 0, 0, false, false
	js, _ := json.Marshal(cc)
	caseFile := filepath.Join(work, "case.json")
	if os.WriteFile(caseFile, js, 0o644) != nil {
		res.Count("child-noreport", 1)
		return
	}
	modes := []string{"together"}
	for d := 0; d < n; d++ {
		modes = append(modes, fmt.Sprintf("alone:%d", d))
	}
	reps := make([]freshReport, len(modes))
	oks := make([]bool, len(modes))
	notes := make([]string, len(modes))
	var wg sync.WaitGroup
	sem := make(chan struct{}, 3)
	for i, m := range modes {
		wg.Add(1)
		go func(i int, m string) {
			defer wg.Done()
			sem <- struct{}{}
			defer func() { <-sem }()
			reps[i], oks[i], notes[i] = spawnFresh(caseFile, work, m, 20*time.Second)
		}(i, m)
	}
	wg.Wait()
	for i := range modes {
		if !oks[i] {
			if notes[i] == "timeout" {
				res.Count("child-timeouts", 1)
			} else {
				res.Count("child-noreport", 1)
				res.Label("fresh:child-without-report")
			}
		}
	}
	if !oks[0] {
		return
	}
	for d := 0; d < n; d++ {
		if !oks[d+1] {
			continue
		}
		aw, ok1 := reps[d+1].Snaps[d]
		tw, ok2 := reps[0].Snaps[d]
		if !ok1 || !ok2 {
			continue
		}
		res.Eval("C07.I6")
		for _, dl := range diffSnaps(fromWire(aw), fromWire(tw), 4) {
			res.Fail("C07.I6", "doc=%d built in a fresh process of its own vs built in another fresh process together with the other %d documents of the case (interleaved): item=%s: %s",
				d, n-1, dl.Item, strings.Replace(dl.Detail, "alone vs together", "own process vs together", 1))
		}
	}
}

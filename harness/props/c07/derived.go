package c07

import (
	"fmt"
	"strings"

	"github.com/zerx-lab/wordZero/pkg/document"
	"pgregory.net/rapid"

	"wzverif/internal/ops"
)

// Documents DERIVED from one another are distinct documents in the sense of the property: a template base and
// the documents rendered from it, two renders of one template, a document and the copy obtained by opening its
// own bytes. After the derivation a call on one of them must not change what the others save or report.
//
// The shared op interpreter only ever edits the current document of a history. The op kinds below are local to
// this check; they let a history go back to a document it set aside earlier, read the note counters in the
// middle of a history and remove notes (of the file the document was opened from as well as new ones).
//
//	swap       I:[sel]  a document set aside earlier (template base, earlier render, document before a reopen or
//	                    a conversion) becomes the current one again; the current one is set aside in its place
//	notecount           GetFootnoteCount / GetEndnoteCount of the current document (the results are part of the outcome)
//	rmfootnote S:[id]   RemoveFootnote(id)
//	rmendnote  S:[id]   RemoveEndnote(id)
//
// Further local kinds: openforeign / restyle / rmstyle (styles.go), mdc (converter.go), bulk (bulk.go), tplc / tpldc / failcall (engine.go).
var localKinds = map[string]bool{"swap": true, "notecount": true, "rmfootnote": true, "rmendnote": true,
	"openforeign": true, "restyle": true, "rmstyle": true, "mdc": true, "bulk": true, "tplc": true, "tpldc": true, "failcall": true}

func hasKind(h []ops.Op, kind string) bool {
	for _, o := range h {
		if o.K == kind {
			return true
		}
	}
	return false
}

func countKind(h []ops.Op, kind string) int {
	n := 0
	for _, o := range h {
		if o.K == kind {
			n++
		}
	}
	return n
}

// doLocal executes one op of a local kind; extra is appended to the recorded outcome.
func (r *docRun) doLocal(o ops.Op) (extra string, err error) {
	x := r.x
	d := x.Doc
	sArg := func(i int) string {
		if i < len(o.S) {
			return o.S[i]
		}
		return ""
	}
	switch o.K {
	case "openforeign", "restyle", "rmstyle":
		return r.doStyleOp(o)
	case "mdc":
		return r.doMDC(o)
	case "bulk":
		return r.doBulk(o)
	case "tplc", "tpldc":
		return r.doTplPooled(o)
	case "failcall":
		return r.doFailCall(o)
	case "swap":
		if len(x.Side) == 0 {
			return "none", nil
		}
		sel := 0
		if len(o.I) > 0 {
			sel = o.I[0]
		}
		idx := ops.In(sel, len(x.Side))
		target := x.Side[idx]
		if target == nil || target == d {
			return "none", nil
		}
		r.release(target)
		x.Side[idx] = d
		x.Doc = target
		x.Paras, x.Tables, x.Images = nil, nil, nil
		if target.Body != nil {
			x.Paras = target.Body.GetParagraphs()
			x.Tables = target.Body.GetTables()
		}
		x.Replaced++
		return fmt.Sprintf("side%d", idx), nil
	case "notecount":
		return fmt.Sprintf("%d/%d", d.GetFootnoteCount(), d.GetEndnoteCount()), nil
	case "rmfootnote":
		return "", d.RemoveFootnote(sArg(0))
	case "rmendnote":
		return "", d.RemoveEndnote(sArg(0))
	}
	panic("c07: unknown local op kind " + o.K)
}

// release is called when a set-aside document becomes the current one again: nobody touched it since it was set
// aside, so it must still be what it was then (I4); from now on it is edited and no longer tracked.
func (r *docRun) release(target *document.Document) {
	for j, a := range r.aside {
		if a.doc != target {
			continue
		}
		if a.at != nil {
			now := r.sideSnap(target)
			for _, dl := range diffSnaps(a.at, now, 3) {
				r.i4 = append(r.i4, fmt.Sprintf("the document set aside by op %d was not touched until it became the current one again (op %d) but changed: item=%s: %s",
					a.op-1, len(r.outcomes), dl.Item, strings.Replace(dl.Detail, "alone vs together", "when set aside vs now", 1)))
			}
		}
		r.aside = append(r.aside[:j:j], r.aside[j+1:]...)
		break
	}
	delete(r.seen, target)
	delete(r.settled, target)
}

// ---------------------------------------------------------------------------------------------
// generator of the derived-documents scenario

var noteIDs = []string{"1", "2", "1", "3", "2", "4", "9"}

func localOp(t *rapid.T, kind string) ops.Op {
	o := ops.Op{K: kind}
	switch kind {
	case "swap":
		o.I = []int{rapid.IntRange(0, 3).Draw(t, "swapsel")}
	case "rmfootnote", "rmendnote":
		o.S = []string{rapid.SampledFrom(noteIDs).Draw(t, "noteid")}
	}
	return o
}

func opOf(t *rapid.T, cfg *ops.Config, kind string) ops.Op {
	if strings.HasSuffix(kind, "@pool") { // style ops with ids of the pool (styles.go)
		return styleOp(t, strings.TrimSuffix(kind, "@pool"))
	}
	if styleKinds[kind] {
		return styleOp(t, kind)
	}
	if kind == "mdc" {
		return mdcOp(t, -1)
	}
	if localKinds[kind] {
		return localOp(t, kind)
	}
	return cfg.OpOf(t, kind)
}

// The scenario concentrates on one or two families of per-document state, so that the derived documents use the
// SAME machinery before and after the derivation (the per-document note and numbering managers are drawn most often).
var scenarioFamilies = map[string][]string{
	"notes": {"footnote", "endnote", "footnote", "endnote", "rmfootnote", "rmendnote", "notecount"},
	"lists": {"listitem", "bullet", "numbered", "listitem", "numbered"},
	"image": {"image", "imagefile", "cellimg", "table", "imgalt"},
	"hf":    {"header", "footer", "headerpn", "fheader", "difffirst"},
	// the style manager of one member of the family: a style the file/library defines is changed, removed, defined anew
	// and body elements of several members start to refer to the same few styles (heading levels 1-3, pool ids)
	"style": {"restyle", "restyle", "restyle", "restyle", "customstyle@pool", "rmstyle", "pstyle@pool", "pstyle@pool", "heading@pool", "heading@pool", "tblstyle", "table", "customstyle"},
	"table": {"table", "celltext", "insrow", "appcol", "mergeh", "cellpara"},
	"props": {"props", "title", "author", "stats", "pagesize", "margins"},
	// body elements that are edited IN PLACE later on: the TOC content control (UpdateTOC / AutoGenerateTOC rewrite
	// it), headings with bookmarks, formula paragraphs
	"toc": {"heading", "headingbm", "toc", "autotoc", "updatetoc", "heading", "headingbm2", "updatetoc", "math", "mathlatex", "toc"},
}
var scenarioFamilyNames = []string{"notes", "notes", "notes", "lists", "lists", "lists", "toc", "toc", "toc", "style", "style", "style", "style", "image", "hf", "table", "props"}

// anything else that may happen to a derived document
var scenarioOther = []string{"para", "fpara", "addtext", "rmparaat", "tpldoc", "tpldoc2", "reopen", "save", "heading", "footnote", "listitem", "image", "header", "customstyle", "toc", "restyle", "mdc", "openforeign"}

// derivedScenario draws {base content, [reopen: the base is a document OPENED from a package that has these
// parts], [accessor calls on the base], derivation (render, two renders, reopen), edits that jump between the
// derived documents}.
func derivedScenario(t *rapid.T, cfg *ops.Config) []ops.Op {
	var pool []string
	styles := false
	for i, m := 0, rapid.IntRange(1, 2).Draw(t, "nfam"); i < m; i++ {
		fam := rapid.SampledFrom(scenarioFamilyNames).Draw(t, "fam")
		styles = styles || fam == "style"
		pool = append(pool, scenarioFamilies[fam]...)
	}
	var sc []ops.Op
	// where the base comes from: 0 made in this process, 1-2 its own bytes opened again, 3 (with the style family
	// 2 as well) a package of another producer, opened BEFORE the content ops so that they edit the opened document
	from := rapid.IntRange(0, 3).Draw(t, "opened-base")
	foreign := from == 3 || (styles && from == 2)
	if foreign {
		sc = append(sc, styleOp(t, "openforeign"))
	}
	for i, m := 0, rapid.IntRange(1, 3).Draw(t, "pre"); i < m; i++ {
		sc = append(sc, opOf(t, cfg, rapid.SampledFrom(pool).Draw(t, "prek")))
	}
	if from > 0 && !foreign {
		sc = append(sc, cfg.OpOf(t, "reopen"))
		if rapid.IntRange(0, 2).Draw(t, "opened-more") == 0 {
			sc = append(sc, opOf(t, cfg, rapid.SampledFrom(pool).Draw(t, "morek")))
		}
	}
	if rapid.Bool().Draw(t, "count-before") {
		sc = append(sc, localOp(t, "notecount"))
	}
	sc = append(sc, cfg.OpOf(t, rapid.SampledFrom([]string{"tpldoc", "tpldoc2", "tpldoc", "tpldoc2", "reopen"}).Draw(t, "derivek")))
	// edits that jump between the members of the family; a SAVE of the member at hand is a call like any other (it
	// may write state that the members share), so saves are drawn between the edits
	for i, m := 0, rapid.IntRange(2, 6).Draw(t, "post"); i < m; i++ {
		switch w := rapid.IntRange(0, 9).Draw(t, "postw"); {
		case w < 2:
			sc = append(sc, localOp(t, "swap"))
		case w < 7:
			sc = append(sc, opOf(t, cfg, rapid.SampledFrom(pool).Draw(t, "postk")))
		case w < 8:
			sc = append(sc, opOf(t, cfg, rapid.SampledFrom(scenarioOther).Draw(t, "otherk")))
		default:
			sc = append(sc, cfg.OpOf(t, "save"))
		}
	}
	return sc
}

package c07

import (
	"regexp"
	"strings"

	"pgregory.net/rapid"

	"wzverif/internal/ops"
)

// Near-equal content. State that leaks from one document into another is usually keyed: a memo table, an intern
// pool, a registry by name. Two documents with unrelated content never meet in such a table; two documents with
// the SAME content meet, but receive what they would have produced themselves. The revealing inputs are documents
// whose content is equal up to what a key function typically normalises away: outer white space, white space
// inside brackets, runs of blanks, letter case, blanks at line ends.
//
// A fresh case (fresh.go) therefore starts every history with the same 1-3 drawn ops - entry points that carry the
// most package-level machinery: Markdown with formulas, templates, LaTeX formulas, headings, styles - and gives
// every document its own VARIANT of the strings of these ops. All variants are ordinary inputs of the same calls.

var (
	reBraces   = regexp.MustCompile(`\{([^{}]*)\}`)
	reBrackets = regexp.MustCompile(`\[([^\[\]]*)\]`)
	reParens   = regexp.MustCompile(`\(([^()]*)\)`)
)

// how: 0 unchanged, 1 blanks inside the innermost braces, 2 blanks inside the innermost brackets and parentheses,
// 3 outer blanks, 4 runs of two blanks, 5 a blank before every line end, 6 upper case, 7 lower case
const nVariants = 8

func perturb(s string, how int) string {
	switch how {
	case 1:
		return reBraces.ReplaceAllString(s, "{ $1 }")
	case 2:
		return reParens.ReplaceAllString(reBrackets.ReplaceAllString(s, "[ $1 ]"), "( $1 )")
	case 3:
		return " " + s + " "
	case 4:
		return strings.ReplaceAll(s, " ", "  ")
	case 5:
		return strings.ReplaceAll(s, "\n", " \n")
	case 6:
		return strings.ToUpper(s)
	case 7:
		return strings.ToLower(s)
	}
	return s
}

// which string arguments of an op kind are free text (everything else - ids, selectors, enumerations - is left alone)
var textArgs = map[string][]int{
	"para": {0}, "fpara": {0}, "heading": {0}, "headingbm": {0}, "headingbm2": {0},
	"footnote": {0, 1}, "endnote": {0, 1}, "header": {0}, "footer": {0}, "headerpn": {0}, "footerpn": {0}, "fheader": {0}, "ffooter": {0},
	"title": {0}, "author": {0}, "props": {0, 1, 2, 3, 4, 5, 6, 7, 8}, "md": {0}, "mdc": {0}, "tplstr": {0}, "mathlatex": {0},
	"toc": {0}, "autotoc": {0}, "listitem": {0}, "bullet": {0}, "numbered": {0}, "customstyle": {1},
}

// variantOp returns a copy of o whose free-text strings are perturbed.
func variantOp(o ops.Op, how int) ops.Op {
	c := copyOp(o)
	if how == 0 {
		return c
	}
	for _, i := range textArgs[c.K] {
		if i < len(c.S) {
			c.S[i] = perturb(c.S[i], how)
		}
	}
	if c.K == "table" && c.Grid != nil {
		g := make([][]string, len(c.Grid))
		for i, row := range c.Grid {
			g[i] = make([]string, len(row))
			for j, cell := range row {
				g[i][j] = perturb(cell, how)
			}
		}
		c.Grid = g
	}
	for _, data := range []*ops.Data{c.Data, c.Data2} { // template data values (copyOp made the maps private)
		if data == nil {
			continue
		}
		for k, v := range data.Vars {
			data.Vars[k] = perturb(v, how)
		}
	}
	return c
}

// drawVariant: which variant a document gets; shrinks towards "unchanged"
func drawVariant(t *rapid.T) int {
	return rapid.SampledFrom([]int{0, 0, 1, 1, 1, 2, 3, 4, 5, 6, 7}).Draw(t, "variant")
}

// ---------------------------------------------------------------------------------------------
// first ops of a fresh case

var freshKinds = []string{"md", "md", "md", "md", "md", "md", "md", "md", "tplstr", "tplstr", "tpldoc", "mathlatex", "mathlatex", "heading", "headingbm",
	"customstyle", "footnote", "listitem", "numbered", "table", "toc", "header", "footerpn", "props", "fpara", "image"}

// formulas built from a few atoms, so that the formulas of different documents (and of different cases in one
// process) share their parts
var mathAtoms = []string{"u", "v", "x", "a+b", "n+1", "\\alpha", "2", "x_i"}

func mathPiece(t *rapid.T) string {
	a := func() string { return rapid.SampledFrom(mathAtoms).Draw(t, "atom") }
	var f string
	switch rapid.IntRange(0, 8).Draw(t, "mshape") {
	case 0, 1:
		f = "\\frac{" + a() + "}{" + a() + "}"
	case 2:
		f = "\\sqrt{" + a() + "}"
	case 3:
		f = "\\sqrt{\\frac{" + a() + "}{" + a() + "}}"
	case 4:
		f = "\\frac{\\sqrt{" + a() + "}}{" + a() + "} + \\sqrt[3]{" + a() + "}"
	case 5:
		f = "e^{" + a() + "} + " + a() + "_{" + a() + "}"
	case 6:
		f = "\\sum_{i=1}^{" + a() + "} \\frac{" + a() + "}{" + a() + "} \\leq \\infty"
	case 7:
		f = "\\text{" + a() + "} \\cdot \\left(" + a() + "\\right)"
	default:
		f = a() + " \\neq " + a()
	}
	switch rapid.IntRange(0, 2).Draw(t, "mwrap") {
	case 0:
		return "value $" + f + "$ inline\n\n"
	case 1:
		return "$$\n" + f + "\n$$\n\n"
	}
	return "$$" + f + "$$\n\n"
}

func freshMD(t *rapid.T) ops.Op {
	n := rapid.IntRange(2, 8).Draw(t, "fmdn")
	var b strings.Builder
	for i := 0; i < n; i++ {
		if rapid.IntRange(0, 2).Draw(t, "fmdmath") == 0 {
			b.WriteString(mathPiece(t))
		} else if rapid.IntRange(0, 2).Draw(t, "fmdref") == 0 {
			b.WriteString(rapid.SampledFrom(refMDPieces).Draw(t, "fmdr"))
		} else {
			b.WriteString(rapid.SampledFrom(richMDPieces).Draw(t, "fmdp"))
		}
	}
	flag := func(l string, den int) bool { return rapid.IntRange(0, den).Draw(t, l) > 0 }
	return ops.Op{K: "md", S: []string{b.String()}, B: []bool{flag("gfm", 3), flag("tables", 3), flag("tasks", 3), flag("math", 7), flag("fnotes", 3), flag("toc", 1)}, I: []int{rapid.IntRange(1, 4).Draw(t, "toclvl")}}
}

func freshOp(t *rapid.T, cfg *ops.Config) ops.Op {
	k := rapid.SampledFrom(freshKinds).Draw(t, "freshk")
	switch k {
	case "md":
		return freshMD(t)
	case "mathlatex":
		o := cfg.OpOf(t, k)
		if len(o.S) > 0 && rapid.IntRange(0, 2).Draw(t, "mlpiece") > 0 {
			p := mathPiece(t)
			p = strings.Trim(strings.NewReplacer("value ", "", " inline", "", "$", "", "\n", "").Replace(p), " ")
			o.S[0] = p
		}
		return o
	}
	return cfg.OpOf(t, k)
}

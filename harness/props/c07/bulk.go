package c07

import (
	"fmt"
	"strings"

	"github.com/zerx-lab/wordZero/pkg/document"
	"github.com/zerx-lab/wordZero/pkg/style"
	"pgregory.net/rapid"

	"wzverif/internal/gen"
	"wzverif/internal/ops"
)

// Histories of a dozen calls make documents with a handful of paragraphs, one or two pictures and notes. Whatever
// the library does differently past a count or a size (the 10th picture, the 65th note, an output of more than
// 64 KiB) is out of their reach. The local op
//
//	bulk S:[what, tag] I:[count, arg]
//
// repeats ONE documented call `count` times on the current document (a loop every caller writes), with arguments
// that are derived from the loop index:
//
//	paras      AddParagraph("<tag> <i> ....")                      (count in the hundreds: a document of more than 64 KiB)
//	images     AddImageFromData(2x2 picture i, name)               names pic<i>.png or, arg odd, image<i>.png (the names the library itself gives)
//	bigimage   AddImageFromData(one picture of arg x arg pixels)   (a media part of more than 64 KiB)
//	footnotes  AddFootnote("<tag><i>", "note <i>")
//	endnotes   AddEndnote(...)
//	headings   AddHeadingParagraph("<tag> <i>", 1 + i%3)
//	numbered   AddNumberedList("<tag> <i>", i%3, decimal)
//	bullets    AddBulletList("<tag> <i>", i%3, dot)
//	tables     AddTable(1x2 with data)
//	rows       one AddTable with count rows x 2 columns
//	cols       one AddTable with 1 row x count columns (count <= 63, the limit of a Word table)
//	styles     CreateCustomStyle("<Tag><i>", ...)
//	longtext   AddParagraph(one text of count*100 characters)
//
// The loop stops at the first call that returns an error (the error is the op's outcome).
var bulkWhats = []string{"paras", "images", "images", "footnotes", "endnotes", "headings", "numbered", "bullets", "tables", "rows", "cols", "styles", "longtext", "bigimage"}

// counts around the places where a decimal or binary representation grows
var bulkCounts = []int{10, 10, 11, 12, 16, 17, 33, 64, 65, 100}

var bulkTags = []string{"line", "Item", "x", "注", "a&b"}

const bulkFiller = " lorem ipsum dolor sit amet, consectetur adipiscing elit, sed do eiusmod tempor"

func (r *docRun) doBulk(o ops.Op) (extra string, err error) {
	x := r.x
	d := x.Doc
	what, tag := "", "t"
	if len(o.S) > 0 {
		what = o.S[0]
	}
	if len(o.S) > 1 {
		tag = o.S[1]
	}
	n, arg := iArg(o, 0), iArg(o, 1)
	if n < 0 {
		n = 0
	}
	if n > 2000 {
		n = 2000
	}
	done := 0
	defer func() {
		// the handles of the interpreter follow the body
		if d.Body != nil {
			x.Paras = d.Body.GetParagraphs()
			x.Tables = d.Body.GetTables()
		}
	}()
	switch what {
	case "paras":
		for i := 0; i < n; i++ {
			d.AddParagraph(fmt.Sprintf("%s %d%s", tag, i, bulkFiller))
			done++
		}
	case "longtext":
		d.AddParagraph(tag + strings.Repeat(bulkFiller[:50]+" "+tag, 2*n))
		done++
	case "images":
		for i := 0; i < n; i++ {
			name := fmt.Sprintf("pic%d.png", i)
			if arg%2 == 1 {
				name = fmt.Sprintf("image%d.png", i)
			}
			im := gen.Img{Fmt: "png", W: 2, H: 2, Pat: arg*1000 + i, Name: name}
			info, e := d.AddImageFromData(im.Bytes(), name, document.ImageFormatPNG, 2, 2, nil)
			if e != nil {
				return fmt.Sprint(done), e
			}
			x.Images = append(x.Images, info)
			done++
		}
	case "bigimage":
		side := arg
		if side < 1 {
			side = 1
		}
		if side > 256 {
			side = 256
		}
		im := gen.Img{Fmt: "png", W: side, H: side, Pat: n, Name: "big.png"}
		info, e := d.AddImageFromData(im.Bytes(), im.Name, document.ImageFormatPNG, side, side, nil)
		if e != nil {
			return "0", e
		}
		x.Images = append(x.Images, info)
		done++
	case "footnotes", "endnotes":
		for i := 0; i < n; i++ {
			var e error
			if what == "footnotes" {
				e = d.AddFootnote(fmt.Sprintf("%s%d", tag, i), fmt.Sprintf("note %d", i))
			} else {
				e = d.AddEndnote(fmt.Sprintf("%s%d", tag, i), fmt.Sprintf("note %d", i))
			}
			if e != nil {
				return fmt.Sprint(done), e
			}
			done++
		}
	case "headings":
		for i := 0; i < n; i++ {
			d.AddHeadingParagraph(fmt.Sprintf("%s %d", tag, i), 1+i%3)
			done++
		}
	case "numbered":
		for i := 0; i < n; i++ {
			d.AddNumberedList(fmt.Sprintf("%s %d", tag, i), i%3, document.ListTypeDecimal)
			done++
		}
	case "bullets":
		for i := 0; i < n; i++ {
			d.AddBulletList(fmt.Sprintf("%s %d", tag, i), i%3, document.BulletTypeDot)
			done++
		}
	case "tables":
		for i := 0; i < n; i++ {
			if _, e := d.AddTable(&document.TableConfig{Rows: 1, Cols: 2, Width: 4000, Data: [][]string{{fmt.Sprintf("%s%d", tag, i), "v"}}}); e != nil {
				return fmt.Sprint(done), e
			}
			done++
		}
	case "rows":
		data := make([][]string, n)
		for i := range data {
			data[i] = []string{fmt.Sprintf("%s%d", tag, i), "v"}
		}
		if _, e := d.AddTable(&document.TableConfig{Rows: n, Cols: 2, Width: 4000, Data: data}); e != nil {
			return "0", e
		}
		done = n
	case "cols":
		if n > 63 {
			n = 63
		}
		row := make([]string, n)
		for i := range row {
			row[i] = fmt.Sprintf("%s%d", tag, i)
		}
		if _, e := d.AddTable(&document.TableConfig{Rows: 1, Cols: n, Width: 9000, Data: [][]string{row}}); e != nil {
			return "0", e
		}
		done = n
	case "styles":
		sm := d.GetStyleManager()
		if sm == nil {
			return "nil", nil
		}
		for i := 0; i < n; i++ {
			typ := style.StyleTypeParagraph
			if i%4 == 3 {
				typ = style.StyleTypeCharacter
			}
			sm.CreateCustomStyle(fmt.Sprintf("Bulk%s%d", tag, i), fmt.Sprintf("Bulk %s %d", tag, i), typ, "Normal")
			done++
		}
	default:
		return "unknown", nil
	}
	return fmt.Sprint(done), nil
}

// bulkOp draws a repeated call. large: the result is meant to take the document's parts past 64 KiB.
func bulkOp(t *rapid.T, large bool) ops.Op {
	tag := rapid.SampledFrom(bulkTags).Draw(t, "bulktag")
	if large {
		if rapid.IntRange(0, 3).Draw(t, "bulkbig") == 0 {
			// random pixels do not compress: 160x160x3 bytes and more
			return ops.Op{K: "bulk", S: []string{"bigimage", tag}, I: []int{rapid.IntRange(0, 99).Draw(t, "bulkpat"), rapid.SampledFrom([]int{160, 176, 200}).Draw(t, "bulkside")}}
		}
		return ops.Op{K: "bulk", S: []string{"paras", tag}, I: []int{rapid.IntRange(450, 900).Draw(t, "bulkparas"), 0}}
	}
	what := rapid.SampledFrom(bulkWhats).Draw(t, "bulkwhat")
	o := ops.Op{K: "bulk", S: []string{what, tag}, I: []int{rapid.SampledFrom(bulkCounts).Draw(t, "bulkn"), rapid.IntRange(0, 3).Draw(t, "bulkarg")}}
	if what == "bigimage" {
		o.I[1] = rapid.SampledFrom([]int{64, 100, 160}).Draw(t, "bulkside")
	}
	return o
}

// insertAt returns h with o inserted before position at.
func insertAt(h []ops.Op, at int, o ops.Op) []ops.Op {
	return append(append(append([]ops.Op{}, h[:at]...), o), h[at:]...)
}

package c12

// Widened parts of the C12 generator and oracle: several documents used alternately, the settings struct as a value
// the caller keeps using (copied between documents, scribbled on after the call), calls that are not page-setting
// calls but work on the same section properties, save/reopen through a file, not-a-number sizes, and the reader of
// the saved main part (archive/zip only).

import (
	"archive/zip"
	"bytes"
	"fmt"
	"io"
	"math"
	"os"
	"path/filepath"
	"strings"

	"github.com/zerx-lab/wordZero/pkg/document"

	"wzverif/internal/kit"
)

// mainPart saves the document to memory and returns the bytes of word/document.xml as any zip reader sees them.
func mainPart(doc *document.Document) []byte {
	var b []byte
	var err error
	if p, _ := kit.Try(func() { b, err = doc.ToBytes() }); p != nil || err != nil {
		return nil
	}
	return mainPartOf(b)
}

// mainPartOf returns the bytes of word/document.xml of a saved package.
func mainPartOf(b []byte) []byte {
	zr, err := zip.NewReader(bytes.NewReader(b), int64(len(b)))
	if err != nil {
		return nil
	}
	for _, f := range zr.File {
		if f.Name == "word/document.xml" {
			rc, err := f.Open()
			if err != nil {
				return nil
			}
			defer rc.Close()
			x, err := io.ReadAll(rc)
			if err != nil {
				return nil
			}
			return x
		}
	}
	return nil
}

func firstDiff(a, b []byte) string {
	i := 0
	for i < len(a) && i < len(b) && a[i] == b[i] {
		i++
	}
	cut := func(x []byte) string {
		lo, hi := i-60, i+100
		if lo < 0 {
			lo = 0
		}
		if hi > len(x) {
			hi = len(x)
		}
		if lo > hi {
			lo = hi
		}
		return string(x[lo:hi])
	}
	return fmt.Sprintf("first difference at byte %d: before ...%q... after ...%q...", i, cut(a), cut(b))
}

// scribble: the caller goes on using a settings struct it owns (the one a read returned, the one it gave to a call).
func scribble(ps *document.PageSettings) {
	if ps == nil {
		return
	}
	*ps = document.PageSettings{Size: document.PageSizeLegal, CustomWidth: 333, CustomHeight: 111, Orientation: "sideways",
		MarginTop: 77.7, MarginRight: 66.6, MarginBottom: 55.5, MarginLeft: 44.4, HeaderDistance: 33.3, FooterDistance: 22.2, GutterWidth: 11.1,
		DocGridType: document.DocGridSnapToChars, DocGridLinePitch: 999, DocGridCharSpace: 77}
}

// reopenFile: Save to a file and Open that file (the other save/open pair of the API).
func reopenFile(doc *document.Document) (*document.Document, []byte, error) {
	dir, err := os.MkdirTemp(kit.Scratch, "c12-file-")
	if err != nil {
		return nil, nil, err
	}
	defer os.RemoveAll(dir)
	path := filepath.Join(dir, "saved.docx")
	var nd *document.Document
	if p, st := kit.Try(func() {
		if err = doc.Save(path); err == nil {
			nd, err = document.Open(path)
		}
	}); p != nil {
		return nil, nil, fmt.Errorf("panic: %v [%s]", p, st)
	}
	saved, _ := os.ReadFile(path)
	return nd, saved, err
}

// Calls that are not page-setting calls. Headers, footers and the title-page switch live in the same w:sectPr as the
// page settings (and create it when the document has none); the others change the body around it.
var otherKinds = []string{"header-default", "header-first", "header-even", "footer-default", "footer-first", "footer-pagenum", "firstpage-on", "firstpage-off",
	"pagebreak", "table", "heading", "title"}

func otherCall(doc *document.Document, kind string) func() error {
	switch kind {
	case "header-default":
		return func() error { return doc.AddHeader(document.HeaderFooterTypeDefault, "header") }
	case "header-first":
		return func() error { return doc.AddHeader(document.HeaderFooterTypeFirst, "first header") }
	case "header-even":
		return func() error { return doc.AddHeader(document.HeaderFooterTypeEven, "even header") }
	case "footer-default":
		return func() error { return doc.AddFooter(document.HeaderFooterTypeDefault, "footer") }
	case "footer-first":
		return func() error { return doc.AddFooter(document.HeaderFooterTypeFirst, "first footer") }
	case "footer-pagenum":
		return func() error { return doc.AddFooterWithPageNumber(document.HeaderFooterTypeDefault, "page ", true) }
	case "firstpage-on":
		return func() error { doc.SetDifferentFirstPage(true); return nil }
	case "firstpage-off":
		return func() error { doc.SetDifferentFirstPage(false); return nil }
	case "pagebreak":
		return func() error { doc.AddPageBreak(); return nil }
	case "table":
		return func() error {
			_, err := doc.AddTable(&document.TableConfig{Rows: 2, Cols: 2, Width: 8000})
			return err
		}
	case "heading":
		return func() error { doc.AddHeadingParagraph("heading", 1); return nil }
	case "title":
		return func() error { return doc.SetTitle("title") }
	}
	return nil
}

// Sizes that are not numbers of the documented range at all. JSON cannot carry them, so the case names them.
var specials = []string{"nan-w", "nan-h", "nan-wh", "inf-w", "ninf-h"}

func special(name string, w, h float64) (float64, float64) {
	switch name {
	case "nan-w":
		return math.NaN(), h
	case "nan-h":
		return w, math.NaN()
	case "nan-wh":
		return math.NaN(), math.NaN()
	case "inf-w":
		return math.Inf(1), h
	case "ninf-h":
		return w, math.Inf(-1)
	}
	return w, h
}

func specialTag(op Op) string {
	if op.K == "custom" && len(op.S) > 1 {
		return "[special=" + op.S[1] + "] "
	}
	return ""
}

func hasNaN(op Op) bool {
	return op.K == "custom" && len(op.S) > 1 && strings.HasPrefix(op.S[1], "nan")
}

// clampBound: a size read from another document went through twips; at a bound of the valid range it is the bound up to unit rounding.
func clampBound(v, tol float64) float64 {
	if v < 12.7 && v >= 12.7-tol {
		return 12.7
	}
	if v > 558.8 && v <= 558.8+tol {
		return 558.8
	}
	return v
}

func hasKids(els []El, name string) bool {
	for _, e := range els {
		if e.N == name && len(e.K) > 0 {
			return true
		}
	}
	return false
}

// widenedLabels names the shapes of another producer's file that the widening added.
func (s *Start) widenedLabels() []string {
	var l []string
	if s.Prefix != "" {
		l = append(l, "start:other-prefix")
	}
	if s.Pretty {
		l = append(l, "start:indented")
	}
	if s.Long {
		l = append(l, "start:end-tags")
	}
	if len(s.SectA) > 0 {
		l = append(l, "start:sectPr-attributes")
	}
	if s.Hdr {
		l = append(l, "start:header-footer-references")
	}
	if len(s.MorePara) > 0 {
		l = append(l, "start:three-or-more-sections")
	}
	if len(s.MorePara) >= 8 {
		l = append(l, "start:ten-sections")
	}
	if hasKids(s.Sect, "sectPrChange") {
		l = append(l, "start:tracked-change-with-old-sectPr")
	}
	if hasKids(s.Sect, "cols") || hasKids(s.Sect, "pgBorders") {
		l = append(l, "start:children-with-children")
	}
	return l
}

package c12

import (
	"regexp"
	"strings"
	"sync"

	"wzverif/internal/kit"
)

// failures of the per-attribute clauses carry "[attr=<PageSettings field>]" so that a finding can be as narrow as its root cause
var attrRe = regexp.MustCompile(`\[attr=(\w+)\]`)

func failAttr(f kit.Failure) string {
	if m := attrRe.FindStringSubmatch(f.Detail); m != nil {
		return m[1]
	}
	return ""
}

// w:pgMar attribute -> PageSettings field
var marField = map[string]string{"top": "MarginTop", "right": "MarginRight", "bottom": "MarginBottom", "left": "MarginLeft",
	"header": "HeaderDistance", "footer": "FooterDistance", "gutter": "GutterWidth"}

const (
	kfMarAbsent = "KF-C12-pgmar-absent-attr"
	kfNegCS     = "KF-C12-negative-charspace"
	kfTwoSect   = "KF-C12-earlier-section"
	kfNaN       = "KF-C12-nan-size"
)

// caseStarts: the opened documents of another producer the history works on.
func caseStarts(c Case) []*Start {
	var out []*Start
	if c.Start != nil {
		out = append(out, c.Start)
	}
	for _, d := range c.More {
		if d.Start != nil {
			out = append(out, d.Start)
		}
	}
	return out
}

var findings = []kit.Finding[Case]{
	{ID: kfMarAbsent, Clause: "C12.S",
		Desc: "a w:pgMar of another producer that lacks w:top/right/bottom/left/header/footer reads back 0 for the missing attribute instead of the documented default (GetPageSettings parses the empty string as 0), and the next setter writes that 0 into the file",
		Trigger: func(c Case, f kit.Failure) bool {
			a := failAttr(f)
			for _, st := range caseStarts(c) {
				for _, n := range st.marAbsent() {
					if n != "gutter" && marField[n] == a {
						return true
					}
				}
			}
			return false
		}},
	{ID: kfNegCS, Clause: "C12.S",
		Desc: "a negative w:docGrid/@w:charSpace of an opened document (usual in CJK documents) is dropped by the next read-modify-write setter (SetPageSettings writes charSpace only when > 0): setting margins changes the character grid",
		Trigger: func(c Case, f kit.Failure) bool {
			for _, st := range caseStarts(c) {
				if st.negCharSpace() && failAttr(f) == "DocGridCharSpace" {
					return true
				}
			}
			return false
		}},
	{ID: kfTwoSect, Clause: "C12.S",
		Desc: "a document with an earlier section (w:pPr/w:sectPr) ends up with two SectionProperties in Body.Elements: GetPageSettings and every setter use the first (the earlier section's), Save writes only the last (body-level): settings are read from the wrong section and every change is lost on save",
		Trigger: func(c Case, f kit.Failure) bool {
			for _, st := range caseStarts(c) {
				if st.HasPara {
					return true
				}
			}
			return false
		}},
	{ID: kfNaN, Clause: "C12.S1",
		Desc: "SetCustomPageSize (and SetPageSettings with Size Custom) accepts a width or height that is not a number: every comparison of the range check is false for NaN, so the call returns nil and writes w:pgSz w:w=\"NaN\" into the main part instead of rejecting a size outside the documented 12.7-558.8 mm",
		Trigger: func(c Case, f kit.Failure) bool {
			if !strings.Contains(f.Detail, "[special=nan") {
				return false
			}
			for _, op := range c.Ops {
				if hasNaN(op) {
					return true
				}
			}
			return false
		}},
}

var (
	openOnce sync.Once
	openKF   map[string]bool
)

// resyncable: the failure is one of an open finding whose effect is confined to one attribute; the history goes on
// from the value the library holds (counted), so that the rest of such a case is still judged.
func resyncable(c Case, f kit.Failure) bool {
	openOnce.Do(func() { openKF = kit.OpenFindings("C12") })
	for _, kf := range findings[:2] {
		if openKF[kf.ID] && kf.Trigger(c, f) {
			return true
		}
	}
	return false
}

package c12

import "wzverif/internal/kit"

var findings = []kit.Finding[Case]{}

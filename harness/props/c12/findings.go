package c12

import (
	"regexp"
	"sync"

	"wzverif/internal/kit"
)

// failures of the per-attribute clauses carry "[attr=<PageSettings field>]" so that a finding can be as narrow as its root cause
var attrRe = regexp.MustCompile(`\[attr=(\w+)\]`)

func failAttr(f kit.Failure) string {
	if m := attrRe.FindStringSubmatch(f.Detail); m != nil {
		return m[1]
	}
	return ""
}

// w:pgMar attribute -> PageSettings field
var marField = map[string]string{"top": "MarginTop", "right": "MarginRight", "bottom": "MarginBottom", "left": "MarginLeft",
	"header": "HeaderDistance", "footer": "FooterDistance", "gutter": "GutterWidth"}

const (
	kfMarAbsent = "KF-C12-pgmar-absent-attr"
	kfNegCS     = "KF-C12-negative-charspace"
	kfTwoSect   = "KF-C12-earlier-section"
)

var findings = []kit.Finding[Case]{
	{ID: kfMarAbsent, Clause: "C12.S",
		Desc: "a w:pgMar of another producer that lacks w:top/right/bottom/left/header/footer reads back 0 for the missing attribute instead of the documented default (GetPageSettings parses the empty string as 0), and the next setter writes that 0 into the file",
		Trigger: func(c Case, f kit.Failure) bool {
			if c.Start == nil {
				return false
			}
			a := failAttr(f)
			for _, n := range c.Start.marAbsent() {
				if n != "gutter" && marField[n] == a {
					return true
				}
			}
			return false
		}},
	{ID: kfNegCS, Clause: "C12.S",
		Desc: "a negative w:docGrid/@w:charSpace of an opened document (usual in CJK documents) is dropped by the next read-modify-write setter (SetPageSettings writes charSpace only when > 0): setting margins changes the character grid",
		Trigger: func(c Case, f kit.Failure) bool {
			return c.Start != nil && c.Start.negCharSpace() && failAttr(f) == "DocGridCharSpace"
		}},
	{ID: kfTwoSect, Clause: "C12.S",
		Desc:    "a document with an earlier section (w:pPr/w:sectPr) ends up with two SectionProperties in Body.Elements: GetPageSettings and every setter use the first (the earlier section's), Save writes only the last (body-level): settings are read from the wrong section and every change is lost on save",
		Trigger: func(c Case, f kit.Failure) bool { return c.Start != nil && c.Start.HasPara }},
}

var (
	openOnce sync.Once
	openKF   map[string]bool
)

// resyncable: the failure is one of an open finding whose effect is confined to one attribute; the history goes on
// from the value the library holds (counted), so that the rest of such a case is still judged.
func resyncable(c Case, f kit.Failure) bool {
	openOnce.Do(func() { openKF = kit.OpenFindings("C12") })
	for _, kf := range findings[:2] {
		if openKF[kf.ID] && kf.Trigger(c, f) {
			return true
		}
	}
	return false
}

package c12

import (
	"bytes"
	"fmt"
	"io"
	"math"
	"reflect"
	"strconv"
	"strings"
	"testing"

	"github.com/zerx-lab/wordZero/pkg/document"
	"pgregory.net/rapid"

	"wzverif/internal/canon"
	"wzverif/internal/kit"
	"wzverif/internal/opc"
)

func TestMain(m *testing.M) {
	document.SetGlobalLevel(document.LogLevelSilent)
	kit.TestMain(m, 3000, 60000)
}

// Op kinds: settings (full struct), size, custom, orient, margins, hfdist, gutter, grid, cleargrid, nil, reopen, para (unrelated edit)
type Op struct {
	K string    `json:"k"`
	S []string  `json:"s,omitempty"`
	F []float64 `json:"f,omitempty"`
	I []int     `json:"i,omitempty"`
}

type Case struct {
	// Start: the section settings of the opened document of another producer; nil = document.New()
	Start *Start `json:"start,omitempty"`
	Ops   []Op   `json:"ops"`
}

var sizes = []document.PageSize{document.PageSizeA4, document.PageSizeLetter, document.PageSizeLegal, document.PageSizeA3, document.PageSizeA5}
var dims = map[document.PageSize][2]float64{document.PageSizeA4: {210, 297}, document.PageSizeLetter: {215.9, 279.4}, document.PageSizeLegal: {215.9, 355.6},
	document.PageSizeA3: {297, 420}, document.PageSizeA5: {148, 210}}
var grids = []string{"default", "lines", "snapToChars", "snapToLines"}

const twip = 1.0 / 56.692913385827 // mm

func lenGen(t *rapid.T, label string, allowNeg bool) float64 {
	switch rapid.IntRange(0, 9).Draw(t, label+"k") {
	case 0:
		return 0
	case 1:
		if allowNeg {
			return -rapid.Float64Range(0.001, 30).Draw(t, label+"neg")
		}
		return 25.4
	case 2:
		return rapid.SampledFrom([]float64{25.4, 12.7, 31.75, 0.01, 100}).Draw(t, label+"std")
	}
	return rapid.Float64Range(0, 120).Draw(t, label)
}

// customDim draws a page dimension: across the valid range, at the bounds +- eps, outside, near predefined sizes.
func customPair(t *rapid.T) (float64, float64, string) {
	switch rapid.IntRange(0, 9).Draw(t, "ck") {
	case 0: // near a predefined size, same or rotated aspect, within/outside the 1 mm tolerance
		p := dims[rapid.SampledFrom(sizes).Draw(t, "near")]
		dw := rapid.SampledFrom([]float64{0, 0.3, -0.3, 0.9, -0.9, 0.99, 1.01, -1.01, 1.5, -2}).Draw(t, "dw")
		dh := rapid.SampledFrom([]float64{0, 0.3, -0.3, 0.9, -0.9, 0.99, 1.01, -1.01, 1.5, -2}).Draw(t, "dh")
		if rapid.Bool().Draw(t, "rot") {
			return p[1] + dw, p[0] + dh, "near-standard-rotated"
		}
		return p[0] + dw, p[1] + dh, "near-standard"
	case 1: // bounds
		b := rapid.SampledFrom([]float64{12.7, 558.8, 12.69, 12.71, 558.79, 558.81, 0, -1, 600, 5}).Draw(t, "bound")
		o := rapid.Float64Range(12.7, 558.8).Draw(t, "other")
		if rapid.Bool().Draw(t, "which") {
			return b, o, "bounds"
		}
		return o, b, "bounds"
	}
	return rapid.Float64Range(12.7, 558.8).Draw(t, "cw"), rapid.Float64Range(12.7, 558.8).Draw(t, "ch"), "custom"
}

func genCase(t *rapid.T) Case {
	var c Case
	if chance(t, "start", 4, 10) {
		c.Start = genStart(t)
	}
	n := rapid.IntRange(1, 25).Draw(t, "n")
	for i := 0; i < n; i++ {
		k := rapid.SampledFrom([]string{"settings", "settings", "size", "size", "custom", "custom", "custom", "orient", "orient", "orient", "margins", "margins", "hfdist", "gutter", "grid", "cleargrid", "nil", "reopen", "reopen", "para"}).Draw(t, "k")
		o := Op{K: k}
		orient := func() string {
			return rapid.SampledFrom([]string{"portrait", "landscape", "portrait", "landscape", "portrait", "landscape", "", "Landscape", "diagonal"}).Draw(t, "orient")
		}
		switch k {
		case "settings":
			// S: size name, orientation, grid type; F: customW, customH, 4 margins, header, footer, gutter; I: linePitch, charSpace
			size := "Custom"
			w, h := 0.0, 0.0
			if rapid.Bool().Draw(t, "predef") {
				size = string(rapid.SampledFrom(sizes).Draw(t, "size"))
			} else {
				w, h, _ = customPair(t)
			}
			// one call in five may carry negative lengths: the docs do not say whether the full-struct
			// call rejects them, so the oracle accepts either outcome but demands that a rejection changes nothing
			loose := rapid.IntRange(0, 4).Draw(t, "loose") == 0
			o.S = []string{size, orient(), rapid.SampledFrom(grids).Draw(t, "grid")}
			o.F = []float64{w, h, lenGen(t, "mt", loose), lenGen(t, "mr", loose), lenGen(t, "mb", loose), lenGen(t, "ml", loose), lenGen(t, "hd", loose), lenGen(t, "fd", loose), lenGen(t, "g", loose)}
			o.I = []int{rapid.IntRange(0, 1000).Draw(t, "lp"), rapid.IntRange(0, 400).Draw(t, "cs")}
		case "size":
			o.S = []string{string(rapid.SampledFrom(sizes).Draw(t, "size"))}
		case "custom":
			w, h, cls := customPair(t)
			o.F = []float64{w, h}
			o.S = []string{cls}
		case "orient":
			o.S = []string{orient()}
		case "margins":
			o.F = []float64{lenGen(t, "mt", true), lenGen(t, "mr", true), lenGen(t, "mb", true), lenGen(t, "ml", true)}
		case "hfdist":
			o.F = []float64{lenGen(t, "hd", true), lenGen(t, "fd", true)}
		case "gutter":
			o.F = []float64{lenGen(t, "g", true)}
		case "grid":
			o.S = []string{rapid.SampledFrom(append(append([]string{}, grids...), "")).Draw(t, "grid")}
			o.I = []int{rapid.IntRange(0, 1000).Draw(t, "lp"), rapid.IntRange(0, 400).Draw(t, "cs")}
		}
		c.Ops = append(c.Ops, o)
	}
	return c
}

// model
type model struct {
	Predef      document.PageSize // "" when custom
	W, H        float64           // logical (portrait-frame) dimensions
	Landscape   bool
	M           [4]float64 // top right bottom left
	Hd, Fd, Gut float64
	Grid        string
	LP, CS      int
	Touched     bool // some page-setting call succeeded
	// Silent: the history started from a file whose orientation the statement is silent about (wide page without
	// w:orient, w:orient contradicting the dimensions) and no call has named the size yet. How such a page is to be
	// reported is not stated, only that calls which do not name it leave the report alone: the size report of the
	// first read (Seen*) must stay, and the physical page (W, H, Landscape -> w:pgSz) is judged in the saved part.
	Silent       bool
	SeenSize     document.PageSize
	SeenW, SeenH float64
}

func defaults() model {
	return model{Predef: document.PageSizeA4, W: 210, H: 297, M: [4]float64{25.4, 25.4, 25.4, 25.4}, Hd: 12.7, Fd: 12.7, Grid: "lines", LP: 312}
}

func near(a, b, tol float64) bool { return math.Abs(a-b) <= tol }

// nearStd returns the predefined size within 1 mm (same aspect) of (w,h), if any.
func nearStd(w, h float64) (document.PageSize, bool) {
	for _, s := range sizes {
		d := dims[s]
		if math.Abs(w-d[0]) < 1 && math.Abs(h-d[1]) < 1 {
			return s, true
		}
	}
	return "", false
}

func (m model) check(res *kit.Result, got *document.PageSettings, where string) {
	tol := 1.001 * twip
	res.Eval("C12.S2")
	bad := func(what string, g, w interface{}) {
		res.Fail("C12.S2", "[attr="+strings.Fields(what)[0]+"] %s: %s reads back %v, the model (most recent call that named it, else the opened file's value, else the default) has %v", where, what, g, w)
	}
	// size
	if m.Silent {
		if got.Size != m.SeenSize || !near(got.CustomWidth, m.SeenW, tol) || !near(got.CustomHeight, m.SeenH, tol) {
			bad("Size (report of the opened file's page, which no call has named)", fmt.Sprintf("%s %.3fx%.3f", got.Size, got.CustomWidth, got.CustomHeight), fmt.Sprintf("%s %.3fx%.3f as first read", m.SeenSize, m.SeenW, m.SeenH))
		}
	} else if m.Predef != "" {
		if got.Size != m.Predef {
			bad("Size", got.Size, m.Predef)
		}
	} else {
		std, isNear := nearStd(m.W, m.H)
		switch {
		case got.Size == document.PageSizeCustom:
			sizeTol := tol
			if isNear {
				sizeTol = 1 + tol
			}
			if !near(got.CustomWidth, m.W, sizeTol) || !near(got.CustomHeight, m.H, sizeTol) {
				bad("Size (custom dimensions)", fmt.Sprintf("%.3fx%.3f", got.CustomWidth, got.CustomHeight), fmt.Sprintf("%.3fx%.3f", m.W, m.H))
			}
		case isNear && got.Size == std:
			// reported as the standard size within the documented 1 mm tolerance
		default:
			bad("Size", got.Size, fmt.Sprintf("Custom %.3fx%.3f", m.W, m.H))
		}
	}
	wantO := document.OrientationPortrait
	if m.Landscape {
		wantO = document.OrientationLandscape
	}
	if got.Orientation != wantO {
		bad("Orientation", got.Orientation, wantO)
	}
	for i, p := range []struct {
		n    string
		g, w float64
	}{{"MarginTop", got.MarginTop, m.M[0]}, {"MarginRight", got.MarginRight, m.M[1]}, {"MarginBottom", got.MarginBottom, m.M[2]}, {"MarginLeft", got.MarginLeft, m.M[3]},
		{"HeaderDistance", got.HeaderDistance, m.Hd}, {"FooterDistance", got.FooterDistance, m.Fd}, {"GutterWidth", got.GutterWidth, m.Gut}} {
		_ = i
		if !near(p.g, p.w, tol) {
			bad(p.n, p.g, p.w)
		}
	}
	if string(got.DocGridType) != m.Grid {
		bad("DocGridType", got.DocGridType, m.Grid)
	}
	if got.DocGridLinePitch != m.LP {
		bad("DocGridLinePitch", got.DocGridLinePitch, m.LP)
	}
	if got.DocGridCharSpace != m.CS {
		bad("DocGridCharSpace", got.DocGridCharSpace, m.CS)
	}
}

// checkXML judges the physical page in the saved main part (S3).
func (m model) checkXML(res *kit.Result, doc *document.Document, where string) {
	if !m.Touched {
		return
	}
	b, err := doc.ToBytes()
	if err != nil {
		return
	}
	pkg, err := opc.Read(b)
	if err != nil {
		return
	}
	root, err := canon.Parse(pkg.Parts["word/document.xml"])
	if err != nil {
		return
	}
	res.Eval("C12.S3")
	body := root.Kid(canon.W, "body")
	sects := body.KidsNamed(canon.W, "sectPr")
	if len(sects) != 1 {
		res.Fail("C12.S3", "%s: %d w:sectPr children in w:body", where, len(sects))
		return
	}
	pg := sects[0].Kid(canon.W, "pgSz")
	if pg == nil {
		res.Fail("C12.S3", "%s: no w:pgSz although page settings were set", where)
		return
	}
	w, _ := strconv.ParseFloat(pg.A(canon.W, "w"), 64)
	h, _ := strconv.ParseFloat(pg.A(canon.W, "h"), 64)
	pw, ph := m.W, m.H
	if m.Landscape {
		pw, ph = ph, pw
	}
	tol := 1.001 // twips
	if m.Predef == "" {
		if _, ok := nearStd(m.W, m.H); ok {
			tol += 56.7 // the documented 1 mm snap to the standard size
		}
	}
	if math.Abs(w-pw/twip) > tol || math.Abs(h-ph/twip) > tol {
		res.Fail("C12.S3", "%s: physical page w:pgSz is %.0fx%.0f twips (%.2fx%.2f mm); logical size %.2fx%.2f mm %s requires %.0fx%.0f", where, w, h, w*twip, h*twip, m.W, m.H,
			map[bool]string{false: "portrait", true: "landscape"}[m.Landscape], pw/twip, ph/twip)
	}
	o := pg.A(canon.W, "orient")
	if (o == "landscape") != m.Landscape {
		res.Fail("C12.S3", "%s: w:pgSz/@w:orient is %q, model landscape=%v", where, o, m.Landscape)
	}
	mar := sects[0].Kid(canon.W, "pgMar")
	if mar != nil {
		for _, p := range []struct {
			a string
			w float64
		}{{"top", m.M[0]}, {"right", m.M[1]}, {"bottom", m.M[2]}, {"left", m.M[3]}, {"header", m.Hd}, {"footer", m.Fd}, {"gutter", m.Gut}} {
			v, _ := strconv.ParseFloat(mar.A(canon.W, p.a), 64)
			if math.Abs(v-p.w/twip) > 1.001 {
				res.Fail("C12.S3", "[attr=%s] %s: w:pgMar/@w:%s is %v twips, model %.3f mm = %.1f twips", marField[p.a], where, p.a, v, p.w, p.w/twip)
			}
		}
	}
}

func sectSnapshot(doc *document.Document) interface{} {
	for _, e := range doc.Body.Elements {
		if sp, ok := e.(*document.SectionProperties); ok {
			cp := *sp
			if sp.PageSize != nil {
				v := *sp.PageSize
				cp.PageSize = &v
			}
			if sp.PageMargins != nil {
				v := *sp.PageMargins
				cp.PageMargins = &v
			}
			if sp.DocGrid != nil {
				v := *sp.DocGrid
				cp.DocGrid = &v
			}
			return cp
		}
	}
	return nil
}

func run(c Case) *kit.Result {
	res := &kit.Result{}
	doc := document.New()
	m := defaults()
	okOps, rejected, reopens := 0, 0, 0
	var shape []string
	// settle decides after a judged step whether the history ends here (true). Failures that belong to an open
	// finding confined to single attributes do not end it: the model takes the library's value of those attributes
	// and the rest of the history is judged as usual.
	settle := func(n0 int, got *document.PageSettings) bool {
		if len(res.Failures) == n0 {
			return false
		}
		for _, f := range res.Failures[n0:] {
			if !resyncable(c, f) {
				return true
			}
		}
		for _, f := range res.Failures[n0:] {
			switch failAttr(f) {
			case "MarginTop":
				m.M[0] = got.MarginTop
			case "MarginRight":
				m.M[1] = got.MarginRight
			case "MarginBottom":
				m.M[2] = got.MarginBottom
			case "MarginLeft":
				m.M[3] = got.MarginLeft
			case "HeaderDistance":
				m.Hd = got.HeaderDistance
			case "FooterDistance":
				m.Fd = got.FooterDistance
			case "DocGridCharSpace":
				m.CS = got.DocGridCharSpace
			}
		}
		res.Count("resynced-after-open-finding", 1)
		return false
	}
	if c.Start != nil {
		if msg := c.Start.valid(); msg != "" {
			res.Label("start:invalid-description")
			res.Shape = "invalid-description"
			return res
		}
		var err error
		if p, st := kit.Try(func() { doc, err = c.Start.open() }); p != nil {
			res.Fail("C12.S0", "opening the document of another producer panicked: %v [%s]", p, st)
			return res
		}
		if err != nil {
			res.Fail("C12.S0", "opening the document of another producer failed: %v", err)
			return res
		}
		var got *document.PageSettings
		if p, st := kit.Try(func() { got = doc.GetPageSettings() }); p != nil {
			res.Fail("C12.S0", "GetPageSettings on the opened document panicked: %v [%s]", p, st)
			return res
		}
		var ambiguous bool
		m, ambiguous = c.Start.model()
		res.Label("start:foreign")
		cls := "plain"
		switch {
		case c.Start.wideNoOrient():
			cls = "wide-no-orient"
		case c.Start.contradicts():
			cls = "orient-contradicts"
		case find(c.Start.Sect, "pgSz") == nil:
			cls = "no-pgSz"
		}
		res.Label("start:" + cls)
		if len(c.Start.marAbsent()) > 0 {
			res.Label("start:pgMar-partial")
		}
		if !c.Start.NoSect && find(c.Start.Sect, "pgMar") == nil {
			res.Label("start:no-pgMar")
		}
		if g := find(c.Start.Sect, "docGrid"); g == nil {
			res.Label("start:no-docGrid")
		} else if _, ok := g.attr("type"); !ok {
			res.Label("start:docGrid-without-type")
		}
		if c.Start.HasPara {
			res.Label("start:two-sections")
		}
		if ambiguous {
			// the statement does not say what the orientation of this page is: adopt what the library reports
			if got.Orientation != document.OrientationPortrait && got.Orientation != document.OrientationLandscape {
				res.Fail("C12.S2", "after open: Orientation reads back %q, neither portrait nor landscape", got.Orientation)
				return res
			}
			m = m.adopt(got.Orientation == document.OrientationLandscape)
			m.Silent, m.SeenSize, m.SeenW, m.SeenH = true, got.Size, got.CustomWidth, got.CustomHeight
		}
		shape = append(shape, "open:"+cls)
		// the empty history: every attribute the file carries reads back as written, the others as the defaults
		m.check(res, got, "after open")
		if settle(0, got) {
			return res
		}
	}
	sawCustomLandscape := false
	for i, op := range c.Ops {
		where := fmt.Sprintf("after op %d %s", i, op.K)
		var before *document.PageSettings
		if p, st := kit.Try(func() { before = doc.GetPageSettings() }); p != nil {
			res.Fail("C12.S0", "GetPageSettings panicked: %v [%s]", p, st)
			return res
		}
		snapBefore := sectSnapshot(doc)
		nm := m
		valid := true
		either := false // undocumented either way: rejection (changing nothing) and acceptance (reading back as set) are both fine
		var err error
		var call func()
		validOrient := func(s string) bool { return s == "portrait" || s == "landscape" }
		validCustom := func(w, h float64) bool { return w >= 12.7 && w <= 558.8 && h >= 12.7 && h <= 558.8 }
		switch op.K {
		case "settings":
			ps := &document.PageSettings{Size: document.PageSize(op.S[0]), CustomWidth: op.F[0], CustomHeight: op.F[1], Orientation: document.PageOrientation(op.S[1]),
				MarginTop: op.F[2], MarginRight: op.F[3], MarginBottom: op.F[4], MarginLeft: op.F[5], HeaderDistance: op.F[6], FooterDistance: op.F[7], GutterWidth: op.F[8],
				DocGridType: document.DocGridType(op.S[2]), DocGridLinePitch: op.I[0], DocGridCharSpace: op.I[1]}
			call = func() { err = doc.SetPageSettings(ps) }
			valid = validOrient(op.S[1]) && (op.S[0] != "Custom" || validCustom(op.F[0], op.F[1]))
			for _, v := range op.F[2:] {
				if v < 0 {
					either = valid
				}
			}
			if op.S[2] == "" {
				either = valid
			}
			nm.Silent = false
			if op.S[0] == "Custom" {
				nm.Predef, nm.W, nm.H = "", op.F[0], op.F[1]
			} else {
				nm.Predef = document.PageSize(op.S[0])
				nm.W, nm.H = dims[nm.Predef][0], dims[nm.Predef][1]
			}
			nm.Landscape = op.S[1] == "landscape"
			nm.M = [4]float64{op.F[2], op.F[3], op.F[4], op.F[5]}
			nm.Hd, nm.Fd, nm.Gut = op.F[6], op.F[7], op.F[8]
			nm.Grid, nm.LP, nm.CS = op.S[2], op.I[0], op.I[1]
		case "size":
			call = func() { err = doc.SetPageSize(document.PageSize(op.S[0])) }
			nm.Predef = document.PageSize(op.S[0])
			nm.W, nm.H = dims[nm.Predef][0], dims[nm.Predef][1]
			nm.Silent = false
		case "custom":
			call = func() { err = doc.SetCustomPageSize(op.F[0], op.F[1]) }
			valid = validCustom(op.F[0], op.F[1])
			nm.Predef, nm.W, nm.H = "", op.F[0], op.F[1]
			nm.Silent = false
			res.Label("custom:" + op.S[0])
		case "orient":
			call = func() { err = doc.SetPageOrientation(document.PageOrientation(op.S[0])) }
			valid = validOrient(op.S[0])
			nm.Landscape = op.S[0] == "landscape"
		case "margins":
			call = func() { err = doc.SetPageMargins(op.F[0], op.F[1], op.F[2], op.F[3]) }
			valid = op.F[0] >= 0 && op.F[1] >= 0 && op.F[2] >= 0 && op.F[3] >= 0
			nm.M = [4]float64{op.F[0], op.F[1], op.F[2], op.F[3]}
		case "hfdist":
			call = func() { err = doc.SetHeaderFooterDistance(op.F[0], op.F[1]) }
			valid = op.F[0] >= 0 && op.F[1] >= 0
			nm.Hd, nm.Fd = op.F[0], op.F[1]
		case "gutter":
			call = func() { err = doc.SetGutterWidth(op.F[0]) }
			valid = op.F[0] >= 0
			nm.Gut = op.F[0]
		case "grid":
			call = func() { err = doc.SetDocGrid(document.DocGridType(op.S[0]), op.I[0], op.I[1]) }
			valid = op.S[0] != ""
			nm.Grid, nm.LP, nm.CS = op.S[0], op.I[0], op.I[1]
		case "cleargrid":
			call = func() { err = doc.ClearDocGrid() }
			d := defaults()
			nm.Grid, nm.LP, nm.CS = d.Grid, d.LP, d.CS
		case "nil":
			call = func() { err = doc.SetPageSettings(nil) }
			valid = false
		case "para":
			call = func() { doc.AddParagraph("text") }
		case "reopen":
			b, e := doc.ToBytes()
			if e != nil {
				res.Fail("C12.S4", "ToBytes failed: %v", e)
				return res
			}
			nd, e := document.OpenFromMemory(io.NopCloser(bytes.NewReader(b)))
			if e != nil {
				res.Fail("C12.S4", "reopen failed: %v", e)
				return res
			}
			doc = nd
			reopens++
			shape = append(shape, "reopen")
			res.Eval("C12.S4")
			var got *document.PageSettings
			if p, st := kit.Try(func() { got = doc.GetPageSettings() }); p != nil {
				res.Fail("C12.S0", "GetPageSettings after reopen panicked: %v [%s]", p, st)
				return res
			}
			n0 := len(res.Failures)
			m.check(res, got, where)
			m.checkXML(res, doc, where)
			for j := n0; j < len(res.Failures); j++ {
				res.Failures[j].Clause = "C12.S4"
			}
			if settle(n0, got) {
				return res
			}
			continue
		}
		if p, st := kit.Try(call); p != nil {
			res.Fail("C12.S0", "op %d %s panicked: %v [%s]", i, op.K, p, st)
			return res
		}
		if either {
			res.Label("settings:undocumented-values")
			if err != nil {
				res.Label("settings:undocumented-values-rejected")
			}
		}
		if !valid || (either && err != nil) {
			rejected++
			res.Eval("C12.S1")
			shape = append(shape, op.K+":rej")
			if err == nil {
				res.Fail("C12.S1", "op %d %s %v %v is documented as invalid but was accepted", i, op.K, op.S, op.F)
				return res
			}
			after := doc.GetPageSettings()
			if !reflect.DeepEqual(before, after) || !reflect.DeepEqual(snapBefore, sectSnapshot(doc)) {
				res.Fail("C12.S1", "op %d %s was rejected (%v) but changed the settings: %+v -> %+v", i, op.K, err, before, after)
				return res
			}
			continue
		}
		if err != nil {
			res.Fail("C12.S2", "op %d %s %v %v %v is a valid request but was rejected: %v", i, op.K, op.S, op.F, op.I, err)
			return res
		}
		if op.K != "para" {
			okOps++
			nm.Touched = true
			if op.K == "cleargrid" {
				nm.Touched = m.Touched
			}
		}
		m = nm
		if m.Predef == "" && m.Landscape {
			sawCustomLandscape = true
		}
		shape = append(shape, op.K)
		var got *document.PageSettings
		if p, st := kit.Try(func() { got = doc.GetPageSettings() }); p != nil {
			res.Fail("C12.S0", "GetPageSettings panicked: %v [%s]", p, st)
			return res
		}
		n0 := len(res.Failures)
		m.check(res, got, where)
		m.checkXML(res, doc, where)
		if settle(n0, got) {
			return res
		}
	}
	if sawCustomLandscape {
		res.Label("custom+landscape")
	}
	if rejected > 0 {
		res.Label("rejected-op")
	}
	if reopens > 0 {
		res.Label("reopen")
	}
	res.Nontrivial = okOps >= 3 && (rejected > 0 || reopens > 0 || c.Start != nil)
	res.Shape = strings.Join(shape, "|")
	return res
}

func TestC12(t *testing.T) {
	kit.Main(t, kit.Spec[Case]{
		ID: "C12", Level: "exploration",
		Rule: "history of 1-25 page-setting calls (SetPageSettings full struct, SetPageSize, SetCustomPageSize, SetPageOrientation, SetPageMargins, SetHeaderFooterDistance, SetGutterWidth, SetDocGrid, ClearDocGrid, nil settings, unrelated edits, save/reopen) with values across the valid ranges, at the bounds +-0.01, outside, near each predefined size in both aspects (+-0.3..2 mm), negative/zero lengths and invalid orientation strings; the history starts from document.New() (6 in 10) or from a harness-written package of another producer opened with OpenFromMemory (4 in 10) whose body-level w:sectPr has w:pgSz without w:orient (portrait- and landscape-shaped), w:orient agreeing with or contradicting the dimensions, w:code, standard/near-standard/bound/square/arbitrary dimensions in twips, w:pgMar complete, with attributes missing, with negative top/bottom or absent, w:docGrid absent, without type/linePitch or with (negative) charSpace, other sectPr children, children and attributes in another order, no sectPr at all, and optionally an earlier section (paragraph-level sectPr); reference model = last value per attribute, else the opened file's value, else the default (orientation of a file the statement is silent about - wide page without w:orient, contradicting w:orient - is adopted from the first read and must then behave like a set value), compared after open and after every call with GetPageSettings (1 twip tolerance; 1 mm for near-standard sizes) and with w:pgSz/w:pgMar of the saved part (the physical page changes only by calls that name size or orientation). non-trivial = >=3 accepted setting calls and (>=1 rejected call or >=1 reopen or a foreign start); distinct = distinct start class + sequence of (op kind, accepted/rejected)",
		Gen:  genCase, Run: run, Findings: findings,
		MustSee: map[string]float64{"custom+landscape": 0.15, "custom:near-standard": 0.05, "custom:near-standard-rotated": 0.05, "custom:bounds": 0.1, "rejected-op": 0.4, "reopen": 0.3,
			"start:foreign": 0.3, "start:wide-no-orient": 0.04, "start:orient-contradicts": 0.03, "start:pgMar-partial": 0.03, "start:no-pgMar": 0.02, "start:no-docGrid": 0.05, "start:docGrid-without-type": 0.02, "start:two-sections": 0.01},
		Assumptions: []string{"negative lengths in the full-struct SetPageSettings call are not documented either way: the check accepts rejection (nothing may change) or acceptance (values read back as set); an empty grid type in the full struct is not generated (its meaning is undocumented)",
			"unknown PageSize names are not generated (not documented as invalid)",
			"opened documents: only the body-level w:sectPr is 'the settings' (an earlier section's sectPr must not be reported or changed instead); page dimensions of the file stay inside the documented 12.7-558.8 mm; a near-standard physical page of a file may be rewritten as the standard size (the documented 1 mm recognition), otherwise the physical page must stay the file's under calls that do not name size or orientation; w:code and other sectPr children are not judged (losslessness is C03/C04)"},
	})
}

package c12

import (
	"bytes"
	"fmt"
	"io"
	"math"
	"reflect"
	"strconv"
	"strings"
	"testing"

	"github.com/zerx-lab/wordZero/pkg/document"
	"pgregory.net/rapid"

	"wzverif/internal/canon"
	"wzverif/internal/kit"
)

func TestMain(m *testing.M) {
	document.SetGlobalLevel(document.LogLevelSilent)
	kit.TestMain(m, 1800, 30000)
}

// Op kinds: settings (full struct), size, custom, orient, margins, hfdist, gutter, grid, cleargrid, nil, reopen, para (unrelated edit),
// copy (read the settings struct of document I[0], optionally change one field, give it to SetPageSettings of document D),
// read (GetPageSettings only; the caller then scribbles on the returned struct), other (an API call that is not a
// page-setting call but works on the same section properties or on the body: headers, footers, title page, tables ...)
type Op struct {
	K string    `json:"k"`
	S []string  `json:"s,omitempty"`
	F []float64 `json:"f,omitempty"`
	I []int     `json:"i,omitempty"`
	D int       `json:"d,omitempty"` // the document the call is made on (0 = the first)
}

// Doc is one further document of the history; Start nil = document.New()
type Doc struct {
	Start *Start `json:"start,omitempty"`
}

type Case struct {
	// Start: the section settings of the opened document of another producer; nil = document.New()
	Start *Start `json:"start,omitempty"`
	// More: further documents (index 1, 2 ...) the calls of the history alternate between
	More []Doc `json:"more,omitempty"`
	Ops  []Op  `json:"ops"`
}

var sizes = []document.PageSize{document.PageSizeA4, document.PageSizeLetter, document.PageSizeLegal, document.PageSizeA3, document.PageSizeA5}
var dims = map[document.PageSize][2]float64{document.PageSizeA4: {210, 297}, document.PageSizeLetter: {215.9, 279.4}, document.PageSizeLegal: {215.9, 355.6},
	document.PageSizeA3: {297, 420}, document.PageSizeA5: {148, 210}}
var grids = []string{"default", "lines", "snapToChars", "snapToLines"}

const twip = 1.0 / 56.692913385827 // mm

func lenGen(t *rapid.T, label string, allowNeg bool) float64 {
	switch rapid.IntRange(0, 10).Draw(t, label+"k") {
	case 0:
		return 0
	case 1:
		if allowNeg {
			return -rapid.Float64Range(0.001, 30).Draw(t, label+"neg")
		}
		return 25.4
	case 2:
		return rapid.SampledFrom([]float64{25.4, 12.7, 31.75, 0.01, 100}).Draw(t, label+"std")
	case 10: // narrow value classes: exactly between two twips, below half a twip, larger than any page
		switch rapid.IntRange(0, 2).Draw(t, label+"nk") {
		case 0:
			return (float64(rapid.IntRange(0, 3000).Draw(t, label+"half")) + 0.5) * twip
		case 1:
			return rapid.SampledFrom([]float64{0.001, 0.0088, 0.0089, 1e-9}).Draw(t, label+"tiny")
		}
		return rapid.SampledFrom([]float64{300, 600, 1000}).Draw(t, label+"big")
	}
	return rapid.Float64Range(0, 120).Draw(t, label)
}

var nearOffsets = []float64{0, 0.3, -0.3, 0.9, -0.9, 0.99, 1.01, -1.01, 1.5, -2, 1, -1, 0.9999, -0.9999}

// customDim draws a page dimension: across the valid range, at the bounds +- eps, outside, near predefined sizes.
func customPair(t *rapid.T) (float64, float64, string) {
	switch rapid.IntRange(0, 9).Draw(t, "ck") {
	case 0: // near a predefined size, same or rotated aspect, within/outside/exactly at the 1 mm tolerance
		p := dims[rapid.SampledFrom(sizes).Draw(t, "near")]
		dw := rapid.SampledFrom(nearOffsets).Draw(t, "dw")
		dh := rapid.SampledFrom(nearOffsets).Draw(t, "dh")
		if rapid.Bool().Draw(t, "rot") {
			return p[1] + dw, p[0] + dh, "near-standard-rotated"
		}
		return p[0] + dw, p[1] + dh, "near-standard"
	case 1: // bounds
		b := rapid.SampledFrom([]float64{12.7, 558.8, 12.69, 12.71, 558.79, 558.81, 0, -1, 600, 5}).Draw(t, "bound")
		o := rapid.Float64Range(12.7, 558.8).Draw(t, "other")
		if rapid.Bool().Draw(t, "which") {
			return b, o, "bounds"
		}
		return o, b, "bounds"
	}
	return rapid.Float64Range(12.7, 558.8).Draw(t, "cw"), rapid.Float64Range(12.7, 558.8).Draw(t, "ch"), "custom"
}

var orients = []string{"portrait", "landscape", "portrait", "landscape", "portrait", "landscape", "portrait", "landscape", "", "Landscape", "diagonal",
	"LANDSCAPE", " landscape", "landscape ", "portrait\n", "Portrait", "\tportrait"}

var opKinds = []string{"settings", "settings", "size", "size", "custom", "custom", "custom", "orient", "orient", "orient", "margins", "margins", "hfdist", "gutter", "grid", "cleargrid", "nil", "reopen", "reopen", "para",
	"copy", "read", "other", "other"}

func gridInts(t *rapid.T) []int {
	lp := rapid.IntRange(0, 1000).Draw(t, "lp")
	if chance(t, "lpbig", 1, 10) {
		lp = rapid.SampledFrom([]int{31680, 1584, 20000}).Draw(t, "lpv")
	}
	cs := rapid.IntRange(0, 400).Draw(t, "cs")
	switch rapid.IntRange(0, 19).Draw(t, "csk") {
	case 0, 1, 2, 3: // compressed character pitch (usual in CJK documents)
		cs = rapid.SampledFrom([]int{-1, -2714, -1844, -4096, -400}).Draw(t, "csneg")
	case 4:
		cs = 40960
	}
	return []int{lp, cs}
}

func genCase(t *rapid.T) Case {
	var c Case
	if chance(t, "start", 4, 10) {
		c.Start = genStart(t)
	}
	nd := 1
	if chance(t, "multi", 1, 4) { // two or three documents used alternately
		nd = rapid.SampledFrom([]int{2, 2, 2, 3}).Draw(t, "ndocs")
		for j := 1; j < nd; j++ {
			var d Doc
			if chance(t, "mstart", 3, 10) {
				d.Start = genStart(t)
			}
			c.More = append(c.More, d)
		}
	}
	n := rapid.IntRange(1, 25).Draw(t, "n")
	if chance(t, "longhist", 1, 25) {
		n = rapid.IntRange(26, 70).Draw(t, "nlong")
	}
	for i := 0; i < n; i++ {
		k := rapid.SampledFrom(opKinds).Draw(t, "k")
		o := Op{K: k}
		if nd > 1 {
			o.D = rapid.IntRange(0, nd-1).Draw(t, "d")
		}
		orient := func() string { return rapid.SampledFrom(orients).Draw(t, "orient") }
		switch k {
		case "settings":
			// S: size name, orientation, grid type; F: customW, customH, 4 margins, header, footer, gutter; I: linePitch, charSpace
			size := "Custom"
			w, h := 0.0, 0.0
			if rapid.Bool().Draw(t, "predef") {
				size = string(rapid.SampledFrom(sizes).Draw(t, "size"))
				if chance(t, "stray", 1, 3) { // custom dimensions (valid or not) next to a predefined size: documented as unused
					w, h, _ = customPair(t)
				}
			} else {
				w, h, _ = customPair(t)
			}
			// one call in five may carry negative lengths: the docs do not say whether the full-struct
			// call rejects them, so the oracle accepts either outcome but demands that a rejection changes nothing
			loose := rapid.IntRange(0, 4).Draw(t, "loose") == 0
			o.S = []string{size, orient(), rapid.SampledFrom(grids).Draw(t, "grid")}
			o.F = []float64{w, h, lenGen(t, "mt", loose), lenGen(t, "mr", loose), lenGen(t, "mb", loose), lenGen(t, "ml", loose), lenGen(t, "hd", loose), lenGen(t, "fd", loose), lenGen(t, "g", loose)}
			o.I = gridInts(t)
			if chance(t, "alldefaults", 1, 12) { // the documented defaults, named explicitly
				o.S = []string{"A4", "portrait", "lines"}
				o.F = []float64{0, 0, 25.4, 25.4, 25.4, 25.4, 12.7, 12.7, 0}
				o.I = []int{312, 0}
			}
		case "size":
			o.S = []string{string(rapid.SampledFrom(sizes).Draw(t, "size"))}
		case "custom":
			w, h, cls := customPair(t)
			o.F = []float64{w, h}
			o.S = []string{cls}
			if chance(t, "special", 1, 60) { // not a number / infinite: outside the documented range like any other invalid size
				o.S = append(o.S, rapid.SampledFrom(specials).Draw(t, "specialv"))
			}
		case "orient":
			o.S = []string{orient()}
		case "margins":
			o.F = []float64{lenGen(t, "mt", true), lenGen(t, "mr", true), lenGen(t, "mb", true), lenGen(t, "ml", true)}
			if chance(t, "mdefaults", 1, 8) {
				o.F = []float64{25.4, 25.4, 25.4, 25.4}
			}
		case "hfdist":
			o.F = []float64{lenGen(t, "hd", true), lenGen(t, "fd", true)}
			if chance(t, "hdefaults", 1, 8) {
				o.F = []float64{12.7, 12.7}
			}
		case "gutter":
			o.F = []float64{lenGen(t, "g", true)}
		case "grid":
			o.S = []string{rapid.SampledFrom(append(append([]string{}, grids...), "")).Draw(t, "grid")}
			o.I = gridInts(t)
			if chance(t, "gdefaults", 1, 8) {
				o.S, o.I = []string{"lines"}, []int{312, 0}
			}
		case "reopen":
			if chance(t, "viafile", 1, 4) {
				o.S = []string{"file"}
			}
		case "copy":
			o.I = []int{rapid.IntRange(0, nd-1).Draw(t, "src")}
			o.S = []string{rapid.SampledFrom([]string{"", "", "top", "flip"}).Draw(t, "tweak")}
			if o.S[0] == "top" {
				o.F = []float64{lenGen(t, "ct", false)}
			}
		case "other":
			o.S = []string{rapid.SampledFrom(otherKinds).Draw(t, "other")}
		}
		c.Ops = append(c.Ops, o)
	}
	return c
}

// model
type model struct {
	Predef      document.PageSize // "" when custom
	W, H        float64           // logical (portrait-frame) dimensions
	Landscape   bool
	M           [4]float64 // top right bottom left
	Hd, Fd, Gut float64
	Grid        string
	LP, CS      int
	Touched     bool // some page-setting call succeeded
	// Silent: the history started from a file whose orientation the statement is silent about (wide page without
	// w:orient, w:orient contradicting the dimensions) and no call has named the size yet. How such a page is to be
	// reported is not stated, only that calls which do not name it leave the report alone: the size report of the
	// first read (Seen*) must stay, and the physical page (W, H, Landscape -> w:pgSz) is judged in the saved part.
	Silent       bool
	SeenSize     document.PageSize
	SeenW, SeenH float64
	// MarNamed: a call (or the opened file) named the margins, so the saved part has to carry w:pgMar.
	// GridNamed: type / line pitch / character space of the grid were named by a call (or carried by the opened file) and
	// no ClearDocGrid came since, so the saved part has to carry them in w:docGrid (observe_at of the property).
	MarNamed  bool
	GridNamed [3]bool
}

func defaults() model {
	return model{Predef: document.PageSizeA4, W: 210, H: 297, M: [4]float64{25.4, 25.4, 25.4, 25.4}, Hd: 12.7, Fd: 12.7, Grid: "lines", LP: 312}
}

func near(a, b, tol float64) bool { return math.Abs(a-b) <= tol }

// nearStd returns the predefined size within 1 mm (same aspect) of (w,h), if any. The stored size is rounded to a
// twip, so a size exactly 1 mm (up to unit rounding) off may be recognised or not: inside nearStd both reports are accepted.
func nearStd(w, h float64) (document.PageSize, bool) {
	for _, s := range sizes {
		d := dims[s]
		if math.Abs(w-d[0]) < 1+1.001*twip && math.Abs(h-d[1]) < 1+1.001*twip {
			return s, true
		}
	}
	return "", false
}

func (m model) check(res *kit.Result, got *document.PageSettings, where string) {
	tol := 1.001 * twip
	res.Eval("C12.S2")
	bad := func(what string, g, w interface{}) {
		res.Fail("C12.S2", "[attr="+strings.Fields(what)[0]+"] %s: %s reads back %v, the model (most recent call that named it, else the opened file's value, else the default) has %v", where, what, g, w)
	}
	// size
	if m.Silent {
		if got.Size != m.SeenSize || !near(got.CustomWidth, m.SeenW, tol) || !near(got.CustomHeight, m.SeenH, tol) {
			bad("Size (report of the opened file's page, which no call has named)", fmt.Sprintf("%s %.3fx%.3f", got.Size, got.CustomWidth, got.CustomHeight), fmt.Sprintf("%s %.3fx%.3f as first read", m.SeenSize, m.SeenW, m.SeenH))
		}
	} else if m.Predef != "" {
		if got.Size != m.Predef {
			bad("Size", got.Size, m.Predef)
		}
	} else {
		std, isNear := nearStd(m.W, m.H)
		switch {
		case got.Size == document.PageSizeCustom:
			sizeTol := tol
			if isNear {
				sizeTol = 1 + tol
			}
			if !near(got.CustomWidth, m.W, sizeTol) || !near(got.CustomHeight, m.H, sizeTol) {
				bad("Size (custom dimensions)", fmt.Sprintf("%.3fx%.3f", got.CustomWidth, got.CustomHeight), fmt.Sprintf("%.3fx%.3f", m.W, m.H))
			}
		case isNear && got.Size == std:
			// reported as the standard size within the documented 1 mm tolerance
		default:
			bad("Size", got.Size, fmt.Sprintf("Custom %.3fx%.3f", m.W, m.H))
		}
	}
	wantO := document.OrientationPortrait
	if m.Landscape {
		wantO = document.OrientationLandscape
	}
	if got.Orientation != wantO {
		bad("Orientation", got.Orientation, wantO)
	}
	for i, p := range []struct {
		n    string
		g, w float64
	}{{"MarginTop", got.MarginTop, m.M[0]}, {"MarginRight", got.MarginRight, m.M[1]}, {"MarginBottom", got.MarginBottom, m.M[2]}, {"MarginLeft", got.MarginLeft, m.M[3]},
		{"HeaderDistance", got.HeaderDistance, m.Hd}, {"FooterDistance", got.FooterDistance, m.Fd}, {"GutterWidth", got.GutterWidth, m.Gut}} {
		_ = i
		if !near(p.g, p.w, tol) {
			bad(p.n, p.g, p.w)
		}
	}
	if string(got.DocGridType) != m.Grid {
		bad("DocGridType", got.DocGridType, m.Grid)
	}
	if got.DocGridLinePitch != m.LP {
		bad("DocGridLinePitch", got.DocGridLinePitch, m.LP)
	}
	if got.DocGridCharSpace != m.CS {
		bad("DocGridCharSpace", got.DocGridCharSpace, m.CS)
	}
}

// checkXML judges the physical page, the margins and the grid in the saved main part (S3), read with archive/zip and
// the harness's own XML reader - nothing of the library.
func (m model) checkXML(res *kit.Result, doc *document.Document, where string) {
	if !m.Touched {
		return
	}
	m.checkPart(res, mainPart(doc), where)
}

// checkPart judges the main part of a saved package.
func (m model) checkPart(res *kit.Result, part []byte, where string) {
	if !m.Touched || part == nil {
		return
	}
	root, err := canon.Parse(part)
	if err != nil {
		return
	}
	res.Eval("C12.S3")
	body := root.Kid(canon.W, "body")
	sects := body.KidsNamed(canon.W, "sectPr")
	if len(sects) != 1 {
		res.Fail("C12.S3", "%s: %d w:sectPr children in w:body", where, len(sects))
		return
	}
	pg := sects[0].Kid(canon.W, "pgSz")
	if pg == nil {
		res.Fail("C12.S3", "%s: no w:pgSz although page settings were set", where)
		return
	}
	w, _ := strconv.ParseFloat(pg.A(canon.W, "w"), 64)
	h, _ := strconv.ParseFloat(pg.A(canon.W, "h"), 64)
	pw, ph := m.W, m.H
	if m.Landscape {
		pw, ph = ph, pw
	}
	tol := 1.001 // twips
	if m.Predef == "" {
		if _, ok := nearStd(m.W, m.H); ok {
			tol += 56.7 // the documented 1 mm snap to the standard size
		}
	}
	if math.Abs(w-pw/twip) > tol || math.Abs(h-ph/twip) > tol {
		res.Fail("C12.S3", "%s: physical page w:pgSz is %.0fx%.0f twips (%.2fx%.2f mm); logical size %.2fx%.2f mm %s requires %.0fx%.0f", where, w, h, w*twip, h*twip, m.W, m.H,
			map[bool]string{false: "portrait", true: "landscape"}[m.Landscape], pw/twip, ph/twip)
	}
	o := pg.A(canon.W, "orient")
	if (o == "landscape") != m.Landscape {
		res.Fail("C12.S3", "%s: w:pgSz/@w:orient is %q, model landscape=%v", where, o, m.Landscape)
	}
	mar := sects[0].Kid(canon.W, "pgMar")
	if mar == nil && m.MarNamed {
		res.Fail("C12.S3", "[attr=MarginTop] %s: the saved w:sectPr has no w:pgMar although the margins were named", where)
	}
	if mar != nil {
		for _, p := range []struct {
			a string
			w float64
		}{{"top", m.M[0]}, {"right", m.M[1]}, {"bottom", m.M[2]}, {"left", m.M[3]}, {"header", m.Hd}, {"footer", m.Fd}, {"gutter", m.Gut}} {
			v, _ := strconv.ParseFloat(mar.A(canon.W, p.a), 64)
			if math.Abs(v-p.w/twip) > 1.001 {
				res.Fail("C12.S3", "[attr=%s] %s: w:pgMar/@w:%s is %v twips, model %.3f mm = %.1f twips", marField[p.a], where, p.a, v, p.w, p.w/twip)
			}
		}
	}
	// the grid as another consumer reads it: the attributes a call named must be in the part with the named values
	// (an absent w:linePitch / w:charSpace is 0 to a consumer); after ClearDocGrid nothing of the grid is demanded
	if m.GridNamed[0] || m.GridNamed[1] || m.GridNamed[2] {
		g := sects[0].Kid(canon.W, "docGrid")
		if g == nil {
			res.Fail("C12.S3", "[attr=DocGridType] %s: the saved w:sectPr has no w:docGrid although the grid was named (type %q, line pitch %d, character space %d)", where, m.Grid, m.LP, m.CS)
			return
		}
		if m.GridNamed[0] {
			if v := g.A(canon.W, "type"); v != m.Grid {
				res.Fail("C12.S3", "[attr=DocGridType] %s: w:docGrid/@w:type is %q, named %q", where, v, m.Grid)
			}
		}
		for i, p := range []struct {
			a, f string
			w    int
		}{{"linePitch", "DocGridLinePitch", m.LP}, {"charSpace", "DocGridCharSpace", m.CS}} {
			if !m.GridNamed[i+1] {
				continue
			}
			raw, has := g.Attr(canon.W, p.a)
			v, err := strconv.Atoi(raw)
			if (has && (err != nil || v != p.w)) || (!has && p.w != 0) {
				res.Fail("C12.S3", "[attr=%s] %s: w:docGrid/@w:%s is %q (present=%v), named %d", p.f, where, p.a, raw, has, p.w)
			}
		}
	}
}

func sectSnapshot(doc *document.Document) interface{} {
	for _, e := range doc.Body.Elements {
		if sp, ok := e.(*document.SectionProperties); ok {
			cp := *sp
			if sp.PageSize != nil {
				v := *sp.PageSize
				cp.PageSize = &v
			}
			if sp.PageMargins != nil {
				v := *sp.PageMargins
				cp.PageMargins = &v
			}
			if sp.DocGrid != nil {
				v := *sp.DocGrid
				cp.DocGrid = &v
			}
			return cp
		}
	}
	return nil
}

// docState is one document of the history with its reference model.
type docState struct {
	doc      *document.Document
	m        model
	xmlFresh bool // the saved part was judged in the document's current state
}

func run(c Case) *kit.Result {
	res := &kit.Result{}
	starts := []*Start{c.Start}
	for _, d := range c.More {
		starts = append(starts, d.Start)
	}
	for _, op := range c.Ops {
		if op.D < 0 || op.D >= len(starts) || (op.K == "copy" && (len(op.I) < 1 || op.I[0] < 0 || op.I[0] >= len(starts))) {
			res.Label("start:invalid-description")
			res.Shape = "invalid-description"
			return res
		}
	}
	for _, st := range starts {
		if st != nil && st.valid() != "" {
			res.Label("start:invalid-description")
			res.Shape = "invalid-description"
			return res
		}
	}
	docs := make([]*docState, len(starts))
	okOps, rejected, reopens := 0, 0, 0
	var shape []string
	// settle decides after a judged step whether the history ends here (true). Failures that belong to an open
	// finding confined to single attributes do not end it: the model takes the library's value of those attributes
	// and the rest of the history is judged as usual.
	settle := func(ds *docState, n0 int, got *document.PageSettings) bool {
		if len(res.Failures) == n0 {
			return false
		}
		for _, f := range res.Failures[n0:] {
			if !resyncable(c, f) {
				return true
			}
		}
		m := &ds.m
		for _, f := range res.Failures[n0:] {
			switch failAttr(f) {
			case "MarginTop":
				m.M[0] = got.MarginTop
			case "MarginRight":
				m.M[1] = got.MarginRight
			case "MarginBottom":
				m.M[2] = got.MarginBottom
			case "MarginLeft":
				m.M[3] = got.MarginLeft
			case "HeaderDistance":
				m.Hd = got.HeaderDistance
			case "FooterDistance":
				m.Fd = got.FooterDistance
			case "DocGridCharSpace":
				m.CS = got.DocGridCharSpace
			}
		}
		res.Count("resynced-after-open-finding", 1)
		return false
	}
	for di, st := range starts {
		ds := &docState{doc: document.New(), m: defaults()}
		docs[di] = ds
		if st == nil {
			continue
		}
		var err error
		if p, stk := kit.Try(func() { ds.doc, err = st.open() }); p != nil {
			res.Fail("C12.S0", "opening the document of another producer panicked: %v [%s]", p, stk)
			return res
		}
		if err != nil {
			res.Fail("C12.S0", "opening the document of another producer failed: %v", err)
			return res
		}
		var got *document.PageSettings
		if p, stk := kit.Try(func() { got = ds.doc.GetPageSettings() }); p != nil {
			res.Fail("C12.S0", "GetPageSettings on the opened document panicked: %v [%s]", p, stk)
			return res
		}
		var ambiguous bool
		ds.m, ambiguous = st.model()
		res.Label("start:foreign")
		cls := "plain"
		switch {
		case st.wideNoOrient():
			cls = "wide-no-orient"
		case st.contradicts():
			cls = "orient-contradicts"
		case find(st.Sect, "pgSz") == nil:
			cls = "no-pgSz"
		}
		res.Label("start:" + cls)
		if len(st.marAbsent()) > 0 {
			res.Label("start:pgMar-partial")
		}
		if !st.NoSect && find(st.Sect, "pgMar") == nil {
			res.Label("start:no-pgMar")
		}
		if g := find(st.Sect, "docGrid"); g == nil {
			res.Label("start:no-docGrid")
		} else if _, ok := g.attr("type"); !ok {
			res.Label("start:docGrid-without-type")
		}
		if st.HasPara {
			res.Label("start:two-sections")
		}
		for _, l := range st.widenedLabels() {
			res.Label(l)
		}
		if ambiguous {
			// the statement does not say what the orientation of this page is: adopt what the library reports
			if got.Orientation != document.OrientationPortrait && got.Orientation != document.OrientationLandscape {
				res.Fail("C12.S2", "after open: Orientation reads back %q, neither portrait nor landscape", got.Orientation)
				return res
			}
			ds.m = ds.m.adopt(got.Orientation == document.OrientationLandscape)
			ds.m.Silent, ds.m.SeenSize, ds.m.SeenW, ds.m.SeenH = true, got.Size, got.CustomWidth, got.CustomHeight
		}
		shape = append(shape, fmt.Sprintf("open%d:%s", di, cls))
		// the empty history: every attribute the file carries reads back as written, the others as the defaults
		where := "after open"
		if di > 0 {
			where = fmt.Sprintf("document %d after open", di)
		}
		n0 := len(res.Failures)
		ds.m.check(res, got, where)
		if settle(ds, n0, got) {
			return res
		}
	}
	if len(docs) > 1 {
		res.Label("docs:several")
	}
	// others: a call on one document names nothing of another document (S5): their settings read back as before
	others := func(d int, where string) bool {
		for e, es := range docs {
			if e == d {
				continue
			}
			var got *document.PageSettings
			if p, st := kit.Try(func() { got = es.doc.GetPageSettings() }); p != nil {
				res.Fail("C12.S0", "GetPageSettings panicked: %v [%s]", p, st)
				return true
			}
			res.Eval("C12.S5")
			n0 := len(res.Failures)
			es.m.check(res, got, fmt.Sprintf("document %d %s on document %d", e, where, d))
			for j := n0; j < len(res.Failures); j++ {
				res.Failures[j].Clause = "C12.S5"
			}
			if settle(es, n0, got) {
				return true
			}
		}
		return false
	}
	sawCustomLandscape := false
	short := len(c.Ops) <= 6
	for i, op := range c.Ops {
		ds := docs[op.D]
		doc := ds.doc
		m := ds.m
		last := i == len(c.Ops)-1
		where := fmt.Sprintf("after op %d %s", i, op.K)
		tag := op.K
		if op.D > 0 {
			where = fmt.Sprintf("document %d after op %d %s", op.D, i, op.K)
			tag = fmt.Sprintf("%d.%s", op.D, op.K)
		}
		var before *document.PageSettings
		if p, st := kit.Try(func() { before = doc.GetPageSettings() }); p != nil {
			res.Fail("C12.S0", "GetPageSettings panicked: %v [%s]", p, st)
			return res
		}
		snapBefore := sectSnapshot(doc)
		nm := m
		valid := true
		either := false // undocumented either way: rejection (changing nothing) and acceptance (reading back as set) are both fine
		setting := true // a page-setting call (counts for Touched / non-triviality)
		var err error
		var call func()
		var held *document.PageSettings // the struct given to SetPageSettings: the caller goes on using it afterwards
		validOrient := func(s string) bool { return s == "portrait" || s == "landscape" }
		validCustom := func(w, h float64) bool { return w >= 12.7 && w <= 558.8 && h >= 12.7 && h <= 558.8 }
		switch op.K {
		case "settings":
			ps := &document.PageSettings{Size: document.PageSize(op.S[0]), CustomWidth: op.F[0], CustomHeight: op.F[1], Orientation: document.PageOrientation(op.S[1]),
				MarginTop: op.F[2], MarginRight: op.F[3], MarginBottom: op.F[4], MarginLeft: op.F[5], HeaderDistance: op.F[6], FooterDistance: op.F[7], GutterWidth: op.F[8],
				DocGridType: document.DocGridType(op.S[2]), DocGridLinePitch: op.I[0], DocGridCharSpace: op.I[1]}
			held = ps
			call = func() { err = doc.SetPageSettings(ps) }
			valid = validOrient(op.S[1]) && (op.S[0] != "Custom" || validCustom(op.F[0], op.F[1]))
			for _, v := range op.F[2:] {
				if v < 0 {
					either = valid
				}
			}
			if op.S[2] == "" {
				either = valid
			}
			if op.S[0] != "Custom" && (op.F[0] != 0 || op.F[1] != 0) {
				res.Label("settings:predefined+stray-custom-dims")
			}
			nm.Silent = false
			if op.S[0] == "Custom" {
				nm.Predef, nm.W, nm.H = "", op.F[0], op.F[1]
			} else {
				nm.Predef = document.PageSize(op.S[0])
				nm.W, nm.H = dims[nm.Predef][0], dims[nm.Predef][1]
			}
			nm.Landscape = op.S[1] == "landscape"
			nm.M = [4]float64{op.F[2], op.F[3], op.F[4], op.F[5]}
			nm.Hd, nm.Fd, nm.Gut = op.F[6], op.F[7], op.F[8]
			nm.Grid, nm.LP, nm.CS = op.S[2], op.I[0], op.I[1]
			nm.MarNamed = true
			if op.S[2] != "" {
				nm.GridNamed = [3]bool{true, true, true}
			}
		case "copy":
			// what user code does with two documents: read the settings of one, change a field, give the struct to the other.
			// The call names every attribute with the value the struct carries.
			src := docs[op.I[0]]
			var ps *document.PageSettings
			if p, st := kit.Try(func() { ps = src.doc.GetPageSettings() }); p != nil || ps == nil {
				res.Fail("C12.S0", "GetPageSettings panicked or returned nil: %v [%s]", p, st)
				return res
			}
			tweak := ""
			if len(op.S) > 0 {
				tweak = op.S[0]
			}
			switch tweak {
			case "top":
				ps.MarginTop = op.F[0]
			case "flip":
				if ps.Orientation == document.OrientationLandscape {
					ps.Orientation = document.OrientationPortrait
				} else {
					ps.Orientation = document.OrientationLandscape
				}
			}
			if _, known := dims[ps.Size]; !known && ps.Size != document.PageSizeCustom {
				// the source reports a size name the documentation does not list: judged on the source, not copied
				res.Label("copy:skipped")
				continue
			}
			given := *ps
			held = ps
			call = func() { err = doc.SetPageSettings(ps) }
			half := 0.5 * twip // the source's size went through twips: a bound reads back up to unit rounding
			valid = validOrient(string(given.Orientation)) && (given.Size != document.PageSizeCustom || validCustom(given.CustomWidth, given.CustomHeight) ||
				(validCustom(clampBound(given.CustomWidth, half), clampBound(given.CustomHeight, half))))
			for _, v := range []float64{given.MarginTop, given.MarginRight, given.MarginBottom, given.MarginLeft, given.HeaderDistance, given.FooterDistance, given.GutterWidth} {
				if v < 0 {
					either = valid
				}
			}
			nm.Silent = false
			if given.Size == document.PageSizeCustom {
				nm.Predef, nm.W, nm.H = "", given.CustomWidth, given.CustomHeight
			} else {
				nm.Predef = given.Size
				nm.W, nm.H = dims[nm.Predef][0], dims[nm.Predef][1]
			}
			nm.Landscape = given.Orientation == document.OrientationLandscape
			nm.M = [4]float64{given.MarginTop, given.MarginRight, given.MarginBottom, given.MarginLeft}
			nm.Hd, nm.Fd, nm.Gut = given.HeaderDistance, given.FooterDistance, given.GutterWidth
			nm.Grid, nm.LP, nm.CS = string(given.DocGridType), given.DocGridLinePitch, given.DocGridCharSpace
			nm.MarNamed = true
			if given.DocGridType != "" {
				nm.GridNamed = [3]bool{true, true, true}
			}
			res.Label("copy")
			if op.I[0] != op.D {
				res.Label("copy:between-documents")
			}
		case "size":
			call = func() { err = doc.SetPageSize(document.PageSize(op.S[0])) }
			nm.Predef = document.PageSize(op.S[0])
			nm.W, nm.H = dims[nm.Predef][0], dims[nm.Predef][1]
			nm.Silent = false
		case "custom":
			w, h := op.F[0], op.F[1]
			if len(op.S) > 1 {
				w, h = special(op.S[1], w, h)
				res.Label("custom:not-a-number-or-infinite")
			}
			call = func() { err = doc.SetCustomPageSize(w, h) }
			valid = validCustom(w, h)
			nm.Predef, nm.W, nm.H = "", w, h
			nm.Silent = false
			res.Label("custom:" + op.S[0])
		case "orient":
			call = func() { err = doc.SetPageOrientation(document.PageOrientation(op.S[0])) }
			valid = validOrient(op.S[0])
			nm.Landscape = op.S[0] == "landscape"
		case "margins":
			call = func() { err = doc.SetPageMargins(op.F[0], op.F[1], op.F[2], op.F[3]) }
			valid = op.F[0] >= 0 && op.F[1] >= 0 && op.F[2] >= 0 && op.F[3] >= 0
			nm.M = [4]float64{op.F[0], op.F[1], op.F[2], op.F[3]}
			nm.MarNamed = true
			if nm.M == defaults().M {
				res.Label("named-with-default-values")
			}
		case "hfdist":
			call = func() { err = doc.SetHeaderFooterDistance(op.F[0], op.F[1]) }
			valid = op.F[0] >= 0 && op.F[1] >= 0
			nm.Hd, nm.Fd = op.F[0], op.F[1]
			nm.MarNamed = true
		case "gutter":
			call = func() { err = doc.SetGutterWidth(op.F[0]) }
			valid = op.F[0] >= 0
			nm.Gut = op.F[0]
			nm.MarNamed = true
		case "grid":
			call = func() { err = doc.SetDocGrid(document.DocGridType(op.S[0]), op.I[0], op.I[1]) }
			valid = op.S[0] != ""
			nm.Grid, nm.LP, nm.CS = op.S[0], op.I[0], op.I[1]
			nm.GridNamed = [3]bool{true, true, true}
			if op.I[1] < 0 {
				res.Label("grid:negative-charspace")
			}
			if d := defaults(); nm.Grid == d.Grid && nm.LP == d.LP && nm.CS == d.CS {
				res.Label("named-with-default-values")
			}
		case "cleargrid":
			call = func() { err = doc.ClearDocGrid() }
			d := defaults()
			nm.Grid, nm.LP, nm.CS = d.Grid, d.LP, d.CS
			nm.GridNamed = [3]bool{}
		case "nil":
			call = func() { err = doc.SetPageSettings(nil) }
			valid = false
		case "para":
			setting = false
			call = func() { doc.AddParagraph("text") }
		case "read":
			// a read names nothing; what the caller does with the returned struct afterwards is the caller's business
			setting = false
			call = func() {
				a := doc.GetPageSettings()
				scribble(a)
				b := doc.GetPageSettings()
				scribble(b)
			}
		case "other":
			// not a page-setting call: it names nothing, whatever it does to the section properties or the body
			setting = false
			kind := op.S[0]
			f := otherCall(doc, kind)
			if f == nil {
				res.Label("start:invalid-description")
				res.Shape = "invalid-description"
				return res
			}
			call = func() { _ = f() }
			res.Label("other")
			res.Label("other:" + kind)
		case "reopen":
			viaFile := len(op.S) > 0 && op.S[0] == "file"
			var nd *document.Document
			var e error
			var saved []byte
			if viaFile {
				nd, saved, e = reopenFile(doc)
				res.Label("reopen:file")
			} else {
				saved, e = doc.ToBytes()
				if e == nil {
					nd, e = document.OpenFromMemory(io.NopCloser(bytes.NewReader(saved)))
				}
			}
			if e != nil || nd == nil {
				res.Fail("C12.S4", "%s: saving and reopening failed: %v", where, e)
				return res
			}
			ds.doc, doc = nd, nd
			reopens++
			shape = append(shape, tag)
			res.Eval("C12.S4")
			var got *document.PageSettings
			if p, st := kit.Try(func() { got = doc.GetPageSettings() }); p != nil {
				res.Fail("C12.S0", "GetPageSettings after reopen panicked: %v [%s]", p, st)
				return res
			}
			n0 := len(res.Failures)
			m.check(res, got, where)
			// the saved package itself is judged here; what the reopened document writes in turn is judged at the next
			// judged call or at the end of the history
			m.checkPart(res, mainPartOf(saved), where+" (the saved package)")
			ds.xmlFresh = false
			for j := n0; j < len(res.Failures); j++ {
				res.Failures[j].Clause = "C12.S4"
			}
			if settle(ds, n0, got) {
				return res
			}
			if others(op.D, fmt.Sprintf("after op %d %s", i, op.K)) {
				return res
			}
			continue
		}
		// the saved main part before a call that is (or may be) rejected: a rejected call leaves it byte-identical
		var partBefore []byte
		if (!valid || either) && (last || i%5 == 0 || (short && i%2 == 0)) {
			partBefore = mainPart(doc)
		}
		if p, st := kit.Try(call); p != nil {
			if op.K == "other" { // not a page-setting call: its own failures belong to other properties; the history ends unjudged
				res.Label("other:panicked")
				return res
			}
			res.Fail("C12.S0", "op %d %s panicked: %v [%s]", i, op.K, p, st)
			return res
		}
		if held != nil {
			scribble(held) // the caller reuses its struct; the document must not be looking at it any more
		}
		if either {
			res.Label("settings:undocumented-values")
			if err != nil {
				res.Label("settings:undocumented-values-rejected")
			}
		}
		if !valid || (either && err != nil) {
			rejected++
			res.Eval("C12.S1")
			shape = append(shape, tag+":rej")
			if err == nil {
				res.Fail("C12.S1", "%sop %d %s %v %v is documented as invalid but was accepted", specialTag(op), i, op.K, op.S, op.F)
				return res
			}
			after := doc.GetPageSettings()
			if !reflect.DeepEqual(before, after) || !reflect.DeepEqual(snapBefore, sectSnapshot(doc)) {
				res.Fail("C12.S1", "op %d %s was rejected (%v) but changed the settings: %+v -> %+v", i, op.K, err, before, after)
				return res
			}
			if partBefore != nil {
				if partAfter := mainPart(doc); partAfter != nil && !bytes.Equal(partBefore, partAfter) {
					res.Fail("C12.S1", "op %d %s was rejected (%v) but the saved main part differs from the one saved before the call: %s", i, op.K, err, firstDiff(partBefore, partAfter))
					return res
				}
			}
			if others(op.D, fmt.Sprintf("after rejected op %d %s", i, op.K)) {
				return res
			}
			continue
		}
		if err != nil {
			res.Fail("C12.S2", "op %d %s %v %v %v is a valid request but was rejected: %v", i, op.K, op.S, op.F, op.I, err)
			return res
		}
		if setting {
			okOps++
			nm.Touched = true
			if op.K == "cleargrid" {
				nm.Touched = m.Touched
			}
		}
		m = nm
		ds.m = nm
		ds.xmlFresh = false
		if m.Predef == "" && m.Landscape {
			sawCustomLandscape = true
		}
		shape = append(shape, tag)
		var got *document.PageSettings
		if p, st := kit.Try(func() { got = doc.GetPageSettings() }); p != nil {
			res.Fail("C12.S0", "GetPageSettings panicked: %v [%s]", p, st)
			return res
		}
		n0 := len(res.Failures)
		m.check(res, got, where)
		if short || last || i%5 == 4 {
			m.checkXML(res, doc, where)
			ds.xmlFresh = true
		}
		if settle(ds, n0, got) {
			return res
		}
		if others(op.D, fmt.Sprintf("after op %d %s", i, op.K)) {
			return res
		}
	}
	// the saved part of every document in its final state
	for di, ds := range docs {
		if !ds.xmlFresh {
			n0 := len(res.Failures)
			ds.m.checkXML(res, ds.doc, fmt.Sprintf("document %d at the end of the history", di))
			if len(res.Failures) > n0 {
				return res
			}
		}
	}
	if sawCustomLandscape {
		res.Label("custom+landscape")
	}
	if rejected > 0 {
		res.Label("rejected-op")
	}
	if reopens > 0 {
		res.Label("reopen")
	}
	if len(c.Ops) > 25 {
		res.Label("history:longer-than-25")
	}
	foreign := false
	for _, st := range starts {
		foreign = foreign || st != nil
	}
	res.Nontrivial = okOps >= 3 && (rejected > 0 || reopens > 0 || foreign)
	res.Shape = strings.Join(shape, "|")
	return res
}

func TestC12(t *testing.T) {
	kit.Main(t, kit.Spec[Case]{
		ID: "C12", Level: "exploration",
		Rule: "history of 1-25 (1 in 25: 26-70) calls on one document or (1 in 4) on two or three documents used alternately: SetPageSettings full struct (also a predefined size next to stray custom dimensions), SetPageSize, SetCustomPageSize, SetPageOrientation, SetPageMargins, SetHeaderFooterDistance, SetGutterWidth, SetDocGrid, ClearDocGrid, nil settings, the settings struct read from one document (unchanged, one margin changed, orientation flipped) given to SetPageSettings of the same or another document, plain reads whose result the caller scribbles on (as it does on every struct it gave to a call), calls that are not page-setting calls but work on the same section properties or the body (AddHeader/AddFooter of the three kinds, page-number footer, SetDifferentFirstPage on/off, page break, table, heading, title), save/reopen through ToBytes+OpenFromMemory or (1 in 4) Save+Open of a file; values across the valid ranges, at the bounds +-0.01, outside, not-a-number/infinite sizes, near each predefined size in both aspects (+-0.3..2 mm and exactly +-1 mm), negative/zero lengths, lengths exactly between two twips, below half a twip and larger than any page, grid line pitch up to 31680, negative and large character space, invalid orientation strings (other case, leading/trailing blank, TAB, newline). Each document is document.New() or (4 in 10 for the first, 3 in 10 for the others) a harness-written package of another producer opened with OpenFromMemory whose body-level w:sectPr has w:pgSz without w:orient (portrait- and landscape-shaped), w:orient agreeing with or contradicting the dimensions, w:code, standard/near-standard/bound/square/arbitrary dimensions in twips, w:pgMar complete, with attributes missing, with negative top/bottom or absent, w:docGrid absent, without type/linePitch or with (negative) charSpace, other sectPr children (also with children of their own: w:cols/w:col, w:pgBorders, w:sectPrChange holding the previous w:sectPr with its own pgSz/pgMar/docGrid), rsid attributes on w:sectPr, header/footer references with their parts, children and attributes in another order, another namespace prefix, indented XML, explicit end tags, no sectPr at all, and one, several or nine earlier sections (paragraph-level sectPr); reference model per document = last value per attribute named by a call on that document, else the opened file's value, else the default (orientation of a file the statement is silent about is adopted from the first read and must then behave like a set value), compared after open and after every call with GetPageSettings of the document called (1 twip tolerance; 1 mm for near-standard sizes) and of every other document, with w:pgSz/w:pgMar/w:docGrid of the saved main part read with archive/zip (after about every fifth call, the last call and for every document at the end), and for rejected calls with the saved main part byte for byte. non-trivial = >=3 accepted setting calls and (>=1 rejected call or >=1 reopen or a foreign start); distinct = distinct start classes + sequence of (document, op kind, accepted/rejected)",
		Gen:  genCase, Run: run, Findings: findings,
		MustSee: map[string]float64{"custom+landscape": 0.15, "custom:near-standard": 0.05, "custom:near-standard-rotated": 0.05, "custom:bounds": 0.1, "rejected-op": 0.4, "reopen": 0.25,
			"start:foreign": 0.3, "start:wide-no-orient": 0.04, "start:orient-contradicts": 0.03, "start:pgMar-partial": 0.03, "start:no-pgMar": 0.02, "start:no-docGrid": 0.05, "start:docGrid-without-type": 0.02, "start:two-sections": 0.01,
			"docs:several": 0.15, "copy": 0.1, "copy:between-documents": 0.015, "other": 0.3, "reopen:file": 0.05, "settings:predefined+stray-custom-dims": 0.15, "grid:negative-charspace": 0.05,
			"start:other-prefix": 0.02, "start:indented": 0.03, "start:end-tags": 0.03, "start:sectPr-attributes": 0.05, "start:header-footer-references": 0.03, "start:tracked-change-with-old-sectPr": 0.015,
			"start:children-with-children": 0.01, "history:longer-than-25": 0.02, "named-with-default-values": 0.06},
		Assumptions: []string{"negative lengths in the full-struct SetPageSettings call are not documented either way: the check accepts rejection (nothing may change) or acceptance (values read back as set); an empty grid type in the full struct is not generated (its meaning is undocumented)",
			"unknown PageSize names are not generated (not documented as invalid); custom dimensions next to a predefined size are documented as unused and must neither be validated nor used",
			"a width or height that is not a number is outside the documented 12.7-558.8 mm like any other invalid size; not-a-number or infinite margins are not generated (only negative margins are documented as invalid)",
			"calls that are not page-setting calls (headers, footers, title page, body content) name no page setting; their own results and errors are not judged here, and a panic in one of them ends the history unjudged",
			"the settings struct is a value of the caller: changing it after SetPageSettings returned, or changing the result of GetPageSettings, names nothing",
			"in the saved part w:pgMar is demanded only once margins, distances or gutter were named (by a call or the opened file), and the attributes of w:docGrid only while the grid is named (not after ClearDocGrid: presence of the grid after ClearDocGrid plus another setter is not judged); an absent w:linePitch / w:charSpace counts as 0",
			"opened documents: only the body-level w:sectPr is 'the settings' (an earlier section's sectPr, or the previous sectPr inside w:sectPrChange, must not be reported or changed instead); page dimensions of the file stay inside the documented 12.7-558.8 mm; a near-standard physical page of a file may be rewritten as the standard size (the documented 1 mm recognition, up to unit rounding at exactly 1 mm), otherwise the physical page must stay the file's under calls that do not name size or orientation; w:code and other sectPr children are not judged (losslessness is C03/C04)"},
	})
}

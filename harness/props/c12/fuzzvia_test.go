package c12

import (
	"testing"

	"wzverif/internal/kit"
)

// FuzzC12: coverage-guided search over the generator and oracle of TestC12 (thorough tier; see internal/kit/fuzz.go).
func FuzzC12(f *testing.F) { kit.FuzzVia(f, TestC12) }

package c12

// Histories that start from a document of another producer. The package is written here with string templates and
// archive/zip only (nothing of pkg/document), so that the page settings under test are whatever
// document.OpenFromMemory makes of a w:sectPr the library did not write itself: w:pgSz without w:orient (portrait-
// and landscape-shaped), w:orient contradicting the dimensions, extra attributes (w:code), w:pgMar with attributes
// absent or negative, no w:pgMar, no w:docGrid / w:docGrid without w:type, children in another order, other
// children in between, and an earlier section (paragraph-level w:sectPr) in front of the body-level one.
//
// Reference model of such a start (from the property statement: a call changes only what it names, attributes
// nobody named read back as the documented defaults): every attribute the body-level w:sectPr carries is the value
// "named" by the file, every attribute it does not carry is the documented default. The physical page is
// w:pgSz/@w:w x @w:h. The orientation is the file's where the file is unambiguous (w:orient agrees with the
// dimensions, or is absent on a page that is not wider than tall); where the statement is silent (w:orient absent
// on a wide page, w:orient contradicting the dimensions) the orientation and the size report of the first read are
// adopted as the starting values - they are not judged against the file, but from then on they have to behave like
// any other value: stable under calls that do not name them (model.Silent), while the physical page is judged in the
// saved part and may change only by calls that name size or orientation (an orientation change swaps it exactly once).

import (
	"archive/zip"
	"bytes"
	"fmt"
	"io"
	"regexp"
	"strconv"
	"strings"

	"github.com/zerx-lab/wordZero/pkg/document"
	"pgregory.net/rapid"
)

// El is one child element of a w:sectPr: local name (w: namespace) and attributes (w: namespace) in file order.
type El struct {
	N string      `json:"n"`
	A [][2]string `json:"a,omitempty"`
	K []El        `json:"k,omitempty"` // child elements (w:cols/w:col, w:pgBorders/w:top, w:sectPrChange/w:sectPr/...)
}

// Start describes the opened package. nil = the history starts from document.New().
type Start struct {
	NoSect  bool `json:"nosect,omitempty"`  // w:body has no w:sectPr child
	Sect    []El `json:"sect,omitempty"`    // children of the body-level w:sectPr, in file order
	HasPara bool `json:"haspara,omitempty"` // an earlier paragraph closes a section of its own (w:pPr/w:sectPr)
	Para    []El `json:"para,omitempty"`    // children of that paragraph-level w:sectPr
	// widened shapes (all optional; the zero value is the plain shape of the earlier rounds)
	MorePara [][]El      `json:"morepara,omitempty"` // further earlier sections in front of Para's (each a paragraph-level w:sectPr)
	Prefix   string      `json:"prefix,omitempty"`   // namespace prefix of the main part instead of "w" (ns0, wx ...)
	Pretty   bool        `json:"pretty,omitempty"`   // indented main part: white space between all elements
	Long     bool        `json:"long,omitempty"`     // <w:pgSz ...></w:pgSz> instead of <w:pgSz .../>
	SectA    [][2]string `json:"secta,omitempty"`    // attributes of the body-level w:sectPr itself (w:rsidR, w:rsidSect ...)
	Hdr      bool        `json:"hdr,omitempty"`      // the section refers to a header and a footer part (w:headerReference/w:footerReference with r:id)
}

const (
	nsW       = "http://schemas.openxmlformats.org/wordprocessingml/2006/main"
	startCT   = `<?xml version="1.0" encoding="UTF-8" standalone="yes"?><Types xmlns="http://schemas.openxmlformats.org/package/2006/content-types"><Default Extension="rels" ContentType="application/vnd.openxmlformats-package.relationships+xml"/><Default Extension="xml" ContentType="application/xml"/><Override PartName="/word/document.xml" ContentType="application/vnd.openxmlformats-officedocument.wordprocessingml.document.main+xml"/></Types>`
	startRels = `<?xml version="1.0" encoding="UTF-8" standalone="yes"?><Relationships xmlns="http://schemas.openxmlformats.org/package/2006/relationships"><Relationship Id="rId1" Type="http://schemas.openxmlformats.org/officeDocument/2006/relationships/officeDocument" Target="word/document.xml"/></Relationships>`
)

func (e El) attr(n string) (string, bool) {
	for _, a := range e.A {
		if a[0] == n {
			return a[1], true
		}
	}
	return "", false
}

func find(els []El, n string) *El {
	for i := range els {
		if els[i].N == n {
			return &els[i]
		}
	}
	return nil
}

func xmlEsc(s string) string {
	return strings.NewReplacer("&", "&amp;", "<", "&lt;", ">", "&gt;", `"`, "&quot;").Replace(s)
}

func (s *Start) pfx() string {
	if s.Prefix == "" {
		return "w"
	}
	return s.Prefix
}

// render writes one element with its attributes and children. ind < 0: no white space.
func (s *Start) render(b *strings.Builder, e El, ind int) {
	p := s.pfx()
	nl := func(d int) {
		if ind >= 0 {
			b.WriteString("\n" + strings.Repeat("  ", ind+d))
		}
	}
	nl(0)
	b.WriteString("<" + p + ":" + e.N)
	for _, a := range e.A {
		n := p + ":" + a[0]
		if strings.Contains(a[0], ":") { // an attribute of another namespace (r:id), written as given
			n = a[0]
		}
		fmt.Fprintf(b, ` %s="%s"`, n, xmlEsc(a[1]))
	}
	if len(e.K) == 0 {
		if s.Long {
			b.WriteString("></" + p + ":" + e.N + ">")
		} else {
			b.WriteString("/>")
		}
		return
	}
	b.WriteString(">")
	for _, k := range e.K {
		ki := ind
		if ind >= 0 {
			ki = ind + 1
		}
		s.render(b, k, ki)
	}
	nl(0)
	b.WriteString("</" + p + ":" + e.N + ">")
}

func (s *Start) sectEl(els []El, body bool) El {
	e := El{N: "sectPr", K: els}
	if body {
		e.A = s.SectA
		if s.Hdr {
			refs := []El{{N: "headerReference", A: [][2]string{{"type", "default"}, {"r:id", "rId7"}}}, {N: "footerReference", A: [][2]string{{"type", "default"}, {"r:id", "rId8"}}}}
			e.K = append(refs, els...)
		}
	}
	return e
}

func (s *Start) sectXML(els []El, body bool, ind int) string {
	var b strings.Builder
	e := s.sectEl(els, body)
	if len(e.K) == 0 { // an empty w:sectPr is written with an end tag, as the earlier rounds did
		p := s.pfx()
		if ind >= 0 {
			b.WriteString("\n" + strings.Repeat("  ", ind))
		}
		b.WriteString("<" + p + ":sectPr")
		for _, a := range e.A {
			fmt.Fprintf(&b, ` %s:%s="%s"`, p, a[0], xmlEsc(a[1]))
		}
		b.WriteString("></" + p + ":sectPr>")
		return b.String()
	}
	s.render(&b, e, ind)
	return b.String()
}

const (
	nsR          = "http://schemas.openxmlformats.org/officeDocument/2006/relationships"
	startCTHdr   = `<?xml version="1.0" encoding="UTF-8" standalone="yes"?><Types xmlns="http://schemas.openxmlformats.org/package/2006/content-types"><Default Extension="rels" ContentType="application/vnd.openxmlformats-package.relationships+xml"/><Default Extension="xml" ContentType="application/xml"/><Override PartName="/word/document.xml" ContentType="application/vnd.openxmlformats-officedocument.wordprocessingml.document.main+xml"/><Override PartName="/word/header1.xml" ContentType="application/vnd.openxmlformats-officedocument.wordprocessingml.header+xml"/><Override PartName="/word/footer1.xml" ContentType="application/vnd.openxmlformats-officedocument.wordprocessingml.footer+xml"/></Types>`
	startDocRels = `<?xml version="1.0" encoding="UTF-8" standalone="yes"?><Relationships xmlns="http://schemas.openxmlformats.org/package/2006/relationships"><Relationship Id="rId7" Type="http://schemas.openxmlformats.org/officeDocument/2006/relationships/header" Target="header1.xml"/><Relationship Id="rId8" Type="http://schemas.openxmlformats.org/officeDocument/2006/relationships/footer" Target="footer1.xml"/></Relationships>`
	startHeader  = `<?xml version="1.0" encoding="UTF-8" standalone="yes"?><w:hdr xmlns:w="` + nsW + `"><w:p><w:r><w:t>header of another producer</w:t></w:r></w:p></w:hdr>`
	startFooter  = `<?xml version="1.0" encoding="UTF-8" standalone="yes"?><w:ftr xmlns:w="` + nsW + `"><w:p><w:r><w:t>footer of another producer</w:t></w:r></w:p></w:ftr>`
)

// mainXML renders the main part.
func (s *Start) mainXML() string {
	p := s.pfx()
	ind := -1
	if s.Pretty {
		ind = 2
	}
	nl := func(d int) string {
		if !s.Pretty {
			return ""
		}
		return "\n" + strings.Repeat("  ", d)
	}
	para := func(text, ppr string) string {
		return nl(2) + "<" + p + ":p>" + ppr + nl(3) + "<" + p + ":r>" + nl(4) + "<" + p + ":t>" + text + "</" + p + ":t>" + nl(3) + "</" + p + ":r>" + nl(2) + "</" + p + ":p>"
	}
	ppr := func(els []El) string {
		i := -1
		if s.Pretty {
			i = 4
		}
		return nl(3) + "<" + p + ":pPr>" + s.sectXML(els, false, i) + nl(3) + "</" + p + ":pPr>"
	}
	var body strings.Builder
	for i, mp := range s.MorePara {
		body.WriteString(para(fmt.Sprintf("section %d", i), ppr(mp)))
	}
	if s.HasPara {
		body.WriteString(para("first section", ppr(s.Para)))
	}
	body.WriteString(para("text", ""))
	if !s.NoSect {
		body.WriteString(s.sectXML(s.Sect, true, ind))
	}
	xr := ""
	if s.Hdr {
		xr = ` xmlns:r="` + nsR + `"`
	}
	return `<?xml version="1.0" encoding="UTF-8" standalone="yes"?>` + nl(0) + "<" + p + `:document xmlns:` + p + `="` + nsW + `"` + xr + ">" + nl(1) + "<" + p + ":body>" + body.String() + nl(1) + "</" + p + ":body>" + nl(0) + "</" + p + ":document>"
}

// docx renders the smallest package around the section settings: content types, package relationships, main part
// (and, with Hdr, the header and footer parts the section refers to with their relationships).
func (s *Start) docx() ([]byte, error) {
	parts := [][2]string{{"[Content_Types].xml", startCT}, {"_rels/.rels", startRels}, {"word/document.xml", s.mainXML()}}
	if s.Hdr {
		parts[0][1] = startCTHdr
		parts = append(parts, [2]string{"word/_rels/document.xml.rels", startDocRels}, [2]string{"word/header1.xml", startHeader}, [2]string{"word/footer1.xml", startFooter})
	}
	var buf bytes.Buffer
	zw := zip.NewWriter(&buf)
	for _, e := range parts {
		f, err := zw.CreateHeader(&zip.FileHeader{Name: e[0], Method: zip.Deflate})
		if err != nil {
			return nil, err
		}
		if _, err := f.Write([]byte(e[1])); err != nil {
			return nil, err
		}
	}
	if err := zw.Close(); err != nil {
		return nil, err
	}
	return buf.Bytes(), nil
}

func (s *Start) open() (*document.Document, error) {
	b, err := s.docx()
	if err != nil {
		return nil, err
	}
	return document.OpenFromMemory(io.NopCloser(bytes.NewReader(b)))
}

var (
	marNames  = []string{"top", "right", "bottom", "left", "header", "footer", "gutter"}
	gridTypes = []string{"default", "lines", "linesAndChars", "snapToChars"} // ST_DocGrid
	nameRe    = regexp.MustCompile(`^[A-Za-z]+$`)
	// page dimensions of the documented valid range 12.7 .. 558.8 mm, in twentieths of a point
	minTw, maxTw = 720, 31680
)

func atoi(s string) (int, bool) {
	v, err := strconv.Atoi(s)
	return v, err == nil && strconv.Itoa(v) == s
}

func validSect(els []El) string {
	seen := map[string]bool{}
	for _, e := range els {
		if !nameRe.MatchString(e.N) {
			return "element name " + e.N
		}
		if seen[e.N] {
			return "element " + e.N + " twice"
		}
		seen[e.N] = true
		an := map[string]bool{}
		for _, a := range e.A {
			if !nameRe.MatchString(a[0]) || an[a[0]] {
				return "attribute " + a[0] + " of " + e.N
			}
			an[a[0]] = true
		}
		if m := validKids(e.K); m != "" {
			return m
		}
		switch e.N {
		case "headerReference", "footerReference":
			return "references need parts the description does not write (see Start.Hdr)"
		case "sectPr":
			return "w:sectPr as a child of w:sectPr"
		}
		if (e.N == "pgSz" || e.N == "pgMar" || e.N == "docGrid") && len(e.K) > 0 {
			return "children of the empty element w:" + e.N
		}
		switch e.N {
		case "pgSz":
			for _, n := range []string{"w", "h"} {
				v, ok := e.attr(n)
				tw, isInt := atoi(v)
				if !ok || !isInt || tw < minTw || tw > maxTw {
					return "w:pgSz/@w:" + n + " outside the valid range"
				}
			}
			if o, ok := e.attr("orient"); ok && o != "portrait" && o != "landscape" {
				return "w:orient " + o
			}
		case "pgMar":
			for _, a := range e.A {
				ok := false
				for _, n := range marNames {
					ok = ok || n == a[0]
				}
				tw, isInt := atoi(a[1])
				if !ok || !isInt || tw < -maxTw || tw > maxTw {
					return "w:pgMar/@w:" + a[0]
				}
			}
		case "docGrid":
			for _, a := range e.A {
				switch a[0] {
				case "type":
					ok := false
					for _, g := range gridTypes {
						ok = ok || g == a[1]
					}
					if !ok {
						return "w:docGrid/@w:type " + a[1]
					}
				case "linePitch":
					if v, isInt := atoi(a[1]); !isInt || v < 0 || v > 31680 {
						return "w:docGrid/@w:linePitch"
					}
				case "charSpace":
					if v, isInt := atoi(a[1]); !isInt || v < -100000 || v > 100000 {
						return "w:docGrid/@w:charSpace"
					}
				default:
					return "w:docGrid/@w:" + a[0]
				}
			}
		}
	}
	return ""
}

// validKids: child elements carry nothing of the settings; only their names have to be XML names.
func validKids(ks []El) string {
	for _, k := range ks {
		if !nameRe.MatchString(k.N) {
			return "element name " + k.N
		}
		an := map[string]bool{}
		for _, a := range k.A {
			if !nameRe.MatchString(a[0]) || an[a[0]] {
				return "attribute " + a[0] + " of " + k.N
			}
			an[a[0]] = true
		}
		if m := validKids(k.K); m != "" {
			return m
		}
	}
	return ""
}

var prefixRe = regexp.MustCompile(`^[A-Za-z][A-Za-z0-9]{0,7}$`)

// valid: the description is inside the domain (hand-written and shrunk cases pass through here too).
func (s *Start) valid() string {
	if s.NoSect && len(s.Sect) > 0 {
		return "children of an absent w:sectPr"
	}
	if s.NoSect && s.HasPara {
		// the last section has no settings of its own but an earlier one has: the statement does not say whose settings a
		// reader reports for such a document
		return "an earlier section without a body-level w:sectPr"
	}
	if !s.HasPara && len(s.Para) > 0 {
		return "children of an absent paragraph-level w:sectPr"
	}
	if s.NoSect && (len(s.MorePara) > 0 || len(s.SectA) > 0 || s.Hdr) {
		return "earlier sections, attributes or references of an absent body-level w:sectPr"
	}
	if s.Prefix != "" && (!prefixRe.MatchString(s.Prefix) || strings.HasPrefix(strings.ToLower(s.Prefix), "xml") || s.Prefix == "r") {
		return "prefix " + s.Prefix
	}
	an := map[string]bool{}
	for _, a := range s.SectA {
		if !nameRe.MatchString(a[0]) || an[a[0]] {
			return "attribute " + a[0] + " of w:sectPr"
		}
		an[a[0]] = true
	}
	if len(s.MorePara) > 8 {
		return "more than 9 earlier sections"
	}
	for _, mp := range s.MorePara {
		if m := validSect(mp); m != "" {
			return m
		}
	}
	if m := validSect(s.Sect); m != "" {
		return m
	}
	return validSect(s.Para)
}

// wideNoOrient / contradicts: the two shapes on which the statement does not say what the orientation is.
func (s *Start) wideNoOrient() bool {
	pg := find(s.Sect, "pgSz")
	if pg == nil {
		return false
	}
	w, _ := pg.attr("w")
	h, _ := pg.attr("h")
	wi, _ := atoi(w)
	hi, _ := atoi(h)
	_, has := pg.attr("orient")
	return !has && wi > hi
}

func (s *Start) contradicts() bool {
	pg := find(s.Sect, "pgSz")
	if pg == nil {
		return false
	}
	w, _ := pg.attr("w")
	h, _ := pg.attr("h")
	wi, _ := atoi(w)
	hi, _ := atoi(h)
	o, has := pg.attr("orient")
	return has && ((o == "landscape" && wi < hi) || (o == "portrait" && wi > hi))
}

// marAbsent lists the w:pgMar attributes a present w:pgMar does not carry.
func (s *Start) marAbsent() []string {
	mar := find(s.Sect, "pgMar")
	if mar == nil {
		return nil
	}
	var out []string
	for _, n := range marNames {
		if _, ok := mar.attr(n); !ok {
			out = append(out, n)
		}
	}
	return out
}

func (s *Start) negCharSpace() bool {
	g := find(s.Sect, "docGrid")
	if g == nil {
		return false
	}
	v, ok := g.attr("charSpace")
	n, _ := atoi(v)
	return ok && n < 0
}

// model derives the reference model of the start. ambiguous: the orientation is to be adopted from the first read
// (m.Landscape is then preliminary); pw, ph: the physical page of the file in mm.
func (s *Start) model() (m model, ambiguous bool) {
	m = defaults()
	if pg := find(s.Sect, "pgSz"); pg != nil {
		w, _ := pg.attr("w")
		h, _ := pg.attr("h")
		wi, _ := atoi(w)
		hi, _ := atoi(h)
		o, _ := pg.attr("orient")
		m.Predef = ""
		m.W, m.H = float64(wi)*twip, float64(hi)*twip // physical
		m.Landscape = o == "landscape"
		ambiguous = s.wideNoOrient() || s.contradicts()
		if m.Landscape {
			m.W, m.H = m.H, m.W
		}
	}
	if mar := find(s.Sect, "pgMar"); mar != nil {
		m.MarNamed = true
		dst := []*float64{&m.M[0], &m.M[1], &m.M[2], &m.M[3], &m.Hd, &m.Fd, &m.Gut}
		for i, n := range marNames {
			if v, ok := mar.attr(n); ok {
				tw, _ := atoi(v)
				*dst[i] = float64(tw) * twip
			}
		}
	}
	if g := find(s.Sect, "docGrid"); g != nil {
		if v, ok := g.attr("type"); ok {
			m.Grid = v
			m.GridNamed[0] = true
		}
		if v, ok := g.attr("linePitch"); ok {
			m.LP, _ = atoi(v)
			m.GridNamed[1] = true
		}
		if v, ok := g.attr("charSpace"); ok {
			m.CS, _ = atoi(v)
			m.GridNamed[2] = true
		}
	}
	return m, ambiguous
}

// adopt fixes the orientation of an ambiguous start to the one the library reported; the physical page stays the file's.
func (m model) adopt(landscape bool) model {
	pw, ph := m.W, m.H
	if m.Landscape {
		pw, ph = ph, pw
	}
	m.Landscape = landscape
	m.W, m.H = pw, ph
	if landscape {
		m.W, m.H = ph, pw
	}
	return m
}

// ---- generator ----

var stdTw = [][2]int{{11906, 16838}, {12240, 15840}, {12240, 20160}, {16838, 23811}, {8391, 11906}}

func clampTw(v int) int {
	if v < minTw {
		return minTw
	}
	if v > maxTw {
		return maxTw
	}
	return v
}

// chance draws true in about num of den cases (false first: shrinking prefers the plain shape).
func chance(t *rapid.T, label string, num, den int) bool {
	opts := make([]bool, den)
	for i := den - num; i < den; i++ {
		opts[i] = true
	}
	return rapid.SampledFrom(opts).Draw(t, label)
}

func shuffle[T any](t *rapid.T, label string, in []T) []T {
	out := append([]T{}, in...)
	for i := len(out) - 1; i > 0; i-- {
		j := rapid.IntRange(0, i).Draw(t, label)
		out[i], out[j] = out[j], out[i]
	}
	return out
}

func genPgSz(t *rapid.T) El {
	var w, h int
	switch rapid.IntRange(0, 9).Draw(t, "pgszk") {
	case 0, 1, 2, 3: // a standard size as producers write it
		p := rapid.SampledFrom(stdTw).Draw(t, "std")
		w, h = p[0], p[1]
	case 4: // a few twips off a standard size (A4 is written 11900x16840, 11909x16834 ... by some producers), inside and outside 1 mm
		p := rapid.SampledFrom(stdTw).Draw(t, "std")
		ds := []int{-80, -60, -50, -6, -3, 0, 3, 6, 30, 50, 60, 80}
		w, h = clampTw(p[0]+rapid.SampledFrom(ds).Draw(t, "dw")), clampTw(p[1]+rapid.SampledFrom(ds).Draw(t, "dh"))
	case 5: // the bounds of the valid range
		w = rapid.SampledFrom([]int{720, 721, 31679, 31680}).Draw(t, "bound")
		h = rapid.IntRange(minTw, maxTw).Draw(t, "other")
	case 6: // square
		w = rapid.IntRange(minTw, maxTw).Draw(t, "sq")
		h = w
	default:
		w, h = rapid.IntRange(minTw, maxTw).Draw(t, "w"), rapid.IntRange(minTw, maxTw).Draw(t, "h")
	}
	if rapid.Bool().Draw(t, "turn") {
		w, h = h, w
	}
	e := El{N: "pgSz", A: [][2]string{{"w", strconv.Itoa(w)}, {"h", strconv.Itoa(h)}}}
	if o := rapid.SampledFrom([]string{"", "", "", "portrait", "landscape", "landscape"}).Draw(t, "orient"); o != "" {
		e.A = append(e.A, [2]string{"orient", o})
	}
	if chance(t, "code", 3, 10) {
		e.A = append(e.A, [2]string{"code", rapid.SampledFrom([]string{"9", "1", "5", "0"}).Draw(t, "codev")})
	}
	if chance(t, "ashuf", 2, 10) {
		e.A = shuffle(t, "ai", e.A)
	}
	return e
}

func genPgMar(t *rapid.T) El {
	e := El{N: "pgMar"}
	// 0: all seven attributes; 1: the four margins only; 2: some attributes missing
	kind := rapid.SampledFrom([]int{0, 0, 0, 0, 0, 0, 1, 2, 2, 2}).Draw(t, "mark")
	for i, n := range marNames {
		if kind == 1 && i >= 4 {
			break
		}
		if kind == 2 && chance(t, "drop", 3, 10) {
			continue
		}
		var v int
		switch rapid.IntRange(0, 9).Draw(t, "mv") {
		case 0:
			v = 0
		case 1:
			if i == 0 || i == 2 { // a negative top/bottom margin is legal WordprocessingML (fixed margin over the header)
				v = -rapid.IntRange(1, 3000).Draw(t, "neg")
			} else {
				v = 1440
			}
		case 2, 3, 4:
			v = rapid.SampledFrom([]int{1440, 1134, 720, 708, 1800, 1417, 567, 851}).Draw(t, "typ")
		default:
			v = rapid.IntRange(0, 6000).Draw(t, "v")
		}
		if i == 6 && rapid.Bool().Draw(t, "g0") {
			v = 0
		}
		e.A = append(e.A, [2]string{n, strconv.Itoa(v)})
	}
	return e
}

func genDocGrid(t *rapid.T) El {
	e := El{N: "docGrid"}
	if chance(t, "gt", 7, 10) {
		e.A = append(e.A, [2]string{"type", rapid.SampledFrom(gridTypes).Draw(t, "type")})
	}
	if chance(t, "gl", 8, 10) {
		e.A = append(e.A, [2]string{"linePitch", strconv.Itoa(rapid.SampledFrom([]int{360, 312, 326, 400, 0, 299, 600}).Draw(t, "lp"))})
	}
	if chance(t, "gc", 3, 10) {
		e.A = append(e.A, [2]string{"charSpace", strconv.Itoa(rapid.SampledFrom([]int{0, 200, 4096, 1, -2714, -1844}).Draw(t, "cs"))})
	}
	return e
}

// children with children of their own: columns of unequal width (w:col carries w:w like w:pgSz), page borders (w:top,
// w:left ... like the w:pgMar attributes) and a tracked change of the section properties, which holds the PREVIOUS
// section properties - a complete w:sectPr with its own w:pgSz/w:pgMar/w:docGrid - inside the current ones.
func genNested(t *rapid.T, pre string) []El {
	var out []El
	if chance(t, pre+"colkids", 1, 2) {
		out = append(out, El{N: "cols", A: [][2]string{{"num", "2"}, {"equalWidth", "0"}}, K: []El{{N: "col", A: [][2]string{{"w", "4000"}, {"space", "720"}}}, {N: "col", A: [][2]string{{"w", "3000"}}}}})
	}
	if chance(t, pre+"borders", 1, 2) {
		b := func(n string) El {
			return El{N: n, A: [][2]string{{"val", "single"}, {"sz", "4"}, {"space", "24"}, {"color", "auto"}}}
		}
		out = append(out, El{N: "pgBorders", A: [][2]string{{"offsetFrom", "page"}}, K: []El{b("top"), b("left"), b("bottom"), b("right")}})
	}
	return out
}

func genChange(t *rapid.T, pre string) El {
	old := []El{}
	if chance(t, pre+"chsz", 8, 10) {
		p := rapid.SampledFrom(stdTw).Draw(t, pre+"chstd")
		e := El{N: "pgSz", A: [][2]string{{"w", strconv.Itoa(p[1])}, {"h", strconv.Itoa(p[0])}, {"orient", "landscape"}}}
		if rapid.Bool().Draw(t, pre+"chport") {
			e = El{N: "pgSz", A: [][2]string{{"w", strconv.Itoa(p[0])}, {"h", strconv.Itoa(p[1])}}}
		}
		old = append(old, e)
	}
	if chance(t, pre+"chmar", 8, 10) {
		old = append(old, El{N: "pgMar", A: [][2]string{{"top", "567"}, {"right", "851"}, {"bottom", "567"}, {"left", "851"}, {"header", "284"}, {"footer", "284"}, {"gutter", "113"}}})
	}
	if chance(t, pre+"chgrid", 5, 10) {
		old = append(old, El{N: "docGrid", A: [][2]string{{"type", "linesAndChars"}, {"linePitch", "435"}, {"charSpace", "2049"}}})
	}
	return El{N: "sectPrChange", A: [][2]string{{"id", "3"}, {"author", "reviewer"}, {"date", "2024-05-06T07:08:00Z"}}, K: []El{{N: "sectPr", K: old}}}
}

// other children of CT_SectPr that carry nothing of the page settings
var otherEls = []El{
	{N: "type", A: [][2]string{{"val", "nextPage"}}},
	{N: "paperSrc", A: [][2]string{{"first", "1"}, {"other", "1"}}},
	{N: "lnNumType", A: [][2]string{{"countBy", "5"}}},
	{N: "pgNumType", A: [][2]string{{"start", "1"}}},
	{N: "cols", A: [][2]string{{"space", "720"}}},
	{N: "vAlign", A: [][2]string{{"val", "top"}}},
	{N: "titlePg"},
	{N: "textDirection", A: [][2]string{{"val", "lrTb"}}},
}

func genSect(t *rapid.T, pre string) []El {
	// schema order: type, pgSz, pgMar, paperSrc, lnNumType, pgNumType, cols, vAlign, titlePg, textDirection, docGrid
	var els []El
	other := func(i int) {
		if chance(t, pre+"other", 3, 10) {
			els = append(els, otherEls[i])
		}
	}
	other(0)
	if chance(t, pre+"haspgsz", 9, 10) {
		els = append(els, genPgSz(t))
	}
	if chance(t, pre+"haspgmar", 17, 20) {
		els = append(els, genPgMar(t))
	}
	for i := 1; i < len(otherEls); i++ {
		other(i)
	}
	if chance(t, pre+"hasgrid", 13, 20) {
		els = append(els, genDocGrid(t))
	}
	if chance(t, pre+"nested", 3, 20) {
		for _, n := range genNested(t, pre) {
			if n.N == "cols" { // in place of the plain w:cols, if any
				kept := els[:0:0]
				for _, e := range els {
					if e.N != "cols" {
						kept = append(kept, e)
					}
				}
				els = kept
			}
			els = append(els, n)
		}
	}
	if chance(t, pre+"shuf", 4, 10) {
		els = shuffle(t, pre+"si", els)
	}
	if chance(t, pre+"change", 1, 10) { // schema order: the tracked change is the last child
		els = append(els, genChange(t, pre))
	}
	return els
}

func genStart(t *rapid.T) *Start {
	s := &Start{}
	if chance(t, "nosect", 1, 20) {
		s.NoSect = true
	} else {
		s.Sect = genSect(t, "")
	}
	if !s.NoSect && chance(t, "haspara", 1, 12) {
		s.HasPara = true
		s.Para = genSect(t, "p")
		if chance(t, "morepara", 1, 3) { // several sections; rarely ten and more
			n := rapid.SampledFrom([]int{1, 1, 2, 2, 3, 8}).Draw(t, "nmore")
			for i := 0; i < n; i++ {
				s.MorePara = append(s.MorePara, genSect(t, "q"))
			}
		}
	}
	if chance(t, "prefix", 1, 8) {
		s.Prefix = rapid.SampledFrom([]string{"ns0", "wx", "W", "w10"}).Draw(t, "prefixv")
	}
	s.Pretty = chance(t, "pretty", 1, 6)
	s.Long = chance(t, "long", 1, 6)
	if !s.NoSect {
		if chance(t, "secta", 1, 3) {
			s.SectA = [][2]string{{"rsidR", "00A12B3C"}, {"rsidRPr", "00D45E6F"}, {"rsidSect", "001A2B3C"}}[:rapid.IntRange(1, 3).Draw(t, "nsecta")]
		}
		s.Hdr = chance(t, "hdr", 1, 5)
	}
	return s
}

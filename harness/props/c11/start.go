package c11

import (
	"bytes"
	"fmt"
	"io"
	"os"
	"path/filepath"
	"strconv"
	"strings"

	"github.com/zerx-lab/wordZero/pkg/document"

	"wzverif/internal/kit"
)

// openForeign opens the package of another producer through one of the two documented ways.
func openForeign(b []byte, viaFile bool) (*document.Document, error) {
	if !viaFile {
		return document.OpenFromMemory(io.NopCloser(bytes.NewReader(b)))
	}
	dir := kit.Scratch
	if dir == "" {
		dir = os.TempDir()
	}
	f, err := os.CreateTemp(dir, "c11-foreign-*.docx")
	if err != nil {
		return nil, fmt.Errorf("harness: scratch file: %v", err)
	}
	name := f.Name()
	defer os.Remove(name)
	if _, err = f.Write(b); err != nil {
		f.Close()
		return nil, fmt.Errorf("harness: scratch file: %v", err)
	}
	f.Close()
	return document.Open(filepath.Clean(name))
}

func tgtName(s StartSlot) string {
	switch s.Tgt {
	case "dot", "abs", "up":
		return s.Tgt
	}
	return "rel"
}

// startLabels names the classes of producer freedom a start layout exercises.
func startLabels(st *Start) []string {
	seen := map[string]bool{}
	var out []string
	add := func(l string) {
		if !seen[l] {
			seen[l] = true
			out = append(out, l)
		}
	}
	refd := 0
	for i, s := range st.Slots {
		if s.Part != libPart(s.key()) {
			add("word-part-names") // any name that is not the library's name for that kind
		}
		if strings.Contains(s.Part, "/") {
			add("part-in-subfolder")
		}
		add("target-" + tgtName(s))
		if s.Pic {
			add("part-with-own-rels-and-picture")
		}
		if s.Unref {
			add("unreferenced-part")
		} else {
			refd++
		}
		if s.ID != "" && s.ID != fmt.Sprintf("rId%d", i+st.firstID()) {
			add("ids-not-contiguous")
		}
		if st.relID(i) == "rId1" {
			add("header-footer-relationship-is-rId1")
		}
		if id := st.relID(i); strings.HasPrefix(id, "rId") && len(id) >= 5 {
			add("header-footer-id-past-rId9")
		}
		if s.Body != "" {
			add("part-body-" + s.Body)
		}
		if s.hasPage() && !s.Unref {
			add("kind-defined-with-page-field")
		}
		// the part carries the name the library uses for ANOTHER slot
		for _, k := range allKeys {
			if k != s.key() && s.Part == libPart(k) {
				add("library-name-of-another-kind")
			}
		}
	}
	if st.RefOrder != nil {
		add("references-permuted")
	}
	if st.StylesID != "" || st.StylesLast {
		add("styles-relationship-not-first-rId1")
	}
	if st.File {
		add("opened-from-file")
	}
	if st.NoStyles {
		add("no-styles-part")
	}
	if st.Pad > 0 {
		add("other-relationships-in-front")
	}
	if st.Pad+len(st.Slots) > 64 {
		add("more-than-64-relationships")
	}
	if len(st.Earlier) > 0 {
		add("multi-section")
		shared, own := false, false
		for _, es := range st.Earlier {
			for _, i := range es.Refs {
				if st.Slots[i].Unref {
					own = true
				} else {
					shared = true
				}
			}
		}
		if own {
			add("multi-section:earlier-section-has-parts-of-its-own")
		}
		if shared {
			add("multi-section:earlier-section-shares-a-part-with-the-last")
		}
		if len(st.Earlier) >= 9 {
			add("multi-section:ten-or-more-sections")
		}
	}
	if st.sparse(false) || st.sparse(true) {
		add("part-numbers-with-gaps")
	}
	for _, k := range allKeys {
		if _, ok := st.slot(k); !ok && st.occupied(libPart(k)) {
			add("library-name-of-a-missing-kind-is-taken")
		}
	}
	nh, nf := 0, 0
	for _, s := range st.Slots {
		if s.Footer {
			nf++
		} else {
			nh++
		}
	}
	if nh >= 10 || nf >= 10 {
		add("ten-or-more-parts-of-one-side")
	}
	add(fmt.Sprintf("kinds-defined=%d", refd))
	return out
}

func startShape(s StartSlot) string {
	x := "start:" + s.key().String() + "=" + s.Part + "@" + tgtName(s)
	if s.Pic {
		x += "+pic"
	}
	if s.Unref {
		x += "+unref"
	}
	if s.Body != "" {
		x += "+" + s.Body
	}
	return x
}

// startLayoutShape is the part of the structural signature that describes the package as a whole.
func startLayoutShape(st *Start) string {
	x := fmt.Sprintf("start-layout:first-id=%d", st.firstID())
	if st.NoStyles {
		x += ",nostyles"
	}
	for _, es := range st.Earlier {
		x += fmt.Sprintf(",sect%v", es.Refs)
	}
	return x
}

// noteForeignDef labels the two things a history does to an opened document of another producer: it defines a kind
// the document already defines (the first such call meets the producer's part, relationship and reference) or a kind it
// does not define yet. nBefore = number of definitions of k so far (the opened document's counts as one).
func noteForeignDef(res *kit.Result, st *Start, k key, nBefore int) {
	if st == nil {
		return
	}
	if len(st.Earlier) > 0 {
		res.Label("foreign-start:multi-section:definition-call")
	}
	if st.NoStyles {
		res.Label("foreign-start:no-styles-part:definition-call")
	}
	if s, ok := st.slot(k); ok {
		if nBefore == 1 {
			res.Label("foreign-start:redefine-existing-kind")
			res.Label("foreign-start:redefine-existing-kind:target-" + tgtName(s))
			if strings.Contains(s.Part, "/") {
				res.Label("foreign-start:redefine-existing-kind:part-in-subfolder")
			}
			if s.Pic {
				res.Label("foreign-start:redefine-existing-kind:part-with-own-rels")
			}
			if s.hasPage() {
				res.Label("foreign-start:redefine-existing-kind:part-with-page-field")
			}
		}
		return
	}
	if nBefore == 0 {
		res.Label("foreign-start:define-missing-kind")
		if st.occupied(libPart(k)) {
			res.Label("foreign-start:define-missing-kind:library-name-taken")
			if st.sparse(k.Footer) {
				res.Label("foreign-start:define-missing-kind:library-name-taken:part-numbers-with-gaps")
			}
		}
	}
}

// occupied says whether a part of the opened package carries the name (below word/).
func (st *Start) occupied(part string) bool {
	for _, s := range st.Slots {
		if s.Part == part {
			return true
		}
	}
	return false
}

// numbered returns N for a part named header<N>.xml / footer<N>.xml directly below word/ (0 otherwise).
func (s StartSlot) numbered() int {
	what := "header"
	if s.Footer {
		what = "footer"
	}
	if !strings.HasPrefix(s.Part, what) || !strings.HasSuffix(s.Part, ".xml") {
		return 0
	}
	n, err := strconv.Atoi(s.Part[len(what) : len(s.Part)-4])
	if err != nil || n < 1 {
		return 0
	}
	return n
}

// sparse says whether the numbered parts of one side leave a number below the highest one unused.
func (st *Start) sparse(footer bool) bool {
	max, cnt := 0, 0
	for _, s := range st.Slots {
		if n := s.numbered(); s.Footer == footer && n > 0 {
			cnt++
			if n > max {
				max = n
			}
		}
	}
	return cnt > 0 && max > cnt
}

package c11

import (
	"bytes"
	"fmt"
	"io"
	"os"
	"path/filepath"
	"strings"

	"github.com/zerx-lab/wordZero/pkg/document"

	"wzverif/internal/kit"
)

// openForeign opens the package of another producer through one of the two documented ways.
func openForeign(b []byte, viaFile bool) (*document.Document, error) {
	if !viaFile {
		return document.OpenFromMemory(io.NopCloser(bytes.NewReader(b)))
	}
	dir := kit.Scratch
	if dir == "" {
		dir = os.TempDir()
	}
	f, err := os.CreateTemp(dir, "c11-foreign-*.docx")
	if err != nil {
		return nil, fmt.Errorf("harness: scratch file: %v", err)
	}
	name := f.Name()
	defer os.Remove(name)
	if _, err = f.Write(b); err != nil {
		f.Close()
		return nil, fmt.Errorf("harness: scratch file: %v", err)
	}
	f.Close()
	return document.Open(filepath.Clean(name))
}

func tgtName(s StartSlot) string {
	switch s.Tgt {
	case "dot", "abs", "up":
		return s.Tgt
	}
	return "rel"
}

// startLabels names the classes of producer freedom a start layout exercises.
func startLabels(st *Start) []string {
	seen := map[string]bool{}
	var out []string
	add := func(l string) {
		if !seen[l] {
			seen[l] = true
			out = append(out, l)
		}
	}
	refd := 0
	for i, s := range st.Slots {
		if s.Part != libPart(s.key()) {
			add("word-part-names") // any name that is not the library's name for that kind
		}
		if strings.Contains(s.Part, "/") {
			add("part-in-subfolder")
		}
		add("target-" + tgtName(s))
		if s.Pic {
			add("part-with-own-rels-and-picture")
		}
		if s.Unref {
			add("unreferenced-part")
		} else {
			refd++
		}
		if s.ID != "" && s.ID != fmt.Sprintf("rId%d", i+2) {
			add("ids-not-contiguous")
		}
		// the part carries the name the library uses for ANOTHER slot
		for _, k := range allKeys {
			if k != s.key() && s.Part == libPart(k) {
				add("library-name-of-another-kind")
			}
		}
	}
	if st.RefOrder != nil {
		add("references-permuted")
	}
	if st.StylesID != "" || st.StylesLast {
		add("styles-relationship-not-first-rId1")
	}
	if st.File {
		add("opened-from-file")
	}
	add(fmt.Sprintf("kinds-defined=%d", refd))
	return out
}

func startShape(s StartSlot) string {
	x := "start:" + s.key().String() + "=" + s.Part + "@" + tgtName(s)
	if s.Pic {
		x += "+pic"
	}
	if s.Unref {
		x += "+unref"
	}
	return x
}

// noteForeignDef labels the two things a history does to an opened document of another producer: it defines a kind
// the document already defines (the first such call meets the producer's part, relationship and reference) or a kind it
// does not define yet. nBefore = number of definitions of k so far (the opened document's counts as one).
func noteForeignDef(res *kit.Result, st *Start, k key, nBefore int) {
	if st == nil {
		return
	}
	if s, ok := st.slot(k); ok {
		if nBefore == 1 {
			res.Label("foreign-start:redefine-existing-kind")
			res.Label("foreign-start:redefine-existing-kind:target-" + tgtName(s))
			if strings.Contains(s.Part, "/") {
				res.Label("foreign-start:redefine-existing-kind:part-in-subfolder")
			}
			if s.Pic {
				res.Label("foreign-start:redefine-existing-kind:part-with-own-rels")
			}
		}
		return
	}
	if nBefore == 0 {
		res.Label("foreign-start:define-missing-kind")
	}
}

package c11

import (
	"bytes"
	"fmt"
	"io"
	"sort"
	"strconv"
	"strings"

	"github.com/zerx-lab/wordZero/pkg/document"

	"wzverif/internal/canon"
	"wzverif/internal/gen"
	"wzverif/internal/kit"
	"wzverif/internal/opc"
)

// Fmt mirrors document.TextFormat (plain data).
type Fmt struct {
	Bold      bool   `json:"b,omitempty"`
	Italic    bool   `json:"i,omitempty"`
	Underline bool   `json:"u,omitempty"`
	Strike    bool   `json:"s,omitempty"`
	Size      int    `json:"sz,omitempty"` // points
	Color     string `json:"c,omitempty"`
	Font      string `json:"f,omitempty"`  // FontFamily (preferred field)
	FontName  string `json:"fn,omitempty"` // documented alias
	Highlight string `json:"h,omitempty"`
}

func (f *Fmt) tf() *document.TextFormat {
	if f == nil {
		return nil
	}
	return &document.TextFormat{Bold: f.Bold, Italic: f.Italic, Underline: f.Underline, Strike: f.Strike, FontSize: f.Size,
		FontColor: f.Color, FontFamily: f.Font, FontName: f.FontName, Highlight: f.Highlight}
}

// Op is one step of a history.
//
//	hdr ftr        AddHeader / AddFooter (Kind, Text)
//	hdrpn ftrpn    AddHeaderWithPageNumber / AddFooterWithPageNumber (Kind, Text, PN)
//	hdrfmt ftrfmt  AddFormattedHeader / AddFormattedFooter (Kind, Text, Fmt, Align; NilCfg = nil config)
//	firstpage      SetDifferentFirstPage(B)
//	pagesize orient margins hfdist   page-setting calls (S / F)
//	image list para                 unrelated content
//	reopen         ToBytes -> OpenFromMemory, continue on the reopened document
//	render         LoadTemplateFromDocument + RenderTemplateToDocument without data; B = continue on the rendered document
//	render2        LoadTemplateFromDocument once + two RenderTemplateToDocument calls without data (documents A and B), then
//	               A is extended with the calls XA and B with the calls XB (definitions, page settings, content; Ord = order of
//	               the renders and extensions), and only then both are judged, each against its own model; Cont = 0 continue on
//	               the template document, 1 on A, 2 on B. The documents left behind are judged once more at the end of the history.
//	twin           a second document of the same process, made the way the first one was (document.New(), or the same package
//	               of another producer opened once more), receives the calls XA and is saved and judged against its own model;
//	               the first document is judged at its next definition or at the end of the history, the twin once more
//	               at the end if the first document went on in between.
type Op struct {
	K      string    `json:"k"`
	Kind   string    `json:"kind,omitempty"`
	Text   string    `json:"text,omitempty"`
	Cls    string    `json:"cls,omitempty"`
	PN     bool      `json:"pn,omitempty"`
	Fmt    *Fmt      `json:"fmt,omitempty"`
	NilCfg bool      `json:"nilcfg,omitempty"`
	Align  string    `json:"align,omitempty"`
	B      bool      `json:"b,omitempty"`
	S      string    `json:"s,omitempty"`
	F      []float64 `json:"f,omitempty"`
	Img    *gen.Img  `json:"img,omitempty"`
	XA     []Op      `json:"xa,omitempty"`
	XB     []Op      `json:"xb,omitempty"`
	Ord    string    `json:"ord,omitempty"` // render2: "rrab" render A, render B, extend A, extend B; "rarb" render A, extend A, render B, extend B; "alt" render both, extend alternately
	Cont   int       `json:"cont,omitempty"`
}

type Case struct {
	Start *Start `json:"start,omitempty"` // nil: the history starts from document.New()
	Ops   []Op   `json:"ops"`
}

// key identifies a definition slot: header or footer x kind.
type key struct {
	Footer bool
	Kind   string
}

func (k key) String() string {
	if k.Footer {
		return "footer/" + k.Kind
	}
	return "header/" + k.Kind
}

var allKeys = []key{{false, "default"}, {false, "first"}, {false, "even"}, {true, "default"}, {true, "first"}, {true, "even"}}

// opKey returns the slot an op defines (ok=false for the other ops).
func opKey(o Op) (key, bool) {
	switch o.K {
	case "hdr", "hdrpn", "hdrfmt":
		return key{false, o.Kind}, true
	case "ftr", "ftrpn", "ftrfmt":
		return key{true, o.Kind}, true
	}
	return key{}, false
}

// def is the reference model's content of a slot: the most recent call.
type def struct {
	Loose bool // the statement leaves open whether the kind is defined (see startModel): nothing is demanded until a call defines it
	Text  string
	PN    bool
	Fmt   *Fmt   // nil: no run formatting
	Align string // "" : not set
	Op    int
	Via   string
}

// defOf derives the definition a call makes from the API documentation.
func defOf(o Op, idx int) def {
	d := def{Op: idx, Via: o.K}
	switch o.K {
	case "hdr", "ftr":
		d.Text = o.Text
	case "hdrpn", "ftrpn":
		d.Text, d.PN = o.Text, o.PN
	case "hdrfmt", "ftrfmt":
		if !o.NilCfg {
			d.Text, d.Fmt, d.Align = o.Text, o.Fmt, o.Align
		}
	}
	return d
}

type model map[key]def

// defined counts the kinds the model holds a definition for.
func (m model) defined() int {
	n := 0
	for _, d := range m {
		if !d.Loose {
			n++
		}
	}
	return n
}

// startModel is the model of a document of another producer right after it was opened: the kinds its section settings
// (the body-level w:sectPr) reference are defined by the referenced parts. A kind that only an earlier section references
// is left open: by the format's rules the last section inherits the header/footer of the section before when it has no
// reference of its own, and the statement does not say whether that counts as a definition of the document - such a
// kind may or may not be referenced until a call defines it.
func startModel(st *Start) model {
	m := model{}
	for _, es := range st.Earlier {
		for _, i := range es.Refs {
			if i >= 0 && i < len(st.Slots) {
				m[st.Slots[i].key()] = def{Loose: true, Op: -1, Via: "other producer, earlier section"}
			}
		}
	}
	for _, s := range st.Slots {
		if !s.Unref {
			m[s.key()] = def{Text: s.Text, PN: s.hasPage(), Op: -1, Via: "other producer, part " + s.Part + ", target " + s.target()}
		}
	}
	return m
}

func tag(k key, op int, what string, extra string) string {
	if extra != "" {
		extra = " " + extra
	}
	return fmt.Sprintf("[k=%s op=%d what=%s%s]", k, op, what, extra)
}

// judgePackage evaluates H1-H3 on a saved package. phase "" = a save of the live document (clauses H1..H3);
// "reopen"/"render" = the same demands after reopening / rendering (clause H4); a phase that starts with "~" only names
// the document that was saved (clauses H1..H3), for histories that work on more than one document.
func judgePackage(res *kit.Result, b []byte, m model, phase string, op int) {
	note := ""
	if strings.HasPrefix(phase, "~") {
		note, phase = " ("+phase[1:]+")", ""
	}
	cl := func(c string) string {
		if phase != "" {
			return "C11.H4"
		}
		return c
	}
	where := fmt.Sprintf("after op %d", op)
	if phase != "" {
		where += " (" + phase + ")"
	}
	where += note
	if phase != "" {
		res.Eval("C11.H4")
	} else {
		res.Eval("C11.H1")
		res.Eval("C11.H2")
		res.Eval("C11.H3")
	}
	pkg, err := opc.Read(b)
	if err != nil {
		res.Fail(cl("C11.H2"), "%s %s: saved package unreadable: %v", tag(key{}, op, "package", ""), where, err)
		return
	}
	main := "word/document.xml"
	if mp := pkg.MainParts(); len(mp) == 1 && mp[0].Resolved != "" {
		main = mp[0].Resolved
	}
	root, err := canon.Parse(pkg.Parts[main])
	if err != nil {
		res.Fail(cl("C11.H1"), "%s %s: main part unreadable: %v", tag(key{}, op, "package", ""), where, err)
		return
	}
	refs, bodySects := sectionRefs(root)

	// ---- H1: at most one reference per kind and section; the section settings of the document (the body-level w:sectPr,
	// which describes the last section) hold only and all kinds of the model. An earlier section that a document of another
	// producer brought along (w:sectPr inside a w:pPr) is that producer's: the statement does not say what the
	// document-level calls do to it, so there only the multiplicity and the resolvability of the references are judged.
	type sk struct {
		k    key
		sect int
	}
	bySlot := map[sk][]secRef{}
	byKey := map[key][]secRef{}
	docLevel := map[sk]bool{}
	var order []sk
	for _, r := range refs {
		t := r.Type
		k := key{r.Footer, t}
		if t != "default" && t != "first" && t != "even" {
			res.Fail(cl("C11.H1"), "%s %s: %s reference with w:type=%q (present=%v)", tag(k, op, "bad-type", ""), where, map[bool]string{false: "header", true: "footer"}[r.Footer], t, r.HasTyp)
			continue
		}
		s := sk{k, r.Sect}
		if _, ok := bySlot[s]; !ok {
			order = append(order, s)
			docLevel[s] = r.Doc
		}
		bySlot[s] = append(bySlot[s], r)
		if r.Doc {
			byKey[k] = append(byKey[k], r)
		}
	}
	for _, s := range order {
		rs := bySlot[s]
		if len(rs) > 1 {
			var ids, tg []string
			for _, r := range rs {
				ids = append(ids, r.ID)
				t := "?"
				if rr := resolveRef(pkg, main, r.ID); len(rr) == 1 {
					t = rr[0].Resolved
				}
				tg = append(tg, t)
			}
			res.Fail(cl("C11.H1"), "%s %s: w:sectPr holds %d %s references of type %q (ids %v)", tag(s.k, op, "dup-ref", fmt.Sprintf("n=%d targets=%s", len(rs), strings.Join(tg, ","))), where, len(rs),
				map[bool]string{false: "header", true: "footer"}[s.k.Footer], s.k.Kind, ids)
		}
		if _, ok := m[s.k]; !ok && docLevel[s] {
			res.Fail(cl("C11.H1"), "%s %s: w:sectPr references a %s that no call defined (id %s)", tag(s.k, op, "unexpected-ref", ""), where, s.k, rs[0].ID)
		}
	}
	for _, k := range allKeys {
		if d, ok := m[k]; ok && !d.Loose && len(byKey[k]) == 0 {
			res.Fail(cl("C11.H1"), "%s %s: %s was defined by op %d (%s) but w:sectPr has no reference of that kind (%d w:sectPr in w:body)", tag(k, op, "missing-ref", ""), where, k, m[k].Op, m[k].Via, bodySects)
		}
	}

	// ---- H2 / H3 per reference
	for _, r := range refs {
		k := key{r.Footer, r.Type}
		if r.Type != "default" && r.Type != "first" && r.Type != "even" {
			continue
		}
		rels := resolveRef(pkg, main, r.ID)
		if len(rels) == 0 {
			res.Fail(cl("C11.H2"), "%s %s: reference id %q of %s has no relationship in the relationships of %s", tag(k, op, "dangling", ""), where, r.ID, k, main)
			continue
		}
		if len(rels) > 1 {
			res.Fail(cl("C11.H2"), "%s %s: reference id %q of %s matches %d relationships (%s, %s ...)", tag(k, op, "ambiguous-id", ""), where, r.ID, k, len(rels), rels[0].Target, rels[1].Target)
			continue
		}
		rel := rels[0]
		want := relHeader
		wantRoot := "w:hdr"
		if r.Footer {
			want, wantRoot = relFooter, "w:ftr"
		}
		if rel.Type != want || rel.External() {
			res.Fail(cl("C11.H2"), "%s %s: reference %q of %s resolves to a relationship of type %q mode %q (target %q)", tag(k, op, "wrong-rel-type", ""), where, r.ID, k, rel.Type, rel.Mode, rel.Target)
			continue
		}
		data, ok := pkg.Parts[rel.Resolved]
		if !ok {
			res.Fail(cl("C11.H2"), "%s %s: reference %q of %s targets %q: no such part in the package", tag(k, op, "missing-part", ""), where, r.ID, k, rel.Resolved)
			continue
		}
		pv, err := viewPart(data)
		if err != nil {
			res.Fail(cl("C11.H2"), "%s %s: part %s of %s is not parseable: %v", tag(k, op, "bad-part", ""), where, rel.Resolved, k, err)
			continue
		}
		if pv.Root != wantRoot {
			res.Fail(cl("C11.H2"), "%s %s: part %s referenced as %s has root <%s>, want <%s>", tag(k, op, "wrong-root", ""), where, rel.Resolved, k, pv.Root, wantRoot)
			continue
		}
		d, ok := m[k]
		if !ok || !r.Doc || d.Loose {
			continue // not defined: already reported by H1; an earlier section: not the document's section settings; left open
		}
		for _, msg := range compareDef(pv, d) {
			res.Fail(cl("C11.H3"), "%s %s: part %s of %s (most recent call: op %d %s): %s", tag(k, op, "content", "part="+rel.Resolved), where, rel.Resolved, k, d.Op, d.Via, msg)
		}
	}
}

// compareDef compares what a reader sees in the part with the most recent definition (H3).
func compareDef(pv *partView, d def) []string {
	var out []string
	var visible string
	var fields []field
	var runs []textRun
	for _, p := range pv.Paras {
		visible += p.Visible
		fields = append(fields, p.Fields...)
		runs = append(runs, p.Runs...)
		for _, pr := range p.Problems {
			out = append(out, "field markup: "+pr)
		}
	}
	pages := 0
	for _, f := range fields {
		if f.isPage() {
			pages++
		}
	}
	if d.PN {
		// the documentation does not fix the wording around the number: the user's text must be there, contiguous
		if !strings.Contains(visible, d.Text) {
			out = append(out, fmt.Sprintf("visible text %q does not contain the text %q of the most recent call", visible, d.Text))
		}
		if pages == 0 {
			out = append(out, fmt.Sprintf("a page number was requested but the part has no PAGE field (fields: %+v)", fields))
		}
	} else {
		if visible != d.Text {
			out = append(out, fmt.Sprintf("visible text is %q, the most recent call set %q", visible, d.Text))
		}
		if len(fields) > 0 {
			out = append(out, fmt.Sprintf("no page number was requested by the most recent call but the part holds field(s) %+v", fields))
		}
	}
	// formatting of every visible run
	want := wantFmt(d.Fmt)
	for _, r := range runs {
		if msg := diffFmt(r.Fmt, want); msg != "" {
			out = append(out, fmt.Sprintf("run %q: %s", clip(r.Text, 40), msg))
			break
		}
	}
	// alignment
	if len(pv.Paras) == 0 {
		if d.Text != "" || d.PN || d.Align != "" {
			out = append(out, "the part has no paragraph")
		}
	}
	for _, p := range pv.Paras {
		if d.Align != "" {
			if !p.HasJc || p.Jc != d.Align {
				out = append(out, fmt.Sprintf("alignment: w:jc is %q (present=%v), the most recent call set %q", p.Jc, p.HasJc, d.Align))
				break
			}
		} else if p.HasJc && p.Jc != "left" && p.Jc != "start" {
			out = append(out, fmt.Sprintf("alignment: w:jc is %q although the most recent call set no alignment", p.Jc))
			break
		}
	}
	return out
}

type wantedFmt struct {
	Bold, Italic, Underline, Strike bool
	Sz, Color, Font, Highlight      string
}

func wantFmt(f *Fmt) wantedFmt {
	var w wantedFmt
	if f == nil {
		return w
	}
	w.Bold, w.Italic, w.Underline, w.Strike = f.Bold, f.Italic, f.Underline, f.Strike
	if f.Size > 0 {
		w.Sz = strconv.Itoa(f.Size * 2) // w:sz counts half points, the API takes points
	}
	// a colour is six hex digits; callers also write it the CSS way ("#1F4E79", the spelling the same TextFormat is
	// accepted with by the paragraph calls): the colour asked for is the six digits, and those are what w:color/@w:val
	// can hold (ST_HexColor has no '#')
	w.Color = strings.TrimPrefix(f.Color, "#")
	w.Font = f.Font // FontFamily is the preferred field, FontName its alias
	if w.Font == "" {
		w.Font = f.FontName
	}
	w.Highlight = f.Highlight
	return w
}

func diffFmt(g runFmt, w wantedFmt) string {
	switch {
	case g.Bold != w.Bold:
		return fmt.Sprintf("bold is %v, want %v", g.Bold, w.Bold)
	case g.Italic != w.Italic:
		return fmt.Sprintf("italic is %v, want %v", g.Italic, w.Italic)
	case g.Underline != w.Underline:
		return fmt.Sprintf("underline is %v, want %v", g.Underline, w.Underline)
	case g.Strike != w.Strike:
		return fmt.Sprintf("strike is %v, want %v", g.Strike, w.Strike)
	case g.Sz != w.Sz:
		return fmt.Sprintf("w:sz is %q, want %q (half points)", g.Sz, w.Sz)
	case !strings.EqualFold(g.Color, w.Color):
		return fmt.Sprintf("w:color is %q, want %q", g.Color, w.Color)
	case g.Highlight != w.Highlight:
		return fmt.Sprintf("w:highlight is %q, want %q", g.Highlight, w.Highlight)
	}
	if w.Font == "" {
		if len(g.Fonts) > 0 {
			return fmt.Sprintf("w:rFonts is %v although no font was set", sortedMap(g.Fonts))
		}
		return ""
	}
	if g.Fonts["ascii"] != w.Font {
		return fmt.Sprintf("w:rFonts/@w:ascii is %q, want %q", g.Fonts["ascii"], w.Font)
	}
	for _, a := range []string{"hAnsi", "eastAsia", "cs"} {
		if v, ok := g.Fonts[a]; ok && v != w.Font {
			return fmt.Sprintf("w:rFonts/@w:%s is %q, want %q", a, v, w.Font)
		}
	}
	return ""
}

func sortedMap(m map[string]string) string {
	var ks []string
	for k := range m {
		ks = append(ks, k)
	}
	sort.Strings(ks)
	var b strings.Builder
	for _, k := range ks {
		fmt.Fprintf(&b, "%s=%q ", k, m[k])
	}
	return b.String()
}

func clip(s string, n int) string {
	r := []rune(s)
	if len(r) > n {
		return string(r[:n]) + "…"
	}
	return s
}

var imgFormats = map[string]document.ImageFormat{"png": document.ImageFormatPNG, "jpeg": document.ImageFormatJPEG, "gif": document.ImageFormatGIF}

// run interprets a history against the real API and the model.
func run(c Case) *kit.Result {
	res := &kit.Result{}
	document.VerifResetGlobals()
	var doc *document.Document
	m := model{}
	defs := map[key]int{}
	var shape []string
	if c.Start == nil {
		if p, st := kit.Try(func() { doc = document.New() }); p != nil {
			res.Fail("C11.H0", "document.New panicked: %v [%s]", p, st)
			return res
		}
	} else {
		// the history starts from a document written by another producer
		if verr := c.Start.valid(); verr != nil {
			res.Label("malformed-start") // a hand-written replay outside the domain: nothing to judge
			res.Count("excluded:malformed-start", 1)
			return res
		}
		var err error
		fb := foreignPackage(c.Start)
		if p, st := kit.Try(func() { doc, err = openForeign(fb, c.Start.File) }); p != nil || err != nil || doc == nil {
			res.Fail("C11.H4", "%s a valid package of another producer cannot be opened: %v %v [%s]", tag(key{}, -1, "call", ""), err, p, st)
			return res
		}
		res.Label("foreign-start")
		for _, l := range startLabels(c.Start) {
			res.Label("foreign-start:" + l)
		}
		m = startModel(c.Start)
		for _, s := range c.Start.Slots {
			if !s.Unref {
				defs[s.key()]++
			}
			shape = append(shape, startShape(s))
		}
		if c.Start.NoStyles || c.Start.Pad > 0 || len(c.Start.Earlier) > 0 {
			shape = append(shape, startLayoutShape(c.Start))
		}
		if !checkpoint(res, doc, m, "open", -1) {
			return res
		}
	}
	nDefs, reopens, renders, redefAfterReopen, pnDefs, fmtDefs := 0, 0, 0, 0, 0, 0
	survive := false // a definition existed when a reopen/render happened
	sinceReplace := c.Start != nil
	titlePg, titleSet := false, false
	var twin *derived // the second document of a history with "twin" steps
	twinDefs := map[key]int{}
	twinAt := -1
	var sides []side
	keep := func(d *document.Document, dm model, name string, op int) {
		if len(sides) < maxSides {
			sides = append(sides, side{d, dm, name, op})
		}
	}
	const maxFail = 12
	for i, op := range c.Ops {
		if len(res.Failures) >= maxFail {
			break
		}
		k, isDef := opKey(op)
		var err error
		switch op.K {
		case "firstpage":
			titlePg, titleSet = op.B, true
		case "reopen":
			var b []byte
			var nd *document.Document
			if p, st := kit.Try(func() { b, err = doc.ToBytes() }); p != nil || err != nil {
				res.Fail("C11.H4", "%s ToBytes before reopen failed: %v %v [%s]", tag(key{}, i, "call", ""), err, p, st)
				return finish(res, shape, nDefs, defs, reopens, renders, redefAfterReopen, pnDefs, fmtDefs, survive)
			}
			if p, st := kit.Try(func() { nd, err = document.OpenFromMemory(io.NopCloser(bytes.NewReader(b))) }); p != nil || err != nil || nd == nil {
				res.Fail("C11.H4", "%s a document saved by the library cannot be reopened: %v %v [%s]", tag(key{}, i, "call", ""), err, p, st)
				return finish(res, shape, nDefs, defs, reopens, renders, redefAfterReopen, pnDefs, fmtDefs, survive)
			}
			doc = nd
			reopens++
			if m.defined() > 0 {
				survive = true
			}
			sinceReplace = true
			shape = append(shape, "reopen")
			noteTitlePg(res, b, doc, titleSet && titlePg, "reopen")
			if !checkpoint(res, doc, m, "reopen", i) {
				return finish(res, shape, nDefs, defs, reopens, renders, redefAfterReopen, pnDefs, fmtDefs, survive)
			}
			continue
		case "render":
			var out *document.Document
			if p, st := kit.Try(func() {
				eng := document.NewTemplateEngine()
				if _, err = eng.LoadTemplateFromDocument("t", doc); err != nil {
					return
				}
				out, err = eng.RenderTemplateToDocument("t", document.NewTemplateData())
			}); p != nil || err != nil || out == nil {
				res.Fail("C11.H4", "%s rendering the document as a template without data failed: %v %v [%s]", tag(key{}, i, "call", ""), err, p, st)
				return finish(res, shape, nDefs, defs, reopens, renders, redefAfterReopen, pnDefs, fmtDefs, survive)
			}
			renders++
			if m.defined() > 0 {
				survive = true
			}
			shape = append(shape, "render")
			noteTitlePg(res, nil, out, titleSet && titlePg, "render")
			if !checkpoint(res, out, m, "render", i) {
				return finish(res, shape, nDefs, defs, reopens, renders, redefAfterReopen, pnDefs, fmtDefs, survive)
			}
			if op.B {
				keep(doc, m.clone(), "the template document", i)
				doc = out
				sinceReplace = true
				shape = append(shape, "cont")
			} else {
				keep(out, m.clone(), "the rendered document", i)
			}
			continue
		case "twin":
			if twin == nil {
				var td *document.Document
				tm := model{}
				if p, stk := kit.Try(func() {
					if c.Start == nil {
						td = document.New()
					} else {
						td, err = openForeign(foreignPackage(c.Start), c.Start.File)
					}
				}); p != nil || err != nil || td == nil {
					res.Fail("C11.H0", "%s a second document cannot be made the way the first one was: %v %v [%s]", tag(key{}, i, "call", ""), err, p, stk)
					return finish(res, shape, nDefs, defs, reopens, renders, redefAfterReopen, pnDefs, fmtDefs, survive)
				}
				if c.Start != nil {
					tm = startModel(c.Start)
				}
				twin = &derived{name: "twin", what: "the second document", doc: td, m: tm}
			}
			st := &dstats{defs: twinDefs}
			twin.ops, twin.next = op.XA, 0
			shape = append(shape, "twin(")
			ok := true
			for ok && twin.next < len(twin.ops) {
				ok = twin.step(res, i, st)
			}
			nDefs, pnDefs, fmtDefs = nDefs+st.nDefs, pnDefs+st.pn, fmtDefs+st.fm
			shape = append(append(shape, st.shape...), ")")
			twinAt = i
			// (the first document is not saved here: its next definition, or the end of the history, judges it)
			if !ok || !checkpoint(res, twin.doc, twin.m, "~the second document of the process, after its own calls", i) {
				return finish(res, shape, nDefs, defs, reopens, renders, redefAfterReopen, pnDefs, fmtDefs, survive)
			}
			res.Label("twin-document")
			if st.nDefs > 0 && m.defined() > 0 {
				res.Label("twin-document:both-have-definitions")
			}
			continue
		case "render2":
			st := &dstats{defs: defs}
			a, b, ok := renderTwice(res, doc, m, op, i, st)
			nDefs, redefAfterReopen, pnDefs, fmtDefs = nDefs+st.nDefs, redefAfterReopen+st.redef, pnDefs+st.pn, fmtDefs+st.fm
			shape = append(shape, st.shape...)
			renders++
			if m.defined() > 0 {
				survive = true
			}
			if !ok {
				return finish(res, shape, nDefs, defs, reopens, renders, redefAfterReopen, pnDefs, fmtDefs, survive)
			}
			switch op.Cont {
			case 1:
				keep(doc, m.clone(), "the template document", i)
				keep(b.doc, b.m, "rendered document B", i)
				doc, m = a.doc, a.m
			case 2:
				keep(doc, m.clone(), "the template document", i)
				keep(a.doc, a.m, "rendered document A", i)
				doc, m = b.doc, b.m
			default:
				keep(a.doc, a.m, "rendered document A", i)
				keep(b.doc, b.m, "rendered document B", i)
			}
			if op.Cont == 1 || op.Cont == 2 {
				sinceReplace = true
				shape = append(shape, fmt.Sprintf("cont%d", op.Cont))
			}
			continue
		}
		call := simpleCall(doc, op, &err)
		if call == nil {
			continue
		}
		if p, st := kit.Try(call); p != nil {
			res.Fail("C11.H0", "%s %s panicked: %v [%s]", tag(k, i, "call", ""), op.K, p, st)
			return finish(res, shape, nDefs, defs, reopens, renders, redefAfterReopen, pnDefs, fmtDefs, survive)
		}
		if isDef {
			if err != nil {
				res.Fail("C11.H0", "%s %s(%s, %q) was rejected: %v", tag(k, i, "call", ""), op.K, op.Kind, clip(op.Text, 40), err)
				return finish(res, shape, nDefs, defs, reopens, renders, redefAfterReopen, pnDefs, fmtDefs, survive)
			}
			res.Eval("C11.H0")
			d := defOf(op, i)
			if old, had := m[k]; had && !old.Loose && sinceReplace {
				redefAfterReopen++
			}
			noteForeignDef(res, c.Start, k, defs[k])
			m[k] = d
			defs[k]++
			nDefs++
			s := op.K + ":" + op.Kind
			if d.PN {
				pnDefs++
				s += "+pn"
			}
			if d.Fmt != nil || d.Align != "" {
				fmtDefs++
				s += "+fmt"
			}
			if d.Text == "" {
				s += "+empty"
			}
			shape = append(shape, s)
			res.Label("text:" + op.Cls)
			if op.Fmt != nil && strings.HasPrefix(op.Fmt.Color, "#") {
				res.Label("formatted:colour-in-css-spelling")
			}
			if !checkpoint(res, doc, m, "", i) {
				return finish(res, shape, nDefs, defs, reopens, renders, redefAfterReopen, pnDefs, fmtDefs, survive)
			}
		} else {
			shape = append(shape, op.K)
			res.Label("op:" + op.K)
		}
	}
	// final save of the live document
	if len(res.Failures) < maxFail {
		checkpoint(res, doc, m, "", len(c.Ops))
	}
	if twin != nil && twinAt < len(c.Ops)-1 && len(res.Failures) < maxFail { // the first document went on since
		checkpoint(res, twin.doc, twin.m, "~the second document of the process, judged again at the end of the history", len(c.Ops))
	}
	judgeSides(res, sides, len(c.Ops))
	return finish(res, shape, nDefs, defs, reopens, renders, redefAfterReopen, pnDefs, fmtDefs, survive)
}

// noteTitlePg only counts (the property statement does not speak about w:titlePg): was the
// "different first page" switch still there after the document was reopened / rendered?
func noteTitlePg(res *kit.Result, _ []byte, doc *document.Document, wanted bool, phase string) {
	if !wanted {
		return
	}
	var b []byte
	if p, _ := kit.Try(func() { b, _ = doc.ToBytes() }); p != nil || b == nil {
		return
	}
	pkg, err := opc.Read(b)
	if err != nil {
		return
	}
	root, err := canon.Parse(pkg.Parts["word/document.xml"])
	if err != nil {
		return
	}
	found := false
	for _, sp := range root.All(canon.W, "sectPr") {
		if sp.Kid(canon.W, "titlePg") != nil {
			found = true
		}
	}
	if found {
		res.Count("observed:titlePg-kept-after-"+phase, 1)
	} else {
		res.Count("observed:titlePg-lost-after-"+phase, 1)
	}
}

// checkpoint saves the document and judges the package; false = the document cannot be saved.
func checkpoint(res *kit.Result, doc *document.Document, m model, phase string, op int) bool {
	var b []byte
	var err error
	if p, st := kit.Try(func() { b, err = doc.ToBytes() }); p != nil || err != nil {
		cl := "C11.H2"
		if phase != "" && !strings.HasPrefix(phase, "~") {
			cl = "C11.H4"
		}
		res.Fail(cl, "%s ToBytes failed: %v %v [%s]", tag(key{}, op, "call", ""), err, p, st)
		return false
	}
	judgePackage(res, b, m, phase, op)
	return true
}

func finish(res *kit.Result, shape []string, nDefs int, defs map[key]int, reopens, renders, redef, pn, fm int, survive bool) *kit.Result {
	repeat := false
	kinds := map[string]bool{}
	for _, k := range allKeys {
		if defs[k] > 1 {
			repeat = true
		}
		if defs[k] > 0 {
			kinds[k.Kind] = true
		}
	}
	if repeat {
		res.Label("repeat-kind")
	}
	for _, k := range allKeys {
		if defs[k] > 10 {
			res.Label("one-kind-defined-more-than-10-times")
			break
		}
	}
	if len(kinds) == 3 {
		res.Label("all-three-kinds")
	}
	if reopens > 0 {
		res.Label("reopen")
	}
	if renders > 0 {
		res.Label("render")
	}
	if redef > 0 {
		res.Label("redefine-after-reopen-or-render")
	}
	if pn > 0 {
		res.Label("page-number")
	}
	if fm > 0 {
		res.Label("formatted")
	}
	if survive {
		res.Label("definition-carried-over-reopen-or-render")
	}
	res.Nontrivial = nDefs >= 2 && (repeat || survive)
	res.Shape = strings.Join(shape, "|")
	return res
}

package c11

import (
	"regexp"
	"strconv"
	"strings"

	"wzverif/internal/kit"
)

var tagRe = regexp.MustCompile(`^\[k=(header|footer)/(\w*) op=(-?\d+) what=([\w-]+)(?: n=(\d+) targets=([^\]\s]*))?(?: part=([^\]\s]*))?\]`)

type parsedTag struct {
	k       key
	at, n   int
	what    string
	targets []string
	part    string
}

func parseTag(detail string) (parsedTag, bool) {
	m := tagRe.FindStringSubmatch(detail)
	if m == nil {
		return parsedTag{}, false
	}
	p := parsedTag{k: key{Footer: m[1] == "footer", Kind: m[2]}, what: m[4], part: m[7]}
	p.at, _ = strconv.Atoi(m[3])
	p.n, _ = strconv.Atoi(m[5])
	if m[6] != "" {
		p.targets = strings.Split(m[6], ",")
	}
	return p, true
}

// callsFor counts the definition calls for slot k among ops[0..at].
func callsFor(c Case, k key, at int) int {
	calls := 0
	for i, o := range c.Ops {
		if i > at {
			break
		}
		if ok, isDef := opKey(o); isDef && ok == k {
			calls++
		}
	}
	return calls
}

// dupRefByRepeatedCall is the trigger of KF-C11-dup-ref: the failure is "n references of one kind in w:sectPr", all of
// them resolving to one and the same part, and the history up to that point holds at least n definitions of exactly that
// slot (every call appends one reference; a definition that the opened document brought along under the library's own
// part name counts as one). Anything else about references (missing, unexpected, wrong type, references to different
// parts, more references than definitions) stays a violation.
func dupRefByRepeatedCall(c Case, f kit.Failure) bool {
	if f.Clause != "C11.H1" && f.Clause != "C11.H4" {
		return false
	}
	p, ok := parseTag(f.Detail)
	if !ok || p.what != "dup-ref" || p.n < 2 || len(p.targets) != p.n {
		return false
	}
	for _, t := range p.targets {
		if t != p.targets[0] || t == "?" || t == "" {
			return false
		}
	}
	have := callsFor(c, p.k, p.at)
	if s, ok := c.Start.slot(p.k); ok && "word/"+s.Part == p.targets[0] {
		have++
	}
	return have >= p.n
}

// staleForeignRef is the trigger of KF-C11-dup-ref-foreign: the history starts from another producer's document that
// defines slot k in a part P0 whose name is not the library's fixed name for k, and k was then defined by a call.
// Absorbed: (a) the duplicate references of k = [P0, library part, library part ...] with at most one reference per
// call, (b) the content mismatch of the stale part P0 that the first reference of k still points at.
func staleForeignRef(c Case, f kit.Failure) bool {
	p, ok := parseTag(f.Detail)
	if !ok {
		return false
	}
	s, has := c.Start.slot(p.k)
	if !has || s.Part == libPart(p.k) {
		return false
	}
	p0, lib := "word/"+s.Part, "word/"+libPart(p.k)
	calls := callsFor(c, p.k, p.at)
	if calls < 1 {
		return false
	}
	switch {
	case p.what == "dup-ref" && (f.Clause == "C11.H1" || f.Clause == "C11.H4"):
		if p.n < 2 || len(p.targets) != p.n || p.targets[0] != p0 || calls < p.n-1 {
			return false
		}
		for _, t := range p.targets[1:] {
			if t != lib {
				return false
			}
		}
		return true
	case p.what == "content" && (f.Clause == "C11.H3" || f.Clause == "C11.H4"):
		return p.part == p0
	}
	return false
}

// partNameClash is the trigger of KF-C11-part-name-clash: the content mismatch concerns slot J, which the opened
// document defines in part P, and an earlier call of the history defined another slot K (same header/footer side)
// whose fixed library part name is P: the call overwrote J's part.
func partNameClash(c Case, f kit.Failure) bool {
	if f.Clause != "C11.H3" && f.Clause != "C11.H4" {
		return false
	}
	p, ok := parseTag(f.Detail)
	if !ok || p.what != "content" {
		return false
	}
	s, has := c.Start.slot(p.k)
	if !has || "word/"+s.Part != p.part {
		return false
	}
	for i, o := range c.Ops {
		if i > p.at {
			break
		}
		if k, isDef := opKey(o); isDef && k != p.k && k.Footer == p.k.Footer && libPart(k) == s.Part {
			return true
		}
	}
	return false
}

var findings = []kit.Finding[Case]{
	{
		ID: "KF-C11-dup-ref", Clause: "C11.H",
		Desc:    "defining a header/footer kind that is already defined appends a second w:headerReference/w:footerReference of the same w:type (and a second relationship to the same part) instead of replacing the first; the duplicates survive reopen and rendering",
		Trigger: dupRefByRepeatedCall,
	},
	{
		ID: "KF-C11-dup-ref-foreign", Clause: "C11.H",
		Desc:    "in an opened document whose header/footer of a kind lives in a part not named header1/headerfirst/headereven.xml (footer likewise), a call for that kind writes a new part and appends a second reference: the first reference of the kind still resolves to the old part with the old text",
		Trigger: staleForeignRef,
	},
	{
		ID: "KF-C11-part-name-clash", Clause: "C11.H",
		Desc:    "in an opened document in which header1.xml (headerfirst/headereven/footer...) holds the header of another kind (Word numbers the parts in creation order), a call for the kind with that fixed file name overwrites the other kind's part: a kind no call touched shows the new text",
		Trigger: partNameClash,
	},
}

package c11

import (
	"testing"

	"wzverif/internal/kit"
)

// FuzzC11: coverage-guided search over the generator and oracle of TestC11 (thorough tier; see internal/kit/fuzz.go).
func FuzzC11(f *testing.F) { kit.FuzzVia(f, TestC11) }

package c11

import (
	"archive/zip"
	"bytes"
	"encoding/xml"
	"fmt"
	"strings"
)

// A history may start from a document that another producer wrote (Start != nil) instead of document.New():
// a minimal, valid WordprocessingML package written here with string templates (no pkg/document code), whose
// header/footer parts are named the way Word names them - header1.xml, header2.xml ... in creation order,
// in no fixed relation to the kind - or the way the library itself names them.

// StartSlot is one header/footer definition of the foreign package.
type StartSlot struct {
	Footer bool   `json:"footer,omitempty"`
	Kind   string `json:"kind"`
	Part   string `json:"part"` // file name inside word/, e.g. header2.xml
	Text   string `json:"text"`
}

type Start struct {
	Slots []StartSlot `json:"slots"`
}

func (s StartSlot) key() key { return key{s.Footer, s.Kind} }

// libPart is the part name the library documents for a slot (properties.jsonl anchors: header1/headerfirst/headereven).
func libPart(k key) string {
	p := "header"
	if k.Footer {
		p = "footer"
	}
	switch k.Kind {
	case "first":
		return p + "first.xml"
	case "even":
		return p + "even.xml"
	}
	return p + "1.xml"
}

func (st *Start) slot(k key) (StartSlot, bool) {
	if st == nil {
		return StartSlot{}, false
	}
	for _, s := range st.Slots {
		if s.key() == k {
			return s, true
		}
	}
	return StartSlot{}, false
}

func esc(s string) string {
	var b strings.Builder
	xml.EscapeText(&b, []byte(s))
	return b.String()
}

const nsW = "http://schemas.openxmlformats.org/wordprocessingml/2006/main"
const nsR = "http://schemas.openxmlformats.org/officeDocument/2006/relationships"

// foreignPackage writes the package. Relationship ids are rId1 (styles), rId2.. (headers/footers in slot order).
func foreignPackage(st *Start) []byte {
	var ct, rels, refs strings.Builder
	parts := map[string]string{}
	ct.WriteString(`<?xml version="1.0" encoding="UTF-8" standalone="yes"?>` + "\n" + `<Types xmlns="http://schemas.openxmlformats.org/package/2006/content-types">` +
		`<Default Extension="rels" ContentType="application/vnd.openxmlformats-package.relationships+xml"/><Default Extension="xml" ContentType="application/xml"/>` +
		`<Override PartName="/word/document.xml" ContentType="application/vnd.openxmlformats-officedocument.wordprocessingml.document.main+xml"/>` +
		`<Override PartName="/word/styles.xml" ContentType="application/vnd.openxmlformats-officedocument.wordprocessingml.styles+xml"/>`)
	rels.WriteString(`<?xml version="1.0" encoding="UTF-8" standalone="yes"?>` + "\n" + `<Relationships xmlns="http://schemas.openxmlformats.org/package/2006/relationships">` +
		`<Relationship Id="rId1" Type="` + nsR + `/styles" Target="styles.xml"/>`)
	first := false
	for i, s := range st.Slots {
		id := fmt.Sprintf("rId%d", i+2)
		what, root := "header", "hdr"
		if s.Footer {
			what, root = "footer", "ftr"
		}
		fmt.Fprintf(&ct, `<Override PartName="/word/%s" ContentType="application/vnd.openxmlformats-officedocument.wordprocessingml.%s+xml"/>`, s.Part, what)
		fmt.Fprintf(&rels, `<Relationship Id="%s" Type="%s/%s" Target="%s"/>`, id, nsR, what, s.Part)
		fmt.Fprintf(&refs, `<w:%sReference w:type="%s" r:id="%s"/>`, what, s.Kind, id)
		parts["word/"+s.Part] = fmt.Sprintf(`<?xml version="1.0" encoding="UTF-8" standalone="yes"?>`+"\n"+`<w:%s xmlns:w="%s" xmlns:r="%s"><w:p><w:pPr><w:pStyle w:val="%s"/></w:pPr><w:r><w:t>%s</w:t></w:r></w:p></w:%s>`,
			root, nsW, nsR, map[bool]string{false: "Header", true: "Footer"}[s.Footer], esc(s.Text), root)
		if s.Kind == "first" {
			first = true
		}
	}
	ct.WriteString(`</Types>`)
	rels.WriteString(`</Relationships>`)
	title := ""
	if first {
		title = `<w:titlePg/>`
	}
	parts["[Content_Types].xml"] = ct.String()
	parts["_rels/.rels"] = `<?xml version="1.0" encoding="UTF-8" standalone="yes"?>` + "\n" + `<Relationships xmlns="http://schemas.openxmlformats.org/package/2006/relationships">` +
		`<Relationship Id="rId1" Type="` + nsR + `/officeDocument" Target="word/document.xml"/></Relationships>`
	parts["word/_rels/document.xml.rels"] = rels.String()
	parts["word/styles.xml"] = `<?xml version="1.0" encoding="UTF-8" standalone="yes"?>` + "\n" + `<w:styles xmlns:w="` + nsW + `"><w:style w:type="paragraph" w:default="1" w:styleId="Normal"><w:name w:val="Normal"/></w:style>` +
		`<w:style w:type="paragraph" w:styleId="Header"><w:name w:val="header"/><w:basedOn w:val="Normal"/></w:style><w:style w:type="paragraph" w:styleId="Footer"><w:name w:val="footer"/><w:basedOn w:val="Normal"/></w:style></w:styles>`
	parts["word/document.xml"] = `<?xml version="1.0" encoding="UTF-8" standalone="yes"?>` + "\n" + `<w:document xmlns:w="` + nsW + `" xmlns:r="` + nsR + `"><w:body>` +
		`<w:p><w:r><w:t>written by another producer</w:t></w:r></w:p>` +
		`<w:sectPr>` + refs.String() + `<w:pgSz w:w="11906" w:h="16838"/><w:pgMar w:top="1440" w:right="1800" w:bottom="1440" w:left="1800" w:header="851" w:footer="992" w:gutter="0"/>` + title + `</w:sectPr></w:body></w:document>`
	order := []string{"[Content_Types].xml", "_rels/.rels", "word/document.xml", "word/_rels/document.xml.rels", "word/styles.xml"}
	for _, s := range st.Slots {
		order = append(order, "word/"+s.Part)
	}
	var buf bytes.Buffer
	zw := zip.NewWriter(&buf)
	for _, n := range order {
		w, _ := zw.Create(n)
		w.Write([]byte(parts[n]))
	}
	zw.Close()
	return buf.Bytes()
}

package c11

import (
	"archive/zip"
	"bytes"
	"encoding/xml"
	"fmt"
	"path"
	"strings"

	"wzverif/internal/gen"
)

// A history may start from a document that another producer wrote (Start != nil) instead of document.New():
// a minimal, valid WordprocessingML package written here with string templates (no pkg/document code).
// What such producers are free to do, and what this writer therefore varies:
//   - part names: header1.xml, header2.xml ... in creation order (in no relation to the kind), the library's own names,
//     the library's names attached to OTHER kinds, free names, parts in a sub-folder of word/ (word/headers/h1.xml);
//   - relationship targets: relative to the folder of the main part (header1.xml), with a leading ./, as an absolute
//     part name (/word/header1.xml), or relative through the parent folder (../word/header1.xml) - all the same part by
//     the OPC resolution rules;
//   - relationship ids: contiguous, with gaps, or not of the rIdN form at all; the styles relationship first or last and
//     not necessarily rId1;
//   - the kinds present: any subset of the six slots; w:headerReference / w:footerReference in any order in w:sectPr;
//     header/footer parts (with a relationship) that no w:sectPr references (left-overs);
//   - header/footer parts that show a picture through a relationship part of their own (word/_rels/header1.xml.rels);
//   - more than one section: every section but the last keeps its properties in a w:sectPr inside the w:pPr of its last
//     paragraph (Word writes that for every section break), with header/footer references of its own; the body-level
//     w:sectPr describes the last section and is what the document-level API of the library works on;
//   - no styles part and no styles relationship at all (small generators): the relationship ids then count from rId1, so
//     that a header or footer relationship IS rId1;
//   - further relationships of the main part (here: external hyperlinks) in front of the header/footer ones, so that the
//     header/footer ids lie past rId9 / rId10 or past rId64;
//   - a PAGE field (w:fldSimple or begin/instrText/separate/result/end) next to the text of a part, the text of a part
//     split over two runs or two paragraphs.

// StartSlot is one header/footer part of the foreign package.
type StartSlot struct {
	Footer bool   `json:"footer,omitempty"`
	Kind   string `json:"kind"`
	Part   string `json:"part"` // part name below word/, e.g. header2.xml or headers/h1.xml
	Text   string `json:"text"`
	Tgt    string `json:"tgt,omitempty"`   // spelling of the relationship target: "" header2.xml | "dot" ./header2.xml | "abs" /word/header2.xml | "up" ../word/header2.xml
	ID     string `json:"id,omitempty"`    // relationship id ("" = rId<position+2>)
	Pic    bool   `json:"pic,omitempty"`   // the part shows a picture through its own relationship part
	Unref  bool   `json:"unref,omitempty"` // part and relationship exist, but the body-level w:sectPr does not reference the part: the kind is NOT defined
	Body   string `json:"body,omitempty"`  // content of the part: "" one run | "split" text in two runs | "paras" text in two paragraphs | "fldsimple" text + w:fldSimple PAGE | "fldcomplex" text + complex PAGE field
}

// EarlySect is a section in front of the last one: its w:sectPr sits in the w:pPr of the section's last paragraph.
type EarlySect struct {
	Refs []int `json:"refs,omitempty"` // the header/footer parts the section references (indices into Slots, in this order)
	Text bool  `json:"text,omitempty"` // the paragraph that carries the w:sectPr has text of its own
}

type Start struct {
	Slots      []StartSlot `json:"slots"`
	RefOrder   []int       `json:"reforder,omitempty"`   // order of the references in w:sectPr (indices into Slots); nil = slot order
	StylesID   string      `json:"stylesid,omitempty"`   // id of the styles relationship ("" = rId1)
	StylesLast bool        `json:"styleslast,omitempty"` // the styles relationship is the last one of the relationship part
	File       bool        `json:"file,omitempty"`       // opened with document.Open from a file instead of OpenFromMemory
	NoStyles   bool        `json:"nostyles,omitempty"`   // no styles part and no styles relationship: default ids count from rId1
	Pad        int         `json:"pad,omitempty"`        // further relationships of the main part (external hyperlinks) in front of the header/footer ones
	Earlier    []EarlySect `json:"earlier,omitempty"`    // the sections in front of the last one, in document order
}

// hasPage says whether the part shows a page number field.
func (s StartSlot) hasPage() bool { return s.Body == "fldsimple" || s.Body == "fldcomplex" }

// firstID is the number of the first default id of a header/footer relationship: rId1 is the styles relationship's
// unless there is none, the padding relationships follow.
func (st *Start) firstID() int {
	n := 2
	if st.NoStyles {
		n = 1
	}
	return n + st.Pad
}

// padID is the id of the i-th padding relationship.
func (st *Start) padID(i int) string { return fmt.Sprintf("rId%d", st.firstID()-st.Pad+i) }

func (s StartSlot) key() key { return key{s.Footer, s.Kind} }

// name is the zip entry name of the slot's part.
func (s StartSlot) name() string { return "word/" + s.Part }

// target is the relationship target as the producer spells it (source part: word/document.xml).
func (s StartSlot) target() string {
	switch s.Tgt {
	case "dot":
		return "./" + s.Part
	case "abs":
		return "/word/" + s.Part
	case "up":
		return "../word/" + s.Part
	}
	return s.Part
}

func (st *Start) relID(i int) string {
	if st.Slots[i].ID != "" {
		return st.Slots[i].ID
	}
	return fmt.Sprintf("rId%d", i+st.firstID())
}

// libPart is the part name the library documents for a slot (properties.jsonl anchors: header1/headerfirst/headereven).
func libPart(k key) string {
	p := "header"
	if k.Footer {
		p = "footer"
	}
	switch k.Kind {
	case "first":
		return p + "first.xml"
	case "even":
		return p + "even.xml"
	}
	return p + "1.xml"
}

// slot returns the definition the opened document holds for k (unreferenced parts define nothing).
func (st *Start) slot(k key) (StartSlot, bool) {
	if st == nil {
		return StartSlot{}, false
	}
	for _, s := range st.Slots {
		if s.key() == k && !s.Unref {
			return s, true
		}
	}
	return StartSlot{}, false
}

// valid says whether the start layout describes a well-formed package (replay files are data: a hand-edited one with
// two parts of one name, two definitions of one slot or a repeated relationship id is not a document of the domain).
func (st *Start) valid() error {
	names, ids, keys := map[string]bool{}, map[string]bool{}, map[key]bool{}
	if !st.NoStyles {
		sid := st.StylesID
		if sid == "" {
			sid = "rId1"
		}
		ids[sid] = true
	}
	if st.Pad < 0 || st.Pad > 200 {
		return fmt.Errorf("pad %d", st.Pad)
	}
	for i := 0; i < st.Pad; i++ {
		if id := st.padID(i); ids[id] {
			return fmt.Errorf("padding relationship %d: id %q used twice", i, id)
		} else {
			ids[id] = true
		}
	}
	for i, s := range st.Slots {
		if s.Part == "" || strings.HasPrefix(s.Part, "/") || strings.Contains(s.Part, "..") || names[strings.ToLower(s.Part)] {
			return fmt.Errorf("slot %d: part name %q empty, not below word/ or used twice", i, s.Part)
		}
		names[strings.ToLower(s.Part)] = true
		if id := st.relID(i); ids[id] {
			return fmt.Errorf("slot %d: relationship id %q used twice", i, id)
		} else {
			ids[id] = true
		}
		if s.Kind != "default" && s.Kind != "first" && s.Kind != "even" {
			return fmt.Errorf("slot %d: kind %q", i, s.Kind)
		}
		switch s.Body {
		case "", "split", "paras", "fldsimple", "fldcomplex":
		default:
			return fmt.Errorf("slot %d: body %q", i, s.Body)
		}
		if !s.Unref {
			if keys[s.key()] {
				return fmt.Errorf("slot %d: %s defined twice", i, s.key())
			}
			keys[s.key()] = true
		}
	}
	for n, es := range st.Earlier {
		ks := map[key]bool{}
		for _, i := range es.Refs {
			if i < 0 || i >= len(st.Slots) || ks[st.Slots[i].key()] {
				return fmt.Errorf("earlier section %d: reference %d out of range or second reference of its kind", n, i)
			}
			ks[st.Slots[i].key()] = true
		}
	}
	if st.RefOrder != nil {
		seen := map[int]bool{}
		for _, i := range st.RefOrder {
			if i < 0 || i >= len(st.Slots) || seen[i] {
				return fmt.Errorf("reforder %v is not a permutation of the slots", st.RefOrder)
			}
			seen[i] = true
		}
		if len(seen) != len(st.Slots) {
			return fmt.Errorf("reforder %v is not a permutation of the slots", st.RefOrder)
		}
	}
	return nil
}

func esc(s string) string {
	var b strings.Builder
	xml.EscapeText(&b, []byte(s))
	return b.String()
}

const nsW = "http://schemas.openxmlformats.org/wordprocessingml/2006/main"
const nsR = "http://schemas.openxmlformats.org/officeDocument/2006/relationships"
const (
	nsWP  = "http://schemas.openxmlformats.org/drawingml/2006/wordprocessingDrawing"
	nsA   = "http://schemas.openxmlformats.org/drawingml/2006/main"
	nsPic = "http://schemas.openxmlformats.org/drawingml/2006/picture"
)

const xmlDecl = `<?xml version="1.0" encoding="UTF-8" standalone="yes"?>` + "\n"

// the one picture header/footer parts of the foreign package show
var foreignPicture = gen.Img{Fmt: "png", W: 3, H: 2, Pat: 5, Name: "image1.png"}

const foreignPictureName = "word/media/image1.png"

func pictureRun(rid string, n int) string {
	return fmt.Sprintf(`<w:r><w:drawing><wp:inline xmlns:wp="%s" distT="0" distB="0" distL="0" distR="0"><wp:extent cx="285750" cy="190500"/><wp:docPr id="%d" name="Picture %d"/>`+
		`<a:graphic xmlns:a="%s"><a:graphicData uri="%s"><pic:pic xmlns:pic="%s"><pic:nvPicPr><pic:cNvPr id="%d" name="image1.png"/><pic:cNvPicPr/></pic:nvPicPr>`+
		`<pic:blipFill><a:blip r:embed="%s"/><a:stretch><a:fillRect/></a:stretch></pic:blipFill><pic:spPr><a:xfrm><a:off x="0" y="0"/><a:ext cx="285750" cy="190500"/></a:xfrm>`+
		`<a:prstGeom prst="rect"><a:avLst/></a:prstGeom></pic:spPr></pic:pic></a:graphicData></a:graphic></wp:inline></w:drawing></w:r>`,
		nsWP, 100+n, n, nsA, nsPic, nsPic, 100+n, rid)
}

// relTarget spells the target of a relationship from part `from` to part `to` (both zip entry names) relative to the
// folder of `from`.
func relTarget(from, to string) string {
	fd := strings.Split(path.Dir(from), "/")
	td := strings.Split(to, "/")
	i := 0
	for i < len(fd) && i < len(td)-1 && fd[i] == td[i] {
		i++
	}
	return strings.Repeat("../", len(fd)-i) + strings.Join(td[i:], "/")
}

// partBody writes the paragraphs of a header/footer part of the foreign package.
func partBody(s StartSlot, pic string, styles bool) string {
	ppr := ""
	if styles { // the paragraph style lives in the styles part
		ppr = `<w:pPr><w:pStyle w:val="` + map[bool]string{false: "Header", true: "Footer"}[s.Footer] + `"/></w:pPr>`
	}
	run := func(t string) string {
		if t == "" {
			return `<w:r><w:t></w:t></w:r>`
		}
		return `<w:r><w:t xml:space="preserve">` + esc(t) + `</w:t></w:r>`
	}
	r := []rune(s.Text)
	a, b := string(r[:len(r)/2]), string(r[len(r)/2:])
	switch s.Body {
	case "split":
		return `<w:p>` + ppr + pic + run(a) + `<w:proofErr w:type="spellStart"/>` + run(b) + `</w:p>`
	case "paras":
		return `<w:p>` + ppr + pic + run(a) + `</w:p><w:p>` + ppr + run(b) + `</w:p>`
	case "fldsimple":
		return `<w:p>` + ppr + pic + run(s.Text) + `<w:fldSimple w:instr=" PAGE   \* MERGEFORMAT "><w:r><w:rPr><w:noProof/></w:rPr><w:t>1</w:t></w:r></w:fldSimple></w:p>`
	case "fldcomplex":
		return `<w:p>` + ppr + pic + run(s.Text) + `<w:r><w:fldChar w:fldCharType="begin"/></w:r><w:r><w:instrText xml:space="preserve"> PAGE </w:instrText></w:r>` +
			`<w:r><w:fldChar w:fldCharType="separate"/></w:r><w:r><w:rPr><w:noProof/></w:rPr><w:t>1</w:t></w:r><w:r><w:fldChar w:fldCharType="end"/></w:r></w:p>`
	}
	return `<w:p>` + ppr + pic + `<w:r><w:t>` + esc(s.Text) + `</w:t></w:r></w:p>`
}

const pageGeometry = `<w:pgSz w:w="11906" w:h="16838"/><w:pgMar w:top="1440" w:right="1800" w:bottom="1440" w:left="1800" w:header="851" w:footer="992" w:gutter="0"/>`

// foreignPackage writes the package.
func foreignPackage(st *Start) []byte {
	var ct, refs strings.Builder
	parts := map[string][]byte{}
	ct.WriteString(xmlDecl + `<Types xmlns="http://schemas.openxmlformats.org/package/2006/content-types">` +
		`<Default Extension="rels" ContentType="application/vnd.openxmlformats-package.relationships+xml"/><Default Extension="xml" ContentType="application/xml"/>`)
	anyPic := false
	for _, s := range st.Slots {
		anyPic = anyPic || s.Pic
	}
	if anyPic {
		ct.WriteString(`<Default Extension="png" ContentType="image/png"/>`)
	}
	ct.WriteString(`<Override PartName="/word/document.xml" ContentType="application/vnd.openxmlformats-officedocument.wordprocessingml.document.main+xml"/>`)
	stylesRel := ""
	if !st.NoStyles {
		ct.WriteString(`<Override PartName="/word/styles.xml" ContentType="application/vnd.openxmlformats-officedocument.wordprocessingml.styles+xml"/>`)
		sid := st.StylesID
		if sid == "" {
			sid = "rId1"
		}
		stylesRel = `<Relationship Id="` + esc(sid) + `" Type="` + nsR + `/styles" Target="styles.xml"/>`
	}
	var rels strings.Builder
	rels.WriteString(xmlDecl + `<Relationships xmlns="http://schemas.openxmlformats.org/package/2006/relationships">`)
	if !st.StylesLast {
		rels.WriteString(stylesRel)
	}
	for i := 0; i < st.Pad; i++ {
		fmt.Fprintf(&rels, `<Relationship Id="%s" Type="%s/hyperlink" Target="https://example.org/page%d" TargetMode="External"/>`, st.padID(i), nsR, i+1)
	}
	first := false
	refOf := make([]string, len(st.Slots))
	refAny := make([]string, len(st.Slots)) // the reference element of a slot, whether the body-level w:sectPr holds it or not
	var order []string
	for i, s := range st.Slots {
		id := st.relID(i)
		what, root := "header", "hdr"
		if s.Footer {
			what, root = "footer", "ftr"
		}
		fmt.Fprintf(&ct, `<Override PartName="/%s" ContentType="application/vnd.openxmlformats-officedocument.wordprocessingml.%s+xml"/>`, s.name(), what)
		fmt.Fprintf(&rels, `<Relationship Id="%s" Type="%s/%s" Target="%s"/>`, esc(id), nsR, what, esc(s.target()))
		refAny[i] = fmt.Sprintf(`<w:%sReference w:type="%s" r:id="%s"/>`, what, s.Kind, esc(id))
		if !s.Unref {
			refOf[i] = refAny[i]
			if s.Kind == "first" {
				first = true
			}
		}
		pic := ""
		if s.Pic {
			pic = pictureRun("rId1", i+1)
			parts[relsNameOf(s.name())] = []byte(xmlDecl + `<Relationships xmlns="http://schemas.openxmlformats.org/package/2006/relationships">` +
				`<Relationship Id="rId1" Type="` + nsR + `/image" Target="` + relTarget(s.name(), foreignPictureName) + `"/></Relationships>`)
		}
		parts[s.name()] = []byte(fmt.Sprintf(xmlDecl+`<w:%s xmlns:w="%s" xmlns:r="%s">%s</w:%s>`, root, nsW, nsR, partBody(s, pic, !st.NoStyles), root))
		order = append(order, s.name())
		if s.Pic {
			order = append(order, relsNameOf(s.name()))
		}
	}
	if anyPic {
		parts[foreignPictureName] = foreignPicture.Bytes()
		order = append(order, foreignPictureName)
	}
	if st.StylesLast {
		rels.WriteString(stylesRel)
	}
	if st.RefOrder != nil {
		for _, i := range st.RefOrder {
			refs.WriteString(refOf[i])
		}
	} else {
		for _, r := range refOf {
			refs.WriteString(r)
		}
	}
	ct.WriteString(`</Types>`)
	rels.WriteString(`</Relationships>`)
	title := ""
	if first {
		title = `<w:titlePg/>`
	}
	// the earlier sections: some text, then the paragraph whose w:pPr carries the section's w:sectPr
	var early strings.Builder
	for n, es := range st.Earlier {
		var er strings.Builder
		etitle := ""
		for _, i := range es.Refs {
			er.WriteString(refAny[i])
			if st.Slots[i].Kind == "first" {
				etitle = `<w:titlePg/>`
			}
		}
		fmt.Fprintf(&early, `<w:p><w:r><w:t>section %d of another producer</w:t></w:r></w:p>`, n+1)
		run := ""
		if es.Text {
			run = `<w:r><w:t>last paragraph of the section</w:t></w:r>`
		}
		early.WriteString(`<w:p><w:pPr><w:sectPr>` + er.String() + `<w:type w:val="nextPage"/>` + pageGeometry + etitle + `</w:sectPr></w:pPr>` + run + `</w:p>`)
	}
	parts["[Content_Types].xml"] = []byte(ct.String())
	parts["_rels/.rels"] = []byte(xmlDecl + `<Relationships xmlns="http://schemas.openxmlformats.org/package/2006/relationships">` +
		`<Relationship Id="rId1" Type="` + nsR + `/officeDocument" Target="word/document.xml"/></Relationships>`)
	parts["word/_rels/document.xml.rels"] = []byte(rels.String())
	parts["word/styles.xml"] = []byte(xmlDecl + `<w:styles xmlns:w="` + nsW + `"><w:style w:type="paragraph" w:default="1" w:styleId="Normal"><w:name w:val="Normal"/></w:style>` +
		`<w:style w:type="paragraph" w:styleId="Header"><w:name w:val="header"/><w:basedOn w:val="Normal"/></w:style><w:style w:type="paragraph" w:styleId="Footer"><w:name w:val="footer"/><w:basedOn w:val="Normal"/></w:style></w:styles>`)
	parts["word/document.xml"] = []byte(xmlDecl + `<w:document xmlns:w="` + nsW + `" xmlns:r="` + nsR + `"><w:body>` + early.String() +
		`<w:p><w:r><w:t>written by another producer</w:t></w:r></w:p>` +
		`<w:sectPr>` + refs.String() + pageGeometry + title + `</w:sectPr></w:body></w:document>`)
	head := []string{"[Content_Types].xml", "_rels/.rels", "word/document.xml", "word/_rels/document.xml.rels"}
	if !st.NoStyles {
		head = append(head, "word/styles.xml")
	}
	order = append(head, order...)
	var buf bytes.Buffer
	zw := zip.NewWriter(&buf)
	for _, n := range order {
		w, _ := zw.Create(n)
		w.Write(parts[n])
	}
	zw.Close()
	return buf.Bytes()
}

func relsNameOf(part string) string {
	return path.Dir(part) + "/_rels/" + path.Base(part) + ".rels"
}

package c11

import (
	"archive/zip"
	"bytes"
	"encoding/xml"
	"fmt"
	"path"
	"strings"

	"wzverif/internal/gen"
)

// A history may start from a document that another producer wrote (Start != nil) instead of document.New():
// a minimal, valid WordprocessingML package written here with string templates (no pkg/document code).
// What such producers are free to do, and what this writer therefore varies:
//   - part names: header1.xml, header2.xml ... in creation order (in no relation to the kind), the library's own names,
//     the library's names attached to OTHER kinds, free names, parts in a sub-folder of word/ (word/headers/h1.xml);
//   - relationship targets: relative to the folder of the main part (header1.xml), with a leading ./, as an absolute
//     part name (/word/header1.xml), or relative through the parent folder (../word/header1.xml) - all the same part by
//     the OPC resolution rules;
//   - relationship ids: contiguous, with gaps, or not of the rIdN form at all; the styles relationship first or last and
//     not necessarily rId1;
//   - the kinds present: any subset of the six slots; w:headerReference / w:footerReference in any order in w:sectPr;
//     header/footer parts (with a relationship) that no w:sectPr references (left-overs);
//   - header/footer parts that show a picture through a relationship part of their own (word/_rels/header1.xml.rels).

// StartSlot is one header/footer part of the foreign package.
type StartSlot struct {
	Footer bool   `json:"footer,omitempty"`
	Kind   string `json:"kind"`
	Part   string `json:"part"` // part name below word/, e.g. header2.xml or headers/h1.xml
	Text   string `json:"text"`
	Tgt    string `json:"tgt,omitempty"`   // spelling of the relationship target: "" header2.xml | "dot" ./header2.xml | "abs" /word/header2.xml | "up" ../word/header2.xml
	ID     string `json:"id,omitempty"`    // relationship id ("" = rId<position+2>)
	Pic    bool   `json:"pic,omitempty"`   // the part shows a picture through its own relationship part
	Unref  bool   `json:"unref,omitempty"` // part and relationship exist, but w:sectPr does not reference the part: the kind is NOT defined
}

type Start struct {
	Slots      []StartSlot `json:"slots"`
	RefOrder   []int       `json:"reforder,omitempty"`   // order of the references in w:sectPr (indices into Slots); nil = slot order
	StylesID   string      `json:"stylesid,omitempty"`   // id of the styles relationship ("" = rId1)
	StylesLast bool        `json:"styleslast,omitempty"` // the styles relationship is the last one of the relationship part
	File       bool        `json:"file,omitempty"`       // opened with document.Open from a file instead of OpenFromMemory
}

func (s StartSlot) key() key { return key{s.Footer, s.Kind} }

// name is the zip entry name of the slot's part.
func (s StartSlot) name() string { return "word/" + s.Part }

// target is the relationship target as the producer spells it (source part: word/document.xml).
func (s StartSlot) target() string {
	switch s.Tgt {
	case "dot":
		return "./" + s.Part
	case "abs":
		return "/word/" + s.Part
	case "up":
		return "../word/" + s.Part
	}
	return s.Part
}

func (st *Start) relID(i int) string {
	if st.Slots[i].ID != "" {
		return st.Slots[i].ID
	}
	return fmt.Sprintf("rId%d", i+2)
}

// libPart is the part name the library documents for a slot (properties.jsonl anchors: header1/headerfirst/headereven).
func libPart(k key) string {
	p := "header"
	if k.Footer {
		p = "footer"
	}
	switch k.Kind {
	case "first":
		return p + "first.xml"
	case "even":
		return p + "even.xml"
	}
	return p + "1.xml"
}

// slot returns the definition the opened document holds for k (unreferenced parts define nothing).
func (st *Start) slot(k key) (StartSlot, bool) {
	if st == nil {
		return StartSlot{}, false
	}
	for _, s := range st.Slots {
		if s.key() == k && !s.Unref {
			return s, true
		}
	}
	return StartSlot{}, false
}

// valid says whether the start layout describes a well-formed package (replay files are data: a hand-edited one with
// two parts of one name, two definitions of one slot or a repeated relationship id is not a document of the domain).
func (st *Start) valid() error {
	names, ids, keys := map[string]bool{}, map[string]bool{}, map[key]bool{}
	sid := st.StylesID
	if sid == "" {
		sid = "rId1"
	}
	ids[sid] = true
	for i, s := range st.Slots {
		if s.Part == "" || strings.HasPrefix(s.Part, "/") || strings.Contains(s.Part, "..") || names[strings.ToLower(s.Part)] {
			return fmt.Errorf("slot %d: part name %q empty, not below word/ or used twice", i, s.Part)
		}
		names[strings.ToLower(s.Part)] = true
		if id := st.relID(i); ids[id] {
			return fmt.Errorf("slot %d: relationship id %q used twice", i, id)
		} else {
			ids[id] = true
		}
		if s.Kind != "default" && s.Kind != "first" && s.Kind != "even" {
			return fmt.Errorf("slot %d: kind %q", i, s.Kind)
		}
		if !s.Unref {
			if keys[s.key()] {
				return fmt.Errorf("slot %d: %s defined twice", i, s.key())
			}
			keys[s.key()] = true
		}
	}
	if st.RefOrder != nil {
		seen := map[int]bool{}
		for _, i := range st.RefOrder {
			if i < 0 || i >= len(st.Slots) || seen[i] {
				return fmt.Errorf("reforder %v is not a permutation of the slots", st.RefOrder)
			}
			seen[i] = true
		}
		if len(seen) != len(st.Slots) {
			return fmt.Errorf("reforder %v is not a permutation of the slots", st.RefOrder)
		}
	}
	return nil
}

func esc(s string) string {
	var b strings.Builder
	xml.EscapeText(&b, []byte(s))
	return b.String()
}

const nsW = "http://schemas.openxmlformats.org/wordprocessingml/2006/main"
const nsR = "http://schemas.openxmlformats.org/officeDocument/2006/relationships"
const (
	nsWP  = "http://schemas.openxmlformats.org/drawingml/2006/wordprocessingDrawing"
	nsA   = "http://schemas.openxmlformats.org/drawingml/2006/main"
	nsPic = "http://schemas.openxmlformats.org/drawingml/2006/picture"
)

const xmlDecl = `<?xml version="1.0" encoding="UTF-8" standalone="yes"?>` + "\n"

// the one picture header/footer parts of the foreign package show
var foreignPicture = gen.Img{Fmt: "png", W: 3, H: 2, Pat: 5, Name: "image1.png"}

const foreignPictureName = "word/media/image1.png"

func pictureRun(rid string, n int) string {
	return fmt.Sprintf(`<w:r><w:drawing><wp:inline xmlns:wp="%s" distT="0" distB="0" distL="0" distR="0"><wp:extent cx="285750" cy="190500"/><wp:docPr id="%d" name="Picture %d"/>`+
		`<a:graphic xmlns:a="%s"><a:graphicData uri="%s"><pic:pic xmlns:pic="%s"><pic:nvPicPr><pic:cNvPr id="%d" name="image1.png"/><pic:cNvPicPr/></pic:nvPicPr>`+
		`<pic:blipFill><a:blip r:embed="%s"/><a:stretch><a:fillRect/></a:stretch></pic:blipFill><pic:spPr><a:xfrm><a:off x="0" y="0"/><a:ext cx="285750" cy="190500"/></a:xfrm>`+
		`<a:prstGeom prst="rect"><a:avLst/></a:prstGeom></pic:spPr></pic:pic></a:graphicData></a:graphic></wp:inline></w:drawing></w:r>`,
		nsWP, 100+n, n, nsA, nsPic, nsPic, 100+n, rid)
}

// relTarget spells the target of a relationship from part `from` to part `to` (both zip entry names) relative to the
// folder of `from`.
func relTarget(from, to string) string {
	fd := strings.Split(path.Dir(from), "/")
	td := strings.Split(to, "/")
	i := 0
	for i < len(fd) && i < len(td)-1 && fd[i] == td[i] {
		i++
	}
	return strings.Repeat("../", len(fd)-i) + strings.Join(td[i:], "/")
}

// foreignPackage writes the package.
func foreignPackage(st *Start) []byte {
	var ct, refs strings.Builder
	parts := map[string][]byte{}
	ct.WriteString(xmlDecl + `<Types xmlns="http://schemas.openxmlformats.org/package/2006/content-types">` +
		`<Default Extension="rels" ContentType="application/vnd.openxmlformats-package.relationships+xml"/><Default Extension="xml" ContentType="application/xml"/>`)
	anyPic := false
	for _, s := range st.Slots {
		anyPic = anyPic || s.Pic
	}
	if anyPic {
		ct.WriteString(`<Default Extension="png" ContentType="image/png"/>`)
	}
	ct.WriteString(`<Override PartName="/word/document.xml" ContentType="application/vnd.openxmlformats-officedocument.wordprocessingml.document.main+xml"/>` +
		`<Override PartName="/word/styles.xml" ContentType="application/vnd.openxmlformats-officedocument.wordprocessingml.styles+xml"/>`)
	sid := st.StylesID
	if sid == "" {
		sid = "rId1"
	}
	stylesRel := `<Relationship Id="` + esc(sid) + `" Type="` + nsR + `/styles" Target="styles.xml"/>`
	var rels strings.Builder
	rels.WriteString(xmlDecl + `<Relationships xmlns="http://schemas.openxmlformats.org/package/2006/relationships">`)
	if !st.StylesLast {
		rels.WriteString(stylesRel)
	}
	first := false
	refOf := make([]string, len(st.Slots))
	var order []string
	for i, s := range st.Slots {
		id := st.relID(i)
		what, root := "header", "hdr"
		if s.Footer {
			what, root = "footer", "ftr"
		}
		fmt.Fprintf(&ct, `<Override PartName="/%s" ContentType="application/vnd.openxmlformats-officedocument.wordprocessingml.%s+xml"/>`, s.name(), what)
		fmt.Fprintf(&rels, `<Relationship Id="%s" Type="%s/%s" Target="%s"/>`, esc(id), nsR, what, esc(s.target()))
		if !s.Unref {
			refOf[i] = fmt.Sprintf(`<w:%sReference w:type="%s" r:id="%s"/>`, what, s.Kind, esc(id))
			if s.Kind == "first" {
				first = true
			}
		}
		pic := ""
		if s.Pic {
			pic = pictureRun("rId1", i+1)
			parts[relsNameOf(s.name())] = []byte(xmlDecl + `<Relationships xmlns="http://schemas.openxmlformats.org/package/2006/relationships">` +
				`<Relationship Id="rId1" Type="` + nsR + `/image" Target="` + relTarget(s.name(), foreignPictureName) + `"/></Relationships>`)
		}
		parts[s.name()] = []byte(fmt.Sprintf(xmlDecl+`<w:%s xmlns:w="%s" xmlns:r="%s"><w:p><w:pPr><w:pStyle w:val="%s"/></w:pPr>%s<w:r><w:t>%s</w:t></w:r></w:p></w:%s>`,
			root, nsW, nsR, map[bool]string{false: "Header", true: "Footer"}[s.Footer], pic, esc(s.Text), root))
		order = append(order, s.name())
		if s.Pic {
			order = append(order, relsNameOf(s.name()))
		}
	}
	if anyPic {
		parts[foreignPictureName] = foreignPicture.Bytes()
		order = append(order, foreignPictureName)
	}
	if st.StylesLast {
		rels.WriteString(stylesRel)
	}
	if st.RefOrder != nil {
		for _, i := range st.RefOrder {
			refs.WriteString(refOf[i])
		}
	} else {
		for _, r := range refOf {
			refs.WriteString(r)
		}
	}
	ct.WriteString(`</Types>`)
	rels.WriteString(`</Relationships>`)
	title := ""
	if first {
		title = `<w:titlePg/>`
	}
	parts["[Content_Types].xml"] = []byte(ct.String())
	parts["_rels/.rels"] = []byte(xmlDecl + `<Relationships xmlns="http://schemas.openxmlformats.org/package/2006/relationships">` +
		`<Relationship Id="rId1" Type="` + nsR + `/officeDocument" Target="word/document.xml"/></Relationships>`)
	parts["word/_rels/document.xml.rels"] = []byte(rels.String())
	parts["word/styles.xml"] = []byte(xmlDecl + `<w:styles xmlns:w="` + nsW + `"><w:style w:type="paragraph" w:default="1" w:styleId="Normal"><w:name w:val="Normal"/></w:style>` +
		`<w:style w:type="paragraph" w:styleId="Header"><w:name w:val="header"/><w:basedOn w:val="Normal"/></w:style><w:style w:type="paragraph" w:styleId="Footer"><w:name w:val="footer"/><w:basedOn w:val="Normal"/></w:style></w:styles>`)
	parts["word/document.xml"] = []byte(xmlDecl + `<w:document xmlns:w="` + nsW + `" xmlns:r="` + nsR + `"><w:body>` +
		`<w:p><w:r><w:t>written by another producer</w:t></w:r></w:p>` +
		`<w:sectPr>` + refs.String() + `<w:pgSz w:w="11906" w:h="16838"/><w:pgMar w:top="1440" w:right="1800" w:bottom="1440" w:left="1800" w:header="851" w:footer="992" w:gutter="0"/>` + title + `</w:sectPr></w:body></w:document>`)
	order = append([]string{"[Content_Types].xml", "_rels/.rels", "word/document.xml", "word/_rels/document.xml.rels", "word/styles.xml"}, order...)
	var buf bytes.Buffer
	zw := zip.NewWriter(&buf)
	for _, n := range order {
		w, _ := zw.Create(n)
		w.Write(parts[n])
	}
	zw.Close()
	return buf.Bytes()
}

func relsNameOf(part string) string {
	return path.Dir(part) + "/_rels/" + path.Base(part) + ".rels"
}

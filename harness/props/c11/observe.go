package c11

import (
	"fmt"
	"strings"

	"wzverif/internal/canon"
	"wzverif/internal/opc"
)

// Independent observation of the header/footer state of a saved package. Nothing here
// uses pkg/document: the zip is read by internal/opc, the XML by internal/canon.

const (
	relHeader = "http://schemas.openxmlformats.org/officeDocument/2006/relationships/header"
	relFooter = "http://schemas.openxmlformats.org/officeDocument/2006/relationships/footer"
)

// secRef is one w:headerReference / w:footerReference of a w:sectPr.
type secRef struct {
	Footer bool
	Type   string
	HasTyp bool
	ID     string
	Sect   int  // index of the w:sectPr in document order
	Doc    bool // the w:sectPr is the document's: a direct child of w:body (or the main part has no such w:sectPr at all)
}

// sectionRefs lists the references of every w:sectPr of the main part (document order) and
// the number of w:sectPr elements that are direct children of w:body.
func sectionRefs(root *canon.Node) (refs []secRef, bodySects int) {
	body := root.Kid(canon.W, "body")
	bodySects = len(body.KidsNamed(canon.W, "sectPr"))
	bodyLevel := map[*canon.Node]bool{}
	for _, sp := range body.KidsNamed(canon.W, "sectPr") {
		bodyLevel[sp] = true
	}
	for si, sp := range root.All(canon.W, "sectPr") {
		for _, k := range sp.Kids {
			if k.Space != canon.W || (k.Local != "headerReference" && k.Local != "footerReference") {
				continue
			}
			r := secRef{Footer: k.Local == "footerReference", Sect: si, Doc: bodySects == 0 || bodyLevel[sp]}
			r.Type, r.HasTyp = k.Attr(canon.W, "type")
			r.ID = k.A(canon.R, "id")
			if r.ID == "" { // prefix problems are C01's business: fall back on the local name
				for _, a := range k.Attrs {
					if a.Local == "id" {
						r.ID = a.Value
					}
				}
			}
			refs = append(refs, r)
		}
	}
	return
}

// runFmt is the formatting of one text run as far as the header/footer API can set it.
type runFmt struct {
	Bold, Italic, Underline, Strike bool
	Sz                              string // w:sz/@w:val (half points), "" = absent
	Color                           string
	Fonts                           map[string]string // ascii/hAnsi/eastAsia/cs -> value
	Highlight                       string
}

func onOff(n *canon.Node) bool {
	if n == nil {
		return false
	}
	v, ok := n.Attr(canon.W, "val")
	if !ok {
		return true
	}
	switch strings.ToLower(v) {
	case "0", "false", "off":
		return false
	}
	return true
}

func readRunFmt(r *canon.Node) runFmt {
	var f runFmt
	rpr := r.Kid(canon.W, "rPr")
	if rpr == nil {
		return f
	}
	f.Bold = onOff(rpr.Kid(canon.W, "b"))
	f.Italic = onOff(rpr.Kid(canon.W, "i"))
	f.Strike = onOff(rpr.Kid(canon.W, "strike"))
	if u := rpr.Kid(canon.W, "u"); u != nil {
		v := strings.ToLower(u.A(canon.W, "val"))
		f.Underline = v != "none" && v != ""
	}
	f.Sz = rpr.Kid(canon.W, "sz").A(canon.W, "val")
	f.Color = rpr.Kid(canon.W, "color").A(canon.W, "val")
	f.Highlight = rpr.Kid(canon.W, "highlight").A(canon.W, "val")
	if rf := rpr.Kid(canon.W, "rFonts"); rf != nil {
		f.Fonts = map[string]string{}
		for _, a := range rf.Attrs {
			if a.Space == canon.W {
				f.Fonts[a.Local] = a.Value
			}
		}
	}
	return f
}

// field is one field found in a paragraph.
type field struct {
	Instr  string
	Result string
	Simple bool // w:fldSimple
	Sep    bool // a separate field char was seen
}

// isPage says whether the field instruction is a PAGE field (first word of the instruction).
func (f field) isPage() bool {
	w := strings.Fields(f.Instr)
	return len(w) > 0 && strings.EqualFold(w[0], "PAGE")
}

type textRun struct {
	Text string
	Fmt  runFmt
}

// paraView is what a reader of the part sees in one paragraph.
type paraView struct {
	Jc       string
	HasJc    bool
	Visible  string    // effective text of the w:t elements outside fields, in document order
	Runs     []textRun // the runs that contributed to Visible (non-empty text only)
	Fields   []field
	Problems []string // structural defects of the field markup
}

// effText is the text a consumer shows for a w:t: without xml:space="preserve" the
// leading and trailing white space is not significant.
func effText(t *canon.Node) string {
	if t.A(canon.XML, "space") == "preserve" {
		return t.Text
	}
	return strings.Trim(t.Text, " \t\r\n")
}

func viewPara(p *canon.Node) paraView {
	var v paraView
	if jc := p.Path("pPr", "jc"); jc != nil {
		v.HasJc = true
		v.Jc = jc.A(canon.W, "val")
	}
	const (
		outside = iota
		code
		result
	)
	state := outside
	var cur field
	var walk func(n *canon.Node)
	doRun := func(r *canon.Node) {
		var rf *runFmt
		for _, k := range r.Kids {
			if k.Space != canon.W {
				continue
			}
			switch k.Local {
			case "fldChar":
				switch k.A(canon.W, "fldCharType") {
				case "begin":
					if state != outside {
						v.Problems = append(v.Problems, "field begins inside another field")
					}
					state, cur = code, field{}
				case "separate":
					if state != code {
						v.Problems = append(v.Problems, "separate field char outside field instructions")
					} else {
						state = result
						cur.Sep = true
					}
				case "end":
					if state == outside {
						v.Problems = append(v.Problems, "end field char without begin")
					} else {
						v.Fields = append(v.Fields, cur)
						state = outside
					}
				default:
					v.Problems = append(v.Problems, fmt.Sprintf("w:fldChar with type %q", k.A(canon.W, "fldCharType")))
				}
			case "instrText":
				if state == code {
					cur.Instr += k.Text
				} else {
					v.Problems = append(v.Problems, "w:instrText outside the instruction part of a field")
				}
			case "t":
				switch state {
				case outside:
					tx := effText(k)
					v.Visible += tx
					if tx != "" {
						if rf == nil {
							f := readRunFmt(r)
							rf = &f
						}
						v.Runs = append(v.Runs, textRun{tx, *rf})
					}
				case code:
					v.Problems = append(v.Problems, fmt.Sprintf("w:t %q between the begin and the separate/end field char (text in the instruction part: no separate char)", k.Text))
				case result:
					cur.Result += effText(k)
				}
			}
		}
	}
	walk = func(n *canon.Node) {
		for _, k := range n.Kids {
			if k.Space == canon.W && k.Local == "r" {
				doRun(k)
				continue
			}
			if k.Space == canon.W && k.Local == "fldSimple" {
				f := field{Instr: k.A(canon.W, "instr"), Simple: true, Result: k.TextOf(canon.W, "t")}
				if state != outside {
					v.Problems = append(v.Problems, "w:fldSimple inside a complex field")
				}
				v.Fields = append(v.Fields, f)
				continue
			}
			if k.Space == canon.W && k.Local == "pPr" {
				continue
			}
			walk(k) // hyperlink, smartTag, sdt ... : runs nested deeper
		}
	}
	walk(p)
	if state != outside {
		v.Problems = append(v.Problems, "field not terminated by an end field char")
	}
	return v
}

// partView is what a reader sees in a header/footer part.
type partView struct {
	Root  string // hdr | ftr | other
	Paras []paraView
}

func viewPart(data []byte) (*partView, error) {
	root, err := canon.Parse(data)
	if err != nil {
		return nil, err
	}
	pv := &partView{Root: root.Name()}
	// paragraphs anywhere below the root (tables/sdt in a header hold paragraphs too)
	for _, p := range root.All(canon.W, "p") {
		pv.Paras = append(pv.Paras, viewPara(p))
	}
	return pv, nil
}

// resolveRef resolves a reference id through the relationships of the main part.
func resolveRef(pkg *opc.Package, main, id string) []opc.Rel {
	var out []opc.Rel
	for _, r := range pkg.RelsOf(main) {
		if r.ID == id {
			out = append(out, r)
		}
	}
	return out
}

package c11

import (
	"fmt"
	"strings"

	"github.com/zerx-lab/wordZero/pkg/document"

	"wzverif/internal/kit"
)

// Documents derived from one template (H4, "... and template rendering"): the template engine is loaded once, the
// template is rendered more than once, every derived document then lives on - it receives further header/footer
// definitions, images, lists - and each of them, the template document included, must keep exactly one, current,
// resolvable definition per kind in ITS OWN package, whatever happened to its siblings in the meantime.

// simpleCall returns the library call of a history step that works on one document and does not replace it
// (nil: the op is not such a step, or is malformed).
func simpleCall(doc *document.Document, op Op, err *error) func() {
	switch op.K {
	case "hdr":
		return func() { *err = doc.AddHeader(document.HeaderFooterType(op.Kind), op.Text) }
	case "ftr":
		return func() { *err = doc.AddFooter(document.HeaderFooterType(op.Kind), op.Text) }
	case "hdrpn":
		return func() { *err = doc.AddHeaderWithPageNumber(document.HeaderFooterType(op.Kind), op.Text, op.PN) }
	case "ftrpn":
		return func() { *err = doc.AddFooterWithPageNumber(document.HeaderFooterType(op.Kind), op.Text, op.PN) }
	case "hdrfmt", "ftrfmt":
		var cfg *document.HeaderFooterConfig
		if !op.NilCfg {
			cfg = &document.HeaderFooterConfig{Text: op.Text, Format: op.Fmt.tf(), Alignment: document.AlignmentType(op.Align)}
		}
		if op.K == "hdrfmt" {
			return func() { *err = doc.AddFormattedHeader(document.HeaderFooterType(op.Kind), cfg) }
		}
		return func() { *err = doc.AddFormattedFooter(document.HeaderFooterType(op.Kind), cfg) }
	case "firstpage":
		return func() { doc.SetDifferentFirstPage(op.B) }
	case "pagesize":
		return func() { _ = doc.SetPageSize(document.PageSize(op.S)) }
	case "orient":
		return func() { _ = doc.SetPageOrientation(document.PageOrientation(op.S)) }
	case "margins":
		if len(op.F) == 4 {
			return func() { _ = doc.SetPageMargins(op.F[0], op.F[1], op.F[2], op.F[3]) }
		}
	case "hfdist":
		if len(op.F) == 2 {
			return func() { _ = doc.SetHeaderFooterDistance(op.F[0], op.F[1]) }
		}
	case "image":
		if op.Img != nil {
			im := *op.Img
			return func() { _, _ = doc.AddImageFromData(im.Bytes(), im.Name, imgFormats[im.Fmt], im.W, im.H, nil) }
		}
	case "list":
		if op.S == "number" {
			return func() { doc.AddNumberedList("item", 0, document.ListTypeDecimal) }
		}
		return func() { doc.AddBulletList("item", 0, document.BulletTypeDot) }
	case "para":
		return func() { doc.AddParagraph("body text") }
	}
	return nil
}

func (m model) clone() model {
	c := make(model, len(m))
	for k, d := range m {
		c[k] = d
	}
	return c
}

// side is a document a history left behind (the template after "continue on the rendered document", a rendered
// document the history did not continue on): it is judged once more, against the model it had, at the end.
type side struct {
	doc  *document.Document
	m    model
	name string
	op   int
}

const maxSides = 6

// derived is one document rendered by a render2 step.
type derived struct {
	what  string // "" = a document rendered from a template
	name  string
	doc   *document.Document
	m     model
	ops   []Op
	next  int
	newKs int    // definitions of slots the template did not define
	adds  int    // calls that give the document a further part of its own (new slot, image, list)
	first string // the first of them
}

func (d *derived) label() string {
	if d.what != "" {
		return d.what
	}
	return "rendered document " + d.name
}

// step applies the next extension call to the derived document; false = the history cannot go on.
func (d *derived) step(res *kit.Result, i int, st *dstats) bool {
	op := d.ops[d.next]
	j := d.next
	d.next++
	var err error
	call := simpleCall(d.doc, op, &err)
	if call == nil {
		return true
	}
	k, isDef := opKey(op)
	if p, stk := kit.Try(call); p != nil {
		res.Fail("C11.H0", "%s %s (call %d on %s) panicked: %v [%s]", tag(k, i, "call", ""), op.K, j, d.label(), p, stk)
		return false
	}
	if !isDef {
		if op.K == "image" || op.K == "list" {
			if d.adds == 0 {
				d.first = op.K
			}
			d.adds++
		}
		st.shape = append(st.shape, op.K)
		return true
	}
	if err != nil {
		res.Fail("C11.H0", "%s %s(%s, %q) (call %d on %s) was rejected: %v", tag(k, i, "call", ""), op.K, op.Kind, clip(op.Text, 40), j, d.label(), err)
		return false
	}
	res.Eval("C11.H0")
	nd := defOf(op, i)
	nd.Via = fmt.Sprintf("%s, call %d on %s", op.K, j, d.label())
	if old, had := d.m[k]; had && !old.Loose {
		st.redef++
	} else {
		d.newKs++
		if d.adds == 0 {
			d.first = k.String()
		}
		d.adds++
	}
	d.m[k] = nd
	st.defs[k]++
	st.nDefs++
	s := op.K + ":" + op.Kind
	if nd.PN {
		st.pn++
		s += "+pn"
	}
	if nd.Fmt != nil || nd.Align != "" {
		st.fm++
		s += "+fmt"
	}
	if nd.Text == "" {
		s += "+empty"
	}
	st.shape = append(st.shape, s)
	res.Label("text:" + op.Cls)
	if op.Fmt != nil && strings.HasPrefix(op.Fmt.Color, "#") {
		res.Label("formatted:colour-in-css-spelling")
	}
	return true
}

// dstats carries what the extension calls add to the counters of the history.
type dstats struct {
	nDefs, redef, pn, fm int
	defs                 map[key]int
	shape                []string
}

// renderTwice executes a render2 step on the template document doc (model m): one engine, one LoadTemplateFromDocument,
// two RenderTemplateToDocument calls, the extension calls in the order op.Ord names, and then - not earlier - the
// judgement of both rendered documents, each against the template's model as of the rendering plus its own calls.
// ok=false: a call failed (reported) and the history ends.
func renderTwice(res *kit.Result, doc *document.Document, m model, op Op, i int, st *dstats) (a, b *derived, ok bool) {
	var eng *document.TemplateEngine
	var err error
	if p, stk := kit.Try(func() {
		eng = document.NewTemplateEngine()
		_, err = eng.LoadTemplateFromDocument("t", doc)
	}); p != nil || err != nil {
		res.Fail("C11.H4", "%s loading the document as a template failed: %v %v [%s]", tag(key{}, i, "call", ""), err, p, stk)
		return nil, nil, false
	}
	render := func(name string, ops []Op) *derived {
		var out *document.Document
		if p, stk := kit.Try(func() { out, err = eng.RenderTemplateToDocument("t", document.NewTemplateData()) }); p != nil || err != nil || out == nil {
			res.Fail("C11.H4", "%s rendering the template without data (document %s) failed: %v %v [%s]", tag(key{}, i, "call", ""), name, err, p, stk)
			return nil
		}
		return &derived{name: name, doc: out, m: m.clone(), ops: ops}
	}
	all := func(d *derived) bool {
		for d.next < len(d.ops) {
			if !d.step(res, i, st) {
				return false
			}
		}
		return true
	}
	st.shape = append(st.shape, "render2:"+op.Ord+"(")
	switch op.Ord {
	case "rarb": // the second rendering happens after the first document was extended
		if a = render("A", op.XA); a == nil {
			return nil, nil, false
		}
		if !all(a) {
			return nil, nil, false
		}
		st.shape = append(st.shape, "/")
		if b = render("B", op.XB); b == nil {
			return nil, nil, false
		}
		if !all(b) {
			return nil, nil, false
		}
	case "alt": // both rendered, then extended in turns
		if a = render("A", op.XA); a == nil {
			return nil, nil, false
		}
		if b = render("B", op.XB); b == nil {
			return nil, nil, false
		}
		for a.next < len(a.ops) || b.next < len(b.ops) {
			if a.next < len(a.ops) && !a.step(res, i, st) {
				return nil, nil, false
			}
			st.shape = append(st.shape, "/")
			if b.next < len(b.ops) && !b.step(res, i, st) {
				return nil, nil, false
			}
		}
	default: // "rrab": both rendered, A extended, then B extended
		if a = render("A", op.XA); a == nil {
			return nil, nil, false
		}
		if b = render("B", op.XB); b == nil {
			return nil, nil, false
		}
		if !all(a) {
			return nil, nil, false
		}
		st.shape = append(st.shape, "/")
		if !all(b) {
			return nil, nil, false
		}
	}
	st.shape = append(st.shape, ")")
	// the first document is observed only now, after the second one was extended
	for _, d := range []*derived{a, b} {
		if !checkpoint(res, d.doc, d.m, "render, document "+d.name+" of two rendered from one template, after both were extended", i) {
			return nil, nil, false
		}
	}
	res.Label("render-twice")
	res.Label("render-twice:" + orOrd(op.Ord))
	if a.newKs > 0 && b.newKs > 0 {
		res.Label("render-twice:both-define-a-new-kind")
	}
	if a.adds > 0 && b.adds > 0 {
		res.Label("render-twice:both-add-a-part")
		if a.first != b.first {
			res.Label("render-twice:both-add-a-part,different")
		}
	}
	return a, b, true
}

func orOrd(s string) string {
	if s == "rarb" || s == "alt" {
		return s
	}
	return "rrab"
}

// judgeSides judges the documents the history left behind once more (H4): what happened to their siblings since must not
// have changed them.
func judgeSides(res *kit.Result, sides []side, at int) {
	for _, s := range sides {
		if len(res.Failures) >= 12 {
			return
		}
		checkpoint(res, s.doc, s.m, fmt.Sprintf("render, %s left behind by op %d, judged again at the end of the history", s.name, s.op), at)
	}
	if len(sides) > 0 {
		res.Label("side-documents-rejudged")
	}
}

package c11

import (
	"fmt"
	"os"
	"strings"
	"testing"

	"github.com/zerx-lab/wordZero/pkg/document"
	"pgregory.net/rapid"

	"wzverif/internal/gen"
	"wzverif/internal/kit"
)

func TestMain(m *testing.M) {
	document.SetGlobalLevel(document.LogLevelSilent)
	kit.TestMain(m, 900, 13000)
}

var (
	kinds     = []string{"default", "first", "even"}
	defKinds  = []string{"hdr", "ftr", "hdrpn", "ftrpn", "hdrfmt", "ftrfmt"}
	aligns    = []string{"", "left", "center", "right", "both"}
	colors    = []string{"", "FF0000", "8e8e8e", "000000", "1F4E79", "00b050", "#C00000", "#1f4e79"} // the last two: the CSS spelling of the same six digits
	fonts     = []string{"", "Arial", "宋体", "Times New Roman", "Courier New", "微软雅黑"}
	hilites   = []string{"", "", "yellow", "green", "cyan", "darkYellow"}
	bigSizes  = []int{73, 96, 100, 127, 128, 255, 256, 500, 1638} // w:sz holds half points up to 3276
	pageSizes = []string{"A4", "Letter", "Legal", "A3", "A5"}
)

func genFmt(t *rapid.T) *Fmt {
	if rapid.IntRange(0, 5).Draw(t, "fmtnil") == 0 {
		return nil
	}
	f := &Fmt{
		Bold:      rapid.Bool().Draw(t, "b"),
		Italic:    rapid.Bool().Draw(t, "i"),
		Underline: rapid.IntRange(0, 3).Draw(t, "u") == 0,
		Strike:    rapid.IntRange(0, 3).Draw(t, "s") == 0,
		Color:     rapid.SampledFrom(colors).Draw(t, "c"),
		Highlight: rapid.SampledFrom(hilites).Draw(t, "h"),
	}
	if rapid.Bool().Draw(t, "szset") {
		f.Size = rapid.IntRange(1, 72).Draw(t, "sz")
		if rapid.IntRange(0, 19).Draw(t, "szbig") == 19 {
			f.Size = rapid.SampledFrom(bigSizes).Draw(t, "szb")
		}
	}
	switch rapid.IntRange(0, 3).Draw(t, "fontmode") {
	case 0: // preferred field
		f.Font = rapid.SampledFrom(fonts).Draw(t, "f")
	case 1: // documented alias
		f.FontName = rapid.SampledFrom(fonts).Draw(t, "fn")
	case 2: // both: FontFamily is the preferred one
		f.Font = rapid.SampledFrom(fonts[1:]).Draw(t, "f")
		f.FontName = rapid.SampledFrom(fonts[1:]).Draw(t, "fn")
	}
	return f
}

// strings the library and the format use themselves: part names, relationship ids, kind names, the field instruction, the
// wording the library puts around a page number, element names
var ownWords = []string{"header1.xml", "footer1.xml", "headerfirst.xml", "rId1", "rId2", "rId10", "default", "first", "even", "PAGE", " PAGE ", " 第 ", " 页", "第 1 页", "1", "0", "w:hdr", "w:t", "preserve"}

const clsOwn = "library-own-strings"

func genText(t *rapid.T) (string, string) {
	switch rapid.IntRange(0, 59).Draw(t, "textextra") {
	case 57, 58:
		n := rapid.IntRange(1, 3).Draw(t, "ownn")
		x := ""
		for i := 0; i < n; i++ {
			x += rapid.SampledFrom(ownWords).Draw(t, "own")
		}
		return x, clsOwn
	case 59: // long texts, also of characters that take several bytes
		if s, cls := gen.Text(t, "text", gen.ClsLong); gen.XMLExpressible(s) {
			return s, cls
		}
	}
	s, cls := gen.Text(t, "text", gen.Expressible...)
	if !gen.XMLExpressible(s) {
		return "x", gen.ClsASCII
	}
	return s, cls
}

func genOp(t *rapid.T, focus []string) Op {
	// weights: definitions dominate; the rest interleaves
	k := rapid.SampledFrom([]string{"def", "def", "def", "def", "def", "def", "def", "def", "def", "def", "def",
		"firstpage", "pagesize", "orient", "margins", "hfdist", "image", "list", "para", "reopen", "reopen", "reopen", "reopen", "render", "render", "render2", "render2", "render2", "twin"}).Draw(t, "k")
	return genOpOf(t, k, focus)
}

// genExt draws the calls one of two documents rendered from the same template receives afterwards: mostly definitions,
// the kind drawn from all three (a kind the template does not define yet is as interesting here as a redefinition).
func genExt(t *rapid.T) []Op {
	n := rapid.IntRange(1, 3).Draw(t, "next")
	var ops []Op
	for i := 0; i < n; i++ {
		k := rapid.SampledFrom([]string{"def", "def", "def", "def", "def", "def", "image", "list", "para", "firstpage", "margins"}).Draw(t, "xk")
		ops = append(ops, genOpOf(t, k, kinds))
	}
	return ops
}

func genOpOf(t *rapid.T, k string, focus []string) Op {
	switch k {
	case "def":
		o := Op{K: rapid.SampledFrom(defKinds).Draw(t, "entry")}
		// repeated definitions of one slot are the point of the property: draw the kind from a small focus set most of the time
		if rapid.IntRange(0, 3).Draw(t, "usefocus") > 0 {
			o.Kind = rapid.SampledFrom(focus).Draw(t, "kind")
		} else {
			o.Kind = rapid.SampledFrom(kinds).Draw(t, "kind")
		}
		o.Text, o.Cls = genText(t)
		switch o.K {
		case "hdrpn", "ftrpn":
			o.PN = rapid.IntRange(0, 3).Draw(t, "pn") > 0
		case "hdrfmt", "ftrfmt":
			if rapid.IntRange(0, 11).Draw(t, "nilcfg") == 0 {
				o.NilCfg = true
				o.Text, o.Cls = "", gen.ClsEmpty
			} else {
				o.Fmt = genFmt(t)
				o.Align = rapid.SampledFrom(aligns).Draw(t, "align")
			}
		}
		return o
	case "firstpage":
		return Op{K: k, B: rapid.Bool().Draw(t, "b")}
	case "pagesize":
		return Op{K: k, S: rapid.SampledFrom(pageSizes).Draw(t, "size")}
	case "orient":
		return Op{K: k, S: rapid.SampledFrom([]string{"portrait", "landscape"}).Draw(t, "o")}
	case "margins":
		f := func(l string) float64 { return float64(rapid.IntRange(0, 60).Draw(t, l)) }
		return Op{K: k, F: []float64{f("mt"), f("mr"), f("mb"), f("ml")}}
	case "hfdist":
		f := func(l string) float64 { return float64(rapid.IntRange(0, 40).Draw(t, l)) }
		return Op{K: k, F: []float64{f("hd"), f("fd")}}
	case "image":
		im := gen.Image(t, "img")
		im.Name = map[string]string{"png": "a.png", "jpeg": "b.jpeg", "gif": "d.gif"}[im.Fmt]
		return Op{K: k, Img: &im}
	case "list":
		return Op{K: k, S: rapid.SampledFrom([]string{"bullet", "number"}).Draw(t, "lt")}
	case "render":
		return Op{K: k, B: rapid.Bool().Draw(t, "cont")}
	case "twin":
		return Op{K: k, XA: genExt(t)}
	case "render2":
		return Op{K: k, Ord: rapid.SampledFrom([]string{"rrab", "rrab", "rarb", "alt"}).Draw(t, "ord"), Cont: rapid.IntRange(0, 2).Draw(t, "cont2"),
			XA: genExt(t), XB: genExt(t)}
	}
	return Op{K: k}
}

// genStart draws the header/footer layout of a document written by another producer: which of the six slots exist
// (any subset), how the parts are named (Word numbers them in creation order, in no relation to the kind; other
// producers use folders or names of their own), how the relationship targets are spelt (relative, ./, absolute part
// name, through ..), which ids the relationships carry, in which order w:sectPr lists the references, whether a part
// brings a relationship part and a picture of its own, and whether a part is left unreferenced.
var (
	freeHdr = []string{"hdr_a.xml", "pagehead.xml", "h.xml"}
	freeFtr = []string{"ftr_a.xml", "pagefoot.xml", "f.xml"}
	folders = []string{"headers", "hf", "parts/hf"}
)

var partBodies = []string{"", "", "", "", "split", "paras", "fldsimple", "fldcomplex"}

func genStart(t *rapid.T) *Start {
	idx := rapid.Permutation([]int{0, 1, 2, 3, 4, 5}).Draw(t, "slots")
	n := rapid.SampledFrom([]int{1, 2, 3, 4, 2, 3, 5, 6, 0}).Draw(t, "nslots")
	naming := rapid.SampledFrom([]string{"word", "word", "lib", "swap", "sub", "sub", "free"}).Draw(t, "naming")
	tgtMode := rapid.SampledFrom([]string{"", "", "abs", "abs", "dot", "up", "mixed", "mixed"}).Draw(t, "tgtmode")
	idMode := rapid.SampledFrom([]string{"seq", "seq", "gap", "named"}).Draw(t, "idmode")
	folder := ""
	if naming == "sub" {
		folder = rapid.SampledFrom(folders).Draw(t, "folder") + "/"
	}
	rot := rapid.IntRange(1, 2).Draw(t, "rot")
	// numbered parts need not be numbered densely: a producer that deleted a header keeps the numbers of the others
	// (header1.xml, header3.xml), and a document that lost its default header keeps the first-page/even ones
	sparse := (naming == "word" || naming == "sub") && rapid.IntRange(0, 2).Draw(t, "sparse") > 0
	noDefault := sparse && rapid.Bool().Draw(t, "nodefault")
	if sparse {
		n = rapid.SampledFrom([]int{2, 3, 4, 4, 5, 6}).Draw(t, "nslots-sparse")
	}
	st := &Start{}
	// what the package has besides the header/footer parts: no styles part at all (ids count from rId1), further
	// relationships in front (ids of the header/footer relationships past rId9/rId10, seldom past rId64)
	st.NoStyles = rapid.IntRange(0, 3).Draw(t, "nostyles") == 3
	st.Pad = rapid.SampledFrom([]int{0, 0, 0, 0, 0, 1, 3, 6, 7, 8, 9, 61, 63}).Draw(t, "pad")

	// the sections in front of the last one (one start in three): each references parts of its own (kinds drawn
	// independently of the last section's) and sometimes a part the last section references too
	type proto struct {
		k     key
		early int // 0: a slot of the last section, n: a part of earlier section n
	}
	var protos []proto
	for _, i := range idx[:n] {
		if noDefault && allKeys[i].Kind == "default" {
			continue
		}
		protos = append(protos, proto{k: allKeys[i]})
	}
	nEarly := 0
	if rapid.IntRange(0, 2).Draw(t, "multisection") == 2 {
		nEarly = rapid.SampledFrom([]int{1, 1, 1, 1, 2, 2, 3, 10}).Draw(t, "nearly")
	}
	var early []proto
	for e := 1; e <= nEarly; e++ {
		own := rapid.SampledFrom([]int{1, 1, 2, 2, 3, 0}).Draw(t, "nown")
		if nEarly >= 10 {
			own = 1 + e%2 // ten sections with a header each (and a footer in every second): header10.xml, footer5.xml ...
		}
		eidx := rapid.Permutation([]int{0, 1, 2, 3, 4, 5}).Draw(t, "eslots")
		if nEarly >= 10 && allKeys[eidx[0]].Footer { // a header first
			for x, v := range eidx {
				if !allKeys[v].Footer {
					eidx[0], eidx[x] = eidx[x], eidx[0]
					break
				}
			}
		}
		for _, i := range eidx[:own] {
			early = append(early, proto{k: allKeys[i], early: e})
		}
	}
	if nEarly > 0 && rapid.Bool().Draw(t, "earlyfirst") { // Word numbers the parts in creation order: the first section's come first
		protos = append(early, protos...)
	} else {
		protos = append(protos, early...)
	}
	// the numbers of the numbered parts, per side, in creation order: 1..k, or (sparse) 1..k+g without g of them
	numsOf := func(footer bool, label string) []int {
		k := 0
		for _, p := range protos {
			if p.k.Footer == footer {
				k++
			}
		}
		total := k
		if sparse && k > 0 {
			total = k + rapid.SampledFrom([]int{1, 1, 1, 2}).Draw(t, label+"gaps")
		}
		all := make([]int, total)
		for i := range all {
			all[i] = i + 1
		}
		if total == k {
			return all
		}
		// drop total-k numbers, never the highest one (a gap is a number below an existing one)
		drop := map[int]bool{}
		for _, v := range rapid.Permutation(all[:total-1]).Draw(t, label+"gap")[:total-k] {
			drop[v] = true
		}
		var out []int
		for _, v := range all {
			if !drop[v] {
				out = append(out, v)
			}
		}
		return out
	}
	hdrNums, ftrNums := numsOf(false, "h"), numsOf(true, "f")
	nh, nf := 0, 0
	for j, p := range protos {
		k := p.k
		s := StartSlot{Footer: k.Footer, Kind: k.Kind, Text: "other producer's " + k.String()}
		if p.early > 0 {
			s.Text = fmt.Sprintf("section %d %s", p.early, k.String())
			s.Unref = true
		}
		num := 0
		if k.Footer {
			nf++
			num = nf
		} else {
			nh++
			num = nh
		}
		what := "header"
		if k.Footer {
			what = "footer"
		}
		switch {
		case p.early > 0 && naming != "word" && naming != "sub":
			// the library's names and the free names are too few: parts of earlier sections are numbered (from 2: header1.xml is a library name)
			s.Part = fmt.Sprintf("%s%d.xml", what, num+1)
		case naming == "lib":
			s.Part = libPart(k)
		case naming == "swap": // the library's names, attached to other kinds
			ki := 0
			for x, kd := range kinds {
				if kd == k.Kind {
					ki = x
				}
			}
			s.Part = libPart(key{k.Footer, kinds[(ki+rot)%3]})
		case naming == "free":
			names := freeHdr
			if k.Footer {
				names = freeFtr
			}
			s.Part = fmt.Sprintf("%s%d.xml", what, num+1)
			for _, nm := range names {
				used := false
				for _, o := range st.Slots {
					used = used || o.Part == nm
				}
				if !used {
					s.Part = nm
					break
				}
			}
		default: // "word", "sub": numbered in creation order (with gaps when sparse)
			if k.Footer {
				num = ftrNums[num-1]
			} else {
				num = hdrNums[num-1]
			}
			s.Part = fmt.Sprintf("%s%s%d.xml", folder, what, num)
		}
		switch tgtMode {
		case "mixed":
			s.Tgt = rapid.SampledFrom([]string{"", "abs", "dot", "up"}).Draw(t, "tgt")
		default:
			s.Tgt = tgtMode
		}
		switch idMode {
		case "gap":
			s.ID = fmt.Sprintf("rId%d", st.firstID()+2+3*j+rapid.IntRange(0, 2).Draw(t, "idgap"))
		case "named":
			s.ID = fmt.Sprintf("%s%d", rapid.SampledFrom([]string{"hf", "R", "rIdHdr", "id_"}).Draw(t, "idname"), j+1)
		}
		s.Pic = rapid.IntRange(0, 4).Draw(t, "pic") == 4
		if p.early == 0 {
			s.Unref = rapid.IntRange(0, 9).Draw(t, "unref") == 9
		}
		s.Body = rapid.SampledFrom(partBodies).Draw(t, "body")
		st.Slots = append(st.Slots, s)
	}
	for e := 1; e <= nEarly; e++ {
		es := EarlySect{Text: rapid.Bool().Draw(t, "secttext")}
		have := map[key]bool{}
		for i, p := range protos {
			if p.early == e {
				es.Refs = append(es.Refs, i)
				have[p.k] = true
			}
		}
		// a part shared with the last section
		if rapid.IntRange(0, 3).Draw(t, "share") == 3 {
			for i, p := range protos {
				if p.early == 0 && !have[p.k] {
					es.Refs = append(es.Refs, i)
					break
				}
			}
		}
		st.Earlier = append(st.Earlier, es)
	}
	if len(protos) > 1 && rapid.IntRange(0, 2).Draw(t, "permrefs") > 0 {
		base := make([]int, len(protos))
		for i := range base {
			base[i] = i
		}
		ord := rapid.Permutation(base).Draw(t, "reforder")
		for i, v := range ord {
			if v != i {
				st.RefOrder = ord
				break
			}
		}
	}
	if !st.NoStyles {
		switch rapid.IntRange(0, 3).Draw(t, "stylesrel") {
		case 1:
			st.StylesLast = true
		case 2:
			st.StylesID, st.StylesLast = "rId190", true
		case 3:
			st.StylesID = "styles"
		}
	}
	st.File = rapid.IntRange(0, 5).Draw(t, "viafile") == 5
	return st
}

func genCase(t *rapid.T) Case {
	n := rapid.IntRange(1, kit.Scale(14, 24)).Draw(t, "n")
	focus := []string{rapid.SampledFrom(kinds).Draw(t, "focus1"), rapid.SampledFrom(kinds).Draw(t, "focus2")}
	var c Case
	if rapid.IntRange(0, 2).Draw(t, "foreign") == 0 {
		c.Start = genStart(t)
		if err := c.Start.valid(); err != nil {
			t.Fatalf("harness: the generator drew a malformed start layout: %v", err)
		}
		// a history on an opened document redefines kinds the document brought along and defines kinds it lacks
		var have []string
		for _, s := range c.Start.Slots {
			if !s.Unref {
				have = append(have, s.Kind)
			}
		}
		if len(have) > 0 {
			focus[0] = rapid.SampledFrom(have).Draw(t, "focusexisting")
		}
		var lacks []string
		for _, k := range allKeys {
			if _, ok := c.Start.slot(k); !ok {
				lacks = append(lacks, k.Kind)
			}
		}
		if len(lacks) > 0 && rapid.Bool().Draw(t, "focusmissing") {
			focus[1] = rapid.SampledFrom(lacks).Draw(t, "focuslacking")
		}
	}
	// one history in 40: one slot is defined again and again (11-22 times), with a few other steps in between
	if rapid.IntRange(0, 39).Draw(t, "burst") == 39 {
		n = rapid.IntRange(12, 22).Draw(t, "nburst")
		footer := rapid.Bool().Draw(t, "burstfooter")
		for i := 0; i < n; i++ {
			if rapid.IntRange(0, 7).Draw(t, "burstother") == 7 {
				c.Ops = append(c.Ops, genOpOf(t, rapid.SampledFrom([]string{"reopen", "render", "image", "para", "firstpage"}).Draw(t, "bk"), focus))
				continue
			}
			o := genOpOf(t, "def", focus)
			o.Kind = focus[0]
			o.K = map[bool]string{false: "hdr", true: "ftr"}[footer] + strings.TrimPrefix(strings.TrimPrefix(o.K, "hdr"), "ftr")
			c.Ops = append(c.Ops, o)
		}
		return c
	}
	for i := 0; i < n; i++ {
		c.Ops = append(c.Ops, genOp(t, focus))
	}
	return c
}

// fixed regression histories: the shortest forms of what the property is about.
func fixedCases() []Case {
	if os.Getenv("C11_NOFIXED") != "" { // sensitivity experiments: generated search only
		return nil
	}
	return []Case{
		{Ops: []Op{{K: "hdr", Kind: "default", Text: "one", Cls: "ascii"}, {K: "ftrpn", Kind: "default", Text: "p", PN: true, Cls: "ascii"}, {K: "reopen"}, {K: "render", B: true}}},
		{Start: &Start{Slots: []StartSlot{{Kind: "even", Part: "header1.xml", Text: "E"}, {Kind: "default", Part: "header2.xml", Text: "D"}, {Footer: true, Kind: "default", Part: "footer1.xml", Text: "F"}}},
			Ops: []Op{{K: "para"}, {K: "reopen"}, {K: "render", B: true}, {K: "hdr", Kind: "first", Text: "new first", Cls: "ascii"}, {K: "reopen"}}},
		// two documents rendered from one template, each given a further kind afterwards, then the template itself
		{Ops: []Op{{K: "hdr", Kind: "default", Text: "H", Cls: "ascii"}, {K: "ftr", Kind: "default", Text: "F", Cls: "ascii"}, {K: "hdr", Kind: "first", Text: "C", Cls: "ascii"},
			{K: "render2", Ord: "rrab", XA: []Op{{K: "hdr", Kind: "even", Text: "A even", Cls: "ascii"}}, XB: []Op{{K: "ftrpn", Kind: "even", Text: "B even", PN: true, Cls: "ascii"}}},
			{K: "ftr", Kind: "first", Text: "T first", Cls: "ascii"}}},
		{Ops: []Op{{K: "hdrfmt", Kind: "even", Text: "T", Cls: "ascii", Align: "center", Fmt: &Fmt{Bold: true, Size: 10, Color: "8e8e8e", Font: "Arial"}}, {K: "firstpage", B: true}, {K: "ftrfmt", Kind: "first", Text: "F", Cls: "ascii", Align: "right"}, {K: "reopen"}}},
		// another producer's spellings: absolute and ./ targets, a part in a sub-folder with a picture of its own, references in
		// another order than the relationships, ids that are not rIdN; every kind it defines is redefined, a missing one defined
		{Start: &Start{Slots: []StartSlot{{Kind: "first", Part: "header1.xml", Text: "P first", Tgt: "abs", ID: "hf1"}, {Kind: "default", Part: "headers/header2.xml", Text: "P default", Tgt: "dot", ID: "hf2", Pic: true},
			{Footer: true, Kind: "default", Part: "footer1.xml", Text: "P footer", Tgt: "up", ID: "hf3"}, {Footer: true, Kind: "even", Part: "footer2.xml", Text: "P even footer", ID: "hf4", Unref: true}},
			RefOrder: []int{2, 1, 0, 3}, StylesID: "rId90", StylesLast: true},
			Ops: []Op{{K: "hdr", Kind: "first", Text: "new first", Cls: "ascii"}, {K: "ftrpn", Kind: "default", Text: "new footer", PN: true, Cls: "ascii"}, {K: "reopen"},
				{K: "hdrfmt", Kind: "default", Text: "new default", Cls: "ascii", Align: "center", Fmt: &Fmt{Bold: true}}, {K: "ftr", Kind: "even", Text: "new even footer", Cls: "ascii"}, {K: "render", B: true},
				{K: "hdr", Kind: "even", Text: "new even", Cls: "ascii"}, {K: "reopen"}}},
	}
}

func TestC11(t *testing.T) {
	kit.Main(t, kit.Spec[Case]{
		ID: "C11", Level: "exploration",
		Rule: "history of 1-14 (thorough 1-24) calls: the six header/footer definition entry points (AddHeader, AddFooter, Add{Header,Footer}WithPageNumber, AddFormatted{Header,Footer}) x {default, first, even} with XML-expressible texts (ascii, unicode, XML metacharacters, edge/only white space, empty), formats (bold, italic, underline, strike, size, colour as six hex digits in either case or - one non-empty colour in 3.5 - in the CSS spelling #RRGGBB, font via FontFamily / FontName alias / both, highlight, nil format, nil config) and alignments, the kind drawn mostly from a 2-element focus set so that slots are redefined; interleaved with SetDifferentFirstPage, page-setting calls, images, list items, paragraphs, save->OpenFromMemory (continue on the reopened document) and a no-data LoadTemplateFromDocument+RenderTemplateToDocument (judged; continue on the result in half of the cases), and a render-twice step: one LoadTemplateFromDocument, two RenderTemplateToDocument calls, each rendered document then receives 1-3 further calls of its own (definitions over all kinds, image, list, paragraph, page settings; renders and extensions ordered A B xA xB / A xA B xB / alternating) and only then both are judged, each against the template's model plus its own calls; the history continues on the template or on either rendered document. Every document a render step leaves behind (template or rendered) is judged once more, against the model it had, at the end of the history. One history in three starts, instead of document.New(), from a document of another producer (written by the harness with string templates, opened with OpenFromMemory or Open) that defines any subset of the six slots (0-6), in parts named like Word names them (header1..n.xml / footer1..n.xml in creation order, the number saying nothing about the kind), like the library does, with the library's names attached to other kinds, with free names, or in a sub-folder of word/ (word/headers/header1.xml, word/parts/hf/...); relationship targets spelt relative (header1.xml), with ./, as absolute part names (/word/header1.xml) or through the parent folder (../word/header1.xml), uniformly or mixed; relationship ids contiguous, with gaps or not of the rIdN form, the styles relationship first/last and rId1 or not; the references of w:sectPr in any order; parts with a relationship part and a picture of their own; parts that have a relationship but no reference (such a kind is not defined). On such a document the focus set holds a kind the document defines and (one in two) a kind it lacks, so that the history both redefines existing kinds and defines missing ones through all six entry points. Such a package further varies: no styles part and no styles relationship at all (1 in 4; the relationship ids then count from rId1, so that a header/footer relationship is rId1); 0-9, seldom 61-63 further relationships (external hyperlinks) in front of the header/footer ones (ids past rId9/rId10, past rId64); more than one section (1 in 3: 1-3, seldom 10 sections in front of the last one, each with a w:sectPr inside the w:pPr of its last paragraph that references 0-3 header/footer parts of its own - up to header13.xml - and sometimes a part the last section references too; the model follows the body-level w:sectPr, a kind that only an earlier section references is left open until a call defines it); numbered parts whose numbers have gaps (two word-named or sub-folder layouts in three: one or two numbers below the highest one are unused - header1.xml + header3.xml - as after a producer deleted a part; half of these documents define no default header/footer at all, so that the name the library uses for a missing kind, header1.xml / footer1.xml, belongs to another kind while the numbering is not dense); the content of a part (text in one run, split over two runs, over two paragraphs, followed by a PAGE field as w:fldSimple or as begin/instrText/separate/result/end - such a kind counts as defined with a page number). Texts: 1 in 30 is built from strings the library and the format use themselves (header1.xml, rId1, default, PAGE, the wording around the page number ...), 1 in 60 is long (200-2000 characters, also of multi-byte characters); 1 formatted size in 20 lies above 72 pt (73 ... 1638). One history in 40 defines one slot 11-22 times in a row (with reopen/render/image steps in between). A twin step makes a second document of the process the way the first was made (document.New(), or the same package opened once more), gives it 1-3 calls of its own and judges it against its own model; the first document is judged at its next definition and at the end, the twin again at the end. Reference model: slot (header|footer x kind) -> most recent definition (call, or the opened document's). The package is saved and judged with an independent zip/XML reader after every definition, open, reopen, render and at the end. non-trivial = >=2 definition calls and (some slot defined more than once, or a definition carried over a reopen/render); distinct = distinct sequence of (start layout, entry point, kind, page-number/format/empty flags, other op kinds)",
		Gen:  genCase, Run: run, Findings: findings, Fixed: fixedCases,
		MustSee: map[string]float64{"repeat-kind": 0.4, "reopen": 0.3, "render": 0.15, "render-twice": 0.1, "render-twice:both-add-a-part,different": 0.03, "render-twice:both-define-a-new-kind": 0.02, "redefine-after-reopen-or-render": 0.1, "page-number": 0.3, "formatted": 0.3,
			"all-three-kinds": 0.1, "definition-carried-over-reopen-or-render": 0.3, "foreign-start": 0.2, "foreign-start:word-part-names": 0.1,
			"foreign-start:redefine-existing-kind": 0.08, "foreign-start:define-missing-kind": 0.1, "foreign-start:redefine-existing-kind:target-abs": 0.02, "foreign-start:redefine-existing-kind:target-dot": 0.01,
			"foreign-start:redefine-existing-kind:target-up": 0.01, "foreign-start:redefine-existing-kind:part-in-subfolder": 0.015, "foreign-start:redefine-existing-kind:part-with-own-rels": 0.02,
			"foreign-start:references-permuted": 0.05, "foreign-start:unreferenced-part": 0.03, "foreign-start:ids-not-contiguous": 0.05, "foreign-start:opened-from-file": 0.02, "text:xmlmeta": 0.2, "text:edgews": 0.2, "text:unicode": 0.2,
			"foreign-start:multi-section": 0.05, "foreign-start:multi-section:definition-call": 0.04, "foreign-start:multi-section:earlier-section-shares-a-part-with-the-last": 0.01, "foreign-start:multi-section:ten-or-more-sections": 0.003,
			"foreign-start:no-styles-part": 0.04, "foreign-start:no-styles-part:definition-call": 0.03, "foreign-start:header-footer-relationship-is-rId1": 0.01, "foreign-start:header-footer-id-past-rId9": 0.05,
			"foreign-start:more-than-64-relationships": 0.01, "foreign-start:kind-defined-with-page-field": 0.05, "foreign-start:redefine-existing-kind:part-with-page-field": 0.02,
			"formatted:colour-in-css-spelling": 0.06, "foreign-start:part-numbers-with-gaps": 0.04, "foreign-start:define-missing-kind:library-name-taken": 0.01, "foreign-start:define-missing-kind:library-name-taken:part-numbers-with-gaps": 0.002,
			"twin-document": 0.05, "twin-document:both-have-definitions": 0.03, "one-kind-defined-more-than-10-times": 0.008, "text:" + clsOwn: 0.05, "text:long": 0.02},
		Assumptions: []string{
			"texts are drawn from the XML-expressible classes without template syntax (identity of text is compared); colours are 6-digit hex as documented, also written the CSS way with a leading '#' (the spelling the paragraph calls accept for the same TextFormat and callers of the library use): the colour asked for is the six digits, which is what w:color/@w:val must hold (compared case-insensitively; '#' is not part of a hex colour value); sizes 1-72 pt",
			"the wording around the page number is not documented: with showPageNum the visible text must contain the caller's text contiguously and a PAGE field must be present",
			"a formatted call without alignment may leave w:jc absent or left/start",
			"documents of another producer are minimal valid packages (main part word/document.xml, header/footer parts below word/, plain ASCII header texts, unique relationship ids, with or without a styles part, one or several sections); every spelling of a relationship target the generator uses names the same part by the OPC resolution rules (relative to the folder of the source part, absolute when it starts with /), and the saved package is judged with the same rules",
			"a header/footer part of an opened document that has a relationship but no reference in w:sectPr does not define its kind; pictures and relationship parts of header/footer parts are not part of the statement and are not compared",
			"in a document with several sections the section settings of the document are those of the body-level w:sectPr (the last section; the library documents the page-setting API the same way); what the document-level calls do to earlier sections is not stated: there only 'at most one reference per kind' and resolvability are judged, and a kind that only an earlier section references (the last section would inherit it by the format's rules) may or may not be referenced until a call defines it",
			"two documents alive in one process are independent of each other (twin step): each is judged against its own calls only",
			"SetDifferentFirstPage is exercised as an interleaved call; w:titlePg itself is not part of the property statement and is only counted (counts observed:titlePg-*)",
		},
	})
}

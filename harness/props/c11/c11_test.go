package c11

import (
	"os"
	"testing"

	"github.com/zerx-lab/wordZero/pkg/document"
	"pgregory.net/rapid"

	"wzverif/internal/gen"
	"wzverif/internal/kit"
)

func TestMain(m *testing.M) {
	document.SetGlobalLevel(document.LogLevelSilent)
	kit.TestMain(m, 700, 6000)
}

var (
	kinds     = []string{"default", "first", "even"}
	defKinds  = []string{"hdr", "ftr", "hdrpn", "ftrpn", "hdrfmt", "ftrfmt"}
	aligns    = []string{"", "left", "center", "right", "both"}
	colors    = []string{"", "FF0000", "8e8e8e", "000000", "1F4E79", "00b050"}
	fonts     = []string{"", "Arial", "宋体", "Times New Roman", "Courier New", "微软雅黑"}
	hilites   = []string{"", "", "yellow", "green"}
	pageSizes = []string{"A4", "Letter", "Legal", "A3", "A5"}
)

func genFmt(t *rapid.T) *Fmt {
	if rapid.IntRange(0, 5).Draw(t, "fmtnil") == 0 {
		return nil
	}
	f := &Fmt{
		Bold:      rapid.Bool().Draw(t, "b"),
		Italic:    rapid.Bool().Draw(t, "i"),
		Underline: rapid.IntRange(0, 3).Draw(t, "u") == 0,
		Strike:    rapid.IntRange(0, 3).Draw(t, "s") == 0,
		Color:     rapid.SampledFrom(colors).Draw(t, "c"),
		Highlight: rapid.SampledFrom(hilites).Draw(t, "h"),
	}
	if rapid.Bool().Draw(t, "szset") {
		f.Size = rapid.IntRange(1, 72).Draw(t, "sz")
	}
	switch rapid.IntRange(0, 3).Draw(t, "fontmode") {
	case 0: // preferred field
		f.Font = rapid.SampledFrom(fonts).Draw(t, "f")
	case 1: // documented alias
		f.FontName = rapid.SampledFrom(fonts).Draw(t, "fn")
	case 2: // both: FontFamily is the preferred one
		f.Font = rapid.SampledFrom(fonts[1:]).Draw(t, "f")
		f.FontName = rapid.SampledFrom(fonts[1:]).Draw(t, "fn")
	}
	return f
}

func genText(t *rapid.T) (string, string) {
	s, cls := gen.Text(t, "text", gen.Expressible...)
	if !gen.XMLExpressible(s) {
		return "x", gen.ClsASCII
	}
	return s, cls
}

func genOp(t *rapid.T, focus []string) Op {
	// weights: definitions dominate; the rest interleaves
	k := rapid.SampledFrom([]string{"def", "def", "def", "def", "def", "def", "def", "def", "def", "def", "def",
		"firstpage", "pagesize", "orient", "margins", "hfdist", "image", "list", "para", "reopen", "reopen", "reopen", "render", "render", "render2", "render2", "render2"}).Draw(t, "k")
	return genOpOf(t, k, focus)
}

// genExt draws the calls one of two documents rendered from the same template receives afterwards: mostly definitions,
// the kind drawn from all three (a kind the template does not define yet is as interesting here as a redefinition).
func genExt(t *rapid.T) []Op {
	n := rapid.IntRange(1, 3).Draw(t, "next")
	var ops []Op
	for i := 0; i < n; i++ {
		k := rapid.SampledFrom([]string{"def", "def", "def", "def", "def", "def", "image", "list", "para", "firstpage", "margins"}).Draw(t, "xk")
		ops = append(ops, genOpOf(t, k, kinds))
	}
	return ops
}

func genOpOf(t *rapid.T, k string, focus []string) Op {
	switch k {
	case "def":
		o := Op{K: rapid.SampledFrom(defKinds).Draw(t, "entry")}
		// repeated definitions of one slot are the point of the property: draw the kind from a small focus set most of the time
		if rapid.IntRange(0, 3).Draw(t, "usefocus") > 0 {
			o.Kind = rapid.SampledFrom(focus).Draw(t, "kind")
		} else {
			o.Kind = rapid.SampledFrom(kinds).Draw(t, "kind")
		}
		o.Text, o.Cls = genText(t)
		switch o.K {
		case "hdrpn", "ftrpn":
			o.PN = rapid.IntRange(0, 3).Draw(t, "pn") > 0
		case "hdrfmt", "ftrfmt":
			if rapid.IntRange(0, 11).Draw(t, "nilcfg") == 0 {
				o.NilCfg = true
				o.Text, o.Cls = "", gen.ClsEmpty
			} else {
				o.Fmt = genFmt(t)
				o.Align = rapid.SampledFrom(aligns).Draw(t, "align")
			}
		}
		return o
	case "firstpage":
		return Op{K: k, B: rapid.Bool().Draw(t, "b")}
	case "pagesize":
		return Op{K: k, S: rapid.SampledFrom(pageSizes).Draw(t, "size")}
	case "orient":
		return Op{K: k, S: rapid.SampledFrom([]string{"portrait", "landscape"}).Draw(t, "o")}
	case "margins":
		f := func(l string) float64 { return float64(rapid.IntRange(0, 60).Draw(t, l)) }
		return Op{K: k, F: []float64{f("mt"), f("mr"), f("mb"), f("ml")}}
	case "hfdist":
		f := func(l string) float64 { return float64(rapid.IntRange(0, 40).Draw(t, l)) }
		return Op{K: k, F: []float64{f("hd"), f("fd")}}
	case "image":
		im := gen.Image(t, "img")
		im.Name = map[string]string{"png": "a.png", "jpeg": "b.jpeg", "gif": "d.gif"}[im.Fmt]
		return Op{K: k, Img: &im}
	case "list":
		return Op{K: k, S: rapid.SampledFrom([]string{"bullet", "number"}).Draw(t, "lt")}
	case "render":
		return Op{K: k, B: rapid.Bool().Draw(t, "cont")}
	case "render2":
		return Op{K: k, Ord: rapid.SampledFrom([]string{"rrab", "rrab", "rarb", "alt"}).Draw(t, "ord"), Cont: rapid.IntRange(0, 2).Draw(t, "cont2"),
			XA: genExt(t), XB: genExt(t)}
	}
	return Op{K: k}
}

// genStart draws the header/footer layout of a document written by another producer: 1-4 distinct slots, parts named
// in creation order like Word does (header1.xml, header2.xml ... in no relation to the kind) or like the library does.
func genStart(t *rapid.T) *Start {
	idx := rapid.Permutation([]int{0, 1, 2, 3, 4, 5}).Draw(t, "slots")
	n := rapid.IntRange(1, 4).Draw(t, "nslots")
	wordNames := rapid.IntRange(0, 3).Draw(t, "wordnames") > 0
	st := &Start{}
	nh, nf := 0, 0
	for _, i := range idx[:n] {
		k := allKeys[i]
		s := StartSlot{Footer: k.Footer, Kind: k.Kind, Text: "other producer's " + k.String()}
		if wordNames {
			if k.Footer {
				nf++
				s.Part = "footer" + string(rune('0'+nf)) + ".xml"
			} else {
				nh++
				s.Part = "header" + string(rune('0'+nh)) + ".xml"
			}
		} else {
			s.Part = libPart(k)
		}
		st.Slots = append(st.Slots, s)
	}
	return st
}

func genCase(t *rapid.T) Case {
	n := rapid.IntRange(1, kit.Scale(14, 24)).Draw(t, "n")
	focus := []string{rapid.SampledFrom(kinds).Draw(t, "focus1"), rapid.SampledFrom(kinds).Draw(t, "focus2")}
	var c Case
	if rapid.IntRange(0, 3).Draw(t, "foreign") == 0 {
		c.Start = genStart(t)
	}
	for i := 0; i < n; i++ {
		c.Ops = append(c.Ops, genOp(t, focus))
	}
	return c
}

// fixed regression histories: the shortest forms of what the property is about.
func fixedCases() []Case {
	if os.Getenv("C11_NOFIXED") != "" { // sensitivity experiments: generated search only
		return nil
	}
	return []Case{
		{Ops: []Op{{K: "hdr", Kind: "default", Text: "one", Cls: "ascii"}, {K: "ftrpn", Kind: "default", Text: "p", PN: true, Cls: "ascii"}, {K: "reopen"}, {K: "render", B: true}}},
		{Start: &Start{Slots: []StartSlot{{Kind: "even", Part: "header1.xml", Text: "E"}, {Kind: "default", Part: "header2.xml", Text: "D"}, {Footer: true, Kind: "default", Part: "footer1.xml", Text: "F"}}},
			Ops: []Op{{K: "para"}, {K: "reopen"}, {K: "render", B: true}, {K: "hdr", Kind: "first", Text: "new first", Cls: "ascii"}, {K: "reopen"}}},
		// two documents rendered from one template, each given a further kind afterwards, then the template itself
		{Ops: []Op{{K: "hdr", Kind: "default", Text: "H", Cls: "ascii"}, {K: "ftr", Kind: "default", Text: "F", Cls: "ascii"}, {K: "hdr", Kind: "first", Text: "C", Cls: "ascii"},
			{K: "render2", Ord: "rrab", XA: []Op{{K: "hdr", Kind: "even", Text: "A even", Cls: "ascii"}}, XB: []Op{{K: "ftrpn", Kind: "even", Text: "B even", PN: true, Cls: "ascii"}}},
			{K: "ftr", Kind: "first", Text: "T first", Cls: "ascii"}}},
		{Ops: []Op{{K: "hdrfmt", Kind: "even", Text: "T", Cls: "ascii", Align: "center", Fmt: &Fmt{Bold: true, Size: 10, Color: "8e8e8e", Font: "Arial"}}, {K: "firstpage", B: true}, {K: "ftrfmt", Kind: "first", Text: "F", Cls: "ascii", Align: "right"}, {K: "reopen"}}},
	}
}

func TestC11(t *testing.T) {
	kit.Main(t, kit.Spec[Case]{
		ID: "C11", Level: "exploration",
		Rule: "history of 1-14 (thorough 1-24) calls: the six header/footer definition entry points (AddHeader, AddFooter, Add{Header,Footer}WithPageNumber, AddFormatted{Header,Footer}) x {default, first, even} with XML-expressible texts (ascii, unicode, XML metacharacters, edge/only white space, empty), formats (bold, italic, underline, strike, size, colour, font via FontFamily / FontName alias / both, highlight, nil format, nil config) and alignments, the kind drawn mostly from a 2-element focus set so that slots are redefined; interleaved with SetDifferentFirstPage, page-setting calls, images, list items, paragraphs, save->OpenFromMemory (continue on the reopened document) and a no-data LoadTemplateFromDocument+RenderTemplateToDocument (judged; continue on the result in half of the cases), and a render-twice step: one LoadTemplateFromDocument, two RenderTemplateToDocument calls, each rendered document then receives 1-3 further calls of its own (definitions over all kinds, image, list, paragraph, page settings; renders and extensions ordered A B xA xB / A xA B xB / alternating) and only then both are judged, each against the template's model plus its own calls; the history continues on the template or on either rendered document. Every document a render step leaves behind (template or rendered) is judged once more, against the model it had, at the end of the history. One history in four starts from a document of another producer (written by the harness) that already defines 1-4 slots in parts named like Word names them (header1..n.xml in creation order) or like the library does, instead of document.New(). Reference model: slot (header|footer x kind) -> most recent definition (call, or the opened document's). The package is saved and judged with an independent zip/XML reader after every definition, open, reopen, render and at the end. non-trivial = >=2 definition calls and (some slot defined more than once, or a definition carried over a reopen/render); distinct = distinct sequence of (start layout, entry point, kind, page-number/format/empty flags, other op kinds)",
		Gen:  genCase, Run: run, Findings: findings, Fixed: fixedCases,
		MustSee: map[string]float64{"repeat-kind": 0.4, "reopen": 0.3, "render": 0.15, "render-twice": 0.1, "render-twice:both-add-a-part,different": 0.03, "render-twice:both-define-a-new-kind": 0.02, "redefine-after-reopen-or-render": 0.1, "page-number": 0.3, "formatted": 0.3,
			"all-three-kinds": 0.1, "definition-carried-over-reopen-or-render": 0.3, "foreign-start": 0.15, "foreign-start:word-part-names": 0.08, "text:xmlmeta": 0.2, "text:edgews": 0.2, "text:unicode": 0.2},
		Assumptions: []string{
			"texts are drawn from the XML-expressible classes without template syntax (identity of text is compared); colours are 6-digit hex as documented; sizes 1-72 pt",
			"the wording around the page number is not documented: with showPageNum the visible text must contain the caller's text contiguously and a PAGE field must be present",
			"a formatted call without alignment may leave w:jc absent or left/start",
			"documents of another producer are minimal valid packages with contiguous relationship ids (rId1 styles, rId2.. headers/footers), relative targets and plain ASCII header texts",
			"SetDifferentFirstPage is exercised as an interleaved call; w:titlePg itself is not part of the property statement and is only counted (counts observed:titlePg-*)",
		},
	})
}

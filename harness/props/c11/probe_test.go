package c11

import (
	"bytes"
	"fmt"
	"io"
	"sort"
	"testing"

	"github.com/zerx-lab/wordZero/pkg/document"
	"wzverif/internal/opc"
)

func dump(t *testing.T, doc *document.Document, what string) []byte {
	b, err := doc.ToBytes()
	if err != nil {
		t.Fatal(err)
	}
	p, _ := opc.Read(b)
	fmt.Println("=====", what)
	names := p.SortedNames()
	sort.Strings(names)
	fmt.Println(names)
	fmt.Println(string(p.Parts["word/_rels/document.xml.rels"]))
	d := string(p.Parts["word/document.xml"])
	i := bytes.Index([]byte(d), []byte("<w:sectPr"))
	if i >= 0 {
		fmt.Println(d[i:])
	}
	for _, n := range names {
		if len(n) > 11 && (n[:11] == "word/header" || n[:11] == "word/footer") {
			s := string(p.Parts[n])
			j := bytes.Index([]byte(s), []byte("<w:p>"))
			fmt.Println(n, ":", s[j:])
		}
	}
	return b
}

func TestProbe(t *testing.T) {
	document.SetGlobalLevel(document.LogLevelSilent)
	doc := document.New()
	doc.AddHeader(document.HeaderFooterTypeDefault, "one")
	doc.AddHeaderWithPageNumber(document.HeaderFooterTypeDefault, "two", true)
	b := dump(t, doc, "twice")
	nd, err := document.OpenFromMemory(io.NopCloser(bytes.NewReader(b)))
	if err != nil {
		t.Fatal(err)
	}
	dump(t, nd, "reopened")
	nd.AddFormattedHeader(document.HeaderFooterTypeDefault, &document.HeaderFooterConfig{Text: "three", Format: &document.TextFormat{Bold: true, FontSize: 10, FontColor: "FF0000", FontFamily: "Arial"}, Alignment: document.AlignCenter})
	nd.AddFooter(document.HeaderFooterTypeEven, "foot")
	dump(t, nd, "reopened+replaced")
}

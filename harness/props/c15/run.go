package c15

import (
	"bytes"
	"fmt"
	"io"
	"sort"
	"strconv"
	"strings"

	"github.com/zerx-lab/wordZero/pkg/document"

	"wzverif/internal/canon"
	"wzverif/internal/kit"
)

// Item is one entry of a CreateMultiLevelList call.
type Item struct {
	Text   string `json:"text"`
	Level  int    `json:"level"`
	Type   string `json:"type"`
	Bullet string `json:"bullet,omitempty"`
	Start  int    `json:"start"`
}

// Op is one call of the history.
//
//	lists : listitem (AddListItem with a config), listnil (AddListItem(text, nil)), bullet (AddBulletList),
//	        numbered (AddNumberedList), multilevel (CreateMultiLevelList)
//	notes : footnote, endnote (AddFootnote/AddEndnote(Text, Note)), fnrun (AddFootnoteToRun on a paragraph of the
//	        document), rmfn, rmen (RemoveFootnote/RemoveEndnote: IDKind live|removed|unknown, Sel, Raw)
//	toc   : heading (Variant 0 AddHeadingParagraph, 1 AddHeadingWithBookmark, 2 AddHeadingParagraphWithBookmark),
//	        para, table, tocparas (Items: a contiguous group of TOC<level>-styled paragraphs, i.e. the paragraph-style
//	        table of contents of a document produced elsewhere), gentoc / autotoc (Max 0 = nil config, else
//	        TOCConfig{Title, MaxLevel: Max}; autotoc Times 1..2), updtoc (Times 1..3), headings (ListHeadings +
//	        GetHeadingCount)
//	both  : reopen (ToBytes -> OpenFromMemory; Fresh dates from the time the registries were process-wide and
//	        asked for their reset - they are per-document now and the flag changes nothing; Cold: no note call
//	        (not even a count) is made on the opened document until the next op aimed at it)
//	several documents (kind "derived", see derived.go): Doc selects the document an op is aimed at (index modulo
//	        the number of documents that exist; document 0 is the one the case starts with); derive renders
//	        Times (1..3) documents from document Doc with a TemplateEngine (LoadTemplateFromDocument, then
//	        Variant 0 RenderTemplateToDocument | 1 RenderToDocument) - each starts with a copy of the model of
//	        the document it was rendered from
type Op struct {
	K       string `json:"k"`
	Text    string `json:"text,omitempty"`
	Note    string `json:"note,omitempty"`
	Level   int    `json:"level,omitempty"`
	Type    string `json:"type,omitempty"`
	Bullet  string `json:"bullet,omitempty"`
	Start   int    `json:"start,omitempty"`
	Items   []Item `json:"items,omitempty"`
	IDKind  string `json:"idkind,omitempty"`
	Sel     int    `json:"sel,omitempty"`
	Raw     string `json:"raw,omitempty"`
	Max     int    `json:"max,omitempty"`
	Title   string `json:"title,omitempty"`
	Times   int    `json:"times,omitempty"`
	Variant int    `json:"variant,omitempty"`
	Fresh   bool   `json:"fresh,omitempty"`
	Doc     int    `json:"doc,omitempty"`
	Cold    bool   `json:"cold,omitempty"`
	// reopen: the saved package is re-written as another producer writes its notes parts and numbering part
	// before it is opened (foreignparts.go); nil = the library's own bytes
	Foreign *Dialect `json:"foreign,omitempty"`
}

type Case struct {
	Kind string `json:"kind"` // lists | notes | toc | mixed
	Ops  []Op   `json:"ops"`
}

// ---------------------------------------------------------------------------------------------
// what the API documentation promises per list type

var orderedFmt = map[string]string{
	"number": "decimal", "decimal": "decimal", "lowerLetter": "lowerLetter", "upperLetter": "upperLetter",
	"lowerRoman": "lowerRoman", "upperRoman": "upperRoman",
}

func wantFmt(typ string) string {
	if typ == "bullet" {
		return "bullet"
	}
	return orderedFmt[typ]
}

func isListOp(k string) bool {
	switch k {
	case "listitem", "listnil", "bullet", "numbered", "multilevel":
		return true
	}
	return false
}

func isNoteOp(k string) bool {
	switch k {
	case "footnote", "endnote", "fnrun", "rmfn", "rmen":
		return true
	}
	return false
}

func isNoteAdd(k string) bool { return k == "footnote" || k == "endnote" || k == "fnrun" }

func isTOCGen(k string) bool { return k == "gentoc" || k == "autotoc" }

// ---------------------------------------------------------------------------------------------
// reference model

type mItem struct {
	Item
	op         int  // index of the op that added it
	checkStart bool // the call named a start number
	seq        int  // index among all list items the case requests
}

type bodyEl struct {
	kind   string // h | p | tbl | toc
	level  int
	text   string
	prefix bool // the library appends a note marker to the text: compare as prefix
}

type state struct {
	res *kit.Result
	c   Case
	doc *document.Document
	cur int // op being executed

	body      []bodyEl
	items     []*mItem
	requested int // list items requested so far (added or rejected)

	fn, en               map[string]string
	fnRemoved, enRemoved []string
	fnEver, enEver       bool
	notesOff             bool
	// a removal was rejected while the document had no notes of that kind yet (no add since New / none in the file)
	fnRejEarly, enRejEarly bool

	listsOff bool

	tocPresent bool // a table of contents exists (content control or paragraph style)
	tocSDT     bool // ... as a content control
	tocM       int  // requested depth
	tocStale   bool // headings changed (or the table is a foreign one) since the last generate/update
	tocOff     bool
	tocBad     bool // the last generate/update already failed T1: do not report the same table again later

	handles []handle // paragraphs added by "para" since the last (re)open
	stop    bool

	// several documents (derived.go)
	idx        int    // index of this document in the case's list of documents
	tag        string // "" in a single-document case, else "[doc=N] " (put into every failure detail)
	contentOff bool   // the body is not modelled (document rendered by RenderToDocument, which appends the text again)
	cold       bool   // opened "cold": no note call on this document until the next op aimed at it
	// ids of the live notes this document did not add itself since it exists in its present form:
	// fromFile = they were in the file it was opened from, inherited = they came with the document it was rendered from
	fnFromFile, enFromFile, fnInherited, enInherited map[string]bool
	// ids of the special entries (separator, continuation...) of the notes parts of the file the document was
	// opened from, when another producer wrote it: they are not notes, removing them is removing an unknown id
	fnSpecial, enSpecial []string
}

type handle struct {
	p   *document.Paragraph
	idx int // index in body
}

func (s *state) fail(clause, format string, a ...interface{}) {
	s.res.Fail(clause, "[op=%d %s] %s"+format, append([]interface{}{s.cur, s.opKind(), s.tag}, a...)...)
}

func (s *state) opKind() string {
	if s.cur >= 0 && s.cur < len(s.c.Ops) {
		return s.c.Ops[s.cur].K
	}
	return "end"
}

// call runs a library call; a panic is a failure of the case.
func (s *state) call(what string, f func()) bool {
	if p, st := kit.Try(f); p != nil {
		s.fail("C15.0.panic", "%s panicked: %v [%s]", what, p, st)
		s.stop = true
		return false
	}
	return true
}

func (s *state) snapshot(what string) *snap {
	var b []byte
	var err error
	if !s.call("ToBytes ("+what+")", func() { b, err = s.doc.ToBytes() }) {
		return nil
	}
	if err != nil {
		s.fail("C15.0.save", "%s: ToBytes failed: %v", what, err)
		s.stop = true
		return nil
	}
	sn, err := takeSnap(b)
	if err != nil {
		s.fail("C15.0.save", "%s: %v", what, err)
		s.stop = true
		return nil
	}
	sn.raw = b
	return sn
}

// ---------------------------------------------------------------------------------------------
// lists

func (s *state) addItem(it Item, checkStart bool, p *document.Paragraph, added bool) {
	seq := s.requested
	s.requested++
	if !added {
		return // rejected (nil paragraph / error): nothing was put into the document
	}
	m := &mItem{Item: it, op: s.cur, checkStart: checkStart, seq: seq}
	s.items = append(s.items, m)
	s.body = append(s.body, bodyEl{kind: "p", text: it.Text})
}

func (s *state) doList(op Op) {
	before := len(s.doc.Body.Elements)
	grew := func() bool { return len(s.doc.Body.Elements) > before }
	switch op.K {
	case "listitem":
		var p *document.Paragraph
		cfg := &document.ListConfig{Type: document.ListType(op.Type), BulletSymbol: document.BulletType(op.Bullet), StartNumber: op.Start, IndentLevel: op.Level}
		if !s.call("AddListItem", func() { p = s.doc.AddListItem(op.Text, cfg) }) {
			return
		}
		s.addItem(Item{op.Text, op.Level, op.Type, op.Bullet, op.Start}, true, p, p != nil && grew())
	case "listnil":
		var p *document.Paragraph
		if !s.call("AddListItem(nil)", func() { p = s.doc.AddListItem(op.Text, nil) }) {
			return
		}
		s.addItem(Item{op.Text, 0, "bullet", string(document.BulletTypeDot), 0}, false, p, p != nil && grew())
	case "bullet":
		var p *document.Paragraph
		if !s.call("AddBulletList", func() { p = s.doc.AddBulletList(op.Text, op.Level, document.BulletType(op.Bullet)) }) {
			return
		}
		s.addItem(Item{op.Text, op.Level, "bullet", op.Bullet, 0}, false, p, p != nil && grew())
	case "numbered":
		var p *document.Paragraph
		if !s.call("AddNumberedList", func() { p = s.doc.AddNumberedList(op.Text, op.Level, document.ListType(op.Type)) }) {
			return
		}
		s.addItem(Item{op.Text, op.Level, op.Type, "", 1}, false, p, p != nil && grew())
	case "multilevel":
		var items []document.ListItem
		for _, it := range op.Items {
			items = append(items, document.ListItem{Text: it.Text, Level: it.Level, Type: document.ListType(it.Type), BulletSymbol: document.BulletType(it.Bullet), StartNumber: it.Start})
		}
		var err error
		if !s.call("CreateMultiLevelList", func() { err = s.doc.CreateMultiLevelList(items) }) {
			return
		}
		n := len(s.doc.Body.Elements) - before
		switch {
		case err == nil && n == len(items):
			for _, it := range op.Items {
				s.addItem(it, true, nil, true)
			}
		case err != nil && n == 0: // rejected as a whole
			s.requested += len(items)
		default:
			s.fail("C15.L0", "CreateMultiLevelList with %d items returned err=%v and appended %d elements", len(items), err, n)
			s.listsOff = true
		}
	}
}

func (s *state) checkLists(sn *snap, where string) {
	if s.listsOff || len(s.items) == 0 {
		return
	}
	res := s.res
	res.Eval("C15.L0")
	lps := listParas(sn.body)
	if len(lps) != len(s.items) {
		s.fail("C15.L0", "%s: the main part has %d list paragraphs, %d list items were added", where, len(lps), len(s.items))
		s.listsOff = true
		return
	}
	var num *numbering
	// the numbering part is the one the main part's numbering relationship leads to (related.go)
	numErr := ""
	switch part, data, problem := relatedPart(sn, relNumbering, ctNumbering); {
	case problem != "":
		numErr = "the document's numbering part cannot be located as a reader locates it: " + problem
	case part == "":
		numErr = "the document has no numbering part" + orphanHint(sn, "word/numbering.xml", relNumbering)
	default:
		var err error
		if num, err = parseNumbering(data); err != nil {
			numErr = part + ": " + err.Error()
			num = nil
		}
	}
	nfail := 0
	for k, it := range s.items {
		if nfail >= 12 {
			break
		}
		lp := lps[k]
		desc := fmt.Sprintf("[item=%d] %s: list item %d (op %d: type %s symbol %q level %d start %d)", it.seq, where, k, it.op, it.Type, it.Bullet, it.Level, it.Start)
		if lp.text != it.Text {
			res.Eval("C15.L0")
			s.fail("C15.L0", "%s has text %q, requested %q", desc, lp.text, it.Text)
			nfail++
			continue
		}
		inRange := it.Level >= 0 && it.Level <= 8
		if inRange {
			res.Eval("C15.L2")
			if !lp.hasLvl || lp.ilvl != strconv.Itoa(it.Level) {
				s.fail("C15.L2", "%s is written at w:ilvl %q", desc, lp.ilvl)
				nfail++
				continue
			}
		}
		res.Eval("C15.L1")
		if !lp.hasNum {
			s.fail("C15.L1", "%s has no w:numId", desc)
			nfail++
			continue
		}
		l, why := num.level(lp.numID, lp.ilvl)
		if num == nil {
			why = numErr
		}
		if l == nil {
			s.fail("C15.L1", "%s written with numId %q ilvl %q has no definition at its level: %s", desc, lp.numID, lp.ilvl, why)
			nfail++
			continue
		}
		res.Eval("C15.L3")
		if got := l.Kid(canon.W, "numFmt").A(canon.W, "val"); got != wantFmt(it.Type) {
			s.fail("C15.L3", "%s: w:numFmt of its level definition is %q, the type promises %q", desc, got, wantFmt(it.Type))
			nfail++
		}
		if it.Type == "bullet" {
			res.Eval("C15.L4")
			if got, ok := l.Kid(canon.W, "lvlText").Attr(canon.W, "val"); !ok || got != it.Bullet {
				s.fail("C15.L4", "%s: w:lvlText of its level definition is %q, requested symbol %q", desc, got, it.Bullet)
				nfail++
			}
		} else if it.checkStart {
			res.Eval("C15.L5")
			if got := l.Kid(canon.W, "start").A(canon.W, "val"); got != strconv.Itoa(it.Start) {
				s.fail("C15.L5", "%s: w:start of its level definition is %q, requested %d", desc, got, it.Start)
				nfail++
			}
		}
	}
}

// ---------------------------------------------------------------------------------------------
// notes

func sortedIDs(m map[string]string) []string {
	ids := make([]string, 0, len(m))
	for id := range m {
		ids = append(ids, id)
	}
	sort.Slice(ids, func(i, j int) bool {
		a, ea := strconv.Atoi(ids[i])
		b, eb := strconv.Atoi(ids[j])
		if ea == nil && eb == nil && a != b {
			return a < b
		}
		return ids[i] < ids[j]
	})
	return ids
}

// readNotes returns id -> text of the document's footnotes (endnotes) part: the part the main part's relationship
// of that type leads to (related.go), not whatever entry has the conventional file name. No relationship = the
// document has no notes of that kind; hint then says whether an unconnected entry of the conventional name exists.
// ok=false after a failure was recorded.
func (s *state) readNotes(sn *snap, foot bool, where string) (notes map[string]string, hint string, ok bool) {
	conv, rootL, entryL, relType, ctype := "word/endnotes.xml", "endnotes", "endnote", relEndnotes, ctEndnotes
	if foot {
		conv, rootL, entryL, relType, ctype = "word/footnotes.xml", "footnotes", "footnote", relFootnotes, ctFootnotes
	}
	out := map[string]string{}
	part, data, problem := relatedPart(sn, relType, ctype)
	if problem != "" {
		s.res.Eval("C15.N5")
		s.fail("C15.N5", "%s: the document's %s part cannot be located as a reader locates it: %s", where, rootL, problem)
		return nil, "", false
	}
	if part == "" {
		return out, orphanHint(sn, conv, relType), true
	}
	s.res.Eval("C15.N5")
	es, err := parseNotes(data, rootL, entryL)
	if err != nil {
		s.fail("C15.N1", "%s: %s: %v", where, part, err)
		return nil, "", false
	}
	for _, e := range es {
		if _, dup := out[e.id]; dup {
			s.fail("C15.N1", "%s: %s holds more than one note with id %q", where, part, e.id)
			return nil, "", false
		}
		out[e.id] = e.text
	}
	return out, "", true
}

func diffNotes(got, want map[string]string) string {
	var d []string
	for _, id := range sortedIDs(want) {
		g, ok := got[id]
		if !ok {
			d = append(d, fmt.Sprintf("note %s (%q) is missing", id, want[id]))
		} else if g != want[id] {
			d = append(d, fmt.Sprintf("note %s has text %q, added with %q", id, g, want[id]))
		}
	}
	for _, id := range sortedIDs(got) {
		if _, ok := want[id]; !ok {
			d = append(d, fmt.Sprintf("unexpected note %s (%q)", id, got[id]))
		}
	}
	return strings.Join(d, "; ")
}

// checkNotes compares both notes parts and the counters with the model. added: kind of note ("fn"/"en"/"") the
// current op added, with its text - its id is learnt from the part (the API does not return it).
func (s *state) checkNotes(sn *snap, where, added, addedText string) {
	if s.notesOff || (!s.fnEver && !s.enEver) {
		return
	}
	res := s.res
	for _, foot := range []bool{true, false} {
		model, ever, tag := s.en, s.enEver, "en"
		if foot {
			model, ever, tag = s.fn, s.fnEver, "fn"
		}
		if !ever {
			continue
		}
		res.Eval("C15.N1")
		got, hint, ok := s.readNotes(sn, foot, where)
		if !ok {
			s.notesOff = true
			return
		}
		if added == tag {
			var fresh []string
			for _, id := range sortedIDs(got) {
				if _, known := model[id]; !known {
					fresh = append(fresh, id)
				}
			}
			if len(fresh) != 1 || got[fresh[0]] != addedText {
				s.fail("C15.N1", "%s: after adding a %snote with text %q the notes part does not hold exactly one new note with that text (new ids %q); live notes before the call: %d; part now: %s%s",
					where, map[bool]string{true: "foot", false: "end"}[foot], addedText, fresh, len(model), renderNotes(got), hint)
				s.notesOff = true
				return
			}
			model[fresh[0]] = addedText
		}
		if d := diffNotes(got, model); d != "" {
			s.fail("C15.N1", "%s: the document's %snotes part does not hold exactly the live notes: %s%s", where, map[bool]string{true: "foot", false: "end"}[foot], d, hint)
			s.notesOff = true
			return
		}
		// references of the main part resolve
		res.Eval("C15.N4")
		for _, id := range noteRefs(sn.root, map[bool]string{true: "footnoteReference", false: "endnoteReference"}[foot]) {
			if _, ok := got[id]; !ok {
				s.fail("C15.N4", "%s: the main part refers to %snote %q which the notes part does not define", where, map[bool]string{true: "foot", false: "end"}[foot], id)
			}
		}
	}
	s.checkCounts(where)
}

func renderNotes(m map[string]string) string {
	var b []string
	for _, id := range sortedIDs(m) {
		b = append(b, fmt.Sprintf("%s=%q", id, m[id]))
	}
	return "{" + strings.Join(b, " ") + "}"
}

func (s *state) checkCounts(where string) {
	if s.notesOff || s.cold {
		return
	}
	var nf, ne int
	if !s.call("GetFootnoteCount/GetEndnoteCount", func() { nf, ne = s.doc.GetFootnoteCount(), s.doc.GetEndnoteCount() }) {
		return
	}
	s.res.Eval("C15.N2")
	if nf != len(s.fn) || ne != len(s.en) {
		s.fail("C15.N2", "%s: GetFootnoteCount/GetEndnoteCount = %d/%d, the document holds %d/%d live notes", where, nf, ne, len(s.fn), len(s.en))
	}
}

func (s *state) doNote(op Op) {
	switch op.K {
	case "footnote", "endnote":
		var err error
		foot := op.K == "footnote"
		ok := s.call("Add"+op.K, func() {
			if foot {
				err = s.doc.AddFootnote(op.Text, op.Note)
			} else {
				err = s.doc.AddEndnote(op.Text, op.Note)
			}
		})
		if !ok {
			return
		}
		s.body = append(s.body, bodyEl{kind: "p", text: op.Text, prefix: true})
		if err != nil {
			s.fail("C15.N1", "Add%s(%q, %q) failed: %v", op.K, op.Text, op.Note, err)
			s.notesOff = true
			return
		}
		tag := "en"
		if (foot && s.fnRejEarly && !s.fnEver) || (!foot && s.enRejEarly && !s.enEver) {
			s.res.Label("note:first-add-after-rejected-removal")
		}
		if foot {
			s.fnEver, tag = true, "fn"
		} else {
			s.enEver = true
		}
		if sn := s.snapshot("after " + op.K); sn != nil {
			s.checkNotes(sn, "after the call", tag, op.Note)
		}
	case "fnrun":
		if len(s.handles) == 0 {
			var p *document.Paragraph
			if !s.call("AddParagraph", func() { p = s.doc.AddParagraph(op.Text) }) {
				return
			}
			s.body = append(s.body, bodyEl{kind: "p", text: op.Text})
			s.handles = append(s.handles, handle{p, len(s.body) - 1})
		}
		h := s.handles[op.Sel%len(s.handles)]
		if len(h.p.Runs) == 0 {
			return
		}
		var err error
		if !s.call("AddFootnoteToRun", func() { err = s.doc.AddFootnoteToRun(&h.p.Runs[len(h.p.Runs)-1], op.Note) }) {
			return
		}
		s.body[h.idx].prefix = true
		if err != nil {
			s.fail("C15.N1", "AddFootnoteToRun(run, %q) failed: %v", op.Note, err)
			s.notesOff = true
			return
		}
		if s.fnRejEarly && !s.fnEver {
			s.res.Label("note:first-add-after-rejected-removal")
		}
		s.fnEver = true
		if sn := s.snapshot("after fnrun"); sn != nil {
			s.checkNotes(sn, "after the call", "fn", op.Note)
		}
	case "rmfn", "rmen":
		foot := op.K == "rmfn"
		model, removed := s.en, &s.enRemoved
		if foot {
			model, removed = s.fn, &s.fnRemoved
		}
		id, kind := op.Raw, "unknown"
		switch op.IDKind {
		case "live":
			if ids := sortedIDs(model); len(ids) > 0 {
				id, kind = ids[op.Sel%len(ids)], "live"
			}
		case "removed":
			if len(*removed) > 0 {
				id, kind = (*removed)[op.Sel%len(*removed)], "removed"
			}
		case "special":
			sp := s.enSpecial
			if foot {
				sp = s.fnSpecial
			}
			if len(sp) > 0 {
				id, kind = sp[op.Sel%len(sp)], "special"
			} else {
				id = "-1" // the separator entry the library writes itself
			}
		}
		if _, live := model[id]; live && kind != "live" {
			kind = "live" // the raw id happens to name a live note
		}
		s.res.Label("rm:" + kind)
		if kind != "live" {
			if foot && !s.fnEver {
				s.fnRejEarly = true
			} else if !foot && !s.enEver {
				s.enRejEarly = true
			}
		}
		var err error
		ok := s.call("Remove "+op.K, func() {
			if foot {
				err = s.doc.RemoveFootnote(id)
			} else {
				err = s.doc.RemoveEndnote(id)
			}
		})
		if !ok || s.notesOff {
			return
		}
		s.res.Eval("C15.N3")
		if kind == "live" {
			if err != nil {
				s.fail("C15.N3", "removing the live %s id %q failed: %v", op.K[2:], id, err)
				s.notesOff = true
				return
			}
			delete(model, id)
			*removed = append(*removed, id)
			s.labelRemoval(foot, id)
		} else if err == nil {
			s.fail("C15.N3", "removing the %s %s id %q reported success", kind, op.K[2:], id)
			s.notesOff = true
			return
		}
		if sn := s.snapshot("after " + op.K); sn != nil {
			// the parts must now hold exactly the model: the removed note gone, nothing else changed
			s.checkNotes(sn, fmt.Sprintf("after removing the %s id %q (err=%v)", kind, id, err), "", "")
		}
	}
}

// ---------------------------------------------------------------------------------------------
// table of contents

func (s *state) wantEntries() []tocEntry {
	var out []tocEntry
	for _, e := range s.body {
		if e.kind == "h" && e.level <= s.tocM && e.text != "" {
			out = append(out, tocEntry{e.level, e.text})
		}
	}
	return out
}

func sameEntries(a, b []tocEntry) bool {
	if len(a) != len(b) {
		return false
	}
	for i := range a {
		if a[i] != b[i] {
			return false
		}
	}
	return true
}

func (s *state) wantContent() []bodyEl {
	var out []bodyEl
	for _, e := range s.body {
		if e.kind != "toc" {
			out = append(out, e)
		}
	}
	return out
}

// checkContent: every heading, paragraph and table of the model is still in the body, in order (T4).
func (s *state) checkContent(sn *snap, where string) {
	if s.stop || s.contentOff {
		return
	}
	s.res.Eval("C15.T4")
	got := content(sn.body)
	want := s.wantContent()
	render := func(e bodyEl) string {
		switch e.kind {
		case "h":
			return fmt.Sprintf("h%d:%s", e.level, e.text)
		case "tbl":
			return "tbl"
		}
		return "p:" + e.text
	}
	bad := len(got) != len(want)
	at := -1
	if !bad {
		for i, e := range want {
			w := render(e)
			if got[i] == w || (e.prefix && strings.HasPrefix(got[i], w)) {
				continue
			}
			bad, at = true, i
			break
		}
	}
	if bad {
		var ws []string
		for _, e := range want {
			ws = append(ws, render(e))
		}
		s.fail("C15.T4", "%s: the headings/paragraphs/tables of the body are not the ones added (first difference at %d; %d present, %d added)\n got=%q\nwant=%q", where, at, len(got), len(want), got, ws)
		s.stop = true
	}
}

// checkTOC: exactly one table of contents, listing exactly the headings up to the requested level (T3, T1).
func (s *state) checkTOC(sn *snap, where string) {
	if s.tocOff || s.stop || !s.tocPresent {
		return
	}
	want := s.wantEntries()
	sdts := tocSDTs(sn.body)
	ptoc := paraTOC(sn.body)
	s.res.Eval("C15.T3")
	// a content-control TOC: exactly that one control; a paragraph-style TOC: its TOCn paragraphs only
	// (with no heading to list it is empty, i.e. no paragraph at all)
	if (s.tocSDT && (len(sdts) != 1 || len(ptoc) > 0)) || (!s.tocSDT && len(sdts) != 0) {
		s.fail("C15.T3", "%s: the body holds %d table-of-contents content controls and %d TOC-styled paragraphs; one table of contents was generated (MaxLevel %d)", where, len(sdts), len(ptoc), s.tocM)
		s.tocOff = true
		return
	}
	got := ptoc
	if s.tocSDT {
		got = sdtEntries(sdts[0])
	} else if len(want) == 0 && len(ptoc) == 0 {
		s.tocPresent = false // an empty paragraph-style table is no table any more
	}
	s.res.Eval("C15.T1")
	s.tocBad = false
	if !sameEntries(got, want) {
		s.tocBad = true
		s.fail("C15.T1", "%s: the table of contents (requested MaxLevel %d) lists %v; the headings up to that level with text are %v", where, s.tocM, got, want)
	}
}

func (s *state) checkHeadings(where string) {
	if s.stop {
		return
	}
	var hs []document.TOCEntry
	var cnt map[int]int
	if !s.call("ListHeadings/GetHeadingCount", func() { hs, cnt = s.doc.ListHeadings(), s.doc.GetHeadingCount() }) {
		return
	}
	s.res.Eval("C15.T2")
	var got, want []tocEntry
	for _, h := range hs {
		if h.Text != "" {
			got = append(got, tocEntry{h.Level, h.Text})
		}
	}
	wc := map[int]int{}
	for _, e := range s.body {
		if e.kind == "h" {
			wc[e.level]++
			if e.text != "" {
				want = append(want, tocEntry{e.level, e.text})
			}
		}
	}
	if !sameEntries(got, want) {
		s.fail("C15.T2", "%s: ListHeadings (entries with text) = %v, the document's headings are %v", where, got, want)
	}
	for l := 0; l <= 10; l++ {
		if cnt[l] != wc[l] {
			s.fail("C15.T2", "%s: GetHeadingCount = %v, the document's headings per level are %v", where, cnt, wc)
			break
		}
	}
}

func (s *state) qualifying(m int) int {
	n := 0
	for _, e := range s.body {
		if e.kind == "h" && e.level <= m && e.text != "" {
			n++
		}
	}
	return n
}

func (s *state) dropTOCParas() {
	var nb []bodyEl
	remap := map[int]int{}
	for i, e := range s.body {
		if e.kind != "toc" {
			remap[i] = len(nb)
			nb = append(nb, e)
		}
	}
	for i := range s.handles {
		s.handles[i].idx = remap[s.handles[i].idx]
	}
	s.body = nb
}

func tocConfig(op Op) (*document.TOCConfig, int) {
	if op.Max == 0 {
		return nil, 3 // documented default depth
	}
	return &document.TOCConfig{Title: op.Title, MaxLevel: op.Max, ShowPageNum: true, RightAlign: true, UseHyperlink: true, DotLeader: true}, op.Max
}

func (s *state) doTOC(op Op) {
	switch op.K {
	case "gentoc":
		if s.tocPresent {
			s.res.Count("skipped:gentoc-with-existing-toc", 1)
			return
		}
		cfg, m := tocConfig(op)
		var err error
		if !s.call("GenerateTOC", func() { err = s.doc.GenerateTOC(cfg) }) {
			return
		}
		if err != nil {
			s.fail("C15.T1", "GenerateTOC(MaxLevel %d) failed: %v", m, err)
			s.tocOff = true
			return
		}
		s.tocPresent, s.tocSDT, s.tocM, s.tocStale = true, true, m, false
		if sn := s.snapshot("after GenerateTOC"); sn != nil {
			s.checkContent(sn, "after GenerateTOC")
			s.checkTOC(sn, "after GenerateTOC")
		}
	case "autotoc":
		cfg, m := tocConfig(op)
		times := op.Times
		if times < 1 {
			times = 1
		}
		prev := ""
		for k := 0; k < times && !s.stop; k++ {
			var err error
			if !s.call("AutoGenerateTOC", func() { err = s.doc.AutoGenerateTOC(cfg) }) {
				return
			}
			if err != nil {
				if s.qualifying(m) > 0 {
					s.fail("C15.T1", "AutoGenerateTOC(MaxLevel %d) failed although %d headings qualify: %v", m, s.qualifying(m), err)
					s.tocOff = true
				}
				// no heading to list: reported as an error, nothing to demand of the table of contents
				if sn := s.snapshot("after AutoGenerateTOC (error)"); sn != nil {
					s.checkContent(sn, "after AutoGenerateTOC returned an error")
					if s.tocPresent && !s.tocSDT && len(paraTOC(sn.body)) == 0 {
						s.dropTOCParas() // the old paragraph-style entries were cleared before the error
						s.tocPresent = false
					}
				}
				return
			}
			// a paragraph-style table of contents is replaced by the generated one
			s.dropTOCParas()
			s.tocPresent, s.tocSDT, s.tocM, s.tocStale = true, true, m, false
			sn := s.snapshot("after AutoGenerateTOC")
			if sn == nil {
				return
			}
			where := fmt.Sprintf("after AutoGenerateTOC call %d of %d", k+1, times)
			s.checkContent(sn, where)
			s.checkTOC(sn, where)
			if k > 0 && !s.tocOff && !s.stop {
				s.res.Eval("C15.T5")
				if sn.str != prev {
					s.fail("C15.T5", "%s with the same configuration the main part changed: %s", where, firstDiff(prev, sn.str))
				}
			}
			prev = sn.str
		}
	case "updtoc":
		times := op.Times
		if times < 1 {
			times = 1
		}
		prev := ""
		for k := 0; k < times && !s.stop; k++ {
			var err error
			if !s.call("UpdateTOC", func() { err = s.doc.UpdateTOC() }) {
				return
			}
			where := fmt.Sprintf("after UpdateTOC call %d of %d", k+1, times)
			sn := s.snapshot(where)
			if sn == nil {
				return
			}
			s.checkContent(sn, where)
			if s.tocOff || s.stop {
				return
			}
			if !s.tocPresent {
				// nothing to update: the statement demands nothing but that the content stays
				s.res.Label("update-without-toc")
				return
			}
			if err != nil {
				s.fail("C15.T1", "%s: UpdateTOC failed although the document has a table of contents: %v", where, err)
				s.tocOff = true
				return
			}
			if !s.tocSDT {
				// paragraph-style table: its old entries are replaced by the regenerated ones
				s.dropTOCParas()
			}
			s.tocStale = false
			s.checkTOC(sn, where)
			if k > 0 && !s.tocOff {
				s.res.Eval("C15.T5")
				if sn.str != prev {
					s.fail("C15.T5", "%s the main part differs from the one after the previous UpdateTOC: %s", where, firstDiff(prev, sn.str))
				}
			}
			prev = sn.str
		}
	case "headings":
		s.checkHeadings("ListHeadings op")
	}
}

func firstDiff(a, b string) string {
	i := 0
	for i < len(a) && i < len(b) && a[i] == b[i] {
		i++
	}
	lo := i - 80
	if lo < 0 {
		lo = 0
	}
	cut := func(x string) string {
		hi := i + 120
		if hi > len(x) {
			hi = len(x)
		}
		if lo > len(x) {
			return ""
		}
		return x[lo:hi]
	}
	return fmt.Sprintf("lengths %d -> %d, first difference at byte %d: before ...%s... after ...%s...", len(a), len(b), i, cut(a), cut(b))
}

// ---------------------------------------------------------------------------------------------
// body ops and reopen

func (s *state) doBody(op Op) {
	switch op.K {
	case "para":
		var p *document.Paragraph
		if !s.call("AddParagraph", func() { p = s.doc.AddParagraph(op.Text) }) {
			return
		}
		s.body = append(s.body, bodyEl{kind: "p", text: op.Text})
		s.handles = append(s.handles, handle{p, len(s.body) - 1})
	case "heading":
		ok := s.call("AddHeading*", func() {
			switch op.Variant {
			case 1:
				s.doc.AddHeadingWithBookmark(op.Text, op.Level, "")
			case 2:
				s.doc.AddHeadingParagraphWithBookmark(op.Text, op.Level, fmt.Sprintf("bm%d", s.cur))
			default:
				s.doc.AddHeadingParagraph(op.Text, op.Level)
			}
		})
		if !ok {
			return
		}
		s.body = append(s.body, bodyEl{kind: "h", level: op.Level, text: op.Text})
		s.tocStale = true
	case "table":
		var err error
		if !s.call("AddTable", func() {
			_, err = s.doc.AddTable(&document.TableConfig{Rows: 1 + op.Sel%2, Cols: 1 + op.Level%2, Width: 6000})
		}) {
			return
		}
		if err == nil {
			s.body = append(s.body, bodyEl{kind: "tbl"})
		}
	case "tocparas":
		if s.tocPresent {
			s.res.Count("skipped:tocparas-with-existing-toc", 1)
			return
		}
		for _, it := range op.Items {
			var p *document.Paragraph
			if !s.call("AddParagraph+SetStyle", func() {
				p = s.doc.AddParagraph(it.Text + "\t1")
				p.SetStyle(fmt.Sprintf("TOC%d", it.Level))
			}) {
				return
			}
			s.body = append(s.body, bodyEl{kind: "toc", level: it.Level, text: it.Text})
		}
		if !s.tocPresent {
			s.tocPresent, s.tocSDT, s.tocM, s.tocStale = true, false, 3, true
			s.res.Label("toc:paragraph-style")
		}
	}
}

func (s *state) checkAll(sn *snap, where string) {
	s.checkContent(sn, where)
	if s.stop {
		return
	}
	s.checkLists(sn, where)
	s.checkNotes(sn, where, "", "")
	s.checkHeadings(where)
}

func (s *state) doReopen(op Op) {
	sn := s.snapshot("before reopen")
	if sn == nil {
		return
	}
	s.checkAll(sn, "saved before reopen")
	if s.stop {
		return
	}
	var before []tocEntry
	hadTOC := s.tocPresent && !s.tocOff
	if hadTOC {
		if sd := tocSDTs(sn.body); len(sd) == 1 {
			before = sdtEntries(sd[0])
		} else {
			before = paraTOC(sn.body)
		}
	}
	b := sn.raw
	if op.Foreign != nil {
		b = s.foreignBytes(sn, op.Foreign)
	}
	var err error
	if op.Fresh {
		document.VerifResetGlobals()
	}
	var nd *document.Document
	if !s.call("OpenFromMemory", func() { nd, err = document.OpenFromMemory(io.NopCloser(bytes.NewReader(b))) }) {
		return
	}
	if err != nil || nd == nil {
		s.fail("C15.0.save", "the saved document does not reopen: %v", err)
		s.stop = true
		return
	}
	s.doc = nd
	s.handles = nil
	s.cold = op.Cold
	s.fnFromFile, s.enFromFile = keys(s.fn), keys(s.en)
	s.fnInherited, s.enInherited = nil, nil
	sn2 := s.snapshot("after reopen")
	if sn2 == nil {
		return
	}
	s.checkAll(sn2, "saved again after reopen")
	if s.stop {
		return
	}
	if hadTOC {
		s.res.Eval("C15.T6")
		var after []tocEntry
		sd := tocSDTs(sn2.body)
		if len(sd) == 1 {
			after = sdtEntries(sd[0])
		} else {
			after = paraTOC(sn2.body)
		}
		if len(sd) > 1 || (len(sd) == 0 && s.tocSDT) || !sameEntries(before, after) {
			s.fail("C15.T6", "the table of contents listed %v before the reopen; after open + save the body holds %d TOC content controls listing %v", before, len(sd), after)
			// continue from what the document really holds
			s.tocPresent = len(sd) > 0 || len(paraTOC(sn2.body)) > 0
			s.tocSDT = len(sd) > 0
			if len(sd) > 1 {
				s.tocOff = true
			}
		}
	}
}

// ---------------------------------------------------------------------------------------------

func run(c Case) *kit.Result {
	res := &kit.Result{}
	document.VerifResetGlobals()
	s := &state{res: res, c: c, fn: map[string]string{}, en: map[string]string{}, tocM: 3}
	if !s.call("New", func() { s.doc = document.New() }) {
		return res
	}
	w := &world{docs: []*state{s}}
	for i, op := range c.Ops {
		if w.stopped() {
			res.Count("ops-after-stop", len(c.Ops)-i)
			break
		}
		w.setCur(i)
		s := w.target(op)
		if op.K != "reopen" && op.K != "derive" {
			s.cold = false // an op on the document itself ends the "no note call yet" period (rendering from it makes none)
		}
		switch {
		case isListOp(op.K):
			s.doList(op)
		case isNoteOp(op.K):
			s.doNote(op)
		case op.K == "reopen":
			s.doReopen(op)
		case op.K == "derive":
			w.derive(s, op)
		case op.K == "gentoc" || op.K == "autotoc" || op.K == "updtoc" || op.K == "headings":
			s.doTOC(op)
		default:
			s.doBody(op)
		}
		// every document of the case - not only the one the op was aimed at - still holds exactly its own
		// lists and notes
		w.checkOthers(s, op)
	}
	w.setCur(len(c.Ops))
	listsOff, notesOff, tocOff := 0, 0, 0
	for _, s := range w.docs {
		s.cold = false
		if !w.stopped() {
			if sn := s.snapshot("final save"); sn != nil {
				s.checkAll(sn, "final save")
				if !s.tocStale && !s.tocBad {
					s.checkTOC(sn, "final save")
				}
			}
		}
		if s.listsOff {
			listsOff++
		}
		if s.notesOff {
			notesOff++
		}
		if s.tocOff {
			tocOff++
		}
	}
	if listsOff > 0 {
		res.Count("off:lists", 1)
	}
	if notesOff > 0 {
		res.Count("off:notes", 1)
	}
	if tocOff > 0 {
		res.Count("off:toc", 1)
	}
	describe(c, res)
	return res
}

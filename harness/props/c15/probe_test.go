package c15

import (
	"fmt"
	"testing"

	"github.com/zerx-lab/wordZero/pkg/document"
	"wzverif/internal/opc"
)

func TestProbe(t *testing.T) {
	document.SetGlobalLevel(document.LogLevelSilent)
	document.VerifResetGlobals()
	d := document.New()
	d.AddHeadingParagraph("H one", 1)
	d.AddParagraph("para")
	d.AddHeadingParagraph(" two\t", 4)
	d.AddHeadingParagraph("", 2)
	d.GenerateTOC(&document.TOCConfig{Title: "T", MaxLevel: 5})
	d.AddListItem("x", &document.ListConfig{Type: document.ListTypeLowerRoman, IndentLevel: 9, StartNumber: 4})
	d.AddFootnote("body", "note <text>")
	d.AddEndnote("body", " e ")
	b, _ := d.ToBytes()
	p, _ := opc.Read(b)
	for _, n := range []string{"word/document.xml", "word/footnotes.xml", "word/endnotes.xml"} {
		fmt.Println(n, string(p.Parts[n]))
	}
	d2 := document.New()
	d2.AddHeadingParagraph("H one", 1)
	d2.AddHeadingParagraph("H2", 2)
	fmt.Println(d2.AutoGenerateTOC(nil))
	b, _ = d2.ToBytes()
	p, _ = opc.Read(b)
	fmt.Println(string(p.Parts["word/document.xml"]))
}

package c15

import (
	"fmt"
	"os"
	"strings"

	"wzverif/internal/kit"
)

const (
	kfStart      = "KF-C15-start-cache"
	kfLevel      = "KF-C15-level-range"
	kfNumReopen  = "KF-C15-numbering-reopen"
	kfNoteReopen = "KF-C15-notes-reopen"
	kfUpdLevel   = "KF-C15-update-maxlevel"
	kfAutoTwice  = "KF-C15-auto-duplicate"
	kfTOCRemove  = "KF-C15-toc-remove-content"
	kfTOCReopen  = "KF-C15-toc-reopen"
)

// opOf / itemOf read the "[op=N kind]" / "[item=N]" tags the interpreter puts into every failure detail.
func opOf(f kit.Failure) int {
	i := strings.Index(f.Detail, "[op=")
	if i < 0 {
		return -1
	}
	var n int
	if _, err := fmt.Sscanf(f.Detail[i:], "[op=%d", &n); err != nil {
		return -1
	}
	return n
}

func itemOf(f kit.Failure) int {
	i := strings.Index(f.Detail, "[item=")
	if i < 0 {
		return -1
	}
	var n int
	if _, err := fmt.Sscanf(f.Detail[i:], "[item=%d]", &n); err != nil {
		return -1
	}
	return n
}

type flatItem struct {
	Item
	op       int
	explicit bool
}

// flatItems lists the list items a case requests, in order, with the op that requests them.
func flatItems(c Case) []flatItem {
	var out []flatItem
	for i, op := range c.Ops {
		switch op.K {
		case "listitem":
			out = append(out, flatItem{Item{op.Text, op.Level, op.Type, op.Bullet, op.Start}, i, true})
		case "listnil":
			out = append(out, flatItem{Item{op.Text, 0, "bullet", bullets[0], 0}, i, false})
		case "bullet":
			out = append(out, flatItem{Item{op.Text, op.Level, "bullet", op.Bullet, 0}, i, false})
		case "numbered":
			out = append(out, flatItem{Item{op.Text, op.Level, op.Type, "", 1}, i, false})
		case "multilevel":
			for _, it := range op.Items {
				out = append(out, flatItem{it, i, true})
			}
		}
	}
	return out
}

// an opened document starts with empty (per-document) registries, whether or not the case marks the reopen Fresh
func freshReopenBetween(c Case, a, b int) bool {
	for i := a + 1; i < b && i < len(c.Ops); i++ {
		if c.Ops[i].K == "reopen" {
			return true
		}
	}
	return false
}

var findings = []kit.Finding[Case]{
	{
		ID: kfStart, Clause: "C15.L5",
		Desc: "the numbering definition cache key is (type, symbol, level) and omits the start number: an ordered list item whose type/symbol/level equal an earlier item's gets that item's w:start (start 7 requested, definition says 1)",
		// the failing item names a start, and an earlier item of the same registry epoch has the same key with another start
		Trigger: func(c Case, f kit.Failure) bool {
			its := flatItems(c)
			j := itemOf(f)
			if j < 0 || j >= len(its) || !its[j].explicit {
				return false
			}
			for i := 0; i < j; i++ {
				a, b := its[i], its[j]
				if a.Type == b.Type && a.Bullet == b.Bullet && a.Level == b.Level && a.Start != b.Start && !freshReopenBetween(c, a.op, b.op) {
					return true
				}
			}
			return false
		},
	},
	{
		ID: kfLevel, Clause: "C15.L1",
		Desc: "a list level outside 0-8 (e.g. -1, 9, 10) is written verbatim into w:ilvl although the numbering definition has w:lvl 0..8 only: the item has no definition at its level",
		Trigger: func(c Case, f kit.Failure) bool {
			its := flatItems(c)
			j := itemOf(f)
			return j >= 0 && j < len(its) && (its[j].Level < 0 || its[j].Level > 8) && strings.Contains(f.Detail, "has no w:lvl with w:ilvl=")
		},
	},
	{
		ID: kfNumReopen, Clause: "C15.L",
		Desc: "adding a list item to an opened document: its numbering registry starts empty, so the next add rewrites word/numbering.xml without the existing definitions and reuses their numIds",
		// the failing item was added before a reopen and a list op follows that reopen
		Trigger: func(c Case, f kit.Failure) bool {
			its := flatItems(c)
			j := itemOf(f)
			if j < 0 || j >= len(its) || f.Clause == "C15.L0" || f.Clause == "C15.L2" {
				return false
			}
			for r := its[j].op + 1; r < len(c.Ops); r++ {
				if c.Ops[r].K == "reopen" {
					for k := r + 1; k < len(c.Ops); k++ {
						if isListOp(c.Ops[k].K) {
							return true
						}
					}
				}
			}
			return false
		},
	},
	{
		ID: kfNoteReopen, Clause: "C15.N",
		Desc: "notes of an opened document: its registry starts empty, so GetFootnoteCount/GetEndnoteCount are 0, removing an existing note fails, and the next add rewrites the notes part without the existing notes and reuses their ids",
		// the failure is observed at/after a reopen that follows a note add
		Trigger: func(c Case, f kit.Failure) bool {
			k := opOf(f)
			if k < 0 {
				return false
			}
			added := false
			for i := 0; i <= k && i < len(c.Ops); i++ {
				if isNoteAdd(c.Ops[i].K) {
					added = true
				}
				if added && c.Ops[i].K == "reopen" {
					return true
				}
			}
			return false
		},
	},
	{
		ID: kfUpdLevel, Clause: "C15.T1",
		Desc: "UpdateTOC rebuilds the table of contents with DefaultTOCConfig (MaxLevel 3) instead of the depth it was generated with: after GenerateTOC/AutoGenerateTOC with MaxLevel != 3 an update drops the deeper entries / adds unrequested ones",
		Trigger: func(c Case, f kit.Failure) bool {
			k := opOf(f)
			if k < 0 || k >= len(c.Ops) || c.Ops[k].K != "updtoc" {
				return false
			}
			// the depth the table was generated with (the interpreter reports it; a gentoc op on a document that
			// already has a table is not executed, so the case alone does not tell)
			var m int
			i := strings.Index(f.Detail, "requested MaxLevel ")
			if i < 0 {
				return false
			}
			if _, err := fmt.Sscanf(f.Detail[i:], "requested MaxLevel %d", &m); err != nil {
				return false
			}
			return m != 3
		},
	},
	{
		ID: kfAutoTwice, Clause: "C15.T",
		Desc: "AutoGenerateTOC looks for an existing table of contents among TOC-styled paragraphs only: called on a document that already has a TOC content control (from GenerateTOC or an earlier AutoGenerateTOC) it inserts a second one and wraps every heading in a second pair of bookmarks",
		Trigger: func(c Case, f kit.Failure) bool {
			if f.Clause != "C15.T3" && f.Clause != "C15.T5" {
				return false
			}
			k := opOf(f)
			if k < 0 || k >= len(c.Ops) || c.Ops[k].K != "autotoc" {
				return false
			}
			if c.Ops[k].Times > 1 {
				return true
			}
			for i := 0; i < k; i++ {
				if isTOCGen(c.Ops[i].K) {
					return true
				}
			}
			return false
		},
	},
	{
		ID: kfTOCRemove, Clause: "C15.T4",
		Desc: "removeTOCEntries (UpdateTOC / AutoGenerateTOC on a paragraph-style TOC) deletes everything from the first TOC-styled paragraph up to the next styled paragraph: unstyled paragraphs, list and note paragraphs and tables that follow the TOC are lost",
		Trigger: func(c Case, f kit.Failure) bool {
			k := opOf(f)
			if k < 0 || k >= len(c.Ops) || (c.Ops[k].K != "updtoc" && c.Ops[k].K != "autotoc") {
				return false
			}
			for i := 0; i < k; i++ {
				if c.Ops[i].K == "tocparas" {
					return true
				}
			}
			return false
		},
	},
	{
		ID: kfTOCReopen, Clause: "C15.T6",
		Desc: "the reader skips w:sdt: a generated table of contents is gone after save -> open -> save",
		Trigger: func(c Case, f kit.Failure) bool {
			k := opOf(f)
			if k < 0 || k >= len(c.Ops) || c.Ops[k].K != "reopen" {
				return false
			}
			for i := 0; i < k; i++ {
				if isTOCGen(c.Ops[i].K) {
					return true
				}
			}
			return false
		},
	},
}

// fixedCases are hand-written regression histories judged on every run before the generated search.
func fixedCases() []Case {
	if os.Getenv("C15_NOFIXED") != "" { // sensitivity runs: let the generated search find the mutant on its own
		return nil
	}
	return []Case{
		{Kind: "lists", Ops: []Op{
			{K: "listitem", Text: "i", Type: "lowerRoman", Level: 0, Start: 1},
			{K: "listitem", Text: "ii", Type: "upperRoman", Level: 1, Start: 1},
			{K: "bullet", Text: "b", Bullet: "→", Level: 2},
			{K: "bullet", Text: "c", Bullet: "■", Level: 8},
			{K: "numbered", Text: "n", Type: "lowerLetter", Level: 3},
			{K: "multilevel", Items: []Item{{"a", 0, "decimal", "", 3}, {"b", 1, "bullet", "○", 0}, {"c", 2, "upperLetter", "", 2}, {"d", 0, "bullet", "–", 0}, {"e", 0, "bullet", "•", 0}, {"f", 4, "number", "", 0}}},
			{K: "listnil", Text: "nil"},
			{K: "reopen"},
			{K: "listitem", Text: "", Type: "decimal", Level: 5, Start: 9},
		}},
		{Kind: "notes", Ops: []Op{
			{K: "footnote", Text: "a", Note: "first <note>"},
			{K: "endnote", Text: "b", Note: "end & note"},
			{K: "footnote", Text: "c", Note: " second "},
			{K: "para", Text: "p"},
			{K: "fnrun", Note: "on run"},
			{K: "rmfn", IDKind: "live", Sel: 0},
			{K: "rmfn", IDKind: "removed", Sel: 0},
			{K: "rmen", IDKind: "unknown", Raw: "999"},
			{K: "reopen"},
			{K: "endnote", Text: "d", Note: ""},
			{K: "rmen", IDKind: "live", Sel: 1},
		}},
		{Kind: "toc", Ops: []Op{
			{K: "heading", Text: "B chapter", Level: 1},
			{K: "para", Text: "text"},
			{K: "heading", Text: "A section", Level: 3},
			{K: "table"},
			{K: "heading", Text: "", Level: 1},
			{K: "heading", Text: "deep", Level: 4},
			{K: "gentoc", Max: 3, Title: "Contents"},
			{K: "headings"},
			{K: "heading", Text: "0 later", Level: 2},
			{K: "updtoc", Times: 2},
		}},
		// a document with notes from its file, two documents rendered from it, removals of inherited notes and adds in
		// each of the three, a document rendered from a rendered one
		{Kind: "derived", Ops: []Op{
			{K: "footnote", Text: "a", Note: "fn one"},
			{K: "footnote", Text: "b", Note: "fn two"},
			{K: "endnote", Text: "c", Note: "en one"},
			{K: "listitem", Text: "i", Type: "decimal", Level: 0, Start: 3},
			{K: "footnote", Text: "d", Note: "fn three"},
			{K: "endnote", Text: "e", Note: "en two"},
			{K: "reopen"},
			{K: "footnote", Text: "f", Note: "fn four (after open)"},
			{K: "derive", Times: 2},
			{K: "rmfn", IDKind: "live", Sel: 1, Doc: 1},
			{K: "rmen", IDKind: "live", Sel: 0, Doc: 1},
			{K: "footnote", Text: "g", Note: "fn in doc 2", Doc: 2},
			{K: "rmfn", IDKind: "live", Sel: 1, Doc: 2},
			{K: "rmfn", IDKind: "live", Sel: 3, Doc: 0},
			{K: "endnote", Text: "h", Note: "en in base", Doc: 0},
			{K: "listitem", Text: "ii", Type: "decimal", Level: 0, Start: 5, Doc: 1},
			{K: "listitem", Text: "iii", Type: "lowerRoman", Level: 0, Start: 2, Doc: 2},
			{K: "rmfn", IDKind: "removed", Sel: 0, Doc: 1},
			{K: "derive", Times: 1, Doc: 1},
			{K: "rmen", IDKind: "live", Sel: 0, Doc: 3},
			{K: "endnote", Text: "j", Note: "en in doc 1", Doc: 1},
			{K: "reopen", Doc: 2},
			{K: "rmfn", IDKind: "live", Sel: 0, Doc: 2},
		}},
		// a document whose notes parts and numbering part were written by another producer (explicit w:type="normal",
		// Word's separator pair and a continuationNotice entry, ids with gaps past 9, default namespace; second
		// reopen: another prefix with w bound elsewhere, single quotes, reverse order, no special entries)
		{Kind: "mixed", Ops: []Op{
			{K: "footnote", Text: "a", Note: "fn one"},
			{K: "footnote", Text: "b", Note: "fn <two> "},
			{K: "endnote", Text: "c", Note: "en one"},
			{K: "listitem", Text: "i", Type: "decimal", Level: 1, Start: 3},
			{K: "bullet", Text: "j", Bullet: "•", Level: 0},
			{K: "reopen", Foreign: &Dialect{Prefix: "-", TypeNormal: 1, Seps: 2, Notice: true, Stride: 3, Shift: 7, Split: 1, NumExtras: true,
				AbsStride: 2, AbsShift: 10, NumStride: 1, NumShift: 9, SelfClose: true, RootExtra: true}},
			{K: "rmfn", IDKind: "special", Sel: 2},
			{K: "rmfn", IDKind: "live", Sel: 1},
			{K: "footnote", Text: "d", Note: "fn three"},
			{K: "endnote", Text: "e", Note: "en two"},
			{K: "listitem", Text: "k", Type: "decimal", Level: 1, Start: 3},
			{K: "listitem", Text: "l", Type: "upperRoman", Level: 2, Start: 0},
			{K: "rmen", IDKind: "live", Sel: 0},
			{K: "reopen", Foreign: &Dialect{Prefix: "ns0", WOther: true, Apos: true, Compact: true, Decl: 2, AttrRev: true, TypeNormal: 2, Seps: 1,
				Reverse: true, Split: 3, NumReverse: true, Comments: true}},
			{K: "rmfn", IDKind: "live", Sel: 0},
			{K: "footnote", Text: "f", Note: "fn four"},
			{K: "bullet", Text: "m", Bullet: "■", Level: 3},
			{K: "rmfn", IDKind: "removed", Sel: 0},
		}},
		{Kind: "toc", Ops: []Op{
			{K: "heading", Text: "z", Level: 2},
			{K: "heading", Text: "a", Level: 1},
			{K: "heading", Text: " ", Level: 3},
			{K: "heading", Text: "x", Level: 5},
			{K: "autotoc", Max: 0, Times: 1},
			{K: "heading", Text: "m", Level: 1, Variant: 2},
			{K: "updtoc", Times: 3},
		}},
	}
}

package c15

// Read-only views over the saved package (independent of pkg/document types): list paragraphs and
// the numbering part, the notes parts, the table(s) of contents, the non-TOC body content.

import (
	"fmt"
	"regexp"
	"strconv"
	"strings"

	"wzverif/internal/canon"
	"wzverif/internal/opc"
)

type snap struct {
	pkg  *opc.Package
	root *canon.Node
	body *canon.Node
	str  string // canonical rendering of the main part
	raw  []byte
}

func takeSnap(b []byte) (*snap, error) {
	pkg, err := opc.Read(b)
	if err != nil {
		return nil, fmt.Errorf("unreadable package: %v", err)
	}
	main, ok := pkg.Parts["word/document.xml"]
	if !ok {
		return nil, fmt.Errorf("no word/document.xml")
	}
	root, err := canon.Parse(main)
	if err != nil {
		return nil, fmt.Errorf("main part does not parse: %v", err)
	}
	body := root.Kid(canon.W, "body")
	if body == nil {
		return nil, fmt.Errorf("no w:body")
	}
	return &snap{pkg: pkg, root: root, body: body, str: root.String()}, nil
}

// paraText concatenates the w:t of the runs that are direct children of the paragraph.
func paraText(p *canon.Node) string {
	var b strings.Builder
	for _, r := range p.KidsNamed(canon.W, "r") {
		for _, t := range r.KidsNamed(canon.W, "t") {
			b.WriteString(t.Text)
		}
	}
	return b.String()
}

func allText(n *canon.Node) string {
	var b strings.Builder
	for _, t := range n.All(canon.W, "t") {
		b.WriteString(t.Text)
	}
	return b.String()
}

func pStyle(p *canon.Node) string {
	return p.Path("pPr", "pStyle").A(canon.W, "val")
}

// ---------------------------------------------------------------------------------------------
// lists

type listPara struct {
	numID, ilvl    string
	hasNum, hasLvl bool
	text           string
}

// listParas returns the body-level paragraphs that carry w:numPr, in document order.
func listParas(body *canon.Node) []listPara {
	var out []listPara
	for _, k := range body.Kids {
		if !k.Is(canon.W, "p") {
			continue
		}
		np := k.Path("pPr", "numPr")
		if np == nil {
			continue
		}
		lp := listPara{text: paraText(k)}
		if n := np.Kid(canon.W, "numId"); n != nil {
			lp.numID, lp.hasNum = n.Attr(canon.W, "val")
		}
		if n := np.Kid(canon.W, "ilvl"); n != nil {
			lp.ilvl, lp.hasLvl = n.Attr(canon.W, "val")
		}
		out = append(out, lp)
	}
	return out
}

type numbering struct {
	nums map[string][]string      // numId -> abstractNumId(s) (several = duplicate w:num)
	abs  map[string][]*canon.Node // abstractNumId -> definitions
}

func parseNumbering(data []byte) (*numbering, error) {
	root, err := canon.Parse(data)
	if err != nil {
		return nil, err
	}
	if !root.Is(canon.W, "numbering") {
		return nil, fmt.Errorf("root is %s, not w:numbering", root.Name())
	}
	n := &numbering{nums: map[string][]string{}, abs: map[string][]*canon.Node{}}
	for _, k := range root.Kids {
		switch {
		case k.Is(canon.W, "abstractNum"):
			id := k.A(canon.W, "abstractNumId")
			n.abs[id] = append(n.abs[id], k)
		case k.Is(canon.W, "num"):
			id := k.A(canon.W, "numId")
			n.nums[id] = append(n.nums[id], k.Kid(canon.W, "abstractNumId").A(canon.W, "val"))
		}
	}
	return n, nil
}

// level resolves numId -> w:num -> w:abstractNum -> w:lvl[@w:ilvl]; why explains a miss.
func (n *numbering) level(numID, ilvl string) (lvl *canon.Node, why string) {
	if n == nil {
		return nil, "the package has no (parsable) word/numbering.xml"
	}
	as := n.nums[numID]
	if len(as) == 0 {
		return nil, fmt.Sprintf("no w:num with w:numId=%q", numID)
	}
	if len(as) > 1 {
		return nil, fmt.Sprintf("%d w:num elements share w:numId=%q", len(as), numID)
	}
	defs := n.abs[as[0]]
	if len(defs) == 0 {
		return nil, fmt.Sprintf("w:num %q refers to w:abstractNum %q which is not defined", numID, as[0])
	}
	if len(defs) > 1 {
		return nil, fmt.Sprintf("%d w:abstractNum elements share id %q", len(defs), as[0])
	}
	for _, l := range defs[0].KidsNamed(canon.W, "lvl") {
		if l.A(canon.W, "ilvl") == ilvl {
			return l, ""
		}
	}
	return nil, fmt.Sprintf("w:abstractNum %q (via w:num %q) has no w:lvl with w:ilvl=%q", as[0], numID, ilvl)
}

// ---------------------------------------------------------------------------------------------
// notes

type noteEntry struct{ id, text string }

// parseNotes returns the user notes of a notes part (entries typed separator/continuation* are skipped).
func parseNotes(data []byte, rootLocal, entryLocal string) ([]noteEntry, error) {
	root, err := canon.Parse(data)
	if err != nil {
		return nil, err
	}
	if !root.Is(canon.W, rootLocal) {
		return nil, fmt.Errorf("root is %s, not w:%s", root.Name(), rootLocal)
	}
	var out []noteEntry
	for _, k := range root.KidsNamed(canon.W, entryLocal) {
		switch k.A(canon.W, "type") {
		case "separator", "continuationSeparator", "continuationNotice":
			continue
		}
		out = append(out, noteEntry{id: k.A(canon.W, "id"), text: allText(k)})
	}
	return out, nil
}

// noteRefs returns the ids referred to by w:footnoteReference / w:endnoteReference in the main part.
func noteRefs(root *canon.Node, local string) []string {
	var out []string
	for _, n := range root.All(canon.W, local) {
		out = append(out, n.A(canon.W, "id"))
	}
	return out
}

// ---------------------------------------------------------------------------------------------
// tables of contents

type tocEntry struct {
	Level int
	Text  string
}

func (e tocEntry) String() string { return fmt.Sprintf("L%d:%q", e.Level, e.Text) }

func isTOCSDT(n *canon.Node) bool {
	return n.Is(canon.W, "sdt") && n.Path("sdtPr", "docPartObj", "docPartGallery").A(canon.W, "val") == "Table of Contents"
}

// tocSDTs returns the table-of-contents content controls that are children of w:body.
func tocSDTs(body *canon.Node) []*canon.Node {
	var out []*canon.Node
	for _, k := range body.Kids {
		if isTOCSDT(k) {
			out = append(out, k)
		}
	}
	return out
}

var pageSuffix = regexp.MustCompile(`\t[0-9]+$`)

// tocLevelOfStyle maps the style of a TOC entry paragraph to its level: the library's numeric ids 13..21
// ("toc 1".."toc 9") and the conventional names TOC1..TOC9.
func tocLevelOfStyle(st string) int {
	if strings.HasPrefix(st, "TOC") {
		if v, err := strconv.Atoi(st[3:]); err == nil && v >= 1 && v <= 9 {
			return v
		}
		return 0
	}
	if v, err := strconv.Atoi(st); err == nil && v >= 13 && v <= 21 {
		return v - 12
	}
	return 0
}

func stripPage(s string) string {
	if loc := pageSuffix.FindStringIndex(s); loc != nil {
		return s[:loc[0]]
	}
	return s
}

// sdtEntries reads the entries of a TOC content control: every paragraph of w:sdtContent styled as a TOC
// level is one entry; its text is the text of the placeholder control(s) directly before it plus its own
// run text, without the trailing tab + page number.
func sdtEntries(sdt *canon.Node) []tocEntry {
	var out []tocEntry
	pending := ""
	for _, k := range sdt.Kid(canon.W, "sdtContent").Kids {
		switch {
		case k.Is(canon.W, "sdt"):
			pending += allText(k)
		case k.Is(canon.W, "p"):
			if lv := tocLevelOfStyle(pStyle(k)); lv > 0 {
				out = append(out, tocEntry{lv, stripPage(pending + paraText(k))})
			}
			pending = ""
		}
	}
	return out
}

// paraTOC reads a paragraph-style table of contents: the body-level paragraphs styled TOC1..TOC9.
func paraTOC(body *canon.Node) []tocEntry {
	var out []tocEntry
	for _, k := range body.Kids {
		if k.Is(canon.W, "p") {
			if st := pStyle(k); strings.HasPrefix(st, "TOC") {
				out = append(out, tocEntry{tocLevelOfStyle(st), stripPage(paraText(k))})
			}
		}
	}
	return out
}

// content renders the non-TOC block content of the body: headings, other paragraphs, tables, in order.
// Bookmarks, content controls, section settings and TOC-styled paragraphs are not content.
func content(body *canon.Node) []string {
	var out []string
	for _, k := range body.Kids {
		switch {
		case k.Is(canon.W, "p"):
			st := pStyle(k)
			switch {
			case strings.HasPrefix(st, "TOC"):
			case strings.HasPrefix(st, "Heading"):
				out = append(out, "h"+st[len("Heading"):]+":"+paraText(k))
			default:
				out = append(out, "p:"+paraText(k))
			}
		case k.Is(canon.W, "tbl"):
			out = append(out, "tbl")
		}
	}
	return out
}

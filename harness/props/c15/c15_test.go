package c15

import (
	"fmt"
	"strings"
	"testing"

	"github.com/zerx-lab/wordZero/pkg/document"
	"pgregory.net/rapid"

	"wzverif/internal/gen"
	"wzverif/internal/kit"
)

func TestMain(m *testing.M) {
	document.SetGlobalLevel(document.LogLevelSilent)
	kit.TestMain(m, 1500, 30000)
}

var (
	listTypes    = []string{"bullet", "number", "decimal", "lowerLetter", "upperLetter", "lowerRoman", "upperRoman"}
	orderedTypes = listTypes[1:]
	bullets      = []string{string(document.BulletTypeDot), string(document.BulletTypeCircle), string(document.BulletTypeSquare), string(document.BulletTypeDash), string(document.BulletTypeArrow)}
	unknownIDs   = []string{"0", "-1", "999", "abc", "", "01", " 1", "1000000"}
	// symbols other than the five constants (BulletType is a string type): multi-byte, ASCII, XML-special, a string the
	// library generates itself as the level text of ordered lists, a string with the separator of composite keys
	customBullets = []string{"★", "✓", "-", "*", "o", "%1.", "§", "👉", "<&>", "a_b", "•_0"}
	bigStarts     = []int{10, 11, 12, 19, 99, 100, 101, 255, 256, 999, 1000, 32767, 32768, 65535, 65536, 100000}
)

// genBullet: one of the five BulletType constants; 1 in 12 another symbol.
func genBullet(t *rapid.T) string {
	if weighted(t, "symk", 11, 1) == 1 {
		return rapid.SampledFrom(customBullets).Draw(t, "sym-custom")
	}
	return rapid.SampledFrom(bullets).Draw(t, "sym")
}

// genStart: 0..9; 1 in 8 a start number with more digits / at a power of two.
func genStart(t *rapid.T) int {
	if weighted(t, "startk", 7, 1) == 1 {
		return rapid.SampledFrom(bigStarts).Draw(t, "start-big")
	}
	return rapid.IntRange(0, 9).Draw(t, "start")
}

// burst: a count from the usual small range; 1 case in `one` from 9..hi (past 9, 10, 16, 32, 64).
func burst(t *rapid.T, label string, lo, n, one, hi int) int {
	if weighted(t, label+"-burst", one-1, 1) == 1 {
		return rapid.SampledFrom([]int{9, 10, 11, 12, 16, 17, 33, 65, hi}).Filter(func(v int) bool { return v <= hi }).Draw(t, label+"-many")
	}
	return rapid.IntRange(lo, n).Draw(t, label)
}

func text(t *rapid.T, label string) string {
	s, _ := gen.Text(t, label, gen.Expressible...)
	return s
}

func shortText(t *rapid.T, label string) string {
	return rapid.SampledFrom([]string{"a", "body", "See", "x y", "中文", "", "[1]", "[尾注1]"}).Draw(t, label)
}

func genLevel(t *rapid.T) int {
	switch rapid.IntRange(0, 9).Draw(t, "lvlk") {
	case 0:
		return rapid.SampledFrom([]int{-1, 9, 10}).Draw(t, "lvl-out")
	case 1, 2, 3, 4:
		return rapid.IntRange(0, 2).Draw(t, "lvl-low")
	}
	return rapid.IntRange(0, 8).Draw(t, "lvl")
}

// genItem draws the arguments of one list item; now and then it repeats the (type, symbol, level) of an earlier
// item with another start number.
func genItem(t *rapid.T, prev []Item) Item {
	it := Item{Text: text(t, "ltext")}
	if len(prev) > 0 && rapid.IntRange(0, 3).Draw(t, "again") == 0 {
		p := rapid.SampledFrom(prev).Draw(t, "prev")
		it.Type, it.Bullet, it.Level = p.Type, p.Bullet, p.Level
	} else {
		it.Type = rapid.SampledFrom(listTypes).Draw(t, "ltype")
		if it.Type == "bullet" {
			it.Bullet = genBullet(t)
		} else if rapid.IntRange(0, 3).Draw(t, "symo") == 0 {
			it.Bullet = genBullet(t)
		}
		it.Level = genLevel(t)
	}
	it.Start = genStart(t)
	return it
}

func genListOp(t *rapid.T, prev *[]Item) Op {
	k := []string{"listitem", "bullet", "numbered", "multilevel", "listnil"}[weighted(t, "lk", 8, 4, 4, 3, 1)]
	switch k {
	case "listitem":
		it := genItem(t, *prev)
		*prev = append(*prev, it)
		return Op{K: k, Text: it.Text, Type: it.Type, Bullet: it.Bullet, Level: it.Level, Start: it.Start}
	case "bullet":
		it := Item{Type: "bullet", Bullet: genBullet(t), Level: genLevel(t)}
		*prev = append(*prev, it)
		return Op{K: k, Text: text(t, "ltext"), Bullet: it.Bullet, Level: it.Level}
	case "numbered":
		it := Item{Type: rapid.SampledFrom(orderedTypes).Draw(t, "ntype"), Level: genLevel(t), Start: 1}
		*prev = append(*prev, it)
		return Op{K: k, Text: text(t, "ltext"), Type: it.Type, Level: it.Level}
	case "multilevel":
		n := burst(t, "nitems", 1, 4, 25, 70)
		o := Op{K: k}
		for i := 0; i < n; i++ {
			it := genItem(t, *prev)
			*prev = append(*prev, it)
			o.Items = append(o.Items, it)
		}
		return o
	}
	return Op{K: "listnil", Text: text(t, "ltext")}
}

func genNoteOp(t *rapid.T) Op {
	k := []string{"footnote", "endnote", "fnrun", "rmfn", "rmen"}[weighted(t, "nk", 3, 3, 1, 3, 3)]
	switch k {
	case "footnote", "endnote":
		return Op{K: k, Text: shortText(t, "btext"), Note: text(t, "note")}
	case "fnrun":
		return Op{K: k, Text: shortText(t, "btext"), Note: text(t, "note"), Sel: rapid.IntRange(0, 20).Draw(t, "sel")}
	}
	return Op{K: k, IDKind: []string{"live", "removed", "unknown", "special"}[weighted(t, "idk", 6, 4, 2, 1)], Sel: rapid.IntRange(0, 20).Draw(t, "sel"),
		Raw: rapid.SampledFrom(unknownIDs).Draw(t, "raw")}
}

// titleLike: texts equal to the titles the table of contents is generated with (the drawn ones and the default).
var titleLike = []string{"目录", "Contents", "T<&>"}

// bodyText: a text of the usual classes; 1 in 12 a text equal to a TOC title.
func bodyText(t *rapid.T, label string) string {
	if weighted(t, label+"-k", 11, 1) == 1 {
		return rapid.SampledFrom(titleLike).Draw(t, label+"-title")
	}
	return text(t, label)
}

func genHeading(t *rapid.T) Op {
	return Op{K: "heading", Text: bodyText(t, "htext"), Level: rapid.IntRange(1, 9).Draw(t, "hlevel"),
		Variant: rapid.SampledFrom([]int{0, 0, 0, 0, 1, 2}).Draw(t, "hvar")}
}

func genMax(t *rapid.T) (int, string) {
	if rapid.IntRange(0, 5).Draw(t, "nilcfg") == 0 {
		return 0, ""
	}
	return rapid.IntRange(1, 9).Draw(t, "max"), rapid.SampledFrom([]string{"Contents", "目录", "", "T<&>"}).Draw(t, "title")
}

func genBodyOp(t *rapid.T, allowTOCParas bool) Op {
	k := []string{"heading", "para", "table", "tocparas"}[weighted(t, "bk", 6, 2, 1, 1)]
	switch k {
	case "heading":
		return genHeading(t)
	case "para":
		return Op{K: "para", Text: bodyText(t, "ptext")}
	case "table":
		return Op{K: "table", Sel: rapid.IntRange(0, 1).Draw(t, "rows"), Level: rapid.IntRange(0, 1).Draw(t, "cols")}
	}
	if !allowTOCParas {
		return genHeading(t)
	}
	n := rapid.IntRange(1, 3).Draw(t, "ntp")
	o := Op{K: "tocparas"}
	for i := 0; i < n; i++ {
		o.Items = append(o.Items, Item{Text: shortText(t, "tptext") + "e", Level: rapid.IntRange(1, 3).Draw(t, "tplevel")})
	}
	return o
}

func genTOCOp(t *rapid.T) Op {
	k := []string{"gentoc", "autotoc", "updtoc", "headings"}[weighted(t, "tk", 2, 2, 4, 1)]
	switch k {
	case "gentoc":
		m, title := genMax(t)
		return Op{K: k, Max: m, Title: title}
	case "autotoc":
		m, title := genMax(t)
		return Op{K: k, Max: m, Title: title, Times: rapid.SampledFrom([]int{1, 1, 1, 2}).Draw(t, "times")}
	case "updtoc":
		return Op{K: k, Times: rapid.IntRange(1, 3).Draw(t, "times")}
	}
	return Op{K: "headings"}
}

func genReopen(t *rapid.T) Op {
	return Op{K: "reopen", Fresh: weighted(t, "fresh", 3, 2) == 1, Foreign: genDialect(t)}
}

func flag(t *rapid.T, label string, yes, no int) bool { return weighted(t, label, yes, no) == 0 }

// genDialect: in 2 of 5 reopens the saved package is re-written as another producer writes its notes parts and
// numbering part (foreignparts.go); every feature of the dialect is drawn on its own.
func genDialect(t *rapid.T) *Dialect {
	if !flag(t, "foreign", 2, 3) {
		return nil
	}
	d := &Dialect{
		Prefix:     []string{"", "ns0", "-", "x", "W"}[weighted(t, "fprefix", 5, 2, 2, 1, 1)],
		Apos:       flag(t, "fapos", 1, 3),
		Compact:    flag(t, "fcompact", 1, 2),
		Decl:       weighted(t, "fdecl", 3, 1, 1),
		SelfClose:  flag(t, "fselfclose", 1, 1),
		Comments:   flag(t, "fcomments", 1, 4),
		RootExtra:  flag(t, "frootextra", 1, 3),
		AttrRev:    flag(t, "fattrrev", 1, 2),
		TypeNormal: weighted(t, "ftype", 3, 3, 2),
		Seps:       weighted(t, "fseps", 3, 1, 3),
		Notice:     flag(t, "fnotice", 1, 3),
		SepsLast:   flag(t, "fsepslast", 1, 4),
		Reverse:    flag(t, "freverse", 1, 3),
		Split:      weighted(t, "fsplit", 3, 2, 1, 1),
		NumExtras:  flag(t, "fnumextras", 1, 1),
		NumReverse: flag(t, "fnumreverse", 1, 3),
	}
	d.WOther = d.Prefix != "" && d.Prefix != "-" && flag(t, "fwother", 1, 2)
	// ids as other producers leave them: gaps, past 9 / 99 / 65535, not starting at 1
	stride := func(label string) (int, int) {
		if flag(t, label, 1, 1) {
			return 0, 0
		}
		return rapid.SampledFrom([]int{1, 1, 2, 3, 7}).Draw(t, label+"-stride"),
			rapid.SampledFrom([]int{0, 1, 2, 5, 8, 9, 10, 17, 98, 99, 100, 998, 65534, 100000}).Draw(t, label+"-shift")
	}
	d.Stride, d.Shift = stride("fnote-ids")
	d.AbsStride, d.AbsShift = stride("fabs-ids")
	d.NumStride, d.NumShift = stride("fnum-ids")
	return d
}

// safeText: body text of a document that will be used as a template (no template syntax).
func safeText(t *rapid.T, label string) string {
	return rapid.SampledFrom([]string{"a", "body", "See", "x y", "中文", "", "p & q", "1."}).Draw(t, label)
}

func genSafeListOp(t *rapid.T, prev *[]Item) Op {
	o := genListOp(t, prev)
	if len(o.Items) > 12 {
		o.Items = o.Items[:12] // every document of a derived case is saved and judged after every op: keep them small
	}
	o.Text = safeText(t, "sltext")
	for i := range o.Items {
		o.Items[i].Text = safeText(t, "sltext")
	}
	return o
}

func genNoteAdd(t *rapid.T) Op {
	k := []string{"footnote", "endnote"}[weighted(t, "addk", 1, 1)]
	return Op{K: k, Text: safeText(t, "btext"), Note: text(t, "note")}
}

// genDerived: document 0 gets notes (flavour "lists": list items), is usually saved and opened again (the notes
// and numbering definitions now come from the file), documents are rendered from it, and then notes are added to
// and removed from any of the documents - mostly notes the document did not add itself - (flavour "lists": list
// items of all kinds are added to any of the documents).
func genDerived(t *rapid.T) []Op {
	var ops []Op
	var prev []Item
	lists := weighted(t, "flavour", 2, 1) == 1
	n0 := rapid.IntRange(1, 4).Draw(t, "n0")
	for i := 0; i < n0; i++ {
		if lists {
			ops = append(ops, genSafeListOp(t, &prev))
			if weighted(t, "pre", 3, 1) == 1 {
				ops = append(ops, genNoteAdd(t))
			}
			continue
		}
		if weighted(t, "pre", 5, 1) == 1 {
			ops = append(ops, genSafeListOp(t, &prev))
		}
		ops = append(ops, genNoteAdd(t))
	}
	if weighted(t, "open", 1, 4) == 1 {
		ops = append(ops, Op{K: "reopen", Cold: weighted(t, "cold", 3, 1) == 1, Foreign: genDialect(t)})
		if weighted(t, "more", 2, 1) == 1 {
			if lists {
				ops = append(ops, genSafeListOp(t, &prev))
			} else {
				ops = append(ops, genNoteAdd(t))
			}
		}
	}
	ops = append(ops, Op{K: "derive", Times: rapid.IntRange(1, 2).Draw(t, "times"), Variant: weighted(t, "render", 5, 1)})
	n := rapid.IntRange(2, kit.Scale(9, 16)).Draw(t, "n")
	w := []int{10, 5, 2, 1, 1, 1}
	if lists {
		w = []int{2, 2, 12, 1, 1, 1}
	}
	for i := 0; i < n; i++ {
		var o Op
		switch weighted(t, "dk", w...) {
		case 0:
			k := []string{"rmfn", "rmen"}[weighted(t, "rk", 1, 1)]
			o = Op{K: k, IDKind: []string{"live", "removed", "unknown", "special"}[weighted(t, "idk", 12, 4, 2, 1)], Sel: rapid.IntRange(0, 20).Draw(t, "sel"),
				Raw: rapid.SampledFrom(unknownIDs).Draw(t, "raw")}
		case 1:
			o = genNoteAdd(t)
		case 2:
			o = genSafeListOp(t, &prev)
		case 3:
			o = Op{K: "para", Text: safeText(t, "ptext")}
		case 4:
			o = Op{K: "reopen", Cold: weighted(t, "cold", 3, 1) == 1, Foreign: genDialect(t)}
		default:
			o = Op{K: "derive", Times: 1, Variant: weighted(t, "render", 5, 1)}
		}
		o.Doc = rapid.IntRange(0, 3).Draw(t, "doc")
		ops = append(ops, o)
	}
	return ops
}

// weighted draws an index with the given relative weights (uniform over the weight units, so that the
// classes keep their share whatever bias the integer generator has towards small values).
func weighted(t *rapid.T, label string, w ...int) int {
	total := 0
	for _, x := range w {
		total += x
	}
	// the integer generators favour small values; a multiplicative hash spreads them evenly over the units
	x := rapid.Uint64().Draw(t, label) * 0x9E3779B97F4A7C15
	x ^= x >> 29
	v := (x >> 8) % uint64(total)
	for i, x := range w {
		if v < uint64(x) {
			return i
		}
		v -= uint64(x)
	}
	return len(w) - 1
}

func genCase(t *rapid.T) Case {
	kind := []string{"lists", "notes", "toc", "mixed", "derived"}[weighted(t, "kind", 6, 6, 8, 2, 3)]
	c := Case{Kind: kind}
	var prev []Item
	switch kind {
	case "derived":
		c.Ops = genDerived(t)
	case "lists":
		n := rapid.IntRange(1, kit.Scale(10, 20)).Draw(t, "n")
		for i := 0; i < n; i++ {
			switch weighted(t, "grp", 1, 1, 14) {
			case 0:
				c.Ops = append(c.Ops, genReopen(t))
			case 1:
				c.Ops = append(c.Ops, Op{K: "para", Text: text(t, "ptext")})
			default:
				c.Ops = append(c.Ops, genListOp(t, &prev))
			}
		}
	case "notes":
		n0 := burst(t, "n0", 0, 3, 40, kit.Scale(33, 70))
		for i := 0; i < n0; i++ {
			k := []string{"footnote", "endnote"}[weighted(t, "addk", 1, 1)]
			c.Ops = append(c.Ops, Op{K: k, Text: shortText(t, "btext"), Note: text(t, "note")})
		}
		n := rapid.IntRange(1, kit.Scale(12, 24)).Draw(t, "n")
		for i := 0; i < n; i++ {
			switch weighted(t, "grp", 1, 1, 14) {
			case 0:
				c.Ops = append(c.Ops, genReopen(t))
			case 1:
				c.Ops = append(c.Ops, Op{K: "para", Text: text(t, "ptext")})
			default:
				c.Ops = append(c.Ops, genNoteOp(t))
			}
		}
	case "toc":
		usedTP := false
		n1 := burst(t, "n1", 0, 8, 25, 110)
		for i := 0; i < n1; i++ {
			o := genBodyOp(t, !usedTP && weighted(t, "tp", 2, 1) == 1)
			usedTP = usedTP || o.K == "tocparas"
			c.Ops = append(c.Ops, o)
		}
		if weighted(t, "gen-first", 5, 1) == 0 {
			m, title := genMax(t)
			c.Ops = append(c.Ops, Op{K: []string{"gentoc", "autotoc"}[weighted(t, "gk", 1, 1)], Max: m, Title: title, Times: 1})
		}
		n2 := rapid.IntRange(1, kit.Scale(9, 18)).Draw(t, "n2")
		for i := 0; i < n2; i++ {
			switch weighted(t, "grp", 1, 7, 8) {
			case 0:
				c.Ops = append(c.Ops, genReopen(t))
			case 1:
				o := genBodyOp(t, false)
				c.Ops = append(c.Ops, o)
			default:
				c.Ops = append(c.Ops, genTOCOp(t))
			}
		}
	default: // mixed
		n := rapid.IntRange(2, kit.Scale(14, 28)).Draw(t, "n")
		usedTP := false
		for i := 0; i < n; i++ {
			switch weighted(t, "grp", 1, 4, 4, 4, 4) {
			case 0:
				c.Ops = append(c.Ops, genReopen(t))
			case 1:
				c.Ops = append(c.Ops, genListOp(t, &prev))
			case 2:
				c.Ops = append(c.Ops, genNoteOp(t))
			case 3:
				o := genBodyOp(t, !usedTP && weighted(t, "tp", 4, 1) == 1)
				usedTP = usedTP || o.K == "tocparas"
				c.Ops = append(c.Ops, o)
			default:
				c.Ops = append(c.Ops, genTOCOp(t))
			}
		}
	}
	return c
}

// describe derives labels, the structural signature and the non-trivial verdict from the case.
func describe(c Case, res *kit.Result) {
	res.Label("kind:" + c.Kind)
	var shape []string
	combos := map[string]bool{}
	keyStarts := map[string]map[int]bool{}
	nItems, adds, removals := 0, 0, 0
	nHead, aboveM, lastM, tocSeen, changeAfterTOC, updAfterChange := 0, false, 0, false, false, false
	hLevels := map[int]bool{}
	var headLevels []int
	seenListBeforeFresh, freshAfterList, seenNoteAdd, freshAfterNote := false, false, false, false
	derivedSeen, itemsAfterDerive := false, 0
	item := func(it Item, explicitStart bool) {
		nItems++
		if derivedSeen {
			itemsAfterDerive++
			res.Label("list:item-after-derive")
		}
		combos[fmt.Sprintf("%s/%d/%d", it.Type, it.Level, it.Start)] = true
		if it.Level < 0 || it.Level > 8 {
			res.Label("list:level-outside-0-8")
		}
		res.Label("list:type:" + it.Type)
		if it.Type == "bullet" {
			sym := "custom"
			for _, b := range bullets {
				if b == it.Bullet {
					sym = b
				}
			}
			res.Label("list:symbol:" + sym)
		} else {
			k := fmt.Sprintf("%s_%s_%d", it.Type, it.Bullet, it.Level)
			if keyStarts[k] == nil {
				keyStarts[k] = map[int]bool{}
			}
			keyStarts[k][it.Start] = true
			if len(keyStarts[k]) > 1 {
				res.Label("list:same-definition-key-other-start")
			}
		}
		if explicitStart && it.Type != "bullet" {
			res.Label("list:start-judged")
			if it.Start > 9 {
				res.Label("list:start-more-digits")
			}
		}
		if freshAfterList {
			res.Label("list:item-after-reopen")
		}
		seenListBeforeFresh = true
	}
	for _, op := range c.Ops {
		sig := op.K
		switch op.K {
		case "listitem":
			item(Item{op.Text, op.Level, op.Type, op.Bullet, op.Start}, true)
			sig += fmt.Sprintf(":%s:%d", op.Type, op.Level)
		case "listnil":
			item(Item{op.Text, 0, "bullet", bullets[0], 0}, false)
		case "bullet":
			item(Item{op.Text, op.Level, "bullet", op.Bullet, 0}, false)
			sig += fmt.Sprintf(":%d", op.Level)
		case "numbered":
			item(Item{op.Text, op.Level, op.Type, "", 1}, false)
			sig += fmt.Sprintf(":%s:%d", op.Type, op.Level)
		case "multilevel":
			for _, it := range op.Items {
				item(it, true)
				sig += fmt.Sprintf(":%s:%d", it.Type, it.Level)
			}
		case "footnote", "endnote", "fnrun":
			adds++
			seenNoteAdd = true
			if freshAfterNote {
				res.Label("note:add-after-reopen")
			}
		case "rmfn", "rmen":
			sig += ":" + op.IDKind
		case "heading":
			nHead++
			hLevels[op.Level] = true
			headLevels = append(headLevels, op.Level)
			for _, tl := range titleLike {
				if op.Text == tl {
					res.Label("toc:heading-text-equals-a-title")
				}
			}
			if op.Text == "" {
				res.Label("toc:heading-empty-text")
			} else if strings.TrimSpace(op.Text) == "" {
				res.Label("toc:heading-blank-text")
			}
			if tocSeen {
				changeAfterTOC = true
			}
			sig += fmt.Sprintf(":%d", op.Level)
		case "gentoc", "autotoc":
			m := op.Max
			if m == 0 {
				m = 3
				res.Label("toc:nil-config")
			}
			lastM = m
			if tocSeen && op.K == "autotoc" {
				res.Label("toc:auto-with-existing-toc")
				if changeAfterTOC {
					updAfterChange = true
				}
			}
			if op.K == "autotoc" && op.Times > 1 {
				res.Label("toc:auto-twice")
			}
			tocSeen = true
			for _, l := range headLevels {
				if l > m {
					aboveM = true
				}
				if l == m {
					res.Label("toc:heading-at-max-level")
				}
			}
			if m != 3 {
				res.Label("toc:max-level-not-3")
			}
			sig += fmt.Sprintf(":%d", m)
		case "updtoc":
			if tocSeen {
				res.Label("toc:update")
				if changeAfterTOC {
					updAfterChange = true
					res.Label("toc:update-after-change")
				}
				if op.Times > 1 {
					res.Label("toc:update-repeated")
				}
			}
			sig += fmt.Sprintf(":x%d", op.Times)
		case "tocparas":
			tocSeen = true
		case "derive":
			derivedSeen = true
			sig += fmt.Sprintf(":x%d:v%d", op.Times, op.Variant)
		case "reopen":
			res.Label("reopen")
			if op.Cold {
				res.Label("reopen:cold")
				sig += ":cold"
			}
			if op.Fresh {
				res.Label("reopen:fresh-process")
				sig += ":fresh"
			}
			if d := op.Foreign; d != nil {
				sig += fmt.Sprintf(":foreign:%s:t%d:s%d:b%d", d.Prefix, d.TypeNormal, d.Seps, d.Split)
				if d.Stride > 0 {
					sig += ":ids"
				}
				if d.NumStride > 0 || d.AbsStride > 0 {
					sig += ":numids"
				}
			}
			if seenListBeforeFresh {
				freshAfterList = true
			}
			if seenNoteAdd {
				freshAfterNote = true
			}
			if tocSeen {
				res.Label("toc:reopen-with-toc")
			}
		}
		if op.Doc != 0 {
			sig += fmt.Sprintf("@%d", op.Doc)
		}
		shape = append(shape, sig)
	}
	derivedDocs, rmAfterDerive := 0, 0
	for _, l := range res.Labels {
		switch l {
		case "rm:live":
			removals++
		case "derived:document":
			derivedDocs++
		case "rm:on-derived", "rm:on-base-after-derive":
			rmAfterDerive++
		}
	}
	if tocSeen {
		for _, l := range headLevels {
			if l > lastM {
				aboveM = true
			}
		}
	}
	for _, c := range []struct {
		what string
		n    int
	}{{"list-items", nItems}, {"note-adds", adds}, {"headings", nHead}} {
		if c.n >= 10 {
			res.Label("many:" + c.what + ">=10")
		}
		if c.n >= 65 {
			res.Label("many:" + c.what + ">=65")
		}
	}
	listsNT := nItems >= 3 && len(combos) >= 2
	notesNT := adds >= 2 && removals >= 1
	tocNT := nHead >= 3 && len(hLevels) >= 2 && aboveM && updAfterChange
	if listsNT {
		res.Label("nontrivial:lists")
	}
	if notesNT {
		res.Label("nontrivial:notes")
	}
	if tocNT {
		res.Label("nontrivial:toc")
	}
	derivedNT := derivedDocs >= 1 && ((adds >= 2 && rmAfterDerive >= 1) || itemsAfterDerive >= 2)
	if derivedNT {
		res.Label("nontrivial:derived")
	}
	res.Nontrivial = listsNT || notesNT || tocNT || derivedNT
	res.Shape = c.Kind + "|" + strings.Join(shape, "|")
}

func TestC15(t *testing.T) {
	kit.Main(t, kit.Spec[Case]{
		ID: "C15", Level: "exploration",
		Rule: "a case is one history of a drawn kind (lists | notes | toc | mixed | derived): lists = 1-10 (thorough 1-20) calls of AddListItem/AddBulletList/AddNumberedList/CreateMultiLevelList/AddListItem(nil) over every ListType, every BulletType, levels -1..10, starts 0..9 (every fourth item repeats the type/symbol/level of an earlier one with a new start); notes = 0-3 initial adds, then AddFootnote/AddEndnote/AddFootnoteToRun/RemoveFootnote/RemoveEndnote with live, already-removed and unknown ids and XML-expressible texts (so a rejected removal is now and then the first note call of its kind on a document that has no such notes part yet, new or opened, and the first add comes after it: label note:first-add-after-rejected-removal); toc = headings (levels 1-9, texts incl. empty/blank), paragraphs, tables, an optional foreign paragraph-style TOC, GenerateTOC/AutoGenerateTOC (MaxLevel 1-9 or nil config), UpdateTOC x1-3, ListHeadings/GetHeadingCount; every kind with reopen (ToBytes->OpenFromMemory; the registries are per-document and an opened document continues from the parts it came with: its model keeps the notes and list items of the file); in 2 of 5 reopens the saved package is first re-written by the harness the way ANOTHER PRODUCER writes word/footnotes.xml, word/endnotes.xml and word/numbering.xml (every feature drawn on its own: another namespace prefix / the default namespace / the prefix w bound to some other namespace, single quotes, no white space, no XML declaration, self-closed empty elements, comments, further namespace declarations + mc:Ignorable, reversed attribute order, w:type=\"normal\" written out on all or every second ordinary note, no special entries / Word's separator pair / a continuationNotice entry / special entries after the notes, notes in reverse order, note ids n -> n*stride+shift with stride 1,2,3,7 and shift 0..100000, the note body in Word's shape or over two runs / two paragraphs, w:nsid+w:multiLevelType+w:tmpl+w:tplc+w:numIdMacAtCleanup, abstractNumIds and numIds renumbered the same way (numIds in the main part too), definitions and instances in reverse order) - the harness verifies with its own readers that the re-written package holds the same notes and the same list paragraphs with the same level definitions, then renumbers the ids of its model; small-probability corners: start numbers 10..100000 (1 item in 8), bullet symbols other than the five constants (1 in 12: multi-byte, ASCII, XML-special, \"%1.\", with \"_\"), 9..70 items in one CreateMultiLevelList / 9..33 (thorough ..70) initial notes / 9..110 initial body ops of a toc case (1 case in 25/40/25), heading and paragraph texts equal to a TOC title (1 in 12), body texts equal to a note marker, removal of the id of a special entry; derived = several documents: document 0 gets 1-4 notes and now and then list items (1 case in 3: list items and now and then notes, and the later ops are mostly list ops), is saved and opened again in 4 of 5 cases (1 in 4 of those 'cold': no note call before the rendering), 1-2 documents are rendered from it (LoadTemplateFromDocument + RenderTemplateToDocument, 1 in 6 RenderToDocument), then 2-9 (thorough 2-16) ops each aimed at one of the documents (note removals by live/removed/unknown id, note adds, list ops, paragraphs, reopen, a further rendering from any document) - every document has its own model (a copy of its source's at the time of the rendering) and ALL documents are saved and judged after every op. non-trivial = lists: >=3 items of >=2 type/level/start combinations; notes: >=2 adds and >=1 successful removal; toc: >=3 headings of >=2 levels, one deeper than MaxLevel, and an update/regeneration after a heading was added to a document that already had a TOC. derived: >=1 rendered document and (>=2 note adds and >=1 successful removal after a rendering, or >=2 list items added after a rendering). distinct = distinct sequence of (op kind, list type+level | id kind | heading level | MaxLevel | repetitions | fresh | cold | document index)",
		Gen:  genCase, Run: run, Findings: findings, Fixed: fixedCases,
		MustSee: map[string]float64{"kind:lists": 0.15, "kind:notes": 0.12, "kind:toc": 0.15, "kind:mixed": 0.03, "reopen": 0.2, "reopen:fresh-process": 0.08,
			"list:level-outside-0-8": 0.07, "list:same-definition-key-other-start": 0.05, "list:start-judged": 0.15, "rm:live": 0.05, "rm:unknown": 0.08, "rm:removed": 0.004,
			"toc:update-after-change": 0.04, "toc:heading-at-max-level": 0.05, "toc:heading-empty-text": 0.06, "toc:max-level-not-3": 0.12, "toc:update-repeated": 0.05,
			"toc:auto-with-existing-toc": 0.05, "toc:paragraph-style": 0.008, "nontrivial:lists": 0.12, "nontrivial:notes": 0.05, "nontrivial:toc": 0.04,
			"kind:derived": 0.05, "derived:base-has-notes-from-file": 0.03, "rm:note-from-file": 0.03, "rm:inherited-note": 0.02, "rm:on-derived": 0.02, "rm:on-base-after-derive": 0.02,
			"derived:base-cold": 0.004, "list:item-after-derive": 0.02, "nontrivial:derived": 0.03,
			"reopen:foreign": 0.05, "foreign:notes-in-file": 0.025, "foreign:type-normal": 0.015, "foreign:note-ids-renumbered": 0.015, "foreign:special-entries": 0.015,
			"foreign:numbering-in-file": 0.02, "foreign:numbering-ids-renumbered": 0.015, "foreign:prefix": 0.02, "list:start-more-digits": 0.03, "list:symbol:custom": 0.008,
			"note:first-add-after-rejected-removal": 0.012, "many:list-items>=10": 0.008, "many:headings>=10": 0.004, "many:note-adds>=10": 0.002},
		Assumptions: []string{
			"numbering, notes and TOC are read by the harness's own readers; the document's footnotes / endnotes / numbering part is the part that the relationship of that type in word/_rels/document.xml.rels leads to and that [Content_Types].xml declares with the footnotes / endnotes / numbering content type (as any consumer locates it) - a zip entry that merely has the conventional name word/footnotes.xml, word/endnotes.xml or word/numbering.xml without such a relationship is not part of the document and its contents count for nothing; a document without the relationship has no notes / no numbering definitions; the TOC is the w:sdt[docPartGallery='Table of Contents'] / the TOCn-styled paragraphs of word/document.xml",
			"AddNumberedList and AddBulletList name no start number: w:start is not judged for their items; StartNumber is judged for AddListItem/CreateMultiLevelList items of ordered types only (the field is documented as 'ordered lists only')",
			"a level outside 0-8 may be clamped or rejected; what is demanded is that an emitted list paragraph has a definition at the level it is written at",
			"ListHeadings is compared on the entries with non-empty text (the statement is silent on headings without text); GetHeadingCount counts every heading paragraph",
			"the body references of notes are plain text markers in this library; only 'every w:footnoteReference/w:endnoteReference resolves' is judged, not the converse",
			"a TOC entry's text is the text of the placeholder control before the entry paragraph plus the paragraph's run text minus the trailing tab+page number",
			"documents rendered from a document (TemplateEngine) start as copies of it: each has the notes and list items of its source at the time of the rendering and from then on a history of its own; 'that document's notes part' and 'per-document counts and removals' are judged for every document of the case after every op, whichever document the op was aimed at",
			"body texts of documents that are used as templates contain no template syntax; whether the engine renders a document at all is not judged here (a refused rendering is counted and skipped); RenderToDocument appends the text of the body again, so the body (not the lists and notes) of such a document is not modelled",
			"a reopened document need not have been written by this library: the notes parts and the numbering part re-written by the harness in another producer's dialect are legal WordprocessingML that means the same document (verified per case with the harness's own readers before the library sees it; a mismatch is reported as C15.0.harness, never as a property failure); w:type=\"normal\" is the default value of the attribute, so such an entry is an ordinary note; entries typed separator / continuationSeparator / continuationNotice are not notes (their ids are unknown ids for RemoveFootnote/RemoveEndnote)",
			"BulletType is a string type: a symbol other than the five constants is a requested symbol like any other",
			"GenerateTOC is an append constructor (C08): it is not called a second time on a document that has a TOC; AutoGenerateTOC documents that it replaces an existing TOC",
		},
	})
}

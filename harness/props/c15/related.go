package c15

// "That document's notes part" / "a numbering definition the item refers to": a reader of a .docx does not find
// these parts by a file name, it follows the relationship of the footnotes / endnotes / numbering type from the
// main part and accepts the target as that kind of part by its content type. A zip entry that merely is called
// word/footnotes.xml is not the document's notes part. The views below locate the parts that way.

import (
	"fmt"
	"sort"
	"strings"

	"wzverif/internal/opc"
)

const (
	mainPart     = "word/document.xml"
	relFootnotes = opc.RelPrefix + "footnotes"
	relEndnotes  = opc.RelPrefix + "endnotes"
	relNumbering = opc.RelPrefix + "numbering"
	ctPrefix     = "application/vnd.openxmlformats-officedocument.wordprocessingml."
	ctFootnotes  = ctPrefix + "footnotes+xml"
	ctEndnotes   = ctPrefix + "endnotes+xml"
	ctNumbering  = ctPrefix + "numbering+xml"
)

// relatedPart follows the relationships of type relType of the main part.
//
//	name == "" && problem == "" : the main part has no such relationship - the document has no part of that kind
//	problem != ""               : there is a relationship, but it does not lead to one part of that kind
//	                              (relationship part unreadable, external, several different targets, target not in
//	                              the package, target declared with another content type or with none)
func relatedPart(sn *snap, relType, ctype string) (name string, data []byte, problem string) {
	relsName := opc.RelsNameOf(mainPart)
	if err := sn.pkg.RelErr[relsName]; err != nil {
		return "", nil, fmt.Sprintf("%s does not parse: %v", relsName, err)
	}
	seen := map[string]bool{}
	var targets []string
	for _, r := range sn.pkg.RelsOf(mainPart) {
		if r.Type != relType {
			continue
		}
		if r.External() {
			return "", nil, fmt.Sprintf("relationship %s of type .../%s is external (%q)", r.ID, shortRel(relType), r.Target)
		}
		if !seen[r.Resolved] {
			seen[r.Resolved] = true
			targets = append(targets, r.Resolved)
		}
	}
	switch len(targets) {
	case 0:
		return "", nil, ""
	case 1:
	default:
		sort.Strings(targets)
		return "", nil, fmt.Sprintf("%s has relationships of type .../%s to %d different parts %q", relsName, shortRel(relType), len(targets), targets)
	}
	name = targets[0]
	data, ok := sn.pkg.Parts[name]
	if !ok {
		return name, nil, fmt.Sprintf("the relationship of type .../%s leads to %q, which is not in the package", shortRel(relType), name)
	}
	if sn.pkg.CTErr != nil {
		return name, data, fmt.Sprintf("[Content_Types].xml: %v", sn.pkg.CTErr)
	}
	if ct, _ := sn.pkg.ContentTypeOf(name); ct != ctype {
		return name, data, fmt.Sprintf("%s is declared with content type %q in [Content_Types].xml, a part of that kind has %q", name, ct, ctype)
	}
	return name, data, ""
}

func shortRel(relType string) string { return strings.TrimPrefix(relType, opc.RelPrefix) }

// orphanHint: a zip entry with the conventional name exists although no relationship leads to it.
func orphanHint(sn *snap, conventional, relType string) string {
	if _, ok := sn.pkg.Parts[conventional]; ok {
		return fmt.Sprintf(" (the package holds an entry %s, but no relationship of type .../%s of %s leads to it: it is not a part of the document)", conventional, shortRel(relType), mainPart)
	}
	return ""
}

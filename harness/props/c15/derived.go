package c15

// Several documents in one case: a document, the documents rendered from it with a TemplateEngine
// (LoadTemplateFromDocument + RenderTemplateToDocument / RenderToDocument), documents rendered from those, ...
// The property speaks of "THAT document's notes part" and of "per-document counts and removals": every document
// of the case has its own reference model (a copy of the model of the document it was rendered from, taken at
// the time of the rendering), every op is aimed at one document, and after every op ALL documents are saved
// and compared with their own model.

import (
	"fmt"

	"github.com/zerx-lab/wordZero/pkg/document"
)

const maxDocs = 6

type world struct {
	docs []*state
}

func (w *world) stopped() bool {
	for _, d := range w.docs {
		if d.stop {
			return true
		}
	}
	return false
}

func (w *world) setCur(i int) {
	for _, d := range w.docs {
		d.cur = i
	}
}

func (w *world) target(op Op) *state {
	k := op.Doc
	if k < 0 {
		k = -k
	}
	return w.docs[k%len(w.docs)]
}

func keys(m map[string]string) map[string]bool {
	out := make(map[string]bool, len(m))
	for k := range m {
		out[k] = true
	}
	return out
}

func copyMap(m map[string]string) map[string]string {
	out := make(map[string]string, len(m))
	for k, v := range m {
		out[k] = v
	}
	return out
}

// cloneModel returns the model a document rendered from s starts with: the same body, list items and live
// notes (with their ids); it has no paragraph handles of its own yet.
func (s *state) cloneModel(doc *document.Document, idx int) *state {
	n := &state{
		res: s.res, c: s.c, doc: doc, cur: s.cur, idx: idx,
		body:      append([]bodyEl{}, s.body...),
		items:     append([]*mItem{}, s.items...), // the entries are never changed after they were added
		requested: s.requested,
		fn:        copyMap(s.fn), en: copyMap(s.en),
		fnRemoved: append([]string{}, s.fnRemoved...), enRemoved: append([]string{}, s.enRemoved...),
		fnEver: s.fnEver, enEver: s.enEver, notesOff: s.notesOff, listsOff: s.listsOff,
		tocPresent: s.tocPresent, tocSDT: s.tocSDT, tocM: s.tocM, tocStale: s.tocStale, tocOff: s.tocOff, tocBad: s.tocBad,
		contentOff: s.contentOff,
		fnSpecial:  append([]string{}, s.fnSpecial...), enSpecial: append([]string{}, s.enSpecial...),
	}
	n.fnInherited, n.enInherited = keys(s.fn), keys(s.en)
	// notes the source had from its file are notes from a file in the rendered document too
	n.fnFromFile, n.enFromFile = map[string]bool{}, map[string]bool{}
	for id := range s.fnFromFile {
		if _, live := s.fn[id]; live {
			n.fnFromFile[id] = true
		}
	}
	for id := range s.enFromFile {
		if _, live := s.en[id]; live {
			n.enFromFile[id] = true
		}
	}
	return n
}

// derive renders op.Times documents from the document src.
func (w *world) derive(src *state, op Op) {
	res := src.res
	times := op.Times
	if times < 1 {
		times = 1
	}
	if times > 3 {
		times = 3
	}
	if len(w.docs)+times > maxDocs {
		times = maxDocs - len(w.docs)
	}
	if times <= 0 {
		res.Count("skipped:derive-too-many-documents", 1)
		return
	}
	if src.tocPresent {
		// content controls are not cloned by the engine (the element is shared): not a history of this kind
		res.Count("skipped:derive-with-toc", 1)
		return
	}
	var eng *document.TemplateEngine
	var err error
	name := fmt.Sprintf("t%d", src.cur)
	if !src.call("LoadTemplateFromDocument", func() {
		eng = document.NewTemplateEngine()
		_, err = eng.LoadTemplateFromDocument(name, src.doc)
	}) {
		return
	}
	if err != nil {
		// the engine refused the document as a template: nothing was derived, nothing to demand (C16-C18 judge the engine)
		res.Count("derive-refused", 1)
		return
	}
	if len(w.docs) == 1 {
		src.tag = "[doc=0] "
	}
	for k := 0; k < times; k++ {
		var nd *document.Document
		if !src.call("Render", func() {
			if op.Variant == 1 {
				nd, err = eng.RenderToDocument(name, document.NewTemplateData())
			} else {
				nd, err = eng.RenderTemplateToDocument(name, document.NewTemplateData())
			}
		}) {
			return
		}
		if err != nil || nd == nil {
			res.Count("derive-refused", 1)
			return
		}
		n := src.cloneModel(nd, len(w.docs))
		n.tag = fmt.Sprintf("[doc=%d] ", n.idx)
		if op.Variant == 1 {
			n.contentOff = true
			res.Label("derived:render-to-document")
		}
		w.docs = append(w.docs, n)
		res.Label("derived:document")
		if src.idx != 0 {
			res.Label("derived:from-derived")
		}
		if len(src.fnFromFile)+len(src.enFromFile) > 0 {
			res.Label("derived:base-has-notes-from-file")
		}
		if src.cold {
			res.Label("derived:base-cold")
		}
	}
}

// checkOthers: after an op aimed at document at, every document of the case is saved and compared with its own
// model (in a single-document case the ops check what they changed themselves, as before).
func (w *world) checkOthers(at *state, op Op) {
	if len(w.docs) < 2 {
		return
	}
	for _, d := range w.docs {
		if d.stop || w.stopped() {
			return
		}
		where := fmt.Sprintf("document %d after the %s op on document %d", d.idx, op.K, at.idx)
		sn := d.snapshot(where)
		if sn == nil {
			return
		}
		d.checkContent(sn, where)
		if d.stop {
			return
		}
		d.checkLists(sn, where)
		d.checkNotes(sn, where, "", "")
	}
}

// labelRemoval records where the note a successful removal took away had come from.
func (s *state) labelRemoval(foot bool, id string) {
	file, inh := s.enFromFile, s.enInherited
	if foot {
		file, inh = s.fnFromFile, s.fnInherited
	}
	if file[id] {
		s.res.Label("rm:note-from-file")
	}
	if inh[id] {
		s.res.Label("rm:inherited-note")
	}
	if s.tag != "" {
		if s.idx == 0 {
			s.res.Label("rm:on-base-after-derive")
		} else {
			s.res.Label("rm:on-derived")
		}
	}
}

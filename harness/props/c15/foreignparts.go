package c15

// Reopened documents whose notes parts and numbering part were written by ANOTHER PRODUCER.
//
// The property quantifies over "new and reopened documents"; a reopened document need not have been written by
// this library. A reopen op may carry a Dialect: the package the library saved is then re-written by the harness
// before it is opened again - word/footnotes.xml, word/endnotes.xml and word/numbering.xml are parsed into
// namespace-resolved trees and serialised again the way other producers legally write them (another namespace
// prefix or the default namespace, w:type="normal" on ordinary notes, Word's separator pair and a
// continuationNotice entry, ids with gaps / past 9 / in another order, note text over several runs or
// paragraphs with Word's reference run, w:nsid / w:multiLevelType / w:tmpl in the definitions, ...). The
// re-written package MEANS the same document: the same notes with the same texts (ids renumbered by a stated
// rule), the same list paragraphs with the same definitions at their levels. The harness verifies that with
// its own readers before the library sees the package (a mismatch is a harness error: clause C15.0.harness),
// renumbers the ids of its model, and from then on demands of the library exactly what it demands of any
// reopened document.

import (
	"archive/zip"
	"bytes"
	"encoding/xml"
	"fmt"
	"regexp"
	"sort"
	"strconv"
	"strings"
	"unicode/utf8"

	"wzverif/internal/canon"
)

// Dialect describes how the other producer writes. The zero value changes nothing.
type Dialect struct {
	// serialisation of all three parts
	Prefix    string `json:"prefix,omitempty"`    // prefix bound to the WordprocessingML namespace: "" = w, "-" = none (default namespace; attributes use a second binding), else that prefix
	WOther    bool   `json:"wother,omitempty"`    // with another prefix: the root also binds the prefix w - to a namespace of its own
	Apos      bool   `json:"apos,omitempty"`      // attribute values in single quotes
	Compact   bool   `json:"compact,omitempty"`   // no whitespace between elements
	Decl      int    `json:"decl,omitempty"`      // 0 declaration with standalone="yes" | 1 without standalone | 2 no XML declaration
	SelfClose bool   `json:"selfclose,omitempty"` // empty elements as <x/>
	Comments  bool   `json:"comments,omitempty"`  // comments before the root, between and after its children
	RootExtra bool   `json:"rootextra,omitempty"` // the root declares further namespaces and mc:Ignorable, as Word does
	AttrRev   bool   `json:"attrrev,omitempty"`   // attributes in reverse order (w:type before/after w:id)

	// notes parts
	TypeNormal int  `json:"typenormal,omitempty"` // 1 every ordinary note carries w:type="normal" (the default value, written out) | 2 every second one
	Seps       int  `json:"seps,omitempty"`       // special entries: 0 as they are | 1 none | 2 Word's pair separator(-1) + continuationSeparator(0)
	Notice     bool `json:"notice,omitempty"`     // a continuationNotice entry (id 1 when free, else one past the largest id)
	SepsLast   bool `json:"sepslast,omitempty"`   // the special entries follow the ordinary notes
	Reverse    bool `json:"reverse,omitempty"`    // ordinary notes in reverse order
	Stride     int  `json:"stride,omitempty"`     // > 0: note id n becomes n*Stride+Shift
	Shift      int  `json:"shift,omitempty"`
	Split      int  `json:"split,omitempty"` // note body: 0 as it is | 1 Word's shape (reference run + text run) | 2 text over two runs | 3 over two paragraphs

	// numbering part
	NumExtras  bool `json:"numextras,omitempty"` // w:nsid, w:multiLevelType, w:tmpl, w:tplc, w:numIdMacAtCleanup
	AbsStride  int  `json:"absstride,omitempty"` // > 0: abstractNumId n becomes n*AbsStride+AbsShift
	AbsShift   int  `json:"absshift,omitempty"`
	NumStride  int  `json:"numstride,omitempty"` // > 0: numId n becomes n*NumStride+NumShift (in the main part too)
	NumShift   int  `json:"numshift,omitempty"`
	NumReverse bool `json:"numreverse,omitempty"` // definitions and instances in reverse order (definitions still before instances)
}

const (
	nsMC      = "http://schemas.openxmlformats.org/markup-compatibility/2006"
	nsW14     = "http://schemas.microsoft.com/office/word/2010/wordml"
	nsW15     = "http://schemas.microsoft.com/office/word/2012/wordml"
	nsOtherW  = "urn:schemas-example-org:producer:w"
	attrAlias = "wa" // prefix of attributes when the elements use the default namespace
)

func wEl(local string, attrs ...string) *canon.Node {
	n := &canon.Node{Space: canon.W, Local: local}
	for i := 0; i+1 < len(attrs); i += 2 {
		n.Attrs = append(n.Attrs, canon.Attr{Space: canon.W, Local: attrs[i], Value: attrs[i+1]})
	}
	return n
}

func add(parent *canon.Node, kids ...*canon.Node) *canon.Node {
	for _, k := range kids {
		k.Parent = parent
		parent.Kids = append(parent.Kids, k)
	}
	return parent
}

func setAttr(n *canon.Node, space, local, val string) {
	for i := range n.Attrs {
		if n.Attrs[i].Space == space && n.Attrs[i].Local == local {
			n.Attrs[i].Value = val
			return
		}
	}
	n.Attrs = append(n.Attrs, canon.Attr{Space: space, Local: local, Value: val})
	sort.SliceStable(n.Attrs, func(i, j int) bool {
		if n.Attrs[i].Space != n.Attrs[j].Space {
			return n.Attrs[i].Space < n.Attrs[j].Space
		}
		return n.Attrs[i].Local < n.Attrs[j].Local
	})
}

// ---------------------------------------------------------------------------------------------
// serialiser

type fwriter struct {
	b      bytes.Buffer
	d      *Dialect
	ep, ap string            // element / attribute prefix of the W namespace, with the colon
	other  map[string]string // other namespace -> prefix
	err    error
}

var knownPrefix = map[string]string{canon.R: "r", nsMC: "mc", nsW14: "w14", nsW15: "w15", canon.M: "m", canon.WP: "wp", canon.A: "a", canon.PIC: "pic"}

func (f *fwriter) collect(n *canon.Node) {
	see := func(space string) {
		if space == canon.W || space == canon.XML || space == "" {
			return
		}
		if _, ok := f.other[space]; ok {
			return
		}
		p, ok := knownPrefix[space]
		if !ok {
			p = fmt.Sprintf("ns%d", len(f.other)+1)
		}
		f.other[space] = p
	}
	n.Walk(func(x *canon.Node) bool {
		if x.Space == "" {
			f.err = fmt.Errorf("element %s has no namespace", x.Local)
		}
		see(x.Space)
		for _, a := range x.Attrs {
			see(a.Space)
		}
		return true
	})
}

func (f *fwriter) ename(n *canon.Node) string {
	if n.Space == canon.W {
		return f.ep + n.Local
	}
	return f.other[n.Space] + ":" + n.Local
}

func (f *fwriter) aname(a canon.Attr) string {
	switch a.Space {
	case "":
		return a.Local
	case canon.W:
		return f.ap + a.Local
	case canon.XML:
		return "xml:" + a.Local
	}
	return f.other[a.Space] + ":" + a.Local
}

func esc(s string) string {
	var b bytes.Buffer
	xml.EscapeText(&b, []byte(s))
	return b.String()
}

func (f *fwriter) attr(name, val string) {
	q := `"`
	if f.d.Apos {
		q = "'"
	}
	f.b.WriteString(" " + name + "=" + q + esc(val) + q)
}

func (f *fwriter) nl(depth int) {
	if f.d.Compact {
		return
	}
	f.b.WriteByte('\n')
	for i := 0; i < depth; i++ {
		f.b.WriteByte('\t')
	}
}

func (f *fwriter) element(n *canon.Node, depth int, rootDecls func()) {
	if n.Text != "" && len(n.Kids) > 0 {
		f.err = fmt.Errorf("mixed content in %s", n.Local)
		return
	}
	name := f.ename(n)
	f.b.WriteString("<" + name)
	if rootDecls != nil {
		rootDecls()
	}
	attrs := n.Attrs
	if f.d.AttrRev {
		attrs = append([]canon.Attr{}, attrs...)
		for i, j := 0, len(attrs)-1; i < j; i, j = i+1, j-1 {
			attrs[i], attrs[j] = attrs[j], attrs[i]
		}
	}
	for _, a := range attrs {
		f.attr(f.aname(a), a.Value)
	}
	if n.Text == "" && len(n.Kids) == 0 {
		if f.d.SelfClose {
			f.b.WriteString("/>")
		} else {
			f.b.WriteString("></" + name + ">")
		}
		return
	}
	f.b.WriteString(">")
	if len(n.Kids) == 0 {
		f.b.WriteString(esc(n.Text))
	} else {
		for i, k := range n.Kids {
			if depth == 0 && f.d.Comments {
				f.nl(1)
				fmt.Fprintf(&f.b, "<!-- entry %d -->", i)
			}
			f.nl(depth + 1)
			f.element(k, depth+1, nil)
		}
		if depth == 0 && f.d.Comments {
			f.nl(1)
			f.b.WriteString("<!-- end of entries -->")
		}
		f.nl(depth)
	}
	f.b.WriteString("</" + name + ">")
}

// serialize writes the tree as the dialect's producer would.
func (d *Dialect) serialize(root *canon.Node) ([]byte, error) {
	f := &fwriter{d: d, other: map[string]string{}}
	if strings.TrimSpace(root.Text) == "" {
		root.Text = "" // a root without children keeps its white space in the tree
	}
	f.collect(root)
	if d.RootExtra {
		for _, ns := range []string{canon.R, nsMC, nsW14} {
			if _, ok := f.other[ns]; !ok {
				f.other[ns] = knownPrefix[ns]
			}
		}
	}
	switch d.Prefix {
	case "":
		f.ep, f.ap = "w:", "w:"
	case "-":
		f.ep, f.ap = "", attrAlias+":"
	default:
		f.ep, f.ap = d.Prefix+":", d.Prefix+":"
	}
	for _, p := range f.other {
		if p+":" == f.ep || p+":" == f.ap || (d.WOther && p == "w") {
			f.err = fmt.Errorf("prefix %s is taken", p)
		}
	}
	if f.err != nil {
		return nil, f.err
	}
	switch d.Decl {
	case 0:
		f.b.WriteString(`<?xml version="1.0" encoding="UTF-8" standalone="yes"?>` + "\n")
	case 1:
		f.b.WriteString(`<?xml version='1.0' encoding='utf-8'?>` + "\n")
	}
	if d.Comments {
		f.b.WriteString("<!-- written by another producer -->\n")
	}
	f.element(root, 0, func() {
		switch d.Prefix {
		case "":
			f.attr("xmlns:w", canon.W)
		case "-":
			f.attr("xmlns", canon.W)
			f.attr("xmlns:"+attrAlias, canon.W)
		default:
			f.attr("xmlns:"+d.Prefix, canon.W)
			if d.WOther {
				f.attr("xmlns:w", nsOtherW)
			}
		}
		var spaces []string
		for ns := range f.other {
			spaces = append(spaces, ns)
		}
		sort.Strings(spaces)
		for _, ns := range spaces {
			f.attr("xmlns:"+f.other[ns], ns)
		}
		if d.RootExtra {
			f.attr("mc:Ignorable", "w14")
		}
	})
	if d.Comments {
		f.b.WriteString("\n<!-- end -->")
	}
	if f.err != nil {
		return nil, f.err
	}
	return f.b.Bytes(), nil
}

// ---------------------------------------------------------------------------------------------
// notes parts

func isSpecialNote(n *canon.Node) bool {
	switch n.A(canon.W, "type") {
	case "separator", "continuationSeparator", "continuationNotice":
		return true
	}
	return false
}

func (d *Dialect) newNoteID(id string) (string, bool) {
	if d.Stride <= 0 {
		return id, true
	}
	v, err := strconv.Atoi(id)
	if err != nil || v < 1 || strconv.Itoa(v) != id {
		return id, false
	}
	return strconv.Itoa(v*d.Stride + d.Shift), true
}

func textRun(s string) *canon.Node {
	t := wEl("t")
	t.Attrs = append(t.Attrs, canon.Attr{Space: canon.XML, Local: "space", Value: "preserve"})
	t.Text = s
	return add(wEl("r"), t)
}

// cut splits s near its middle at a rune boundary.
func cut(s string) (string, string) {
	i := len(s) / 2
	for i > 0 && !utf8.RuneStart(s[i]) {
		i--
	}
	return s[:i], s[i:]
}

func (d *Dialect) noteBody(entry *canon.Node, entryLocal string) {
	if d.Split == 0 {
		return
	}
	text := allText(entry)
	entry.Kids = nil
	refStyle, ref := "FootnoteReference", "footnoteRef"
	if entryLocal == "endnote" {
		refStyle, ref = "EndnoteReference", "endnoteRef"
	}
	switch d.Split {
	case 1:
		p := wEl("p")
		add(p, add(wEl("pPr"), wEl("pStyle", "val", map[string]string{"footnote": "FootnoteText", "endnote": "EndnoteText"}[entryLocal])))
		add(p, add(wEl("r"), add(wEl("rPr"), wEl("rStyle", "val", refStyle)), wEl(ref)))
		if text != "" {
			add(p, textRun(text))
		}
		add(entry, p)
	case 2:
		a, b := cut(text)
		p := wEl("p")
		add(p, textRun(a), add(wEl("r"), add(wEl("rPr"), wEl("b")), textRun(b).Kids[0]))
		add(entry, p)
	default:
		a, b := cut(text)
		add(entry, add(wEl("p"), textRun(a)), add(wEl("p"), textRun(b)))
	}
}

func specialEntry(entryLocal, typ, id, mark string) *canon.Node {
	e := wEl(entryLocal, "id", id, "type", typ)
	p := wEl("p")
	add(p, add(wEl("pPr"), wEl("spacing", "after", "0", "line", "240", "lineRule", "auto")))
	if mark != "" {
		add(p, add(wEl("r"), wEl(mark)))
	}
	return add(e, p)
}

// notesTree rewrites the tree of one notes part in place; it returns old id -> new id of the ordinary notes and
// the ids of the special entries the part now has.
func (d *Dialect) notesTree(root *canon.Node, entryLocal string) (remap map[string]string, special []string, err error) {
	var specials, users, rest []*canon.Node
	for _, k := range root.Kids {
		switch {
		case !k.Is(canon.W, entryLocal):
			rest = append(rest, k)
		case isSpecialNote(k):
			specials = append(specials, k)
		default:
			users = append(users, k)
		}
	}
	if len(rest) > 0 {
		return nil, nil, fmt.Errorf("the notes part has a child %s", rest[0].Name())
	}
	remap = map[string]string{}
	taken := map[string]bool{}
	maxID := 0
	for i, u := range users {
		old := u.A(canon.W, "id")
		id, ok := d.newNoteID(old)
		if !ok {
			return nil, nil, fmt.Errorf("note id %q is not a positive number", old)
		}
		if taken[id] {
			return nil, nil, fmt.Errorf("note id %q twice", id)
		}
		taken[id] = true
		remap[old] = id
		if v, e := strconv.Atoi(id); e == nil && v > maxID {
			maxID = v
		}
		setAttr(u, canon.W, "id", id)
		if d.TypeNormal == 1 || (d.TypeNormal == 2 && i%2 == 0) {
			setAttr(u, canon.W, "type", "normal")
		}
		d.noteBody(u, entryLocal)
	}
	switch d.Seps {
	case 1:
		specials = nil
	case 2:
		specials = []*canon.Node{
			specialEntry(entryLocal, "separator", "-1", "separator"),
			specialEntry(entryLocal, "continuationSeparator", "0", "continuationSeparator"),
		}
	}
	if d.Notice {
		have := false
		for _, s := range specials {
			have = have || s.A(canon.W, "type") == "continuationNotice"
		}
		if !have {
			id := "1"
			if taken[id] {
				id = strconv.Itoa(maxID + 1)
			}
			specials = append(specials, specialEntry(entryLocal, "continuationNotice", id, ""))
		}
	}
	for _, s := range specials {
		id := s.A(canon.W, "id")
		if taken[id] {
			// an entry kept from the file (a continuationNotice of an earlier producer) whose id a renumbered note
			// has now: this producer gives it a free one
			if id = "1"; taken[id] {
				maxID++
				id = strconv.Itoa(maxID)
			}
			if taken[id] {
				return nil, nil, fmt.Errorf("no free id for a special entry (%q)", id)
			}
			setAttr(s, canon.W, "id", id)
		}
		taken[id] = true
		if v, e := strconv.Atoi(id); e == nil && v > maxID {
			maxID = v
		}
		special = append(special, id)
	}
	if d.Reverse {
		for i, j := 0, len(users)-1; i < j; i, j = i+1, j-1 {
			users[i], users[j] = users[j], users[i]
		}
	}
	root.Kids = nil
	if d.SepsLast {
		add(root, users...)
		add(root, specials...)
	} else {
		add(root, specials...)
		add(root, users...)
	}
	return remap, special, nil
}

// ---------------------------------------------------------------------------------------------
// numbering part

func renum(id string, stride, shift int) (string, bool) {
	if stride <= 0 {
		return id, true
	}
	v, err := strconv.Atoi(id)
	if err != nil || v < 0 || strconv.Itoa(v) != id {
		return id, false
	}
	return strconv.Itoa(v*stride + shift), true
}

var numIDRef = regexp.MustCompile(`(<w:numId w:val=")([0-9]+)(")`)

// numberingTree rewrites the tree of the numbering part in place; it returns old numId -> new numId.
func (d *Dialect) numberingTree(root *canon.Node) (numMap map[string]string, err error) {
	var abs, nums, pre, post []*canon.Node
	for _, k := range root.Kids {
		switch {
		case k.Is(canon.W, "abstractNum"):
			abs = append(abs, k)
		case k.Is(canon.W, "num"):
			nums = append(nums, k)
		case len(abs) == 0 && len(nums) == 0:
			pre = append(pre, k)
		default:
			post = append(post, k)
		}
	}
	numMap = map[string]string{}
	maxNum := 0
	for i, a := range abs {
		id, ok := renum(a.A(canon.W, "abstractNumId"), d.AbsStride, d.AbsShift)
		if !ok {
			return nil, fmt.Errorf("abstractNumId %q is not a number", a.A(canon.W, "abstractNumId"))
		}
		setAttr(a, canon.W, "abstractNumId", id)
		if d.NumExtras && a.Kid(canon.W, "nsid") == nil {
			extra := []*canon.Node{
				wEl("nsid", "val", fmt.Sprintf("%08X", 0x1A2B3C00+i)),
				wEl("multiLevelType", "val", "hybridMultilevel"),
				wEl("tmpl", "val", fmt.Sprintf("%08X", 0x5E6F7000+i)),
			}
			kids := a.Kids
			a.Kids = nil
			add(a, extra...)
			add(a, kids...)
			for j, l := range a.KidsNamed(canon.W, "lvl") {
				setAttr(l, canon.W, "tplc", fmt.Sprintf("%08X", 0x04090000+j))
			}
		}
	}
	for _, n := range nums {
		old := n.A(canon.W, "numId")
		id, ok := renum(old, d.NumStride, d.NumShift)
		if !ok || (d.NumStride > 0 && old == "0") {
			return nil, fmt.Errorf("numId %q cannot be renumbered", old)
		}
		numMap[old] = id
		setAttr(n, canon.W, "numId", id)
		if v, e := strconv.Atoi(id); e == nil && v > maxNum {
			maxNum = v
		}
		ref := n.Kid(canon.W, "abstractNumId")
		if ref == nil {
			return nil, fmt.Errorf("w:num %q has no w:abstractNumId", old)
		}
		aid, ok := renum(ref.A(canon.W, "val"), d.AbsStride, d.AbsShift)
		if !ok {
			return nil, fmt.Errorf("abstractNumId reference %q is not a number", ref.A(canon.W, "val"))
		}
		setAttr(ref, canon.W, "val", aid)
	}
	if d.NumReverse {
		for i, j := 0, len(abs)-1; i < j; i, j = i+1, j-1 {
			abs[i], abs[j] = abs[j], abs[i]
		}
		for i, j := 0, len(nums)-1; i < j; i, j = i+1, j-1 {
			nums[i], nums[j] = nums[j], nums[i]
		}
	}
	if d.NumExtras && len(post) == 0 && len(nums) > 0 {
		post = append(post, wEl("numIdMacAtCleanup", "val", strconv.Itoa(maxNum)))
	}
	root.Kids = nil
	add(root, pre...)
	add(root, abs...)
	add(root, nums...)
	add(root, post...)
	return numMap, nil
}

// ---------------------------------------------------------------------------------------------
// the package

type foreignOut struct {
	raw              []byte
	fnMap, enMap     map[string]string // old id -> new id of the ordinary notes
	fnSpec, enSpec   []string          // ids of the special entries
	notes, numbering bool              // which parts were re-written
}

// rewrite returns the package sn as the dialect's producer would have written it.
func (d *Dialect) rewrite(sn *snap) (*foreignOut, error) {
	out := &foreignOut{fnMap: map[string]string{}, enMap: map[string]string{}}
	repl := map[string][]byte{}
	refs := len(noteRefs(sn.root, "footnoteReference")) + len(noteRefs(sn.root, "endnoteReference"))
	for _, foot := range []bool{true, false} {
		part, rootL, entryL := "word/endnotes.xml", "endnotes", "endnote"
		if foot {
			part, rootL, entryL = "word/footnotes.xml", "footnotes", "footnote"
		}
		data, ok := sn.pkg.Parts[part]
		if !ok {
			continue
		}
		root, err := canon.Parse(data)
		if err != nil || !root.Is(canon.W, rootL) {
			return nil, fmt.Errorf("%s: not a notes part (%v)", part, err)
		}
		dd := *d
		if refs > 0 {
			dd.Stride, dd.Shift = 0, 0 // the main part refers to notes by id: keep the ids
		}
		remap, spec, err := dd.notesTree(root, entryL)
		if err != nil {
			return nil, fmt.Errorf("%s: %v", part, err)
		}
		b, err := dd.serialize(root)
		if err != nil {
			return nil, fmt.Errorf("%s: %v", part, err)
		}
		repl[part] = b
		out.notes = true
		if foot {
			out.fnMap, out.fnSpec = remap, spec
		} else {
			out.enMap, out.enSpec = remap, spec
		}
	}
	if data, ok := sn.pkg.Parts["word/numbering.xml"]; ok {
		root, err := canon.Parse(data)
		if err != nil || !root.Is(canon.W, "numbering") {
			return nil, fmt.Errorf("word/numbering.xml: not a numbering part (%v)", err)
		}
		numMap, err := d.numberingTree(root)
		if err != nil {
			return nil, fmt.Errorf("word/numbering.xml: %v", err)
		}
		b, err := d.serialize(root)
		if err != nil {
			return nil, fmt.Errorf("word/numbering.xml: %v", err)
		}
		repl["word/numbering.xml"] = b
		out.numbering = true
		if d.NumStride > 0 {
			var bad error
			repl["word/document.xml"] = numIDRef.ReplaceAllFunc(sn.pkg.Parts["word/document.xml"], func(m []byte) []byte {
				g := numIDRef.FindSubmatch(m)
				id, ok := numMap[string(g[2])]
				if !ok {
					if string(g[2]) != "0" {
						bad = fmt.Errorf("the main part uses numId %s which the numbering part does not define", g[2])
					}
					return m
				}
				return []byte(string(g[1]) + id + string(g[3]))
			})
			if bad != nil {
				return nil, bad
			}
		}
	}
	if len(repl) == 0 {
		out.raw = sn.raw
		return out, nil
	}
	zr, err := zip.NewReader(bytes.NewReader(sn.raw), int64(len(sn.raw)))
	if err != nil {
		return nil, err
	}
	var buf bytes.Buffer
	zw := zip.NewWriter(&buf)
	for _, f := range zr.File {
		w, err := zw.Create(f.Name)
		if err != nil {
			return nil, err
		}
		data, ok := repl[f.Name]
		if !ok {
			data = sn.pkg.Parts[f.Name]
		}
		if _, err := w.Write(data); err != nil {
			return nil, err
		}
	}
	if err := zw.Close(); err != nil {
		return nil, err
	}
	out.raw = buf.Bytes()
	return out, nil
}

type lvlView struct{ text, ilvl, fmt, lvlText, start, why string }

func listViews(sn *snap) ([]lvlView, error) {
	var num *numbering
	if data, ok := sn.pkg.Parts["word/numbering.xml"]; ok {
		var err error
		if num, err = parseNumbering(data); err != nil {
			return nil, err
		}
	}
	var out []lvlView
	for _, lp := range listParas(sn.body) {
		v := lvlView{text: lp.text, ilvl: lp.ilvl}
		if l, _ := num.level(lp.numID, lp.ilvl); l != nil {
			v.fmt = l.Kid(canon.W, "numFmt").A(canon.W, "val")
			v.lvlText = l.Kid(canon.W, "lvlText").A(canon.W, "val")
			v.start = l.Kid(canon.W, "start").A(canon.W, "val")
		} else {
			v.why = "unresolved"
		}
		out = append(out, v)
	}
	return out, nil
}

// sameMeaning verifies with the harness's own readers that the re-written package holds the same notes (ids
// renumbered as stated) and the same list paragraphs with the same definitions as the package it was made from.
func sameMeaning(before, after *snap, fo *foreignOut) error {
	for _, foot := range []bool{true, false} {
		part, rootL, entryL, m := "word/endnotes.xml", "endnotes", "endnote", fo.enMap
		if foot {
			part, rootL, entryL, m = "word/footnotes.xml", "footnotes", "footnote", fo.fnMap
		}
		a, okA := before.pkg.Parts[part]
		b, okB := after.pkg.Parts[part]
		if okA != okB {
			return fmt.Errorf("%s present %v -> %v", part, okA, okB)
		}
		if !okA {
			continue
		}
		ea, err := parseNotes(a, rootL, entryL)
		if err != nil {
			return fmt.Errorf("%s before: %v", part, err)
		}
		eb, err := parseNotes(b, rootL, entryL)
		if err != nil {
			return fmt.Errorf("%s after: %v", part, err)
		}
		if len(ea) != len(eb) {
			return fmt.Errorf("%s: %d notes -> %d notes", part, len(ea), len(eb))
		}
		want := map[string]string{}
		for _, e := range ea {
			want[m[e.id]] = e.text
		}
		got := map[string]string{}
		for _, e := range eb {
			got[e.id] = e.text
		}
		if len(want) != len(ea) || len(got) != len(eb) {
			return fmt.Errorf("%s: duplicate ids", part)
		}
		if dd := diffNotes(got, want); dd != "" {
			return fmt.Errorf("%s: %s", part, dd)
		}
	}
	la, err := listViews(before)
	if err != nil {
		return fmt.Errorf("numbering before: %v", err)
	}
	lb, err := listViews(after)
	if err != nil {
		return fmt.Errorf("numbering after: %v", err)
	}
	if len(la) != len(lb) {
		return fmt.Errorf("%d list paragraphs -> %d", len(la), len(lb))
	}
	for i := range la {
		if la[i] != lb[i] {
			return fmt.Errorf("list paragraph %d: %+v -> %+v", i, la[i], lb[i])
		}
	}
	if got, want := fmt.Sprint(content(after.body)), fmt.Sprint(content(before.body)); got != want {
		return fmt.Errorf("the body content changed")
	}
	return nil
}

func remapNotes(m map[string]string, ids map[string]string) map[string]string {
	out := make(map[string]string, len(m))
	for id, text := range m {
		if n, ok := ids[id]; ok {
			out[n] = text
		} else {
			out[id] = text
		}
	}
	return out
}

// foreignBytes re-writes the saved package sn in the dialect of the reopen op and renumbers the model; on any
// problem of the harness's own making the original bytes are used and the problem is reported as C15.0.harness.
func (s *state) foreignBytes(sn *snap, d *Dialect) []byte {
	fo, err := d.rewrite(sn)
	if err != nil {
		s.fail("C15.0.harness", "the harness could not re-write the saved package as another producer: %v", err)
		return sn.raw
	}
	if !fo.notes && !fo.numbering {
		return sn.raw
	}
	after, err := takeSnap(fo.raw)
	if err == nil {
		after.raw = fo.raw
		err = sameMeaning(sn, after, fo)
	}
	if err != nil {
		s.fail("C15.0.harness", "the package re-written as another producer does not mean the same document: %v", err)
		return sn.raw
	}
	res := s.res
	res.Label("reopen:foreign")
	if fo.notes && len(s.fn)+len(s.en) > 0 {
		res.Label("foreign:notes-in-file")
		if d.TypeNormal > 0 {
			res.Label("foreign:type-normal")
		}
		if d.Stride > 0 && (len(fo.fnMap)+len(fo.enMap) > 0) {
			res.Label("foreign:note-ids-renumbered")
		}
		if d.Notice || d.Seps != 0 {
			res.Label("foreign:special-entries")
		}
		if d.Split != 0 {
			res.Label("foreign:note-body-shape")
		}
	}
	if fo.numbering && len(s.items) > 0 {
		res.Label("foreign:numbering-in-file")
		if d.NumStride > 0 || d.AbsStride > 0 {
			res.Label("foreign:numbering-ids-renumbered")
		}
	}
	if d.Prefix != "" {
		res.Label("foreign:prefix")
	}
	// the model speaks of the document in the file from now on: its notes have the file's ids
	s.fn, s.en = remapNotes(s.fn, fo.fnMap), remapNotes(s.en, fo.enMap)
	keep := func(removed []string, live map[string]string) []string {
		var out []string
		for _, id := range removed {
			if _, l := live[id]; !l {
				out = append(out, id)
			}
		}
		return out
	}
	s.fnRemoved, s.enRemoved = keep(s.fnRemoved, s.fn), keep(s.enRemoved, s.en)
	s.fnSpecial, s.enSpecial = fo.fnSpec, fo.enSpec
	return fo.raw
}

package c15

import (
	"testing"

	"wzverif/internal/kit"
)

// FuzzC15: coverage-guided search over the generator and oracle of TestC15 (thorough tier; see internal/kit/fuzz.go).
func FuzzC15(f *testing.F) { kit.FuzzVia(f, TestC15) }
